package c08

import (
	"bytes"
	"errors"
	"fmt"
	"reflect"
	"sort"

	"golang.org/x/text/language"
	"seehuhn.de/go/sfnt/glyph"
	"seehuhn.de/go/sfnt/opentype/gtab"
	"seehuhn.de/go/sfnt/verifharness/vlib"
)

// Oracle-only cases (no model counterpart, lines start with "!"):
//
//	!sub-enc (gsub41 COV (((out in ...) ...) ...))      Gsub4_1
//	!sub-enc (gpos21 ((left right VR VR) ...))          Gpos2_1
//	!info gsub|gpos SCRIPTS FEATURES LOOKUPS            (*gtab.Info).Encode / gtab.Read
//	   SCRIPTS  = ((tag required (optional ...)) ...)
//	   FEATURES = ((tag (lookup ...)) | (tag n seed) ...)   n generated indices
//	   LOOKUPS  = ((type flags mfs (SUBTABLE ...)) ...)

// ---- Gsub4_1 / Gpos2_1 ------------------------------------------------

type ligDesc struct {
	out int
	in  []int
}

type pairDesc struct {
	left, right   int
	first, second *gtab.GposValueRecord
}

type xDesc struct { // extra (oracle-only) subtable kinds
	kind  string
	cov   []pair
	ligs  [][]ligDesc
	pairs []pairDesc
}

func (d xDesc) sx() vlib.Sx {
	switch d.kind {
	case "gsub41":
		sets := vlib.List{}
		for _, set := range d.ligs {
			l := vlib.List{}
			for _, lg := range set {
				l = append(l, append(vlib.List{vlib.Int(lg.out)}, vlib.Ints(lg.in).(vlib.List)...))
			}
			sets = append(sets, l)
		}
		return vlib.L(vlib.Atom("gsub41"), runsSx(d.cov), sets)
	case "gpos21":
		l := vlib.List{}
		for _, p := range d.pairs {
			l = append(l, vlib.L(vlib.Int(p.left), vlib.Int(p.right), vrSx(p.first), vrSx(p.second)))
		}
		return vlib.L(vlib.Atom("gpos21"), l)
	}
	return vlib.Atom("?")
}

func (d xDesc) build() gtab.Subtable {
	switch d.kind {
	case "gsub41":
		repl := make([][]gtab.Ligature, len(d.ligs))
		for i, set := range d.ligs {
			repl[i] = make([]gtab.Ligature, len(set))
			for j, lg := range set {
				repl[i][j] = gtab.Ligature{In: gids(lg.in), Out: glyph.ID(lg.out)}
			}
		}
		return &gtab.Gsub4_1{Cov: tableOf(d.cov), Repl: repl}
	case "gpos21":
		g := gtab.Gpos2_1{}
		for _, p := range d.pairs {
			g[glyph.Pair{Left: glyph.ID(p.left), Right: glyph.ID(p.right)}] = &gtab.PairAdjust{First: p.first, Second: p.second}
		}
		return g
	}
	return nil
}

func describeX(s gtab.Subtable) (xDesc, bool) {
	switch t := s.(type) {
	case *gtab.Gsub4_1:
		d := xDesc{kind: "gsub41", cov: covPairs(t.Cov)}
		for _, set := range t.Repl {
			var l []ligDesc
			for _, lg := range set {
				l = append(l, ligDesc{int(lg.Out), intsOf(lg.In)})
			}
			d.ligs = append(d.ligs, l)
		}
		return d, true
	case gtab.Gpos2_1:
		d := xDesc{kind: "gpos21"}
		for k, v := range t {
			d.pairs = append(d.pairs, pairDesc{int(k.Left), int(k.Right), v.First, v.Second})
		}
		sort.Slice(d.pairs, func(a, b int) bool {
			if d.pairs[a].left != d.pairs[b].left {
				return d.pairs[a].left < d.pairs[b].left
			}
			return d.pairs[a].right < d.pairs[b].right
		})
		return d, true
	}
	return xDesc{}, false
}

func sameX(a, b xDesc) bool {
	if a.kind != b.kind || fmt.Sprint(a.cov) != fmt.Sprint(b.cov) || len(a.ligs) != len(b.ligs) || len(a.pairs) != len(b.pairs) {
		return false
	}
	for i := range a.ligs {
		if len(a.ligs[i]) != len(b.ligs[i]) {
			return false
		}
		for j := range a.ligs[i] {
			if a.ligs[i][j].out != b.ligs[i][j].out || fmt.Sprint(a.ligs[i][j].in) != fmt.Sprint(b.ligs[i][j].in) {
				return false
			}
		}
	}
	// value records: nil = all-zero unless every record of that side is nil
	allNil1, allNil2 := true, true
	for _, p := range a.pairs {
		allNil1 = allNil1 && p.first == nil
		allNil2 = allNil2 && p.second == nil
	}
	eq := func(x, y *gtab.GposValueRecord, allNil bool) bool {
		return vrEqual(x, y) || (!allNil && vrIsZero(x) && vrIsZero(y))
	}
	for i := range a.pairs {
		p, q := a.pairs[i], b.pairs[i]
		if p.left != q.left || p.right != q.right || !eq(p.first, q.first, allNil1) || !eq(p.second, q.second, allNil2) {
			return false
		}
	}
	return true
}

func (d xDesc) wellFormed() bool {
	if d.kind == "gsub41" {
		return validCov(d.cov) && len(d.ligs) == len(d.cov)
	}
	return true
}

func (d xDesc) table() (gtab.Type, int) {
	if d.kind == "gsub41" {
		return gtab.TypeGsub, 4
	}
	return gtab.TypeGpos, 2
}

// xModelled: the extra kinds that have a model counterpart
var xModelled = map[string]bool{"gsub41": true, "gpos21": true}

func subEncX(d xDesc) (impl, fail string) {
	impl, fail, _ = subEncX2(d)
	return
}

func subEncX2(d xDesc) (impl, fail string, encOut []byte) {
	impl, fail = subEncX1(d)
	if impl == "ok" || (impl != "panic" && impl != "panic-len") {
		st := d.build()
		var enc []byte
		var n int
		guard(func() { enc = gtab.VerifC08Encode(st); n = gtab.VerifC08EncodeLen(st) })
		impl = vlib.Str(vlib.L(vlib.Atom("ok"), vlib.Hex(enc), vlib.Int(n)))
		encOut = enc
	}
	return
}

func subEncX1(d xDesc) (impl, fail string) {
	st := d.build()
	var enc []byte
	var n int
	p1, msg := guard(func() { enc = gtab.VerifC08Encode(st) })
	p2, _ := guard(func() { n = gtab.VerifC08EncodeLen(st) })
	if p1 {
		// refusal is legitimate only when a 16-bit offset cannot hold
		if p2 || n < 0xFFFF {
			return "panic", "encode panics on a well-formed subtable: " + msg
		}
		return "panic", ""
	}
	if p2 {
		return "panic-len", "encodeLen panics but encode does not"
	}
	if n != len(enc) {
		return "ok", fmt.Sprintf("encodeLen = %d but encode wrote %d bytes", n, len(enc))
	}
	if !d.wellFormed() {
		return "ok", ""
	}
	tp, lt := d.table()
	var back gtab.Subtable
	var err error
	if pp, msg := guard(func() { back, err = gtab.VerifC08ReadSubtable(enc, 0, tp, uint16(lt)) }); pp {
		return "ok", "the reader panics on encode's output: " + msg
	}
	if err != nil {
		return "ok", "the reader rejects encode's output: " + err.Error()
	}
	bd, ok := describeX(back)
	if !ok || !sameX(d, bd) {
		return "ok", "round trip changes the subtable: " + vlib.Str(bd.sx())
	}
	return "ok", ""
}

func genX(r *vlib.Rand, kind string, maxG int) xDesc {
	d := xDesc{kind: kind}
	if kind == "gsub41" {
		gl := glyphSet(r, maxG)
		d.cov = validPairs(gl)
		for range gl {
			n := r.Intn(4)
			set := make([]ligDesc, n)
			for j := range set {
				set[j] = ligDesc{out: r.Intn(65536), in: genSeq(r, 3)}
				if set[j].in == nil {
					set[j].in = []int{}
				}
			}
			d.ligs = append(d.ligs, set)
		}
		return d
	}
	seen := map[[2]int]bool{}
	n := r.Intn(maxG + 1)
	lefts := glyphSet(r, 6)
	mode := r.Intn(4) // 0: all first nil, 1: all second nil, 2,3: mixed
	for k := 0; k < n && len(lefts) > 0; k++ {
		l, rg := int(vlib.Pick(r, lefts)), vlib.Pick(r, []int{0, 1, 65535, r.Intn(65536)})
		if seen[[2]int{l, rg}] {
			continue
		}
		seen[[2]int{l, rg}] = true
		p := pairDesc{left: l, right: rg, first: genVR(r), second: genVR(r)}
		if mode == 0 {
			p.first = nil
		}
		if mode == 1 {
			p.second = nil
		}
		d.pairs = append(d.pairs, p)
	}
	sort.Slice(d.pairs, func(a, b int) bool {
		if d.pairs[a].left != d.pairs[b].left {
			return d.pairs[a].left < d.pairs[b].left
		}
		return d.pairs[a].right < d.pairs[b].right
	})
	return d
}

func xDescOf(x vlib.Sx) (xDesc, error) {
	f, err := vlib.AsList(x)
	if err != nil || len(f) < 2 {
		return xDesc{}, errors.New("bad subtable")
	}
	k, _ := vlib.AsAtom(f[0])
	d := xDesc{kind: k}
	switch k {
	case "gsub41":
		if len(f) != 3 {
			return d, errors.New("bad gsub41")
		}
		d.cov, err = covRunsOf(f[1])
		if err != nil {
			return d, err
		}
		sets, err := vlib.AsList(f[2])
		if err != nil {
			return d, err
		}
		for _, s := range sets {
			ls, err := vlib.AsList(s)
			if err != nil {
				return d, err
			}
			set := []ligDesc{}
			for _, l := range ls {
				v, err := vlib.AsInts(l)
				if err != nil || len(v) < 1 {
					return d, errors.New("bad ligature")
				}
				set = append(set, ligDesc{v[0], append([]int{}, v[1:]...)})
			}
			d.ligs = append(d.ligs, set)
		}
	case "gpos21":
		ps, err := vlib.AsList(f[1])
		if err != nil {
			return d, err
		}
		for _, p := range ps {
			q, err := vlib.AsList(p)
			if err != nil || len(q) != 4 {
				return d, errors.New("bad pair")
			}
			l, e1 := vlib.AsInt(q[0])
			rg, e2 := vlib.AsInt(q[1])
			v1, e3 := vrOf(q[2])
			v2, e4 := vrOf(q[3])
			if e1 != nil || e2 != nil || e3 != nil || e4 != nil {
				return d, errors.New("bad pair fields")
			}
			d.pairs = append(d.pairs, pairDesc{l, rg, v1, v2})
		}
	default:
		return d, errors.New("unknown extra subtable kind")
	}
	return d, nil
}

// ---- whole tables -----------------------------------------------------

type featDesc struct {
	tag     string
	lookups []int // explicit
	n, seed int   // or generated: n indices
}

func (f featDesc) indices() []gtab.LookupIndex {
	if f.n == 0 && f.lookups != nil {
		out := make([]gtab.LookupIndex, len(f.lookups))
		for i, x := range f.lookups {
			out[i] = gtab.LookupIndex(x)
		}
		return out
	}
	if f.n == 0 {
		return nil
	}
	out := make([]gtab.LookupIndex, f.n)
	for i := range out {
		out[i] = gtab.LookupIndex((f.seed + 3*i) & 0xffff)
	}
	return out
}

type scriptDesc struct {
	tag      string
	required int
	optional []int
}

type lookupDesc struct {
	tp, flags, mfs int
	subs           []vlib.Sx // stDesc or xDesc s-expressions
}

type infoDesc struct {
	table    string // gsub | gpos
	scripts  []scriptDesc
	features []featDesc
	lookups  []lookupDesc
}

func (d infoDesc) line() string {
	sc := vlib.List{}
	for _, s := range d.scripts {
		sc = append(sc, vlib.L(vlib.Atom(s.tag), vlib.Int(s.required), vlib.Ints(s.optional)))
	}
	fs := vlib.List{}
	for _, f := range d.features {
		if f.n > 0 {
			fs = append(fs, vlib.L(vlib.Atom(f.tag), vlib.Int(f.n), vlib.Int(f.seed)))
		} else {
			fs = append(fs, vlib.L(vlib.Atom(f.tag), vlib.Ints(f.lookups)))
		}
	}
	ls := vlib.List{}
	for _, l := range d.lookups {
		ls = append(ls, vlib.L(vlib.Int(l.tp), vlib.Int(l.flags), vlib.Int(l.mfs), vlib.List(l.subs)))
	}
	return "!" + vlib.Line(vlib.Atom("info"), vlib.Atom(d.table), sc, fs, ls)
}

func buildSub(x vlib.Sx) (gtab.Subtable, error) {
	if d, err := stDescOf(x); err == nil {
		return d.build(), nil
	}
	d, err := xDescOf(x)
	if err != nil {
		return nil, err
	}
	return d.build(), nil
}

func sameSub(a, b gtab.Subtable) bool {
	if da, ok := describe(a); ok {
		db, ok2 := describe(b)
		return ok2 && same(da, db)
	}
	if da, ok := describeX(a); ok {
		db, ok2 := describeX(b)
		return ok2 && sameX(da, db)
	}
	return reflect.DeepEqual(a, b)
}

func (d infoDesc) build() (*gtab.Info, error) {
	info := &gtab.Info{ScriptList: gtab.ScriptListInfo{}, FeatureList: gtab.FeatureListInfo{}, LookupList: gtab.LookupList{}}
	for _, s := range d.scripts {
		tag, err := language.Parse(s.tag)
		if err != nil {
			return nil, err
		}
		opt := make([]gtab.FeatureIndex, len(s.optional))
		for i, x := range s.optional {
			opt[i] = gtab.FeatureIndex(x)
		}
		info.ScriptList[tag] = &gtab.Features{Required: gtab.FeatureIndex(s.required), Optional: opt}
	}
	for _, f := range d.features {
		if len(f.tag) != 4 {
			return nil, errors.New("feature tag must have 4 bytes")
		}
		info.FeatureList = append(info.FeatureList, &gtab.Feature{Tag: f.tag, Lookups: f.indices()})
	}
	for _, l := range d.lookups {
		lt := &gtab.LookupTable{Meta: &gtab.LookupMetaInfo{LookupType: uint16(l.tp), LookupFlags: gtab.LookupFlags(l.flags), MarkFilteringSet: uint16(l.mfs)}}
		for _, x := range l.subs {
			st, err := buildSub(x)
			if err != nil {
				return nil, err
			}
			lt.Subtables = append(lt.Subtables, st)
		}
		info.LookupList = append(info.LookupList, lt)
	}
	return info, nil
}

// expectRefusal: some 16-bit offset or count of the table cannot hold its
// value - one of the lists refuses on its own, or the (emitted) sizes of the
// script and feature lists push the feature or lookup list beyond 65535.
func (d infoDesc) expectRefusal(info *gtab.Info) bool {
	var sl, fl []byte
	if pp, _ := guard(func() { sl = gtab.VerifC08ScriptListEncode(info.ScriptList) }); pp {
		return true
	}
	if pp, _ := guard(func() { fl = gtab.VerifC08FeatureListEncode(info.FeatureList) }); pp {
		return true
	}
	return 10+len(sl) > 0xFFFF || 10+len(sl)+len(fl) > 0xFFFF
}

func infoCase(d infoDesc) (impl, fail string) {
	info, err := d.build()
	if err != nil {
		return "bad", ""
	}
	var enc []byte
	pp, msg := guard(func() { enc = info.Encode() })
	refuse := d.expectRefusal(info)
	if pp {
		if !refuse {
			// the lookup list has its own legitimate refusals
			total := 0
			for _, l := range info.LookupList {
				own := 8 + 2*len(l.Subtables)
				for _, s := range l.Subtables {
					n := 0
					guard(func() { n = gtab.VerifC08EncodeLen(s) })
					own += n
				}
				if own > 0xFFFF {
					return "panic", ""
				}
				total += own
			}
			return "panic", "Encode panics on a representable table: " + msg
		}
		return "panic", ""
	}
	tp := gtab.Type(gtab.TypeGsub)
	if d.table == "gpos" {
		tp = gtab.TypeGpos
	}
	var back *gtab.Info
	if pp, msg := guard(func() { back, err = gtab.Read(bytes.NewReader(enc), tp) }); pp {
		return "ok", "gtab.Read panics on Encode's output: " + msg
	}
	if err != nil {
		return "ok", "gtab.Read rejects Encode's output: " + err.Error()
	}
	if !reflect.DeepEqual(info.ScriptList, back.ScriptList) {
		return "ok", "script list changes in a round trip"
	}
	if len(info.FeatureList) != len(back.FeatureList) {
		return "ok", "feature list changes length in a round trip"
	}
	for i := range info.FeatureList {
		a, b := info.FeatureList[i], back.FeatureList[i]
		if a.Tag != b.Tag || len(a.Lookups) != len(b.Lookups) {
			return "ok", fmt.Sprintf("feature %d changes in a round trip", i)
		}
		for k := range a.Lookups {
			if a.Lookups[k] != b.Lookups[k] {
				return "ok", fmt.Sprintf("feature %d changes in a round trip", i)
			}
		}
	}
	if len(info.LookupList) != len(back.LookupList) {
		return "ok", "lookup list changes length in a round trip"
	}
	for i := range info.LookupList {
		a, b := info.LookupList[i], back.LookupList[i]
		mfs := a.Meta.MarkFilteringSet
		if a.Meta.LookupFlags&gtab.UseMarkFilteringSet == 0 {
			mfs = 0
		}
		if a.Meta.LookupType != b.Meta.LookupType || a.Meta.LookupFlags != b.Meta.LookupFlags || mfs != b.Meta.MarkFilteringSet ||
			len(a.Subtables) != len(b.Subtables) {
			return "ok", fmt.Sprintf("lookup %d: meta data or subtable count changes in a round trip", i)
		}
		for j := range a.Subtables {
			if !sameSub(a.Subtables[j], b.Subtables[j]) {
				return "ok", fmt.Sprintf("lookup %d subtable %d changes in a round trip", i, j)
			}
		}
	}
	if len(enc) > 0xFFFF {
		return "ok>64KiB", ""
	}
	return "ok", ""
}

// canonical script tags: what gtab.Read returns for a tag (the tag round
// trip itself is property C14); only fixed points are used.
func canonicalTags() []string {
	var out []string
	for _, t := range []string{"en", "de", "tr", "ar", "ru", "el", "und-Latn", "und-Arab", "und-Grek", "zh-Hans"} {
		tag := language.MustParse(t)
		for step := 0; step < 2; step++ {
			info := &gtab.Info{ScriptList: gtab.ScriptListInfo{tag: {Required: 0xFFFF, Optional: []gtab.FeatureIndex{}}},
				FeatureList: gtab.FeatureListInfo{}, LookupList: gtab.LookupList{}}
			var back *gtab.Info
			var err error
			if pp, _ := guard(func() { back, err = gtab.Read(bytes.NewReader(info.Encode()), gtab.TypeGsub) }); pp || err != nil || len(back.ScriptList) != 1 {
				tag = language.Und
				break
			}
			for k := range back.ScriptList {
				tag = k
			}
		}
		if tag != language.Und {
			out = append(out, tag.String())
		}
	}
	sort.Strings(out)
	return out
}

func genInfo(r *vlib.Rand, tags []string, big string) infoDesc {
	d := infoDesc{table: vlib.Pick(r, []string{"gsub", "gpos"})}
	nl := r.Intn(6)
	for i := 0; i < nl; i++ {
		var l lookupDesc
		l.flags = vlib.Pick(r, []int{0, 1, 8, 0x10, 0xff00})
		l.mfs = r.Intn(100)
		ns := 1 + r.Intn(3)
		kind := ""
		if d.table == "gsub" {
			kind = vlib.Pick(r, []string{"gsub11", "gsub12", "gsub21", "gsub31", "gsub41"})
			l.tp = map[string]int{"gsub11": 1, "gsub12": 1, "gsub21": 2, "gsub31": 3, "gsub41": 4}[kind]
		} else {
			kind = vlib.Pick(r, []string{"gpos11", "gpos12", "gpos21"})
			l.tp = map[string]int{"gpos11": 1, "gpos12": 1, "gpos21": 2}[kind]
		}
		for j := 0; j < ns; j++ {
			maxG := vlib.Pick(r, []int{3, 10, 40})
			if big == "lookups" {
				maxG = 4000
			}
			k2 := kind
			if kind == "gsub11" && r.Bool() {
				k2 = "gsub12"
			}
			if kind == "gpos11" && r.Bool() {
				k2 = "gpos12"
			}
			switch k2 {
			case "gsub41", "gpos21":
				l.subs = append(l.subs, genX(r, k2, maxG).sx())
			default:
				st := genSubtable(r, k2, maxG)
				for !st.wellFormed() {
					st = genSubtable(r, k2, maxG)
				}
				l.subs = append(l.subs, st.sx())
			}
		}
		d.lookups = append(d.lookups, l)
	}
	nf := r.Intn(6)
	for i := 0; i < nf; i++ {
		f := featDesc{tag: vlib.Pick(r, []string{"liga", "kern", "calt", "mark", "ss01", "    ", "\x00\x01\x02\x03"})}
		if f.tag == "\x00\x01\x02\x03" {
			f.tag = "abcd" // keep the case line printable
		}
		n := r.Intn(5)
		f.lookups = make([]int, n)
		for k := range f.lookups {
			f.lookups[k] = vlib.Pick(r, []int{0, 1, 65535, r.Intn(nl + 1)})
		}
		if n == 0 {
			f.lookups = nil
		}
		d.features = append(d.features, f)
	}
	switch big {
	case "feature": // one long feature: the lookup list starts beyond 65535
		d.features = append(d.features, featDesc{tag: "bigf", n: vlib.Pick(r, []int{32000, 32700, 32760, 40000, 65535, 65536, 70000}), seed: r.Intn(100)})
	case "features": // many features: the last offset passes 65535
		for i := 0; i < vlib.Pick(r, []int{5000, 9000, 10900, 10922, 10923}); i++ {
			d.features = append(d.features, featDesc{tag: "many", lookups: nil})
		}
	}
	ns := r.Intn(len(tags) + 1)
	used := map[string]bool{}
	for i := 0; i < ns; i++ {
		t := vlib.Pick(r, tags)
		if used[t] {
			continue
		}
		used[t] = true
		s := scriptDesc{tag: t, required: vlib.Pick(r, []int{0xFFFF, 0, r.Intn(nf + 1)})}
		no := r.Intn(4)
		if big == "script" && i == 0 {
			no = vlib.Pick(r, []int{32000, 32750, 40000, 65535, 65536})
		}
		s.optional = make([]int, no)
		for k := range s.optional {
			s.optional[k] = r.Intn(nf + 1)
		}
		d.scripts = append(d.scripts, s)
	}
	sort.Slice(d.scripts, func(a, b int) bool { return d.scripts[a].tag < d.scripts[b].tag })
	return d
}

func infoDescOf(items []vlib.Sx) (infoDesc, error) {
	var d infoDesc
	if len(items) != 5 {
		return d, errors.New("info: want 4 arguments")
	}
	var err error
	d.table, err = vlib.AsAtom(items[1])
	if err != nil {
		return d, err
	}
	sc, e1 := vlib.AsList(items[2])
	fs, e2 := vlib.AsList(items[3])
	ls, e3 := vlib.AsList(items[4])
	if e1 != nil || e2 != nil || e3 != nil {
		return d, errors.New("info: bad lists")
	}
	for _, x := range sc {
		f, err := vlib.AsList(x)
		if err != nil || len(f) != 3 {
			return d, errors.New("bad script")
		}
		t, _ := vlib.AsAtom(f[0])
		req, e1 := vlib.AsInt(f[1])
		opt, e2 := vlib.AsInts(f[2])
		if e1 != nil || e2 != nil {
			return d, errors.New("bad script fields")
		}
		d.scripts = append(d.scripts, scriptDesc{t, req, opt})
	}
	for _, x := range fs {
		f, err := vlib.AsList(x)
		if err != nil || len(f) < 2 {
			return d, errors.New("bad feature")
		}
		t, _ := vlib.AsAtom(f[0])
		if len(f) == 3 {
			n, e1 := vlib.AsInt(f[1])
			sd, e2 := vlib.AsInt(f[2])
			if e1 != nil || e2 != nil {
				return d, errors.New("bad feature fields")
			}
			d.features = append(d.features, featDesc{tag: t, n: n, seed: sd})
			continue
		}
		l, err := vlib.AsInts(f[1])
		if err != nil {
			return d, err
		}
		if len(l) == 0 {
			l = nil
		}
		d.features = append(d.features, featDesc{tag: t, lookups: l})
	}
	for _, x := range ls {
		f, err := vlib.AsList(x)
		if err != nil || len(f) != 4 {
			return d, errors.New("bad lookup")
		}
		tp, e1 := vlib.AsInt(f[0])
		fl, e2 := vlib.AsInt(f[1])
		mfs, e3 := vlib.AsInt(f[2])
		subs, e4 := vlib.AsList(f[3])
		if e1 != nil || e2 != nil || e3 != nil || e4 != nil {
			return d, errors.New("bad lookup fields")
		}
		d.lookups = append(d.lookups, lookupDesc{tp, fl, mfs, subs})
	}
	return d, nil
}

type xenc struct {
	d   xDesc
	enc []byte
}

func genInfos(run *vlib.Run, r *vlib.Rand, tier string) {
	var xencs []xenc
	// the remaining P1 subtable kinds, oracle only
	for k := 0; k < vlib.Count(tier, 300, 6000); k++ {
		d := genX(r, vlib.Pick(r, []string{"gsub41", "gpos21"}), vlib.Pick(r, []int{3, 10, 40}))
		if d.kind == "gsub41" && r.Chance(1, 12) && len(d.ligs) > 0 { // ill-formed: one set missing
			d.ligs = d.ligs[:len(d.ligs)-1]
		}
		line := vlib.Line(vlib.Atom("sub-enc"), d.sx())
		lb := "sub-enc"
		if !xModelled[d.kind] {
			line = "!" + line
			lb = "sub-enc(oracle only)"
		}
		impl, fail, enc := subEncX2(d)
		idx := run.Add(line, impl, true, lb, "sub-enc:"+d.kind)
		if fail != "" {
			run.Fail(idx, line, fail, "c08-subtable-"+d.kind)
		}
		if enc != nil && len(enc) < 500 {
			xencs = append(xencs, xenc{d, enc})
		}
	}
	// the 16-bit limit of the GSUB 4.1 coverage offset: 6 + n*(2+2+6) = 65526 / 65536
	for _, n := range []int{6552, 6553} {
		d := xDesc{kind: "gsub41"}
		for i := 0; i < n; i++ {
			d.cov = append(d.cov, pair{i, i})
			d.ligs = append(d.ligs, []ligDesc{{out: i, in: []int{}}})
		}
		line := vlib.Line(vlib.Atom("sub-enc"), d.sx())
		impl, fail, _ := subEncX2(d)
		idx := run.Add(line, impl, true, "sub-enc", fmt.Sprintf("sub-enc:gsub41-n=%d", n))
		if fail != "" {
			run.Fail(idx, line, fail, "c08-subtable-gsub41")
		}
	}
	// readers of the extra kinds on (damaged) encodings
	for k := 0; k < vlib.Count(tier, 300, 6000) && len(xencs) > 0; k++ {
		e := vlib.Pick(r, xencs)
		tbl := "gsub"
		if e.d.kind[:4] == "gpos" {
			tbl = "gpos"
		}
		_, lt := e.d.table()
		pre := r.Intn(3)
		data := append(r.Bytes(pre), e.enc...)
		lb := "sub-read:valid"
		if r.Chance(2, 3) {
			var m []byte
			m, lb = mutate(r, e.enc)
			data = append(r.Bytes(pre), m...)
		}
		impl, fail, modelled := subRead(tbl, lt, data, pre)
		line := vlib.Line(vlib.Atom("sub-read"), vlib.Atom(tbl), vlib.Int(lt), vlib.Hex(data), vlib.Int(pre))
		if !modelled {
			line = "!" + line
		}
		idx := run.Add(line, impl, len(data) >= 8, "sub-read", lb, "sub-read:"+e.d.kind, "sub-read:"+impl[:min(len(impl), 3)])
		if fail != "" {
			run.Fail(idx, line, fail, "c08-subtable-read")
		}
	}
	// Gpos2_1 whose pair sets start beyond 65535: must be refused
	{
		d := xDesc{kind: "gpos21"}
		for l := 0; l < 300; l++ {
			for rg := 0; rg < 60; rg++ {
				d.pairs = append(d.pairs, pairDesc{l, rg, &gtab.GposValueRecord{XAdvance: 1}, nil})
			}
		}
		line := vlib.Line(vlib.Atom("sub-enc"), d.sx())
		impl, fail, _ := subEncX2(d)
		idx := run.Add(line, impl, true, "sub-enc", "sub-enc:gpos21-pairset-offset>65535")
		if fail != "" {
			run.Fail(idx, line, fail, "c08-subtable-gpos21")
		}
	}

	tags := canonicalTags()
	run.Extra["canonical_script_tags"] = tags
	add := func(d infoDesc, lb ...string) {
		line := d.line()
		impl, fail := infoCase(d)
		if impl == "ok>64KiB" {
			lb = append(lb, "info:table>64KiB(extension path with real subtables)")
			impl = "ok"
		}
		idx := run.Add(line, impl, len(d.lookups) > 0, append([]string{"info(oracle only)", "info:" + impl}, lb...)...)
		if fail != "" {
			run.Fail(idx, line, fail, "c08-info")
		}
	}
	for k := 0; k < vlib.Count(tier, 250, 5000); k++ {
		add(genInfo(r, tags, ""), "info:small")
	}
	// the moved lookup on the 16-bit boundary, with real subtables
	for _, T := range []int{0xFFFE, 0x10000, 0x10002} {
		for _, conv := range [][]mfsPattern{{mfsPatterns[0]}, {mfsPatterns[0], mfsPatterns[1]}} {
			if d, ok := boundaryInfo(T, conv); ok {
				add(d, "info:boundary-moved-lookup", fmt.Sprintf("info:boundary-T=%#x", T))
			}
		}
	}
	for k := 0; k < vlib.Count(tier, 8, 100); k++ {
		for _, big := range []string{"feature", "features", "script", "lookups"} {
			add(genInfo(r, tags, big), "info:big-"+big)
		}
	}
}
