// Package c08 drives the GSUB/GPOS/GDEF binary codecs of go-sfnt
// (opentype/coverage, classdef, gtab, gdef) on generated structures and byte
// strings, records the observations in the syntax the Coq model prints and
// evaluates the property oracle (encode -> read -> compare, declared size ==
// emitted size, independent structural walks) on every case.
package c08

import (
	"bytes"
	"fmt"
	"sort"

	"seehuhn.de/go/sfnt/glyph"
	"seehuhn.de/go/sfnt/parser"
	"seehuhn.de/go/sfnt/verifharness/vlib"
)

func newParser(data []byte) *parser.Parser {
	return parser.New(bytes.NewReader(data))
}

// guard runs f and turns a panic into panicked = true.
func guard(f func()) (panicked bool, msg string) {
	defer func() {
		if e := recover(); e != nil {
			panicked = true
			msg = fmt.Sprint(e)
		}
	}()
	f()
	return false, ""
}

type pair struct{ g, i int }

// runsSx compresses (gid, idx) pairs (sorted by gid) into maximal runs in
// which both advance by one: ((gid idx len) ...).
func runsSx(ps []pair) vlib.Sx {
	out := vlib.List{}
	for k := 0; k < len(ps); {
		j := k + 1
		for j < len(ps) && ps[j].g == ps[k].g+(j-k) && ps[j].i == ps[k].i+(j-k) {
			j++
		}
		out = append(out, vlib.L(vlib.Int(ps[k].g), vlib.Int(ps[k].i), vlib.Int(j-k)))
		k = j
	}
	return out
}

func sortPairs(ps []pair) {
	sort.Slice(ps, func(a, b int) bool { return ps[a].g < ps[b].g })
}

// glyphSet generates a strictly increasing glyph list over the full 16-bit
// range: a mix of runs and singletons so that both coverage formats get
// chosen; boundaries 0 and 65535 are included with probability 1/4 each.
func glyphSet(r *vlib.Rand, maxGlyphs int) []glyph.ID {
	seen := map[int]bool{}
	mode := r.Intn(5) // 0: singletons, 1: runs, 2..4: mixed
	base := 0
	span := 65536
	if r.Chance(1, 2) {
		span = vlib.Pick(r, []int{16, 300, 5000, 65536})
		base = r.Intn(65536 - span + 1)
	}
	target := r.Intn(maxGlyphs + 1)
	if r.Chance(1, 4) {
		seen[0] = true
	}
	if r.Chance(1, 4) {
		seen[65535] = true
	}
	for tries := 0; len(seen) < target && tries < 4*maxGlyphs+10; tries++ {
		s := base + r.Intn(span)
		l := 1
		switch {
		case mode == 1 || (mode >= 2 && r.Chance(1, 2)):
			l = 2 + r.Intn(40)
			if r.Chance(1, 20) {
				l = 2 + r.Intn(maxGlyphs+1)
			}
		}
		for k := 0; k < l && s+k < 65536 && len(seen) < target; k++ {
			seen[s+k] = true
		}
	}
	out := make([]glyph.ID, 0, len(seen))
	for g := range seen {
		out = append(out, glyph.ID(g))
	}
	sort.Slice(out, func(a, b int) bool { return out[a] < out[b] })
	return out
}

// mutate returns a damaged copy of b: truncation, single-byte changes,
// 16-bit field changes to boundary values, extension with junk.
func mutate(r *vlib.Rand, b []byte) ([]byte, string) {
	c := append([]byte(nil), b...)
	switch r.Intn(6) {
	case 0:
		if len(c) > 0 {
			c = c[:r.Intn(len(c))]
		}
		return c, "mut:truncate"
	case 1:
		for k := 0; k <= r.Intn(3) && len(c) > 0; k++ {
			c[r.Intn(len(c))] = byte(r.Uint64())
		}
		return c, "mut:byte"
	case 2:
		if len(c) >= 2 {
			p := 2 * r.Intn(len(c)/2)
			v := vlib.Pick(r, []int{0, 1, 2, 255, 256, 0x7fff, 0x8000, 0xfffe, 0xffff})
			c[p], c[p+1] = byte(v>>8), byte(v)
		}
		return c, "mut:field"
	case 3:
		if len(c) >= 2 {
			p := 2 * r.Intn(len(c)/2)
			v := int(c[p])<<8 | int(c[p+1])
			v += vlib.Pick(r, []int{-2, -1, 1, 2})
			c[p], c[p+1] = byte(v>>8), byte(v)
		}
		return c, "mut:offbyone"
	case 4:
		c = append(c, r.Bytes(r.Intn(12))...)
		return c, "mut:extend"
	}
	if len(c) > 6 {
		c = append(c[:4], c[6:]...)
	}
	return c, "mut:delete"
}
