package c08

import (
	"errors"

	"seehuhn.de/go/sfnt/opentype/gtab"
	"seehuhn.de/go/sfnt/verifharness/vlib"
)

// fl-enc ((xTAG (lookup ...)) ...) / fl-read xBYTES pos: FeatureListInfo.encode
// and readFeatureList.

type flFeat struct {
	tag     []byte
	lookups []int
}

func flSx(fl []flFeat) vlib.Sx {
	out := vlib.List{}
	for _, f := range fl {
		out = append(out, vlib.L(vlib.Hex(f.tag), vlib.Ints(f.lookups)))
	}
	return out
}

func flBuild(fl []flFeat) gtab.FeatureListInfo {
	info := gtab.FeatureListInfo{}
	for _, f := range fl {
		ls := make([]gtab.LookupIndex, len(f.lookups))
		for i, x := range f.lookups {
			ls[i] = gtab.LookupIndex(x)
		}
		if len(ls) == 0 {
			ls = nil
		}
		info = append(info, &gtab.Feature{Tag: string(f.tag), Lookups: ls})
	}
	return info
}

func flObs(info gtab.FeatureListInfo) vlib.Sx {
	out := vlib.List{}
	for _, f := range info {
		l := make([]int, len(f.Lookups))
		for i, x := range f.Lookups {
			l[i] = int(x)
		}
		out = append(out, vlib.L(vlib.Hex([]byte(f.Tag)), vlib.Ints(l)))
	}
	return vlib.L(vlib.Atom("ok"), out)
}

func flEnc(fl []flFeat) (impl, fail string, enc []byte) {
	info := flBuild(fl)
	pp, msg := guard(func() { enc = gtab.VerifC08FeatureListEncode(info) })
	wf := true
	last, total := 0, 2+6*len(fl)
	refuse := false
	for _, f := range fl {
		if len(f.tag) != 4 {
			wf = false
		}
		if len(f.lookups) > 0xFFFF {
			refuse = true
		}
		last = total
		total += 4 + 2*len(f.lookups)
	}
	if last > 0xFFFF {
		refuse = true
	}
	if pp {
		if wf && !refuse {
			return "panic", "encode panics on a representable feature list: " + msg, nil
		}
		return "panic", "", nil
	}
	impl = vlib.Str(vlib.L(vlib.Atom("ok"), vlib.Hex(enc)))
	if refuse {
		return impl, "a feature list with an offset or count beyond 16 bits was written instead of refused", enc
	}
	if !wf {
		return impl, "", enc
	}
	if len(enc) != total {
		return impl, "emitted size differs from the sum of the declared pieces", enc
	}
	var back gtab.FeatureListInfo
	var err error
	if p2, _ := guard(func() { back, err = gtab.VerifC08FeatureListRead(enc, 0) }); p2 || err != nil {
		return impl, "readFeatureList fails on encode's output", enc
	}
	if vlib.Str(flObs(back)) != vlib.Str(flObs(info)) {
		return impl, "feature list changes in a round trip", enc
	}
	return impl, "", enc
}

func flRead(data []byte, pos int) (impl, fail string) {
	var back gtab.FeatureListInfo
	var err error
	if pp, msg := guard(func() { back, err = gtab.VerifC08FeatureListRead(data, int64(pos)) }); pp {
		return "panic", "readFeatureList panics: " + msg
	}
	if err != nil {
		return "err", ""
	}
	return vlib.Str(flObs(back)), ""
}

func flOf(x vlib.Sx) ([]flFeat, error) {
	l, err := vlib.AsList(x)
	if err != nil {
		return nil, err
	}
	var out []flFeat
	for _, y := range l {
		f, err := vlib.AsList(y)
		if err != nil || len(f) != 2 {
			return nil, errors.New("bad feature")
		}
		t, e1 := vlib.AsBytes(f[0])
		ls, e2 := vlib.AsInts(f[1])
		if e1 != nil || e2 != nil {
			return nil, errors.New("bad feature fields")
		}
		out = append(out, flFeat{t, ls})
	}
	return out, nil
}

func genFeatureLists(run *vlib.Run, r *vlib.Rand, tier string) {
	var encs [][]byte
	add := func(fl []flFeat, lb ...string) {
		line := vlib.Line(vlib.Atom("fl-enc"), flSx(fl))
		impl, fail, enc := flEnc(fl)
		idx := run.Add(line, impl, len(fl) >= 2, append([]string{"fl-enc", "fl-enc:" + impl[:min(len(impl), 3)]}, lb...)...)
		if fail != "" {
			run.Fail(idx, line, fail, "c08-featurelist")
		}
		if enc != nil && len(enc) < 400 {
			encs = append(encs, enc)
		}
	}
	add(nil)
	add([]flFeat{{[]byte("liga"), nil}})
	add([]flFeat{{[]byte("lig"), nil}}, "fl:short-tag")
	// 10922 features: the last record offset is 65534; 10923: beyond
	for _, n := range []int{10921, 10922} {
		fl := make([]flFeat, n)
		for i := range fl {
			fl[i] = flFeat{[]byte("many"), nil}
		}
		add(fl, "fl:n="+vlib.Str(vlib.Int(n)))
	}
	long := make([]int, 65536)
	add([]flFeat{{[]byte("long"), long}}, "fl:65536-lookups")
	add([]flFeat{{[]byte("long"), long[:65535]}}, "fl:65535-lookups")
	for k := 0; k < vlib.Count(tier, 300, 6000); k++ {
		n := r.Intn(8)
		fl := make([]flFeat, n)
		for i := range fl {
			fl[i].tag = []byte(vlib.Pick(r, []string{"liga", "kern", "\x00\x01\xfe\xff", "    ", "calt"}))
			if r.Chance(1, 30) {
				fl[i].tag = r.Bytes(r.Intn(7))
			}
			m := r.Intn(6)
			for j := 0; j < m; j++ {
				fl[i].lookups = append(fl[i].lookups, vlib.Pick(r, []int{0, 1, 65535, r.Intn(65536)}))
			}
		}
		add(fl)
	}
	for k := 0; k < vlib.Count(tier, 400, 8000) && len(encs) > 0; k++ {
		e := vlib.Pick(r, encs)
		pre := r.Intn(3)
		data := append(r.Bytes(pre), e...)
		lb := "fl-read:valid"
		if r.Chance(2, 3) {
			var m []byte
			m, lb = mutate(r, e)
			data = append(r.Bytes(pre), m...)
		}
		line := vlib.Line(vlib.Atom("fl-read"), vlib.Hex(data), vlib.Int(pre))
		impl, fail := flRead(data, pre)
		idx := run.Add(line, impl, len(data) >= 8, "fl-read", lb, "fl-read:"+impl[:min(len(impl), 3)])
		if fail != "" {
			run.Fail(idx, line, fail, "c08-featurelist")
		}
	}
}
