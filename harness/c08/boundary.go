package c08

import (
	"fmt"

	"seehuhn.de/go/sfnt/verifharness/vlib"
)

// Boundary-directed lookup lists for tryReorder: lists just over 64 KiB in
// which the largest lookup is moved to the end and exactly c lookups (the
// largest of the others) have to be converted to extension lookups, with the
// sizes solved so that the TRUE start of the moved lookup - computed here from
// the definition of the layout, not by the code - is a given target T around
// 0x10000.  For T <= 0xFFFF the conversion must stop after c lookups; for
// T > 0xFFFF it must go on.  The converted lookups carry UseMarkFilteringSet
// (set index 0 and non-zero) or a non-zero MarkFilteringSet without the flag,
// so that a size estimate which disagrees with the emitted lookup header
// shows at the boundary.
//
// Layout of the reordered list when the fillers stay in place:
//
//	header 2+2n | marker lookup (8+12) | fillers (8[+2]+size) | converted (8[+2]+8) | moved lookup
type mfsPattern struct {
	flags, mfs int
	name      string
}

var mfsPatterns = []mfsPattern{
	{0x10, 0, "flag+set0"},
	{0x10, 7, "flag+set7"},
	{0, 5, "noflag+set5"},
	{0, 0, "plain"},
}

func hdrLen(flags, nsub int) int {
	h := 6 + 2*nsub
	if flags&0x10 != 0 {
		h += 2
	}
	return h
}

// boundaryList builds the list for target T with the given patterns for the
// lookups to convert; order permutes the positions in the list.
func boundaryList(T int, conv []mfsPattern, fillerFlags []int, order int, marker bool) ([]llLookup, bool) {
	c, m := len(conv), len(fillerFlags)
	n := c + m + 1
	if marker {
		n++
	}
	pos := 2 + 2*n // header
	if marker {
		pos += 8 + 12 // marker lookup: header + Gsub1_1
	}
	for _, p := range conv {
		pos += hdrLen(p.flags, 1) + 8
	}
	fill := make([]int, m)
	for j := 1; j < m; j++ {
		fill[j] = 13000 - 10*j
		pos += hdrLen(fillerFlags[j], 1) + fill[j]
	}
	fill[0] = T - pos - hdrLen(fillerFlags[0], 1)
	if fill[0] < 9000 || fill[0] >= 14000 {
		return nil, false
	}
	var ll []llLookup
	for j := 0; j < m; j++ {
		ll = append(ll, llLookup{tp: 1, flags: fillerFlags[j], mfs: 0, subs: []llSub{{kind: "b", size: fill[j], seed: j}}})
	}
	for i, p := range conv {
		ll = append(ll, llLookup{tp: 2, flags: p.flags, mfs: p.mfs, subs: []llSub{{kind: "b", size: 14000 + 20*i, seed: 50 + i}}})
	}
	ll = append(ll, llLookup{tp: 3, subs: []llSub{{kind: "b", size: 16000, seed: 99}}})
	if marker {
		ll = append(ll, llLookup{tp: 1, subs: []llSub{markerSub("gsub")}})
	}
	// rotate the list: the layout algorithm sorts by size, not by position
	k := order % len(ll)
	ll = append(ll[k:], ll[:k]...)
	return ll, true
}

func genBoundary(run *vlib.Run, r *vlib.Rand, tier string, add func(ll []llLookup, lb ...string)) {
	convSets := [][]mfsPattern{
		{mfsPatterns[0]}, {mfsPatterns[1]}, {mfsPatterns[2]}, {mfsPatterns[3]},
		{mfsPatterns[0], mfsPatterns[1]}, {mfsPatterns[2], mfsPatterns[0]},
		{mfsPatterns[0], mfsPatterns[0], mfsPatterns[1]},
	}
	if tier == "thorough" {
		convSets = append(convSets, []mfsPattern{mfsPatterns[1], mfsPatterns[2], mfsPatterns[3]},
			[]mfsPattern{mfsPatterns[3], mfsPatterns[0]}, []mfsPattern{mfsPatterns[2], mfsPatterns[2], mfsPatterns[2]})
	}
	for ci, conv := range convSets {
		for T := 0xFFF8; T <= 0x10008; T += 2 {
			ff := []int{0, 0, 0, 0, 0}
			if (ci+T/2)%3 == 0 {
				ff[0], ff[2] = 0x10, 0x10 // fillers with the flag: they are not converted for T <= 0xFFFF
			}
			ll, ok := boundaryList(T, conv, ff, ci+T/2, true)
			if !ok {
				continue
			}
			name := ""
			for _, p := range conv {
				name += "," + p.name
			}
			add(ll, "ll:boundary-moved-lookup", fmt.Sprintf("ll:boundary-T=%#x", T), "ll:boundary-converted="+name[1:])
		}
	}
	_ = r
}

// boundaryInfo: the same construction with real subtables (Gsub1_2 with n
// consecutive glyphs: 6 + 2n + 10 bytes), through (*gtab.Info).Encode and
// gtab.Read (oracle only).
func boundaryInfo(T int, conv []mfsPattern) (infoDesc, bool) {
	ll, ok := boundaryList(T, conv, []int{0, 0x10, 0, 0, 0}, T/2, false)
	d := infoDesc{table: "gsub"}
	if !ok {
		return d, false
	}
	for _, l := range ll {
		sz := l.subs[0].size
		if sz%2 != 0 || sz < 40 {
			return d, false
		}
		n := (sz - 16) / 2
		nums := make([]int, n)
		for i := range nums {
			nums[i] = (i*3 + l.subs[0].seed) & 0xffff
		}
		st := stDesc{kind: "gsub12", cov: make([]pair, n), nums: nums}
		for i := range st.cov {
			st.cov[i] = pair{i, i}
		}
		d.lookups = append(d.lookups, lookupDesc{tp: 1, flags: l.flags, mfs: l.mfs, subs: []vlib.Sx{st.sx()}})
	}
	d.features = []featDesc{{tag: "liga", lookups: []int{0}}}
	return d, true
}
