package c08

import (
	"errors"
	"fmt"
	"sort"

	"golang.org/x/text/language"
	"seehuhn.de/go/sfnt/opentype/gtab"
	"seehuhn.de/go/sfnt/verifharness/vlib"
)

// sl-enc / sl-read: ScriptListInfo.encode and readScriptList at the byte
// level.  The tag conversion (x/text, property C14) is kept out: only
// (script, language) pairs whose conversion is a bijection on this run are
// used, and they are written into the case lines as OpenType tags.

type slLangSys struct {
	req int
	opt []int
}

type slEntry struct {
	script string
	def    *slLangSys
	langs  []struct {
		lang string
		ls   slLangSys
	}
}

func lsSx(l slLangSys) vlib.Sx { return vlib.L(vlib.Int(l.req), vlib.Ints(l.opt)) }

func slSx(es []slEntry) vlib.Sx {
	out := vlib.List{}
	for _, e := range es {
		var d vlib.Sx = vlib.Atom("nil")
		if e.def != nil {
			d = lsSx(*e.def)
		}
		ls := vlib.List{}
		for _, l := range e.langs {
			ls = append(ls, vlib.L(vlib.Hex([]byte(l.lang)), lsSx(l.ls)))
		}
		out = append(out, vlib.L(vlib.Hex([]byte(e.script)), d, ls))
	}
	return out
}

// usable (script, lang) pairs: otfToBCP47 and bcp47ToOtf are inverse on them
var slPairs map[[2]string]language.Tag
var slTags map[language.Tag][2]string

func slInit() {
	if slPairs != nil {
		return
	}
	slPairs = map[[2]string]language.Tag{}
	slTags = map[language.Tag][2]string{}
	for _, s := range []string{"latn", "arab", "grek", "cyrl", "hebr", "deva"} {
		for _, l := range []string{"", "ENG ", "DEU ", "TRK ", "ARA ", "RUS ", "ELL ", "FRA ", "NLD "} {
			var tag language.Tag
			var err error
			if pp, _ := guard(func() { tag, err = gtab.VerifC14OtfToBCP47(s, l) }); pp || err != nil {
				continue
			}
			var s2, l2 string
			if pp, _ := guard(func() { s2, l2, err = gtab.VerifC14BCP47ToOtf(tag) }); pp || err != nil || s2 != s || l2 != l {
				continue
			}
			if _, dup := slTags[tag]; dup {
				continue
			}
			slPairs[[2]string{s, l}] = tag
			slTags[tag] = [2]string{s, l}
		}
	}
}

func slBuild(es []slEntry) (gtab.ScriptListInfo, bool) {
	info := gtab.ScriptListInfo{}
	mk := func(l slLangSys) *gtab.Features {
		opt := make([]gtab.FeatureIndex, len(l.opt))
		for i, x := range l.opt {
			opt[i] = gtab.FeatureIndex(x)
		}
		return &gtab.Features{Required: gtab.FeatureIndex(l.req), Optional: opt}
	}
	for _, e := range es {
		if e.def != nil {
			t, ok := slPairs[[2]string{e.script, ""}]
			if !ok {
				return nil, false
			}
			info[t] = mk(*e.def)
		}
		for _, l := range e.langs {
			t, ok := slPairs[[2]string{e.script, l.lang}]
			if !ok {
				return nil, false
			}
			info[t] = mk(l.ls)
		}
	}
	return info, true
}

// slObs renders a decoded script list as the sorted map (script, lang) -> LangSys.
func slObs(info gtab.ScriptListInfo) (vlib.Sx, bool) {
	type row struct {
		s, l string
		f    *gtab.Features
	}
	var rows []row
	for t, f := range info {
		p, ok := slTags[t]
		if !ok {
			return nil, false
		}
		rows = append(rows, row{fmt.Sprintf("x%x", p[0]), fmt.Sprintf("x%x", p[1]), f})
	}
	sort.Slice(rows, func(a, b int) bool {
		if rows[a].s != rows[b].s {
			return rows[a].s < rows[b].s
		}
		return rows[a].l < rows[b].l
	})
	out := vlib.List{}
	for _, r := range rows {
		opt := make([]int, len(r.f.Optional))
		for i, x := range r.f.Optional {
			opt[i] = int(x)
		}
		out = append(out, vlib.L(vlib.Atom(r.s), vlib.Atom(r.l), vlib.L(vlib.Int(int(r.f.Required)), vlib.Ints(opt))))
	}
	return vlib.L(vlib.Atom("ok"), out), true
}

func slEnc(es []slEntry) (impl, fail string, enc []byte) {
	slInit()
	info, ok := slBuild(es)
	if !ok {
		return "skip", "", nil
	}
	pp, msg := guard(func() { enc = gtab.VerifC08ScriptListEncode(info) })
	// refusal expected iff a 16-bit offset or count cannot hold (from the sizes)
	refuse := false
	total := 2 + 6*len(es)
	for _, e := range es {
		if total > 0xFFFF {
			refuse = true
		}
		pos := 4 + 6*len(e.langs)
		if e.def != nil {
			if len(e.def.opt) > 0xFFFF {
				refuse = true
			}
			pos += 6 + 2*len(e.def.opt)
		}
		for _, l := range e.langs {
			if pos > 0xFFFF || len(l.ls.opt) > 0xFFFF {
				refuse = true
			}
			pos += 6 + 2*len(l.ls.opt)
		}
		total += pos
	}
	if pp {
		if !refuse {
			return "panic", "encode panics on a representable script list: " + msg, nil
		}
		return "panic", "", nil
	}
	impl = vlib.Str(vlib.L(vlib.Atom("ok"), vlib.Hex(enc)))
	if refuse {
		return impl, "a script list with an offset or count beyond 16 bits was written instead of refused", enc
	}
	if len(enc) != total {
		return impl, "emitted size differs from the sum of the declared pieces", enc
	}
	var back gtab.ScriptListInfo
	var err error
	if p2, _ := guard(func() { back, err = gtab.VerifC08ScriptListRead(enc, 0) }); p2 || err != nil {
		return impl, "readScriptList fails on encode's output", enc
	}
	a, _ := slObs(info)
	b, okb := slObs(back)
	// feature index 0xFFFF is not a valid optional feature and is read as 0
	valid := true
	for _, f := range info {
		for _, x := range f.Optional {
			if x == 0xFFFF {
				valid = false
			}
		}
	}
	if valid && (!okb || vlib.Str(a) != vlib.Str(b)) {
		return impl, "script list changes in a round trip", enc
	}
	return impl, "", enc
}

func slRead(data []byte, pos int) (impl, fail string, comparable bool) {
	slInit()
	var back gtab.ScriptListInfo
	var err error
	if pp, msg := guard(func() { back, err = gtab.VerifC08ScriptListRead(data, int64(pos)) }); pp {
		return "panic", "readScriptList panics: " + msg, true
	}
	if err != nil {
		return "err", "", true
	}
	o, ok := slObs(back)
	if !ok {
		return "othertags", "", false
	}
	return vlib.Str(o), "", true
}

func slOf(x vlib.Sx) ([]slEntry, error) {
	l, err := vlib.AsList(x)
	if err != nil {
		return nil, err
	}
	ls := func(y vlib.Sx) (slLangSys, error) {
		f, err := vlib.AsList(y)
		if err != nil || len(f) != 2 {
			return slLangSys{}, errors.New("bad langsys")
		}
		r, e1 := vlib.AsInt(f[0])
		o, e2 := vlib.AsInts(f[1])
		if e1 != nil || e2 != nil {
			return slLangSys{}, errors.New("bad langsys fields")
		}
		if o == nil {
			o = []int{}
		}
		return slLangSys{r, o}, nil
	}
	var out []slEntry
	for _, y := range l {
		f, err := vlib.AsList(y)
		if err != nil || len(f) != 3 {
			return nil, errors.New("bad script entry")
		}
		t, err := vlib.AsBytes(f[0])
		if err != nil {
			return nil, err
		}
		e := slEntry{script: string(t)}
		if a, ok := f[1].(vlib.Atom); !ok || a != "nil" {
			d, err := ls(f[1])
			if err != nil {
				return nil, err
			}
			e.def = &d
		}
		lg, err := vlib.AsList(f[2])
		if err != nil {
			return nil, err
		}
		for _, z := range lg {
			g, err := vlib.AsList(z)
			if err != nil || len(g) != 2 {
				return nil, errors.New("bad lang record")
			}
			lt, e1 := vlib.AsBytes(g[0])
			v, e2 := ls(g[1])
			if e1 != nil || e2 != nil {
				return nil, errors.New("bad lang fields")
			}
			e.langs = append(e.langs, struct {
				lang string
				ls   slLangSys
			}{string(lt), v})
		}
		out = append(out, e)
	}
	return out, nil
}

func genLangSys(r *vlib.Rand, big int) slLangSys {
	n := r.Intn(5)
	if big > 0 {
		n = big
	}
	l := slLangSys{req: vlib.Pick(r, []int{0xFFFF, 0, 1, r.Intn(65536)}), opt: make([]int, n)}
	for i := range l.opt {
		l.opt[i] = vlib.Pick(r, []int{0, 1, 2, 65534, r.Intn(65535)})
	}
	return l
}

func genScriptLists(run *vlib.Run, r *vlib.Rand, tier string) {
	slInit()
	scripts := map[string][]string{}
	for p := range slPairs {
		scripts[p[0]] = append(scripts[p[0]], p[1])
	}
	var names []string
	for s := range scripts {
		sort.Strings(scripts[s])
		names = append(names, s)
	}
	sort.Strings(names)
	run.Extra["scriptlist_pairs"] = len(slPairs)
	var encs [][]byte
	add := func(es []slEntry, lb ...string) {
		line := vlib.Line(vlib.Atom("sl-enc"), slSx(es))
		impl, fail, enc := slEnc(es)
		if impl == "skip" {
			return
		}
		idx := run.Add(line, impl, len(es) >= 1, append([]string{"sl-enc", "sl-enc:" + impl[:min(len(impl), 3)]}, lb...)...)
		if fail != "" {
			run.Fail(idx, line, fail, "c08-scriptlist")
		}
		if enc != nil && len(enc) < 600 {
			encs = append(encs, enc)
		}
	}
	gen := func(big int) []slEntry {
		var es []slEntry
		for _, s := range names {
			if !r.Chance(1, 2) {
				continue
			}
			e := slEntry{script: s}
			for _, l := range scripts[s] {
				if !r.Chance(1, 2) {
					continue
				}
				b := 0
				if big > 0 && r.Chance(1, 3) {
					b = big
				}
				if l == "" {
					d := genLangSys(r, b)
					e.def = &d
				} else {
					e.langs = append(e.langs, struct {
						lang string
						ls   slLangSys
					}{l, genLangSys(r, b)})
				}
			}
			if e.def == nil && len(e.langs) == 0 {
				continue
			}
			es = append(es, e)
		}
		return es
	}
	add(nil)
	for k := 0; k < vlib.Count(tier, 250, 5000); k++ {
		add(gen(0))
	}
	for k := 0; k < vlib.Count(tier, 12, 100); k++ {
		add(gen(vlib.Pick(r, []int{10000, 16000, 32760, 32765, 65535, 65536})), "sl:big")
	}
	// reader: valid encodings at an offset, truncations and changed numeric fields
	for k := 0; k < vlib.Count(tier, 400, 8000) && len(encs) > 0; k++ {
		e := vlib.Pick(r, encs)
		pre := r.Intn(3)
		data := append(r.Bytes(pre), e...)
		lb := "sl-read:valid"
		if r.Chance(2, 3) {
			var m []byte
			m, lb = mutate(r, e)
			data = append(r.Bytes(pre), m...)
		}
		impl, fail, cmp := slRead(data, pre)
		line := vlib.Line(vlib.Atom("sl-read"), vlib.Hex(data), vlib.Int(pre), slKnownSx())
		if !cmp {
			line = "!" + line // a damaged tag: conversion outside the abstracted set
		}
		idx := run.Add(line, impl, len(data) >= 8, "sl-read", lb, "sl-read:"+impl[:min(len(impl), 3)])
		if fail != "" {
			run.Fail(idx, line, fail, "c08-scriptlist")
		}
	}
}

func slKnownSx() vlib.Sx {
	var ps [][2]string
	for p := range slPairs {
		ps = append(ps, p)
	}
	sort.Slice(ps, func(a, b int) bool {
		if ps[a][0] != ps[b][0] {
			return ps[a][0] < ps[b][0]
		}
		return ps[a][1] < ps[b][1]
	})
	out := vlib.List{}
	for _, p := range ps {
		out = append(out, vlib.L(vlib.Hex([]byte(p[0])), vlib.Hex([]byte(p[1]))))
	}
	return out
}

// ---- every built-in tag ---------------------------------------------------------
//
//	!sl-all xSCRIPT (xLANG ...)
//
// "for ... all script/language tags of the built-in tables": a script list built
// here from the OpenType description of the ScriptList (one script; a default
// language system and one LangSys record per listed language, each with its own
// optional feature index as a marker) is read with readScriptList.  Every
// language system in the bytes must come back: the reader drops a language
// system whose tag conversion fails without reporting it, so the oracle counts
// the entries and checks the markers - it does not convert tags itself.

func slAllBytes(script string, langs []string) []byte {
	be := func(v int) []byte { return []byte{byte(v >> 8), byte(v)} }
	n := len(langs)
	b := append(be(1), []byte(script)...)
	b = append(b, be(8)...) // script table right behind the one record
	st := append(be(4+6*n), be(n)...)
	for i, l := range langs {
		st = append(st, []byte(l)...)
		st = append(st, be(4+6*n+8*(i+1))...)
	}
	for i := 0; i <= n; i++ { // default first, then the languages
		st = append(st, 0, 0, 0xFF, 0xFF, 0, 1)
		st = append(st, be(i)...)
	}
	return append(b, st...)
}

func slAllCase(script string, langs []string) (impl, fail string) {
	data := slAllBytes(script, langs)
	var info gtab.ScriptListInfo
	var err error
	if pp, msg := guard(func() { info, err = gtab.VerifC14ReadScriptList(data) }); pp {
		return "panic", "readScriptList panics on a well-formed script list: " + msg
	}
	if err != nil {
		return "err", fmt.Sprintf("readScriptList rejects a well-formed script list of script %q: %v", script, err)
	}
	seen := map[int]bool{}
	for _, f := range info {
		if f != nil && len(f.Optional) == 1 {
			seen[int(f.Optional[0])] = true
		}
	}
	impl = fmt.Sprintf("(ok %d)", len(info))
	for i := 0; i <= len(langs); i++ {
		if !seen[i] {
			which := "the default language system"
			if i > 0 {
				which = fmt.Sprintf("language system %q", langs[i-1])
			}
			return impl, fmt.Sprintf("script %q: %s is in the table but not in the script list read from it (%d of %d entries came back)", script, which, len(info), len(langs)+1)
		}
	}
	return impl, ""
}

func genAllTags(run *vlib.Run, tier string) {
	var scripts, langs []string
	for s := range gtab.VerifC14ScriptTable() {
		scripts = append(scripts, s)
	}
	for l := range gtab.VerifC14LangTable() {
		langs = append(langs, l)
	}
	sort.Strings(scripts)
	sort.Strings(langs)
	emit := func(s string, ls []string) {
		lx := vlib.List{}
		for _, l := range ls {
			lx = append(lx, vlib.Hex([]byte(l)))
		}
		line := vlib.Line(vlib.Atom("!sl-all"), vlib.Hex([]byte(s)), lx)
		impl, fail := slAllCase(s, ls)
		idx := run.Add(line, impl, true, "sl-all", "oracle-only")
		if fail != "" {
			run.Fail(idx, line, fail, "c08-scriptlist-tag-lost")
		}
	}
	// every language of the table, in chunks, under a few scripts
	some := []string{"latn", "deva", "arab"}
	if tier == "thorough" {
		some = scripts
	}
	for _, s := range some {
		for i := 0; i < len(langs); i += 40 {
			emit(s, langs[i:min(i+40, len(langs))])
		}
	}
	// every script of the table with a default and three language systems
	for k, s := range scripts {
		// three distinct languages, in table (sorted) order as the format requires
		a := (7 * k) % (len(langs) - 2)
		emit(s, []string{langs[a], langs[a+1], langs[a+2]})
	}
}

// ---- sl-plain: script lists keyed by plain BCP 47 tags (oracle only)
//
//	!sl-plain xTAG
//
// A ScriptListInfo may be keyed by a tag without the private-use part the
// reader produces (language.MustParse("bn-Beng"), language.German).  Several
// OpenType tags can stand for such a tag; whatever the encoder chooses, it must
// choose the same on every call: the bytes of one value are a function of the
// value ("writing the same font twice always gives the same bytes").

func slPlainCase(tag string) (impl, fail string) {
	t, err := language.Parse(tag)
	if err != nil {
		return "skip", ""
	}
	info := gtab.ScriptListInfo{t: &gtab.Features{Required: 0xFFFF, Optional: []gtab.FeatureIndex{0}}}
	var first []byte
	for i := 0; i < 12; i++ {
		var enc []byte
		if pp, msg := guard(func() { enc = gtab.VerifC08ScriptListEncode(info) }); pp {
			return "panic", "ScriptListInfo.encode panics on the key " + tag + ": " + msg
		}
		if i == 0 {
			first = enc
		} else if string(enc) != string(first) {
			return "differs", fmt.Sprintf("the script list {%s: ...} is encoded as %x on call 1 and as %x on call %d", tag, first, enc, i+1)
		}
	}
	return fmt.Sprintf("(ok %d)", len(first)), ""
}

func genPlainTags(run *vlib.Run, tier string) {
	sv, lv := map[string]bool{}, map[string]bool{}
	for _, v := range gtab.VerifC14ScriptTable() {
		sv[v] = true
	}
	for _, v := range gtab.VerifC14LangTable() {
		lv[v] = true
	}
	var scripts, langs []string
	for v := range sv {
		scripts = append(scripts, v)
	}
	for v := range lv {
		langs = append(langs, v)
	}
	sort.Strings(scripts)
	sort.Strings(langs)
	emit := func(tag string) {
		line := vlib.Line(vlib.Atom("!sl-plain"), vlib.Hex([]byte(tag)))
		impl, fail := slPlainCase(tag)
		if impl == "skip" {
			return
		}
		idx := run.Add(line, impl, true, "sl-plain", "oracle-only")
		if fail != "" {
			run.Fail(idx, line, fail, "c08-scriptlist-not-a-function")
		}
	}
	for _, s := range scripts {
		emit("und-" + s)
	}
	some := []string{"Latn", "Beng", "Deva", "Mlym"}
	if tier == "thorough" {
		some = scripts
	}
	for _, l := range langs {
		emit(l)
		for _, s := range some {
			emit(l + "-" + s)
		}
	}
}
