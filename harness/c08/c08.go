package c08

import (
	"errors"
	"fmt"

	"seehuhn.de/go/sfnt/opentype/gtab"
	"seehuhn.de/go/sfnt/verifharness/vlib"
)

// Gen writes the run for the given tier.
func Gen(run *vlib.Run, seed uint64, tier string) {
	run.Rule = "one case = one call of an encoder (structure -> bytes, declared length) or of a reader (bytes -> structure | err); non-trivial = coverage/classdef table with >= 2 glyphs, reader input of >= 6 bytes, lookup list with >= 2 lookups; distinct by case line"
	r := vlib.NewRand(seed)
	genCoverage(run, r.Fork("coverage"), tier)
	genClassdef(run, r.Fork("classdef"), tier)
	genLookupLists(run, r.Fork("lookuplist"), tier)
	genSubtables(run, r.Fork("subtables"), tier)
	genInfos(run, r.Fork("info"), tier)
	genGdefs(run, r.Fork("gdef"), tier)
	genGpos4(run, r.Fork("gpos4"), tier)
	genFeatureLists(run, r.Fork("featurelist"), tier)
	genScriptLists(run, r.Fork("scriptlist"), tier)
	genAllTags(run, tier)
	genPlainTags(run, tier)
}

func pairsOf(x vlib.Sx) ([]pair, error) {
	l, err := vlib.AsList(x)
	if err != nil {
		return nil, err
	}
	ps := make([]pair, len(l))
	for k, y := range l {
		v, err := vlib.AsInts(y)
		if err != nil || len(v) != 2 {
			return nil, errors.New("bad pair")
		}
		ps[k] = pair{v[0], v[1]}
	}
	return ps, nil
}

func validCov(ps []pair) bool {
	for k, p := range ps {
		if p.i != k || p.g < 0 || p.g > 65535 || (k > 0 && ps[k-1].g >= p.g) {
			return false
		}
	}
	return true
}

// RunCase re-executes one case line (corpus entries and replays).
func RunCase(line string) (impl, fail, sig string, err error) {
	oracleOnly := false
	if len(line) > 0 && line[0] == '!' {
		oracleOnly = true
		line = line[1:]
	}
	_ = oracleOnly
	items, err := vlib.Parse(line)
	if err != nil {
		return "", "", "", err
	}
	if len(items) == 0 {
		return "", "", "", errors.New("empty case")
	}
	kind, err := vlib.AsAtom(items[0])
	if err != nil {
		return "", "", "", err
	}
	switch kind {
	case "cov-enc":
		if len(items) != 2 {
			return "", "", "", errors.New("cov-enc: want 1 argument")
		}
		ps, err := pairsOf(items[1])
		if err != nil {
			return "", "", "", err
		}
		impl, fail = covEnc(ps, validCov(ps))
		return impl, fail, "c08-coverage-encode", nil
	case "cov-read":
		if len(items) != 3 {
			return "", "", "", errors.New("cov-read: want 2 arguments")
		}
		data, err := vlib.AsBytes(items[1])
		if err != nil {
			return "", "", "", err
		}
		pos, err := vlib.AsInt(items[2])
		if err != nil {
			return "", "", "", err
		}
		impl, fail = covRead(data, pos)
		return impl, fail, "c08-coverage-read", nil
	case "cd-enc":
		if len(items) != 2 {
			return "", "", "", errors.New("cd-enc: want 1 argument")
		}
		l, err := vlib.AsList(items[1])
		if err != nil {
			return "", "", "", err
		}
		var ps []pair
		for _, x := range l {
			v, err := vlib.AsInts(x)
			if err != nil || len(v) != 3 {
				return "", "", "", errors.New("bad run")
			}
			for k := 0; k < v[2]; k++ {
				ps = append(ps, pair{v[0] + k, v[1]})
			}
		}
		impl, fail = cdEnc(ps)
		return impl, fail, "c08-classdef-encode", nil
	case "cd-read":
		if len(items) != 3 {
			return "", "", "", errors.New("cd-read: want 2 arguments")
		}
		data, err := vlib.AsBytes(items[1])
		if err != nil {
			return "", "", "", err
		}
		pos, err := vlib.AsInt(items[2])
		if err != nil {
			return "", "", "", err
		}
		impl, fail = cdRead(data, pos)
		return impl, fail, "c08-classdef-read", nil
	case "ll-enc", "ll-rt":
		if len(items) != 2 {
			return "", "", "", errors.New(kind + ": want 1 argument")
		}
		ll, err := llOf(items[1])
		if err != nil {
			return "", "", "", err
		}
		obsEnc, obsRt, fail, _ := llEncode(ll)
		if kind == "ll-enc" {
			return obsEnc, fail, "c08-lookuplist", nil
		}
		return obsRt, fail, "c08-lookuplist", nil
	case "ll-read":
		if len(items) != 4 {
			return "", "", "", errors.New("ll-read: want 3 arguments")
		}
		data, err := vlib.AsBytes(items[1])
		if err != nil {
			return "", "", "", err
		}
		pos, err1 := vlib.AsInt(items[2])
		ext, err2 := vlib.AsInt(items[3])
		if err1 != nil || err2 != nil {
			return "", "", "", errors.New("ll-read: bad numbers")
		}
		impl, fail = llRead(data, pos, ext)
		return impl, fail, "c08-lookuplist-read", nil
	case "vr-enc":
		if len(items) != 3 {
			return "", "", "", errors.New("vr-enc: want 2 arguments")
		}
		f, err := vlib.AsAtom(items[1])
		if err != nil {
			return "", "", "", err
		}
		v, err := vrOf(items[2])
		if err != nil {
			return "", "", "", err
		}
		impl, fail = vrEnc(f, v)
		return impl, fail, "c08-valuerecord", nil
	case "vr-read":
		if len(items) != 3 {
			return "", "", "", errors.New("vr-read: want 2 arguments")
		}
		f, err := vlib.AsInt(items[1])
		if err != nil {
			return "", "", "", err
		}
		data, err := vlib.AsBytes(items[2])
		if err != nil {
			return "", "", "", err
		}
		impl, fail = vrRead(f, data)
		return impl, fail, "c08-valuerecord", nil
	case "sub-enc":
		if len(items) != 2 {
			return "", "", "", errors.New("sub-enc: want 1 argument")
		}
		d, err := stDescOf(items[1])
		if err != nil {
			xd, err2 := xDescOf(items[1])
			if err2 != nil {
				if g4, err3 := g4DescOf(items[1]); err3 == nil {
					impl, fail = g4Case(g4)
					return impl, fail, "c08-subtable-gpos41", nil
				}
				return "", "", "", err
			}
			impl, fail, _ = subEncX2(xd)
			return impl, fail, "c08-subtable-" + xd.kind, nil
		}
		impl, fail, _ = subEnc(d)
		return impl, fail, "c08-subtable-" + d.kind, nil
	case "sl-all":
		if len(items) != 3 {
			return "", "", "", errors.New("sl-all: want 2 arguments")
		}
		sb, err := vlib.AsBytes(items[1])
		if err != nil {
			return "", "", "", err
		}
		ll, err := vlib.AsList(items[2])
		if err != nil {
			return "", "", "", err
		}
		var langs []string
		for _, x := range ll {
			b, err := vlib.AsBytes(x)
			if err != nil {
				return "", "", "", err
			}
			langs = append(langs, string(b))
		}
		impl, fail = slAllCase(string(sb), langs)
		return impl, fail, "c08-scriptlist-tag-lost", nil
	case "sl-plain":
		if len(items) != 2 {
			return "", "", "", errors.New("sl-plain: want 1 argument")
		}
		tb, err := vlib.AsBytes(items[1])
		if err != nil {
			return "", "", "", err
		}
		impl, fail = slPlainCase(string(tb))
		return impl, fail, "c08-scriptlist-not-a-function", nil
	case "sl-enc":
		if len(items) != 2 {
			return "", "", "", errors.New("sl-enc: want 1 argument")
		}
		es, err := slOf(items[1])
		if err != nil {
			return "", "", "", err
		}
		impl, fail, _ = slEnc(es)
		return impl, fail, "c08-scriptlist", nil
	case "sl-read":
		if len(items) != 3 && len(items) != 4 {
			return "", "", "", errors.New("sl-read: want 2 or 3 arguments")
		}
		data, e1 := vlib.AsBytes(items[1])
		pos, e2 := vlib.AsInt(items[2])
		if e1 != nil || e2 != nil {
			return "", "", "", errors.New("sl-read: bad arguments")
		}
		impl, fail, _ = slRead(data, pos)
		return impl, fail, "c08-scriptlist", nil
	case "fl-enc":
		if len(items) != 2 {
			return "", "", "", errors.New("fl-enc: want 1 argument")
		}
		fl, err := flOf(items[1])
		if err != nil {
			return "", "", "", err
		}
		impl, fail, _ = flEnc(fl)
		return impl, fail, "c08-featurelist", nil
	case "fl-read":
		if len(items) != 3 {
			return "", "", "", errors.New("fl-read: want 2 arguments")
		}
		data, e1 := vlib.AsBytes(items[1])
		pos, e2 := vlib.AsInt(items[2])
		if e1 != nil || e2 != nil {
			return "", "", "", errors.New("fl-read: bad arguments")
		}
		impl, fail = flRead(data, pos)
		return impl, fail, "c08-featurelist", nil
	case "gdef-read":
		if len(items) != 2 {
			return "", "", "", errors.New("gdef-read: want 1 argument")
		}
		data, err := vlib.AsBytes(items[1])
		if err != nil {
			return "", "", "", err
		}
		impl, fail = gdefRead(data)
		return impl, fail, "c08-gdef", nil
	case "gdef", "gdef-enc":
		d, err := gdefDescOf(items)
		if err != nil {
			return "", "", "", err
		}
		impl, fail = gdefCase(d)
		return impl, fail, "c08-gdef", nil
	case "info":
		d, err := infoDescOf(items)
		if err != nil {
			return "", "", "", err
		}
		impl, fail = infoCase(d)
		return impl, fail, "c08-info", nil
	case "sub-read":
		if len(items) != 5 {
			return "", "", "", errors.New("sub-read: want 4 arguments")
		}
		tbl, e1 := vlib.AsAtom(items[1])
		lt, e2 := vlib.AsInt(items[2])
		data, e3 := vlib.AsBytes(items[3])
		pos, e4 := vlib.AsInt(items[4])
		if e1 != nil || e2 != nil || e3 != nil || e4 != nil {
			return "", "", "", errors.New("sub-read: bad arguments")
		}
		impl, fail, _ = subRead(tbl, lt, data, pos)
		return impl, fail, "c08-subtable-read", nil
	}
	return "", "", "", fmt.Errorf("unknown case kind %q", kind)
}

func llOf(x vlib.Sx) ([]llLookup, error) {
	l, err := vlib.AsList(x)
	if err != nil {
		return nil, err
	}
	out := make([]llLookup, len(l))
	for i, y := range l {
		f, err := vlib.AsList(y)
		if err != nil || len(f) != 4 {
			return nil, errors.New("bad lookup")
		}
		tp, e1 := vlib.AsInt(f[0])
		fl, e2 := vlib.AsInt(f[1])
		mfs, e3 := vlib.AsInt(f[2])
		subs, e4 := vlib.AsList(f[3])
		if e1 != nil || e2 != nil || e3 != nil || e4 != nil {
			return nil, errors.New("bad lookup fields")
		}
		out[i] = llLookup{tp: tp, flags: fl, mfs: mfs}
		for _, sx := range subs {
			sf, err := vlib.AsList(sx)
			if err != nil || len(sf) < 2 {
				return nil, errors.New("bad subtable")
			}
			k, _ := vlib.AsAtom(sf[0])
			switch k {
			case "b":
				if len(sf) != 3 {
					return nil, errors.New("bad blob")
				}
				sz, e1 := vlib.AsInt(sf[1])
				sd, e2 := vlib.AsInt(sf[2])
				if e1 != nil || e2 != nil || sz < 0 || sz > 1<<24 {
					return nil, errors.New("bad blob size")
				}
				out[i].subs = append(out[i].subs, llSub{kind: "b", size: sz, seed: sd})
			case "gsub", "gpos", "ctx":
				d, err := vlib.AsBytes(sf[1])
				if err != nil {
					return nil, err
				}
				out[i].subs = append(out[i].subs, llSub{kind: k, data: d})
			default:
				return nil, errors.New("bad subtable kind")
			}
		}
	}
	return out, nil
}

func covRunsOf(x vlib.Sx) ([]pair, error) {
	l, err := vlib.AsList(x)
	if err != nil {
		return nil, err
	}
	var ps []pair
	for _, y := range l {
		v, err := vlib.AsInts(y)
		if err != nil || len(v) != 3 || v[2] < 0 || v[2] > 65536 {
			return nil, errors.New("bad coverage run")
		}
		for k := 0; k < v[2]; k++ {
			ps = append(ps, pair{v[0] + k, v[1] + k})
		}
	}
	return ps, nil
}

func stDescOf(x vlib.Sx) (stDesc, error) {
	f, err := vlib.AsList(x)
	if err != nil || len(f) != 3 {
		return stDesc{}, errors.New("bad subtable")
	}
	k, err := vlib.AsAtom(f[0])
	if err != nil {
		return stDesc{}, err
	}
	d := stDesc{kind: k}
	if k == "gsub11" {
		d.gl, err = vlib.AsInts(f[1])
		if err != nil {
			return d, err
		}
		d.delta, err = vlib.AsInt(f[2])
		return d, err
	}
	d.cov, err = covRunsOf(f[1])
	if err != nil {
		return d, err
	}
	switch k {
	case "gsub12":
		d.nums, err = vlib.AsInts(f[2])
	case "gsub21", "gsub31":
		var l []vlib.Sx
		l, err = vlib.AsList(f[2])
		if err != nil {
			return d, err
		}
		d.seqs = make([][]int, len(l))
		for i, y := range l {
			d.seqs[i], err = vlib.AsInts(y)
			if err != nil {
				return d, err
			}
			if d.seqs[i] == nil {
				d.seqs[i] = []int{}
			}
		}
	case "gpos11":
		d.vr, err = vrOf(f[2])
	case "gpos12":
		var l []vlib.Sx
		l, err = vlib.AsList(f[2])
		if err != nil {
			return d, err
		}
		d.vrs = make([]*gtab.GposValueRecord, len(l))
		for i, y := range l {
			d.vrs[i], err = vrOf(y)
			if err != nil {
				return d, err
			}
		}
	default:
		return d, errors.New("unknown subtable kind")
	}
	return d, err
}
