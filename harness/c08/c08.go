package c08

import (
	"errors"
	"fmt"

	"seehuhn.de/go/sfnt/verifharness/vlib"
)

// Gen writes the run for the given tier.
func Gen(run *vlib.Run, seed uint64, tier string) {
	run.Rule = "one case = one call of an encoder (structure -> bytes, declared length) or of a reader (bytes -> structure | err); non-trivial = coverage/classdef table with >= 2 glyphs, reader input of >= 6 bytes, lookup list with >= 2 lookups; distinct by case line"
	r := vlib.NewRand(seed)
	genCoverage(run, r.Fork("coverage"), tier)
	genClassdef(run, r.Fork("classdef"), tier)
}

func pairsOf(x vlib.Sx) ([]pair, error) {
	l, err := vlib.AsList(x)
	if err != nil {
		return nil, err
	}
	ps := make([]pair, len(l))
	for k, y := range l {
		v, err := vlib.AsInts(y)
		if err != nil || len(v) != 2 {
			return nil, errors.New("bad pair")
		}
		ps[k] = pair{v[0], v[1]}
	}
	return ps, nil
}

func validCov(ps []pair) bool {
	for k, p := range ps {
		if p.i != k || p.g < 0 || p.g > 65535 || (k > 0 && ps[k-1].g >= p.g) {
			return false
		}
	}
	return true
}

// RunCase re-executes one case line (corpus entries and replays).
func RunCase(line string) (impl, fail, sig string, err error) {
	oracleOnly := false
	if len(line) > 0 && line[0] == '!' {
		oracleOnly = true
		line = line[1:]
	}
	_ = oracleOnly
	items, err := vlib.Parse(line)
	if err != nil {
		return "", "", "", err
	}
	if len(items) == 0 {
		return "", "", "", errors.New("empty case")
	}
	kind, err := vlib.AsAtom(items[0])
	if err != nil {
		return "", "", "", err
	}
	switch kind {
	case "cov-enc":
		if len(items) != 2 {
			return "", "", "", errors.New("cov-enc: want 1 argument")
		}
		ps, err := pairsOf(items[1])
		if err != nil {
			return "", "", "", err
		}
		impl, fail = covEnc(ps, validCov(ps))
		return impl, fail, "c08-coverage-encode", nil
	case "cov-read":
		if len(items) != 3 {
			return "", "", "", errors.New("cov-read: want 2 arguments")
		}
		data, err := vlib.AsBytes(items[1])
		if err != nil {
			return "", "", "", err
		}
		pos, err := vlib.AsInt(items[2])
		if err != nil {
			return "", "", "", err
		}
		impl, fail = covRead(data, pos)
		return impl, fail, "c08-coverage-read", nil
	case "cd-enc":
		if len(items) != 2 {
			return "", "", "", errors.New("cd-enc: want 1 argument")
		}
		l, err := vlib.AsList(items[1])
		if err != nil {
			return "", "", "", err
		}
		var ps []pair
		for _, x := range l {
			v, err := vlib.AsInts(x)
			if err != nil || len(v) != 3 {
				return "", "", "", errors.New("bad run")
			}
			for k := 0; k < v[2]; k++ {
				ps = append(ps, pair{v[0] + k, v[1]})
			}
		}
		impl, fail = cdEnc(ps)
		return impl, fail, "c08-classdef-encode", nil
	case "cd-read":
		if len(items) != 3 {
			return "", "", "", errors.New("cd-read: want 2 arguments")
		}
		data, err := vlib.AsBytes(items[1])
		if err != nil {
			return "", "", "", err
		}
		pos, err := vlib.AsInt(items[2])
		if err != nil {
			return "", "", "", err
		}
		impl, fail = cdRead(data, pos)
		return impl, fail, "c08-classdef-read", nil
	}
	return "", "", "", fmt.Errorf("unknown case kind %q", kind)
}
