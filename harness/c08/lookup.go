package c08

import (
	"bytes"
	"crypto/md5"
	"encoding/hex"
	"errors"
	"fmt"

	"seehuhn.de/go/sfnt/glyph"
	"seehuhn.de/go/sfnt/opentype/coverage"
	"seehuhn.de/go/sfnt/opentype/gtab"
	"seehuhn.de/go/sfnt/verifharness/vlib"
)

// One subtable of a generated lookup list: a synthetic blob (size, seed) or a
// small real subtable that makes LookupList.encode determine the extension
// lookup type ("gsub": Gsub1_1, "gpos": Gpos1_1, "ctx": SeqContext3).
type llSub struct {
	kind string // "b", "gsub", "gpos", "ctx"
	size int
	seed int
	data []byte // kind != "b": the subtable's encoding
}

type llLookup struct {
	tp, flags, mfs int
	subs           []llSub
}

func blobBytes(size, seed int) []byte {
	b := make([]byte, size)
	for k := range b {
		b[k] = byte(seed + 7*k + (k >> 8))
	}
	return b
}

func realSub(kind string) gtab.Subtable {
	switch kind {
	case "gsub":
		return &gtab.Gsub1_1{Cov: coverage.Set{5: true}, Delta: 1}
	case "gpos":
		return &gtab.Gpos1_1{Cov: coverage.Table{5: 0}, Adjust: &gtab.GposValueRecord{XAdvance: 3}}
	case "ctx":
		return &gtab.SeqContext3{Input: []coverage.Set{{glyph.ID(7): true}}, Actions: []gtab.SeqLookup{{SequenceIndex: 0, LookupListIndex: 0}}}
	}
	return nil
}

func (s llSub) bytes() []byte {
	if s.kind == "b" {
		return blobBytes(s.size, s.seed)
	}
	return s.data
}

func (s llSub) sx() vlib.Sx {
	if s.kind == "b" {
		return vlib.L(vlib.Atom("b"), vlib.Int(s.size), vlib.Int(s.seed))
	}
	return vlib.L(vlib.Atom(s.kind), vlib.Hex(s.data))
}

func llSx(ll []llLookup) vlib.Sx {
	out := vlib.List{}
	for _, l := range ll {
		subs := vlib.List{}
		for _, s := range l.subs {
			subs = append(subs, s.sx())
		}
		out = append(out, vlib.L(vlib.Int(l.tp), vlib.Int(l.flags), vlib.Int(l.mfs), subs))
	}
	return out
}

func llBuild(ll []llLookup) gtab.LookupList {
	out := gtab.LookupList{}
	for _, l := range ll {
		lt := &gtab.LookupTable{Meta: &gtab.LookupMetaInfo{
			LookupType: uint16(l.tp), LookupFlags: gtab.LookupFlags(l.flags), MarkFilteringSet: uint16(l.mfs)}}
		for _, s := range l.subs {
			if s.kind == "b" {
				lt.Subtables = append(lt.Subtables, gtab.VerifC08Blob(blobBytes(s.size, s.seed)))
			} else {
				lt.Subtables = append(lt.Subtables, realSub(s.kind))
			}
		}
		out = append(out, lt)
	}
	return out
}

// extTypeOf: the extension lookup type the table needs (7 for GSUB, 9 for
// GPOS), from the first real subtable, as the OpenType text defines it; 0 if
// the list contains blobs only.
func extTypeOf(ll []llLookup) int {
	for _, l := range ll {
		for _, s := range l.subs {
			switch s.kind {
			case "gsub":
				return 7
			case "gpos":
				return 9
			case "ctx":
				switch l.tp {
				case 5, 6:
					return 7
				case 7, 8:
					return 9
				}
			}
		}
	}
	return 0
}

func bytesObs(b []byte) vlib.Sx {
	if len(b) <= 300 {
		return vlib.L(vlib.Atom("ok"), vlib.Hex(b))
	}
	h := md5.Sum(b)
	return vlib.L(vlib.Atom("ok"), vlib.Int(len(b)), vlib.Atom(hex.EncodeToString(h[:])))
}

func llObs(ll gtab.LookupList) vlib.Sx {
	out := vlib.List{}
	for _, l := range ll {
		ps := vlib.List{}
		for _, s := range l.Subtables {
			p, ok := s.(gtab.VerifC08Pos)
			if !ok {
				ps = append(ps, vlib.Atom("?"))
				continue
			}
			ps = append(ps, vlib.I64(int64(p)))
		}
		out = append(out, vlib.L(vlib.Int(int(l.Meta.LookupType)), vlib.Int(int(l.Meta.LookupFlags)), vlib.Int(int(l.Meta.MarkFilteringSet)), ps))
	}
	return vlib.L(vlib.Atom("ok"), out)
}

// specWalk is an independent structural walk of a lookup list written from
// the OpenType text: for every lookup its type (after resolving extension
// records), flags, mark filtering set and the absolute start of each
// subtable.  ext is the extension lookup type of the table (7 or 9; 0: none).
type walkLookup struct {
	tp, flags, mfs int
	subpos        []int
	viaExt        bool
}

func specWalk(b []byte, ext int) ([]walkLookup, error) {
	u16 := func(p int) (int, error) {
		if p < 0 || p+2 > len(b) {
			return 0, errors.New("out of bounds")
		}
		return int(b[p])<<8 | int(b[p+1]), nil
	}
	n, err := u16(0)
	if err != nil {
		return nil, err
	}
	var out []walkLookup
	for i := 0; i < n; i++ {
		off, err := u16(2 + 2*i)
		if err != nil {
			return nil, err
		}
		tp, err1 := u16(off)
		fl, err2 := u16(off + 2)
		cnt, err3 := u16(off + 4)
		if err1 != nil || err2 != nil || err3 != nil {
			return nil, errors.New("lookup table out of bounds")
		}
		w := walkLookup{tp: tp, flags: fl}
		for j := 0; j < cnt; j++ {
			so, err := u16(off + 6 + 2*j)
			if err != nil {
				return nil, err
			}
			p := off + so
			if ext != 0 && tp == ext {
				f, err1 := u16(p)
				et, err2 := u16(p + 2)
				hi, err3 := u16(p + 4)
				lo, err4 := u16(p + 6)
				if err1 != nil || err2 != nil || err3 != nil || err4 != nil || f != 1 {
					return nil, errors.New("bad extension record")
				}
				if j == 0 {
					w.tp = et
				} else if w.tp != et {
					return nil, errors.New("mixed extension types")
				}
				w.viaExt = true
				p += hi<<16 | lo
			}
			if p > len(b) {
				return nil, errors.New("subtable out of bounds")
			}
			w.subpos = append(w.subpos, p)
		}
		if fl&0x10 != 0 {
			w.mfs, err = u16(off + 6 + 2*cnt)
			if err != nil {
				return nil, err
			}
		}
		out = append(out, w)
	}
	return out, nil
}

// llPanicAllowed says whether refusing the list is legitimate: more objects
// than the reader accepts, a lookup whose own subtables need offsets beyond
// 16 bits (a limit of this library, refused loudly since the repair of
// DESIGN 5.A-14), or extension records needed while the table kind is unknown.
func llPanicAllowed(ll []llLookup) (bool, string) {
	objs := len(ll)
	total := 2 + 2*len(ll)
	ownOverflow := false
	tooLarge := false
	for _, l := range ll {
		objs += len(l.subs)
		hdr := 6 + 2*len(l.subs)
		if l.flags&0x10 != 0 {
			hdr += 2
		}
		if total > 0xFFFF {
			tooLarge = true
		}
		off := hdr
		for j, s := range l.subs {
			if off > 0xFFFF {
				ownOverflow = true
			}
			sz := s.size
			if s.kind != "b" {
				sz = len(s.data)
			}
			_ = j
			off += sz
		}
		total += off
	}
	switch {
	case len(ll) >= 1<<14 || objs > 6000:
		return true, "ll:refused-too-many-objects"
	case ownOverflow:
		return true, "ll:refused-own-subtables>64K"
	case tooLarge && extTypeOf(ll) == 0:
		return true, "ll:refused-unknown-extension-type"
	}
	return false, ""
}

// llEncode runs LookupList.encode and the oracle; it returns the observation
// for ll-enc and for ll-rt.
func llEncode(ll []llLookup) (obsEnc, obsRt, fail string, labels []string) {
	list := llBuild(ll)
	var enc []byte
	pp, msg := guard(func() { enc = gtab.VerifC08EncodeLookupList(list) })
	if pp {
		ok, lb := llPanicAllowed(ll)
		if !ok {
			return "panic", "panic", "encode panics on a representable lookup list: " + msg, []string{"ll:panic"}
		}
		return "panic", "panic", "", []string{"ll:panic", lb}
	}
	obsEnc = vlib.Str(bytesObs(enc))
	ext := extTypeOf(ll)
	// implementation's abstract read-back (observation of ll-rt)
	var back gtab.LookupList
	var err error
	if pp, msg := guard(func() { back, err = gtab.VerifC08ReadLookupListAbstract(enc, 0, uint16(ext)) }); pp {
		return obsEnc, "panic", "readLookupList panics on encode's output: " + msg, nil
	}
	if err != nil {
		obsRt = "err"
	} else {
		obsRt = vlib.Str(llObs(back))
	}
	// oracle: independent walk
	w, werr := specWalk(enc, ext)
	if werr != nil {
		return obsEnc, obsRt, "independent walk of the emitted lookup list fails: " + werr.Error(), nil
	}
	if len(w) != len(ll) {
		return obsEnc, obsRt, "independent walk: wrong number of lookups", nil
	}
	usedExt := false
	end := 0
	for i, l := range ll {
		wl := w[i]
		wantMfs := 0
		if l.flags&0x10 != 0 {
			wantMfs = l.mfs
		}
		if wl.tp != l.tp || wl.flags != l.flags || wl.mfs != wantMfs || len(wl.subpos) != len(l.subs) {
			return obsEnc, obsRt, fmt.Sprintf("independent walk: lookup %d comes back as type %d flags %d mfs %d with %d subtables", i, wl.tp, wl.flags, wl.mfs, len(wl.subpos)), nil
		}
		usedExt = usedExt || wl.viaExt
		for j, s := range l.subs {
			want := s.bytes()
			p := wl.subpos[j]
			if p+len(want) > len(enc) || !bytes.Equal(enc[p:p+len(want)], want) {
				return obsEnc, obsRt, fmt.Sprintf("independent walk: subtable %d of lookup %d is not at the offset written for it (position %d)", j, i, p), nil
			}
			if p+len(want) > end {
				end = p + len(want)
			}
		}
	}
	if len(ll) > 0 && end > len(enc) {
		return obsEnc, obsRt, "subtable beyond the end", nil
	}
	if err != nil {
		return obsEnc, obsRt, "readLookupList rejects encode's output: " + err.Error(), nil
	}
	// the library's own reader must agree with the walk
	for i := range ll {
		for j := range ll[i].subs {
			if p, ok := back[i].Subtables[j].(gtab.VerifC08Pos); !ok || int(p) != w[i].subpos[j] {
				return obsEnc, obsRt, "readLookupList resolves a subtable position differently from the independent walk", nil
			}
		}
		if int(back[i].Meta.LookupType) != ll[i].tp {
			return obsEnc, obsRt, "readLookupList returns a different lookup type", nil
		}
	}
	if usedExt {
		labels = append(labels, "ll:extension-records")
	}
	if len(enc) > 0xFFFF {
		labels = append(labels, "ll:>64KiB")
	}
	return obsEnc, obsRt, "", labels
}

func llRead(data []byte, pos, ext int) (impl, fail string) {
	var back gtab.LookupList
	var err error
	if pp, msg := guard(func() { back, err = gtab.VerifC08ReadLookupListAbstract(data, int64(pos), uint16(ext)) }); pp {
		return "panic", "readLookupList panics: " + msg
	}
	if err != nil {
		return "err", ""
	}
	return vlib.Str(llObs(back)), ""
}

// ---- generator ----

func genSub(r *vlib.Rand, big bool) llSub {
	sz := 0
	switch r.Intn(10) {
	case 0:
		sz = r.Intn(8) // tiny, also below the size of an extension record
	case 1, 2, 3, 4, 5:
		sz = 8 + r.Intn(60)
	case 6, 7:
		sz = 100 + r.Intn(3000)
	default:
		sz = 8 + r.Intn(400)
	}
	if big {
		sz = vlib.Pick(r, []int{8000, 15000, 20000, 30000, 40000}) + r.Intn(3000)
		if r.Chance(1, 6) {
			sz = vlib.Pick(r, []int{65000, 65535, 65536, 70000, 100000}) + r.Intn(3)
		}
	}
	return llSub{kind: "b", size: sz, seed: r.Intn(256)}
}

func markerSub(kind string) llSub {
	return llSub{kind: kind, data: gtab.VerifC08Encode(realSub(kind))}
}

func genLookupList(r *vlib.Rand, nLookups, nBig int, table string) []llLookup {
	ll := make([]llLookup, nLookups)
	bigAt := map[int]bool{}
	for k := 0; k < nBig && nLookups > 0; k++ {
		bigAt[r.Intn(nLookups)] = true
	}
	for i := range ll {
		l := &ll[i]
		l.tp = 1 + r.Intn(6)
		if table == "gpos" {
			l.tp = 1 + r.Intn(8)
		}
		if r.Chance(1, 4) {
			l.flags = r.Intn(65536)
		} else {
			l.flags = vlib.Pick(r, []int{0, 1, 8, 0x10, 0x18, 0xff00, 0xffff})
		}
		l.mfs = r.Intn(65536)
		ns := vlib.Pick(r, []int{0, 1, 1, 1, 2, 3, 5})
		if r.Chance(1, 30) {
			ns = 20 + r.Intn(60)
		}
		for j := 0; j < ns; j++ {
			l.subs = append(l.subs, genSub(r, bigAt[i] && (j == 0 || r.Chance(1, 8))))
		}
	}
	// the marker that tells encode which table this is
	if table != "" && nLookups > 0 {
		i := r.Intn(nLookups)
		switch table {
		case "gsub":
			ll[i].tp = 1
			ll[i].subs = append(ll[i].subs, markerSub("gsub"))
		case "gpos":
			ll[i].tp = 1
			ll[i].subs = append(ll[i].subs, markerSub("gpos"))
		case "ctx5":
			ll[i].tp = 5
			ll[i].subs = append(ll[i].subs, markerSub("ctx"))
		case "ctx7":
			ll[i].tp = 7
			ll[i].subs = append(ll[i].subs, markerSub("ctx"))
		}
		ext := extTypeOf(ll)
		for k := range ll { // real lookups never carry the extension type themselves
			if ll[k].tp == ext {
				ll[k].tp = 1
			}
		}
	}
	return ll
}

func genLookupLists(run *vlib.Run, r *vlib.Rand, tier string) {
	var encs [][]byte
	var encExt []int
	add := func(ll []llLookup, lb ...string) {
		sx := llSx(ll)
		obsEnc, obsRt, fail, more := llEncode(ll)
		lb = append(lb, more...)
		switch {
		case len(ll) == 0:
			lb = append(lb, "ll:n=0")
		case len(ll) < 10:
			lb = append(lb, "ll:n<10")
		case len(ll) < 100:
			lb = append(lb, "ll:n<100")
		default:
			lb = append(lb, "ll:n>=100")
		}
		line := vlib.Line(vlib.Atom("ll-enc"), sx)
		idx := run.Add(line, obsEnc, len(ll) >= 2, append([]string{"ll-enc"}, lb...)...)
		if fail != "" {
			run.Fail(idx, line, fail, "c08-lookuplist")
		}
		line2 := vlib.Line(vlib.Atom("ll-rt"), sx)
		run.Add(line2, obsRt, len(ll) >= 2, "ll-rt")
		if obsEnc != "panic" && len(encs) < 400 {
			var enc []byte
			list := llBuild(ll)
			guard(func() { enc = gtab.VerifC08EncodeLookupList(list) })
			if len(enc) < 3000 {
				encs = append(encs, enc)
				encExt = append(encExt, extTypeOf(ll))
			}
		}
	}
	tables := []string{"", "gsub", "gpos", "ctx5", "ctx7"}

	// fixed boundary cases
	add([]llLookup{})
	add([]llLookup{{tp: 1}})
	add([]llLookup{{tp: 1, flags: 0x10, mfs: 7, subs: []llSub{{kind: "b", size: 4, seed: 1}}}})
	add([]llLookup{{tp: 1, subs: []llSub{{kind: "b", size: 65535 - 4 - 8, seed: 1}}}, {tp: 2, subs: []llSub{{kind: "b", size: 10, seed: 2}}}}, "ll:boundary-65535")
	add([]llLookup{{tp: 1, subs: []llSub{{kind: "b", size: 65536 - 4 - 8, seed: 1}}}, {tp: 2, subs: []llSub{{kind: "b", size: 10, seed: 2}}}, {tp: 1, subs: []llSub{markerSub("gsub")}}}, "ll:boundary-65536")
	add([]llLookup{{tp: 1, subs: []llSub{{kind: "b", size: 65536 - 4 - 8, seed: 1}}}, {tp: 2, subs: []llSub{{kind: "b", size: 10, seed: 2}}}}, "ll:boundary-65536-blobs-only")
	// DESIGN 5.A-14: one lookup whose own subtables exceed 64 KiB
	add([]llLookup{{tp: 1, subs: []llSub{{kind: "b", size: 40000, seed: 1}, {kind: "b", size: 40000, seed: 2}, {kind: "b", size: 40000, seed: 3}}}}, "ll:A14-witness")
	add([]llLookup{{tp: 1, subs: []llSub{{kind: "b", size: 65535 - 10, seed: 1}, {kind: "b", size: 9, seed: 2}}}}, "ll:own-offset-65535")
	add([]llLookup{{tp: 1, subs: []llSub{{kind: "b", size: 65536 - 10, seed: 1}, {kind: "b", size: 9, seed: 2}}}}, "ll:own-offset-65536")
	// context-only lists that need extension records
	for _, tb := range []string{"ctx5", "ctx7", "gsub", "gpos"} {
		ll := genLookupList(r, 4, 0, tb)
		for k := 0; k < 3; k++ {
			ll[k].subs = append(ll[k].subs, llSub{kind: "b", size: 30000, seed: k})
		}
		add(ll, "ll:three-30K-"+tb)
	}
	// the reader's limit of 6000 lookups + subtables
	mk := func(n, perLookup int) []llLookup {
		ll := make([]llLookup, n)
		for i := range ll {
			ll[i].tp = 1
			for j := 0; j < perLookup; j++ {
				ll[i].subs = append(ll[i].subs, llSub{kind: "b", size: 8 + (i+j)%5, seed: i + j})
			}
		}
		return ll
	}
	add(mk(3000, 1), "ll:objects=6000")
	add(mk(3001, 1), "ll:objects=6002")
	add(mk(1, 5999), "ll:objects=6000-one-lookup")
	add(mk(300, 19), "ll:objects=6000-300-lookups")
	add(mk(300, 20), "ll:objects=6300")

	genBoundary(run, r, tier, add)

	n := vlib.Count(tier, 250, 6000)
	for k := 0; k < n; k++ {
		nl := vlib.Pick(r, []int{1, 2, 3, 5, 8, 20})
		if r.Chance(1, 12) {
			nl = r.Intn(301)
		}
		nBig := 0
		lb := "ll:small"
		if r.Chance(1, 4) {
			nBig = 1 + r.Intn(6)
			lb = "ll:with-big-subtables"
		}
		add(genLookupList(r, nl, nBig, vlib.Pick(r, tables)), lb)
	}

	// reader on explicit bytes: valid small lists, mutated, junk
	addRead := func(data []byte, pos, ext int, lb ...string) {
		line := vlib.Line(vlib.Atom("ll-read"), vlib.Hex(data), vlib.Int(pos), vlib.Int(ext))
		impl, fail := llRead(data, pos, ext)
		lb = append(lb, "ll-read", "ll-read:"+impl[:min(len(impl), 3)])
		idx := run.Add(line, impl, len(data) >= 8, lb...)
		if fail != "" {
			run.Fail(idx, line, fail, "c08-lookuplist-read")
		}
	}
	for k := 0; k < vlib.Count(tier, 500, 10000) && len(encs) > 0; k++ {
		i := r.Intn(len(encs))
		e := encs[i]
		ext := encExt[i]
		if r.Chance(1, 6) {
			ext = vlib.Pick(r, []int{0, 1, 7, 9})
		}
		pre := r.Intn(3)
		data := append(r.Bytes(pre), e...)
		lb := "ll-read:valid"
		if r.Chance(2, 3) {
			var m []byte
			m, lb = mutate(r, e)
			data = append(r.Bytes(pre), m...)
		}
		addRead(data, pre, ext, lb)
	}
	for k := 0; k < vlib.Count(tier, 100, 2000); k++ {
		// hand-made extension lookups: wrong format word, mixed types,
		// extension of extension, offsets beyond the end
		ext := vlib.Pick(r, []int{7, 9})
		cnt := 1 + r.Intn(3)
		b := []byte{0, 1, 0, 4, 0, byte(ext), 0, 0, 0, byte(cnt)}
		base := 4
		hdr := 6 + 2*cnt
		for j := 0; j < cnt; j++ {
			o := hdr + 8*j
			b = append(b, byte(o>>8), byte(o))
		}
		for j := 0; j < cnt; j++ {
			f := 1
			if r.Chance(1, 8) {
				f = r.Intn(3)
			}
			et := 1
			if r.Chance(1, 5) {
				et = vlib.Pick(r, []int{ext, 2, 0})
			}
			off := r.Intn(40)
			if r.Chance(1, 10) {
				off = 1 << uint(8+r.Intn(24))
			}
			b = append(b, 0, byte(f), 0, byte(et), byte(off>>24), byte(off>>16), byte(off>>8), byte(off))
		}
		_ = base
		if r.Chance(1, 6) {
			b = b[:len(b)-1-r.Intn(6)]
		}
		addRead(b, 0, ext, "ll-read:extension-handmade")
	}
}
