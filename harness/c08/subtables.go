package c08

import (
	"errors"
	"fmt"
	"sort"

	"seehuhn.de/go/postscript/funit"
	"seehuhn.de/go/sfnt/glyph"
	"seehuhn.de/go/sfnt/opentype/coverage"
	"seehuhn.de/go/sfnt/opentype/gtab"
	"seehuhn.de/go/sfnt/verifharness/vlib"
)

// ---- value records ----------------------------------------------------

func vrSx(v *gtab.GposValueRecord) vlib.Sx {
	if v == nil {
		return vlib.Atom("nil")
	}
	return vlib.L(vlib.Int(int(v.XPlacement)), vlib.Int(int(v.YPlacement)), vlib.Int(int(v.XAdvance)), vlib.Int(int(v.YAdvance)),
		vlib.Int(int(v.XPlacementDevOffs)), vlib.Int(int(v.YPlacementDevOffs)), vlib.Int(int(v.XAdvanceDevOffs)), vlib.Int(int(v.YAdvanceDevOffs)))
}

func vrOf(x vlib.Sx) (*gtab.GposValueRecord, error) {
	if a, ok := x.(vlib.Atom); ok {
		if a == "nil" {
			return nil, nil
		}
		return nil, errors.New("bad value record")
	}
	v, err := vlib.AsInts(x)
	if err != nil || len(v) != 8 {
		return nil, errors.New("bad value record")
	}
	return &gtab.GposValueRecord{XPlacement: funit.Int16(v[0]), YPlacement: funit.Int16(v[1]), XAdvance: funit.Int16(v[2]), YAdvance: funit.Int16(v[3]),
		XPlacementDevOffs: uint16(v[4]), YPlacementDevOffs: uint16(v[5]), XAdvanceDevOffs: uint16(v[6]), YAdvanceDevOffs: uint16(v[7])}, nil
}

func vrEqual(a, b *gtab.GposValueRecord) bool {
	if a == nil || b == nil {
		return a == b
	}
	return *a == *b
}

func vrIsZero(a *gtab.GposValueRecord) bool {
	return a == nil || *a == gtab.GposValueRecord{}
}

func genVR(r *vlib.Rand) *gtab.GposValueRecord {
	if r.Chance(1, 6) {
		return nil
	}
	v := &gtab.GposValueRecord{}
	if r.Chance(1, 8) {
		return v
	}
	val := func() int {
		return vlib.Pick(r, []int{0, 0, 1, -1, 255, 256, -256, 32767, -32768, r.Intn(65536) - 32768})
	}
	uval := func() int { return vlib.Pick(r, []int{0, 0, 0, 1, 255, 256, 65535, r.Intn(65536)}) }
	v.XPlacement, v.YPlacement, v.XAdvance, v.YAdvance = funit.Int16(val()), funit.Int16(val()), funit.Int16(val()), funit.Int16(val())
	if r.Chance(1, 3) {
		v.XPlacementDevOffs, v.YPlacementDevOffs, v.XAdvanceDevOffs, v.YAdvanceDevOffs = uint16(uval()), uint16(uval()), uint16(uval()), uint16(uval())
	}
	return v
}

// vrEnc: "vr-enc FMT|own VR" -> (format xBYTES encodeLen)
func vrEnc(fmtAtom string, v *gtab.GposValueRecord) (impl, fail string) {
	var f uint16
	var enc []byte
	var n int
	pp, msg := guard(func() {
		if fmtAtom == "own" {
			f = gtab.VerifC08ValueFormat(v)
		} else {
			var k int
			fmt.Sscan(fmtAtom, &k)
			f = uint16(k)
		}
		enc = gtab.VerifC08ValueEncode(v, f)
		n = gtab.VerifC08ValueEncodeLen(v, f)
	})
	if pp {
		return "panic", "value record encode panics: " + msg
	}
	impl = vlib.Str(vlib.L(vlib.Int(int(f)), vlib.Hex(enc), vlib.Int(n)))
	if f < 256 && n != len(enc) {
		return impl, fmt.Sprintf("value record: encodeLen %d but %d bytes written", n, len(enc))
	}
	if fmtAtom == "own" {
		var back *gtab.GposValueRecord
		var err error
		if pp, _ := guard(func() { back, err = gtab.VerifC08ValueRead(enc, f) }); pp || err != nil {
			return impl, "value record does not read back"
		}
		if !vrEqual(back, v) {
			return impl, "value record changes in a round trip with its own format"
		}
	}
	return impl, ""
}

func vrRead(f int, data []byte) (impl, fail string) {
	var back *gtab.GposValueRecord
	var err error
	// the parser position after the read = bytes consumed
	if pp, msg := guard(func() { back, err = gtab.VerifC08ValueRead(data, uint16(f)) }); pp {
		return "panic", "readValueRecord panics: " + msg
	}
	if err != nil {
		return "err", ""
	}
	used := 0
	for k := 0; k < 8; k++ {
		if f&(1<<uint(k)) != 0 {
			used += 2
		}
	}
	if f == 0 {
		used = 0
	}
	return vlib.Str(vlib.L(vlib.Atom("ok"), vrSx(back), vlib.Int(len(data)-used))), ""
}

// ---- subtables --------------------------------------------------------

// canonical description of a subtable
type stDesc struct {
	kind  string // gsub11 gsub12 gsub21 gsub31 gpos11 gpos12
	gl    []int  // gsub11: the set
	delta int
	cov   []pair // (gid, idx) sorted by gid
	nums  []int  // gsub12: substitutes
	seqs  [][]int
	vr    *gtab.GposValueRecord
	vrs   []*gtab.GposValueRecord
}

func (d stDesc) sx() vlib.Sx {
	ints := func(v []int) vlib.Sx { return vlib.Ints(v) }
	switch d.kind {
	case "gsub11":
		return vlib.L(vlib.Atom(d.kind), ints(d.gl), vlib.Int(d.delta))
	case "gsub12":
		return vlib.L(vlib.Atom(d.kind), runsSx(d.cov), ints(d.nums))
	case "gsub21", "gsub31":
		q := vlib.List{}
		for _, s := range d.seqs {
			q = append(q, ints(s))
		}
		return vlib.L(vlib.Atom(d.kind), runsSx(d.cov), q)
	case "gpos11":
		return vlib.L(vlib.Atom(d.kind), runsSx(d.cov), vrSx(d.vr))
	case "gpos12":
		q := vlib.List{}
		for _, v := range d.vrs {
			q = append(q, vrSx(v))
		}
		return vlib.L(vlib.Atom(d.kind), runsSx(d.cov), q)
	}
	return vlib.Atom("?")
}

func gids(v []int) []glyph.ID {
	out := make([]glyph.ID, len(v))
	for i, x := range v {
		out[i] = glyph.ID(x)
	}
	return out
}

func (d stDesc) build() gtab.Subtable {
	switch d.kind {
	case "gsub11":
		set := coverage.Set{}
		for _, g := range d.gl {
			set[glyph.ID(g)] = true
		}
		return &gtab.Gsub1_1{Cov: set, Delta: glyph.ID(d.delta)}
	case "gsub12":
		return &gtab.Gsub1_2{Cov: tableOf(d.cov), SubstituteGlyphIDs: gids(d.nums)}
	case "gsub21":
		r := make([][]glyph.ID, len(d.seqs))
		for i, s := range d.seqs {
			r[i] = gids(s)
		}
		return &gtab.Gsub2_1{Cov: tableOf(d.cov), Repl: r}
	case "gsub31":
		r := make([][]glyph.ID, len(d.seqs))
		for i, s := range d.seqs {
			r[i] = gids(s)
		}
		return &gtab.Gsub3_1{Cov: tableOf(d.cov), Alternates: r}
	case "gpos11":
		return &gtab.Gpos1_1{Cov: tableOf(d.cov), Adjust: d.vr}
	case "gpos12":
		return &gtab.Gpos1_2{Cov: tableOf(d.cov), Adjust: d.vrs}
	}
	return nil
}

func (d stDesc) table() (gtab.Type, int) {
	switch d.kind {
	case "gsub11", "gsub12":
		return gtab.TypeGsub, 1
	case "gsub21":
		return gtab.TypeGsub, 2
	case "gsub31":
		return gtab.TypeGsub, 3
	}
	return gtab.TypeGpos, 1
}

func covPairs(t coverage.Table) []pair {
	ps := make([]pair, 0, len(t))
	for g, i := range t {
		ps = append(ps, pair{int(g), i})
	}
	sortPairs(ps)
	return ps
}

func intsOf(v []glyph.ID) []int {
	out := make([]int, len(v))
	for i, x := range v {
		out[i] = int(x)
	}
	return out
}

// describe canonicalises a decoded subtable.
func describe(s gtab.Subtable) (stDesc, bool) {
	switch t := s.(type) {
	case *gtab.Gsub1_1:
		gl := make([]int, 0, len(t.Cov))
		for g := range t.Cov {
			gl = append(gl, int(g))
		}
		sort.Ints(gl)
		return stDesc{kind: "gsub11", gl: gl, delta: int(t.Delta)}, true
	case *gtab.Gsub1_2:
		return stDesc{kind: "gsub12", cov: covPairs(t.Cov), nums: intsOf(t.SubstituteGlyphIDs)}, true
	case *gtab.Gsub2_1:
		q := make([][]int, len(t.Repl))
		for i, s := range t.Repl {
			q[i] = intsOf(s)
		}
		return stDesc{kind: "gsub21", cov: covPairs(t.Cov), seqs: q}, true
	case *gtab.Gsub3_1:
		q := make([][]int, len(t.Alternates))
		for i, s := range t.Alternates {
			q[i] = intsOf(s)
		}
		return stDesc{kind: "gsub31", cov: covPairs(t.Cov), seqs: q}, true
	case *gtab.Gpos1_1:
		return stDesc{kind: "gpos11", cov: covPairs(t.Cov), vr: t.Adjust}, true
	case *gtab.Gpos1_2:
		return stDesc{kind: "gpos12", cov: covPairs(t.Cov), vrs: t.Adjust}, true
	}
	return stDesc{}, false
}

// wellFormed: valid coverage table and one array entry per covered glyph.
func (d stDesc) wellFormed() bool {
	if d.kind == "gsub11" {
		for k := range d.gl {
			if d.gl[k] < 0 || d.gl[k] > 65535 || (k > 0 && d.gl[k-1] >= d.gl[k]) {
				return false
			}
		}
		return true
	}
	if !validCov(d.cov) {
		return false
	}
	switch d.kind {
	case "gsub12":
		return len(d.nums) == len(d.cov)
	case "gsub21", "gsub31":
		return len(d.seqs) == len(d.cov)
	case "gpos12":
		return len(d.vrs) == len(d.cov)
	}
	return true
}

// overflow: the coverage offset does not fit 16 bits (loud refusal expected).
func (d stDesc) overflow() bool {
	switch d.kind {
	case "gsub12":
		return 6+2*len(d.nums) > 0xFFFF
	case "gsub21", "gsub31":
		t := 6 + 2*len(d.seqs)
		for _, s := range d.seqs {
			t += 2 + 2*len(s)
		}
		return t > 0xFFFF
	case "gpos12":
		f := 0
		for _, v := range d.vrs {
			f |= int(gtab.VerifC08ValueFormat(v))
		}
		n := 0
		for k := 0; k < 16; k++ {
			if f&(1<<uint(k)) != 0 {
				n += 2
			}
		}
		return 8+n*len(d.vrs) > 0xFFFF
	}
	return false
}

// same compares two descriptions; for gpos12 a nil record and an all-zero
// record are the same adjustment (the reader returns nil only when the common
// value format is 0).
func same(a, b stDesc) bool {
	if a.kind != b.kind || fmt.Sprint(a.gl) != fmt.Sprint(b.gl) || a.delta != b.delta ||
		fmt.Sprint(a.cov) != fmt.Sprint(b.cov) || fmt.Sprint(a.nums) != fmt.Sprint(b.nums) ||
		len(a.seqs) != len(b.seqs) || len(a.vrs) != len(b.vrs) {
		return false
	}
	for i := range a.seqs {
		if fmt.Sprint(a.seqs[i]) != fmt.Sprint(b.seqs[i]) {
			return false
		}
	}
	if !vrEqual(a.vr, b.vr) {
		return false
	}
	allZero := true
	for _, v := range a.vrs {
		if v != nil {
			allZero = false
		}
	}
	for i := range a.vrs {
		if vrEqual(a.vrs[i], b.vrs[i]) {
			continue
		}
		if !allZero && vrIsZero(a.vrs[i]) && vrIsZero(b.vrs[i]) {
			continue
		}
		return false
	}
	return true
}

func subEnc(d stDesc) (impl, fail string, enc []byte) {
	st := d.build()
	var n int
	p1, msg := guard(func() { enc = gtab.VerifC08Encode(st) })
	p2, _ := guard(func() { n = gtab.VerifC08EncodeLen(st) })
	wf := d.wellFormed()
	if p1 {
		if wf && !d.overflow() {
			return "panic", "encode panics on a well-formed subtable: " + msg, nil
		}
		return "panic", "", nil
	}
	if p2 {
		return "panic-len", "encodeLen panics but encode does not", nil
	}
	impl = vlib.Str(vlib.L(vlib.Atom("ok"), vlib.Hex(enc), vlib.Int(n)))
	if n != len(enc) {
		return impl, fmt.Sprintf("encodeLen = %d but encode wrote %d bytes", n, len(enc)), enc
	}
	if d.overflow() {
		return impl, "a subtable whose coverage offset does not fit 16 bits was written instead of refused", enc
	}
	if !wf {
		return impl, "", enc
	}
	tp, lt := d.table()
	var back gtab.Subtable
	var err error
	if pp, msg := guard(func() { back, err = gtab.VerifC08ReadSubtable(enc, 0, tp, uint16(lt)) }); pp {
		return impl, "the reader panics on encode's output: " + msg, enc
	}
	if err != nil {
		return impl, "the reader rejects encode's output: " + err.Error(), enc
	}
	bd, ok := describe(back)
	if !ok || !same(d, bd) {
		return impl, "round trip changes the subtable: " + vlib.Str(bd.sx()), enc
	}
	// the coverage offset points at a coverage table for exactly the covered glyphs
	if d.kind != "gsub11" && len(enc) >= 4 {
		off := int(enc[2])<<8 | int(enc[3])
		if off > len(enc) {
			return impl, "coverage offset beyond the subtable", enc
		}
		gl, sz, ok := specCoverage(enc[off:])
		if !ok || off+sz != len(enc) || len(gl) != len(d.cov) {
			return impl, "the coverage offset does not point at the coverage table that ends the subtable", enc
		}
	}
	return impl, "", enc
}

var modelledKeys = map[string]map[int]bool{
	"gsub": {11: true, 12: true, 21: true, 31: true, 41: true},
	"gpos": {11: true, 12: true, 21: true},
}
var knownKeys = map[string]map[int]bool{
	"gsub": {11: true, 12: true, 21: true, 31: true, 41: true, 51: true, 52: true, 53: true, 61: true, 62: true, 63: true, 71: true, 81: true},
	"gpos": {11: true, 12: true, 21: true, 22: true, 31: true, 41: true, 51: true, 61: true, 71: true, 72: true, 73: true, 81: true, 82: true, 83: true, 91: true},
}

// subRead: "sub-read gsub|gpos TYPE xBYTES pos"; modelled = false when the
// dispatcher picks a reader this model does not cover.
func subRead(tbl string, lt int, data []byte, pos int) (impl, fail string, modelled bool) {
	modelled = true
	if pos+2 <= len(data) && pos >= 0 {
		key := (10*lt + (int(data[pos])<<8 | int(data[pos+1]))) & 0xFFFF
		if knownKeys[tbl][key] && !modelledKeys[tbl][key] {
			modelled = false
		}
	}
	tp := gtab.Type(gtab.TypeGsub)
	if tbl == "gpos" {
		tp = gtab.TypeGpos
	}
	var back gtab.Subtable
	var err error
	if pp, msg := guard(func() { back, err = gtab.VerifC08ReadSubtable(data, int64(pos), tp, uint16(lt)) }); pp {
		return "panic", "the subtable reader panics: " + msg, modelled
	}
	if err != nil {
		return "err", "", modelled
	}
	d, ok := describe(back)
	if !ok {
		xd, okx := describeX(back)
		if !okx {
			return "other", "", false
		}
		impl = vlib.Str(vlib.L(vlib.Atom("ok"), xd.sx()))
		if !xd.wellFormed() {
			return impl, "decoded subtable is not well-formed (coverage and array lengths differ)", modelled
		}
		var enc []byte
		if pp, _ := guard(func() { enc = gtab.VerifC08Encode(back) }); pp {
			return impl, "encode panics on a decoded subtable", modelled
		}
		_, lt2 := xd.table()
		var again gtab.Subtable
		if pp, _ := guard(func() { again, err = gtab.VerifC08ReadSubtable(enc, 0, tp, uint16(lt2)) }); pp || err != nil {
			return impl, "decoded subtable does not survive encode -> read", modelled
		}
		if d2, ok := describeX(again); !ok || !sameX(xd, d2) {
			return impl, "decoded subtable changes under encode -> read", modelled
		}
		return impl, "", modelled
	}
	impl = vlib.Str(vlib.L(vlib.Atom("ok"), d.sx()))
	// a decoded subtable is well-formed (pruning) and survives encode -> read
	if !d.wellFormed() {
		return impl, "decoded subtable is not well-formed (coverage and array lengths differ)", modelled
	}
	var enc []byte
	if pp, _ := guard(func() { enc = gtab.VerifC08Encode(back) }); pp {
		if !d.overflow() {
			return impl, "encode panics on a decoded subtable", modelled
		}
		return impl, "", modelled
	}
	_, lt2 := d.table()
	var again gtab.Subtable
	if pp, _ := guard(func() { again, err = gtab.VerifC08ReadSubtable(enc, 0, tp, uint16(lt2)) }); pp || err != nil {
		return impl, "decoded subtable does not survive encode -> read", modelled
	}
	if d2, ok := describe(again); !ok || !same(d, d2) {
		return impl, "decoded subtable changes under encode -> read", modelled
	}
	return impl, "", modelled
}

// ---- generators -------------------------------------------------------

func genSeq(r *vlib.Rand, maxLen int) []int {
	n := r.Intn(maxLen + 1)
	s := make([]int, n)
	for i := range s {
		s[i] = vlib.Pick(r, []int{0, 1, 65535, r.Intn(65536)})
	}
	return s
}

func genSubtable(r *vlib.Rand, kind string, maxG int) stDesc {
	gl := glyphSet(r, maxG)
	d := stDesc{kind: kind}
	if kind == "gsub11" {
		for _, g := range gl {
			d.gl = append(d.gl, int(g))
		}
		d.delta = vlib.Pick(r, []int{0, 1, 65535, r.Intn(65536)})
		return d
	}
	d.cov = validPairs(gl)
	n := len(gl)
	if r.Chance(1, 12) { // ill-formed: array and coverage differ in length
		n += r.Intn(5) - 2
		if n < 0 {
			n = 0
		}
	}
	switch kind {
	case "gsub12":
		d.nums = make([]int, n)
		for i := range d.nums {
			d.nums[i] = r.Intn(65536)
		}
	case "gsub21", "gsub31":
		d.seqs = make([][]int, n)
		for i := range d.seqs {
			d.seqs[i] = genSeq(r, vlib.Pick(r, []int{0, 1, 2, 5}))
		}
	case "gpos11":
		d.vr = genVR(r)
	case "gpos12":
		d.vrs = make([]*gtab.GposValueRecord, n)
		for i := range d.vrs {
			d.vrs[i] = genVR(r)
		}
	}
	return d
}

func genSubtables(run *vlib.Run, r *vlib.Rand, tier string) {
	// value records
	for k := 0; k < vlib.Count(tier, 300, 6000); k++ {
		v := genVR(r)
		f := "own"
		if r.Chance(1, 2) {
			f = fmt.Sprint(vlib.Pick(r, []int{0, 1, 4, 0x0f, 0xf0, 0xff, r.Intn(256), r.Intn(65536)}))
		}
		line := vlib.Line(vlib.Atom("vr-enc"), vlib.Atom(f), vrSx(v))
		impl, fail := vrEnc(f, v)
		idx := run.Add(line, impl, v != nil, "vr-enc", "vr-enc:"+map[bool]string{true: "own", false: "given"}[f == "own"])
		if fail != "" {
			run.Fail(idx, line, fail, "c08-valuerecord")
		}
	}
	for k := 0; k < vlib.Count(tier, 300, 6000); k++ {
		f := vlib.Pick(r, []int{0, 1, 4, 0x0f, 0xf0, 0xff, r.Intn(256), r.Intn(65536)})
		data := r.Bytes(r.Intn(20))
		line := vlib.Line(vlib.Atom("vr-read"), vlib.Int(f), vlib.Hex(data))
		impl, fail := vrRead(f, data)
		idx := run.Add(line, impl, len(data) >= 2, "vr-read", "vr-read:"+impl[:min(len(impl), 3)])
		if fail != "" {
			run.Fail(idx, line, fail, "c08-valuerecord")
		}
	}

	kinds := []string{"gsub11", "gsub12", "gsub21", "gsub31", "gpos11", "gpos12"}
	type encd struct {
		d   stDesc
		enc []byte
	}
	var encs []encd
	addEnc := func(d stDesc, lb ...string) {
		line := vlib.Line(vlib.Atom("sub-enc"), d.sx())
		impl, fail, enc := subEnc(d)
		lb = append(lb, "sub-enc", "sub-enc:"+d.kind)
		if impl == "panic" {
			lb = append(lb, "sub-enc:panic")
		}
		if !d.wellFormed() {
			lb = append(lb, "sub-enc:ill-formed")
		}
		idx := run.Add(line, impl, true, lb...)
		if fail != "" {
			run.Fail(idx, line, fail, "c08-subtable-"+d.kind)
		}
		if enc != nil && len(enc) < 500 {
			encs = append(encs, encd{d, enc})
		}
	}
	for _, k := range kinds {
		addEnc(genSubtable(vlib.NewRand(1), k, 0), "sub-enc:empty")
	}
	// the 16-bit limit of the coverage offset: 32764 substitutes fit, 32765 do not
	for _, n := range []int{32764, 32765} {
		gl := make([]pair, n)
		nums := make([]int, n)
		for i := range gl {
			gl[i] = pair{i, i}
			nums[i] = (i * 7) & 0xffff
		}
		addEnc(stDesc{kind: "gsub12", cov: gl, nums: nums}, fmt.Sprintf("sub-enc:gsub12-n=%d", n))
	}
	for _, n := range []int{16382, 16383} { // 6 + 2n + 2n = 65534 / 65538
		gl := make([]pair, n)
		seqs := make([][]int, n)
		for i := range gl {
			gl[i] = pair{i, i}
			seqs[i] = []int{}
		}
		addEnc(stDesc{kind: "gsub21", cov: gl, seqs: seqs}, fmt.Sprintf("sub-enc:gsub21-n=%d", n))
	}
	for _, n := range []int{32763, 32764} { // 8 + 2n: one field per record
		gl := make([]pair, n)
		vrs := make([]*gtab.GposValueRecord, n)
		for i := range gl {
			gl[i] = pair{i, i}
			vrs[i] = &gtab.GposValueRecord{XAdvance: funit.Int16(i%100 + 1)}
		}
		addEnc(stDesc{kind: "gpos12", cov: gl, vrs: vrs}, fmt.Sprintf("sub-enc:gpos12-n=%d", n))
	}
	for k := 0; k < vlib.Count(tier, 600, 12000); k++ {
		maxG := vlib.Pick(r, []int{3, 8, 30, 120})
		addEnc(genSubtable(r, vlib.Pick(r, kinds), maxG))
	}

	// readers on (damaged) encodings
	for k := 0; k < vlib.Count(tier, 900, 18000) && len(encs) > 0; k++ {
		e := vlib.Pick(r, encs)
		tbl := "gsub"
		if e.d.kind[:4] == "gpos" {
			tbl = "gpos"
		}
		_, lt := e.d.table()
		pre := r.Intn(3)
		data := append(r.Bytes(pre), e.enc...)
		lb := "sub-read:valid"
		if r.Chance(2, 3) {
			var m []byte
			m, lb = mutate(r, e.enc)
			data = append(r.Bytes(pre), m...)
		}
		if r.Chance(1, 15) {
			lt = vlib.Pick(r, []int{0, 1, 2, 3, 9, 6554, 6555, 65535})
		}
		impl, fail, modelled := subRead(tbl, lt, data, pre)
		line := vlib.Line(vlib.Atom("sub-read"), vlib.Atom(tbl), vlib.Int(lt), vlib.Hex(data), vlib.Int(pre))
		if !modelled {
			line = "!" + line
		}
		idx := run.Add(line, impl, len(data) >= 8, "sub-read", lb, "sub-read:"+impl[:min(len(impl), 3)])
		if fail != "" {
			run.Fail(idx, line, fail, "c08-subtable-read")
		}
	}
}
