package c08

import (
	"fmt"
	"sort"

	"seehuhn.de/go/sfnt/glyph"
	"seehuhn.de/go/sfnt/opentype/classdef"
	"seehuhn.de/go/sfnt/verifharness/vlib"
)

// crunsSx compresses (gid, class) pairs (sorted by gid) into maximal runs of
// consecutive gids with one class: ((gid class len) ...).
func crunsSx(ps []pair) vlib.Sx {
	out := vlib.List{}
	for k := 0; k < len(ps); {
		j := k + 1
		for j < len(ps) && ps[j].g == ps[k].g+(j-k) && ps[j].i == ps[k].i {
			j++
		}
		out = append(out, vlib.L(vlib.Int(ps[k].g), vlib.Int(ps[k].i), vlib.Int(j-k)))
		k = j
	}
	return out
}

func cdPairs(t classdef.Table) []pair {
	ps := make([]pair, 0, len(t))
	for g, c := range t {
		ps = append(ps, pair{int(g), int(c)})
	}
	sortPairs(ps)
	return ps
}

func cdTable(ps []pair) classdef.Table {
	t := make(classdef.Table, len(ps))
	for _, p := range ps {
		t[glyph.ID(p.g)] = uint16(p.i)
	}
	return t
}

func cdEncLine(ps []pair) string {
	return vlib.Line(vlib.Atom("cd-enc"), crunsSx(ps))
}

// specClassDef is an independent reader written from the OpenType text:
// class of every glyph (0 = not listed) and the size of the table.
func specClassDef(b []byte) (cls map[int]int, size int, ok bool) {
	cls = map[int]int{}
	if len(b) < 4 {
		return nil, 0, false
	}
	switch int(b[0])<<8 | int(b[1]) {
	case 1:
		if len(b) < 6 {
			return nil, 0, false
		}
		start := int(b[2])<<8 | int(b[3])
		n := int(b[4])<<8 | int(b[5])
		if len(b) < 6+2*n || start+n > 65536 {
			return nil, 0, false
		}
		for k := 0; k < n; k++ {
			if c := int(b[6+2*k])<<8 | int(b[7+2*k]); c != 0 {
				cls[start+k] = c
			}
		}
		return cls, 6 + 2*n, true
	case 2:
		n := int(b[2])<<8 | int(b[3])
		if len(b) < 4+6*n {
			return nil, 0, false
		}
		last := -1
		for k := 0; k < n; k++ {
			q := b[4+6*k:]
			s, e, c := int(q[0])<<8|int(q[1]), int(q[2])<<8|int(q[3]), int(q[4])<<8|int(q[5])
			if s <= last || e < s {
				return nil, 0, false
			}
			last = e
			for g := s; g <= e; g++ {
				if c != 0 {
					cls[g] = c
				}
			}
		}
		return cls, 4 + 6*n, true
	}
	return nil, 0, false
}

// cdSizes computes, from the definition, the sizes of the two formats for
// the table's key span and the number of format-2 ranges.
func cdSizes(ps []pair) (f1, f2, segs, span int) {
	if len(ps) == 0 {
		return 1 << 40, 4, 0, 0
	}
	span = ps[len(ps)-1].g - ps[0].g + 1
	f1 = 6 + 2*span
	if span > 65535 {
		f1 = 1 << 40 // the 16-bit glyph count cannot express it
	}
	prevG, prevC := -2, 0
	for _, p := range ps {
		if p.i != 0 && !(p.g == prevG+1 && p.i == prevC) {
			segs++
		}
		prevG, prevC = p.g, p.i
	}
	return f1, 4 + 6*segs, segs, span
}

func cdEnc(ps []pair) (impl, fail string) {
	t := cdTable(ps)
	var enc []byte
	var encLen int
	if pp, _ := guard(func() { encLen = t.AppendLen() }); pp {
		return "panic-len", "AppendLen panics"
	}
	prefix := []byte{0xAA, 0xBB}
	pp, _ := guard(func() { enc = t.Append(append([]byte(nil), prefix...)) })
	_, _, segs, _ := cdSizes(ps)
	if pp {
		impl = vlib.Str(vlib.L(vlib.Atom("panic"), vlib.Int(encLen)))
		if segs <= 65535 {
			fail = "Append panics on a representable class table"
		}
		return
	}
	if len(enc) < 2 || enc[0] != 0xAA || enc[1] != 0xBB {
		return "bad-prefix", "Append damaged the buffer it appends to"
	}
	enc = enc[2:]
	impl = vlib.Str(vlib.L(vlib.Atom("ok"), vlib.Hex(enc), vlib.Int(encLen)))
	if segs > 65535 {
		return impl, "a class table that needs more than 65535 ranges was written instead of refused"
	}
	if encLen != len(enc) {
		return impl, fmt.Sprintf("AppendLen = %d but Append wrote %d bytes", encLen, len(enc))
	}
	f1, f2, _, _ := cdSizes(ps)
	want := f1
	if f2 < want {
		want = f2
	}
	if len(enc) != want {
		return impl, fmt.Sprintf("size %d is not the smaller format (format 1: %d, format 2: %d)", len(enc), f1, f2)
	}
	cls, sz, ok := specClassDef(enc)
	if !ok || sz != len(enc) {
		return impl, "independent reader rejects the emitted bytes or finds a different size"
	}
	nz := 0
	for _, p := range ps {
		if p.i != 0 {
			nz++
			if cls[p.g] != p.i {
				return impl, fmt.Sprintf("independent reader: glyph %d has class %d, want %d", p.g, cls[p.g], p.i)
			}
		}
	}
	if nz != len(cls) {
		return impl, "independent reader: emitted bytes classify glyphs the table does not"
	}
	var back classdef.Table
	var err error
	if pp, _ := guard(func() { back, err = classdef.Read(newParser(enc), 0) }); pp {
		return impl, "classdef.Read panics on Append's output"
	}
	if err != nil {
		return impl, "classdef.Read rejects Append's output: " + err.Error()
	}
	if len(back) != nz {
		return impl, fmt.Sprintf("round trip: %d classified glyphs became %d", nz, len(back))
	}
	for _, p := range ps {
		if p.i != 0 && int(back[glyph.ID(p.g)]) != p.i {
			return impl, fmt.Sprintf("round trip changes the class of glyph %d", p.g)
		}
	}
	return impl, ""
}

func cdReadLine(data []byte, pos int) string {
	return vlib.Line(vlib.Atom("cd-read"), vlib.Hex(data), vlib.Int(pos))
}

func cdRead(data []byte, pos int) (impl, fail string) {
	var t classdef.Table
	var err error
	if pp, msg := guard(func() { t, err = classdef.Read(newParser(data), int64(pos)) }); pp {
		return "panic", "classdef.Read panics: " + msg
	}
	if err != nil {
		return "err", ""
	}
	ps := cdPairs(t)
	impl = vlib.Str(vlib.L(vlib.Atom("ok"), crunsSx(ps)))
	for _, p := range ps {
		if p.i == 0 {
			return impl, "decoded table stores class 0"
		}
	}
	var enc []byte
	if pp, _ := guard(func() { enc = t.Append(nil) }); pp {
		_, _, segs, _ := cdSizes(ps)
		if segs <= 65535 {
			return impl, "Append panics on a decoded table"
		}
		return impl, ""
	}
	var back classdef.Table
	if pp, _ := guard(func() { back, err = classdef.Read(newParser(enc), 0) }); pp || err != nil {
		return impl, "decoded table does not survive encode -> read"
	}
	if len(back) != len(t) {
		return impl, "decoded table changes under encode -> read"
	}
	for g, c := range t {
		if back[g] != c {
			return impl, "decoded table changes under encode -> read"
		}
	}
	return impl, ""
}

// classTable assigns classes to a glyph set: per-run classes, random
// classes, a few explicit zeros, boundary class values.
func classTable(r *vlib.Rand, gl []glyph.ID) []pair {
	ps := make([]pair, len(gl))
	mode := r.Intn(4)
	nClasses := vlib.Pick(r, []int{1, 2, 3, 8, 65535})
	cur := 1 + r.Intn(nClasses)
	for k, g := range gl {
		newRun := k == 0 || gl[k-1]+1 != g
		switch mode {
		case 0: // one class per run of consecutive glyphs
			if newRun {
				cur = 1 + r.Intn(nClasses)
			}
		case 1: // independent classes
			cur = 1 + r.Intn(nClasses)
		case 2: // long stretches
			if r.Chance(1, 8) {
				cur = 1 + r.Intn(nClasses)
			}
		default: // like 2, with explicit zero entries
			if r.Chance(1, 6) {
				cur = r.Intn(nClasses + 1)
			}
		}
		ps[k] = pair{int(g), cur}
	}
	return ps
}

func genClassdef(run *vlib.Run, r *vlib.Rand, tier string) {
	var encs [][]byte
	addEnc := func(ps []pair, extra ...string) {
		line := cdEncLine(ps)
		impl, fail := cdEnc(ps)
		lb := append([]string{"cd-enc"}, extra...)
		switch {
		case len(impl) > 12 && impl[:9] == "(ok x0001":
			lb = append(lb, "cd:format1")
		case len(impl) > 12 && impl[:9] == "(ok x0002":
			lb = append(lb, "cd:format2")
		case len(impl) > 6 && impl[:6] == "(panic":
			lb = append(lb, "cd:panic")
		}
		if len(ps) > 0 && ps[len(ps)-1].g-ps[0].g == 65535 {
			lb = append(lb, "cd:span65536")
		}
		idx := run.Add(line, impl, len(ps) >= 2, lb...)
		if fail != "" {
			run.Fail(idx, line, fail, "c08-classdef-encode")
		}
		if len(impl) < 600 && len(impl) > 5 && impl[:4] == "(ok " {
			var enc []byte
			t := cdTable(ps)
			guard(func() { enc = t.Append(nil) })
			encs = append(encs, enc)
		}
	}
	addRead := func(data []byte, pos int, lb ...string) {
		line := cdReadLine(data, pos)
		impl, fail := cdRead(data, pos)
		lb = append(lb, "cd-read", "cd-read:"+impl[:min(len(impl), 3)])
		idx := run.Add(line, impl, len(data) >= 6, lb...)
		if fail != "" {
			run.Fail(idx, line, fail, "c08-classdef-read")
		}
	}

	fixed := [][]pair{
		{}, {{0, 1}}, {{65535, 1}}, {{0, 1}, {65535, 1}}, {{0, 1}, {65535, 2}}, {{5, 0}}, {{5, 0}, {6, 1}},
		{{5, 1}, {6, 0}}, {{0, 0}, {65535, 0}}, {{3, 1}, {4, 1}, {5, 2}, {9, 1}}, {{3, 1}, {9, 1}},
		{{1, 1}, {2, 2}, {3, 1}, {4, 2}}, {{1, 1}, {3, 1}, {5, 1}, {7, 1}}, {{10, 65535}, {11, 65535}},
		{{1, 1}, {2, 1}, {3, 1}, {4, 1}, {5, 1}, {6, 1}, {20, 2}},
	}
	for _, ps := range fixed {
		addEnc(ps, "cd:fixed")
	}
	// full-range tables: the witness of the repaired defect (alternating
	// classes over all 65536 glyphs: must be refused), and representable ones
	full := func(f func(g int) int) []pair {
		ps := make([]pair, 0, 65536)
		for g := 0; g < 65536; g++ {
			ps = append(ps, pair{g, f(g)})
		}
		return ps
	}
	addEnc(full(func(g int) int { return g%2 + 1 }), "cd:fullrange-alternating")
	addEnc(full(func(g int) int { return 7 }), "cd:fullrange-oneclass")
	addEnc(full(func(g int) int { return g/3%2 + 1 }), "cd:fullrange-runs3")
	alt := full(func(g int) int { return g%2 + 1 })
	addEnc(alt[1:], "cd:span65535-alternating")
	addEnc(alt[:65535], "cd:span65535-alternating")
	addEnc(append(append([]pair{}, alt[:20000]...), alt[65535]), "cd:fullrange-sparse")
	if tier == "thorough" {
		addEnc(full(func(g int) int {
			if g%2 == 0 {
				return 0
			}
			return 1
		}), "cd:fullrange-zeros")
		addEnc(full(func(g int) int { return g%5 + 1 })[:40000], "cd:big")
	}

	n := vlib.Count(tier, 500, 10000)
	for k := 0; k < n; k++ {
		maxG := vlib.Pick(r, []int{4, 12, 40, 200})
		if r.Chance(1, 40) {
			maxG = 3000
		}
		addEnc(classTable(r, glyphSet(r, maxG)))
	}

	for _, e := range encs {
		addRead(e, 0, "cd-read:valid")
	}
	for k := 0; k < vlib.Count(tier, 500, 10000); k++ {
		e := vlib.Pick(r, encs)
		pre := r.Intn(4)
		data := append(r.Bytes(pre), e...)
		lb := "cd-read:embedded"
		if r.Chance(3, 4) {
			var m []byte
			m, lb = mutate(r, e)
			data = append(r.Bytes(pre), m...)
		}
		pos := pre
		if r.Chance(1, 20) {
			pos = r.Intn(len(data) + 3)
		}
		addRead(data, pos, lb)
	}
	for k := 0; k < vlib.Count(tier, 150, 3000); k++ {
		// hand-made format 2: overlapping, empty (end < start), touching
		// ranges, class 0 ranges, ranges ending at 65535
		nr := r.Intn(5)
		b := []byte{0, 2, 0, byte(nr)}
		g := r.Intn(65536)
		if r.Chance(1, 3) {
			g = 65536 - r.Intn(40)
		}
		for j := 0; j < nr; j++ {
			s := g + r.Intn(5) - 1
			e := s + r.Intn(6) - 2
			c := r.Intn(3)
			b = append(b, byte(s>>8), byte(s), byte(e>>8), byte(e), byte(c>>8), byte(c))
			if r.Chance(1, 4) {
				g = s - r.Intn(4) // step back: overlaps after an empty range
			} else {
				g = e + 1
			}
		}
		addRead(b, 0, "cd-read:format2-handmade")
	}
	for k := 0; k < vlib.Count(tier, 100, 2000); k++ {
		// hand-made format 1 at the end of the glyph range
		cnt := r.Intn(6)
		start := 65536 - cnt + r.Intn(3) - 1
		if r.Chance(1, 2) {
			start = r.Intn(65536)
		}
		b := []byte{0, 1, byte(start >> 8), byte(start), 0, byte(cnt)}
		for j := 0; j < cnt; j++ {
			c := r.Intn(3)
			b = append(b, byte(c>>8), byte(c))
		}
		if r.Chance(1, 4) && len(b) > 6 {
			b = b[:len(b)-1]
		}
		addRead(b, 0, "cd-read:format1-handmade")
	}
}

func sortedClassKeys(t classdef.Table) []int {
	out := make([]int, 0, len(t))
	for g := range t {
		out = append(out, int(g))
	}
	sort.Ints(out)
	return out
}
