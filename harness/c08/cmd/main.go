package main

import (
	"seehuhn.de/go/sfnt/verifharness/c08"
	"seehuhn.de/go/sfnt/verifharness/vlib"
)

func main() { vlib.Main(c08.Gen, c08.RunCase) }
