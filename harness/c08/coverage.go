package c08

import (
	"fmt"
	"sort"

	"seehuhn.de/go/sfnt/glyph"
	"seehuhn.de/go/sfnt/opentype/coverage"
	"seehuhn.de/go/sfnt/verifharness/vlib"
)

// ---- cov-enc: Table.Encode / EncodeLen -------------------------------

func covEncLine(ps []pair) string {
	l := make(vlib.List, len(ps))
	for k, p := range ps {
		l[k] = vlib.L(vlib.Int(p.g), vlib.Int(p.i))
	}
	return vlib.Line(vlib.Atom("cov-enc"), l)
}

func tableOf(ps []pair) coverage.Table {
	t := make(coverage.Table, len(ps))
	for _, p := range ps {
		t[glyph.ID(p.g)] = p.i
	}
	return t
}

// specCoverage is an independent reader written from the OpenType text: it
// returns the glyphs in coverage-index order and the number of bytes the
// table occupies.
func specCoverage(b []byte) (glyphs []int, size int, ok bool) {
	if len(b) < 4 {
		return nil, 0, false
	}
	format := int(b[0])<<8 | int(b[1])
	n := int(b[2])<<8 | int(b[3])
	switch format {
	case 1:
		if len(b) < 4+2*n {
			return nil, 0, false
		}
		for k := 0; k < n; k++ {
			glyphs = append(glyphs, int(b[4+2*k])<<8|int(b[5+2*k]))
		}
		return glyphs, 4 + 2*n, true
	case 2:
		if len(b) < 4+6*n {
			return nil, 0, false
		}
		for k := 0; k < n; k++ {
			q := b[4+6*k:]
			s, e, sci := int(q[0])<<8|int(q[1]), int(q[2])<<8|int(q[3]), int(q[4])<<8|int(q[5])
			if sci != len(glyphs) || e < s {
				return nil, 0, false
			}
			for g := s; g <= e; g++ {
				glyphs = append(glyphs, g)
			}
		}
		return glyphs, 4 + 6*n, true
	}
	return nil, 0, false
}

func countRuns(gl []int) int {
	r := 0
	for k := range gl {
		if k == 0 || gl[k] != gl[k-1]+1 {
			r++
		}
	}
	return r
}

// covEnc runs Encode and EncodeLen on the table with the given entries and
// evaluates the oracle when the entries form a valid table (valid = the
// documented invariant: indices 0..n-1 in increasing glyph order).
func covEnc(ps []pair, valid bool) (impl, fail string) {
	tbl := tableOf(ps)
	var enc []byte
	var encLen int
	p1, _ := guard(func() { enc = tbl.Encode() })
	p2, _ := guard(func() { encLen = tbl.EncodeLen() })
	if p1 || p2 {
		impl = "panic"
		if valid {
			fail = "Encode/EncodeLen panics on a valid coverage table"
		} else if p1 != p2 {
			fail = "Encode and EncodeLen disagree about refusing the table"
		}
		return
	}
	if !valid {
		return vlib.Str(vlib.L(vlib.Atom("ok"), vlib.Hex(enc), vlib.Int(encLen))), "a table that violates the coverage.Table invariant was written instead of refused"
	}
	impl = vlib.Str(vlib.L(vlib.Atom("ok"), vlib.Hex(enc), vlib.Int(encLen)))
	if !valid {
		return
	}
	// property oracle
	if encLen != len(enc) {
		return impl, fmt.Sprintf("EncodeLen = %d but Encode wrote %d bytes", encLen, len(enc))
	}
	gl := make([]int, len(ps))
	for k, p := range ps {
		gl[k] = p.g
	}
	want := 4 + 2*len(gl)
	if w2 := 4 + 6*countRuns(gl); w2 < want {
		want = w2
	}
	if len(enc) != want {
		return impl, fmt.Sprintf("size %d is not the smaller format (%d)", len(enc), want)
	}
	sg, sz, ok := specCoverage(enc)
	if !ok || sz != len(enc) || fmt.Sprint(sg) != fmt.Sprint(gl) {
		return impl, "independent reader: emitted bytes do not describe the table (indices 0..n-1 in glyph order)"
	}
	var back coverage.Table
	var err error
	if pp, _ := guard(func() { back, err = coverage.Read(newParser(enc), 0) }); pp {
		return impl, "coverage.Read panics on Encode's output"
	}
	if err != nil {
		return impl, "coverage.Read rejects Encode's output: " + err.Error()
	}
	if len(back) != len(tbl) {
		return impl, "round trip changes the number of glyphs"
	}
	for g, i := range tbl {
		if j, ok := back[g]; !ok || j != i {
			return impl, fmt.Sprintf("round trip changes glyph %d: index %d -> %d (present %v)", g, i, j, ok)
		}
	}
	// the same through a Set
	var set coverage.Set
	if pp, _ := guard(func() { set, err = coverage.ReadSet(newParser(enc), 0) }); pp || err != nil {
		return impl, "coverage.ReadSet fails on Encode's output"
	}
	if len(set) != len(tbl) {
		return impl, "ReadSet: round trip changes the number of glyphs"
	}
	for g := range tbl {
		if !set[g] {
			return impl, "ReadSet: glyph lost"
		}
	}
	return impl, ""
}

// ---- cov-read: coverage.Read on arbitrary bytes ----------------------

func covReadLine(data []byte, pos int) string {
	return vlib.Line(vlib.Atom("cov-read"), vlib.Hex(data), vlib.Int(pos))
}

func covRead(data []byte, pos int) (impl, fail string) {
	var tbl coverage.Table
	var err error
	if pp, msg := guard(func() { tbl, err = coverage.Read(newParser(data), int64(pos)) }); pp {
		return "panic", "coverage.Read panics: " + msg
	}
	if err != nil {
		return "err", ""
	}
	ps := make([]pair, 0, len(tbl))
	for g, i := range tbl {
		ps = append(ps, pair{int(g), i})
	}
	sortPairs(ps)
	impl = vlib.Str(vlib.L(vlib.Atom("ok"), runsSx(ps)))
	// oracle: a decoded table is a valid coverage table (indices 0..n-1 in
	// increasing glyph order) and is a fixed point of encode -> read
	for k, p := range ps {
		if p.i != k {
			return impl, fmt.Sprintf("decoded table: glyph %d (rank %d) has index %d", p.g, k, p.i)
		}
	}
	var enc []byte
	if pp, _ := guard(func() { enc = tbl.Encode() }); pp {
		return impl, "Encode panics on a decoded table"
	}
	var back coverage.Table
	if pp, _ := guard(func() { back, err = coverage.Read(newParser(enc), 0) }); pp || err != nil {
		return impl, "decoded table does not survive encode -> read"
	}
	if len(back) != len(tbl) {
		return impl, "decoded table changes under encode -> read"
	}
	for g, i := range tbl {
		if back[g] != i {
			return impl, "decoded table changes under encode -> read"
		}
	}
	return impl, ""
}

// ---- generators ------------------------------------------------------

func validPairs(gl []glyph.ID) []pair {
	ps := make([]pair, len(gl))
	for k, g := range gl {
		ps[k] = pair{int(g), k}
	}
	return ps
}

func covLabels(ps []pair, enc string) []string {
	lb := []string{"cov-enc"}
	n := len(ps)
	switch {
	case n == 0:
		lb = append(lb, "cov:n=0")
	case n < 10:
		lb = append(lb, "cov:n<10")
	case n < 1000:
		lb = append(lb, "cov:n<1000")
	default:
		lb = append(lb, "cov:n>=1000")
	}
	if len(enc) > 8 && enc[:4] == "(ok " {
		lb = append(lb, "cov:format"+enc[8:9])
	}
	if n > 0 && ps[0].g == 0 {
		lb = append(lb, "cov:has0")
	}
	if n > 0 && ps[n-1].g == 65535 {
		lb = append(lb, "cov:has65535")
	}
	return lb
}

func genCoverage(run *vlib.Run, r *vlib.Rand, tier string) {
	addEnc := func(ps []pair, valid bool, extra ...string) []byte {
		line := covEncLine(ps)
		impl, fail := covEnc(ps, valid)
		lb := append(covLabels(ps, impl), extra...)
		idx := run.Add(line, impl, valid && len(ps) >= 2, lb...)
		if fail != "" {
			run.Fail(idx, line, fail, "c08-coverage-encode")
		}
		if len(impl) > 5 && impl[:4] == "(ok " {
			var enc []byte
			tbl := tableOf(ps)
			guard(func() { enc = tbl.Encode() })
			return enc
		}
		return nil
	}
	addRead := func(data []byte, pos int, lb ...string) {
		line := covReadLine(data, pos)
		impl, fail := covRead(data, pos)
		lb = append(lb, "cov-read", "cov-read:"+impl[:min(len(impl), 3)])
		idx := run.Add(line, impl, len(data) >= 6, lb...)
		if fail != "" {
			run.Fail(idx, line, fail, "c08-coverage-read")
		}
	}

	// boundary tables
	fixed := [][]glyph.ID{
		{}, {0}, {65535}, {0, 65535}, {0, 1}, {65534, 65535}, {0, 1, 2}, {1, 3, 5},
		{1, 2, 4, 5}, {1, 2, 3, 5, 6, 7}, {10, 11, 12, 20}, {10, 20, 21, 22},
		{7, 8, 9, 10, 11, 12, 13}, {255, 256, 257}, {32767, 32768},
	}
	var encs [][]byte
	for _, gl := range fixed {
		if e := addEnc(validPairs(gl), true, "cov:fixed"); e != nil {
			encs = append(encs, e)
		}
	}
	// the full range and large tables (few: the lines are long)
	all := make([]glyph.ID, 65536)
	for k := range all {
		all[k] = glyph.ID(k)
	}
	big := [][]glyph.ID{all, all[1:], all[:65535], all[:256], all[:257]}
	odd := make([]glyph.ID, 0, 32768)
	for k := 1; k < 65536; k += 2 {
		odd = append(odd, glyph.ID(k))
	}
	big = append(big, odd[:300])
	if tier == "thorough" {
		big = append(big, odd)
		thirds := make([]glyph.ID, 0, 50000)
		for k := 0; k < 65536; k++ {
			if k%4 != 3 {
				thirds = append(thirds, glyph.ID(k))
			}
		}
		big = append(big, thirds)
	}
	for _, gl := range big {
		addEnc(validPairs(gl), true, "cov:big")
	}

	// random valid tables
	n := vlib.Count(tier, 600, 12000)
	for k := 0; k < n; k++ {
		maxG := vlib.Pick(r, []int{4, 12, 40, 200})
		if r.Chance(1, 40) {
			maxG = 3000
		}
		gl := glyphSet(r, maxG)
		if e := addEnc(validPairs(gl), true); e != nil && len(e) < 400 {
			encs = append(encs, e)
		}
	}

	// invalid tables (the encoder must refuse them loudly)
	for k := 0; k < vlib.Count(tier, 150, 2000); k++ {
		gl := glyphSet(r, 10)
		if len(gl) < 2 {
			continue
		}
		ps := validPairs(gl)
		switch r.Intn(5) {
		case 4: // one index used twice
			a, b := r.Intn(len(ps)), r.Intn(len(ps))
			if a == b {
				continue
			}
			ps[a].i = ps[b].i
			addEnc(ps, false, "cov:invalid-duplicate-index")
		case 0: // swap two indices: a permutation that is not monotone
			a, b := r.Intn(len(ps)), r.Intn(len(ps))
			if a == b {
				continue
			}
			ps[a].i, ps[b].i = ps[b].i, ps[a].i
			addEnc(ps, false, "cov:invalid-permuted")
		case 1:
			ps[r.Intn(len(ps))].i = len(ps) + r.Intn(3)
			addEnc(ps, false, "cov:invalid-index-high")
		case 2:
			ps[r.Intn(len(ps))].i = -1 - r.Intn(3)
			addEnc(ps, false, "cov:invalid-index-negative")
		case 3: // shift all indices by one
			for j := range ps {
				ps[j].i++
			}
			addEnc(ps, false, "cov:invalid-shifted")
		}
	}

	// reader: valid encodings at an offset, then damaged ones, then junk
	for _, e := range encs {
		addRead(e, 0, "cov-read:valid")
	}
	for k := 0; k < vlib.Count(tier, 600, 12000); k++ {
		e := vlib.Pick(r, encs)
		pre := r.Intn(4)
		data := append(r.Bytes(pre), e...)
		lb := "cov-read:embedded"
		if r.Chance(3, 4) {
			var m []byte
			m, lb = mutate(r, e)
			data = append(r.Bytes(pre), m...)
		}
		pos := pre
		if r.Chance(1, 20) {
			pos = r.Intn(len(data) + 3)
		}
		addRead(data, pos, lb)
	}
	for k := 0; k < vlib.Count(tier, 100, 2000); k++ {
		// hand-made format 2 tables: overlapping / touching / reversed ranges,
		// wrong start indices, ranges reaching 65535
		nr := r.Intn(4)
		b := []byte{0, 2, 0, byte(nr)}
		idx := 0
		g := r.Intn(65536)
		if r.Chance(1, 3) {
			g = 65536 - r.Intn(40)
		}
		for j := 0; j < nr; j++ {
			s := g + r.Intn(4) - 1
			e := s + r.Intn(5) - 1
			sci := idx
			if r.Chance(1, 6) {
				sci += r.Intn(3) - 1
			}
			b = append(b, byte(s>>8), byte(s), byte(e>>8), byte(e), byte(sci>>8), byte(sci))
			if e >= s {
				idx += e - s + 1
			}
			g = e + 1
		}
		addRead(b, 0, "cov-read:format2-handmade")
	}
	for k := 0; k < vlib.Count(tier, 100, 2000); k++ {
		// hand-made format 1 tables: duplicates, descending, boundary ids
		ng := r.Intn(6)
		b := []byte{0, 1, 0, byte(ng)}
		g := r.Intn(65536)
		for j := 0; j < ng; j++ {
			g += r.Intn(4) - 1
			b = append(b, byte(g>>8), byte(g))
		}
		if r.Chance(1, 5) {
			b[1] = byte(r.Intn(5))
		}
		addRead(b, 0, "cov-read:format1-handmade")
	}
}

func sortedGlyphs(t coverage.Table) []int {
	out := make([]int, 0, len(t))
	for g := range t {
		out = append(out, int(g))
	}
	sort.Ints(out)
	return out
}
