// Package c17b drives the real parser.Parser and (through the case lines) the
// Coq functions GENERATED from its method bodies on the same operation
// histories over an underlying reader whose behaviour is scripted call by
// call: full reads, short reads, (0, nil) reads, data together with io.EOF,
// data together with another error, failing Seeks.  Compared per call: the
// result, Pos(), the fields from/pos/used/lastRead/len(buf); at the end the
// whole buffer and the sequence of Read sizes and Seek offsets the parser
// issued.  Oracles (on the real code only): the plain random-access view for
// every call during which the reader did not fail, and the representation
// invariant after every call whatever the reader did.
package c17b

import (
	"errors"
	"fmt"
	"io"
	"strings"

	"seehuhn.de/go/sfnt/parser"
	"seehuhn.de/go/sfnt/verifharness/vlib"
)

const bufSize = 1024 // only used to choose interesting sizes and in the oracles

// ---- the scripted reader (the same rules as r_read / r_seek of Gen/C17B.v) ----

type beh struct {
	kind  int // 0 full, 1 short, 2 fail
	lim   int
	eager bool
	code  int
}

func (b beh) sx() vlib.Sx {
	switch b.kind {
	case 1:
		return vlib.L(vlib.Atom("short"), vlib.Int(b.lim), vlib.Bool(b.eager))
	case 2:
		return vlib.L(vlib.Atom("fail"), vlib.Int(b.lim), vlib.Int(b.code))
	}
	return vlib.Atom("full")
}

type codeErr struct{ code int }

func (e *codeErr) Error() string { return fmt.Sprintf("scripted error %d", e.code) }

type call struct {
	read bool
	arg  int64
}

type sreader struct {
	data   []byte
	pos    int64
	script []beh
	seeks  []bool
	log    []call
	faults int // scripted failures delivered so far
}

func (r *sreader) Size() int64 { return int64(len(r.data)) }

func (r *sreader) Seek(off int64, whence int) (int64, error) {
	f := false
	if len(r.seeks) > 0 {
		f = r.seeks[0]
		r.seeks = r.seeks[1:]
	}
	r.log = append(r.log, call{false, off})
	if off < 0 || f || whence != io.SeekStart {
		if f {
			r.faults++
		}
		return 0, &codeErr{1}
	}
	r.pos = off
	return off, nil
}

func (r *sreader) Read(p []byte) (int, error) {
	space := int64(len(p))
	rem := int64(len(r.data)) - r.pos
	if rem < 0 {
		rem = 0
	}
	b := beh{}
	if len(r.script) > 0 {
		b = r.script[0]
		r.script = r.script[1:]
	}
	lim := space
	if b.kind != 0 {
		lim = int64(b.lim)
		if lim < 0 {
			lim = 0
		}
	}
	cnt := space
	if rem < cnt {
		cnt = rem
	}
	if lim < cnt {
		cnt = lim
	}
	if cnt > 0 {
		copy(p, r.data[r.pos:r.pos+cnt])
	}
	r.pos += cnt
	r.log = append(r.log, call{true, space})
	switch b.kind {
	case 2:
		r.faults++
		return int(cnt), &codeErr{b.code}
	case 0:
		if rem == 0 {
			return int(cnt), io.EOF
		}
		return int(cnt), nil
	}
	if lim == 0 {
		return 0, nil
	}
	if rem == 0 {
		return 0, io.EOF
	}
	if b.eager && cnt == rem {
		return int(cnt), io.EOF
	}
	return int(cnt), nil
}

// ---- operations ----

type op struct {
	kind string
	arg  int64
}

func (o op) sx() vlib.Sx {
	switch o.kind {
	case "seek", "discard", "bytes", "read":
		return vlib.L(vlib.Atom(o.kind), vlib.I64(o.arg))
	}
	return vlib.Atom(o.kind)
}

type kase struct {
	data   []byte
	rpos   int64
	script []beh
	seeks  []bool
	ops    []op
}

func (k *kase) line() string {
	sl := vlib.List{}
	for _, b := range k.script {
		sl = append(sl, b.sx())
	}
	kl := vlib.List{}
	for _, f := range k.seeks {
		kl = append(kl, vlib.Bool(f))
	}
	ol := vlib.List{}
	for _, o := range k.ops {
		ol = append(ol, o.sx())
	}
	return vlib.Line(vlib.Atom("gen"), vlib.Hex(k.data), vlib.I64(k.rpos), sl, kl, ol)
}

func errSx(err error) vlib.Sx {
	switch {
	case err == nil:
		return vlib.Atom("nil")
	case err == io.EOF:
		return vlib.Atom("eof")
	case err == io.ErrUnexpectedEOF:
		return vlib.Atom("ueof")
	}
	var ce *codeErr
	if errors.As(err, &ce) {
		return vlib.Atom(fmt.Sprintf("o%d", ce.code))
	}
	return vlib.Atom("othererr")
}

func valOrErr(v int64, err error) vlib.Sx {
	if err != nil {
		return vlib.L(vlib.Atom("err"), errSx(err))
	}
	return vlib.L(vlib.Atom("val"), vlib.I64(v))
}

func doneOrErr(err error) vlib.Sx {
	if err != nil {
		return vlib.L(vlib.Atom("err"), errSx(err))
	}
	return vlib.Atom("done")
}

// bufSx prints a buffer without its trailing zero bytes (the model does the same)
func bufSx(b []byte) vlib.Sx {
	n := len(b)
	for n > 0 && b[n-1] == 0 {
		n--
	}
	return vlib.L(vlib.Int(len(b)), vlib.Hex(b[:n]))
}

type stepObs struct {
	res     vlib.Sx
	posPre  int64
	posPost int64
	faulted bool // a scripted failure was delivered during the call
	invErr  string
}

// checkInv states the representation invariant on the real parser's fields.
func checkInv(p *parser.Parser, r *sreader) string {
	from, pos, used, _, buf := parser.VerifC17bState(p)
	switch {
	case len(buf) != 0 && len(buf) != bufSize:
		return fmt.Sprintf("len(buf)=%d", len(buf))
	case pos < 0 || pos > used:
		return fmt.Sprintf("pos=%d used=%d", pos, used)
	case used > len(buf):
		return fmt.Sprintf("used=%d len(buf)=%d", used, len(buf))
	case from < 0:
		return fmt.Sprintf("from=%d", from)
	case r.pos != from+int64(used):
		return fmt.Sprintf("reader at %d, from+used=%d", r.pos, from+int64(used))
	}
	if used > 0 {
		if from+int64(used) > int64(len(r.data)) {
			return fmt.Sprintf("window [%d,%d) beyond the %d input bytes", from, from+int64(used), len(r.data))
		}
		if string(buf[:used]) != string(r.data[from:from+int64(used)]) {
			return "buf[0:used] differs from input[from:from+used]"
		}
	}
	return ""
}

// runImpl executes the history on the real parser.
func runImpl(k *kase) (string, []stepObs, bool) {
	r := &sreader{data: k.data, pos: k.rpos, script: append([]beh(nil), k.script...), seeks: append([]bool(nil), k.seeks...)}
	var p *parser.Parser
	newPanic := false
	func() {
		defer func() {
			if e := recover(); e != nil {
				newPanic = true
			}
		}()
		p = parser.New(r)
	}()
	if newPanic {
		return "new-failed", nil, true
	}
	var steps vlib.List
	var obs []stepObs
	for _, o := range k.ops {
		var res vlib.Sx
		so := stepObs{posPre: p.Pos()}
		f0 := r.faults
		func() {
			defer func() {
				if e := recover(); e != nil {
					res = vlib.Atom("panic")
				}
			}()
			switch o.kind {
			case "seek":
				res = doneOrErr(p.SeekPos(o.arg))
			case "discard":
				res = doneOrErr(p.Discard(int(o.arg)))
			case "u8":
				v, err := p.ReadUint8()
				res = valOrErr(int64(v), err)
			case "u16":
				v, err := p.ReadUint16()
				res = valOrErr(int64(v), err)
			case "i16":
				v, err := p.ReadInt16()
				res = valOrErr(int64(v), err)
			case "u32":
				v, err := p.ReadUint32()
				res = valOrErr(int64(v), err)
			case "slice":
				v, err := p.ReadUint16Slice()
				if err != nil {
					res = vlib.L(vlib.Atom("err"), errSx(err))
				} else {
					res = append(vlib.List{vlib.Atom("words")}, vlib.Ints(v).(vlib.List)...)
				}
			case "bytes":
				v, err := p.ReadBytes(int(o.arg))
				if err != nil {
					res = vlib.L(vlib.Atom("err"), errSx(err))
				} else {
					res = vlib.L(vlib.Atom("data"), vlib.Hex(v))
				}
			case "read":
				// the caller's buffer is a sub-slice of a larger array with spare
				// capacity and sentinels around it: Read must write buf[:n] only
				arr := make([]byte, int(o.arg)+16)
				for i := range arr {
					arr[i] = 0xA5
				}
				buf := arr[8 : 8+int(o.arg) : 8+int(o.arg)+4]
				for i := range buf {
					buf[i] = 0
				}
				n, err := p.Read(buf)
				switch {
				case n < 0 || n > len(buf):
					res = vlib.Atom(fmt.Sprintf("badcount%d", n))
				default:
					res = vlib.L(vlib.Atom("read"), vlib.Int(n), vlib.Hex(buf[:n]), errSx(err))
					for i, b := range arr {
						if (i < 8 || i >= 8+int(o.arg)) && b != 0xA5 {
							res = vlib.Atom("wrote-outside-buf")
						}
					}
					for _, b := range buf[n:] {
						if b != 0 && err == nil {
							res = vlib.Atom("wrote-beyond-count")
						}
					}
				}
			case "pos":
				res = vlib.L(vlib.Atom("val"), vlib.I64(p.Pos()))
			case "size":
				res = vlib.L(vlib.Atom("val"), vlib.I64(p.Size()))
			}
		}()
		from, pos, used, last, buf := parser.VerifC17bState(p)
		so.res = res
		so.posPost = p.Pos()
		so.faulted = r.faults != f0
		so.invErr = checkInv(p, r)
		obs = append(obs, so)
		steps = append(steps, vlib.L(res, vlib.I64(p.Pos()),
			vlib.L(vlib.I64(from), vlib.Int(pos), vlib.Int(used), vlib.Int(last), vlib.Int(len(buf)))))
	}
	_, _, _, _, buf := parser.VerifC17bState(p)
	var calls vlib.List
	for _, c := range r.log {
		if c.read {
			calls = append(calls, vlib.L(vlib.Atom("r"), vlib.I64(c.arg)))
		} else {
			calls = append(calls, vlib.L(vlib.Atom("s"), vlib.I64(c.arg)))
		}
	}
	if calls == nil {
		calls = vlib.List{}
	}
	if steps == nil {
		steps = vlib.List{}
	}
	return vlib.Str(vlib.L(steps, bufSx(buf), calls)), obs, false
}

// ---- the plain view, one step from a given cursor (the property, stated directly) ----

func viewStep(data []byte, cur int64, o op) (vlib.Sx, int64) {
	n := int64(len(data))
	fits := func(k int64) bool { return k == 0 || cur+k <= n }
	ueof := vlib.L(vlib.Atom("err"), vlib.Atom("ueof"))
	be := func(k int64) int64 {
		var v int64
		for i := int64(0); i < k; i++ {
			v = v<<8 | int64(data[cur+i])
		}
		return v
	}
	switch o.kind {
	case "seek":
		return vlib.Atom("done"), o.arg
	case "discard":
		return vlib.Atom("done"), cur + o.arg
	case "u8":
		if fits(1) {
			return vlib.L(vlib.Atom("val"), vlib.I64(be(1))), cur + 1
		}
		return ueof, cur
	case "u16", "i16":
		if fits(2) {
			v := be(2)
			if o.kind == "i16" && v >= 32768 {
				v -= 65536
			}
			return vlib.L(vlib.Atom("val"), vlib.I64(v)), cur + 2
		}
		return ueof, cur
	case "u32":
		if fits(4) {
			return vlib.L(vlib.Atom("val"), vlib.I64(be(4))), cur + 4
		}
		return ueof, cur
	case "slice":
		if !fits(2) {
			return ueof, cur
		}
		cnt := be(2)
		cur += 2
		l := vlib.List{vlib.Atom("words")}
		for i := int64(0); i < cnt; i++ {
			if !fits(2) {
				return ueof, cur
			}
			l = append(l, vlib.I64(be(2)))
			cur += 2
		}
		return l, cur
	case "bytes":
		if o.arg > bufSize {
			return vlib.Atom("panic"), cur
		}
		if fits(o.arg) {
			if o.arg == 0 {
				return vlib.L(vlib.Atom("data"), vlib.Hex(nil)), cur
			}
			return vlib.L(vlib.Atom("data"), vlib.Hex(data[cur:cur+o.arg])), cur + o.arg
		}
		return ueof, cur
	case "read":
		k := o.arg
		start := cur
		e := "nil"
		for k > 0 {
			c := k
			if c > bufSize {
				c = bufSize
			}
			if cur+c > n {
				e = "ueof"
				break
			}
			cur += c
			k -= c
		}
		var b []byte
		if cur > start {
			b = data[start:cur]
		}
		return vlib.L(vlib.Atom("read"), vlib.I64(cur-start), vlib.Hex(b), vlib.Atom(e)), cur
	case "pos":
		return vlib.L(vlib.Atom("val"), vlib.I64(cur)), cur
	case "size":
		return vlib.L(vlib.Atom("val"), vlib.I64(n)), cur
	}
	return vlib.Atom("?"), cur
}

// oracle: (a) the representation invariant after every call, whatever the
// reader did; (b) the plain view for every call during which no scripted
// failure was delivered and whose arguments are inside the property's domain
// (non-negative), from the position the parser reported before the call.
func oracle(k *kase, obs []stepObs) (string, string) {
	if k.rpos != 0 {
		return "", "" // New's precondition (reader at offset 0) does not hold
	}
	for i, so := range obs {
		if so.invErr != "" {
			return fmt.Sprintf("representation invariant broken after step %d (%s): %s", i, vlib.Str(k.ops[i].sx()), so.invErr), "c17b-invariant-broken"
		}
		o := k.ops[i]
		if so.faulted || o.arg < 0 || so.posPre < 0 {
			continue
		}
		want, cur := viewStep(k.data, so.posPre, o)
		if vlib.Str(want) != vlib.Str(so.res) || cur != so.posPost {
			return fmt.Sprintf("step %d (%s) at %d: implementation %s pos %d, plain view %s pos %d",
				i, vlib.Str(o.sx()), so.posPre, vlib.Str(so.res), so.posPost, vlib.Str(want), cur), "c17b-view-mismatch"
		}
	}
	return "", ""
}

// ---- labels ----

func labels(k *kase) (bool, []string) {
	set := map[string]bool{}
	cross := false
	for _, o := range k.ops {
		set["op:"+o.kind] = true
		if o.arg < 0 {
			set["negative-arg"] = true
		}
		if o.kind == "bytes" && o.arg > bufSize {
			set["panic-size"] = true
		}
	}
	for _, b := range k.script {
		switch {
		case b.kind == 0:
			set["rd:full"] = true
		case b.kind == 2 && b.lim > 0:
			set["rd:data+error"] = true
		case b.kind == 2:
			set["rd:error"] = true
		case b.lim <= 0:
			set["rd:(0,nil)"] = true
		case b.lim == 1:
			set["rd:1-byte"] = true
		default:
			set["rd:short"] = true
		}
		if b.kind == 1 && b.eager {
			set["rd:eof-with-data"] = true
		}
	}
	for _, f := range k.seeks {
		if f {
			set["seek-fails"] = true
		}
	}
	if k.rpos != 0 {
		set["prepositioned"] = true
	}
	set[fmt.Sprintf("len:%d", lenClass(len(k.data)))] = true
	// non-trivial: some read's byte range crosses a multiple of the window or the end
	cur := int64(0)
	for _, o := range k.ops {
		var sz int64
		switch o.kind {
		case "seek":
			cur = o.arg
			continue
		case "discard":
			cur += o.arg
			continue
		case "u8":
			sz = 1
		case "u16", "i16", "slice":
			sz = 2
		case "u32":
			sz = 4
		case "bytes", "read":
			sz = o.arg
		}
		if sz > 0 && cur >= 0 {
			if cur/bufSize != (cur+sz-1)/bufSize || cur+sz > int64(len(k.data)) {
				cross = true
			}
			if cur+sz <= int64(len(k.data)) {
				cur += sz
			}
		}
	}
	var out []string
	for l := range set {
		out = append(out, l)
	}
	return cross, out
}

func lenClass(n int) int {
	for _, c := range []int{0, 1, 1023, 1024, 1025, 2047, 2048, 2049, 3072, 5000} {
		if n == c {
			return c
		}
	}
	return -1
}

func one(run *vlib.Run, k *kase, extra ...string) {
	cl := k.line()
	impl, obs, _ := runImpl(k)
	nt, ls := labels(k)
	ls = append(ls, extra...)
	idx := run.Add(cl, impl, nt, ls...)
	if detail, sig := oracle(k, obs); sig != "" {
		run.Fail(idx, cl, detail, sig)
	}
}

// RunCase re-executes one case line.
func RunCase(line string) (impl string, fail string, sig string, err error) {
	k, err := parseCase(line)
	if err != nil {
		return "", "", "", err
	}
	impl, obs, _ := runImpl(k)
	fail, sig = oracle(k, obs)
	return impl, fail, sig, nil
}

func parseCase(line string) (*kase, error) {
	items, err := vlib.Parse(line)
	if err != nil {
		return nil, err
	}
	if len(items) != 6 {
		return nil, errors.New("C17B case: want 6 items")
	}
	k := &kase{}
	if k.data, err = vlib.AsBytes(items[1]); err != nil {
		return nil, err
	}
	if k.rpos, err = vlib.AsI64(items[2]); err != nil {
		return nil, err
	}
	sl, err := vlib.AsList(items[3])
	if err != nil {
		return nil, err
	}
	for _, x := range sl {
		if a, ok := x.(vlib.Atom); ok {
			if a != "full" {
				return nil, errors.New("bad behaviour")
			}
			k.script = append(k.script, beh{})
			continue
		}
		l, err := vlib.AsList(x)
		if err != nil || len(l) != 3 {
			return nil, errors.New("bad behaviour")
		}
		name, _ := vlib.AsAtom(l[0])
		lim, _ := vlib.AsInt(l[1])
		switch name {
		case "short":
			e, _ := vlib.AsBool(l[2])
			k.script = append(k.script, beh{kind: 1, lim: lim, eager: e})
		case "fail":
			c, _ := vlib.AsInt(l[2])
			k.script = append(k.script, beh{kind: 2, lim: lim, code: c})
		default:
			return nil, errors.New("bad behaviour")
		}
	}
	kl, err := vlib.AsList(items[4])
	if err != nil {
		return nil, err
	}
	for _, x := range kl {
		f, _ := vlib.AsBool(x)
		k.seeks = append(k.seeks, f)
	}
	ol, err := vlib.AsList(items[5])
	if err != nil {
		return nil, err
	}
	for _, x := range ol {
		if a, ok := x.(vlib.Atom); ok {
			k.ops = append(k.ops, op{string(a), 0})
			continue
		}
		l, err := vlib.AsList(x)
		if err != nil || len(l) != 2 {
			return nil, errors.New("bad op")
		}
		name, _ := vlib.AsAtom(l[0])
		a, _ := vlib.AsI64(l[1])
		k.ops = append(k.ops, op{name, a})
	}
	return k, nil
}

// ---- generators ----

var boundaryLens = []int{0, 1, 1023, 1024, 1025, 2047, 2048, 2049, 3072, 5000}

func mkData(r *vlib.Rand, n int) []byte {
	b := make([]byte, n)
	mode := r.Intn(3)
	for i := range b {
		switch mode {
		case 0:
			b[i] = byte(i*7 + i/256 + 1)
		case 1:
			b[i] = byte(r.Uint64())
		default:
			// small big-endian words so that ReadUint16Slice sees plausible counts
			if i%2 == 0 {
				b[i] = 0
			} else {
				b[i] = byte(r.Intn(40))
			}
		}
	}
	return b
}

func boundaryOffsets(n int) []int64 {
	c := []int{0, 1, 1022, 1023, 1024, 1025, 2046, 2047, 2048, 2049, n - 2, n - 1, n, n + 1}
	var out []int64
	seen := map[int]bool{}
	for _, x := range c {
		if x >= 0 && !seen[x] {
			seen[x] = true
			out = append(out, int64(x))
		}
	}
	return out
}

// script styles of legal readers
func legalScript(r *vlib.Rand, style int) []beh {
	switch style {
	case 0:
		return nil // full reads
	case 1: // 1-byte reads
		s := make([]beh, 40)
		for i := range s {
			s[i] = beh{kind: 1, lim: 1}
		}
		return s
	case 2: // data together with io.EOF, every time
		s := make([]beh, 12)
		for i := range s {
			s[i] = beh{kind: 1, lim: 1024, eager: true}
		}
		return s
	case 3: // (0, nil) reads between short ones
		return []beh{{kind: 1, lim: 0}, {kind: 1, lim: 3}, {kind: 1, lim: 0}, {kind: 1, lim: 0, eager: true}, {kind: 1, lim: 600, eager: true}, {}, {kind: 1, lim: -5}}
	}
	n := r.Intn(14)
	s := make([]beh, n)
	for i := range s {
		switch r.Intn(6) {
		case 0:
			s[i] = beh{}
		case 1:
			s[i] = beh{kind: 1, lim: 0, eager: r.Bool()}
		case 2:
			s[i] = beh{kind: 1, lim: 1, eager: r.Bool()}
		case 3:
			s[i] = beh{kind: 1, lim: r.Range(2, 9), eager: r.Bool()}
		case 4:
			s[i] = beh{kind: 1, lim: r.Intn(1100), eager: r.Bool()}
		default:
			s[i] = beh{kind: 1, lim: 1023 + r.Intn(3), eager: r.Bool()}
		}
	}
	return s
}

func randOp(r *vlib.Rand, n int, faulty bool) op {
	offs := boundaryOffsets(n)
	switch r.Intn(15) {
	case 0, 1:
		if r.Bool() {
			return op{"seek", vlib.Pick(r, offs)}
		}
		return op{"seek", int64(r.Intn(n + 20))}
	case 2:
		return op{"discard", int64(vlib.Pick(r, []int{0, 1, 2, 3, 1022, 1023, 1024, 1025, r.Intn(3000)}))}
	case 3:
		return op{"u8", 0}
	case 4:
		return op{"u16", 0}
	case 5:
		return op{"i16", 0}
	case 6:
		return op{"u32", 0}
	case 7:
		return op{"slice", 0}
	case 8, 9:
		return op{"bytes", int64(vlib.Pick(r, []int{0, 1, 2, 4, 1023, 1024, r.Intn(1025)}))}
	case 10, 11:
		return op{"read", int64(vlib.Pick(r, []int{0, 1, 2, 1023, 1024, 1025, 2048, 2049, r.Intn(6000)}))}
	case 12:
		return op{"pos", 0}
	case 13:
		if faulty {
			switch r.Intn(5) {
			case 0:
				return op{"seek", -int64(r.Range(1, 2000))}
			case 1:
				return op{"discard", -int64(r.Range(1, 20))}
			case 2:
				return op{"bytes", -int64(r.Range(1, 20))}
			case 3:
				return op{"bytes", int64(1025 + r.Intn(3000))}
			default:
				return op{"seek", int64(1) << uint(r.Range(20, 61))}
			}
		}
	}
	return op{"size", 0}
}

// Gen writes the run for the given tier.
func Gen(run *vlib.Run, seed uint64, tier string) {
	run.Rule = "history over parser.Parser and over the Coq functions generated from its method bodies, underlying reader scripted per call; non-trivial = contains a read whose byte range crosses a multiple of the 1024-byte window or the end of input; distinct by (data, reader position, scripts, ops)"
	r := vlib.NewRand(seed)

	// (i) exhaustive short histories over boundary offsets and sizes, legal readers of every style
	small := []op{{"u8", 0}, {"u16", 0}, {"u32", 0}, {"slice", 0}, {"bytes", 1024}, {"bytes", 1023}, {"read", 1025}, {"read", 2049}, {"discard", 1023}}
	nEx := 0
	for li, n := range boundaryLens {
		data := mkData(r.Fork(fmt.Sprint("d", n)), n)
		var alphabet []op
		for _, off := range boundaryOffsets(n) {
			alphabet = append(alphabet, op{"seek", off})
		}
		alphabet = append(alphabet, small...)
		for i, a := range alphabet {
			for j, b := range alphabet {
				if tier == "quick" && (i*7+j*3+li)%3 != int(seed%3) {
					continue // a third of the pairs per seed in the quick tier
				}
				if b.kind == "seek" || b.kind == "discard" {
					continue
				}
				k := &kase{data: data, script: legalScript(r, (i+j+li)%5), ops: []op{a, b, {"pos", 0}}}
				one(run, k, "stream:exhaustive")
				nEx++
			}
		}
	}
	run.Extra["exhaustive_pairs"] = nEx

	// (ii) random long histories, legal readers
	for i := 0; i < vlib.Count(tier, 250, 6000); i++ {
		var n int
		if r.Bool() {
			n = vlib.Pick(r, boundaryLens)
		} else {
			n = r.Intn(5001)
		}
		k := &kase{data: mkData(r, n), script: legalScript(r, r.Intn(7))}
		l := r.Range(1, 120)
		for j := 0; j < l; j++ {
			k.ops = append(k.ops, randOp(r, n, false))
		}
		one(run, k, "stream:legal")
	}

	// (iii) misbehaving readers and callers: errors with and without data at
	// scripted calls, failing Seeks, negative and oversized arguments; the
	// history goes on after every failure and ends with reads in range
	for i := 0; i < vlib.Count(tier, 350, 8000); i++ {
		var n int
		if r.Bool() {
			n = vlib.Pick(r, boundaryLens)
		} else {
			n = r.Intn(5001)
		}
		k := &kase{data: mkData(r, n)}
		ns := r.Range(1, 10)
		for j := 0; j < ns; j++ {
			switch r.Intn(5) {
			case 0:
				k.script = append(k.script, beh{kind: 2, lim: 0, code: r.Range(2, 9)})
			case 1:
				k.script = append(k.script, beh{kind: 2, lim: r.Range(1, 8), code: r.Range(2, 9)})
			case 2:
				k.script = append(k.script, beh{kind: 2, lim: r.Range(1, 2000), code: r.Range(2, 9)})
			default:
				k.script = append(k.script, legalScript(r, 6)...)
			}
		}
		for j := r.Intn(5); j > 0; j-- {
			k.seeks = append(k.seeks, r.Chance(1, 2))
		}
		l := r.Range(2, 60)
		for j := 0; j < l; j++ {
			k.ops = append(k.ops, randOp(r, n, true))
		}
		// reads in range at the end: they must succeed whatever happened before
		if n >= 4 {
			off := int64(r.Intn(n - 3))
			k.ops = append(k.ops, op{"seek", off}, op{"u32", 0}, op{"seek", off}, op{"u16", 0}, op{"pos", 0})
		}
		one(run, k, "stream:faulty")
	}

	// (iv) a failing read retried at once, at every window alignment
	for _, n := range []int{5, 1024, 1030, 2049} {
		data := mkData(r.Fork(fmt.Sprint("f", n)), n)
		for _, lim := range []int{0, 1, 3, 1023, 1024} {
			for _, off := range []int64{0, 1, 1021, 1023, 1024} {
				if off+4 > int64(n) {
					continue
				}
				k := &kase{data: data, script: []beh{{kind: 2, lim: lim, code: 5}},
					ops: []op{{"seek", off}, {"u32", 0}, {"u32", 0}, {"seek", off}, {"u16", 0}, {"read", 1500}, {"pos", 0}}}
				one(run, k, "stream:retry")
				k2 := &kase{data: data, script: []beh{{}, {kind: 2, lim: lim, code: 6}},
					ops: []op{{"u8", 0}, {"seek", off + 1024}, {"u16", 0}, {"u16", 0}, {"seek", off}, {"bytes", 4}, {"pos", 0}}}
				one(run, k2, "stream:retry")
			}
		}
	}

	// (v) New on a reader that does not stand at offset 0 (outside the
	// property: model and implementation must still agree)
	for i := 0; i < 16; i++ {
		n := vlib.Pick(r, []int{10, 1025, 3000})
		k := &kase{data: mkData(r, n), rpos: int64(r.Range(1, n)), script: legalScript(r, r.Intn(5))}
		for j := 0; j < 12; j++ {
			k.ops = append(k.ops, randOp(r, n, false))
		}
		one(run, k, "stream:prepositioned")
	}
}

// Selftest is used by the unit test of the package.
func Selftest() error {
	k, err := parseCase("gen x000102030405 0 ((short 1 0) full) () (u16 (seek 3) u16 (read 2) pos)")
	if err != nil {
		return err
	}
	impl, obs, _ := runImpl(k)
	if d, sig := oracle(k, obs); sig != "" {
		return errors.New(d)
	}
	if !strings.Contains(impl, "(val 1) 2") {
		return errors.New("unexpected observation " + impl)
	}
	return nil
}
