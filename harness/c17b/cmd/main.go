package main

import (
	"seehuhn.de/go/sfnt/verifharness/c17b"
	"seehuhn.de/go/sfnt/verifharness/vlib"
)

func main() { vlib.Main(c17b.Gen, c17b.RunCase) }
