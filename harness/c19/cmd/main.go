package main

import (
	"seehuhn.de/go/sfnt/verifharness/c19"
	"seehuhn.de/go/sfnt/verifharness/vlib"
)

func main() { vlib.Main(c19.Gen, c19.RunCase) }
