// Package c19 checks the lookup description language of
// opentype/gtab/builder: Parse, ExplainGsub, ExplainGpos and the lexer.
//
// Model cases (compared with the Coq model's output):
//
//	lex   CLS TEXT                tokens of the lexer goroutine
//	parse CLS FONT TEXT           result of Parse: lookups or error line
//	egsub / egpos CLS FONT LL     text written by ExplainGsub / ExplainGpos
//
// Oracle-only cases ("!" prefix): the same for texts of the unmodelled grammar
// (GSUB5/6, GPOS2-4) and for raw byte strings.
//
// The oracle states the property on the Go code alone: Explain -> Parse
// returns an equal lookup list; Parse of any text ends, within a watchdog,
// in lookups or in an error with a line number inside the text, without
// panic and with the goroutine count back at its starting value, for every
// GOMAXPROCS setting tried; a successful parse is a fixed point of
// Explain -> Parse.
package c19

import (
	"fmt"
	"regexp"
	"runtime"
	"strconv"
	"strings"
	"time"

	"seehuhn.de/go/sfnt"
	"seehuhn.de/go/sfnt/cmap"
	"seehuhn.de/go/sfnt/glyph"
	"seehuhn.de/go/sfnt/opentype/gtab"
	"seehuhn.de/go/sfnt/opentype/gtab/builder"
	"seehuhn.de/go/sfnt/verifharness/vlib"
)

const watchdog = 20 * time.Second

// ---------------------------------------------------------------- running the implementation

type parseObs struct {
	lookups gtab.LookupList
	err     error
	panic   any
	hung    bool
	leak    int
}

var errLine = regexp.MustCompile(`^(-?\d+):`)

func (o *parseObs) line() (int, bool) {
	if o.err == nil {
		return 0, false
	}
	m := errLine.FindStringSubmatch(o.err.Error())
	if m == nil {
		return 0, false
	}
	n, err := strconv.Atoi(m[1])
	return n, err == nil
}

// settle waits for the goroutine count to come back to base.
func settle(base int) int {
	for i := 0; i < 2000; i++ {
		if runtime.NumGoroutine() <= base {
			return 0
		}
		runtime.Gosched()
	}
	deadline := time.Now().Add(2 * time.Second)
	for time.Now().Before(deadline) {
		if runtime.NumGoroutine() <= base {
			return 0
		}
		time.Sleep(time.Millisecond)
	}
	return runtime.NumGoroutine() - base
}

func runParse(f *sfnt.Font, text string) *parseObs {
	base := runtime.NumGoroutine()
	done := make(chan *parseObs, 1)
	go func() {
		o := &parseObs{}
		defer func() {
			if r := recover(); r != nil {
				o.panic = r
			}
			done <- o
		}()
		o.lookups, o.err = builder.Parse(f, text)
	}()
	var o *parseObs
	select {
	case o = <-done:
	case <-time.After(watchdog):
		return &parseObs{hung: true}
	}
	o.leak = settle(base)
	return o
}

// obsString is the observation compared with the model; modelled is false if
// the result contains structures the model cannot express.
func (o *parseObs) obsString() (string, bool) {
	switch {
	case o.hung:
		return "hang", true
	case o.panic != nil:
		return "panic", true
	case o.err != nil:
		if n, ok := o.line(); ok {
			return fmt.Sprintf("(err %d)", n), true
		}
		return "(err noline)", true
	}
	sx, ok := lookupsSx(o.lookups)
	return vlib.Str(vlib.L(vlib.Atom("ok"), sx)), ok
}

func tableOf(ll gtab.LookupList) string {
	tab := ""
	for _, l := range ll {
		for _, s := range l.Subtables {
			t := "GSUB"
			if strings.HasPrefix(fmt.Sprintf("%T", s), "*gtab.Gpos") || strings.HasPrefix(fmt.Sprintf("%T", s), "gtab.Gpos") {
				t = "GPOS"
			}
			if tab != "" && tab != t {
				return "mixed"
			}
			tab = t
		}
		if len(l.Subtables) == 0 {
			return "mixed"
		}
	}
	return tab
}

func explain(f *sfnt.Font, table string, ll gtab.LookupList) (text string, panicked any) {
	defer func() {
		if r := recover(); r != nil {
			panicked = r
		}
	}()
	if table == "GSUB" {
		f.Gsub = &gtab.Info{LookupList: ll}
		return builder.ExplainGsub(f), nil
	}
	f.Gpos = &gtab.Info{LookupList: ll}
	return strings.Join(builder.ExplainGpos(f), "\n"), nil
}

var procsForReplay = []int{1, 2, 4, 8, 16}

// Open finding (findings/C19.json): in GSUB5/GSUB6 the words class,
// inputclass, backtrackclass and lookaheadclass start a class definition.  A
// font may have a glyph with such a name; a context rule that starts with
// that glyph is then written in a way the parser reads as a class definition.
const sigClassKeyword = "context-rule-starts-with-glyph-named-like-class-keyword"

var classKeywords = []string{"class", "inputclass", "backtrackclass", "lookaheadclass"}

// startsWithClassKeywordGlyph reports whether some subtable of a GSUB5/6
// lookup in the explained text begins with a glyph whose name is one of the
// class keywords (i.e. the keyword is not followed by " :").
func startsWithClassKeywordGlyph(fs *fontSpec, text string) bool {
	has := false
	for _, n := range fs.names {
		for _, k := range classKeywords {
			if n == k {
				has = true
			}
		}
	}
	if !has {
		return false
	}
	// split into subtable texts, remembering the lookup type
	for _, lookup := range strings.Split("\n"+text, "\nGSUB") {
		var kws []string
		switch {
		case strings.HasPrefix(lookup, "5"):
			kws = classKeywords[:1]
		case strings.HasPrefix(lookup, "6"):
			kws = classKeywords[1:]
		default:
			continue
		}
		if i := strings.Index(lookup, ":"); i >= 0 {
			lookup = lookup[i+1:]
		}
		for _, c := range strings.Split(lookup, " ||\n\t") {
			f := strings.Fields(c)
			// skip the lookup flags
			for len(f) > 0 && strings.HasPrefix(f[0], "-") && len(f[0]) > 1 {
				f = f[1:]
			}
			if len(f) == 0 {
				continue
			}
			for _, k := range kws {
				if f[0] == k && (len(f) < 2 || !strings.HasPrefix(f[1], ":")) {
					return true
				}
			}
		}
	}
	return false
}

// checkParse runs Parse under the given GOMAXPROCS settings and evaluates the
// oracle.  It returns the observation, whether the model can express it, and
// the oracle's verdict (fail, sig).
func checkParse(fs *fontSpec, text string, procs []int) (obs string, modelled bool, fail, sig string, first *parseObs) {
	f := fs.build()
	nlines := strings.Count(text, "\n") + 1
	old := runtime.GOMAXPROCS(0)
	defer runtime.GOMAXPROCS(old)
	for i, p := range procs {
		runtime.GOMAXPROCS(p)
		o := runParse(f, text)
		s, m := o.obsString()
		if i == 0 {
			obs, modelled, first = s, m, o
		} else if s != obs && fail == "" {
			fail, sig = fmt.Sprintf("result depends on GOMAXPROCS: %s (procs %d) vs %s (procs %d)", obs, procs[0], s, p), "parse-schedule-dependent"
		}
		if fail != "" {
			continue
		}
		switch {
		case o.hung:
			fail, sig = fmt.Sprintf("Parse did not return within %v (GOMAXPROCS %d)", watchdog, p), "parse-hang"
		case o.panic != nil:
			fail, sig = fmt.Sprintf("Parse panicked: %v (GOMAXPROCS %d)", o.panic, p), "parse-panic"
		case o.leak != 0:
			fail, sig = fmt.Sprintf("%d goroutine(s) left running after Parse returned (GOMAXPROCS %d)", o.leak, p), "parse-goroutine-leak"
		case o.err != nil:
			n, ok := o.line()
			if !ok {
				fail, sig = fmt.Sprintf("error without line number: %v", o.err), "parse-error-without-line"
			} else if n < 1 || n > nlines {
				fail, sig = fmt.Sprintf("error line %d outside the text (1..%d): %v", n, nlines, o.err), "parse-error-line-out-of-range"
			}
		}
	}
	if fail == "" && first.err == nil && len(first.lookups) > 0 {
		// a successful parse must be a fixed point of Explain -> Parse
		tab := tableOf(first.lookups)
		if tab == "GSUB" || tab == "GPOS" {
			want := canon(first.lookups)
			t2, pn := explain(f, tab, first.lookups)
			if pn != nil {
				fail, sig = fmt.Sprintf("Explain%s panicked on a parsed lookup list: %v", tab, pn), "explain-panic"
			} else {
				o2 := runParse(fs.build(), t2)
				if o2.err != nil || o2.panic != nil || o2.hung {
					fail, sig = fmt.Sprintf("description written by Explain%s is rejected: %q -> err=%v panic=%v", tab, t2, o2.err, o2.panic), "explain-not-parseable"
				} else if got := canon(o2.lookups); got != want {
					fail, sig = fmt.Sprintf("Explain%s -> Parse changes the lookup list: %q\nwant %s\ngot  %s", tab, t2, want, got), "explain-parse-differs"
				}
				if fail != "" && o2.panic == nil && !o2.hung && tab == "GSUB" && startsWithClassKeywordGlyph(fs, t2) {
					sig = sigClassKeyword
				}
			}
		}
	}
	return
}

// checkExplain runs Explain on a lookup list of the modelled fragment, then
// the round-trip oracle.  It returns the explained text.
func checkExplain(fs *fontSpec, table string, ll gtab.LookupList) (text string, obs string, fail, sig string) {
	f := fs.build()
	want := canon(ll)
	text, pn := explain(f, table, ll)
	if pn != nil {
		return "", "panic", fmt.Sprintf("Explain%s panicked: %v", table, pn), "explain-panic"
	}
	l := vlib.List{vlib.Atom("text")}
	for _, r := range text {
		l = append(l, vlib.Int(int(r)))
	}
	obs = vlib.Str(l)
	o := runParse(fs.build(), text)
	switch {
	case o.hung:
		fail, sig = "Parse of the explained text hangs", "parse-hang"
	case o.panic != nil:
		fail, sig = fmt.Sprintf("Parse of the explained text panics: %v", o.panic), "parse-panic"
	case o.err != nil:
		fail, sig = fmt.Sprintf("description written by Explain%s is rejected: %q -> %v", table, text, o.err), "explain-not-parseable"
	case o.leak != 0:
		fail, sig = "goroutine left running", "parse-goroutine-leak"
	default:
		if got := canon(o.lookups); got != want {
			fail, sig = fmt.Sprintf("Explain%s -> Parse changes the lookup list: %q\nwant %s\ngot  %s", table, text, want, got), "explain-parse-differs"
		}
	}
	return
}

// checkNoCmap: Parse for a font without a usable character map (mode 0: no cmap
// table at all, 1: an empty cmap table, 2: only a subtable GetBest does not
// consider).  Whatever the text, Parse must end - with lookups or an error, not
// a panic or a hang - and leave no goroutine behind.
func checkNoCmap(mode int, text string) (obs, fail, sig string) {
	f := (&fontSpec{names: []string{".notdef", "A", "B", "C"}, cm: map[rune]glyph.ID{}}).build()
	switch mode {
	case 0:
		f.CMapTable = nil
	case 1:
		f.CMapTable = cmap.Table{}
	default:
		f.CMapTable = cmap.Table{cmap.Key{PlatformID: 2, EncodingID: 0}: cmap.Format4{65: 1}.Encode(0)}
	}
	for rep := 0; rep < 3; rep++ {
		o := runParse(f, text)
		switch {
		case o.hung:
			return "hang", "Parse hangs for a font without usable cmap", "parse-hang"
		case o.panic != nil:
			return "panic", fmt.Sprintf("Parse panics for a font without usable cmap: %v", o.panic), "parse-panic"
		case o.leak != 0:
			return "leak", fmt.Sprintf("%d goroutine(s) left running after Parse returned for a font without usable cmap", o.leak), "parse-goroutine-leak"
		}
		if o.err != nil {
			obs = "err"
		} else {
			obs = "ok"
		}
	}
	return obs, "", ""
}

func lexObs(text string) (string, string) {
	base := runtime.NumGoroutine()
	toks := builder.VerifC19Lex(text)
	leak := settle(base)
	l := vlib.List{}
	nlines := strings.Count(text, "\n") + 1
	fail := ""
	for i, t := range toks {
		val := runesSx(t.Val)
		if t.Typ == builder.VerifC19ItemError || t.Typ == 1 {
			val = vlib.List{}
		}
		l = append(l, vlib.L(vlib.Int(t.Typ), val, vlib.Int(t.Line)))
		if t.Line < 1 || t.Line > nlines {
			fail = fmt.Sprintf("item %d has line %d outside 1..%d", i, t.Line, nlines)
		}
		if i > 0 && t.Line < toks[i-1].Line {
			fail = fmt.Sprintf("line numbers decrease at item %d", i)
		}
	}
	if len(toks) == 0 {
		fail = "lexer sent no item"
	} else if last := toks[len(toks)-1]; last.Typ != 1 && last.Typ != builder.VerifC19ItemError {
		fail = "last item is neither EOF nor an error"
	}
	if leak != 0 {
		fail = "lexer goroutine left running"
	}
	return vlib.Str(l), fail
}

// ---- nested-action lists (readNestedLookups / explainNested) ----

func nestedObs(text string) (obs string, acts []builder.VerifC19NestedItem, fail, sig string) {
	base := runtime.NumGoroutine()
	type res struct {
		acts []builder.VerifC19NestedItem
		err  error
		pn   any
	}
	done := make(chan res, 1)
	go func() {
		var r res
		defer func() {
			if p := recover(); p != nil {
				r.pn = p
			}
			done <- r
		}()
		r.acts, r.err = builder.VerifC19ReadNested(text)
	}()
	var r res
	select {
	case r = <-done:
	case <-time.After(watchdog):
		return "hang", nil, "readNestedLookups did not return", "parse-hang"
	}
	leak := settle(base)
	nlines := strings.Count(text, "\n") + 1
	switch {
	case r.pn != nil:
		return "panic", nil, fmt.Sprintf("readNestedLookups panicked: %v", r.pn), "parse-panic"
	case r.err != nil:
		o := &parseObs{err: r.err}
		n, ok := o.line()
		obs = fmt.Sprintf("(err %d)", n)
		if !ok {
			obs, fail, sig = "(err noline)", fmt.Sprintf("error without line number: %v", r.err), "parse-error-without-line"
		} else if n < 1 || n > nlines {
			fail, sig = fmt.Sprintf("error line %d outside the text (1..%d): %v", n, nlines, r.err), "parse-error-line-out-of-range"
		}
	default:
		obs = vlib.Str(vlib.L(vlib.Atom("ok"), nestedSx(r.acts)))
	}
	if fail == "" && leak != 0 {
		fail, sig = "goroutine left running", "parse-goroutine-leak"
	}
	return obs, r.acts, fail, sig
}

func nestedSx(acts []builder.VerifC19NestedItem) vlib.Sx {
	l := vlib.List{}
	for _, a := range acts {
		l = append(l, vlib.L(vlib.Int(a.LookupListIndex), vlib.Int(a.SequenceIndex)))
	}
	return l
}

// checkExplainNested: explainNested, then readNestedLookups must give the list back
func checkExplainNested(acts []builder.VerifC19NestedItem) (text, obs, fail, sig string) {
	defer func() {
		if p := recover(); p != nil {
			obs, fail, sig = "panic", fmt.Sprintf("explainNested panicked: %v", p), "explain-panic"
		}
	}()
	text = builder.VerifC19ExplainNested(acts)
	l := vlib.List{vlib.Atom("text")}
	for _, r := range text {
		l = append(l, vlib.Int(int(r)))
	}
	obs = vlib.Str(l)
	o2, back, f2, s2 := nestedObs(text)
	if f2 != "" {
		return text, obs, f2, s2
	}
	if o2 != vlib.Str(vlib.L(vlib.Atom("ok"), nestedSx(acts))) || len(back) != len(acts) {
		fail, sig = fmt.Sprintf("explainNested -> readNestedLookups changes the list: %q -> %s", text, o2), "explain-parse-differs"
	}
	return
}

// hasUnmodelledKeyword reports whether the text contains a keyword that sends
// the parser into the part of the grammar the model does not cover.
func hasUnmodelledKeyword(text string) bool {
	for _, t := range builder.VerifC19Lex(text) {
		switch t.Val {
		case "GPOS2":
			return true
		}
	}
	return false
}

func validRunes(s string) bool {
	for _, r := range s {
		if r == 0xFFFD {
			// could be an invalid byte; such texts go to the byte-level cases
			return false
		}
	}
	return true
}

// ---------------------------------------------------------------- case lines

func parseCaseLine(fs *fontSpec, text string, modelled bool) string {
	head := "parse"
	if !modelled {
		head = "!parse"
	}
	return vlib.Line(vlib.Atom(head), fs.cls(text), fs.sx(), runesSx(text))
}

func RunCase(line string) (impl, fail, sig string, err error) {
	items, err := vlib.Parse(line)
	if err != nil || len(items) < 2 {
		return "", "", "", fmt.Errorf("bad case line")
	}
	head, _ := vlib.AsAtom(items[0])
	switch head {
	case "lex":
		if len(items) != 3 {
			return "", "", "", fmt.Errorf("lex: 3 items expected")
		}
		text, err := textFromSx(items[2])
		if err != nil {
			return "", "", "", err
		}
		obs, f := lexObs(text)
		if f != "" {
			return obs, f, "lexer-item-stream", nil
		}
		return obs, "", "", nil
	case "nested":
		if len(items) != 3 {
			return "", "", "", fmt.Errorf("nested: 3 items expected")
		}
		text, err := textFromSx(items[2])
		if err != nil {
			return "", "", "", err
		}
		obs, _, fail, sig := nestedObs(text)
		return obs, fail, sig, nil
	case "enested":
		al, err := vlib.AsList(items[1])
		if err != nil {
			return "", "", "", err
		}
		var acts []builder.VerifC19NestedItem
		for _, a := range al {
			p, err := vlib.AsInts(a)
			if err != nil || len(p) != 2 {
				return "", "", "", fmt.Errorf("bad action")
			}
			acts = append(acts, builder.VerifC19NestedItem{LookupListIndex: p[0], SequenceIndex: p[1]})
		}
		_, obs, fail, sig := checkExplainNested(acts)
		return obs, fail, sig, nil
	case "parse", "!parse":
		if len(items) != 4 {
			return "", "", "", fmt.Errorf("parse: 4 items expected")
		}
		fs, err := fontFromSx(items[2])
		if err != nil {
			return "", "", "", err
		}
		text, err := textFromSx(items[3])
		if err != nil {
			return "", "", "", err
		}
		obs, _, fail, sig, _ := checkParse(fs, text, procsForReplay)
		return obs, fail, sig, nil
	case "!nocmap":
		if len(items) != 3 {
			return "", "", "", fmt.Errorf("!nocmap: 3 items expected")
		}
		mode, err := vlib.AsInt(items[1])
		if err != nil {
			return "", "", "", err
		}
		text, err := textFromSx(items[2])
		if err != nil {
			return "", "", "", err
		}
		obs, fail, sig := checkNoCmap(mode, text)
		return obs, fail, sig, nil
	case "!bytes":
		if len(items) != 3 {
			return "", "", "", fmt.Errorf("!bytes: 3 items expected")
		}
		fs, err := fontFromSx(items[1])
		if err != nil {
			return "", "", "", err
		}
		b, err := vlib.AsBytes(items[2])
		if err != nil {
			return "", "", "", err
		}
		obs, _, fail, sig, _ := checkParse(fs, string(b), procsForReplay)
		return obs, fail, sig, nil
	case "egsub", "egpos":
		if len(items) != 4 {
			return "", "", "", fmt.Errorf("explain: 4 items expected")
		}
		fs, err := fontFromSx(items[2])
		if err != nil {
			return "", "", "", err
		}
		ll, err := lookupsFromSx(items[3])
		if err != nil {
			return "", "", "", err
		}
		tab := "GSUB"
		if head == "egpos" {
			tab = "GPOS"
		}
		_, obs, fail, sig := checkExplain(fs, tab, ll)
		return obs, fail, sig, nil
	}
	return "", "", "", fmt.Errorf("unknown case kind %q", head)
}

// ---------------------------------------------------------------- generation

func Gen(run *vlib.Run, seed uint64, tier string) {
	run.Rule = "non-trivial: a parse case whose text contains a lookup keyword and ends in at least one lookup or in an error on a line >= 1; an explain case with at least one lookup; a lexer case with at least three items"
	root := vlib.NewRand(seed)
	caseNo := 0
	procs := func() []int {
		caseNo++
		return []int{1 + caseNo%16, 1 + (caseNo*7+3)%16}
	}
	procHist := map[int]int{}

	addParse := func(fs *fontSpec, text string, labels ...string) {
		if !validRunes(text) {
			return
		}
		modelled := !hasUnmodelledKeyword(text)
		pp := procs()
		for _, p := range pp {
			procHist[p]++
		}
		obs, expressible, fail, sig, o := checkParse(fs, text, pp)
		if !expressible {
			modelled = false
		}
		line := parseCaseLine(fs, text, modelled)
		cls := "err"
		if o.err == nil && o.panic == nil && !o.hung {
			cls = fmt.Sprintf("ok-%d", min(len(o.lookups), 3))
		}
		hasKw := strings.Contains(text, "GSUB") || strings.Contains(text, "GPOS")
		nontriv := hasKw && (cls != "err" && cls != "ok-0" || (o.err != nil && strings.Contains(obs, "err") && obs != "(err 0)"))
		lab := append([]string{"parse", "parse:" + cls}, labels...)
		for _, l := range labels {
			if l == "text:grammar" || l == "text:mutated" || l == "text:explained" {
				lab = append(lab, l+":"+strings.SplitN(cls, "-", 2)[0])
			}
		}
		if cls == "err" && len(labels) > 0 && labels[0] == "text:grammar" && len(run.Samples) < 0 {
			fmt.Println(text, o.err)
		}
		if !modelled {
			lab = append(lab, "oracle-only")
		}
		idx := run.Add(line, obs, nontriv, lab...)
		if fail != "" {
			run.Fail(idx, line, fail, sig)
		}
	}
	addLex := func(text string, labels ...string) {
		if !validRunes(text) {
			return
		}
		obs, fail := lexObs(text)
		line := vlib.Line(vlib.Atom("lex"), clsSx([]string{text}, nil), runesSx(text))
		idx := run.Add(line, obs, strings.Count(obs, "(") > 6, append([]string{"lex"}, labels...)...)
		if fail != "" {
			run.Fail(idx, line, fail, "lexer-item-stream")
		}
	}
	addExplain := func(fs *fontSpec, table string, ll gtab.LookupList, labels ...string) {
		sx, ok := lookupsSx(ll)
		if !ok {
			panic("generator produced a lookup list outside the model's representation")
		}
		head := "egsub"
		if table == "GPOS" {
			head = "egpos"
		}
		text, obs, fail, sig := checkExplain(fs, table, ll)
		line := vlib.Line(vlib.Atom(head), fs.cls(), fs.sx(), sx)
		idx := run.Add(line, obs, len(ll) > 0, append([]string{"explain", "explain:" + table}, labels...)...)
		if fail != "" {
			run.Fail(idx, line, fail, sig)
		}
		if text != "" {
			addParse(fs, text, append([]string{"text:explained"}, labels...)...)
			addLex(text, "text:explained")
		}
	}

	// 1. grammar-derived lookup lists of the fragment: Explain, then Parse
	r := root.Fork("lookups")
	nLL := vlib.Count(tier, 260, 6000)
	for i := 0; i < nLL; i++ {
		kind := fontKinds[i%len(fontKinds)]
		fs := genFont(r, kind)
		n := fs.numGlyphs()
		if r.Bool() {
			var ll gtab.LookupList
			labels := []string{"font:" + kind}
			for k := r.Range(1, 3); k > 0; k-- {
				ty := r.Range(1, 4)
				ll = append(ll, genGsubLookup(r, n, ty))
				labels = append(labels, fmt.Sprintf("GSUB%d", ty))
			}
			for _, l := range ll {
				labels = append(labels, fmt.Sprintf("flags:%d", l.Meta.LookupFlags))
			}
			addExplain(fs, "GSUB", ll, labels...)
		} else {
			var ll gtab.LookupList
			labels := []string{"font:" + kind, "GPOS1/3/4"}
			for k := r.Range(1, 3); k > 0; k-- {
				l := genGpos1Lookup(r, n)
				switch r.Intn(5) {
				case 0, 1:
					l = genGpos3Lookup(r, n)
				case 2:
					l = genGpos4Lookup(r, n)
				}
				ll = append(ll, l)
				labels = append(labels, fmt.Sprintf("flags:%d", l.Meta.LookupFlags), fmt.Sprintf("subtables:%d", len(l.Subtables)))
			}
			addExplain(fs, "GPOS", ll, labels...)
		}
	}
	// GSUB5 lookups: glyph sequences, classes, coverage sets, several subtables
	r = root.Fork("ctx")
	for i := 0; i < vlib.Count(tier, 150, 4000); i++ {
		kind := fontKinds[i%len(fontKinds)]
		fs := genFont(r, kind)
		var ll gtab.LookupList
		labels := []string{"font:" + kind, "GSUB5/6"}
		for k := r.Range(1, 2); k > 0; k-- {
			l := genCtxLookup(r, fs.numGlyphs())
			if r.Bool() {
				l = genChainLookup(r, fs.numGlyphs())
			}
			ll = append(ll, l)
			labels = append(labels, fmt.Sprintf("flags:%d", l.Meta.LookupFlags), fmt.Sprintf("subtables:%d", len(l.Subtables)))
			for _, s := range l.Subtables {
				labels = append(labels, fmt.Sprintf("%T", s)[6:])
			}
		}
		addExplain(fs, "GSUB", ll, labels...)
	}

	// all flag subsets on every modelled type, with and without names / cmap
	r = root.Fork("flags")
	for _, kind := range []string{"named", "unnamed", "named-nocmap", "unnamed-nocmap"} {
		fs := genFont(r, kind)
		for _, fl := range flagSets {
			for ty := 1; ty <= 4; ty++ {
				l := genGsubLookup(r, fs.numGlyphs(), ty)
				l.Meta.LookupFlags = fl
				addExplain(fs, "GSUB", gtab.LookupList{l}, "font:"+kind, fmt.Sprintf("flags:%d", fl), fmt.Sprintf("GSUB%d", ty), "flag-sweep")
			}
			l := genGpos1Lookup(r, fs.numGlyphs())
			l.Meta.LookupFlags = fl
			addExplain(fs, "GPOS", gtab.LookupList{l}, "font:"+kind, fmt.Sprintf("flags:%d", fl), "GPOS1", "flag-sweep")
		}
	}
	if tier == "thorough" {
		// a font with the maximal number of glyphs: ranges next to the
		// uint16 limits
		r = root.Fork("big")
		fs := genFont(r, "big")
		for i := 0; i < 6; i++ {
			l := genGsubLookup(r, fs.numGlyphs(), 1+i%4)
			addExplain(fs, "GSUB", gtab.LookupList{l}, "font:big")
		}
		addParse(fs, "GSUB1: 65530-65534 -> 1-5\nGSUB1: 65534 -> 0, 3-1 -> 65532-65534\n", "font:big", "text:boundary")
	}

	// 2. grammar-derived texts (whole grammar) and their single-token mutations
	r = root.Fork("texts")
	nT := vlib.Count(tier, 500, 12000)
	for i := 0; i < nT; i++ {
		kind := fontKinds[i%len(fontKinds)]
		fs := genFont(r, kind)
		types := allTypes
		if i%3 == 0 {
			types = modelTypes
		}
		table := []string{"GSUB", "GPOS", ""}[r.Intn(3)]
		text := genText(r, fs, types, table)
		addParse(fs, text, "text:grammar", "font:"+kind)
		if i%4 == 0 {
			addLex(text, "text:grammar")
		}
		for k := 0; k < 3; k++ {
			m, op := mutate(r, text)
			addParse(fs, m, "text:mutated", "mut:"+op, "font:"+kind)
			if k == 0 && i%4 == 0 {
				addLex(m, "text:mutated")
			}
		}
	}

	// 3. random texts and raw bytes
	r = root.Fork("random")
	nR := vlib.Count(tier, 300, 8000)
	for i := 0; i < nR; i++ {
		fs := genFont(r, fontKinds[i%len(fontKinds)])
		text := randomText(r, r.Range(0, 40))
		if i%2 == 0 {
			text = "GSUB" + fmt.Sprint(1+r.Intn(4)) + ": " + text
		}
		addParse(fs, text, "text:random")
		addLex(text, "text:random")
		if i%3 == 0 {
			b := r.Bytes(r.Range(0, 30))
			if i%2 == 0 {
				b = append([]byte("GSUB2: A -> \""), b...)
			}
			pp := procs()
			obs, _, fail, sig, _ := checkParse(fs, string(b), pp)
			line := vlib.Line(vlib.Atom("!bytes"), fs.sx(), vlib.Hex(b))
			idx := run.Add(line, obs, false, "bytes", "oracle-only")
			if fail != "" {
				run.Fail(idx, line, fail, sig)
			}
		}
	}

	// 3a'. fonts without a usable cmap (oracle only)
	r = root.Fork("nocmap")
	for i := 0; i < vlib.Count(tier, 24, 300); i++ {
		text := randomText(r, r.Range(0, 30))
		switch i % 4 {
		case 0:
			text = "GSUB1: A -> B"
		case 1:
			text = "GSUB4: \"AB\" -> C\nGPOS1: A -> dx+10"
		case 2:
			text = ""
		}
		mode := i % 3
		obs, fail, sig := checkNoCmap(mode, text)
		line := "!" + vlib.Line(vlib.Atom("nocmap"), vlib.Int(mode), runesSx(text))
		idx := run.Add(line, obs, true, "nocmap", "oracle-only")
		if fail != "" {
			run.Fail(idx, line, fail, sig)
		}
	}

	// 3b. nested-action lists on their own
	r = root.Fork("nested")
	u16 := []int{0, 1, 2, 9, 10, 255, 256, 65535}
	for i := 0; i < vlib.Count(tier, 150, 4000); i++ {
		var acts []builder.VerifC19NestedItem
		for k := r.Range(0, 5); k > 0; k-- {
			acts = append(acts, builder.VerifC19NestedItem{LookupListIndex: vlib.Pick(r, u16), SequenceIndex: vlib.Pick(r, u16)})
		}
		text, obs, fail, sig := checkExplainNested(acts)
		line := vlib.Line(vlib.Atom("enested"), nestedSx(acts))
		idx := run.Add(line, obs, len(acts) > 0, "nested", "nested:explain")
		if fail != "" {
			run.Fail(idx, line, fail, sig)
		}
		texts := []string{text}
		m, _ := mutate(r, text)
		texts = append(texts, m, vlib.Pick(r, []string{"65536@0", "1@65536", "1@", "1 @ 2 3@4\n5@6", "-1@2", "+1@+2", "1@x", "x", "", "1@2@3", "99999999999999999999@1", "1@-0", "1\n@2"}))
		for _, t := range texts {
			if !validRunes(t) {
				continue
			}
			o, _, f, s := nestedObs(t)
			l := vlib.Line(vlib.Atom("nested"), clsSx([]string{t}, nil), runesSx(t))
			ix := run.Add(l, o, strings.Contains(t, "@"), "nested", "nested:parse")
			if f != "" {
				run.Fail(ix, l, f, s)
			}
		}
	}

	// 4. long inputs: many lookups in one text, parse errors at every distance from the end
	r = root.Fork("long")
	nL := vlib.Count(tier, 6, 60)
	for i := 0; i < nL; i++ {
		fs := genFont(r, fontKinds[i%len(fontKinds)])
		var b strings.Builder
		for k := 0; k < vlib.Count(tier, 40, 200); k++ {
			b.WriteString(genText(r, fs, modelTypes, ""))
		}
		text := b.String()
		addParse(fs, text, "text:long")
		cut := r.Intn(len(text) + 1)
		for cut > 0 && cut < len(text) && (text[cut]&0xC0) == 0x80 {
			cut--
		}
		addParse(fs, text[:cut]+" ! "+text[cut:], "text:long", "text:mutated")
	}

	// 5. the open finding: a glyph named like a class keyword starting a context rule
	for i, kw := range classKeywords {
		fs := &fontSpec{names: []string{".notdef", kw, "A", "B"}, cm: map[rune]glyph.ID{}}
		text := "GSUB5: 1 A -> 1@0, B -> 2@0\n"
		if i%2 == 1 {
			text = "GSUB6: -marks 1 | A | -> 1@0\n"
		}
		addParse(fs, text, "font:class-keyword-name")
	}

	ph := map[string]int{}
	for p, c := range procHist {
		ph[strconv.Itoa(p)] = c
	}
	run.Extra["gomaxprocs_histogram"] = ph
	run.Extra["watchdog_seconds"] = int(watchdog / time.Second)
}
