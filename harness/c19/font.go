package c19

import (
	"fmt"
	"reflect"
	"sort"
	"strings"
	"unicode"

	"seehuhn.de/go/postscript/funit"
	"seehuhn.de/go/sfnt"
	"seehuhn.de/go/sfnt/cmap"
	"seehuhn.de/go/sfnt/glyf"
	"seehuhn.de/go/sfnt/glyph"
	"seehuhn.de/go/sfnt/opentype/anchor"
	"seehuhn.de/go/sfnt/opentype/classdef"
	"seehuhn.de/go/sfnt/opentype/coverage"
	"seehuhn.de/go/sfnt/opentype/gtab"
	"seehuhn.de/go/sfnt/opentype/markarray"
	"seehuhn.de/go/sfnt/verifharness/vlib"
)

// fontSpec is the abstraction of a font the language depends on: the glyph
// name table (index = glyph id, "" = no name) and the best cmap subtable.
type fontSpec struct {
	names []string
	cm    map[rune]glyph.ID
}

func (fs *fontSpec) numGlyphs() int { return len(fs.names) }

// build makes a *sfnt.Font with exactly this name table and cmap.
func (fs *fontSpec) build() *sfnt.Font {
	o := &glyf.Outlines{Glyphs: make(glyf.Glyphs, len(fs.names))}
	hasName := false
	for _, n := range fs.names {
		if n != "" {
			hasName = true
		}
	}
	if hasName {
		o.Names = append([]string(nil), fs.names...)
	}
	f := &sfnt.Font{Outlines: o}
	big := false
	for r := range fs.cm {
		if r > 0xFFFF {
			big = true
		}
	}
	if big {
		c := cmap.Format12{}
		for r, g := range fs.cm {
			c[uint32(r)] = g
		}
		f.CMapTable = cmap.Table{cmap.Key{PlatformID: 3, EncodingID: 10}: c.Encode(0)}
	} else {
		c := cmap.Format4{}
		for r, g := range fs.cm {
			c[uint16(r)] = g
		}
		f.CMapTable = cmap.Table{cmap.Key{PlatformID: 3, EncodingID: 1}: c.Encode(0)}
	}
	return f
}

func runesSx(s string) vlib.Sx {
	var l vlib.List
	for _, r := range s {
		l = append(l, vlib.Int(int(r)))
	}
	if l == nil {
		l = vlib.List{}
	}
	return l
}

func (fs *fontSpec) sx() vlib.Sx {
	names := make(vlib.List, len(fs.names))
	for i, n := range fs.names {
		names[i] = runesSx(n)
	}
	keys := make([]int, 0, len(fs.cm))
	for r := range fs.cm {
		keys = append(keys, int(r))
	}
	sort.Ints(keys)
	cm := make(vlib.List, len(keys))
	for i, k := range keys {
		cm[i] = vlib.L(vlib.Int(k), vlib.Int(int(fs.cm[rune(k)])))
	}
	return vlib.L(names, cm)
}

func fontFromSx(x vlib.Sx) (*fontSpec, error) {
	l, err := vlib.AsList(x)
	if err != nil || len(l) != 2 {
		return nil, fmt.Errorf("bad font")
	}
	nl, err := vlib.AsList(l[0])
	if err != nil {
		return nil, err
	}
	fs := &fontSpec{cm: map[rune]glyph.ID{}}
	for _, n := range nl {
		s, err := textFromSx(n)
		if err != nil {
			return nil, err
		}
		fs.names = append(fs.names, s)
	}
	cl, err := vlib.AsList(l[1])
	if err != nil {
		return nil, err
	}
	for _, p := range cl {
		kv, err := vlib.AsInts(p)
		if err != nil || len(kv) != 2 {
			return nil, fmt.Errorf("bad cmap entry")
		}
		fs.cm[rune(kv[0])] = glyph.ID(kv[1])
	}
	return fs, nil
}

func textFromSx(x vlib.Sx) (string, error) {
	ii, err := vlib.AsInts(x)
	if err != nil {
		return "", err
	}
	var b strings.Builder
	for _, i := range ii {
		b.WriteRune(rune(i))
	}
	return b.String(), nil
}

// clsSx lists the classification of every non-ASCII rune of the given strings
// by package unicode (the model's external black box): 1 letter, 2 digit,
// 4 space, 8 print.
func clsSx(strs []string, runes []rune) vlib.Sx {
	seen := map[rune]bool{}
	for _, s := range strs {
		for _, r := range s {
			if r >= 128 {
				seen[r] = true
			}
		}
	}
	for _, r := range runes {
		if r >= 128 {
			seen[r] = true
		}
	}
	keys := make([]int, 0, len(seen))
	for r := range seen {
		keys = append(keys, int(r))
	}
	sort.Ints(keys)
	l := vlib.List{}
	for _, k := range keys {
		r := rune(k)
		f := 0
		if unicode.IsLetter(r) {
			f |= 1
		}
		if unicode.IsDigit(r) {
			f |= 2
		}
		if unicode.IsSpace(r) {
			f |= 4
		}
		if unicode.IsPrint(r) {
			f |= 8
		}
		l = append(l, vlib.L(vlib.Int(k), vlib.Int(f)))
	}
	return l
}

func (fs *fontSpec) cls(extra ...string) vlib.Sx {
	var rr []rune
	for r := range fs.cm {
		rr = append(rr, r)
	}
	return clsSx(append(append([]string(nil), fs.names...), extra...), rr)
}

// ---- lookup lists <-> S-expressions (the model's representation) ----

func gidsSx[T ~uint16](l []T) vlib.Sx {
	out := make(vlib.List, len(l))
	for i, g := range l {
		out[i] = vlib.Int(int(g))
	}
	return out
}

// covList returns the glyphs of a coverage table in coverage-index order;
// ok is false if the indices are not 0..n-1.
func covList(c coverage.Table) ([]glyph.ID, bool) {
	out := make([]glyph.ID, len(c))
	seen := make([]bool, len(c))
	for g, i := range c {
		if i < 0 || i >= len(c) || seen[i] {
			return nil, false
		}
		seen[i] = true
		out[i] = g
	}
	return out, true
}

func adjSx(a *gtab.GposValueRecord) (vlib.Sx, bool) {
	if a == nil {
		return vlib.Atom("_"), true
	}
	ok := a.YAdvance == 0 && a.XPlacementDevOffs == 0 && a.YPlacementDevOffs == 0 &&
		a.XAdvanceDevOffs == 0 && a.YAdvanceDevOffs == 0
	return vlib.L(vlib.Int(int(a.XPlacement)), vlib.Int(int(a.YPlacement)), vlib.Int(int(a.XAdvance))), ok
}

// lookupsSx renders a lookup list in the model's syntax; ok is false when the
// list contains something the model has no representation for.
func actsSx(aa []gtab.SeqLookup) vlib.Sx {
	l := vlib.List{}
	for _, a := range aa {
		l = append(l, vlib.L(vlib.Int(int(a.LookupListIndex)), vlib.Int(int(a.SequenceIndex))))
	}
	return l
}

// classesSx renders a class definition table as the glyph lists of the
// classes 1, 2, ...; ok is false if the table has explicit class-0 entries.
func classesSx(t classdef.Table) (vlib.Sx, bool) {
	ok := true
	for _, c := range t {
		if c == 0 {
			ok = false
		}
	}
	l := vlib.List{}
	gg := t.Glyphs()
	for i := 1; i < len(gg); i++ {
		l = append(l, gidsSx(gg[i]))
	}
	return l, ok
}

func lookupsSx(ll gtab.LookupList) (vlib.Sx, bool) {
	ok := true
	out := vlib.List{}
	for _, l := range ll {
		subs := vlib.List{}
		for _, s := range l.Subtables {
			switch t := s.(type) {
			case *gtab.Gpos3_1:
				cov, o := covList(t.Cov)
				ok = ok && o
				recs := vlib.List{}
				for _, r := range t.Records {
					recs = append(recs, vlib.L(vlib.L(vlib.Int(int(r.Entry.X)), vlib.Int(int(r.Entry.Y))),
						vlib.L(vlib.Int(int(r.Exit.X)), vlib.Int(int(r.Exit.Y)))))
				}
				subs = append(subs, vlib.L(vlib.Atom("p31"), gidsSx(cov), recs))
			case *gtab.Gpos4_1:
				mc, o1 := covList(t.MarkCov)
				bc, o2 := covList(t.BaseCov)
				ok = ok && o1 && o2
				ma := vlib.List{}
				for _, m := range t.MarkArray {
					ma = append(ma, vlib.L(vlib.Int(int(m.Class)), vlib.Int(int(m.X)), vlib.Int(int(m.Y))))
				}
				ba := vlib.List{}
				for _, row := range t.BaseArray {
					rl := vlib.List{}
					for _, a := range row {
						rl = append(rl, vlib.L(vlib.Int(int(a.X)), vlib.Int(int(a.Y))))
					}
					ba = append(ba, rl)
				}
				subs = append(subs, vlib.L(vlib.Atom("p41"), gidsSx(mc), ma, gidsSx(bc), ba))
			case *gtab.ChainedSeqContext1:
				cov, o := covList(t.Cov)
				ok = ok && o
				rules := vlib.List{}
				for _, rs := range t.Rules {
					rl := vlib.List{}
					for _, r := range rs {
						rl = append(rl, vlib.L(gidsSx(r.Backtrack), gidsSx(r.Input), gidsSx(r.Lookahead), actsSx(r.Actions)))
					}
					rules = append(rules, rl)
				}
				subs = append(subs, vlib.L(vlib.Atom("h1"), gidsSx(cov), rules))
			case *gtab.ChainedSeqContext2:
				cov, o := covList(t.Cov)
				ok = ok && o
				bc, o1 := classesSx(t.Backtrack)
				ic, o2 := classesSx(t.Input)
				lc, o3 := classesSx(t.Lookahead)
				ok = ok && o1 && o2 && o3
				rules := vlib.List{}
				for _, rs := range t.Rules {
					rl := vlib.List{}
					for _, r := range rs {
						rl = append(rl, vlib.L(vlib.Ints(r.Backtrack), vlib.Ints(r.Input), vlib.Ints(r.Lookahead), actsSx(r.Actions)))
					}
					rules = append(rules, rl)
				}
				subs = append(subs, vlib.L(vlib.Atom("h2"), gidsSx(cov), bc, ic, lc, rules))
			case *gtab.ChainedSeqContext3:
				setsSx := func(ss []coverage.Set) vlib.Sx {
					l := vlib.List{}
					for _, set := range ss {
						l = append(l, gidsSx(set.Glyphs()))
					}
					return l
				}
				subs = append(subs, vlib.L(vlib.Atom("h3"), setsSx(t.Backtrack), setsSx(t.Input), setsSx(t.Lookahead), actsSx(t.Actions)))
			case *gtab.SeqContext1:
				cov, o := covList(t.Cov)
				ok = ok && o
				rules := vlib.List{}
				for _, rs := range t.Rules {
					rl := vlib.List{}
					for _, r := range rs {
						rl = append(rl, vlib.L(gidsSx(r.Input), actsSx(r.Actions)))
					}
					rules = append(rules, rl)
				}
				subs = append(subs, vlib.L(vlib.Atom("c1"), gidsSx(cov), rules))
			case *gtab.SeqContext2:
				cov, o := covList(t.Cov)
				ok = ok && o
				cls, o2 := classesSx(t.Input)
				ok = ok && o2
				rules := vlib.List{}
				for _, rs := range t.Rules {
					rl := vlib.List{}
					for _, r := range rs {
						rl = append(rl, vlib.L(vlib.Ints(r.Input), actsSx(r.Actions)))
					}
					rules = append(rules, rl)
				}
				subs = append(subs, vlib.L(vlib.Atom("c2"), gidsSx(cov), cls, rules))
			case *gtab.SeqContext3:
				sets := vlib.List{}
				for _, set := range t.Input {
					sets = append(sets, gidsSx(set.Glyphs()))
				}
				subs = append(subs, vlib.L(vlib.Atom("c3"), sets, actsSx(t.Actions)))
			case *gtab.Gsub1_1:
				subs = append(subs, vlib.L(vlib.Atom("g11"), gidsSx(t.Cov.Glyphs()), vlib.Int(int(t.Delta))))
			case *gtab.Gsub1_2:
				cov, o := covList(t.Cov)
				ok = ok && o
				subs = append(subs, vlib.L(vlib.Atom("g12"), gidsSx(cov), gidsSx(t.SubstituteGlyphIDs)))
			case *gtab.Gsub2_1:
				cov, o := covList(t.Cov)
				ok = ok && o
				r := vlib.List{}
				for _, x := range t.Repl {
					r = append(r, gidsSx(x))
				}
				subs = append(subs, vlib.L(vlib.Atom("g21"), gidsSx(cov), r))
			case *gtab.Gsub3_1:
				cov, o := covList(t.Cov)
				ok = ok && o
				r := vlib.List{}
				for _, x := range t.Alternates {
					r = append(r, gidsSx(x))
				}
				subs = append(subs, vlib.L(vlib.Atom("g31"), gidsSx(cov), r))
			case *gtab.Gsub4_1:
				cov, o := covList(t.Cov)
				ok = ok && o
				r := vlib.List{}
				for _, ligs := range t.Repl {
					ls := vlib.List{}
					for _, lg := range ligs {
						ls = append(ls, vlib.L(gidsSx(lg.In), vlib.Int(int(lg.Out))))
					}
					r = append(r, ls)
				}
				subs = append(subs, vlib.L(vlib.Atom("g41"), gidsSx(cov), r))
			case *gtab.Gpos1_1:
				cov, o := covList(t.Cov)
				ok = ok && o
				a, o2 := adjSx(t.Adjust)
				ok = ok && o2
				subs = append(subs, vlib.L(vlib.Atom("p11"), gidsSx(cov), a))
			case *gtab.Gpos1_2:
				cov, o := covList(t.Cov)
				ok = ok && o
				as := vlib.List{}
				for _, x := range t.Adjust {
					a, o2 := adjSx(x)
					ok = ok && o2
					as = append(as, a)
				}
				subs = append(subs, vlib.L(vlib.Atom("p12"), gidsSx(cov), as))
			default:
				ok = false
				subs = append(subs, vlib.Atom(fmt.Sprintf("unmodelled-%T", s)))
			}
		}
		out = append(out, vlib.L(vlib.Int(int(l.Meta.LookupType)), vlib.Int(int(l.Meta.LookupFlags)), subs))
	}
	return out, ok
}

func gidsFromSx(x vlib.Sx) ([]glyph.ID, error) {
	ii, err := vlib.AsInts(x)
	if err != nil {
		return nil, err
	}
	out := make([]glyph.ID, len(ii))
	for i, v := range ii {
		out[i] = glyph.ID(v)
	}
	return out, nil
}

func covFromList(l []glyph.ID) coverage.Table {
	t := make(coverage.Table, len(l))
	for i, g := range l {
		t[g] = i
	}
	return t
}

func adjFromSx(x vlib.Sx) (*gtab.GposValueRecord, error) {
	if a, ok := x.(vlib.Atom); ok && a == "_" {
		return nil, nil
	}
	ii, err := vlib.AsInts(x)
	if err != nil || len(ii) != 3 {
		return nil, fmt.Errorf("bad adj")
	}
	return &gtab.GposValueRecord{XPlacement: funit.Int16(ii[0]), YPlacement: funit.Int16(ii[1]), XAdvance: funit.Int16(ii[2])}, nil
}

func lookupsFromSx(x vlib.Sx) (gtab.LookupList, error) {
	l, err := vlib.AsList(x)
	if err != nil {
		return nil, err
	}
	var out gtab.LookupList
	for _, lx := range l {
		parts, err := vlib.AsList(lx)
		if err != nil || len(parts) != 3 {
			return nil, fmt.Errorf("bad lookup")
		}
		ty, err := vlib.AsInt(parts[0])
		if err != nil {
			return nil, err
		}
		fl, err := vlib.AsInt(parts[1])
		if err != nil {
			return nil, err
		}
		subs, err := vlib.AsList(parts[2])
		if err != nil {
			return nil, err
		}
		lt := &gtab.LookupTable{Meta: &gtab.LookupMetaInfo{LookupType: uint16(ty), LookupFlags: gtab.LookupFlags(fl)}}
		for _, sx := range subs {
			sp, err := vlib.AsList(sx)
			if err != nil || len(sp) < 3 {
				return nil, fmt.Errorf("bad subtable")
			}
			kind, _ := vlib.AsAtom(sp[0])
			if kind == "p31" {
				cov, err := gidsFromSx(sp[1])
				if err != nil || len(sp) != 3 {
					return nil, fmt.Errorf("bad p31")
				}
				rl, err := vlib.AsList(sp[2])
				if err != nil {
					return nil, err
				}
				st := &gtab.Gpos3_1{Cov: covFromList(cov)}
				for _, r := range rl {
					p, err := vlib.AsList(r)
					if err != nil || len(p) != 2 {
						return nil, fmt.Errorf("bad record")
					}
					e, e1 := vlib.AsInts(p[0])
					x, e2 := vlib.AsInts(p[1])
					if e1 != nil || e2 != nil || len(e) != 2 || len(x) != 2 {
						return nil, fmt.Errorf("bad record")
					}
					st.Records = append(st.Records, gtab.EntryExitRecord{
						Entry: anchor.Table{X: funit.Int16(e[0]), Y: funit.Int16(e[1])},
						Exit:  anchor.Table{X: funit.Int16(x[0]), Y: funit.Int16(x[1])}})
				}
				lt.Subtables = append(lt.Subtables, st)
				continue
			}
			if kind == "p41" {
				if len(sp) != 5 {
					return nil, fmt.Errorf("bad p41")
				}
				mc, e1 := gidsFromSx(sp[1])
				bc, e2 := gidsFromSx(sp[3])
				ml, e3 := vlib.AsList(sp[2])
				bl, e4 := vlib.AsList(sp[4])
				if e1 != nil || e2 != nil || e3 != nil || e4 != nil {
					return nil, fmt.Errorf("bad p41")
				}
				st := &gtab.Gpos4_1{MarkCov: covFromList(mc), BaseCov: covFromList(bc)}
				for _, m := range ml {
					v, err := vlib.AsInts(m)
					if err != nil || len(v) != 3 {
						return nil, fmt.Errorf("bad mark record")
					}
					st.MarkArray = append(st.MarkArray, markarray.Record{Class: uint16(v[0]),
						Table: anchor.Table{X: funit.Int16(v[1]), Y: funit.Int16(v[2])}})
				}
				for _, row := range bl {
					rl, err := vlib.AsList(row)
					if err != nil {
						return nil, err
					}
					an := make([]anchor.Table, 0, len(rl))
					for _, a := range rl {
						v, err := vlib.AsInts(a)
						if err != nil || len(v) != 2 {
							return nil, fmt.Errorf("bad anchor")
						}
						an = append(an, anchor.Table{X: funit.Int16(v[0]), Y: funit.Int16(v[1])})
					}
					st.BaseArray = append(st.BaseArray, an)
				}
				lt.Subtables = append(lt.Subtables, st)
				continue
			}
			if kind == "h1" || kind == "h2" || kind == "h3" {
				st, err := chainFromSx(kind, sp)
				if err != nil {
					return nil, err
				}
				lt.Subtables = append(lt.Subtables, st)
				continue
			}
			if kind == "c1" || kind == "c2" || kind == "c3" {
				st, err := ctxFromSx(kind, sp)
				if err != nil {
					return nil, err
				}
				lt.Subtables = append(lt.Subtables, st)
				continue
			}
			if len(sp) != 3 {
				return nil, fmt.Errorf("bad subtable")
			}
			cov, err := gidsFromSx(sp[1])
			if err != nil {
				return nil, err
			}
			switch kind {
			case "g11":
				d, err := vlib.AsInt(sp[2])
				if err != nil {
					return nil, err
				}
				set := coverage.Set{}
				for _, g := range cov {
					set[g] = true
				}
				lt.Subtables = append(lt.Subtables, &gtab.Gsub1_1{Cov: set, Delta: glyph.ID(d)})
			case "g12":
				s, err := gidsFromSx(sp[2])
				if err != nil {
					return nil, err
				}
				lt.Subtables = append(lt.Subtables, &gtab.Gsub1_2{Cov: covFromList(cov), SubstituteGlyphIDs: s})
			case "g21", "g31":
				rl, err := vlib.AsList(sp[2])
				if err != nil {
					return nil, err
				}
				var repl [][]glyph.ID
				for _, r := range rl {
					g, err := gidsFromSx(r)
					if err != nil {
						return nil, err
					}
					repl = append(repl, g)
				}
				if kind == "g21" {
					lt.Subtables = append(lt.Subtables, &gtab.Gsub2_1{Cov: covFromList(cov), Repl: repl})
				} else {
					lt.Subtables = append(lt.Subtables, &gtab.Gsub3_1{Cov: covFromList(cov), Alternates: repl})
				}
			case "g41":
				rl, err := vlib.AsList(sp[2])
				if err != nil {
					return nil, err
				}
				var repl [][]gtab.Ligature
				for _, r := range rl {
					ls, err := vlib.AsList(r)
					if err != nil {
						return nil, err
					}
					var ligs []gtab.Ligature
					for _, lg := range ls {
						p, err := vlib.AsList(lg)
						if err != nil || len(p) != 2 {
							return nil, fmt.Errorf("bad ligature")
						}
						in, err := gidsFromSx(p[0])
						if err != nil {
							return nil, err
						}
						o, err := vlib.AsInt(p[1])
						if err != nil {
							return nil, err
						}
						ligs = append(ligs, gtab.Ligature{In: in, Out: glyph.ID(o)})
					}
					repl = append(repl, ligs)
				}
				lt.Subtables = append(lt.Subtables, &gtab.Gsub4_1{Cov: covFromList(cov), Repl: repl})
			case "p11":
				a, err := adjFromSx(sp[2])
				if err != nil {
					return nil, err
				}
				lt.Subtables = append(lt.Subtables, &gtab.Gpos1_1{Cov: covFromList(cov), Adjust: a})
			case "p12":
				al, err := vlib.AsList(sp[2])
				if err != nil {
					return nil, err
				}
				var adj []*gtab.GposValueRecord
				for _, ax := range al {
					a, err := adjFromSx(ax)
					if err != nil {
						return nil, err
					}
					adj = append(adj, a)
				}
				lt.Subtables = append(lt.Subtables, &gtab.Gpos1_2{Cov: covFromList(cov), Adjust: adj})
			default:
				return nil, fmt.Errorf("unknown subtable kind %q", kind)
			}
		}
		out = append(out, lt)
	}
	return out, nil
}

func actsFromSx(x vlib.Sx) ([]gtab.SeqLookup, error) {
	l, err := vlib.AsList(x)
	if err != nil {
		return nil, err
	}
	var out []gtab.SeqLookup
	for _, a := range l {
		p, err := vlib.AsInts(a)
		if err != nil || len(p) != 2 {
			return nil, fmt.Errorf("bad action")
		}
		out = append(out, gtab.SeqLookup{LookupListIndex: gtab.LookupIndex(p[0]), SequenceIndex: uint16(p[1])})
	}
	return out, nil
}

func setFromList(l []glyph.ID) coverage.Set {
	s := coverage.Set{}
	for _, g := range l {
		s[g] = true
	}
	return s
}

func classesFromSx(x vlib.Sx) (classdef.Table, error) {
	l, err := vlib.AsList(x)
	if err != nil {
		return nil, err
	}
	t := classdef.Table{}
	for i, c := range l {
		gg, err := gidsFromSx(c)
		if err != nil {
			return nil, err
		}
		for _, g := range gg {
			t[g] = uint16(i + 1)
		}
	}
	return t, nil
}

func u16sFromSx(x vlib.Sx) ([]uint16, error) {
	ii, err := vlib.AsInts(x)
	if err != nil {
		return nil, err
	}
	out := make([]uint16, len(ii))
	for i, v := range ii {
		out[i] = uint16(v)
	}
	return out, nil
}

func setsFromSx(x vlib.Sx) ([]coverage.Set, error) {
	l, err := vlib.AsList(x)
	if err != nil {
		return nil, err
	}
	var out []coverage.Set
	for _, s := range l {
		gg, err := gidsFromSx(s)
		if err != nil {
			return nil, err
		}
		out = append(out, setFromList(gg))
	}
	return out, nil
}

func chainFromSx(kind string, sp []vlib.Sx) (gtab.Subtable, error) {
	want := map[string]int{"h1": 3, "h2": 6, "h3": 5}[kind]
	if len(sp) != want {
		return nil, fmt.Errorf("bad chained context subtable")
	}
	if kind == "h3" {
		st := &gtab.ChainedSeqContext3{}
		var err error
		if st.Backtrack, err = setsFromSx(sp[1]); err != nil {
			return nil, err
		}
		if st.Input, err = setsFromSx(sp[2]); err != nil {
			return nil, err
		}
		if st.Lookahead, err = setsFromSx(sp[3]); err != nil {
			return nil, err
		}
		if st.Actions, err = actsFromSx(sp[4]); err != nil {
			return nil, err
		}
		return st, nil
	}
	cov, err := gidsFromSx(sp[1])
	if err != nil {
		return nil, err
	}
	rl, err := vlib.AsList(sp[len(sp)-1])
	if err != nil {
		return nil, err
	}
	if kind == "h1" {
		st := &gtab.ChainedSeqContext1{Cov: covFromList(cov)}
		for _, rs := range rl {
			rr, err := vlib.AsList(rs)
			if err != nil {
				return nil, err
			}
			var rules []*gtab.ChainedSeqRule
			for _, r := range rr {
				p, err := vlib.AsList(r)
				if err != nil || len(p) != 4 {
					return nil, fmt.Errorf("bad chain rule")
				}
				b, e1 := gidsFromSx(p[0])
				i, e2 := gidsFromSx(p[1])
				l, e3 := gidsFromSx(p[2])
				a, e4 := actsFromSx(p[3])
				if e1 != nil || e2 != nil || e3 != nil || e4 != nil {
					return nil, fmt.Errorf("bad chain rule")
				}
				rules = append(rules, &gtab.ChainedSeqRule{Backtrack: b, Input: i, Lookahead: l, Actions: a})
			}
			st.Rules = append(st.Rules, rules)
		}
		return st, nil
	}
	st := &gtab.ChainedSeqContext2{Cov: covFromList(cov)}
	if st.Backtrack, err = classesFromSx(sp[2]); err != nil {
		return nil, err
	}
	if st.Input, err = classesFromSx(sp[3]); err != nil {
		return nil, err
	}
	if st.Lookahead, err = classesFromSx(sp[4]); err != nil {
		return nil, err
	}
	for _, rs := range rl {
		rr, err := vlib.AsList(rs)
		if err != nil {
			return nil, err
		}
		var rules []*gtab.ChainedClassSeqRule
		for _, r := range rr {
			p, err := vlib.AsList(r)
			if err != nil || len(p) != 4 {
				return nil, fmt.Errorf("bad chain rule")
			}
			b, e1 := u16sFromSx(p[0])
			i, e2 := u16sFromSx(p[1])
			l, e3 := u16sFromSx(p[2])
			a, e4 := actsFromSx(p[3])
			if e1 != nil || e2 != nil || e3 != nil || e4 != nil {
				return nil, fmt.Errorf("bad chain rule")
			}
			rules = append(rules, &gtab.ChainedClassSeqRule{Backtrack: b, Input: i, Lookahead: l, Actions: a})
		}
		st.Rules = append(st.Rules, rules)
	}
	return st, nil
}

func ctxFromSx(kind string, sp []vlib.Sx) (gtab.Subtable, error) {
	switch kind {
	case "c1", "c2":
		if (kind == "c1" && len(sp) != 3) || (kind == "c2" && len(sp) != 4) {
			return nil, fmt.Errorf("bad context subtable")
		}
		cov, err := gidsFromSx(sp[1])
		if err != nil {
			return nil, err
		}
		rl, err := vlib.AsList(sp[len(sp)-1])
		if err != nil {
			return nil, err
		}
		if kind == "c1" {
			st := &gtab.SeqContext1{Cov: covFromList(cov)}
			for _, rs := range rl {
				rr, err := vlib.AsList(rs)
				if err != nil {
					return nil, err
				}
				var rules []*gtab.SeqRule
				for _, r := range rr {
					p, err := vlib.AsList(r)
					if err != nil || len(p) != 2 {
						return nil, fmt.Errorf("bad rule")
					}
					in, err := gidsFromSx(p[0])
					if err != nil {
						return nil, err
					}
					aa, err := actsFromSx(p[1])
					if err != nil {
						return nil, err
					}
					rules = append(rules, &gtab.SeqRule{Input: in, Actions: aa})
				}
				st.Rules = append(st.Rules, rules)
			}
			return st, nil
		}
		cls, err := classesFromSx(sp[2])
		if err != nil {
			return nil, err
		}
		st := &gtab.SeqContext2{Cov: covFromList(cov), Input: cls}
		for _, rs := range rl {
			rr, err := vlib.AsList(rs)
			if err != nil {
				return nil, err
			}
			var rules []*gtab.ClassSeqRule
			for _, r := range rr {
				p, err := vlib.AsList(r)
				if err != nil || len(p) != 2 {
					return nil, fmt.Errorf("bad rule")
				}
				ii, err := vlib.AsInts(p[0])
				if err != nil {
					return nil, err
				}
				in := make([]uint16, len(ii))
				for i, v := range ii {
					in[i] = uint16(v)
				}
				aa, err := actsFromSx(p[1])
				if err != nil {
					return nil, err
				}
				rules = append(rules, &gtab.ClassSeqRule{Input: in, Actions: aa})
			}
			st.Rules = append(st.Rules, rules)
		}
		return st, nil
	case "c3":
		if len(sp) != 3 {
			return nil, fmt.Errorf("bad context subtable")
		}
		sl, err := vlib.AsList(sp[1])
		if err != nil {
			return nil, err
		}
		st := &gtab.SeqContext3{}
		for _, s := range sl {
			gg, err := gidsFromSx(s)
			if err != nil {
				return nil, err
			}
			st.Input = append(st.Input, setFromList(gg))
		}
		st.Actions, err = actsFromSx(sp[2])
		if err != nil {
			return nil, err
		}
		return st, nil
	}
	return nil, fmt.Errorf("unknown context subtable %q", kind)
}

// ---- canonical text of arbitrary lookup structures (oracle side) ----

// canon prints a Go value structurally: maps sorted by key, nil and empty
// slices/maps alike, pointers followed, interfaces with their dynamic type.
// It is the equality the round-trip oracle uses for every lookup type,
// modelled or not.
func canon(v any) string {
	var b strings.Builder
	canonV(&b, reflect.ValueOf(v))
	return b.String()
}

func canonV(b *strings.Builder, v reflect.Value) {
	if !v.IsValid() {
		b.WriteString("nil")
		return
	}
	switch v.Kind() {
	case reflect.Ptr:
		if v.IsNil() {
			b.WriteString("nil")
			return
		}
		b.WriteString("&")
		canonV(b, v.Elem())
	case reflect.Interface:
		if v.IsNil() {
			b.WriteString("nil")
			return
		}
		b.WriteString(v.Elem().Type().String())
		b.WriteString(":")
		canonV(b, v.Elem())
	case reflect.Struct:
		b.WriteString("{")
		for i := 0; i < v.NumField(); i++ {
			if i > 0 {
				b.WriteString(" ")
			}
			b.WriteString(v.Type().Field(i).Name)
			b.WriteString("=")
			canonV(b, v.Field(i))
		}
		b.WriteString("}")
	case reflect.Slice, reflect.Array:
		b.WriteString("[")
		for i := 0; i < v.Len(); i++ {
			if i > 0 {
				b.WriteString(" ")
			}
			canonV(b, v.Index(i))
		}
		b.WriteString("]")
	case reflect.Map:
		type kv struct{ k, v string }
		var kvs []kv
		it := v.MapRange()
		for it.Next() {
			var kb, vb strings.Builder
			canonV(&kb, it.Key())
			canonV(&vb, it.Value())
			kvs = append(kvs, kv{kb.String(), vb.String()})
		}
		sort.Slice(kvs, func(i, j int) bool {
			if len(kvs[i].k) != len(kvs[j].k) {
				return len(kvs[i].k) < len(kvs[j].k)
			}
			return kvs[i].k < kvs[j].k
		})
		b.WriteString("map[")
		for i, x := range kvs {
			if i > 0 {
				b.WriteString(" ")
			}
			b.WriteString(x.k + ":" + x.v)
		}
		b.WriteString("]")
	case reflect.Int, reflect.Int8, reflect.Int16, reflect.Int32, reflect.Int64:
		fmt.Fprintf(b, "%d", v.Int())
	case reflect.Uint, reflect.Uint8, reflect.Uint16, reflect.Uint32, reflect.Uint64:
		fmt.Fprintf(b, "%d", v.Uint())
	case reflect.Bool:
		fmt.Fprintf(b, "%v", v.Bool())
	case reflect.String:
		fmt.Fprintf(b, "%q", v.String())
	default:
		fmt.Fprintf(b, "?%s", v.Kind())
	}
}
