package c19

import (
	"fmt"
	"sort"
	"strings"

	"seehuhn.de/go/postscript/funit"
	"seehuhn.de/go/sfnt/glyph"
	"seehuhn.de/go/sfnt/opentype/anchor"
	"seehuhn.de/go/sfnt/opentype/classdef"
	"seehuhn.de/go/sfnt/opentype/coverage"
	"seehuhn.de/go/sfnt/opentype/gtab"
	"seehuhn.de/go/sfnt/opentype/markarray"
	"seehuhn.de/go/sfnt/opentype/gtab/builder"
	"seehuhn.de/go/sfnt/verifharness/vlib"
)

// ---------------------------------------------------------------- fonts

var asciiNames = []string{
	"A", "B", "C", "D", "E", "F", "G", "H", "I", "J", "K", "L", "M", "N", "O", "P", "Q",
	"a", "b", "c", "d", "e", "f", "g", "h", "i", "uni0041", "f_i", "a.sc", "one", "two", "x", "y", "dx",
	"_", "to", "mark", "base", "first", "second", "klass", "GSUB1", "GPOS1", "marks", "ligs", ".null",
	"A1", "A2", "_a", "..", "f_f_i", "zero.alt",
}

var uniNames = []string{"é", "Ω", "中", "a٣", "ß.alt", "Ж", "ñ_x", "α", "β", "γ"}

var fontKinds = []string{"named", "unnamed", "named-nocmap", "unnamed-nocmap", "mixed", "unicode", "keywords"}

func genFont(r *vlib.Rand, kind string) *fontSpec {
	n := r.Range(4, 40)
	if kind == "big" {
		n = 65535
	}
	fs := &fontSpec{names: make([]string, n), cm: map[rune]glyph.ID{}}
	pool := append([]string(nil), asciiNames...)
	if kind == "unicode" {
		pool = append(append([]string(nil), uniNames...), pool...)
	}
	if kind == "keywords" {
		// single letters last, keyword-like names first
		sort.SliceStable(pool, func(i, j int) bool { return len(pool[i]) > len(pool[j]) })
	} else {
		// random order
		for i := len(pool) - 1; i > 0; i-- {
			j := r.Intn(i + 1)
			pool[i], pool[j] = pool[j], pool[i]
		}
	}
	named := kind == "named" || kind == "named-nocmap" || kind == "unicode" || kind == "keywords" || kind == "mixed"
	if named {
		fs.names[0] = ".notdef"
		for i := 1; i < n; i++ {
			if kind == "mixed" && r.Chance(1, 2) {
				continue
			}
			if i-1 < len(pool) {
				fs.names[i] = pool[i-1]
			} else if kind != "mixed" {
				fs.names[i] = fmt.Sprintf("g%d", i)
			}
		}
	}
	if kind == "named-nocmap" || kind == "unnamed-nocmap" {
		return fs
	}
	if kind == "big" {
		fs.cm['a'] = 1
		fs.cm['b'] = 65534
		return fs
	}
	// cmap: runes -> glyphs
	runes := []rune("ABCDEFGHIJabcdefghij0123456789\"\\ -,>[]|#'")
	if kind == "unicode" || r.Chance(1, 4) {
		runes = append(runes, 'é', 'Ω', '中', '→', 0x1F600, 0xA0, 0xAD, 0x200B, 7, 9, 10, 13, 0x7F, 0xFFFD, 0x85)
	}
	k := r.Range(1, n+4)
	for i := 0; i < k; i++ {
		c := vlib.Pick(r, runes)
		g := glyph.ID(r.Range(1, n-1))
		// often make a named glyph "A" be mapped from 'A'
		if r.Chance(1, 2) {
			for j, nm := range fs.names {
				if nm == string(c) {
					g = glyph.ID(j)
				}
			}
		}
		fs.cm[c] = g
	}
	return fs
}

// ---------------------------------------------------------------- lookup lists (normal forms)

func subset(r *vlib.Rand, n, lo int, runs bool) []glyph.ID {
	// strictly ascending glyph ids in [lo, n)
	var out []glyph.ID
	if n <= lo {
		return out
	}
	if runs {
		g := lo + r.Intn(n-lo)
		for g < n && len(out) < 12 {
			l := r.Range(1, 5)
			for i := 0; i < l && g < n; i++ {
				out = append(out, glyph.ID(g))
				g++
			}
			g += r.Range(1, 3)
		}
		return out
	}
	p := r.Range(1, 4)
	for g := lo; g < n; g++ {
		if r.Chance(1, p) && len(out) < 12 {
			out = append(out, glyph.ID(g))
		}
	}
	if len(out) == 0 {
		out = append(out, glyph.ID(lo+r.Intn(n-lo)))
	}
	return out
}

func randGids(r *vlib.Rand, n, lo, hi int) []glyph.ID {
	k := r.Range(lo, hi)
	out := make([]glyph.ID, k)
	for i := range out {
		out[i] = glyph.ID(r.Intn(n))
	}
	return out
}

var int16s = []int{0, 1, -1, 10, -10, 100, -250, 32767, -32768, 1000}

func genAdj(r *vlib.Rand) *gtab.GposValueRecord {
	if r.Chance(1, 4) {
		return nil
	}
	for {
		a := &gtab.GposValueRecord{}
		if r.Bool() {
			a.XPlacement = funit.Int16(vlib.Pick(r, int16s))
		}
		if r.Bool() {
			a.YPlacement = funit.Int16(vlib.Pick(r, int16s))
		}
		if r.Bool() {
			a.XAdvance = funit.Int16(vlib.Pick(r, int16s))
		}
		if a.XPlacement != 0 || a.YPlacement != 0 || a.XAdvance != 0 {
			return a
		}
	}
}

var flagSets = []gtab.LookupFlags{0, 2, 4, 8, 6, 10, 12, 14}

func constDelta(cov, subst []glyph.ID) bool {
	for i := range cov {
		if subst[i]-cov[i] != subst[0]-cov[0] {
			return false
		}
	}
	return true
}

// genGsubLookup makes one GSUB lookup of type ty in the parser's normal form.
func genGsubLookup(r *vlib.Rand, n int, ty int) *gtab.LookupTable {
	l := &gtab.LookupTable{Meta: &gtab.LookupMetaInfo{LookupType: uint16(ty), LookupFlags: vlib.Pick(r, flagSets)}}
	cov := subset(r, n, 0, r.Bool())
	switch ty {
	case 1:
		if r.Bool() {
			lo, hi := int(cov[0]), int(cov[len(cov)-1])
			d := r.Range(-lo, n-1-hi)
			set := coverage.Set{}
			for _, g := range cov {
				set[g] = true
			}
			l.Subtables = []gtab.Subtable{&gtab.Gsub1_1{Cov: set, Delta: glyph.ID(d)}}
		} else {
			for tries := 0; ; tries++ {
				if len(cov) < 2 {
					cov = subset(r, n, 0, true)
					if len(cov) < 2 {
						cov = []glyph.ID{0, glyph.ID(n - 1)}
					}
				}
				subst := make([]glyph.ID, len(cov))
				// piecewise constant differences, so that ranges occur inside
				d := 0
				for i, g := range cov {
					if i == 0 || r.Chance(1, 3) {
						d = r.Range(-int(g), n-1-int(g))
					}
					t := int(g) + d
					if t < 0 || t >= n {
						t = r.Intn(n)
					}
					subst[i] = glyph.ID(t)
				}
				if !constDelta(cov, subst) {
					l.Subtables = []gtab.Subtable{&gtab.Gsub1_2{Cov: covFromList(cov), SubstituteGlyphIDs: subst}}
					break
				}
			}
		}
	case 2:
		repl := make([][]glyph.ID, len(cov))
		for i := range repl {
			repl[i] = randGids(r, n, 1, 4)
		}
		l.Subtables = []gtab.Subtable{&gtab.Gsub2_1{Cov: covFromList(cov), Repl: repl}}
	case 3:
		alts := make([][]glyph.ID, len(cov))
		for i := range alts {
			if r.Chance(1, 8) {
				alts[i] = nil
			} else {
				alts[i] = subset(r, n, 0, r.Bool())
			}
		}
		l.Subtables = []gtab.Subtable{&gtab.Gsub3_1{Cov: covFromList(cov), Alternates: alts}}
	case 4:
		repl := make([][]gtab.Ligature, len(cov))
		for i := range repl {
			k := r.Range(1, 3)
			for j := 0; j < k; j++ {
				repl[i] = append(repl[i], gtab.Ligature{In: randGids(r, n, 0, 3), Out: glyph.ID(r.Intn(n))})
			}
		}
		if r.Chance(1, 3) {
			// three consecutive single-glyph "ligatures" with a constant
			// difference (the shape GSUB1 writes as a range)
			for i := range repl {
				repl[i] = []gtab.Ligature{{Out: glyph.ID((int(cov[i]) + 1) % n)}}
			}
		}
		l.Subtables = []gtab.Subtable{&gtab.Gsub4_1{Cov: covFromList(cov), Repl: repl}}
	}
	return l
}

func genActs(r *vlib.Rand) []gtab.SeqLookup {
	var out []gtab.SeqLookup
	for k := r.Range(0, 3); k > 0; k-- {
		out = append(out, gtab.SeqLookup{LookupListIndex: gtab.LookupIndex(vlib.Pick(r, []int{0, 1, 2, 7, 65535})), SequenceIndex: uint16(vlib.Pick(r, []int{0, 1, 2, 3, 65535}))})
	}
	return out
}

// genClasses makes k non-empty, pairwise disjoint, ascending glyph lists
func genClasses(r *vlib.Rand, n, k int) [][]glyph.ID {
	perm := make([]int, n)
	for i := range perm {
		perm[i] = i
	}
	for i := n - 1; i > 0; i-- {
		j := r.Intn(i + 1)
		perm[i], perm[j] = perm[j], perm[i]
	}
	var out [][]glyph.ID
	pos := 0
	for i := 0; i < k && pos < n; i++ {
		m := r.Range(1, 3)
		if pos+m > n {
			m = n - pos
		}
		var c []glyph.ID
		for _, x := range perm[pos : pos+m] {
			c = append(c, glyph.ID(x))
		}
		sort.Slice(c, func(a, b int) bool { return c[a] < c[b] })
		out = append(out, c)
		pos += m
	}
	return out
}

func classTable(cc [][]glyph.ID) classdef.Table {
	t := classdef.Table{}
	for i, c := range cc {
		for _, g := range c {
			t[g] = uint16(i + 1)
		}
	}
	return t
}

func setOf(l []glyph.ID) coverage.Set {
	s := coverage.Set{}
	for _, g := range l {
		s[g] = true
	}
	return s
}

// genCtxLookup makes a GSUB5 lookup in the parser's normal form
func genCtxLookup(r *vlib.Rand, n int) *gtab.LookupTable {
	l := &gtab.LookupTable{Meta: &gtab.LookupMetaInfo{LookupType: 5, LookupFlags: vlib.Pick(r, flagSets)}}
	for k := r.Range(1, 3); k > 0; k-- {
		switch r.Intn(3) {
		case 0:
			cov := subset(r, n, 0, r.Bool())
			st := &gtab.SeqContext1{Cov: covFromList(cov)}
			for range cov {
				var rules []*gtab.SeqRule
				for j := r.Range(1, 3); j > 0; j-- {
					rules = append(rules, &gtab.SeqRule{Input: randGids(r, n, 0, 3), Actions: genActs(r)})
				}
				st.Rules = append(st.Rules, rules)
			}
			l.Subtables = append(l.Subtables, st)
		case 1:
			var cov []glyph.ID
			if !r.Chance(1, 8) {
				cov = subset(r, n, 0, r.Bool())
			}
			cc := genClasses(r, n, r.Range(0, 3))
			st := &gtab.SeqContext2{Cov: covFromList(cov), Input: classTable(cc)}
			st.Rules = make([][]*gtab.ClassSeqRule, len(cc)+1)
			total := 0
			for total == 0 {
				for c := range st.Rules {
					st.Rules[c] = nil
					for j := r.Range(0, 2); j > 0; j-- {
						in := make([]uint16, r.Range(0, 3))
						for x := range in {
							in[x] = uint16(r.Intn(len(cc) + 1))
						}
						st.Rules[c] = append(st.Rules[c], &gtab.ClassSeqRule{Input: in, Actions: genActs(r)})
						total++
					}
				}
			}
			l.Subtables = append(l.Subtables, st)
		case 2:
			st := &gtab.SeqContext3{Actions: genActs(r)}
			for j := r.Range(1, 3); j > 0; j-- {
				var set []glyph.ID
				if !r.Chance(1, 8) {
					set = subset(r, n, 0, r.Bool())
				}
				st.Input = append(st.Input, setOf(set))
			}
			l.Subtables = append(l.Subtables, st)
		}
	}
	return l
}

// genChainLookup makes a GSUB6 lookup in the parser's normal form
func genChainLookup(r *vlib.Rand, n int) *gtab.LookupTable {
	l := &gtab.LookupTable{Meta: &gtab.LookupMetaInfo{LookupType: 6, LookupFlags: vlib.Pick(r, flagSets)}}
	sets := func(lo, hi int) []coverage.Set {
		var out []coverage.Set
		for j := r.Range(lo, hi); j > 0; j-- {
			var set []glyph.ID
			if !r.Chance(1, 8) {
				set = subset(r, n, 0, r.Bool())
			}
			out = append(out, setOf(set))
		}
		return out
	}
	for k := r.Range(1, 3); k > 0; k-- {
		switch r.Intn(3) {
		case 0:
			cov := subset(r, n, 0, r.Bool())
			st := &gtab.ChainedSeqContext1{Cov: covFromList(cov)}
			for range cov {
				var rules []*gtab.ChainedSeqRule
				for j := r.Range(1, 3); j > 0; j-- {
					rules = append(rules, &gtab.ChainedSeqRule{Backtrack: randGids(r, n, 0, 3), Input: randGids(r, n, 0, 3),
						Lookahead: randGids(r, n, 0, 3), Actions: genActs(r)})
				}
				st.Rules = append(st.Rules, rules)
			}
			l.Subtables = append(l.Subtables, st)
		case 1:
			var cov []glyph.ID
			if !r.Chance(1, 8) {
				cov = subset(r, n, 0, r.Bool())
			}
			bc := genClasses(r, n, r.Range(0, 2))
			ic := genClasses(r, n, r.Range(0, 3))
			lc := genClasses(r, n, r.Range(0, 2))
			st := &gtab.ChainedSeqContext2{Cov: covFromList(cov), Backtrack: classTable(bc), Input: classTable(ic), Lookahead: classTable(lc)}
			st.Rules = make([][]*gtab.ChainedClassSeqRule, len(ic)+1)
			cl := func(k, lo, hi int) []uint16 {
				out := make([]uint16, r.Range(lo, hi))
				for x := range out {
					out[x] = uint16(r.Intn(k + 1))
				}
				return out
			}
			total := 0
			for total == 0 {
				for c := range st.Rules {
					st.Rules[c] = nil
					for j := r.Range(0, 2); j > 0; j-- {
						st.Rules[c] = append(st.Rules[c], &gtab.ChainedClassSeqRule{Backtrack: cl(len(bc), 0, 2), Input: cl(len(ic), 0, 2),
							Lookahead: cl(len(lc), 0, 2), Actions: genActs(r)})
						total++
					}
				}
			}
			l.Subtables = append(l.Subtables, st)
		case 2:
			l.Subtables = append(l.Subtables, &gtab.ChainedSeqContext3{Backtrack: sets(0, 2), Input: sets(1, 3), Lookahead: sets(0, 2), Actions: genActs(r)})
		}
	}
	return l
}

func genGpos3Lookup(r *vlib.Rand, n int) *gtab.LookupTable {
	l := &gtab.LookupTable{Meta: &gtab.LookupMetaInfo{LookupType: 3, LookupFlags: vlib.Pick(r, flagSets)}}
	an := func() anchor.Table {
		return anchor.Table{X: funit.Int16(vlib.Pick(r, int16s)), Y: funit.Int16(vlib.Pick(r, int16s))}
	}
	for k := r.Range(1, 3); k > 0; k-- {
		cov := subset(r, n, 0, r.Bool())
		st := &gtab.Gpos3_1{Cov: covFromList(cov)}
		for range cov {
			st.Records = append(st.Records, gtab.EntryExitRecord{Entry: an(), Exit: an()})
		}
		l.Subtables = append(l.Subtables, st)
	}
	return l
}

func genGpos4Lookup(r *vlib.Rand, n int) *gtab.LookupTable {
	l := &gtab.LookupTable{Meta: &gtab.LookupMetaInfo{LookupType: 4, LookupFlags: vlib.Pick(r, flagSets)}}
	an := func() anchor.Table {
		return anchor.Table{X: funit.Int16(vlib.Pick(r, int16s)), Y: funit.Int16(vlib.Pick(r, int16s))}
	}
	for k := r.Range(1, 3); k > 0; k-- {
		mc := subset(r, n, 0, r.Bool())
		if len(mc) == 0 {
			mc = []glyph.ID{glyph.ID(r.Intn(n))}
		}
		nc := r.Range(1, min(3, len(mc)))
		st := &gtab.Gpos4_1{MarkCov: covFromList(mc)}
		// every class 0..nc-1 is used at least once
		cls := make([]int, len(mc))
		for i := range cls {
			if i < nc {
				cls[i] = i
			} else {
				cls[i] = r.Intn(nc)
			}
		}
		for i := len(cls) - 1; i > 0; i-- {
			j := r.Intn(i + 1)
			cls[i], cls[j] = cls[j], cls[i]
		}
		for i := range mc {
			st.MarkArray = append(st.MarkArray, markarray.Record{Class: uint16(cls[i]), Table: an()})
		}
		var bc []glyph.ID
		if !r.Chance(1, 6) {
			bc = subset(r, n, 0, r.Bool())
		}
		st.BaseCov = covFromList(bc)
		for range bc {
			row := make([]anchor.Table, nc)
			for j := range row {
				row[j] = an()
			}
			st.BaseArray = append(st.BaseArray, row)
		}
		l.Subtables = append(l.Subtables, st)
	}
	return l
}

func genGpos1Lookup(r *vlib.Rand, n int) *gtab.LookupTable {
	l := &gtab.LookupTable{Meta: &gtab.LookupMetaInfo{LookupType: 1, LookupFlags: vlib.Pick(r, flagSets)}}
	k := r.Range(1, 3)
	for i := 0; i < k; i++ {
		if r.Bool() {
			var cov []glyph.ID
			if !r.Chance(1, 8) {
				cov = subset(r, n, 0, r.Bool())
			}
			l.Subtables = append(l.Subtables, &gtab.Gpos1_1{Cov: covFromList(cov), Adjust: genAdj(r)})
		} else {
			cov := subset(r, n, 0, r.Bool())
			adj := make([]*gtab.GposValueRecord, len(cov))
			for j := range adj {
				adj[j] = genAdj(r)
			}
			l.Subtables = append(l.Subtables, &gtab.Gpos1_2{Cov: covFromList(cov), Adjust: adj})
		}
	}
	return l
}

// ---------------------------------------------------------------- grammar-derived texts

// textGen writes random lookup descriptions.  In "valid" mode it takes care
// to respect the semantic side conditions of the language (equal lengths,
// no duplicate sources, disjoint non-empty classes), so that most texts are
// accepted; in sloppy mode it only follows the token grammar.
type textGen struct {
	r     *vlib.Rand
	fs    *fontSpec
	b     strings.Builder
	valid bool
	used  map[int]bool
}

func (g *textGen) sp() {
	switch g.r.Intn(10) {
	case 0:
		g.b.WriteString("  ")
	case 1:
		g.b.WriteString("\t")
	default:
		g.b.WriteString(" ")
	}
}

// w writes a word-like token, p a punctuation token (which needs no space)
func (g *textGen) w(s string) { g.b.WriteString(s); g.sp() }
func (g *textGen) p(s string) {
	g.b.WriteString(s)
	if !g.r.Chance(1, 4) {
		g.sp()
	}
}

func (g *textGen) nl() {
	if g.r.Chance(1, 6) {
		g.b.WriteString(" # comment -> [x]")
	}
	g.b.WriteString("\n")
	if g.r.Bool() {
		g.b.WriteString("\t")
	}
}

func quoteRune(c rune) string {
	switch c {
	case '"':
		return `\"`
	case '\\':
		return `\\`
	case '\n':
		return `\n`
	case '\r':
		return `\r`
	case '\t':
		return `\t`
	}
	return string(c)
}

func (g *textGen) runesOf(gid int) []rune {
	var rr []rune
	for c, x := range g.fs.cm {
		if int(x) == gid && c != 0 && c != '\n' {
			rr = append(rr, c)
		}
	}
	sort.Slice(rr, func(i, j int) bool { return rr[i] < rr[j] })
	return rr
}

// ref writes a reference to glyph gid in a random admissible form
func (g *textGen) ref(gid int) {
	forms := []int{0}
	if g.fs.names[gid] != "" {
		forms = append(forms, 1, 1)
	}
	rr := g.runesOf(gid)
	if len(rr) > 0 && gid != 0 {
		forms = append(forms, 2, 2)
	}
	switch vlib.Pick(g.r, forms) {
	case 0:
		g.w(fmt.Sprintf("%d", gid))
	case 1:
		g.w(g.fs.names[gid])
	case 2:
		g.p(`"` + quoteRune(vlib.Pick(g.r, rr)) + `"`)
	}
}

func (g *textGen) pick() int { return g.r.Intn(g.fs.numGlyphs()) }

// fresh picks a glyph not yet used as a source in this lookup
func (g *textGen) fresh() int {
	n := g.fs.numGlyphs()
	for i := 0; i < 50; i++ {
		x := g.r.Intn(n)
		if !g.used[x] || !g.valid {
			g.used[x] = true
			return x
		}
	}
	return g.r.Intn(n)
}

func (g *textGen) glyph() { g.ref(g.pick()) }

// glyphList writes k glyph references (lo <= k <= hi); with ranges the
// number of glyphs denoted may be larger
func (g *textGen) glyphList(lo, hi int, ranges bool) {
	k := g.r.Range(lo, hi)
	if k >= 2 && g.r.Chance(1, 5) {
		// a quoted string of several mapped characters
		var rr []rune
		for c, x := range g.fs.cm {
			if c != 0 && c != '\n' && x != 0 {
				rr = append(rr, c)
			}
		}
		sort.Slice(rr, func(i, j int) bool { return rr[i] < rr[j] })
		if len(rr) > 0 {
			s := `"`
			for i := 0; i < k; i++ {
				s += quoteRune(vlib.Pick(g.r, rr))
			}
			g.p(s + `"`)
			return
		}
	}
	for i := 0; i < k; i++ {
		g.glyph()
		if ranges && g.r.Chance(1, 6) {
			g.w("-")
			g.glyph()
		}
	}
}

func (g *textGen) glyphSet(lo int) { g.p("["); g.glyphList(lo, 4, true); g.p("]") }

// disjointSets writes k non-empty, pairwise disjoint glyph sets through f
func (g *textGen) disjoint(k int) [][]int {
	n := g.fs.numGlyphs()
	perm := make([]int, n)
	for i := range perm {
		perm[i] = i
	}
	for i := n - 1; i > 0; i-- {
		j := g.r.Intn(i + 1)
		perm[i], perm[j] = perm[j], perm[i]
	}
	var out [][]int
	pos := 0
	for i := 0; i < k && pos < n; i++ {
		m := g.r.Range(1, 3)
		if pos+m > n {
			m = n - pos
		}
		out = append(out, perm[pos:pos+m])
		pos += m
	}
	return out
}

func (g *textGen) refs(l []int) {
	for _, x := range l {
		g.ref(x)
	}
}

func (g *textGen) flags() {
	for _, f := range []string{"marks", "ligs", "base"} {
		if g.r.Chance(1, 4) {
			g.w("-" + f)
		}
	}
	if g.r.Chance(1, 40) {
		g.w("-rtl")
	}
}

func (g *textGen) intv() string { return fmt.Sprintf("%+d", vlib.Pick(g.r, int16s)) }

func (g *textGen) valueRecord() {
	if g.r.Chance(1, 5) {
		g.w("_")
		return
	}
	k := g.r.Range(1, 3)
	for i := 0; i < k; i++ {
		g.w(vlib.Pick(g.r, []string{"x", "y", "dx"}) + g.intv())
	}
}

func (g *textGen) nested() {
	k := g.r.Range(0, 3)
	for i := 0; i < k; i++ {
		g.w(fmt.Sprintf("%d@%d", g.r.Intn(5), g.r.Intn(4)))
	}
}

func (g *textGen) sepComma(i int) {
	if i > 0 {
		g.p(",")
		if g.r.Chance(1, 5) {
			g.nl()
		}
	}
}

func (g *textGen) comma(i int) {
	if i > 0 {
		g.p(",")
	}
}

func (g *textGen) classNames(lo, hi int, names []string) {
	k := g.r.Range(lo, hi)
	for i := 0; i < k; i++ {
		if g.r.Chance(1, 4) || len(names) == 0 {
			g.w("::")
		} else {
			g.w(":" + vlib.Pick(g.r, names) + ":")
		}
	}
}

func (g *textGen) classDefs(kw string, lo, hi int) []string {
	var names []string
	sets := g.disjoint(g.r.Range(lo, hi))
	for _, set := range sets {
		nm := fmt.Sprintf("c%d", len(names)+1)
		if g.r.Chance(1, 4) {
			nm = vlib.Pick(g.r, []string{"alpha", "x", "class", "A"}) + nm // class names, not glyph names
		}
		names = append(names, nm)
		g.w(kw + " :" + nm + ":")
		if g.r.Bool() {
			g.p("=")
		}
		g.p("[")
		if g.valid {
			g.refs(set)
		} else {
			g.glyphList(0, 3, true)
		}
		g.p("]")
		g.nl()
	}
	return names
}

func (g *textGen) lookup(ty string) {
	g.used = map[int]bool{}
	g.b.WriteString(ty)
	if !g.r.Chance(1, 8) {
		g.b.WriteString(":")
	}
	g.sp()
	if g.r.Chance(1, 8) {
		g.nl()
	}
	g.flags()
	r := g.r
	n := g.fs.numGlyphs()
	switch ty {
	case "GSUB1":
		k := r.Range(1, 4)
		for i := 0; i < k; i++ {
			g.sepComma(i)
			if r.Chance(1, 4) && n > 6 {
				// a range on both sides, equal lengths
				l := r.Range(1, 3)
				a, b := r.Intn(n-l), r.Intn(n-l)
				ok := true
				for x := a; x <= a+l; x++ {
					ok = ok && !g.used[x]
				}
				if ok || !g.valid {
					for x := a; x <= a+l; x++ {
						g.used[x] = true
					}
					g.ref(a)
					g.w("-")
					g.ref(a + l)
					g.p("->")
					if r.Bool() {
						g.ref(b)
						g.w("-")
						g.ref(b + l)
					} else {
						g.ref(b + l)
						g.w("-")
						g.ref(b)
					}
					continue
				}
			}
			m := r.Range(1, 2)
			for j := 0; j < m; j++ {
				g.ref(g.fresh())
			}
			g.p("->")
			g.glyphList(m, m, !g.valid)
		}
	case "GSUB2":
		k := r.Range(1, 3)
		for i := 0; i < k; i++ {
			g.sepComma(i)
			g.ref(g.fresh())
			g.p("->")
			g.glyphList(1, 4, true)
		}
	case "GSUB3":
		k := r.Range(1, 3)
		for i := 0; i < k; i++ {
			g.sepComma(i)
			g.ref(g.fresh())
			g.p("->")
			g.glyphSet(0)
		}
	case "GSUB4":
		k := r.Range(1, 4)
		for i := 0; i < k; i++ {
			g.sepComma(i)
			g.glyphList(1, 4, true)
			g.p("->")
			g.glyph()
		}
	case "GSUB5":
		ns := r.Range(1, 3)
		for s := 0; s < ns; s++ {
			if s > 0 {
				g.p("||")
				g.nl()
			}
			switch r.Intn(3) {
			case 0:
				k := r.Range(1, 3)
				for i := 0; i < k; i++ {
					g.sepComma(i)
					g.glyphList(1, 3, true)
					g.p("->")
					g.nested()
				}
			case 1:
				names := g.classDefs("class", 0, 2)
				g.p("/")
				g.glyphList(1, 3, true)
				g.p("/")
				k := r.Range(1, 3)
				for i := 0; i < k; i++ {
					g.sepComma(i)
					g.classNames(1, 3, names)
					g.p("->")
					g.nested()
				}
			case 2:
				for i := r.Range(1, 3); i > 0; i-- {
					g.glyphSet(0)
				}
				g.p("->")
				g.nested()
			}
		}
	case "GSUB6":
		ns := r.Range(1, 3)
		for s := 0; s < ns; s++ {
			if s > 0 {
				g.p("||")
				g.nl()
			}
			switch r.Intn(3) {
			case 0:
				k := r.Range(1, 3)
				for i := 0; i < k; i++ {
					g.sepComma(i)
					g.glyphList(0, 2, true)
					g.p("|")
					g.glyphList(1, 3, true)
					g.p("|")
					g.glyphList(0, 2, true)
					g.p("->")
					g.nested()
				}
			case 1:
				bt := g.classDefs("backtrackclass", 0, 2)
				in := g.classDefs("inputclass", 0, 2)
				la := g.classDefs("lookaheadclass", 0, 2)
				g.p("/")
				g.glyphList(1, 3, true)
				g.p("/")
				k := r.Range(1, 2)
				for i := 0; i < k; i++ {
					g.sepComma(i)
					g.classNames(0, 2, bt)
					g.p("|")
					g.classNames(1, 3, in)
					g.p("|")
					g.classNames(0, 2, la)
					g.p("->")
					g.nested()
				}
			case 2:
				for i := r.Range(0, 2); i > 0; i-- {
					g.glyphSet(0)
				}
				g.p("|")
				for i := r.Range(1, 3); i > 0; i-- {
					g.glyphSet(0)
				}
				g.p("|")
				for i := r.Range(0, 2); i > 0; i-- {
					g.glyphSet(0)
				}
				g.p("->")
				g.nested()
			}
		}
	case "GPOS1":
		ns := r.Range(1, 3)
		for s := 0; s < ns; s++ {
			if s > 0 {
				g.p("||")
				g.nl()
			}
			if r.Bool() {
				g.glyphSet(0)
				g.p("->")
				g.valueRecord()
			} else {
				k := r.Range(1, 3)
				for i := 0; i < k; i++ {
					g.sepComma(i)
					g.glyph()
					g.p("->")
					g.valueRecord()
				}
			}
		}
	case "GPOS2":
		ns := r.Range(1, 2)
		for s := 0; s < ns; s++ {
			if s > 0 {
				g.p("||")
				g.nl()
			}
			if r.Chance(2, 3) {
				k := r.Range(1, 3)
				for i := 0; i < k; i++ {
					g.sepComma(i)
					g.glyphList(2, 2, !g.valid)
					g.p("->")
					g.valueRecord()
					if r.Chance(1, 3) {
						g.p("&")
						g.valueRecord()
					}
				}
			} else {
				g.nl()
				g.p("/")
				g.glyphList(1, 4, true)
				g.p("/")
				g.nl()
				c1 := g.disjoint(r.Range(0, 2))
				g.w("first")
				for i, set := range c1 {
					g.comma(i)
					g.refs(set)
				}
				g.p(";")
				g.nl()
				c2 := g.disjoint(r.Range(0, 2))
				g.w("second")
				for i, set := range c2 {
					g.comma(i)
					g.refs(set)
				}
				g.p(";")
				for i := 0; i <= len(c1); i++ {
					g.nl()
					for j := 0; j <= len(c2); j++ {
						g.comma(j)
						g.valueRecord()
						if r.Chance(1, 4) {
							g.p("&")
							g.valueRecord()
						}
					}
					g.p(";")
				}
			}
		}
	case "GPOS3":
		ns := r.Range(1, 2)
		for s := 0; s < ns; s++ {
			if s > 0 {
				g.p("||")
				g.nl()
			}
			k := r.Range(1, 3)
			for i := 0; i < k; i++ {
				if i > 0 {
					g.p(";")
				}
				g.ref(g.fresh())
				g.w(fmt.Sprintf(": %d,%d to %d,%d", vlib.Pick(r, int16s), vlib.Pick(r, int16s), vlib.Pick(r, int16s), vlib.Pick(r, int16s)))
			}
		}
	case "GPOS4":
		nsub := r.Range(1, 2)
		for s := 0; s < nsub; s++ {
			if s > 0 {
				g.p("||")
			}
			nc := r.Range(1, 2)
			gid := 0
			for i := r.Range(nc, nc+1); i > 0 && gid < n-1; i-- {
				gid += r.Range(1, 2)
				if gid >= n {
					break
				}
				g.nl()
				g.w("mark")
				g.ref(gid)
				g.w(fmt.Sprintf(": %d@%d,%d;", (i+1)%nc, vlib.Pick(r, int16s), vlib.Pick(r, int16s)))
			}
			gid = 0
			for i := r.Range(1, 2); i > 0 && gid < n-1; i-- {
				gid += r.Range(1, 2)
				if gid >= n {
					break
				}
				g.nl()
				g.w("base")
				g.ref(gid)
				g.p(":")
				for c := 0; c < nc; c++ {
					g.w(fmt.Sprintf("@%d,%d", vlib.Pick(r, int16s), vlib.Pick(r, int16s)))
				}
				g.p(";")
			}
		}
	}
	g.b.WriteString("\n")
}

var allTypes = []string{"GSUB1", "GSUB2", "GSUB3", "GSUB4", "GSUB5", "GSUB6", "GPOS1", "GPOS2", "GPOS3", "GPOS4"}
var modelTypes = []string{"GSUB1", "GSUB2", "GSUB3", "GSUB4", "GSUB5", "GSUB6", "GPOS1", "GPOS3", "GPOS4"}

func genText(r *vlib.Rand, fs *fontSpec, types []string, table string) string {
	g := &textGen{r: r, fs: fs, valid: !r.Chance(1, 6)}
	k := r.Range(1, 3)
	for i := 0; i < k; i++ {
		for {
			ty := vlib.Pick(r, types)
			if table == "" || strings.HasPrefix(ty, table) {
				g.lookup(ty)
				break
			}
		}
		if r.Chance(1, 6) {
			g.b.WriteString("\n")
		}
	}
	return g.b.String()
}

// ---------------------------------------------------------------- mutations

var tokenPool = []string{
	"->", "-", ",", ";", ":", "[", "]", "|", "||", "@", "/", "&", "=", "\n", "A", "B", "zz", "0", "1", "+5", "-5",
	"70000", "99999999999999999999", "+", "\"A\"", "\"\"", "\"\\", "\"AB", "!", "GSUB1", "GPOS1:", "GSUB7", "_", "x", "dx+1", "-marks", "-lig", "#", "\x00",
	"é", "\"é\"", "mark", "base", "to", "first", "second", "class", "inputclass", "::", ":c1:",
}

// mutate applies one token-level mutation to a text.
func mutate(r *vlib.Rand, text string) (string, string) {
	toks := builder.VerifC19Lex(text)
	// drop the final EOF / error item
	if len(toks) > 0 {
		toks = toks[:len(toks)-1]
	}
	if len(toks) == 0 {
		return vlib.Pick(r, tokenPool), "insert"
	}
	i := r.Intn(len(toks))
	op := vlib.Pick(r, []string{"delete", "replace", "insert", "swap", "duplicate", "truncate"})
	var out []builder.VerifC19Item
	switch op {
	case "delete":
		out = append(append(out, toks[:i]...), toks[i+1:]...)
	case "replace":
		out = append(out, toks...)
		out[i] = builder.VerifC19Item{Typ: 99, Val: vlib.Pick(r, tokenPool)}
	case "insert":
		out = append(append(append(out, toks[:i]...), builder.VerifC19Item{Typ: 99, Val: vlib.Pick(r, tokenPool)}), toks[i:]...)
	case "swap":
		out = append(out, toks...)
		if i+1 < len(out) {
			out[i], out[i+1] = out[i+1], out[i]
		}
	case "duplicate":
		out = append(append(append(out, toks[:i]...), toks[i]), toks[i:]...)
	case "truncate":
		out = append(out, toks[:i]...)
	}
	// keep the (possibly mutated) list non-empty as text
	for k := range out {
		if out[k].Val == "" {
			out[k].Val = " "
		}
	}
	return renderTokensRaw(out), op
}

func renderTokensRaw(toks []builder.VerifC19Item) string {
	var b strings.Builder
	for _, t := range toks {
		if t.Val == "\n" {
			b.WriteString("\n")
			continue
		}
		if b.Len() > 0 {
			b.WriteString(" ")
		}
		b.WriteString(t.Val)
	}
	return b.String()
}

var alphabet = []rune("ABab01 \t\n-->,;:[]|@/&=\"\\#_+.xyGSUBPO12345!~é中\u00a0\x00")

func randomText(r *vlib.Rand, n int) string {
	var b strings.Builder
	for i := 0; i < n; i++ {
		b.WriteRune(vlib.Pick(r, alphabet))
	}
	return b.String()
}
