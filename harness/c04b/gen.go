package c04b

import (
	"fmt"

	"seehuhn.de/go/sfnt/verifharness/vlib"
)

const coordLim = 15000 * sc // successive points differ by at most 30000 units

func clampCoord(v int64) int64 {
	if v > coordLim {
		return coordLim
	}
	if v < -coordLim {
		return -coordLim
	}
	return v
}

// step picks one coordinate difference: zero, operand-form boundaries,
// fractional values, larger moves.
func step(r *vlib.Rand, frac bool) int64 {
	switch r.Intn(10) {
	case 0, 1:
		return 0
	case 2:
		return vlib.Pick(r, []int64{1, -1, 107, -107, 108, -108, 1131, -1131, 1132, -1132}) * sc
	case 3:
		if frac {
			return vlib.Pick(r, []int64{1, -1, 32768, -32768, 65535, -65535, 65537})
		}
	case 4:
		return int64(r.Range(-3000, 3000)) * sc
	case 5:
		if r.Chance(1, 8) {
			return int64(r.Range(-29000, 29000)) * sc
		}
	}
	if frac && r.Chance(1, 3) {
		return int64(r.Range(-200*sc, 200*sc))
	}
	return int64(r.Range(-200, 200)) * sc
}

// genCalls: a random sequence of n builder calls.  moveFirst = the sequence
// starts with MoveTo; drawFirst = it starts with LineTo / CurveTo (the API
// allows it; such a glyph is not a drawing).
func genCalls(r *vlib.Rand, n int, moveFirst, drawFirst bool) []bcall {
	var out []bcall
	var x, y int64
	frac := r.Chance(1, 2)
	pt := func() (int64, int64) {
		switch r.Intn(8) {
		case 0: // the same point again (zero-length segment, MoveTo to the current point)
			return x, y
		case 1: // back to an earlier point
			if len(out) > 0 {
				p := out[r.Intn(len(out))]
				return p.a[len(p.a)-2], p.a[len(p.a)-1]
			}
		case 2:
			return clampCoord(x + step(r, frac)), y
		case 3:
			return x, clampCoord(y + step(r, frac))
		}
		return clampCoord(x + step(r, frac)), clampCoord(y + step(r, frac))
	}
	for i := 0; i < n; i++ {
		k := r.Intn(10)
		if i == 0 && moveFirst {
			k = 0
		}
		if i == 0 && drawFirst {
			k = 5 + r.Intn(5)
		}
		switch {
		case k <= 1: // MoveTo (twice in a row happens with probability 1/5)
			nx, ny := pt()
			out = append(out, bcall{kind: 'm', a: []int64{nx, ny}})
			x, y = nx, ny
			if r.Chance(1, 6) && i+1 < n {
				nx, ny = pt()
				out = append(out, bcall{kind: 'm', a: []int64{nx, ny}})
				x, y = nx, ny
				i++
			}
		case k <= 6:
			nx, ny := pt()
			out = append(out, bcall{kind: 'l', a: []int64{nx, ny}})
			x, y = nx, ny
		default:
			ax, ay := pt()
			x, y = ax, ay
			bx, by := pt()
			x, y = bx, by
			cx, cy := pt()
			x, y = cx, cy
			out = append(out, bcall{kind: 'c', a: []int64{ax, ay, bx, by, cx, cy}})
		}
	}
	return out
}

func pickPair(r *vlib.Rand) (dflt, nom int64) {
	dflt = vlib.Pick(r, []int64{0, 500 * sc, 1000 * sc, int64(r.Range(-200, 2000)) * sc})
	nom = vlib.Pick(r, []int64{0, 600 * sc, int64(r.Range(-200, 2000)) * sc})
	if r.Chance(1, 4) {
		dflt += int64(r.Range(1, sc-1))
		nom += int64(r.Range(1, sc-1))
	}
	return
}

// widthsDist: width vectors that stress the choice of default / nominal width
func widthsDist(r *vlib.Rand, n int, kind int) (ws []int64, label string) {
	ws = make([]int64, n)
	fr := func() int64 { return int64(r.Range(1, sc-1)) }
	base := int64(r.Range(100, 1200)) * sc
	switch kind {
	case 0:
		label = "all-equal-integer"
		for i := range ws {
			ws[i] = base
		}
	case 1:
		label = "all-equal-fractional"
		base += fr()
		for i := range ws {
			ws[i] = base
		}
	case 2:
		label = "two-tied-most-frequent"
		a, b := base, base+int64(r.Range(1, 400))*sc
		for i := range ws {
			switch {
			case i%3 == 0:
				ws[i] = a
			case i%3 == 1:
				ws[i] = b
			default:
				ws[i] = int64(r.Range(100, 1500)) * sc
			}
		}
		if n >= 2 && n%3 == 1 { // make the counts of a and b equal
			ws[n-1] = int64(r.Range(100, 1500))*sc + 7
		}
	case 3:
		label = "all-distinct"
		for i := range ws {
			ws[i] = base + int64(i)*int64(r.Range(1, 5))*sc + int64(i)
		}
	case 4:
		label = "width-equal-to-nominal"
		// many default widths pull the mean down, so nominalWidthX = min + 107:
		// a glyph of exactly that width gets the operand 0
		for i := range ws {
			ws[i] = 0
		}
		if n >= 3 {
			ws[n-1] = base
			ws[n-2] = base + 107*sc
			for i := n / 2; i < n-2; i++ {
				ws[i] = base + int64(r.Range(0, 300))*sc
			}
		}
	case 5:
		label = "fractional-mix"
		for i := range ws {
			ws[i] = vlib.Pick(r, []int64{base, base + 32768, base + 1, int64(r.Range(0, 1500*sc))})
		}
	case 6:
		label = "negative"
		for i := range ws {
			ws[i] = -vlib.Pick(r, []int64{base, base + 32768, int64(r.Range(0, 1500)) * sc})
		}
	case 7:
		label = "default-zero"
		for i := range ws {
			ws[i] = vlib.Pick(r, []int64{0, 0, 0, base, int64(r.Range(0, 800)) * sc})
		}
	case 8:
		label = "near-operand-limits"
		// spread just inside what a width operand can hold
		for i := range ws {
			ws[i] = vlib.Pick(r, []int64{16000 * sc, -16000 * sc, 0, 107 * sc, -107 * sc, int64(r.Range(-16000, 16000)) * sc})
		}
	case 9:
		label = "beyond-32767"
		// widths the histogram of selectWidths skips, close together
		b := int64(r.Range(33000, 60000)) * sc
		for i := range ws {
			ws[i] = b + int64(r.Range(0, 200))*sc
		}
		if n > 2 && r.Bool() {
			ws[0] = b
			ws[1] = b
		}
	default:
		label = "random"
		for i := range ws {
			ws[i] = int64(r.Range(0, 2000)) * sc
			if r.Chance(1, 5) {
				ws[i] += fr()
			}
		}
	}
	return
}

func countBucket(n int) string {
	switch {
	case n <= 1:
		return "1"
	case n <= 4:
		return "2-4"
	case n <= 32:
		return "5-32"
	case n <= 255:
		return "33-255"
	}
	return "256-300"
}

func addFont(run *vlib.Run, fc *fontCase, labels ...string) {
	impl, fail, sig, excluded, more := fontRun(fc)
	labels = append(labels, more...)
	cl := fc.line()
	if excluded {
		cl = "!" + cl
		labels = append(labels, "oracle-only")
	}
	kind := "simple"
	if fc.cidKeyed {
		kind = "cid"
	}
	labels = append(labels, "font:"+kind, fmt.Sprintf("fds:%d", fc.nfd), "glyphs:"+countBucket(len(fc.ws)))
	used := map[int]bool{}
	for _, fd := range fc.fds {
		used[fd] = true
	}
	if len(used) < fc.nfd {
		labels = append(labels, "private-dict-without-glyphs")
	}
	idx := run.Add(cl, impl, len(fc.ws) >= 2, labels...)
	if fail != "" {
		run.Fail(idx, cl, fail, sig)
	}
}

// Gen writes the run for the given tier.
func Gen(run *vlib.Run, seed uint64, tier string) {
	run.Rule = "builder call sequences on the 16.16 grid (built through NewGlyph / MoveTo / LineTo / CurveTo), compiled by encodeCharString; width vectors for selectWidths; whole fonts (1..300 glyphs, 1..4 private dictionaries) written by Font.Write and read by cff.Read and by the specification reader; non-trivial = at least two calls / two glyphs / two widths; distinct by case line"
	r := vlib.NewRand(seed)

	// (1) the number encoder assembled from the regenerated pieces
	rnum := func(xs []int64, label string) {
		impl, fail, sig := rnumCase(xs)
		cl := vlib.Line(vlib.Atom("rnum"), vlib.Ints(xs))
		idx := run.Add(cl, impl, true, label)
		if fail != "" {
			run.Fail(idx, cl, fail, sig)
		}
	}
	var bnd []int64
	for _, b := range []int64{0, 106, 107, 108, 109, 1130, 1131, 1132, 1133, 32766, 32767} {
		bnd = append(bnd, b*sc, -b*sc, b*sc+1, b*sc-1, -b*sc+1, -b*sc-1, b*sc+32768, -b*sc-32768)
	}
	bnd = append(bnd, fixMin, fixMin+1, fixMax, fixMax-1, -32768*sc)
	for i := 0; i < len(bnd); i++ {
		if bnd[i] < fixMin || bnd[i] > fixMax {
			bnd[i] = 0
		}
	}
	rnum(bnd, "stream:regen-number-boundaries")
	for i := vlib.Count(tier, 20, 1000); i > 0; i-- {
		xs := make([]int64, 64)
		for j := range xs {
			switch j % 3 {
			case 0:
				xs[j] = int64(r.Range(-1200, 1200)) * sc
			case 1:
				xs[j] = int64(r.Range(-32768, 32767)) * sc
			default:
				xs[j] = int64(int32(r.Uint64()))
			}
		}
		rnum(xs, "stream:regen-number-random")
	}

	// (2a) the builder alone
	nb := vlib.Count(tier, 400, 10000)
	for i := 0; i < nb; i++ {
		n := vlib.Pick(r, []int{0, 1, 1, 2, 3, 5, 8, 13, 30, 60})
		draw := i%10 == 9
		cs := genCalls(r, n, !draw && r.Chance(4, 5), draw)
		w := int64(r.Range(-100, 1500)) * sc
		if r.Chance(1, 4) {
			w += int64(r.Range(1, sc-1))
		}
		impl, fail, sig := buildCase(w, cs)
		cl := vlib.Line(vlib.Atom("build"), vlib.I64(w), callsSx(cs))
		labels := []string{"stream:builder", fmt.Sprintf("calls:%d", len(cs)/8*8)}
		labels = append(labels, callLabels(cs)...)
		idx := run.Add(cl, impl, len(cs) >= 2, labels...)
		if fail != "" {
			run.Fail(idx, cl, fail, sig)
		}
	}
	for _, n := range []int{1000, vlib.Count(tier, 4000, 20000)} {
		cs := genCalls(r, n, true, false)
		impl, fail, sig := buildCase(500*sc, cs)
		cl := vlib.Line(vlib.Atom("build"), vlib.I64(500*sc), callsSx(cs))
		idx := run.Add(cl, impl, true, "stream:builder-very-long")
		if fail != "" {
			run.Fail(idx, cl, fail, sig)
		}
	}

	// (2c) Glyph.Extent
	nx := vlib.Count(tier, 300, 8000)
	for i := 0; i < nx; i++ {
		n := vlib.Pick(r, []int{0, 1, 1, 2, 3, 5, 9, 20})
		var cs []xcmd
		for _, c := range genCalls(r, n, r.Bool(), false) {
			if r.Chance(1, 8) {
				cs = append(cs, xcmd{mask: r.Bytes(r.Range(1, 3)), cntr: r.Bool()})
			}
			cs = append(cs, xcmd{call: c})
		}
		if n == 0 && r.Bool() {
			cs = append(cs, xcmd{mask: []byte{255}})
		}
		impl, fail, sig := extentCase(cs)
		cl := vlib.Line(vlib.Atom("ext"), xcmdsSx(cs))
		idx := run.Add(cl, impl, n >= 2, "stream:extent", fmt.Sprintf("calls:%d", n/8*8))
		if fail != "" {
			run.Fail(idx, cl, fail, sig)
		}
	}

	// (2b) built through the methods, then compiled and decoded
	nc := vlib.Count(tier, 700, 20000)
	for i := 0; i < nc; i++ {
		n := vlib.Pick(r, []int{0, 1, 2, 3, 4, 6, 9, 14, 25, 26, 49, 50, 70})
		draw := i%25 == 24
		cs := genCalls(r, n, !draw, draw)
		dflt, nom := pickPair(r)
		var w int64
		switch r.Intn(4) {
		case 0:
			w = dflt
		case 1:
			w = nom + vlib.Pick(r, []int64{0, 107 * sc, -107 * sc, 108 * sc, -1132 * sc, 32767 * sc, -32768 * sc, sc / 2})
		default:
			w = int64(r.Range(0, 2000)) * sc
			if r.Chance(1, 4) {
				w += int64(r.Range(1, sc-1))
			}
		}
		addCompile(run, dflt, nom, w, cs, "stream:builder-compile")
	}
	for _, n := range vlib.Pick(r, [][]int{{300, 1500}, {500, 1000}, {200, 2000}}) {
		cs := genCalls(r, n, true, false)
		addCompile(run, 500*sc, 600*sc, 700*sc, cs, "stream:builder-compile-very-long")
	}
	if tier != "quick" {
		addCompile(run, 500*sc, 600*sc, 500*sc, genCalls(r, 6000, true, false), "stream:builder-compile-very-long")
	}

	// (3a) selectWidths alone
	nw := vlib.Count(tier, 600, 20000)
	for i := 0; i < nw; i++ {
		n := vlib.Pick(r, []int{0, 1, 2, 2, 3, 4, 5, 7, 12, 40, 300})
		ws, label := widthsDist(r, n, i%11)
		cl := vlib.Line(vlib.Atom("sw"), vlib.Ints(ws))
		run.Add(cl, selectCase(ws), n >= 2, "stream:select-widths", "dist:"+label, "glyphs:"+countBucket(n))
	}

	// (3b) whole fonts
	nf := vlib.Count(tier, 160, 4000)
	for i := 0; i < nf; i++ {
		n := vlib.Pick(r, []int{1, 1, 2, 2, 3, 4, 5, 8, 17, 40, 64, 120, 255, 256, 300})
		if tier == "quick" && n > 64 && i%4 != 0 {
			n = vlib.Pick(r, []int{3, 6, 17, 33})
		}
		ws, label := widthsDist(r, n, i%11)
		fc := &fontCase{ws: ws, nfd: 1}
		if i%2 == 1 {
			fc.cidKeyed = true
			fc.nfd = r.Range(1, 4)
		}
		fc.fds = make([]int, n)
		skip := -1
		if fc.nfd > 1 && r.Chance(1, 2) {
			skip = r.Intn(fc.nfd) // one private dictionary without glyphs
		}
		for g := range fc.fds {
			fd := r.Intn(fc.nfd)
			if fd == skip {
				fd = (fd + 1) % fc.nfd
			}
			fc.fds[g] = fd
		}
		fc.seeds = make([]int64, n)
		for g := range fc.seeds {
			if r.Chance(3, 4) {
				fc.seeds[g] = int64(r.Range(1, 1<<30))
			}
		}
		addFont(run, fc, "stream:font-widths", "dist:"+label)
	}
	// a glyph that draws before its first MoveTo inside a font (oracle only)
	for i := 0; i < 3; i++ {
		ws, _ := widthsDist(r, 3, 10)
		fc := &fontCase{ws: ws, nfd: 1, fds: []int{0, 0, 0}, seeds: []int64{0, -int64(r.Range(1, 1<<30)), 5}}
		addFont(run, fc, "stream:font-draw-before-move")
	}
	// widths inside [-32000, 32000] whose operand relative to the chosen nominal
	// width leaves the Type 2 range: C04's open finding, seen at the font level
	for i := 0; i < 3; i++ {
		n := 20
		ws := make([]int64, n)
		for g := 10; g < 19; g++ {
			ws[g] = 32000 * sc
		}
		ws[19] = -32000*sc + int64(i)*sc
		fc := &fontCase{ws: ws, nfd: 1, fds: make([]int, n), seeds: make([]int64, n)}
		addFont(run, fc, "stream:font-width-operand-out-of-range")
	}

	// (4) coordinates finer than 2^-16 through Font.Write / cff.Read (oracle only)
	no := vlib.Count(tier, 40, 2000)
	for i := 0; i < no; i++ {
		s := int64(r.Uint64() >> 2)
		cl := fmt.Sprintf("!boff %d", s)
		fail := offGridFont(uint64(s))
		idx := run.Add(cl, "boff", true, "stream:builder-off-grid-font", "oracle-only")
		if fail != "" {
			run.Fail(idx, cl, fail, "c04b-offgrid-error-bound")
		}
	}
}

func callLabels(cs []bcall) []string {
	var out []string
	seen := map[string]bool{}
	add := func(s string) {
		if !seen[s] {
			seen[s] = true
			out = append(out, s)
		}
	}
	if drawBeforeMove(cs) {
		add("class:draw-before-move")
	}
	var x, y int64
	started := false
	for i, c := range cs {
		ex, ey := c.a[len(c.a)-2], c.a[len(c.a)-1]
		if c.kind == 'm' && i > 0 && cs[i-1].kind == 'm' {
			add("moveto-twice")
		}
		if c.kind == 'l' && started && ex == x && ey == y {
			add("zero-length-line")
		}
		if c.kind == 'm' && started && ex == x && ey == y {
			add("moveto-to-current-point")
		}
		for _, v := range c.a {
			if v%sc != 0 {
				add("fractional")
			}
		}
		x, y, started = ex, ey, true
	}
	if len(cs) > 0 && cs[len(cs)-1].kind == 'm' {
		add("ends-with-moveto")
	}
	return out
}

func addCompile(run *vlib.Run, dflt, nom, w int64, cs []bcall, labels ...string) {
	code, impl, fail, sig, more := compileCase(dflt, nom, w, cs, nil)
	labels = append(labels, more...)
	labels = append(labels, callLabels(cs)...)
	labels = append(labels, fmt.Sprintf("calls:%d", len(cs)/8*8))
	if w == dflt {
		labels = append(labels, "width:default")
	} else {
		labels = append(labels, "width:operand")
	}
	cl := vlib.Line(vlib.Atom("bcs"), vlib.I64(dflt), vlib.I64(nom), vlib.I64(w), callsSx(cs), vlib.Hex(code))
	if d := w - nom; w != dflt && (d < fixMin || d > fixMax) {
		cl = "!" + cl
	}
	idx := run.Add(cl, impl, len(cs) >= 2, labels...)
	if fail != "" {
		run.Fail(idx, cl, fail, sig)
	}
}
