package c04b

// An independent reader of the parts of a CFF font this check needs, written
// from Adobe TN5176 (header, INDEX, DICT operands, Top DICT, FDArray,
// FDSelect formats 0 and 3, Private DICT defaultWidthX / nominalWidthX,
// CharStrings INDEX).  It shares no code with the library.

import (
	"fmt"
	"math/big"
	"strings"
)

type sOperand struct {
	isInt bool
	i     int64
	r     *big.Rat // value of a real operand
}

type sDict map[int][]sOperand // operator (12 x -> 1200+x) -> operands

type sFD struct {
	hasDef, hasNom bool
	def, nom       sOperand
}

type sFont struct {
	cid         bool
	charstrings [][]byte
	fds         []sFD
	fdsel       []int // per glyph
	gsubrs      int
}

func sIndex(data []byte, pos int) (items [][]byte, end int, err error) {
	if pos < 0 || pos+2 > len(data) {
		return nil, 0, fmt.Errorf("INDEX count outside the data")
	}
	n := int(data[pos])<<8 | int(data[pos+1])
	if n == 0 {
		return nil, pos + 2, nil
	}
	if pos+3 > len(data) {
		return nil, 0, fmt.Errorf("INDEX offSize outside the data")
	}
	osz := int(data[pos+2])
	if osz < 1 || osz > 4 {
		return nil, 0, fmt.Errorf("INDEX offSize %d", osz)
	}
	base := pos + 3
	if base+(n+1)*osz > len(data) {
		return nil, 0, fmt.Errorf("INDEX offset array outside the data")
	}
	off := func(i int) int {
		v := 0
		for k := 0; k < osz; k++ {
			v = v<<8 | int(data[base+i*osz+k])
		}
		return v
	}
	dataStart := base + (n+1)*osz - 1 // offsets are relative to the byte before the data
	if off(0) != 1 {
		return nil, 0, fmt.Errorf("INDEX first offset is not 1")
	}
	for i := 0; i < n; i++ {
		a, b := off(i), off(i+1)
		if b < a || dataStart+b > len(data) {
			return nil, 0, fmt.Errorf("INDEX object %d outside the data", i)
		}
		items = append(items, data[dataStart+a:dataStart+b])
	}
	return items, dataStart + off(n), nil
}

func sReal(buf []byte) (*big.Rat, int, error) {
	var sb strings.Builder
	for i, b := range buf {
		for _, nib := range []byte{b >> 4, b & 15} {
			switch {
			case nib <= 9:
				sb.WriteByte('0' + nib)
			case nib == 10:
				sb.WriteByte('.')
			case nib == 11:
				sb.WriteByte('e')
			case nib == 12:
				sb.WriteString("e-")
			case nib == 14:
				sb.WriteByte('-')
			case nib == 15:
				r, ok := new(big.Rat).SetString(sb.String())
				if !ok {
					return nil, 0, fmt.Errorf("bad real %q", sb.String())
				}
				return r, i + 1, nil
			default:
				return nil, 0, fmt.Errorf("reserved nibble")
			}
		}
	}
	return nil, 0, fmt.Errorf("unterminated real")
}

func sDictParse(buf []byte) (sDict, error) {
	d := sDict{}
	var stack []sOperand
	for i := 0; i < len(buf); {
		b := buf[i]
		switch {
		case b >= 32 && b <= 246:
			stack = append(stack, sOperand{isInt: true, i: int64(b) - 139})
			i++
		case b >= 247 && b <= 250:
			if i+1 >= len(buf) {
				return nil, fmt.Errorf("truncated operand")
			}
			stack = append(stack, sOperand{isInt: true, i: (int64(b)-247)*256 + int64(buf[i+1]) + 108})
			i += 2
		case b >= 251 && b <= 254:
			if i+1 >= len(buf) {
				return nil, fmt.Errorf("truncated operand")
			}
			stack = append(stack, sOperand{isInt: true, i: -(int64(b)-251)*256 - int64(buf[i+1]) - 108})
			i += 2
		case b == 28:
			if i+2 >= len(buf) {
				return nil, fmt.Errorf("truncated operand")
			}
			stack = append(stack, sOperand{isInt: true, i: int64(int16(uint16(buf[i+1])<<8 | uint16(buf[i+2])))})
			i += 3
		case b == 29:
			if i+4 >= len(buf) {
				return nil, fmt.Errorf("truncated operand")
			}
			v := int32(uint32(buf[i+1])<<24 | uint32(buf[i+2])<<16 | uint32(buf[i+3])<<8 | uint32(buf[i+4]))
			stack = append(stack, sOperand{isInt: true, i: int64(v)})
			i += 5
		case b == 30:
			r, n, err := sReal(buf[i+1:])
			if err != nil {
				return nil, err
			}
			stack = append(stack, sOperand{r: r})
			i += 1 + n
		case b == 12:
			if i+1 >= len(buf) {
				return nil, fmt.Errorf("truncated operator")
			}
			d[1200+int(buf[i+1])] = stack
			stack = nil
			i += 2
		case b <= 21:
			d[int(b)] = stack
			stack = nil
			i++
		default:
			return nil, fmt.Errorf("reserved byte %d", b)
		}
	}
	if len(stack) != 0 {
		return nil, fmt.Errorf("operands without operator")
	}
	return d, nil
}

func (d sDict) ints(op, n int) ([]int, bool) {
	a, ok := d[op]
	if !ok || len(a) != n {
		return nil, false
	}
	out := make([]int, n)
	for i, x := range a {
		if !x.isInt {
			return nil, false
		}
		out[i] = int(x.i)
	}
	return out, true
}

func sPrivate(data []byte, d sDict) (sFD, error) {
	var fd sFD
	p, ok := d.ints(18, 2)
	if !ok {
		return fd, fmt.Errorf("no Private entry")
	}
	size, offs := p[0], p[1]
	if size < 0 || offs < 0 || offs+size > len(data) {
		return fd, fmt.Errorf("Private DICT outside the data")
	}
	pd, err := sDictParse(data[offs : offs+size])
	if err != nil {
		return fd, err
	}
	if a, ok := pd[20]; ok {
		if len(a) != 1 {
			return fd, fmt.Errorf("defaultWidthX with %d operands", len(a))
		}
		fd.hasDef, fd.def = true, a[0]
	}
	if a, ok := pd[21]; ok {
		if len(a) != 1 {
			return fd, fmt.Errorf("nominalWidthX with %d operands", len(a))
		}
		fd.hasNom, fd.nom = true, a[0]
	}
	return fd, nil
}

func sRead(data []byte) (*sFont, error) {
	if len(data) < 4 || data[0] != 1 {
		return nil, fmt.Errorf("bad header")
	}
	pos := int(data[2])
	names, pos, err := sIndex(data, pos)
	if err != nil || len(names) != 1 {
		return nil, fmt.Errorf("Name INDEX: %v", err)
	}
	tops, pos, err := sIndex(data, pos)
	if err != nil || len(tops) != 1 {
		return nil, fmt.Errorf("Top DICT INDEX: %v", err)
	}
	_, pos, err = sIndex(data, pos)
	if err != nil {
		return nil, fmt.Errorf("String INDEX: %v", err)
	}
	gs, _, err := sIndex(data, pos)
	if err != nil {
		return nil, fmt.Errorf("Global Subr INDEX: %v", err)
	}
	top, err := sDictParse(tops[0])
	if err != nil {
		return nil, err
	}
	f := &sFont{gsubrs: len(gs)}
	cs, ok := top.ints(17, 1)
	if !ok {
		return nil, fmt.Errorf("no CharStrings entry")
	}
	if f.charstrings, _, err = sIndex(data, cs[0]); err != nil {
		return nil, err
	}
	n := len(f.charstrings)
	if _, ok := top[1230]; ok { // ROS
		f.cid = true
		fa, ok1 := top.ints(1236, 1)
		fs, ok2 := top.ints(1237, 1)
		if !ok1 || !ok2 {
			return nil, fmt.Errorf("CID font without FDArray / FDSelect")
		}
		fdicts, _, err := sIndex(data, fa[0])
		if err != nil {
			return nil, err
		}
		for _, fb := range fdicts {
			fdict, err := sDictParse(fb)
			if err != nil {
				return nil, err
			}
			fd, err := sPrivate(data, fdict)
			if err != nil {
				return nil, err
			}
			f.fds = append(f.fds, fd)
		}
		p := fs[0]
		if p < 0 || p >= len(data) {
			return nil, fmt.Errorf("FDSelect outside the data")
		}
		switch data[p] {
		case 0:
			if p+1+n > len(data) {
				return nil, fmt.Errorf("FDSelect truncated")
			}
			for i := 0; i < n; i++ {
				f.fdsel = append(f.fdsel, int(data[p+1+i]))
			}
		case 3:
			if p+3 > len(data) {
				return nil, fmt.Errorf("FDSelect truncated")
			}
			nr := int(data[p+1])<<8 | int(data[p+2])
			if p+3+3*nr+2 > len(data) {
				return nil, fmt.Errorf("FDSelect truncated")
			}
			f.fdsel = make([]int, n)
			for k := 0; k < nr; k++ {
				q := p + 3 + 3*k
				first := int(data[q])<<8 | int(data[q+1])
				next := int(data[q+3])<<8 | int(data[q+4])
				if next > n || first > next {
					return nil, fmt.Errorf("FDSelect range outside the glyphs")
				}
				for g := first; g < next; g++ {
					f.fdsel[g] = int(data[q+2])
				}
			}
		default:
			return nil, fmt.Errorf("FDSelect format %d", data[p])
		}
	} else {
		fd, err := sPrivate(data, top)
		if err != nil {
			return nil, err
		}
		f.fds = []sFD{fd}
		f.fdsel = make([]int, n)
	}
	for _, fd := range f.fdsel {
		if fd < 0 || fd >= len(f.fds) {
			return nil, fmt.Errorf("FDSelect names Font DICT %d of %d", fd, len(f.fds))
		}
	}
	return f, nil
}

// scaledOperand: the value of a width entry on the 16.16 grid; ok = exact
func (o sOperand) scaled() (int64, bool) {
	if o.isInt {
		return o.i * sc, true
	}
	v := new(big.Rat).Mul(o.r, big.NewRat(sc, 1))
	if !v.IsInt() || !v.Num().IsInt64() {
		return 0, false
	}
	return v.Num().Int64(), true
}
