// Package c04b is part C04B of property C04: the Glyph builder of
// cff/glyph.go (NewGlyph, MoveTo, LineTo, CurveTo), the number encoder
// assembled from the regenerated pieces of cff/t2encode.go, and the
// font-level width handling of cff/write.go / cff/font.go (selectWidths,
// default / nominal width per private dictionary, the width operand of every
// charstring) are compared with the extracted models of coq/C04B; the oracle
// states the property on the real code: a glyph built through the methods,
// written by Font.Write, read by cff.Read AND by an independent reader of the
// CFF structures feeding harness/c05's reference Type 2 interpreter, comes
// back with exactly the calls that were made and with its width.
package c04b

import (
	"bytes"
	"errors"
	"fmt"
	"math"
	"strings"

	"seehuhn.de/go/geom/matrix"
	"seehuhn.de/go/postscript/cid"
	"seehuhn.de/go/postscript/type1"
	"seehuhn.de/go/sfnt/cff"
	"seehuhn.de/go/sfnt/glyph"
	"seehuhn.de/go/sfnt/verifharness/c05"
	"seehuhn.de/go/sfnt/verifharness/vlib"
)

const (
	sc     = 65536
	fixMin = -2147483648
	fixMax = 2147483647

	sigBigDelta = "t2enc-delta-magnitude-ge-32768"
	sigBuilder  = "c04b-builder-commands"
	sigCompile  = "c04b-builder-compile-roundtrip"
	sigWidth    = "c04b-font-width-roundtrip"
	sigOutline  = "c04b-font-outline-roundtrip"
	sigNumber   = "c04b-number-roundtrip"
	sigPanic    = "c04b-panic"
)

// one call of a builder method, coordinates on the 16.16 grid (scaled)
type bcall struct {
	kind byte // 'm' 'l' 'c'
	a    []int64
}

func callsSx(cs []bcall) vlib.Sx {
	l := vlib.List{}
	for _, c := range cs {
		e := vlib.List{vlib.Atom(string(c.kind))}
		for _, x := range c.a {
			e = append(e, vlib.I64(x))
		}
		l = append(l, e)
	}
	return l
}

// the glyph the calls describe, in the syntax of the models (and of
// harness/c05's reference interpreter)
func wantGlyph(w int64, cs []bcall) string {
	return vlib.Str(vlib.L(vlib.Atom("ok"), vlib.I64(w), vlib.List{}, vlib.List{}, callsSx(cs)))
}

// build makes the glyph THROUGH THE BUILDER METHODS.
func build(name string, w int64, cs []bcall) *cff.Glyph {
	g := cff.NewGlyph(name, float64(w)/sc)
	apply(g, cs)
	return g
}

func apply(g *cff.Glyph, cs []bcall) {
	for _, c := range cs {
		f := make([]float64, len(c.a))
		for i, x := range c.a {
			f[i] = float64(x) / sc
		}
		switch c.kind {
		case 'm':
			g.MoveTo(f[0], f[1])
		case 'l':
			g.LineTo(f[0], f[1])
		case 'c':
			g.CurveTo(f[0], f[1], f[2], f[3], f[4], f[5])
		}
	}
}

func scaled(f float64) (int64, bool) {
	x := f * sc
	if math.IsNaN(x) || math.IsInf(x, 0) || math.Abs(x) > 1<<52 || x != math.Trunc(x) {
		return 0, false
	}
	return int64(x), true
}

// glyphStr renders a cff.Glyph in the models' syntax.
func glyphStr(g *cff.Glyph) string {
	bad := false
	conv := func(f float64) vlib.Sx {
		v, ok := scaled(f)
		if !ok {
			bad = true
		}
		return vlib.I64(v)
	}
	hs, vs, cmds := vlib.List{}, vlib.List{}, vlib.List{}
	w := conv(g.Width)
	for _, x := range g.HStem {
		hs = append(hs, conv(x))
	}
	for _, x := range g.VStem {
		vs = append(vs, conv(x))
	}
	for _, c := range g.Cmds {
		var e vlib.List
		switch c.Op {
		case cff.OpMoveTo:
			e = vlib.List{vlib.Atom("m")}
		case cff.OpLineTo:
			e = vlib.List{vlib.Atom("l")}
		case cff.OpCurveTo:
			e = vlib.List{vlib.Atom("c")}
		case cff.OpHintMask, cff.OpCntrMask:
			k := "hm"
			if c.Op == cff.OpCntrMask {
				k = "cm"
			}
			var m []byte
			for _, a := range c.Args {
				m = append(m, byte(a))
			}
			cmds = append(cmds, vlib.L(vlib.Atom(k), vlib.Hex(m)))
			continue
		default:
			bad = true
		}
		for _, a := range c.Args {
			e = append(e, conv(a))
		}
		cmds = append(cmds, e)
	}
	if bad {
		return "(offgrid)"
	}
	return vlib.Str(vlib.L(vlib.Atom("ok"), w, hs, vs, cmds))
}

func drawBeforeMove(cs []bcall) bool { return len(cs) > 0 && cs[0].kind != 'm' }

var emptyTab = &c05.Table{Special: map[int][]byte{}}

func clip(s string) string {
	if len(s) > 300 {
		return s[:300] + "..."
	}
	return s
}

// ---- (1) the number encoder ----

func decodeOne(b []byte) (int64, bool) {
	if len(b) == 0 {
		return 0, false
	}
	switch b0 := b[0]; {
	case b0 >= 32 && b0 <= 246 && len(b) == 1:
		return (int64(b0) - 139) * sc, true
	case b0 >= 247 && b0 <= 250 && len(b) == 2:
		return ((int64(b0)-247)*256 + int64(b[1]) + 108) * sc, true
	case b0 >= 251 && b0 <= 254 && len(b) == 2:
		return (-(int64(b0)-251)*256 - int64(b[1]) - 108) * sc, true
	case b0 == 28 && len(b) == 3:
		return int64(int16(uint16(b[1])<<8|uint16(b[2]))) * sc, true
	case b0 == 255 && len(b) == 5:
		return int64(int32(uint32(b[1])<<24 | uint32(b[2])<<16 | uint32(b[3])<<8 | uint32(b[4]))), true
	}
	return 0, false
}

// shortest operand length the format offers for a grid value
func shortestLen(x int64) int {
	if x%sc != 0 {
		return 5
	}
	i := x / sc
	switch {
	case i >= -107 && i <= 107:
		return 1
	case i >= -1131 && i <= 1131:
		return 2
	case i >= -32768 && i <= 32767:
		return 3
	}
	return 5
}

func rnumCase(xs []int64) (impl, fail, sig string) {
	defer func() {
		if e := recover(); e != nil {
			impl, fail, sig = "panic", fmt.Sprint("encodeNumber panics: ", e), sigPanic
		}
	}()
	l := vlib.List{}
	for _, x := range xs {
		e := cff.VerifC04EncodeNumber(float64(x) / sc)
		v, ok := scaled(e.Val)
		if !ok {
			l = append(l, vlib.Atom("offgrid"))
		} else {
			l = append(l, vlib.L(vlib.I64(v), vlib.Hex(e.Code)))
		}
		dv, dok := decodeOne(e.Code)
		if fail == "" && (!ok || !dok || dv != x || v != x) {
			fail = fmt.Sprintf("encodeNumber(%d/65536): code % x decodes to %d/65536, reported value %v", x, e.Code, dv, e.Val)
			sig = sigNumber
		}
		if fail == "" && len(e.Code) != shortestLen(x) {
			fail = fmt.Sprintf("encodeNumber(%d/65536): %d bytes (% x), the format offers %d", x, len(e.Code), e.Code, shortestLen(x))
			sig = sigNumber
		}
	}
	return vlib.Str(l), fail, sig
}

// ---- (2) the builder ----

// buildCase: the glyph after the calls, and the oracle on the builder alone:
// one command per call, in order, with the call's coordinates; earlier
// commands are not touched by later calls; name, width as given; no stems.
func buildCase(w int64, cs []bcall) (impl, fail, sig string) {
	defer func() {
		if e := recover(); e != nil {
			impl, fail, sig = "panic", fmt.Sprint("builder panics: ", e), sigPanic
		}
	}()
	g := cff.NewGlyph("name", float64(w)/sc)
	if g.Name != "name" || len(g.Cmds) != 0 || g.HStem != nil || g.VStem != nil {
		fail, sig = "NewGlyph does not return an empty glyph with the given name", sigBuilder
	}
	var snapshot []string
	for i, c := range cs {
		apply(g, cs[i:i+1])
		if len(g.Cmds) != i+1 && fail == "" {
			fail, sig = fmt.Sprintf("after call %d the glyph has %d commands", i, len(g.Cmds)), sigBuilder
		}
		// earlier commands unchanged
		for j := 0; j < i && j < len(g.Cmds) && fail == ""; j++ {
			if s := fmt.Sprint(g.Cmds[j].Op, g.Cmds[j].Args); s != snapshot[j] {
				fail, sig = fmt.Sprintf("call %d changed command %d from %s to %s", i, j, snapshot[j], s), sigBuilder
			}
		}
		if len(g.Cmds) > 0 {
			last := g.Cmds[len(g.Cmds)-1]
			snapshot = append(snapshot, fmt.Sprint(last.Op, last.Args))
		} else {
			snapshot = append(snapshot, "")
		}
		_ = c
	}
	impl = glyphStr(g)
	if fail == "" && impl != wantGlyph(w, cs) {
		fail, sig = "the glyph does not hold the calls that were made: "+clip(impl)+", calls "+clip(wantGlyph(w, cs)), sigBuilder
	}
	return impl, fail, sig
}

// a command list that may hold masks (appended to g.Cmds directly; the
// builder has no method for them)
type xcmd struct {
	call bcall
	mask []byte
	cntr bool
}

func xcmdsSx(cs []xcmd) vlib.Sx {
	l := vlib.List{}
	for _, c := range cs {
		if c.mask != nil {
			k := "hm"
			if c.cntr {
				k = "cm"
			}
			l = append(l, vlib.L(vlib.Atom(k), vlib.Hex(c.mask)))
			continue
		}
		e := vlib.List{vlib.Atom(string(c.call.kind))}
		for _, x := range c.call.a {
			e = append(e, vlib.I64(x))
		}
		l = append(l, e)
	}
	return l
}

// extentCase: Glyph.Extent of a glyph made by the builder (plus masks); the
// oracle: every end point inside, and on every side an end point less than
// one unit inside; the zero rectangle without drawing commands
func extentCase(cs []xcmd) (impl, fail, sig string) {
	defer func() {
		if e := recover(); e != nil {
			impl, fail, sig = "panic", fmt.Sprint("Extent panics: ", e), sigPanic
		}
	}()
	g := cff.NewGlyph("g", 500)
	var pts [][2]int64
	for _, c := range cs {
		if c.mask != nil {
			op := cff.GlyphOp{Op: cff.OpHintMask}
			if c.cntr {
				op.Op = cff.OpCntrMask
			}
			for _, b := range c.mask {
				op.Args = append(op.Args, float64(b))
			}
			g.Cmds = append(g.Cmds, op)
			continue
		}
		apply(g, []bcall{c.call})
		pts = append(pts, [2]int64{c.call.a[len(c.call.a)-2], c.call.a[len(c.call.a)-1]})
	}
	r := g.Extent()
	box := [4]int64{int64(r.LLx), int64(r.LLy), int64(r.URx), int64(r.URy)}
	impl = vlib.Str(vlib.Ints(box[:]))
	if len(pts) == 0 {
		if box != [4]int64{} {
			fail, sig = "Extent of a glyph without drawing commands is not the zero rectangle: "+impl, "c04b-extent"
		}
		return
	}
	var tight [4]bool
	for _, p := range pts {
		if p[0] < box[0]*sc || p[0] > box[2]*sc || p[1] < box[1]*sc || p[1] > box[3]*sc {
			return impl, fmt.Sprintf("end point (%d/65536, %d/65536) lies outside the extent %s", p[0], p[1], impl), "c04b-extent"
		}
		tight[0] = tight[0] || p[0] < (box[0]+1)*sc
		tight[1] = tight[1] || p[1] < (box[1]+1)*sc
		tight[2] = tight[2] || p[0] > (box[2]-1)*sc
		tight[3] = tight[3] || p[1] > (box[3]-1)*sc
	}
	if tight != [4]bool{true, true, true, true} {
		fail, sig = "the extent "+impl+" is not the smallest integer rectangle around the end points", "c04b-extent"
	}
	return
}

func parseXcmds(x vlib.Sx) ([]xcmd, error) {
	l, err := vlib.AsList(x)
	if err != nil {
		return nil, err
	}
	var out []xcmd
	for _, e := range l {
		el, err := vlib.AsList(e)
		if err != nil || len(el) < 2 {
			return nil, errors.New("bad command")
		}
		k, _ := vlib.AsAtom(el[0])
		if k == "hm" || k == "cm" {
			b, err := vlib.AsBytes(el[1])
			if err != nil {
				return nil, err
			}
			if b == nil {
				b = []byte{}
			}
			out = append(out, xcmd{mask: b, cntr: k == "cm"})
			continue
		}
		cs, err := parseCalls(vlib.List{e})
		if err != nil {
			return nil, err
		}
		out = append(out, xcmd{call: cs[0]})
	}
	return out, nil
}

// compileCase: built through the methods, compiled, decoded.
func compileCase(dflt, nom, w int64, cs []bcall, given []byte) (code []byte, impl, fail, sig string, labels []string) {
	defer func() {
		if e := recover(); e != nil {
			impl, fail, sig = "panic", fmt.Sprint("panic: ", e), sigPanic
		}
	}()
	g := build("g", w, cs)
	built := glyphStr(g)
	code, err := cff.VerifC04EncodeCharString(g, float64(dflt)/sc, float64(nom)/sc)
	if err != nil {
		return nil, "(" + built + " err)", "encodeCharString reports an error for a glyph made by the builder: " + err.Error(), sigCompile, nil
	}
	// compiling reads the glyph only: the same bytes again, the glyph unchanged
	if code2, err2 := cff.VerifC04EncodeCharString(g, float64(dflt)/sc, float64(nom)/sc); err2 != nil || !bytes.Equal(code, code2) || glyphStr(g) != built {
		return code, "(" + built + " changed)", "compiling a glyph twice gives different charstrings or changes the glyph", sigCompile, nil
	}
	decs := "err"
	dec, derr := cff.VerifC05Decode(code, nil, nil, float64(dflt)/sc, float64(nom)/sc)
	if derr == nil {
		decs = glyphStr(dec)
	}
	impl = "(" + built + " (valid 1 " + decs + "))"
	if given != nil && !bytes.Equal(given, code) {
		// the implementation now emits another charstring than the recorded one
		// (another path through the edges is a harmless change of choice): the
		// model judges the recorded one - it must still be a path of the mirror
		// and the library's decoder must still read it -, the oracle below
		// judges the one emitted now
		gdecs := "err"
		if gdec, gerr := cff.VerifC05Decode(given, nil, nil, float64(dflt)/sc, float64(nom)/sc); gerr == nil {
			gdecs = glyphStr(gdec)
		}
		impl = "(" + built + " (valid 1 " + gdecs + "))"
	}
	want := wantGlyph(w, cs)
	ref := c05.Reference(code, emptyTab, emptyTab, dflt, nom, false)
	if ref.MaxStack > 48 {
		return code, impl, "emitted charstring needs more than 48 stack entries", sigCompile, labels
	}
	if drawBeforeMove(cs) {
		labels = append(labels, "class:draw-before-move")
		// not a glyph: it must not come back as some other outline
		if ref.Kind != "err" || derr == nil {
			return code, impl, "a glyph that draws before its first MoveTo is compiled to a charstring that reads as " + clip(ref.String()) + " / " + clip(decs), sigCompile, labels
		}
		return code, impl, "", "", labels
	}
	if got := ref.String(); got != want {
		return code, impl, "the emitted charstring does not draw the calls that were made: specification reads " + clip(got) + ", calls " + clip(want), sigCompile, labels
	}
	if decs != want {
		return code, impl, "the library's decoder does not reproduce the calls: " + clip(decs) + ", calls " + clip(want), sigCompile, labels
	}
	return code, impl, "", "", labels
}

// ---- (3) fonts ----

// outline of glyph number i of a generated font: a pure function of the seed
func outlineFromSeed(s int64) []bcall {
	if s == 0 {
		return nil
	}
	if s < 0 { // a glyph that draws before its first MoveTo
		r := vlib.NewRand(uint64(-s))
		return genCalls(r, r.Range(1, 6), false, true)
	}
	r := vlib.NewRand(uint64(s))
	return genCalls(r, r.Range(1, 12), true, false)
}

type fontCase struct {
	cidKeyed bool
	nfd      int
	ws       []int64
	fds      []int
	seeds    []int64
}

func (fc *fontCase) line() string {
	c := 0
	if fc.cidKeyed {
		c = 1
	}
	return vlib.Line(vlib.Atom("fontw"), vlib.Int(c), vlib.Int(fc.nfd), vlib.Ints(fc.ws), vlib.Ints(fc.fds), vlib.Ints(fc.seeds))
}

func (fc *fontCase) font() *cff.Font {
	o := &cff.Outlines{}
	for i, w := range fc.ws {
		name := fmt.Sprintf("g%d", i)
		if i == 0 {
			name = ".notdef"
		}
		o.Glyphs = append(o.Glyphs, build(name, w, outlineFromSeed(fc.seeds[i])))
	}
	for i := 0; i < fc.nfd; i++ {
		o.Private = append(o.Private, &type1.PrivateDict{BlueScale: 0.039625, BlueShift: 7, BlueFuzz: 1, StdHW: float64(50 + i)})
	}
	fds := fc.fds
	o.FDSelect = func(g glyph.ID) int {
		if int(g) < len(fds) {
			return fds[g]
		}
		return 0
	}
	info := &type1.FontInfo{FontName: "Test", FontMatrix: [6]float64{0.001, 0, 0, 0.001, 0, 0}}
	if fc.cidKeyed {
		o.ROS = &cid.SystemInfo{Registry: "Adobe", Ordering: "Identity", Supplement: 0}
		o.GIDToCID = make([]cid.CID, len(fc.ws))
		for i := range o.GIDToCID {
			o.GIDToCID[i] = cid.CID(i)
		}
		for i := 0; i < fc.nfd; i++ {
			o.FontMatrices = append(o.FontMatrices, matrix.Identity)
		}
	} else {
		o.Encoding = cff.StandardEncoding(o.Glyphs)
	}
	return &cff.Font{FontInfo: info, Outlines: o}
}

func entrySx(has bool, o sOperand) vlib.Sx {
	if !has {
		return vlib.Atom("none")
	}
	if !o.isInt {
		return vlib.Atom("real:" + o.r.RatString())
	}
	return vlib.I64(o.i)
}

// operandOf: the width operand of a charstring (scaled), by the reference
// interpreter: run with a default width no glyph can have and nominal width 0
func operandOf(code []byte) (has bool, v int64, ok bool) {
	const sentinel = 123456789*sc + 1
	ref := c05.Reference(code, emptyTab, emptyTab, sentinel, 0, false)
	if ref.Kind != "ok" {
		return false, 0, false
	}
	items, err := vlib.Parse(ref.String())
	if err != nil || len(items) != 1 {
		return false, 0, false
	}
	l, err := vlib.AsList(items[0])
	if err != nil || len(l) < 2 {
		return false, 0, false
	}
	w, err := vlib.AsI64(l[1])
	if err != nil {
		return false, 0, false
	}
	if w == sentinel {
		return false, 0, true
	}
	return true, w, true
}

// fontRun writes the font, reads it with the specification reader and with
// cff.Read; observation = ((private entries per Font DICT) (width operand per
// glyph) (widths cff.Read reports)); oracle = the property on the real code.
func fontRun(fc *fontCase) (impl, fail, sig string, excluded bool, labels []string) {
	defer func() {
		if e := recover(); e != nil {
			impl, fail, sig = "panic", fmt.Sprint("panic: ", e), sigPanic
		}
	}()
	f := fc.font()
	// the pair the writer compiles the charstrings against (selectWidths,
	// truncated, a non-finite nominal width replaced by 0): a width operand
	// relative to it that does not fit a Type 2 operand is C04's open finding
	outOfRange := writerOperandRange(fc.ws)
	buf := &bytes.Buffer{}
	if err := f.Write(buf); err != nil {
		return "write-err", "Font.Write: " + err.Error(), sigWidth, false, nil
	}
	data := buf.Bytes()
	// Write reads the font only: a second Write gives the same bytes and the
	// glyphs still hold the calls that were made
	buf2 := &bytes.Buffer{}
	if err := f.Write(buf2); err != nil || !bytes.Equal(buf2.Bytes(), data) {
		return "write-twice", "writing the same font twice gives different bytes", sigWidth, false, nil
	}
	for i, g := range f.Glyphs {
		if glyphStr(g) != wantGlyph(fc.ws[i], outlineFromSeed(fc.seeds[i])) {
			return "write-changed", fmt.Sprintf("Font.Write changed glyph %d", i), sigOutline, false, nil
		}
	}
	anyDBM := false
	for _, s := range fc.seeds {
		if drawBeforeMove(outlineFromSeed(s)) {
			anyDBM = true
		}
	}
	sf, serr := sRead(data)
	if serr != nil {
		return "spec-err", "the written font does not follow TN5176: " + serr.Error(), sigWidth, false, nil
	}
	if len(sf.charstrings) != len(fc.ws) {
		return "spec-err", fmt.Sprintf("%d charstrings for %d glyphs", len(sf.charstrings), len(fc.ws)), sigWidth, false, nil
	}
	if len(sf.fds) != fc.nfd {
		return "spec-err", fmt.Sprintf("%d private dictionaries written, %d given", len(sf.fds), fc.nfd), sigWidth, false, nil
	}
	entries, ops, rd := vlib.List{}, vlib.List{}, vlib.List{}
	for _, fd := range sf.fds {
		entries = append(entries, vlib.L(entrySx(fd.hasDef, fd.def), entrySx(fd.hasNom, fd.nom)))
	}
	// the specification's reading of every glyph
	for i, code := range sf.charstrings {
		if sf.fdsel[i] != fc.fds[i] && fail == "" {
			fail, sig = fmt.Sprintf("glyph %d: FDSelect %d written as %d", i, fc.fds[i], sf.fdsel[i]), sigWidth
		}
		fd := sf.fds[sf.fdsel[i]]
		var dflt, nom int64
		exact := true
		if fd.hasDef {
			v, ok := fd.def.scaled()
			dflt, exact = v, exact && ok
		}
		if fd.hasNom {
			v, ok := fd.nom.scaled()
			nom, exact = v, exact && ok
		}
		has, v, ok := operandOf(code)
		calls := outlineFromSeed(fc.seeds[i])
		dbm := drawBeforeMove(calls)
		switch {
		case !ok && !dbm:
			ops = append(ops, vlib.Atom("bad"))
			if fail == "" {
				fail, sig = fmt.Sprintf("glyph %d: the charstring is rejected by the specification", i), sigOutline
			}
			continue
		case !ok:
			ops = append(ops, vlib.Atom("bad"))
			continue
		case has:
			ops = append(ops, vlib.I64(v))
		default:
			ops = append(ops, vlib.Atom("none"))
		}
		if outOfRange(i) {
			excluded = true
		}
		if !exact {
			if fail == "" {
				fail, sig = fmt.Sprintf("glyph %d: a width entry of its Private DICT is not on the 16.16 grid", i), sigWidth
			}
			continue
		}
		want := wantGlyph(fc.ws[i], calls)
		got := c05.Reference(code, emptyTab, emptyTab, dflt, nom, false).String()
		if got != want && fail == "" {
			if outOfRange(i) {
				fail = fmt.Sprintf("glyph %d of width %d/65536: the width operand relative to nominalWidthX %d does not fit a Type 2 operand; read back as %s", i, fc.ws[i], nom/sc, clip(got))
				sig = sigBigDelta
			} else if strings.HasPrefix(got, fmt.Sprintf("(ok %d ", fc.ws[i])) {
				fail, sig = fmt.Sprintf("glyph %d (Font DICT %d): the specification reads %s, built %s", i, sf.fdsel[i], clip(got), clip(want)), sigOutline
			} else {
				fail, sig = fmt.Sprintf("glyph %d (Font DICT %d, defaultWidthX %d nominalWidthX %d): the specification reads %s, built %s", i, sf.fdsel[i], dflt/sc, nom/sc, clip(got), clip(want)), sigWidth
			}
		}
	}
	// the library's reading
	out, rerr := cff.Read(bytes.NewReader(data))
	switch {
	case rerr != nil && anyDBM:
		rd = append(rd, vlib.Atom("read-err"))
		labels = append(labels, "class:draw-before-move")
	case rerr != nil:
		rd = append(rd, vlib.Atom("read-err"))
		if fail == "" {
			fail, sig = "cff.Read rejects the font Font.Write produced: "+rerr.Error(), sigWidth
		}
	case anyDBM:
		labels = append(labels, "class:draw-before-move")
		if fail == "" {
			fail, sig = "a glyph that draws before its first MoveTo was written and read back without an error", sigOutline
		}
	default:
		if len(out.Glyphs) != len(fc.ws) {
			if fail == "" {
				fail, sig = "glyph count differs after Write and Read", sigWidth
			}
			break
		}
		for i, g := range out.Glyphs {
			wv, ok := scaled(g.Width)
			if !ok {
				rd = append(rd, vlib.Atom("offgrid"))
			} else {
				rd = append(rd, vlib.I64(wv))
			}
			if fail != "" {
				continue
			}
			if !ok || wv != fc.ws[i] {
				if outOfRange(i) {
					fail, sig = fmt.Sprintf("glyph %d: width %d/65536 read back as %v (operand outside the Type 2 range)", i, fc.ws[i], g.Width), sigBigDelta
				} else {
					fail, sig = fmt.Sprintf("glyph %d (Font DICT %d): width %d/65536 read back as %v", i, fc.fds[i], fc.ws[i], g.Width), sigWidth
				}
				continue
			}
			if got, want := glyphStr(g), wantGlyph(fc.ws[i], outlineFromSeed(fc.seeds[i])); got != want {
				fail, sig = fmt.Sprintf("glyph %d: cff.Read gives %s, built %s", i, clip(got), clip(want)), sigOutline
			}
			if out.FDSelect(glyph.ID(i)) != fc.fds[i] && fail == "" {
				fail, sig = fmt.Sprintf("glyph %d: private dictionary %d read back as %d", i, fc.fds[i], out.FDSelect(glyph.ID(i))), sigWidth
			}
		}
	}
	if anyDBM {
		excluded = true
	}
	return vlib.Str(vlib.L(entries, ops, rd)), fail, sig, excluded, labels
}

// writerOperandRange tells for which glyphs the width operand the writer has
// to emit lies outside [-32768, 32768).
func writerOperandRange(ws []int64) func(i int) bool {
	f := make([]float64, len(ws))
	for i, w := range ws {
		f[i] = float64(w) / sc
	}
	d, n := cff.VerifC04SelectWidths(f)
	d, n = math.Trunc(d), math.Trunc(n)
	if math.IsInf(n, 0) || math.IsNaN(n) {
		n = 0
	}
	return func(i int) bool {
		w := float64(ws[i]) / sc
		return w != d && (w-n < -32768 || w-n >= 32768)
	}
}

// selectCase: selectWidths alone
func selectCase(ws []int64) (impl string) {
	defer func() {
		if e := recover(); e != nil {
			impl = "panic"
		}
	}()
	f := make([]float64, len(ws))
	for i, w := range ws {
		f[i] = float64(w) / sc
	}
	d, n := cff.VerifC04SelectWidths(f)
	conv := func(x float64) vlib.Sx {
		if math.IsInf(x, 0) {
			return vlib.Atom("inf")
		}
		v, ok := scaled(x)
		if !ok {
			return vlib.Atom("offgrid")
		}
		return vlib.I64(v)
	}
	return vlib.Str(vlib.L(conv(d), conv(n)))
}

// ---- off-grid coordinates: oracle only ----

func offGridFont(seed uint64) (fail string) {
	defer func() {
		if e := recover(); e != nil {
			fail = fmt.Sprint("panic: ", e)
		}
	}()
	r := vlib.NewRand(seed)
	fl := func() float64 { return float64(r.Range(-3000000, 3000000)) / 9973.0 }
	o := &cff.Outlines{Private: []*type1.PrivateDict{{BlueScale: 0.039625, BlueShift: 7, BlueFuzz: 1}},
		FDSelect: func(glyph.ID) int { return 0 }}
	n := r.Range(1, 5)
	for i := 0; i < n; i++ {
		name := fmt.Sprintf("g%d", i)
		if i == 0 {
			name = ".notdef"
		}
		g := cff.NewGlyph(name, float64(r.Range(0, 1000*sc))/sc)
		g.MoveTo(fl(), fl())
		for k := r.Range(0, 40); k > 0; k-- {
			switch r.Intn(5) {
			case 0:
				g.MoveTo(fl(), fl())
			case 1, 2:
				g.LineTo(fl(), fl())
			default:
				g.CurveTo(fl(), fl(), fl(), fl(), fl(), fl())
			}
		}
		o.Glyphs = append(o.Glyphs, g)
	}
	o.Encoding = cff.StandardEncoding(o.Glyphs)
	f := &cff.Font{FontInfo: &type1.FontInfo{FontName: "Test", FontMatrix: [6]float64{0.001, 0, 0, 0.001, 0, 0}}, Outlines: o}
	buf := &bytes.Buffer{}
	if err := f.Write(buf); err != nil {
		return "Write: " + err.Error()
	}
	out, err := cff.Read(bytes.NewReader(buf.Bytes()))
	if err != nil {
		return "Read: " + err.Error()
	}
	if len(out.Glyphs) != n {
		return "glyph count differs"
	}
	const eps = 1.0/65536 + 1e-12
	for i, g := range o.Glyphs {
		d := out.Glyphs[i]
		if d.Width != g.Width {
			return fmt.Sprintf("glyph %d: width %v read back as %v", i, g.Width, d.Width)
		}
		if len(d.Cmds) != len(g.Cmds) {
			return fmt.Sprintf("glyph %d: %d commands read back as %d", i, len(g.Cmds), len(d.Cmds))
		}
		for j, c := range g.Cmds {
			dc := d.Cmds[j]
			if dc.Op != c.Op || len(dc.Args) != len(c.Args) {
				return fmt.Sprintf("glyph %d: command %d differs", i, j)
			}
			for k := range c.Args {
				if diff := dc.Args[k] - c.Args[k]; diff > eps || diff < -eps {
					return fmt.Sprintf("glyph %d command %d coordinate %d: %v read back as %v", i, j, k, c.Args[k], dc.Args[k])
				}
			}
		}
	}
	return ""
}

// ---- parsing of case lines (corpus, replay) ----

func parseCalls(x vlib.Sx) ([]bcall, error) {
	l, err := vlib.AsList(x)
	if err != nil {
		return nil, err
	}
	var out []bcall
	for _, e := range l {
		el, err := vlib.AsList(e)
		if err != nil || len(el) < 1 {
			return nil, errors.New("bad call")
		}
		k, _ := vlib.AsAtom(el[0])
		want := map[string]int{"m": 2, "l": 2, "c": 6}[k]
		if want == 0 || len(el) != want+1 {
			return nil, errors.New("bad call")
		}
		c := bcall{kind: k[0]}
		for _, a := range el[1:] {
			v, err := vlib.AsI64(a)
			if err != nil {
				return nil, err
			}
			c.a = append(c.a, v)
		}
		out = append(out, c)
	}
	return out, nil
}

func parseI64s(x vlib.Sx) ([]int64, error) {
	l, err := vlib.AsList(x)
	if err != nil {
		return nil, err
	}
	out := make([]int64, len(l))
	for i, e := range l {
		if out[i], err = vlib.AsI64(e); err != nil {
			return nil, err
		}
	}
	return out, nil
}

func parseFont(items []vlib.Sx) (*fontCase, error) {
	if len(items) != 6 {
		return nil, errors.New("want 6 items")
	}
	c, e1 := vlib.AsInt(items[1])
	nfd, e2 := vlib.AsInt(items[2])
	ws, e3 := parseI64s(items[3])
	fds, e4 := vlib.AsInts(items[4])
	seeds, e5 := parseI64s(items[5])
	if e1 != nil || e2 != nil || e3 != nil || e4 != nil || e5 != nil || len(fds) != len(ws) || len(seeds) != len(ws) || nfd < 1 {
		return nil, errors.New("bad fontw case")
	}
	for _, fd := range fds {
		if fd < 0 || fd >= nfd {
			return nil, errors.New("bad fontw case: FDSelect outside the dictionaries")
		}
	}
	return &fontCase{cidKeyed: c == 1, nfd: nfd, ws: ws, fds: fds, seeds: seeds}, nil
}

// RunCase re-executes one case line.
func RunCase(line string) (impl, fail, sig string, err error) {
	line = strings.TrimPrefix(line, "!")
	items, err := vlib.Parse(line)
	if err != nil || len(items) == 0 {
		return "", "", "", errors.New("bad case")
	}
	kind, _ := vlib.AsAtom(items[0])
	switch kind {
	case "rnum":
		xs, err := parseI64s(items[1])
		if err != nil {
			return "", "", "", err
		}
		impl, fail, sig = rnumCase(xs)
		return impl, fail, sig, nil
	case "build":
		if len(items) != 3 {
			return "", "", "", errors.New("want 3 items")
		}
		w, e1 := vlib.AsI64(items[1])
		cs, e2 := parseCalls(items[2])
		if e1 != nil || e2 != nil {
			return "", "", "", errors.New("bad build case")
		}
		impl, fail, sig = buildCase(w, cs)
		return impl, fail, sig, nil
	case "bcs":
		if len(items) != 6 {
			return "", "", "", errors.New("want 6 items")
		}
		dflt, e1 := vlib.AsI64(items[1])
		nom, e2 := vlib.AsI64(items[2])
		w, e3 := vlib.AsI64(items[3])
		cs, e4 := parseCalls(items[4])
		given, e5 := vlib.AsBytes(items[5])
		if e1 != nil || e2 != nil || e3 != nil || e4 != nil || e5 != nil {
			return "", "", "", errors.New("bad bcs case")
		}
		_, impl, fail, sig, _ = compileCase(dflt, nom, w, cs, given)
		return impl, fail, sig, nil
	case "ext":
		if len(items) != 2 {
			return "", "", "", errors.New("want 2 items")
		}
		cs, err := parseXcmds(items[1])
		if err != nil {
			return "", "", "", err
		}
		impl, fail, sig = extentCase(cs)
		return impl, fail, sig, nil
	case "sw":
		ws, err := parseI64s(items[1])
		if err != nil {
			return "", "", "", err
		}
		return selectCase(ws), "", "", nil
	case "fontw":
		fc, err := parseFont(items)
		if err != nil {
			return "", "", "", err
		}
		impl, fail, sig, _, _ = fontRun(fc)
		return impl, fail, sig, nil
	case "boff":
		if len(items) != 2 {
			return "", "", "", errors.New("want 2 items")
		}
		s, err := vlib.AsI64(items[1])
		if err != nil {
			return "", "", "", err
		}
		if f := offGridFont(uint64(s)); f != "" {
			return "boff", f, "c04b-offgrid-error-bound", nil
		}
		return "boff", "", "", nil
	}
	return "", "", "", errors.New("unknown case kind")
}
