package main

import (
	"fmt"
	"os"
	"path/filepath"
	"strings"

	"seehuhn.de/go/sfnt/verifharness/c04b"
	"seehuhn.de/go/sfnt/verifharness/vlib"
)

func main() {
	if len(os.Args) == 3 && os.Args[1] == "mkcorpus" {
		for name, lines := range c04b.CorpusLines() {
			if err := os.WriteFile(filepath.Join(os.Args[2], name), []byte(strings.Join(lines, "\n")+"\n"), 0o644); err != nil {
				fmt.Fprintln(os.Stderr, err)
				os.Exit(2)
			}
		}
		return
	}
	vlib.Main(c04b.Gen, c04b.RunCase)
}
