package c04b

import (
	"seehuhn.de/go/sfnt/verifharness/vlib"
)

// CorpusLines returns the hand-picked boundary cases of corpus/C04B (written
// by `vh-C04B mkcorpus <dir>`; the charstrings inside the bcs lines are the
// ones the implementation emitted when the corpus was made).
func CorpusLines() map[string][]string {
	u := func(v int64) int64 { return v * sc }
	m := func(x, y int64) bcall { return bcall{kind: 'm', a: []int64{x, y}} }
	l := func(x, y int64) bcall { return bcall{kind: 'l', a: []int64{x, y}} }
	c := func(a ...int64) bcall { return bcall{kind: 'c', a: a} }
	seqs := [][]bcall{
		{},
		{m(0, 0)},
		{m(u(10), u(10)), m(u(10), u(10))}, // MoveTo twice, to the same point
		{m(u(10), u(10)), m(u(20), u(30)), m(0, 0)},                          // only MoveTo calls
		{m(u(10), u(10)), l(u(10), u(10)), l(u(10), u(10))},                  // zero-length lines
		{m(u(10), u(10)), l(u(20), u(10)), m(u(20), u(10)), l(u(20), u(30))}, // MoveTo to the current point between lines
		{m(0, 0), l(u(50), 0), l(u(50), u(50)), l(0, u(50)), l(0, 0)},        // explicitly closed square
		{m(1, -1), l(u(107)+1, u(108)-1), c(u(108), u(108), u(1131), u(1132), u(1132)+32768, -u(1131)-1)},
		{m(u(15000), -u(15000)), l(-u(15000), u(15000)), l(u(15000), -u(15000))}, // deltas of 30000
		{m(u(5), u(5)), c(u(5), u(5), u(5), u(5), u(5), u(5))},                   // degenerate curve
		{l(u(10), u(10)), l(u(20), 0)},                                           // drawing before any MoveTo
		{c(u(10), u(10), u(20), u(20), u(30), 0), m(0, 0)},                       // curve before any MoveTo
	}
	out := map[string][]string{}
	for _, cs := range seqs {
		out["builder.txt"] = append(out["builder.txt"], vlib.Line(vlib.Atom("build"), vlib.I64(u(500)+1), callsSx(cs)))
		for _, p := range [][3]int64{{u(500), u(600), u(500)}, {u(500), u(600), u(700) + 32768}, {0, 0, u(107)}, {u(500) + 1, u(600) + 3, u(600) + 3}} {
			code, _, _, _, _ := compileCase(p[0], p[1], p[2], cs, nil)
			out["builder.txt"] = append(out["builder.txt"],
				vlib.Line(vlib.Atom("bcs"), vlib.I64(p[0]), vlib.I64(p[1]), vlib.I64(p[2]), callsSx(cs), vlib.Hex(code)))
		}
	}
	widths := [][]int64{
		{},
		{u(500)},
		{u(500) + 32768},                 // one glyph, fractional width
		{u(500) + 32768, u(500) + 32768}, // all glyphs share one fractional width
		{u(500), u(500), u(500)},         // nominal width +Inf -> 0
		{u(500), u(500), u(393), u(900)}, // truncated nominal width = default width, non-zero
		{u(500), u(600), u(600), u(500)}, // two tied most frequent widths
		{u(600), u(500), u(500), u(600)}, // the same tie, other order
		{u(100), u(200), u(300)},         // all distinct
		{0, 0, 0, u(300), u(407)},        // default 0 (entry left out), a width equal to the nominal width
		{u(500) + 32768, u(500) + 32768, u(500) + 32768, u(300), u(300)},
		{-u(500), -u(500), -u(100), -u(900)},
		{u(500) + 32768, u(500) + 32768, u(300) + 16384, u(700) + 49152, u(500) + 32768},
		{u(40000), u(40000), u(1), u(2)},                   // widths the histogram skips
		{u(32767), u(32767), u(32768), u(32768), u(32768)}, // the skip boundary: 32768 is skipped, 32767 counted
		{-u(32767), -u(32768), -u(32768)},
		{u(1), u(213), u(107)}, // span just below 214
		{u(1), u(215), u(108)}, // span just above 214
		{u(2), u(3)},           // mean 2.5 rounds away from zero
		{-u(2), -u(3), -u(3)},
	}
	for _, ws := range widths {
		out["widths.txt"] = append(out["widths.txt"], vlib.Line(vlib.Atom("sw"), vlib.Ints(ws)))
		if len(ws) == 0 {
			continue
		}
		n := len(ws)
		seeds := make([]int64, n)
		for i := range seeds {
			if i%2 == 1 {
				seeds[i] = int64(1000 + i)
			}
		}
		fc := &fontCase{ws: ws, nfd: 1, fds: make([]int, n), seeds: seeds}
		out["widths.txt"] = append(out["widths.txt"], fc.line())
		fds := make([]int, n)
		for i := range fds {
			fds[i] = []int{0, 2, 3}[i%3] // private dictionary 1 has no glyphs
		}
		fc2 := &fontCase{cidKeyed: true, ws: ws, nfd: 4, fds: fds, seeds: seeds}
		out["widths.txt"] = append(out["widths.txt"], fc2.line())
	}
	var bnd []int64
	for _, b := range []int64{0, 107, 108, 1131, 1132, 32767} {
		bnd = append(bnd, b*sc, -b*sc, b*sc+1, -b*sc-1)
	}
	bnd = append(bnd, fixMin, fixMax, -32768*sc)
	for i := range bnd {
		if bnd[i] < fixMin || bnd[i] > fixMax {
			bnd[i] = 0
		}
	}
	for _, cs := range seqs {
		var xs []xcmd
		for i, cl := range cs {
			if i == 1 {
				xs = append(xs, xcmd{mask: []byte{0xa0}})
			}
			xs = append(xs, xcmd{call: cl})
		}
		out["extent.txt"] = append(out["extent.txt"], vlib.Line(vlib.Atom("ext"), xcmdsSx(xs)))
	}
	out["extent.txt"] = append(out["extent.txt"],
		vlib.Line(vlib.Atom("ext"), xcmdsSx([]xcmd{{mask: []byte{1}, cntr: true}})),
		vlib.Line(vlib.Atom("ext"), xcmdsSx([]xcmd{{call: m(-u(10)-1, u(5)+1)}, {call: c(u(900), u(900), -u(900), -u(900), u(3), -u(7)+65535)}})),
		vlib.Line(vlib.Atom("ext"), xcmdsSx([]xcmd{{call: m(-u(15000), u(15000))}, {call: l(u(15000), -u(15000))}})),
		// every coordinate negative / positive: the initial zeros must not take part
		vlib.Line(vlib.Atom("ext"), xcmdsSx([]xcmd{{call: m(-u(10), -u(10))}, {call: l(-u(20), -u(5))}})),
		vlib.Line(vlib.Atom("ext"), xcmdsSx([]xcmd{{call: m(u(10), u(10))}, {call: l(u(20), u(5)+1)}})))
	out["numbers.txt"] = []string{vlib.Line(vlib.Atom("rnum"), vlib.Ints(bnd))}
	return out
}
