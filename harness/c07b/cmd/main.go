package main

import (
	"seehuhn.de/go/sfnt/verifharness/c07b"
	"seehuhn.de/go/sfnt/verifharness/vlib"
)

func main() { vlib.Main(c07b.Gen, c07b.RunCase) }
