// Package c07b is the harness of part C07B of property C07: the STATE a
// gtab.Context and a sfnt.Layouter keep between calls.  It runs histories of
// Apply / Layout calls on ONE context / layouter, hands the caller's memory
// (glyph slices cut out of larger arrays, with spare capacity and sentinels;
// the lookup-index slice given to NewContext; texts cut out of one rune array)
// to the real code, and records after EVERY call
//
//	the returned slice over its whole capacity (stale tail included),
//	whether it still lives in the caller's array, what the caller's array holds,
//	and the surviving state read through the hooks VerifC07b... (ctx.seq header,
//	ctx.lookup, ctx.keep, len/cap of ctx.stack and the dead frames behind len,
//	len/cap/contents of ctx.scratch; Layouter.buf over its capacity),
//
// in the syntax the extracted model (coq/C07B/Model.v: M_ctx_apply,
// M_layouter_layout) prints.  The oracle states the property on the real code
// without the model: call k on the used context equals the same call on a
// brand-new context over newly built tables and a copy of the same memory;
// the stack is empty after every call; the keep function left in the context
// is the current lookup's; nothing outside the documented footprint of the
// caller's memory changes.
//
// Case grammar (tables as in harness/c07/sx.go):
//
//	ctx ll gdef (lklen lkcap) ( (src (lookup-array) (glyph ... over cap) len) ... )
//	lay font gdef gsub gpos ( (rune ...) ... )    font = ((rune gid) ...) nglyphs (width ...)
//	                                               gsub, gpos = nil | (ll (lookup ...))
//	!lay ...                                       (oracle only: a font that cannot be written / described to the model)
//
// src (ignored by the model) says where the input slice comes from: new (its
// own array), feed (the slice the previous call returned, re-sliced to len).
package c07b

import (
	"errors"
	"fmt"
	"strings"
	"time"
	"unsafe"

	"seehuhn.de/go/postscript/funit"
	"seehuhn.de/go/sfnt/glyph"
	"seehuhn.de/go/sfnt/opentype/gdef"
	"seehuhn.de/go/sfnt/opentype/gtab"
	"seehuhn.de/go/sfnt/verifharness/c07"
	"seehuhn.de/go/sfnt/verifharness/vlib"
)

const watchdog = 20 * time.Second

// Call is one Apply call of a history.
type Call struct {
	Src     string  // "new" | "feed"
	Lookups []int   // what the caller's lookup array holds at this call (over its capacity)
	Arr     []c07.G // the input slice's array from its first element to its capacity (filled in by the run for feed)
	N       int     // len of the input slice
	alt     []c07.G // generator only: input to use instead of feeding when the previous result is large
}

// CtxCase is a history of Apply calls on one Context.
type CtxCase struct {
	LL     []*c07.Lookup
	Gdef   *c07.Gdef
	LkLen  int
	LkCap  int
	Calls  []*Call
	Labels []string
}

// ---------------------------------------------------------------- syntax

func gSx(g c07.G) vlib.Sx {
	t := make(vlib.List, len(g.Text))
	for j, r := range g.Text {
		t[j] = vlib.Int(int(r))
	}
	return vlib.L(vlib.Int(g.Gid), t, vlib.Int(g.X), vlib.Int(g.Y), vlib.Int(g.A))
}

func gsSx(s []c07.G) vlib.Sx {
	l := make(vlib.List, len(s))
	for i, g := range s {
		l[i] = gSx(g)
	}
	return l
}

func intsSx(xs []int) vlib.Sx {
	l := make(vlib.List, len(xs))
	for i, x := range xs {
		l[i] = vlib.Int(x)
	}
	return l
}

func llSx(lls []*c07.Lookup) vlib.Sx {
	ll := make(vlib.List, len(lls))
	for i, l := range lls {
		ss := make(vlib.List, len(l.Subs))
		for j, s := range l.Subs {
			ss[j] = s.Sx()
		}
		ll[i] = vlib.L(vlib.Int(l.Flags), vlib.Int(l.MFS), ss)
	}
	return ll
}

func (c *CtxCase) Line() string {
	calls := make(vlib.List, len(c.Calls))
	for i, cl := range c.Calls {
		calls[i] = vlib.L(vlib.Atom(cl.Src), intsSx(cl.Lookups), gsSx(cl.Arr), vlib.Int(cl.N))
	}
	return vlib.Line(vlib.Atom("ctx"), llSx(c.LL), c.Gdef.Sx(), vlib.L(vlib.Int(c.LkLen), vlib.Int(c.LkCap)), calls)
}

// parseTables reads "ll gdef" through C07's parser.
func parseTables(ll, gd vlib.Sx) ([]*c07.Lookup, *c07.Gdef, error) {
	c, err := c07.ParseCase([]vlib.Sx{ll, gd, vlib.List{}, vlib.List{}})
	if err != nil {
		return nil, nil, err
	}
	return c.LL, c.Gdef, nil
}

func parseG(x vlib.Sx) (g c07.G, err error) {
	f, err := vlib.AsList(x)
	if err != nil || len(f) != 5 {
		return g, errors.New("glyph: 5 fields expected")
	}
	if g.Gid, err = vlib.AsInt(f[0]); err != nil {
		return
	}
	t, err := vlib.AsInts(f[1])
	if err != nil {
		return
	}
	for _, r := range t {
		g.Text = append(g.Text, rune(r))
	}
	if g.X, err = vlib.AsInt(f[2]); err != nil {
		return
	}
	if g.Y, err = vlib.AsInt(f[3]); err != nil {
		return
	}
	g.A, err = vlib.AsInt(f[4])
	return
}

func parseGs(x vlib.Sx) ([]c07.G, error) {
	l, err := vlib.AsList(x)
	if err != nil {
		return nil, err
	}
	out := make([]c07.G, len(l))
	for i, y := range l {
		if out[i], err = parseG(y); err != nil {
			return nil, err
		}
	}
	return out, nil
}

func parseCtxCase(items []vlib.Sx) (*CtxCase, error) {
	if len(items) != 5 {
		return nil, errors.New("ctx case: 5 items expected")
	}
	ll, gd, err := parseTables(items[1], items[2])
	if err != nil {
		return nil, err
	}
	c := &CtxCase{LL: ll, Gdef: gd}
	hdr, err := vlib.AsInts(items[3])
	if err != nil || len(hdr) != 2 {
		return nil, errors.New("lookup header: (len cap) expected")
	}
	c.LkLen, c.LkCap = hdr[0], hdr[1]
	calls, err := vlib.AsList(items[4])
	if err != nil {
		return nil, err
	}
	for _, x := range calls {
		f, err := vlib.AsList(x)
		if err != nil || len(f) != 4 {
			return nil, errors.New("call: 4 fields expected")
		}
		cl := &Call{}
		if cl.Src, err = vlib.AsAtom(f[0]); err != nil {
			return nil, err
		}
		if cl.Lookups, err = vlib.AsInts(f[1]); err != nil {
			return nil, err
		}
		if cl.Arr, err = parseGs(f[2]); err != nil {
			return nil, err
		}
		if cl.N, err = vlib.AsInt(f[3]); err != nil {
			return nil, err
		}
		if cl.N > len(cl.Arr) || len(cl.Lookups) != c.LkCap || c.LkLen > c.LkCap {
			return nil, errors.New("call: inconsistent lengths")
		}
		c.Calls = append(c.Calls, cl)
	}
	return c, nil
}

// ---------------------------------------------------------------- memory

const (
	preGlyphs  = 2
	postGlyphs = 2
)

// sentinel glyph for position i of an arena (in front of / behind the slice)
func sentinel(i int) glyph.Info {
	return glyph.Info{GID: glyph.ID(64000 + i%1000), Text: []rune{rune(0xE000 + i%1000)}, XOffset: 7, YOffset: -7, Advance: 77}
}

// SpareG is what the generators put into the spare capacity of an input slice.
func SpareG(i int) c07.G {
	return c07.G{Gid: 65000 + i%500, Text: []rune{rune(0xF000 + i%500)}, X: 3, Y: -3, A: 33}
}

// arena is one array a caller owns: sentinels, the slice's capacity region, sentinels.
type arena struct {
	mem   []glyph.Info // whole array
	runes []rune       // the rune array the texts of the region were cut from (with sentinels)
	snapR []rune       // its contents when it was built
}

// newArena builds the caller's array for a slice whose capacity region holds
// arr; the texts are sub-slices of ONE rune array, each with the capacity
// reaching to the end of that array.
func newArena(arr []c07.G) (*arena, []glyph.Info) {
	a := &arena{mem: make([]glyph.Info, preGlyphs+len(arr)+postGlyphs)}
	total := 0
	for _, g := range arr {
		total += len(g.Text)
	}
	a.runes = make([]rune, 0, total+4)
	for i := 0; i < preGlyphs; i++ {
		a.mem[i] = sentinel(i)
	}
	for i, g := range arr {
		st := len(a.runes)
		a.runes = append(a.runes, g.Text...)
		var text []rune
		if g.Text != nil {
			text = a.runes[st:len(a.runes)]
		}
		a.mem[preGlyphs+i] = glyph.Info{GID: glyph.ID(g.Gid), Text: text,
			XOffset: funit.Int16(g.X), YOffset: funit.Int16(g.Y), Advance: funit.Int16(g.A)}
	}
	for i := 0; i < postGlyphs; i++ {
		a.mem[preGlyphs+len(arr)+i] = sentinel(100 + i)
	}
	a.runes = append(a.runes, 0x2603, 0x2603, 0x2603, 0x2603)
	a.snapR = append([]rune(nil), a.runes...)
	region := a.mem[preGlyphs : preGlyphs+len(arr) : preGlyphs+len(arr)]
	return a, region
}

// sentinelsOK checks the glyphs in front of and behind the capacity region
// and the rune array.
func (a *arena) sentinelsOK() string {
	n := len(a.mem)
	for i := 0; i < preGlyphs; i++ {
		if !sameInfo(a.mem[i], sentinel(i)) {
			return fmt.Sprintf("glyph %d in front of the slice changed", i)
		}
	}
	for i := 0; i < postGlyphs; i++ {
		if !sameInfo(a.mem[n-postGlyphs+i], sentinel(100+i)) {
			return fmt.Sprintf("glyph %d behind the capacity of the slice changed", i)
		}
	}
	full := a.runes[:cap(a.runes)]
	if len(full) < len(a.snapR) {
		return "rune array shrank"
	}
	for i, r := range a.snapR {
		if full[i] != r {
			return fmt.Sprintf("rune %d of the array the input texts were cut from changed (%d -> %d)", i, r, full[i])
		}
	}
	return ""
}

func sameInfo(a, b glyph.Info) bool {
	if a.GID != b.GID || a.XOffset != b.XOffset || a.YOffset != b.YOffset || a.Advance != b.Advance || len(a.Text) != len(b.Text) {
		return false
	}
	for i := range a.Text {
		if a.Text[i] != b.Text[i] {
			return false
		}
	}
	return true
}

func fromInfo(s []glyph.Info) []c07.G {
	out := make([]c07.G, len(s))
	for i, g := range s {
		out[i] = c07.G{Gid: int(g.GID), Text: append([]rune(nil), g.Text...), X: int(g.XOffset), Y: int(g.YOffset), A: int(g.Advance)}
	}
	return out
}

func sameG(a, b c07.G) bool {
	if a.Gid != b.Gid || a.X != b.X || a.Y != b.Y || a.A != b.A || len(a.Text) != len(b.Text) {
		return false
	}
	for i := range a.Text {
		if a.Text[i] != b.Text[i] {
			return false
		}
	}
	return true
}

func sameGs(a, b []c07.G) bool {
	if len(a) != len(b) {
		return false
	}
	for i := range a {
		if !sameG(a[i], b[i]) {
			return false
		}
	}
	return true
}

func sameBase(a, b []glyph.Info) bool {
	if cap(a) == 0 || cap(b) == 0 {
		return cap(a) == 0 && cap(b) == 0
	}
	return unsafe.SliceData(a) == unsafe.SliceData(b)
}

// ---------------------------------------------------------------- one Apply call on the real code

type applyObs struct {
	Panic  string
	Hang   bool
	Ret    []c07.G // the returned slice over its capacity
	RetLen int
	Shared bool
	Caller []c07.G // the input slice's array over its capacity, afterwards
	ret    []glyph.Info
}

func applyGuarded(ctx *gtab.Context, in []glyph.Info) (o applyObs) {
	type res struct {
		out []glyph.Info
		msg string
	}
	ch := make(chan res, 1)
	go func() {
		defer func() {
			if e := recover(); e != nil {
				ch <- res{nil, "panic: " + fmt.Sprint(e)}
			}
		}()
		ch <- res{ctx.Apply(in), ""}
	}()
	select {
	case r := <-ch:
		if r.msg != "" {
			o.Panic = r.msg
			return
		}
		o.ret = r.out
		o.RetLen = len(r.out)
		o.Ret = fromInfo(r.out[:cap(r.out)])
		o.Shared = sameBase(r.out, in)
		o.Caller = fromInfo(in[:cap(in)])
	case <-time.After(watchdog):
		o.Hang = true
	}
	return
}

func stateSx(st gtab.VerifC07bCtx, fresh bool) vlib.Sx {
	var seq vlib.Sx = vlib.Atom("nil")
	if !st.SeqNil && st.SeqCap > 0 { // a slice without capacity: nil and empty are not told apart
		seq = vlib.L(vlib.Bool(fresh), vlib.Int(st.SeqLen), vlib.Int(st.SeqCap))
	}
	var lookup vlib.Sx = vlib.Atom("nil")
	if st.LookupIdx != -1 {
		lookup = vlib.Int(st.LookupIdx)
	}
	var keep vlib.Sx = vlib.Atom("nil")
	if !st.KeepNil {
		keep = vlib.L(vlib.Int(int(st.KeepFlags)), vlib.Int(int(st.KeepSet)))
	}
	stack := vlib.List{vlib.Int(st.StackLen), vlib.Int(st.StackCap)}
	for _, d := range st.Dead {
		if d.Nil {
			stack = append(stack, vlib.Atom("nil"))
		} else {
			stack = append(stack, vlib.L(vlib.Int(d.NPos), vlib.Int(d.NActs), vlib.Int(d.EndPos)))
		}
	}
	scratch := vlib.List{vlib.Int(st.ScratchCap)}
	for _, p := range st.Scratch {
		scratch = append(scratch, vlib.Int(p))
	}
	return vlib.L(seq, lookup, keep, stack, scratch)
}

// checkState is the model-free state invariant on the real Context.
func checkState(st gtab.VerifC07bCtx, ll gtab.LookupList, gd *gdef.Table) string {
	if st.StackLen != 0 {
		return fmt.Sprintf("ctx.stack holds %d frames after Apply returned", st.StackLen)
	}
	if st.ScratchLen > st.ScratchCap || st.SeqLen > st.SeqCap {
		return "impossible slice header"
	}
	if st.LookupIdx == -2 {
		return "ctx.lookup points to a table that is not in the lookup list"
	}
	if st.LookupIdx == -1 {
		if !st.KeepNil {
			return "ctx.keep is set although no lookup ever ran"
		}
		return ""
	}
	meta := ll[st.LookupIdx].Meta
	wantNil := gd == nil || gd.GlyphClass == nil || meta.LookupFlags == 0
	if wantNil != st.KeepNil {
		return fmt.Sprintf("ctx.keep nil=%v, but lookup %d (flags %d) with this GDEF needs nil=%v", st.KeepNil, st.LookupIdx, meta.LookupFlags, wantNil)
	}
	if !st.KeepNil {
		if !st.KeepGdefSame {
			return "ctx.keep holds another GDEF table than the context"
		}
		if st.KeepFlags != meta.LookupFlags || st.KeepSet != meta.MarkFilteringSet {
			return fmt.Sprintf("ctx.keep holds flags %d / set %d, the current lookup %d has flags %d / set %d",
				st.KeepFlags, st.KeepSet, st.LookupIdx, meta.LookupFlags, meta.MarkFilteringSet)
		}
	}
	return ""
}

// ---------------------------------------------------------------- the probe

// probes collects what the hook subtable VerifC07bProbe reports: it sits in
// front of the subtables of every lookup, never matches, and checks the state
// of the real Context every time applyAt runs - in the middle of a call: the
// keep function in use is the one of the lookup in use; no two live frames
// share an InputPos array and ctx.scratch is not the array of a live frame.
type probes struct{ msgs []string }

func addProbes(ll gtab.LookupList) *probes {
	p := &probes{}
	sub := &gtab.VerifC07bProbe{Report: func(m string) {
		if len(p.msgs) < 20 {
			p.msgs = append(p.msgs, m)
		}
	}}
	for _, l := range ll {
		if l != nil {
			l.Subtables = append([]gtab.Subtable{sub}, l.Subtables...)
		}
	}
	return p
}

// ---------------------------------------------------------------- a history on one Context

type verdict struct {
	Impl   string
	Fail   string
	Sig    string
	NonTri bool
	Labels []string
}

func (c *CtxCase) tables() (gtab.LookupList, *gdef.Table) {
	ll, gd, _ := (&c07.Case{LL: c.LL, Gdef: c.Gdef}).Gtab()
	return ll, gd
}

func maxRepl(lls []*c07.Lookup) int {
	m := 1
	for _, l := range lls {
		for _, s := range l.Subs {
			if s.Kind == "g21" {
				for _, r := range s.Lists {
					if len(r) > m {
						m = len(r)
					}
				}
			}
		}
	}
	return m
}

func lkArena(c *CtxCase, contents []int) (whole []gtab.LookupIndex, slice []gtab.LookupIndex) {
	whole = make([]gtab.LookupIndex, 2+c.LkCap+2)
	whole[0], whole[1] = 0xFFF0, 0xFFF1
	whole[2+c.LkCap], whole[3+c.LkCap] = 0xFFF2, 0xFFF3
	for i, x := range contents {
		whole[2+i] = gtab.LookupIndex(x)
	}
	return whole, whole[2 : 2+c.LkLen : 2+c.LkCap]
}

// runCtx executes the history on the real code.  It fills in Arr of the feed
// calls (what the memory holds when the call is made).
func runCtx(c *CtxCase) (v verdict) {
	fail := func(sig, format string, args ...any) {
		if v.Fail == "" {
			v.Fail = fmt.Sprintf(format, args...)
			v.Sig = sig
		}
	}
	if len(c.Calls) == 0 {
		v.Impl = "()"
		return
	}
	ll, gd := c.tables()
	probe := addProbes(ll)
	lkWhole, lkSlice := lkArena(c, c.Calls[0].Lookups)
	lkNew := append([]gtab.LookupIndex(nil), lkWhole...)
	ctx := gtab.NewContext(ll, gd, lkSlice)
	for i := range lkWhole {
		if lkWhole[i] != lkNew[i] {
			fail("c07b-caller-memory", "NewContext changed element %d of the array behind the lookup slice it was given", i-2)
		}
	}
	if !ctx.VerifC07bLookupsIs(lkSlice) {
		v.Labels = append(v.Labels, "lookups:copied")
	}
	grow := maxRepl(c.LL) > 1
	var arenas []*arena
	var prevRet []glyph.Info
	var obs []string
	for k, cl := range c.Calls {
		// the caller may rewrite its own lookup array between calls
		for i, x := range cl.Lookups {
			lkWhole[2+i] = gtab.LookupIndex(x)
		}
		lkBefore := append([]gtab.LookupIndex(nil), lkWhole...)
		var in []glyph.Info
		if cl.Src == "feed" && prevRet != nil && cap(prevRet) > 0 {
			full := prevRet[:cap(prevRet)]
			if cl.Arr != nil && !sameGs(fromInfo(full), cl.Arr) {
				// replay of a line whose memory cannot be reproduced by feeding: own array
				var a *arena
				a, in = newArena(cl.Arr)
				arenas = append(arenas, a)
				cl.Src = "new"
			} else {
				cl.Arr = fromInfo(full)
				in = full
			}
		} else {
			cl.Src = "new"
			var a *arena
			a, in = newArena(cl.Arr)
			arenas = append(arenas, a)
		}
		if cl.N > len(cl.Arr) {
			cl.N = len(cl.Arr)
		}
		in = in[:cl.N]
		before := fromInfo(in[:cap(in)])
		o := applyGuarded(ctx, in)
		if o.Hang {
			obs = append(obs, "hang")
			fail("c07b-hang", "Apply call %d did not return within %v", k, watchdog)
			break
		}
		if o.Panic != "" {
			obs = append(obs, "panic")
			fail("c07b-panic", "Apply call %d of the history: %s", k, o.Panic)
			break
		}
		st := ctx.VerifC07bState()
		fresh := st.SeqLen == len(o.ret) && st.SeqCap == cap(o.ret) && (cap(o.ret) == 0 || ctx.VerifC07bSeqIs(o.ret))
		obs = append(obs, vlib.Str(vlib.L(vlib.Atom("ok"), vlib.L(vlib.Int(o.RetLen), gsSx(o.Ret)), vlib.Bool(o.Shared), gsSx(o.Caller), stateSx(st, fresh))))
		prevRet = o.ret

		// ---- the property, on the real code
		if msg := checkState(st, ll, gd); msg != "" {
			fail("c07b-state-invariant", "after Apply call %d: %s", k, msg)
		}
		if len(probe.msgs) > 0 {
			fail("c07b-midcall-invariant", "during Apply call %d: %s", k, strings.Join(dedup(probe.msgs), "; "))
			probe.msgs = nil
		}
		// (2) the same call on a brand-new Context over new tables and a copy of the memory
		ll2, gd2 := c.tables()
		_, lk2 := lkArena(c, cl.Lookups)
		a2, in2 := newArena(before)
		o2 := applyGuarded(gtab.NewContext(ll2, gd2, lk2), in2[:cl.N])
		switch {
		case o2.Hang || o2.Panic != "":
			fail("c07b-history-dependent", "Apply call %d returns on the used Context, a new Context gives %s%v", k, o2.Panic, o2.Hang)
		case o2.RetLen != o.RetLen || !sameGs(o2.Ret[:o2.RetLen], o.Ret[:o.RetLen]):
			fail("c07b-history-dependent", "Apply call %d on the used Context returns %s, a new Context on the same input returns %s",
				k, vlib.Str(gsSx(o.Ret[:o.RetLen])), vlib.Str(gsSx(o2.Ret[:o2.RetLen])))
		case o2.Shared != o.Shared || !sameGs(o2.Ret, o.Ret) || !sameGs(o2.Caller, o.Caller):
			fail("c07b-memory-history-dependent", "Apply call %d: same result, but the memory differs from a new Context's (shared %v/%v, cap %d/%d, caller's array %s / %s)",
				k, o.Shared, o2.Shared, len(o.Ret), len(o2.Ret), vlib.Str(gsSx(o.Caller)), vlib.Str(gsSx(o2.Caller)))
		}
		if msg := a2.sentinelsOK(); msg != "" {
			fail("c07b-caller-memory", "new Context, call %d: %s", k, msg)
		}
		// (4) the caller's memory outside the documented footprint
		for _, a := range arenas {
			if msg := a.sentinelsOK(); msg != "" {
				fail("c07b-caller-memory", "after Apply call %d: %s", k, msg)
			}
		}
		for i := range lkWhole {
			if lkWhole[i] != lkBefore[i] {
				fail("c07b-caller-memory", "Apply call %d changed element %d of the array behind the lookup slice handed to NewContext", k, i-2)
			}
		}
		if !ctx.VerifC07bLookupsIs(lkSlice) && !contains(v.Labels, "lookups:copied") {
			fail("c07b-caller-memory", "ctx.lookups no longer is the caller's slice after call %d", k)
		}
		if !grow {
			// no multiple substitution: in place, nothing behind len is touched
			if !o.Shared {
				fail("c07b-caller-memory", "Apply call %d moved the sequence to another array although no lookup can lengthen it", k)
			}
			if o.RetLen > cl.N {
				fail("c07b-caller-memory", "Apply call %d lengthened the sequence although no lookup can", k)
			}
			if !sameGs(o.Caller[cl.N:], before[cl.N:]) {
				fail("c07b-caller-memory", "Apply call %d wrote behind the length of the input slice (spare capacity %s -> %s) although no lookup can lengthen the sequence",
					k, vlib.Str(gsSx(before[cl.N:])), vlib.Str(gsSx(o.Caller[cl.N:])))
			}
		}
		if len(o.Caller) != len(before) {
			fail("c07b-caller-memory", "capacity of the caller's slice changed")
		}
		// shrinking clears what it frees; growing in place only reaches up to the new length
		if o.Shared {
			hi := cl.N
			if o.RetLen > hi {
				hi = o.RetLen
			}
			_ = hi // the exact high-water mark is the model's ao_hw; compared through the caller's array
		}
		if st.StackCap > 0 || st.ScratchCap > 0 || o.RetLen != cl.N || !sameGs(o.Ret[:o.RetLen], before[:cl.N]) {
			v.NonTri = true
		}
		if !o.Shared {
			v.Labels = append(v.Labels, "mem:moved")
		} else if o.RetLen > cl.N {
			v.Labels = append(v.Labels, "mem:grown-in-place")
		} else if o.RetLen < cl.N {
			v.Labels = append(v.Labels, "mem:shrunk")
		}
		if st.ScratchCap > 0 {
			v.Labels = append(v.Labels, "state:scratch")
		}
		if st.StackCap > 0 {
			v.Labels = append(v.Labels, "state:stack-array")
		}
		if !st.KeepNil {
			v.Labels = append(v.Labels, "state:keep")
		}
	}
	v.Impl = "(" + strings.Join(obs, " ") + ")"
	v.Labels = append(v.Labels, fmt.Sprintf("calls:%d", len(c.Calls)))
	return
}

func contains(xs []string, x string) bool {
	for _, y := range xs {
		if x == y {
			return true
		}
	}
	return false
}

func dedup(xs []string) []string {
	seen := map[string]bool{}
	var out []string
	for _, x := range xs {
		if !seen[x] {
			seen[x] = true
			out = append(out, x)
		}
	}
	return out
}

// RunCase re-executes one case line.
func RunCase(line string) (impl, fail, sig string, err error) {
	oracleOnly := strings.HasPrefix(line, "!")
	items, err := vlib.Parse(strings.TrimPrefix(line, "!"))
	if err != nil {
		return "", "", "", err
	}
	if len(items) == 0 {
		return "", "", "", errors.New("empty case")
	}
	kind, err := vlib.AsAtom(items[0])
	if err != nil {
		return "", "", "", err
	}
	switch kind {
	case "ctx":
		c, err := parseCtxCase(items)
		if err != nil {
			return "", "", "", err
		}
		v := runCtx(c)
		return v.Impl, v.Fail, v.Sig, nil
	case "lay", "layfile":
		lc, err := parseLayCase(items)
		if err != nil {
			return "", "", "", err
		}
		lc.File = kind == "layfile"
		v := runLay(lc)
		if oracleOnly {
			return "oracle-only", v.Fail, v.Sig, nil
		}
		return v.Impl, v.Fail, v.Sig, nil
	}
	return "", "", "", fmt.Errorf("unknown case kind %q", kind)
}
