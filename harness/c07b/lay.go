package c07b

import (
	"bytes"
	"errors"
	"fmt"
	"sort"
	"strings"
	"sync"
	"time"

	"golang.org/x/text/language"
	"seehuhn.de/go/sfnt"
	"seehuhn.de/go/sfnt/cff"
	"seehuhn.de/go/sfnt/glyph"
	"seehuhn.de/go/sfnt/internal/debug"
	"seehuhn.de/go/sfnt/opentype/gdef"
	"seehuhn.de/go/sfnt/opentype/gtab"
	"seehuhn.de/go/sfnt/verifharness/c07"
	"seehuhn.de/go/sfnt/verifharness/vlib"
)

// Layouter histories: Font.NewLayouter once, then Layout for every string.
// The font is internal/debug.MakeSimpleFont ('A'..'Z' = glyphs 4..29) with the
// case's GSUB / GPOS / GDEF tables, in memory or after Write -> sfnt.Read (then
// the tables handed to the model are the ones read back).

// Tab is one of GSUB / GPOS: the lookup list and the lookups the feature selects.
type Tab struct {
	LL      []*c07.Lookup
	Lookups []int
}

type LayCase struct {
	Gdef   *c07.Gdef
	Gsub   *Tab
	Gpos   *Tab
	Strs   [][]rune
	File   bool // lay the strings out with the font after Write -> sfnt.Read
	Labels []string

	// filled in by the run: what the model is told about the font
	cmap    [][2]int
	nglyphs int
	widths  []int
}

var baseFont = sync.OnceValue(debug.MakeSimpleFont)

func simpleFont() *sfnt.Font {
	f := *baseFont()
	o := *(f.Outlines.(*cff.Outlines))
	o.Encoding = nil
	f.Outlines = &o
	f.Gsub, f.Gpos, f.Gdef = nil, nil, nil
	return &f
}

func (t *Tab) info(gpos bool) *gtab.Info {
	if t == nil {
		return nil
	}
	ll, _, _ := (&c07.Case{LL: t.LL}).Gtab()
	lks := make([]gtab.LookupIndex, len(t.Lookups))
	for i, x := range t.Lookups {
		lks[i] = gtab.LookupIndex(x)
	}
	return &gtab.Info{
		ScriptList:  gtab.ScriptListInfo{language.MustParse("und-Latn"): {Required: 0, Optional: nil}},
		FeatureList: gtab.FeatureListInfo{{Tag: "test", Lookups: lks}},
		LookupList:  ll,
	}
}

func gdefTable(g *c07.Gdef) *gdef.Table {
	_, gd, _ := (&c07.Case{Gdef: g}).Gtab()
	return gd
}

func gdefFromTable(t *gdef.Table) *c07.Gdef {
	if t == nil {
		return nil
	}
	g := &c07.Gdef{HasClass: t.GlyphClass != nil}
	for k, v := range t.GlyphClass {
		g.Class = append(g.Class, c07.KV{K: int(k), V: int(v)})
	}
	sort.Slice(g.Class, func(i, j int) bool { return g.Class[i].K < g.Class[j].K })
	for k, v := range t.MarkAttachClass {
		g.Attach = append(g.Attach, c07.KV{K: int(k), V: int(v)})
	}
	sort.Slice(g.Attach, func(i, j int) bool { return g.Attach[i].K < g.Attach[j].K })
	for _, s := range t.MarkGlyphSets {
		var l []int
		for k, ok := range s {
			if ok {
				l = append(l, int(k))
			}
		}
		sort.Ints(l)
		g.Sets = append(g.Sets, l)
	}
	return g
}

func (c *LayCase) font() *sfnt.Font {
	f := simpleFont()
	f.Gsub = c.Gsub.info(false)
	f.Gpos = c.Gpos.info(true)
	f.Gdef = gdefTable(c.Gdef)
	return f
}

func roundTrip(f *sfnt.Font) (f2 *sfnt.Font, err error) {
	defer func() {
		if e := recover(); e != nil {
			f2, err = nil, fmt.Errorf("panic: %v", e)
		}
	}()
	buf := &bytes.Buffer{}
	if _, err := f.Write(buf); err != nil {
		return nil, err
	}
	return sfnt.Read(bytes.NewReader(buf.Bytes()))
}

// ---------------------------------------------------------------- syntax

func tabSx(t *Tab) vlib.Sx {
	if t == nil {
		return vlib.Atom("nil")
	}
	return vlib.L(llSx(t.LL), intsSx(t.Lookups))
}

func (c *LayCase) Line() string {
	cm := make(vlib.List, len(c.cmap))
	for i, p := range c.cmap {
		cm[i] = vlib.L(vlib.Int(p[0]), vlib.Int(p[1]))
	}
	strs := make(vlib.List, len(c.Strs))
	for i, s := range c.Strs {
		l := make(vlib.List, len(s))
		for j, r := range s {
			l[j] = vlib.Int(int(r))
		}
		strs[i] = l
	}
	return vlib.Line(vlib.Atom("lay"), vlib.L(cm, vlib.Int(c.nglyphs), intsSx(c.widths)), c.Gdef.Sx(), tabSx(c.Gsub), tabSx(c.Gpos), strs)
}

func parseTab(x vlib.Sx, gd vlib.Sx) (*Tab, error) {
	if a, ok := x.(vlib.Atom); ok && a == "nil" {
		return nil, nil
	}
	f, err := vlib.AsList(x)
	if err != nil || len(f) != 2 {
		return nil, errors.New("table: (ll lookups) expected")
	}
	ll, _, err := parseTables(f[0], gd)
	if err != nil {
		return nil, err
	}
	lks, err := vlib.AsInts(f[1])
	if err != nil {
		return nil, err
	}
	return &Tab{LL: ll, Lookups: lks}, nil
}

func parseLayCase(items []vlib.Sx) (*LayCase, error) {
	if len(items) != 6 {
		return nil, errors.New("lay case: 6 items expected")
	}
	_, gd, err := parseTables(vlib.List{}, items[2])
	if err != nil {
		return nil, err
	}
	c := &LayCase{Gdef: gd}
	if c.Gsub, err = parseTab(items[3], items[2]); err != nil {
		return nil, err
	}
	if c.Gpos, err = parseTab(items[4], items[2]); err != nil {
		return nil, err
	}
	strs, err := vlib.AsList(items[5])
	if err != nil {
		return nil, err
	}
	for _, s := range strs {
		rs, err := vlib.AsInts(s)
		if err != nil {
			return nil, err
		}
		var str []rune
		for _, r := range rs {
			str = append(str, rune(r))
		}
		c.Strs = append(c.Strs, str)
	}
	return c, nil
}

// ---------------------------------------------------------------- the real Layouter

type layObs struct {
	Panic  string
	Hang   bool
	Ret    []c07.G
	RetLen int
	ret    []glyph.Info
}

func layoutGuarded(l *sfnt.Layouter, s string) (o layObs) {
	type res struct {
		out []glyph.Info
		msg string
	}
	ch := make(chan res, 1)
	go func() {
		defer func() {
			if e := recover(); e != nil {
				ch <- res{nil, "panic: " + fmt.Sprint(e)}
			}
		}()
		ch <- res{l.Layout(s), ""}
	}()
	select {
	case r := <-ch:
		if r.msg != "" {
			o.Panic = r.msg
			return
		}
		o.ret = r.out
		o.RetLen = len(r.out)
		o.Ret = fromInfo(r.out[:cap(r.out)])
	case <-time.After(watchdog):
		o.Hang = true
	}
	return
}

var latn = language.MustParse("und-Latn")
var testOn = map[string]bool{"test": true}

func (c *LayCase) layouter(f *sfnt.Font) (l *sfnt.Layouter, err error) {
	defer func() {
		if e := recover(); e != nil {
			l, err = nil, fmt.Errorf("NewLayouter panics: %v", e)
		}
	}()
	return f.NewLayouter(latn, testOn, testOn)
}

func ctxStateSx(ctx *gtab.Context, ret []glyph.Info) vlib.Sx {
	if ctx == nil {
		return vlib.Atom("nil")
	}
	st := ctx.VerifC07bState()
	// inside Layout the GSUB context's sequence may have moved again (GPOS):
	// "fresh" = set by this Layout call; the harness cannot see the pointer of
	// the intermediate slice, the lookups of a Layouter never change, so a
	// non-nil ctx.seq was always set by the latest call
	return stateSx(st, !st.SeqNil)
}

// describeFont fills in what the model is told about the font: the cmap on
// the runes of the strings, the number of glyphs and the widths.
func (c *LayCase) describeFont(f *sfnt.Font) error {
	cm, err := f.CMapTable.GetBest()
	if err != nil {
		return err
	}
	seen := map[rune]bool{}
	c.cmap = nil
	for _, s := range c.Strs {
		for _, r := range s {
			if !seen[r] {
				seen[r] = true
				c.cmap = append(c.cmap, [2]int{int(r), int(cm.Lookup(r))})
			}
		}
	}
	sort.Slice(c.cmap, func(i, j int) bool { return c.cmap[i][0] < c.cmap[j][0] })
	c.nglyphs = f.NumGlyphs()
	c.widths = make([]int, c.nglyphs)
	for i := range c.widths {
		w := f.GlyphWidth(glyph.ID(i))
		if w != float64(int16(w)) {
			return fmt.Errorf("glyph %d: width %v is not an int16", i, w)
		}
		c.widths[i] = int(w)
	}
	return nil
}

func tabFromInfo(info *gtab.Info, ctx *gtab.Context) (*Tab, bool) {
	if info == nil || ctx == nil {
		return nil, info == nil && ctx == nil
	}
	ll, ok := c07.LLFromGtab(info.LookupList)
	if !ok {
		return nil, false
	}
	t := &Tab{LL: ll}
	for _, x := range ctx.VerifC07bLookups() {
		t.Lookups = append(t.Lookups, int(x))
	}
	return t, true
}

// runLay executes the history.  In file mode the case's tables are replaced
// by the tables of the font read back.
func runLay(c *LayCase) (v verdict) {
	fail := func(sig, format string, args ...any) {
		if v.Fail == "" {
			v.Fail = fmt.Sprintf(format, args...)
			v.Sig = sig
		}
	}
	mkFont := func() (*sfnt.Font, error) {
		f := c.font()
		if c.File {
			return roundTrip(f)
		}
		return f, nil
	}
	f, err := mkFont()
	if err != nil {
		v.Impl = "nofont"
		v.Labels = append(v.Labels, "font:unwritable")
		return
	}
	l, err := c.layouter(f)
	if err != nil {
		v.Impl = "nolayouter"
		fail("c07b-layouter", "NewLayouter: %v", err)
		return
	}
	gsubCtx, gposCtx := l.VerifC07bContexts()
	if c.File {
		// the model gets the tables as read back
		gs, ok1 := tabFromInfo(f.Gsub, gsubCtx)
		gp, ok2 := tabFromInfo(f.Gpos, gposCtx)
		if !ok1 || !ok2 {
			v.Impl = "unmodelled"
			v.Labels = append(v.Labels, "font:file-unmodelled")
			return
		}
		c.Gsub, c.Gpos, c.Gdef = gs, gp, gdefFromTable(f.Gdef)
		c.File = false // the line describes an in-memory font with these tables
		v.Labels = append(v.Labels, "font:file")
	} else {
		// FindLookups sorts and prunes the feature's lookups: tell the model what the contexts hold
		if gsubCtx != nil {
			c.Gsub.Lookups = nil
			for _, x := range gsubCtx.VerifC07bLookups() {
				c.Gsub.Lookups = append(c.Gsub.Lookups, int(x))
			}
		}
		if gposCtx != nil {
			c.Gpos.Lookups = nil
			for _, x := range gposCtx.VerifC07bLookups() {
				c.Gpos.Lookups = append(c.Gpos.Lookups, int(x))
			}
		}
		v.Labels = append(v.Labels, "font:memory")
	}
	var probeList []*probes
	if f.Gsub != nil {
		probeList = append(probeList, addProbes(f.Gsub.LookupList))
	}
	if f.Gpos != nil {
		probeList = append(probeList, addProbes(f.Gpos.LookupList))
	}
	if err := c.describeFont(f); err != nil {
		v.Impl = "unmodelled"
		v.Labels = append(v.Labels, "font:unmodelled")
		return
	}
	featBefore := fmt.Sprint(testOn)

	var obs []string
	var prevFull []glyph.Info // the previous result over its capacity (the caller kept the slice)
	var prevCopy []c07.G      // ... and a deep copy of what it held when it was returned
	var prevLen int
	var keptShallow []glyph.Info // a shallow copy of the previous result (what the doc comment allows a caller to keep)
	for k, rs := range c.Strs {
		s := string(rs)
		o := layoutGuarded(l, s)
		if o.Hang {
			obs = append(obs, "hang")
			fail("c07b-hang", "Layout call %d did not return within %v", k, watchdog)
			break
		}
		if o.Panic != "" {
			obs = append(obs, "panic")
			fail("c07b-layout-panic", "Layout call %d (%q): %s", k, s, o.Panic)
			break
		}
		full, n := l.VerifC07bBuf()
		reused := k > 0 && sameBase(o.ret, prevFull)
		if k == 0 {
			reused = cap(o.ret) == 0 // nil buffer "reused" as nil: the model's first call moves off the empty array unless the string is empty
		}
		prevAfter := fromInfo(prevFull)
		if k == 0 {
			prevAfter = nil
			if reused {
				prevAfter = o.Ret
			}
		} else if reused {
			prevAfter = o.Ret
		}
		obs = append(obs, vlib.Str(vlib.L(vlib.Atom("ok"), vlib.L(vlib.Int(o.RetLen), gsSx(o.Ret)), vlib.Bool(reused), gsSx(prevAfter),
			ctxStateSx(gsubCtx, o.ret), ctxStateSx(gposCtx, o.ret))))

		// ---- the property on the real code
		if n != o.RetLen || !sameBase(full, o.ret) && cap(o.ret) > 0 {
			fail("c07b-layout-state", "l.buf is not the slice Layout call %d returned", k)
		}
		for name, ctx := range map[string]*gtab.Context{"gsub": gsubCtx, "gpos": gposCtx} {
			if ctx == nil {
				continue
			}
			info := f.Gsub
			if name == "gpos" {
				info = f.Gpos
			}
			if msg := checkState(ctx.VerifC07bState(), info.LookupList, f.Gdef); msg != "" {
				fail("c07b-state-invariant", "%s context after Layout call %d: %s", name, k, msg)
			}
		}
		for _, p := range probeList {
			if len(p.msgs) > 0 {
				fail("c07b-midcall-invariant", "during Layout call %d: %s", k, strings.Join(dedup(p.msgs), "; "))
				p.msgs = nil
			}
		}
		// (3) a brand-new Layouter over a newly built font gives the same glyphs
		f2, err2 := mkFontLike(c, f)
		if err2 == nil {
			l2, err3 := c.layouter(f2)
			if err3 != nil {
				fail("c07b-layout-history-dependent", "a second NewLayouter fails: %v", err3)
			} else {
				o2 := layoutGuarded(l2, s)
				if o2.Hang || o2.Panic != "" {
					fail("c07b-layout-history-dependent", "Layout call %d returns on the used Layouter, a new Layouter gives %s%v", k, o2.Panic, o2.Hang)
				} else if o2.RetLen != o.RetLen || !sameGs(o2.Ret[:o2.RetLen], o.Ret[:o.RetLen]) {
					fail("c07b-layout-history-dependent", "Layout call %d (%q) on the used Layouter returns %s, a new Layouter returns %s",
						k, s, vlib.Str(gsSx(o.Ret[:o.RetLen])), vlib.Str(gsSx(o2.Ret[:o2.RetLen])))
				}
			}
		}
		// the documented contract: the previous result may be overwritten, but
		// the glyph.Info VALUES a caller copied out of it stay what they were
		// (the Text arrays of an earlier result are never written again)
		if k > 0 {
			if !sameGs(fromInfo(keptShallow), prevCopy[:prevLen]) {
				fail("c07b-layout-text-overwritten", "a shallow copy of the result of Layout call %d changed during call %d: %s -> %s",
					k-1, k, vlib.Str(gsSx(prevCopy[:prevLen])), vlib.Str(gsSx(fromInfo(keptShallow))))
			}
			if !reused && !sameGs(fromInfo(prevFull)[:prevLen], prevCopy[:prevLen]) {
				// the buffer moved: the old array must hold the old result except
				// for what was written before the move; the model says exactly what
				v.Labels = append(v.Labels, "buf:old-result-partly-overwritten")
			}
		}
		if fmt.Sprint(testOn) != featBefore {
			fail("c07b-caller-memory", "the feature map handed to NewLayouter changed")
		}
		prevFull = o.ret[:cap(o.ret)]
		prevCopy = o.Ret
		prevLen = o.RetLen
		keptShallow = append([]glyph.Info(nil), o.ret...)
		if k > 0 {
			if reused {
				v.Labels = append(v.Labels, "buf:reused")
			} else {
				v.Labels = append(v.Labels, "buf:moved")
			}
		}
		if o.RetLen != len(rs) {
			v.NonTri = true
		}
		for j, g := range o.Ret[:o.RetLen] {
			if g.X != 0 || g.Y != 0 || len(g.Text) != 1 || j >= len(rs) || g.Text[0] != rs[j] {
				v.NonTri = true
			}
		}
	}
	v.Impl = "(" + strings.Join(obs, " ") + ")"
	v.Labels = append(v.Labels, fmt.Sprintf("layouts:%d", len(c.Strs)))
	return
}

// mkFontLike builds a new font value with newly built tables equal to the ones
// the history runs on (in file mode the case already holds the tables read back).
func mkFontLike(c *LayCase, f *sfnt.Font) (*sfnt.Font, error) {
	g := simpleFont()
	g.CMapTable = f.CMapTable
	g.Outlines = f.Outlines
	g.Gsub = c.Gsub.info(false)
	g.Gpos = c.Gpos.info(true)
	g.Gdef = gdefTable(c.Gdef)
	return g, nil
}
