package c07b

import (
	"bytes"
	"fmt"
	"sort"
	"strings"

	"golang.org/x/text/language"
	"seehuhn.de/go/sfnt/glyph"
	"seehuhn.de/go/sfnt/opentype/gtab"
	"seehuhn.de/go/sfnt/verifharness/c07"
	"seehuhn.de/go/sfnt/verifharness/vlib"
)

// ---------------------------------------------------------------- helpers

func gl(gid int, text string) c07.G { return c07.G{Gid: gid, Text: []rune(text)} }

// seqOf builds glyphs with one letter of text each.
func seqOf(gids ...int) []c07.G {
	out := make([]c07.G, len(gids))
	for i, g := range gids {
		out[i] = c07.G{Gid: g, Text: []rune{rune('a' + i%26)}}
	}
	return out
}

func withSpare(s []c07.G, spare int) []c07.G {
	out := append([]c07.G(nil), s...)
	for i := 0; i < spare; i++ {
		out = append(out, SpareG(i))
	}
	return out
}

// lkArray is the caller's lookup array: the lookups, then spare elements that
// must never be read.
func lkArray(lookups []int, capacity int) []int {
	out := append([]int(nil), lookups...)
	for i := len(out); i < capacity; i++ {
		out = append(out, 60000+i)
	}
	return out
}

func newCall(lk []int, s []c07.G, spare int) *Call {
	return &Call{Src: "new", Lookups: lk, Arr: withSpare(s, spare), N: len(s)}
}

// feedCall: the input is the slice the previous call returned, re-sliced; alt
// is used instead (as a new array) when that slice has become large.
func feedCall(lk []int, n int, alt []c07.G) *Call {
	return &Call{Src: "feed", Lookups: lk, N: n, alt: alt}
}

const (
	maxFeedCap = 100 // feed only slices up to this capacity
	maxFeedLen = 12  // ... re-sliced to at most this length (self-referential rules multiply the length by up to 33 per call)
)

func many(n, seq, lk int) []c07.Act {
	a := make([]c07.Act, n)
	for i := range a {
		a[i] = c07.Act{Seq: seq, Lk: lk}
	}
	return a
}

func emitCtx(run *vlib.Run, c *CtxCase, labels ...string) {
	v := runCtx(c)
	line := c.Line()
	ls := dedup(append(append(append([]string{"kind:ctx"}, c.Labels...), labels...), v.Labels...))
	idx := run.Add(line, v.Impl, v.NonTri, ls...)
	if v.Fail != "" {
		run.Fail(idx, line, v.Fail, v.Sig)
	}
}

func emitLay(run *vlib.Run, c *LayCase, labels ...string) {
	v := runLay(c)
	ls := dedup(append(append(append([]string{"kind:lay"}, c.Labels...), labels...), v.Labels...))
	if v.Impl == "nofont" || v.Impl == "unmodelled" || v.Impl == "nolayouter" {
		line := "!" + c.Line()
		idx := run.Add(line, "oracle-only", false, append(ls, "lay:"+v.Impl)...)
		if v.Fail != "" {
			run.Fail(idx, line, v.Fail, v.Sig)
		}
		return
	}
	line := c.Line()
	idx := run.Add(line, v.Impl, v.NonTri, ls...)
	if v.Fail != "" {
		run.Fail(idx, line, v.Fail, v.Sig)
	}
}

// ---------------------------------------------------------------- directed tables

var allCov = []int{1, 2, 3, 4, 5, 6, 7, 8, 9, 10, 11, 12, 20, 21, 30}

func incLookup() *c07.Lookup {
	return &c07.Lookup{Subs: []*c07.Sub{{Kind: "g11", Set: allCov, Delta: 100}}}
}

func markGdef() *c07.Gdef {
	return &c07.Gdef{HasClass: true,
		Class:  []c07.KV{{K: 1, V: 1}, {K: 2, V: 1}, {K: 3, V: 1}, {K: 9, V: 2}, {K: 10, V: 3}, {K: 11, V: 3}, {K: 12, V: 3}},
		Attach: []c07.KV{{K: 10, V: 1}, {K: 11, V: 2}, {K: 12, V: 1}},
		Sets:   [][]int{{10}, {11, 12}, {10, 12}}}
}

type tables struct {
	name    string
	ll      []*c07.Lookup
	gdef    *c07.Gdef
	lookups []int
	seqs    [][]int // input glyph ids worth trying
}

func directedTables() []tables {
	var out []tables
	dbl := &c07.Lookup{Subs: []*c07.Sub{{Kind: "g21", Cov: []c07.KV{{K: 1, V: 0}, {K: 2, V: 1}}, Lists: [][]int{{1, 5}, {2, 6, 7}}}}}
	lig := &c07.Lookup{Subs: []*c07.Sub{{Kind: "g41", Cov: []c07.KV{{K: 1, V: 0}},
		Ligs: [][]c07.Lig{{{In: []int{2, 3}, Out: 8}, {In: []int{2}, Out: 9}}}}}}
	// plain substitutions: grow, shrink, both
	out = append(out, tables{"grow", []*c07.Lookup{dbl}, nil, []int{0}, [][]int{{1}, {1, 2}, {3, 1, 3}, {2, 2, 2, 2}, {}, {3}}})
	out = append(out, tables{"shrink", []*c07.Lookup{lig}, nil, []int{0}, [][]int{{1, 2, 3}, {1, 2}, {1, 2, 3, 1, 2, 3, 4}, {4, 1}, {}}})
	out = append(out, tables{"grow+shrink", []*c07.Lookup{dbl, lig, incLookup()}, nil, []int{0, 1, 2}, [][]int{{1, 2, 3}, {1}, {2, 1, 2}, {3, 3}}})
	// ligature skipping marks: keep function in the context, skipped glyphs moved
	out = append(out, tables{"lig-marks", []*c07.Lookup{{Flags: 8, Subs: lig.Subs}}, markGdef(), []int{0},
		[][]int{{1, 10, 2, 11, 3}, {1, 2, 10}, {10, 1, 10, 2}, {1}}})
	out = append(out, tables{"lig-set", []*c07.Lookup{{Flags: 0x10, MFS: 1, Subs: lig.Subs}, {Flags: 0x10, MFS: 0, Subs: incLookup().Subs}}, markGdef(), []int{0, 1},
		[][]int{{1, 10, 2, 3}, {1, 11, 2, 3}, {1, 12, 2}}})
	// nested lookups with the same flag word and different mark filtering sets, reached in both orders
	// (a keep function remembered per flag word would be the wrong one for the second)
	out = append(out, tables{"nested-sets", []*c07.Lookup{
		{Flags: 8, Subs: []*c07.Sub{{Kind: "sc1", Cov: []c07.KV{{K: 1, V: 0}, {K: 2, V: 1}},
			Rules: [][]c07.Rule{{{In: []int{3}, Acts: []c07.Act{{Seq: 0, Lk: 1}}}}, {{In: []int{3}, Acts: []c07.Act{{Seq: 0, Lk: 2}}}}}}}},
		{Flags: 0x10, MFS: 0, Subs: []*c07.Sub{{Kind: "g41", Cov: []c07.KV{{K: 1, V: 0}}, Ligs: [][]c07.Lig{{{In: []int{3}, Out: 6}}}}}},
		{Flags: 0x10, MFS: 1, Subs: []*c07.Sub{{Kind: "g41", Cov: []c07.KV{{K: 2, V: 0}}, Ligs: [][]c07.Lig{{{In: []int{3}, Out: 7}}}}}}},
		markGdef(), []int{0}, [][]int{{2, 3}, {1, 11, 3}, {2, 10, 3}, {1, 10, 3}, {1, 3}, {2, 11, 3, 1, 11, 3}}})
	// budget: more nested actions than the engine runs
	for _, n := range []int{63, 64, 65, 130} {
		out = append(out, tables{fmt.Sprintf("budget-%d", n), []*c07.Lookup{
			{Subs: []*c07.Sub{{Kind: "sc1", Cov: []c07.KV{{K: 1, V: 0}, {K: 2, V: 1}},
				Rules: [][]c07.Rule{{{Acts: many(n, 0, 1)}}, {{Acts: many(1, 0, 1)}}}}}}, incLookup()}, nil, []int{0},
			[][]int{{1}, {2}, {1, 2}, {2, 1, 1}}})
	}
	// budget hit while the sequence grows: nested multiple substitution
	out = append(out, tables{"budget-grow", []*c07.Lookup{
		{Subs: []*c07.Sub{{Kind: "sc3", SetsI: [][]int{{1}}, Acts: many(70, 0, 1)}}},
		{Subs: []*c07.Sub{{Kind: "g21", Cov: []c07.KV{{K: 1, V: 0}}, Lists: [][]int{{1, 4}}}}}}, nil, []int{0},
		[][]int{{1}, {1, 1}, {2, 1, 2}, {}}})
	// out-of-range sequence and lookup indices, in the order and in actions
	out = append(out, tables{"out-of-range", []*c07.Lookup{
		{Subs: []*c07.Sub{{Kind: "sc1", Cov: []c07.KV{{K: 1, V: 0}, {K: 2, V: 1}},
			Rules: [][]c07.Rule{{{In: []int{3, 3}, Acts: []c07.Act{{Seq: 5, Lk: 1}, {Seq: 2, Lk: 1}, {Seq: 65535, Lk: 1}, {Seq: 0, Lk: 7}, {Seq: 1, Lk: 1}}}}, {{Acts: many(1, 0, 1)}}}}}},
		incLookup()}, nil, []int{2, 0, 65535, 1}, [][]int{{1, 3, 3}, {2}, {1, 3, 3, 2}, {3}}})
	// nesting: frames pushed and popped, scratch handed around, InputPos grown by a nested insertion
	out = append(out, tables{"nested-insert", []*c07.Lookup{
		{Subs: []*c07.Sub{{Kind: "sc1", Cov: []c07.KV{{K: 1, V: 0}},
			Rules: [][]c07.Rule{{{In: []int{2, 3}, Acts: []c07.Act{{Seq: 1, Lk: 1}, {Seq: 0, Lk: 2}, {Seq: 3, Lk: 3}}}}}}}},
		{Subs: []*c07.Sub{{Kind: "g21", Cov: []c07.KV{{K: 2, V: 0}}, Lists: [][]int{{2, 6, 7, 8}}}}},
		{Subs: []*c07.Sub{{Kind: "cc3", SetsI: [][]int{{1}, {2}}, SetsL: [][]int{{6}}, Acts: []c07.Act{{Seq: 1, Lk: 3}}}}},
		incLookup()}, nil, []int{0}, [][]int{{1, 2, 3}, {1, 2, 3, 1, 2, 3}, {1, 2}, {4, 1, 2, 3, 4}}})
	// nested ligature: fixStackMerge removes / inserts positions
	out = append(out, tables{"nested-merge", []*c07.Lookup{
		{Flags: 8, Subs: []*c07.Sub{{Kind: "sc1", Cov: []c07.KV{{K: 1, V: 0}},
			Rules: [][]c07.Rule{{{In: []int{2}, Acts: []c07.Act{{Seq: 0, Lk: 1}, {Seq: 0, Lk: 2}, {Seq: 1, Lk: 2}}}}}}}},
		{Subs: []*c07.Sub{{Kind: "g41", Cov: []c07.KV{{K: 1, V: 0}}, Ligs: [][]c07.Lig{{{In: []int{10, 2}, Out: 5}, {In: []int{10}, Out: 6}}}}}},
		incLookup()}, markGdef(), []int{0}, [][]int{{1, 10, 2}, {1, 2}, {1, 10, 10, 2, 3}, {1, 10}}})
	// several failing contextual subtables before a match: scratch released and taken again
	out = append(out, tables{"scratch", []*c07.Lookup{
		{Subs: []*c07.Sub{
			{Kind: "sc1", Cov: []c07.KV{{K: 1, V: 0}}, Rules: [][]c07.Rule{{{In: []int{2, 2, 9}}, {In: []int{2, 9}}}}},
			{Kind: "cc1", Cov: []c07.KV{{K: 1, V: 0}}, Rules: [][]c07.Rule{{{Back: []int{7}, In: []int{2}}, {In: []int{2, 2, 2}, Look: []int{9}}}}},
			{Kind: "cc3", SetsI: [][]int{{1}, {2}, {2}}, SetsL: [][]int{{9}}},
			{Kind: "sc3", SetsI: [][]int{{1}, {2}}, Acts: []c07.Act{{Seq: 1, Lk: 1}, {Seq: 0, Lk: 0}}}}},
		incLookup()}, nil, []int{0}, [][]int{{1, 2, 2, 2}, {1, 2}, {1}, {3, 1, 2, 2, 1, 2}}})
	// deep nesting: the stack array grows
	{
		n := 12
		t := tables{name: "deep", lookups: []int{0}, seqs: [][]int{{1, 1}, {1}, {2, 1, 3}}}
		for i := 0; i < n; i++ {
			t.ll = append(t.ll, &c07.Lookup{Subs: []*c07.Sub{{Kind: "sc3", SetsI: [][]int{{1, 2, 3}}, Acts: []c07.Act{{Seq: 0, Lk: i + 1}, {Seq: 0, Lk: n}}}}})
		}
		t.ll = append(t.ll, incLookup())
		out = append(out, t)
	}
	// positioning: in place, never longer
	out = append(out, tables{"gpos", []*c07.Lookup{
		{Subs: []*c07.Sub{{Kind: "p21", Pairs: []c07.PairEnt{{L: 1, R: 2, V1: &c07.VR{0, 0, -50, 0, 0, 0, 0, 0}, V2: &c07.VR{5, 5, 0, 0, 0, 0, 0, 0}}}}}},
		{Flags: 0x10, MFS: 0, Subs: []*c07.Sub{{Kind: "p11", Set: []int{10, 11}, V: &c07.VR{1, 2, 3, 0, 0, 0, 0, 0}}}}},
		markGdef(), []int{0, 1}, [][]int{{1, 2, 10, 11}, {2, 1}, {1, 2, 1, 2}, {}}})
	// no valid lookup at all: ctx.seq is never set
	out = append(out, tables{"no-lookup", []*c07.Lookup{incLookup()}, nil, []int{5, 65535}, [][]int{{1, 2}, {3}}})
	out = append(out, tables{"empty-order", []*c07.Lookup{incLookup()}, nil, []int{}, [][]int{{1, 2}, {}}})
	return out
}

// histories builds memory layouts and call plans for one set of tables.
func histories(t tables, r *vlib.Rand, perTable int) []*CtxCase {
	var out []*CtxCase
	mk := func(label string, lkSpare int) *CtxCase {
		return &CtxCase{LL: t.ll, Gdef: t.gdef, LkLen: len(t.lookups), LkCap: len(t.lookups) + lkSpare,
			Labels: []string{"tables:" + t.name, "plan:" + label}}
	}
	// tight: cap = len for every input (every lengthening reallocates)
	c := mk("tight", 0)
	lk := lkArray(t.lookups, c.LkCap)
	for _, s := range t.seqs {
		c.Calls = append(c.Calls, newCall(lk, seqOf(s...), 0))
	}
	out = append(out, c)
	// roomy: spare capacity 1, 2, 8 ... (lengthening in place, over the sentinels)
	for _, spare := range []int{1, 3, 12} {
		c := mk(fmt.Sprintf("spare-%d", spare), 2)
		lk := lkArray(t.lookups, c.LkCap)
		for _, s := range t.seqs {
			c.Calls = append(c.Calls, newCall(lk, seqOf(s...), spare))
		}
		out = append(out, c)
	}
	// feed: the result of call k is the input of call k+1, re-sliced
	for v := 0; v < perTable; v++ {
		c := mk("feed", v%3)
		lk := lkArray(t.lookups, c.LkCap)
		first := vlib.Pick(r, t.seqs)
		c.Calls = append(c.Calls, newCall(lk, seqOf(first...), r.Intn(6)))
		n := r.Range(2, 7)
		for k := 1; k <= n; k++ {
			switch r.Intn(4) {
			case 0:
				c.Calls = append(c.Calls, newCall(lk, seqOf(vlib.Pick(r, t.seqs)...), r.Intn(6)))
			default:
				// length: keep, shorten, or reach into the stale tail behind len
				c.Calls = append(c.Calls, feedCall(lk, -1-r.Intn(3), seqOf(vlib.Pick(r, t.seqs)...)))
			}
		}
		out = append(out, c)
	}
	return out
}

// resolveFeed turns the symbolic lengths of feed calls (-1 keep, -2 shorter,
// -3 longer) into numbers while the history runs: done by running call by call.
func resolveFeedLens(c *CtxCase) {
	// run a copy step by step to learn the lengths; cheap: the histories are short
	for k, cl := range c.Calls {
		if cl.Src != "feed" || cl.N >= 0 {
			continue
		}
		probe := &CtxCase{LL: c.LL, Gdef: c.Gdef, LkLen: c.LkLen, LkCap: c.LkCap}
		for _, p := range c.Calls[:k] {
			cp := *p
			probe.Calls = append(probe.Calls, &cp)
		}
		last := lastResult(probe)
		if last.c > maxFeedCap || last.c == 0 {
			cl.Src, cl.Arr, cl.N = "new", withSpare(cl.alt, 2), len(cl.alt)
			continue
		}
		switch cl.N {
		case -1:
			cl.N = last.n
		case -2:
			cl.N = last.n / 2
		default:
			cl.N = last.n + (last.c-last.n+1)/2
		}
		if cl.N > maxFeedLen {
			cl.N = maxFeedLen
		}
	}
}

type hdr struct{ n, c int }

// lastResult runs the history and returns len and cap of the last returned slice.
func lastResult(c *CtxCase) hdr {
	ll, gd := c.tables()
	if len(c.Calls) == 0 {
		return hdr{}
	}
	_, lkSlice := lkArena(c, c.Calls[0].Lookups)
	ctx := gtab.NewContext(ll, gd, lkSlice)
	var h hdr
	var prev []glyph.Info
	for _, cl := range c.Calls {
		var in []glyph.Info
		if cl.Src == "feed" && cap(prev) > 0 {
			in = prev[:cap(prev)]
		} else {
			_, in = newArena(cl.Arr)
		}
		n := cl.N
		if n > len(in) {
			n = len(in)
		}
		if n < 0 {
			n = 0
		}
		o := applyGuarded(ctx, in[:n])
		if o.Panic != "" || o.Hang {
			return hdr{}
		}
		prev = o.ret
		h = hdr{len(o.ret), cap(o.ret)}
	}
	return h
}

// ---------------------------------------------------------------- random tables

type tgen struct {
	r     *vlib.Rand
	alpha []int
	marks []int
	n     int  // number of lookups
	file  bool // only what a font file can hold
}

func (t *tgen) gid() int { return vlib.Pick(t.r, t.alpha) }

func (t *tgen) distinct(n int) []int {
	seen := map[int]bool{}
	var out []int
	for len(out) < n && len(seen) < len(t.alpha) {
		g := t.gid()
		if !seen[g] {
			seen[g] = true
			out = append(out, g)
		}
	}
	sort.Ints(out) // coverage tables built from the list take the order as the index order
	return out
}

// cov: coverage indices ascend with the glyph id (what a font file can hold)
func (t *tgen) cov(n int) []c07.KV {
	gs := t.distinct(n)
	sort.Ints(gs)
	out := make([]c07.KV, len(gs))
	for i, g := range gs {
		out[i] = c07.KV{K: g, V: i}
	}
	return out
}

func (t *tgen) gids(lo, hi int) []int {
	n := t.r.Range(lo, hi)
	out := make([]int, n)
	for i := range out {
		out[i] = t.gid()
	}
	return out
}

func (t *tgen) sets(lo, hi int) [][]int {
	n := t.r.Range(lo, hi)
	out := make([][]int, n)
	for i := range out {
		out[i] = t.distinct(t.r.Range(1, 4))
	}
	return out
}

func (t *tgen) acts(inputLen int) []c07.Act {
	n := t.r.Intn(4)
	if t.r.Chance(1, 12) {
		n = t.r.Range(60, 70)
	}
	out := make([]c07.Act, n)
	for i := range out {
		seq := t.r.Intn(inputLen + 1)
		if t.r.Chance(1, 10) {
			seq = vlib.Pick(t.r, []int{inputLen + 3, 65535})
		}
		lk := t.r.Intn(t.n)
		if t.r.Chance(1, 10) {
			lk = vlib.Pick(t.r, []int{t.n, t.n + 5, 65535})
		}
		out[i] = c07.Act{Seq: seq, Lk: lk}
	}
	return out
}

func (t *tgen) vr() *c07.VR {
	if t.r.Chance(1, 6) {
		return nil
	}
	return &c07.VR{t.r.Range(-50, 50), t.r.Range(-50, 50), t.r.Range(-100, 100), 0, 0, 0, 0, 0}
}

var randKinds = []string{"g11", "g12", "g21", "g21", "g31", "g41", "g41", "sc1", "sc2", "sc3", "cc1", "cc2", "cc3", "p11", "p21"}

func (t *tgen) classes() []c07.KV {
	var out []c07.KV
	for _, g := range t.alpha {
		if t.r.Chance(2, 3) {
			out = append(out, c07.KV{K: g, V: t.r.Intn(3)})
		}
	}
	return out
}

func (t *tgen) sub(kind string) *c07.Sub {
	r := t.r
	s := &c07.Sub{Kind: kind}
	switch kind {
	case "g11":
		s.Set = t.distinct(r.Range(1, 5))
		s.Delta = r.Range(1, 3)
	case "g12":
		s.Cov = t.cov(r.Range(1, 4))
		s.Gids = t.gids(len(s.Cov), len(s.Cov))
	case "g21":
		s.Cov = t.cov(r.Range(1, 4))
		for range s.Cov {
			s.Lists = append(s.Lists, t.gids(0, 4))
		}
	case "g31":
		s.Cov = t.cov(r.Range(1, 3))
		for range s.Cov {
			s.Lists = append(s.Lists, t.gids(0, 3))
		}
	case "g41":
		s.Cov = t.cov(r.Range(1, 3))
		for range s.Cov {
			var set []c07.Lig
			for j := r.Range(1, 3); j > 0; j-- {
				set = append(set, c07.Lig{In: t.gids(0, 3), Out: t.gid()})
			}
			s.Ligs = append(s.Ligs, set)
		}
	case "sc1", "cc1":
		s.Cov = t.cov(r.Range(1, 3))
		for range s.Cov {
			var rs []c07.Rule
			for j := r.Range(0, 3); j > 0; j-- {
				in := t.gids(0, 3)
				rule := c07.Rule{In: in, Acts: t.acts(len(in) + 1)}
				if kind == "cc1" {
					rule.Back, rule.Look = t.gids(0, 2), t.gids(0, 2)
				}
				rs = append(rs, rule)
			}
			s.Rules = append(s.Rules, rs)
		}
	case "sc2", "cc2":
		s.Cov = t.cov(r.Range(1, 4))
		cls := t.classes()
		if kind == "sc2" {
			s.Cls = cls
		} else {
			s.Cls, s.Cls2, s.Cls3 = t.classes(), cls, t.classes()
		}
		for c := r.Range(1, 3); c > 0; c-- {
			var rs []c07.Rule
			for j := r.Range(0, 2); j > 0; j-- {
				n := r.Range(0, 2)
				in := make([]int, n)
				for i := range in {
					in[i] = r.Intn(3)
				}
				rule := c07.Rule{In: in, Acts: t.acts(n + 1)}
				if kind == "cc2" {
					rule.Back, rule.Look = []int{r.Intn(3)}[:r.Intn(2)], []int{r.Intn(3)}[:r.Intn(2)]
				}
				rs = append(rs, rule)
			}
			s.Rules = append(s.Rules, rs)
		}
	case "sc3":
		s.SetsI = t.sets(1, 3)
		s.Acts = t.acts(len(s.SetsI))
	case "cc3":
		s.SetsB, s.SetsI, s.SetsL = t.sets(0, 1), t.sets(1, 3), t.sets(0, 2)
		s.Acts = t.acts(len(s.SetsI))
	case "p11":
		s.Set = t.distinct(r.Range(1, 5))
		s.V = t.vr()
	case "p21":
		for j := r.Range(1, 4); j > 0; j-- {
			s.Pairs = append(s.Pairs, c07.PairEnt{L: t.gid(), R: t.gid(), V1: t.vr(), V2: t.vr()})
		}
		// one entry per key
		seen := map[[2]int]bool{}
		var ps []c07.PairEnt
		for _, p := range s.Pairs {
			if !seen[[2]int{p.L, p.R}] {
				seen[[2]int{p.L, p.R}] = true
				ps = append(ps, p)
			}
		}
		s.Pairs = ps
	}
	return s
}

var flagChoices = []int{0, 0, 0, 0, 2, 8, 8, 0x10, 0x10, 0x100, 0x200, 0x0A, 0x18}

// lookupType: subtables of one lookup in a font file share the lookup type
var lookupType = map[string]int{"g11": 1, "g12": 1, "g21": 2, "g31": 3, "g41": 4, "sc1": 5, "sc2": 5, "sc3": 5, "cc1": 6, "cc2": 6, "cc3": 6,
	"p11": 101, "p21": 102}

func (t *tgen) lookup(kinds []string) *c07.Lookup {
	l := &c07.Lookup{Flags: vlib.Pick(t.r, flagChoices), MFS: t.r.Intn(4)}
	first := vlib.Pick(t.r, kinds)
	for j := t.r.Range(1, 3); j > 0; j-- {
		k := vlib.Pick(t.r, kinds)
		if t.file {
			for lookupType[k] != lookupType[first] {
				k = vlib.Pick(t.r, kinds)
			}
		}
		l.Subs = append(l.Subs, t.sub(k))
	}
	return l
}

func (t *tgen) gdef() *c07.Gdef {
	switch t.r.Intn(6) {
	case 0:
		return nil
	case 1:
		return &c07.Gdef{}
	}
	g := &c07.Gdef{HasClass: true}
	for _, a := range t.alpha {
		cl := 1
		if contains3(t.marks, a) {
			cl = 3
		} else if t.r.Chance(1, 6) {
			cl = 2
		}
		g.Class = append(g.Class, c07.KV{K: a, V: cl})
	}
	for _, m := range t.marks {
		g.Attach = append(g.Attach, c07.KV{K: m, V: t.r.Range(1, 2)})
	}
	for j := t.r.Range(0, 3); j > 0; j-- {
		var set []int
		for _, m := range t.marks {
			if t.r.Bool() {
				set = append(set, m)
			}
		}
		g.Sets = append(g.Sets, set)
	}
	return g
}

func contains3(xs []int, x int) bool {
	for _, y := range xs {
		if x == y {
			return true
		}
	}
	return false
}

func randomTables(r *vlib.Rand, alpha, marks []int, kinds []string, file bool) tables {
	t := &tgen{r: r, alpha: alpha, marks: marks, n: r.Range(1, 5), file: file}
	tb := tables{name: "random", gdef: t.gdef()}
	for i := 0; i < t.n; i++ {
		tb.ll = append(tb.ll, t.lookup(kinds))
	}
	for j := r.Range(1, 3); j > 0; j-- {
		x := r.Intn(t.n)
		if r.Chance(1, 10) {
			x = t.n + r.Intn(3)
		}
		tb.lookups = append(tb.lookups, x)
	}
	// one lookup pass can lengthen n glyphs to n*(1+budget*(K-1)) (C07's length_bound):
	// keep the product over the lookup order small
	maxLen := 30
	factor := 1
	K := maxRepl(tb.ll)
	for range tb.lookups {
		factor *= 1 + 64*(K-1)
	}
	for maxLen > 1 && maxLen*factor > 3000 {
		maxLen /= 2
	}
	if maxLen*factor > 3000 {
		tb.lookups = tb.lookups[:1]
		maxLen = 3000 / (1 + 64*(K-1))
		if maxLen > 30 {
			maxLen = 30
		}
	}
	for j := r.Range(3, 6); j > 0; j-- {
		n := vlib.Pick(r, []int{0, 1, 2, 3, 5, 8, 13, 30})
		if n > maxLen {
			n = maxLen
		}
		tb.seqs = append(tb.seqs, t.gids(n, n))
	}
	return tb
}

// ---------------------------------------------------------------- tables that went through the binary reader

func unimplemented(lls []*c07.Lookup) bool {
	bad := func(v *c07.VR) bool {
		return v != nil && (v[3] != 0 || v[4] != 0 || v[5] != 0 || v[6] != 0 || v[7] != 0)
	}
	for _, l := range lls {
		for _, s := range l.Subs {
			if bad(s.V) {
				return true
			}
			for _, v := range s.Vs {
				if bad(v) {
					return true
				}
			}
			for _, e := range s.Pairs {
				if bad(e.V1) || bad(e.V2) {
					return true
				}
			}
			for _, row := range s.Adj {
				for _, e := range row {
					if bad(e.V1) || bad(e.V2) {
						return true
					}
				}
			}
		}
	}
	return false
}

func readInfo(tp gtab.Type, data []byte) (info *gtab.Info, err error) {
	defer func() {
		if e := recover(); e != nil {
			info, err = nil, fmt.Errorf("reader panic: %v", e)
		}
	}()
	return gtab.Read(bytes.NewReader(data), tp)
}

func encodeInfo(ll gtab.LookupList) (data []byte, ok bool) {
	defer func() {
		if e := recover(); e != nil {
			data, ok = nil, false
		}
	}()
	info := &gtab.Info{
		ScriptList:  gtab.ScriptListInfo{language.MustParse("und-Latn"): {Required: 0xFFFF, Optional: []gtab.FeatureIndex{0}}},
		FeatureList: gtab.FeatureListInfo{{Tag: "test", Lookups: []gtab.LookupIndex{0}}},
		LookupList:  ll,
	}
	return info.Encode(), true
}

// genRead: lookup lists encoded, mutated, accepted by gtab.Read and converted
// back - the malformed stream: whatever the reader lets through (out-of-range
// lookup / sequence / class indices, empty replacement lists, ...) under
// histories with every memory plan.
func genRead(run *vlib.Run, r *vlib.Rand, tier string) {
	alpha := []int{1, 2, 3, 4, 5, 6, 9, 10, 11, 12}
	encodable, accepted, used, rejected := 0, 0, 0, 0
	for i := vlib.Count(tier, 70, 1500); i > 0; i-- {
		kinds := []string{"g11", "g12", "g21", "g31", "g41", "sc1", "sc2", "sc3", "cc1", "cc2", "cc3"}
		tp := gtab.Type(gtab.TypeGsub)
		if r.Chance(1, 4) {
			kinds = []string{"p11", "p21", "p21", "sc1", "sc3", "cc1", "cc3"}
			tp = gtab.TypeGpos
		}
		t := randomTables(r, alpha, []int{10, 11, 12}, kinds, true)
		if tp == gtab.TypeGpos {
			t.ll = append(t.ll, &c07.Lookup{Subs: []*c07.Sub{{Kind: "p11", Set: []int{1, 2}, V: &c07.VR{2, 0, 0, 0, 0, 0, 0, 0}}}})
		}
		ll, _, _ := (&c07.Case{LL: t.ll}).Gtab()
		data, ok := encodeInfo(ll)
		if !ok {
			continue
		}
		encodable++
		variants := [][]byte{data}
		for m := vlib.Count(tier, 4, 8); m > 0; m-- {
			d := append([]byte(nil), data...)
			switch r.Intn(4) {
			case 0:
				d = d[:r.Intn(len(d)+1)]
			case 1:
				if len(d) >= 12 {
					q := 10 + r.Intn(len(d)-11)
					v := vlib.Pick(r, []int{0, 1, 2, 0xFFFF, 0x7FFF, 0x8000, len(d), len(d) - 2})
					d[q], d[q+1] = byte(v>>8), byte(v)
				}
			default:
				for k := r.Range(1, 3); k > 0 && len(d) > 10; k-- {
					d[10+r.Intn(len(d)-10)] = byte(r.Uint64())
				}
			}
			variants = append(variants, d)
		}
		for vi, d := range variants {
			info, err := readInfo(tp, d)
			if err != nil || info == nil {
				rejected++
				continue
			}
			accepted++
			lls, conv := c07.LLFromGtab(info.LookupList)
			if !conv || unimplemented(lls) || maxRepl(lls) > 4 || len(lls) > 12 {
				continue
			}
			used++
			tb := tables{name: "read", ll: lls, gdef: t.gdef, lookups: t.lookups, seqs: t.seqs}
			label := "stream:read-valid"
			if vi > 0 {
				label = "stream:read-mutated"
			}
			hs := histories(tb, r, 1)
			c := vlib.Pick(r, hs)
			resolveFeedLens(c)
			emitCtx(run, c, label)
		}
	}
	run.Extra["read_stream"] = fmt.Sprintf("%d encodable lookup lists, %d byte strings accepted by gtab.Read (%d used), %d rejected", encodable, accepted, used, rejected)
}

// ---------------------------------------------------------------- tables of the main development

func c07Tables() []tables {
	var out []tables
	add := func(prefix string, lines []string) {
		for i, ln := range lines {
			items, err := vlib.Parse(ln)
			if err != nil {
				continue
			}
			c, err := c07.ParseCase(items)
			if err != nil || len(c.LL) > 20 {
				continue
			}
			t := tables{name: prefix, ll: c.LL, gdef: c.Gdef, lookups: c.Lookups}
			for _, h := range c.Hist {
				var s []int
				for _, g := range h {
					s = append(s, g.Gid)
				}
				t.seqs = append(t.seqs, s)
			}
			if len(t.seqs) == 0 {
				continue
			}
			_ = i
			out = append(out, t)
		}
	}
	add("c07-directed", c07.DirectedLines())
	add("c07-stale", c07.StaleDirectedLines())
	return out
}

// ---------------------------------------------------------------- lookup array rewritten by the caller

// NewContext keeps the caller's slice: a caller who rewrites its array
// between two calls changes what the next Apply does.  (Only new arrays as
// inputs here, so that "ctx.seq was set by this call" is visible.)
func lookupMutation(r *vlib.Rand) *CtxCase {
	t := directedTables()[2] // grow+shrink, three lookups
	c := &CtxCase{LL: t.ll, Gdef: t.gdef, LkLen: 2, LkCap: 3, Labels: []string{"tables:" + t.name, "plan:lookup-array-rewritten"}}
	choices := [][]int{{0, 1, 2}, {2, 2, 0}, {7, 9, 1}, {1, 0, 0}, {65535, 3, 2}, {2, 7, 7}}
	for k := r.Range(3, 7); k > 0; k-- {
		c.Calls = append(c.Calls, newCall(vlib.Pick(r, choices), seqOf(vlib.Pick(r, t.seqs)...), r.Intn(4)))
	}
	return c
}

// ---------------------------------------------------------------- layouter

const (
	gA = 4 // 'A' in debug.MakeSimpleFont
)

func gidOf(r rune) int { return int(r-'A') + gA }

func layGdef() *c07.Gdef {
	g := &c07.Gdef{HasClass: true}
	for _, c := range "ABCDEF" {
		g.Class = append(g.Class, c07.KV{K: gidOf(c), V: 1})
	}
	for _, c := range "MNO" {
		g.Class = append(g.Class, c07.KV{K: gidOf(c), V: 3})
	}
	g.Class = append(g.Class, c07.KV{K: gidOf('L'), V: 2})
	g.Attach = []c07.KV{{K: gidOf('M'), V: 1}, {K: gidOf('N'), V: 2}, {K: gidOf('O'), V: 1}}
	g.Sets = [][]int{{gidOf('M')}, {gidOf('N'), gidOf('O')}}
	return g
}

type layTables struct {
	name string
	gsub *Tab
	gpos *Tab
	gdef *c07.Gdef
	strs []string
}

func directedLay() []layTables {
	A, B, C, D, L, M, N := gidOf('A'), gidOf('B'), gidOf('C'), gidOf('D'), gidOf('L'), gidOf('M'), gidOf('N')
	kern := &c07.Lookup{Subs: []*c07.Sub{{Kind: "p21", Pairs: []c07.PairEnt{{L: A, R: B, V1: &c07.VR{0, 0, -40, 0, 0, 0, 0, 0}}, {L: L, R: A, V1: &c07.VR{0, 0, -9, 0, 0, 0, 0, 0}, V2: &c07.VR{3, 0, 0, 0, 0, 0, 0, 0}}}}}}
	liga := &c07.Lookup{Flags: 8, Subs: []*c07.Sub{{Kind: "g41", Cov: []c07.KV{{K: A, V: 0}}, Ligs: [][]c07.Lig{{{In: []int{B, C}, Out: L}, {In: []int{B}, Out: D}}}}}}
	multi := &c07.Lookup{Subs: []*c07.Sub{{Kind: "g21", Cov: []c07.KV{{K: D, V: 0}}, Lists: [][]int{{A, M, B}}}}}
	beyond := &c07.Lookup{Subs: []*c07.Sub{{Kind: "g11", Set: []int{gidOf('Z')}, Delta: 40}}}
	ctxl := &c07.Lookup{Subs: []*c07.Sub{{Kind: "sc1", Cov: []c07.KV{{K: C, V: 0}},
		Rules: [][]c07.Rule{{{In: []int{C}, Acts: many(70, 0, 1)}, {In: []int{D}, Acts: []c07.Act{{Seq: 1, Lk: 1}, {Seq: 0, Lk: 3}, {Seq: 9, Lk: 1}}}}}}}}
	markpos := &c07.Lookup{Flags: 0x10, MFS: 0, Subs: []*c07.Sub{{Kind: "p11", Set: []int{M, N}, V: &c07.VR{1, 2, 0, 0, 0, 0, 0, 0}}}}
	return []layTables{
		{"plain", nil, nil, nil, []string{"", "A", "ABC", "ABCDEFGHIJKLMNOPQRSTUVWXYZABCDEFGHIJKLMNOP", "B", "", "AB"}},
		{"kern", nil, &Tab{LL: []*c07.Lookup{kern}, Lookups: []int{0}}, nil, []string{"AB", "ABAB", "A", "LAB", "BA"}},
		{"liga", &Tab{LL: []*c07.Lookup{liga}, Lookups: []int{0}}, nil, layGdef(), []string{"ABC", "AMBNC", "AB", "ABCABCABCABC", "A", "ABMC"}},
		{"multi", &Tab{LL: []*c07.Lookup{multi, liga}, Lookups: []int{0, 1}}, &Tab{LL: []*c07.Lookup{kern, markpos}, Lookups: []int{0, 1}}, layGdef(),
			[]string{"D", "DD", "DDDDDDDD", "ABD", "", "DABCD", "D"}},
		{"budget", &Tab{LL: []*c07.Lookup{ctxl, multi, liga, beyond}, Lookups: []int{0, 3, 65535}}, &Tab{LL: []*c07.Lookup{kern}, Lookups: []int{0, 7}}, layGdef(),
			[]string{"CC", "CD", "CDCD", "Z", "CCZ", "C", "DCD"}},
		{"beyond-font", &Tab{LL: []*c07.Lookup{beyond}, Lookups: []int{0}}, &Tab{LL: []*c07.Lookup{kern}, Lookups: []int{0}}, nil, []string{"Z", "AZB", "ZZ", "a", "AéZ"}},
	}
}

func randomLay(r *vlib.Rand, file bool) *LayCase {
	alpha := []int{}
	for _, c := range "ABCDEFLMNO" {
		alpha = append(alpha, gidOf(c))
	}
	marks := []int{gidOf('M'), gidOf('N'), gidOf('O')}
	c := &LayCase{Labels: []string{"tables:random"}}
	gsubKinds := []string{"g11", "g12", "g21", "g21", "g31", "g41", "g41", "sc1", "sc2", "sc3", "cc1", "cc2", "cc3"}
	gposKinds := []string{"p11", "p21", "p21", "sc1", "sc3", "cc1"}
	var gd *c07.Gdef
	if r.Chance(3, 4) {
		gd = layGdef()
	}
	c.Gdef = gd
	if r.Chance(5, 6) {
		t := randomTables(r, alpha, marks, gsubKinds, file)
		c.Gsub = &Tab{LL: t.ll, Lookups: t.lookups}
	}
	if r.Chance(4, 6) {
		t := randomTables(r, alpha, marks, gposKinds, file)
		// C07's conversion numbers contextual lookups as GPOS types 7/8 only when the list holds a positioning subtable
		t.ll = append(t.ll, &c07.Lookup{Subs: []*c07.Sub{{Kind: "p11", Set: []int{gidOf('A'), gidOf('F')}, V: &c07.VR{2, 0, 0, 0, 0, 0, 0, 0}}}})
		c.Gpos = &Tab{LL: t.ll, Lookups: t.lookups}
	}
	letters := []rune("ABCDEFLMNO")
	for k := r.Range(2, 8); k > 0; k-- {
		n := vlib.Pick(r, []int{0, 1, 2, 3, 4, 6, 9, 17, 33})
		s := make([]rune, n)
		for i := range s {
			s[i] = vlib.Pick(r, letters)
		}
		if r.Chance(1, 10) && n > 0 {
			s[r.Intn(n)] = vlib.Pick(r, []rune{'a', ' ', 0xE9, 'Z'})
		}
		c.Strs = append(c.Strs, s)
	}
	return c
}

// ---------------------------------------------------------------- Gen

func Gen(run *vlib.Run, seed uint64, tier string) {
	run.Rule = "one case = one history of 2-8 calls on ONE gtab.Context (kind:ctx) or ONE sfnt.Layouter (kind:lay); the observation of every call holds the returned slice over its whole capacity, what the caller's array holds afterwards and the surviving state of the context(s) read through the hooks, and is compared with the extracted M_ctx_apply / M_layouter_layout; non-trivial = some call changed the sequence or left buffers (scratch, stack array) in the context"
	r := vlib.NewRand(seed)

	// 1. directed tables with every memory plan
	rd := r.Fork("directed")
	for _, t := range directedTables() {
		for _, c := range histories(t, rd, vlib.Count(tier, 2, 20)) {
			resolveFeedLens(c)
			emitCtx(run, c, "stream:directed")
		}
	}
	// 2. the tables of the main development's directed and stale-state streams
	rc := r.Fork("c07")
	for i, t := range c07Tables() {
		hs := histories(t, rc, vlib.Count(tier, 1, 6))
		for j, c := range hs {
			// quick tier: two memory plans per table, rotating
			if tier != "thorough" && j != i%4 && j != 4 {
				continue
			}
			resolveFeedLens(c)
			emitCtx(run, c, "stream:c07-tables")
		}
	}
	// 3. random tables
	rr := r.Fork("random")
	alpha := []int{1, 2, 3, 4, 5, 6, 9, 10, 11, 12}
	for i := vlib.Count(tier, 400, 6000); i > 0; i-- {
		t := randomTables(rr, alpha, []int{10, 11, 12}, randKinds, false)
		hs := histories(t, rr, 1)
		c := vlib.Pick(rr, hs)
		resolveFeedLens(c)
		emitCtx(run, c, "stream:random")
	}
	// 3b. lookup lists that went through Encode -> mutation -> gtab.Read
	genRead(run, r.Fork("read"), tier)
	// 4. the caller rewrites the lookup array between calls
	rm := r.Fork("lkmut")
	for i := vlib.Count(tier, 30, 400); i > 0; i-- {
		emitCtx(run, lookupMutation(rm), "stream:lookup-array")
	}
	// 5. layouter histories, in memory and after Write -> Read
	for _, t := range directedLay() {
		for _, file := range []bool{false, true} {
			c := &LayCase{Gdef: t.gdef, Gsub: t.gsub, Gpos: t.gpos, File: file, Labels: []string{"tables:" + t.name}}
			for _, s := range t.strs {
				c.Strs = append(c.Strs, []rune(s))
			}
			if file {
				// deep copies: the run replaces the tables by the ones read back
				c.Gsub, c.Gpos = copyTab(t.gsub), copyTab(t.gpos)
			} else {
				c.Gsub, c.Gpos = copyTab(t.gsub), copyTab(t.gpos)
			}
			emitLay(run, c, "stream:lay-directed")
		}
	}
	rl := r.Fork("lay")
	for i := vlib.Count(tier, 160, 3000); i > 0; i-- {
		file := rl.Chance(1, 3)
		c := randomLay(rl, file)
		c.File = file
		emitLay(run, c, "stream:lay-random")
	}
	run.Extra["streams"] = "directed (growth in place / reallocation / shrinking with cleared tail / action budget / out-of-range indices / nested frames / scratch hand-over / deep stack), c07-tables (C07's directed and stale-state lookup lists), random, read-valid / read-mutated (lookup lists encoded, mutated and accepted by gtab.Read), lookup-array (caller rewrites the slice given to NewContext), lay-directed and lay-random (in memory and after Write -> sfnt.Read)"
}

func copyTab(t *Tab) *Tab {
	if t == nil {
		return nil
	}
	return &Tab{LL: t.LL, Lookups: append([]int(nil), t.Lookups...)}
}

// DirectedLines returns case lines for the corpus.
func DirectedLines() []string {
	var out []string
	r := vlib.NewRand(1)
	for _, t := range directedTables() {
		hs := histories(t, r, 1)
		for _, c := range []*CtxCase{hs[0], hs[2], hs[4]} {
			resolveFeedLens(c)
			runCtx(c)
			out = append(out, c.Line())
		}
	}
	for _, t := range directedLay() {
		c := &LayCase{Gdef: t.gdef, Gsub: copyTab(t.gsub), Gpos: copyTab(t.gpos)}
		for _, s := range t.strs {
			c.Strs = append(c.Strs, []rune(s))
		}
		v := runLay(c)
		if !strings.HasPrefix(v.Impl, "(") {
			continue
		}
		out = append(out, c.Line())
	}
	return out
}
