package main

import (
	"seehuhn.de/go/sfnt/verifharness/c18b"
	"seehuhn.de/go/sfnt/verifharness/vlib"
)

func main() { vlib.Main(c18b.Gen, c18b.RunCase) }
