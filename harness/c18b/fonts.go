package c18b

// Font files for the table-level model of sfnt.Read: a few base fonts of both
// outline kinds written with the library's own writer, and a small recipe
// language that edits a file table by table (drop, empty, replace, truncate,
// patch, change the scaler type) and re-assembles the container with
// header.Write.  A case line carries the recipe, so that a case can be
// re-executed from its line alone.

import (
	"bytes"
	"encoding/binary"
	"errors"
	"fmt"
	"sync"

	"golang.org/x/image/font/gofont/goregular"
	"golang.org/x/text/language"

	"seehuhn.de/go/geom/matrix"
	"seehuhn.de/go/postscript/cid"
	"seehuhn.de/go/postscript/funit"
	"seehuhn.de/go/postscript/type1"

	"seehuhn.de/go/sfnt"
	"seehuhn.de/go/sfnt/cff"
	"seehuhn.de/go/sfnt/cmap"
	"seehuhn.de/go/sfnt/glyf"
	"seehuhn.de/go/sfnt/glyph"
	"seehuhn.de/go/sfnt/header"
	"seehuhn.de/go/sfnt/internal/debug"
	"seehuhn.de/go/sfnt/maxp"
	"seehuhn.de/go/sfnt/name"
	"seehuhn.de/go/sfnt/opentype/classdef"
	"seehuhn.de/go/sfnt/opentype/coverage"
	"seehuhn.de/go/sfnt/opentype/gdef"
	"seehuhn.de/go/sfnt/opentype/gtab"
	"seehuhn.de/go/sfnt/verifharness/vlib"
)

// ---------------------------------------------------------------- containers

type container struct {
	scaler uint32
	names  []string // in directory order
	tabs   map[string][]byte
}

// parseContainer reads the table directory the way the OpenType text
// describes it (independent of the library).
func parseContainer(b []byte) (*container, error) {
	if len(b) < 12 {
		return nil, errors.New("file shorter than the offset table")
	}
	n := int(binary.BigEndian.Uint16(b[4:]))
	if len(b) < 12+16*n {
		return nil, errors.New("directory outside the file")
	}
	c := &container{scaler: binary.BigEndian.Uint32(b), tabs: map[string][]byte{}}
	for i := 0; i < n; i++ {
		rec := b[12+16*i:]
		off := uint64(binary.BigEndian.Uint32(rec[8:]))
		l := uint64(binary.BigEndian.Uint32(rec[12:]))
		if off+l > uint64(len(b)) {
			return nil, fmt.Errorf("table %q outside the file", rec[:4])
		}
		name := string(rec[:4])
		c.names = append(c.names, name)
		c.tabs[name] = append([]byte{}, b[off:off+l]...)
	}
	return c, nil
}

func (c *container) bytes() ([]byte, error) {
	buf := &bytes.Buffer{}
	m := map[string][]byte{}
	for k, v := range c.tabs {
		if v == nil {
			v = []byte{}
		}
		m[k] = v
	}
	if len(m) == 0 {
		return nil, errors.New("no table left")
	}
	_, err := header.Write(buf, c.scaler, m)
	return buf.Bytes(), err
}

// ---------------------------------------------------------------- base fonts

func triPoints(i int) [3][2]int {
	x0, y0 := 10+i%97, -20+i%61
	w, h := 100+i%300, 150+(i*7)%500
	return [3][2]int{{x0, y0}, {x0 + w, y0}, {x0, y0 + h}}
}

func triGlyph(i int) *glyf.Glyph {
	p := triPoints(i)
	enc := []byte{0, 2, 0, 0, 1, 1, 1}
	put := func(v int) { enc = append(enc, byte(uint16(int16(v))>>8), byte(v)) }
	put(p[0][0])
	put(p[1][0] - p[0][0])
	put(p[2][0] - p[1][0])
	put(p[0][1])
	put(p[1][1] - p[0][1])
	put(p[2][1] - p[1][1])
	return &glyf.Glyph{
		Rect16: funit.Rect16{LLx: funit.Int16(p[0][0]), LLy: funit.Int16(p[0][1]), URx: funit.Int16(p[1][0]), URy: funit.Int16(p[2][1])},
		Data:   glyf.SimpleGlyph{NumContours: 1, Encoded: enc},
	}
}

func fillInfo(f *sfnt.Font, n int) {
	f.FamilyName = "Verif"
	f.UnitsPerEm = 1000
	f.Ascent, f.Descent, f.LineGap = 800, -200, 100
	f.CapHeight, f.XHeight = 700, 500
	m := cmap.Format4{}
	for i := 1; i < n && i < 200; i++ {
		m[uint16(0x40+i)] = glyph.ID(i)
	}
	if n == 1 {
		m[0x41] = 0
	}
	f.InstallCMap(m)
}

func glyphName(i int) string {
	if i == 0 {
		return ".notdef"
	}
	return fmt.Sprintf("tri%d", i)
}

func synthTTF(n int, hinting bool) *sfnt.Font {
	o := &glyf.Outlines{Tables: map[string][]byte{},
		Maxp: &maxp.TTFInfo{MaxPoints: 3, MaxContours: 1, MaxZones: 2, MaxStackElements: 8}}
	for i := 0; i < n; i++ {
		if i == 0 && n > 1 {
			o.Glyphs = append(o.Glyphs, nil)
		} else {
			o.Glyphs = append(o.Glyphs, triGlyph(i))
		}
		o.Widths = append(o.Widths, funit.Int16(300+i%7))
		o.Names = append(o.Names, glyphName(i))
	}
	if hinting {
		o.Tables["cvt "] = []byte{0, 10, 0, 20, 0, 30}
		o.Tables["fpgm"] = []byte{0xB0, 0x00, 0x2C, 0x2D, 0x01} // 5 bytes: padding behind it
		o.Tables["prep"] = []byte{0xB0, 0x01, 0x1D}
		o.Tables["gasp"] = []byte{0, 1, 0, 1, 0xFF, 0xFF, 0, 0x0F}
	}
	f := &sfnt.Font{Outlines: o}
	fillInfo(f, n)
	return f
}

func synthCFF(n int) *sfnt.Font {
	gg := make([]*cff.Glyph, n)
	for i := range gg {
		g := cff.NewGlyph(glyphName(i), float64(300+i%7))
		if !(i == 0 && n > 1) {
			p := triPoints(i)
			g.MoveTo(float64(p[0][0]), float64(p[0][1]))
			g.LineTo(float64(p[1][0]), float64(p[1][1]))
			g.LineTo(float64(p[2][0]), float64(p[2][1]))
		}
		gg[i] = g
	}
	o := &cff.Outlines{
		Glyphs:   gg,
		Private:  []*type1.PrivateDict{{BlueValues: []funit.Int16{-10, 0, 700, 710}, BlueScale: 0.039625, BlueShift: 7, BlueFuzz: 1, StdHW: 50, StdVW: 60}},
		FDSelect: func(glyph.ID) int { return 0 },
		Encoding: cff.StandardEncoding(gg),
	}
	f := &sfnt.Font{Outlines: o}
	fillInfo(f, n)
	return f
}

// padCFF: the 5-glyph CFF font with one more glyph of n short line segments.
// Every segment adds two or three bytes to the CharStrings INDEX, so that a
// sweep over n moves the end of the CharStrings data, the Private DICT and the
// end of the CFF table through every position relative to the parser's
// 1024-byte buffer window.
func padCFF(n int) *sfnt.Font {
	f := synthCFF(5)
	o := f.Outlines.(*cff.Outlines)
	g := cff.NewGlyph("pad", 500)
	g.MoveTo(0, 0)
	for i := 0; i < n; i++ {
		g.LineTo(float64(10+i%7), float64(20+i%5))
	}
	o.Glyphs = append(o.Glyphs, g)
	o.Encoding = cff.StandardEncoding(o.Glyphs)
	return f
}

// padCount: base font names of the form cffpad-N.
func padCount(name string) (int, bool) {
	var n int
	if _, err := fmt.Sscanf(name, "cffpad-%d", &n); err != nil || n < 0 || n > 5000 || name != fmt.Sprintf("cffpad-%d", n) {
		return 0, false
	}
	return n, true
}

// synthCID: a CID-keyed CFF font with two Font DICTs.
func synthCID(n int) *sfnt.Font {
	f := synthCFF(n)
	o := f.Outlines.(*cff.Outlines)
	for _, g := range o.Glyphs {
		g.Name = ""
	}
	o.Encoding = nil
	o.Private = append(o.Private, &type1.PrivateDict{BlueValues: []funit.Int16{-20, 0, 500, 520}, BlueScale: 0.039625, BlueShift: 7, BlueFuzz: 1, StdHW: 40, StdVW: 70})
	o.FDSelect = func(g glyph.ID) int { return int(g) % 2 }
	o.ROS = &cid.SystemInfo{Registry: "Adobe", Ordering: "Identity", Supplement: 0}
	o.GIDToCID = make([]cid.CID, n)
	for i := range o.GIDToCID {
		o.GIDToCID[i] = cid.CID(2 * i)
	}
	o.FontMatrices = []matrix.Matrix{matrix.Identity, matrix.Identity}
	return f
}

// manyNames: a name table with three Windows languages and one Macintosh language.
func manyNames() []byte {
	mk := func(fam, sub string) *name.Table {
		return &name.Table{Family: fam, Subfamily: sub, FullName: fam + " " + sub, Version: "Version 1.500", PostScriptName: "Verif-Regular", Copyright: "none"}
	}
	info := &name.Info{
		Mac:     name.Tables{"en": mk("Verif", "Regular")},
		Windows: name.Tables{"en-US": mk("Verif", "Regular"), "de-DE": mk("Verif", "Normal"), "fr-FR": mk("V\u00e9rif", "Normal")},
	}
	return info.Encode(1)
}

// layout tables: one ligature-free GSUB (single substitution), one pair
// adjustment GPOS (the structure read.go builds from a kern table), a GDEF
// with glyph classes.
func addLayout(f *sfnt.Font) {
	f.Gdef = &gdef.Table{GlyphClass: classdef.Table{1: gdef.GlyphClassBase, 2: gdef.GlyphClassBase}}
	sub := gtab.Gpos2_1{}
	sub[glyph.Pair{Left: 1, Right: 2}] = &gtab.PairAdjust{First: &gtab.GposValueRecord{XAdvance: -30}}
	f.Gpos = &gtab.Info{
		ScriptList: map[language.Tag]*gtab.Features{
			language.MustParse("und-Zzzz-x-dflt"): {Required: 0xFFFF, Optional: []gtab.FeatureIndex{0}},
		},
		FeatureList: []*gtab.Feature{{Tag: "kern", Lookups: []gtab.LookupIndex{0}}},
		LookupList: []*gtab.LookupTable{{
			Meta:      &gtab.LookupMetaInfo{LookupType: 2},
			Subtables: []gtab.Subtable{sub},
		}},
	}
	f.Gsub = &gtab.Info{
		ScriptList: map[language.Tag]*gtab.Features{
			language.MustParse("und-Zzzz-x-dflt"): {Required: 0xFFFF, Optional: []gtab.FeatureIndex{0}},
		},
		FeatureList: []*gtab.Feature{{Tag: "salt", Lookups: []gtab.LookupIndex{0}}},
		LookupList: []*gtab.LookupTable{{
			Meta:      &gtab.LookupMetaInfo{LookupType: 1},
			Subtables: []gtab.Subtable{&gtab.Gsub1_1{Cov: coverage.Set{1: true}, Delta: 1}},
		}},
	}
}

// kernTable: version 0, one horizontal format-0 subtable with one pair.
func kernTable() []byte {
	b := []byte{0, 0, 0, 1}
	b = append(b, 0, 0, 0, 20, 0, 1) // subtable version, length, format 0 / coverage horizontal
	b = append(b, 0, 1, 0, 6, 0, 0, 0, 0)
	b = append(b, 0, 1, 0, 2, 0xFF, 0xE2)
	return b
}

// cutGo: the first n glyphs of Go Regular (no composites among them).
func cutGo(n int) (*sfnt.Font, error) {
	f, err := sfnt.Read(bytes.NewReader(goregular.TTF))
	if err != nil {
		return nil, err
	}
	o := f.Outlines.(*glyf.Outlines)
	no := *o
	no.Glyphs = append(glyf.Glyphs(nil), o.Glyphs[:n]...)
	no.Widths = append([]funit.Int16(nil), o.Widths[:n]...)
	if o.Names != nil {
		no.Names = append([]string(nil), o.Names[:n]...)
	}
	f.Outlines = &no
	f.Gdef, f.Gsub, f.Gpos = nil, nil, nil
	m := cmap.Format4{}
	if best, err := f.CMapTable.GetBest(); err == nil {
		for r := rune(0); r <= 0xFFFF; r++ {
			if g := best.Lookup(r); g != 0 && int(g) < n {
				m[uint16(r)] = g
			}
		}
	}
	f.InstallCMap(m)
	return f, nil
}

var (
	baseMu    sync.Mutex
	baseCache = map[string][]byte{}
)

var baseNames = []string{"ttf5", "ttf5h", "ttf5x", "ttf5n", "ttf1", "cff5", "cff5x", "cff1", "cid5", "debug", "gocut", "goregular"}

// baseFont returns the bytes of a base font file.
func baseFont(name string) (b []byte, err error) {
	baseMu.Lock()
	defer baseMu.Unlock()
	return baseFont0(name)
}

// baseFont0: baseFont with the lock held.
func baseFont0(name string) (b []byte, err error) {
	if b, ok := baseCache[name]; ok {
		return b, nil
	}
	defer func() {
		if e := recover(); e != nil {
			err = fmt.Errorf("panic while building %s: %v", name, e)
		}
	}()
	var f *sfnt.Font
	if n, ok := padCount(name); ok {
		// the size sweep: not cached (hundreds of fonts, each used once)
		buf := &bytes.Buffer{}
		if _, err := padCFF(n).Write(buf); err != nil {
			return nil, err
		}
		return buf.Bytes(), nil
	}
	switch name {
	case "ttf5":
		f = synthTTF(5, false)
	case "ttf1":
		f = synthTTF(1, false)
	case "ttf5h":
		f = synthTTF(5, true)
	case "ttf5x":
		f = synthTTF(5, true)
		addLayout(f)
	case "ttf5n":
		// ttf5x with a name table in several languages on both platforms
		b, err := baseFont0("ttf5x")
		if err != nil {
			return nil, err
		}
		c, err := parseContainer(b)
		if err != nil {
			return nil, err
		}
		c.tabs["name"] = manyNames()
		out, err := c.bytes()
		if err == nil {
			baseCache[name] = out
		}
		return out, err
	case "cid5":
		f = synthCID(6)
	case "cff5":
		f = synthCFF(5)
	case "cff1":
		f = synthCFF(1)
	case "cff5x":
		f = synthCFF(5)
		addLayout(f)
	case "debug":
		f = debug.MakeSimpleFont()
	case "gocut":
		f, err = cutGo(48)
		if err != nil {
			return nil, err
		}
	case "goregular":
		baseCache[name] = goregular.TTF
		return goregular.TTF, nil
	default:
		return nil, errors.New("unknown base font " + name)
	}
	buf := &bytes.Buffer{}
	if _, err := f.Write(buf); err != nil {
		return nil, err
	}
	baseCache[name] = buf.Bytes()
	return buf.Bytes(), nil
}

// ---------------------------------------------------------------- recipes

// edit: one table-level change.
//
//	(drop xTAG)            remove the table
//	(empty xTAG)           make it a table of length zero
//	(set xTAG xBYTES)      replace (or add) the table
//	(trunc xTAG N)         keep its first N bytes
//	(byte xTAG OFF VAL)    set one byte
//	(u16 xTAG OFF VAL)     set a big-endian 16-bit field
//	(scaler N)             scaler type of the file
//	(from BASE xTAG)       take the table from another base font
//	(kern)                 add the hand-made kern table
//	(junk xTAG N)          N pseudo-random bytes
//	(dirpatch xTAG OFF LEN) after the container is assembled: overwrite the offset
//	                       and length fields of the table's directory entry
type edit struct {
	op   string
	tag  string
	a, b int
	data []byte
	base string
}

type recipe struct {
	base  string
	edits []edit
}

func tagSx(t string) vlib.Sx { return vlib.Hex([]byte(t)) }

func (r recipe) sx() vlib.Sx {
	l := vlib.List{vlib.Atom("recipe"), vlib.Atom(r.base)}
	for _, e := range r.edits {
		switch e.op {
		case "drop", "empty":
			l = append(l, vlib.L(vlib.Atom(e.op), tagSx(e.tag)))
		case "set":
			l = append(l, vlib.L(vlib.Atom(e.op), tagSx(e.tag), vlib.Hex(e.data)))
		case "trunc", "junk":
			l = append(l, vlib.L(vlib.Atom(e.op), tagSx(e.tag), vlib.Int(e.a)))
		case "byte", "u16", "dirpatch":
			l = append(l, vlib.L(vlib.Atom(e.op), tagSx(e.tag), vlib.Int(e.a), vlib.Int(e.b)))
		case "scaler":
			l = append(l, vlib.L(vlib.Atom(e.op), vlib.Int(e.a)))
		case "from":
			l = append(l, vlib.L(vlib.Atom(e.op), vlib.Atom(e.base), tagSx(e.tag)))
		case "kern":
			l = append(l, vlib.L(vlib.Atom(e.op)))
		}
	}
	return l
}

func parseRecipe(x vlib.Sx) (r recipe, err error) {
	l, err := vlib.AsList(x)
	if err != nil || len(l) < 2 {
		return r, errors.New("bad recipe")
	}
	if h, _ := vlib.AsAtom(l[0]); h != "recipe" {
		return r, errors.New("bad recipe")
	}
	if r.base, err = vlib.AsAtom(l[1]); err != nil {
		return r, err
	}
	for _, ex := range l[2:] {
		el, err := vlib.AsList(ex)
		if err != nil || len(el) < 1 {
			return r, errors.New("bad edit")
		}
		op, err := vlib.AsAtom(el[0])
		if err != nil {
			return r, err
		}
		e := edit{op: op}
		tagAt := func(i int) error {
			if i >= len(el) {
				return errors.New("edit: missing tag")
			}
			t, err := vlib.AsBytes(el[i])
			e.tag = string(t)
			return err
		}
		intAt := func(i int) (int, error) {
			if i >= len(el) {
				return 0, errors.New("edit: missing number")
			}
			return vlib.AsInt(el[i])
		}
		switch op {
		case "drop", "empty":
			err = tagAt(1)
		case "set":
			if err = tagAt(1); err == nil && len(el) == 3 {
				e.data, err = vlib.AsBytes(el[2])
				if e.data == nil {
					e.data = []byte{}
				}
			}
		case "trunc", "junk":
			if err = tagAt(1); err == nil {
				e.a, err = intAt(2)
			}
		case "byte", "u16", "dirpatch":
			if err = tagAt(1); err == nil {
				if e.a, err = intAt(2); err == nil {
					e.b, err = intAt(3)
				}
			}
		case "scaler":
			e.a, err = intAt(1)
		case "from":
			if len(el) != 3 {
				return r, errors.New("bad from edit")
			}
			if e.base, err = vlib.AsAtom(el[1]); err == nil {
				err = tagAt(2)
			}
		case "kern":
		default:
			err = errors.New("unknown edit " + op)
		}
		if err != nil {
			return r, err
		}
		r.edits = append(r.edits, e)
	}
	return r, nil
}

func junk(n int, seed int) []byte {
	b := make([]byte, n)
	s := uint32(seed)*2654435761 + 12345
	for i := range b {
		s = s*1664525 + 1013904223
		b[i] = byte(s >> 24)
	}
	return b
}

// build: the file the recipe describes.
func (r recipe) build() ([]byte, error) {
	b, err := baseFont(r.base)
	if err != nil {
		return nil, err
	}
	if len(r.edits) == 0 {
		return b, nil
	}
	c, err := parseContainer(b)
	if err != nil {
		return nil, err
	}
	for _, e := range r.edits {
		switch e.op {
		case "drop":
			delete(c.tabs, e.tag)
		case "empty":
			c.tabs[e.tag] = []byte{}
		case "set":
			c.tabs[e.tag] = e.data
		case "trunc":
			t := c.tabs[e.tag]
			if e.a < len(t) {
				c.tabs[e.tag] = t[:e.a]
			}
		case "junk":
			c.tabs[e.tag] = junk(e.a, len(e.tag)+e.a)
		case "byte":
			if t := c.tabs[e.tag]; e.a < len(t) {
				t[e.a] = byte(e.b)
			}
		case "u16":
			if t := c.tabs[e.tag]; e.a+1 < len(t) {
				binary.BigEndian.PutUint16(t[e.a:], uint16(e.b))
			}
		case "scaler":
			c.scaler = uint32(e.a)
		case "from":
			ob, err := baseFont(e.base)
			if err != nil {
				return nil, err
			}
			oc, err := parseContainer(ob)
			if err != nil {
				return nil, err
			}
			t, ok := oc.tabs[e.tag]
			if !ok {
				return nil, fmt.Errorf("base font %s has no table %q", e.base, e.tag)
			}
			c.tabs[e.tag] = t
		case "kern":
			c.tabs["kern"] = kernTable()
		}
	}
	out, err := c.bytes()
	if err != nil {
		return nil, err
	}
	for _, e := range r.edits {
		if e.op != "dirpatch" {
			continue
		}
		n := int(binary.BigEndian.Uint16(out[4:]))
		for i := 0; i < n; i++ {
			rec := out[12+16*i:]
			if string(rec[:4]) == e.tag {
				binary.BigEndian.PutUint32(rec[8:], uint32(e.a))
				binary.BigEndian.PutUint32(rec[12:], uint32(e.b))
			}
		}
	}
	return out, nil
}
