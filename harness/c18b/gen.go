package c18b

import (
	"fmt"
	"sort"

	"seehuhn.de/go/sfnt/header"
	"seehuhn.de/go/sfnt/verifharness/vlib"
)

// a hand-built case: recipe, expected class ("" none), labels
type builtCase struct {
	r      recipe
	expect string
	labels []string
}

func rc(base string, edits ...edit) recipe { return recipe{base: base, edits: edits} }
func drop(t string) edit                   { return edit{op: "drop", tag: t} }
func empty(t string) edit                  { return edit{op: "empty", tag: t} }
func junkT(t string, n int) edit           { return edit{op: "junk", tag: t, a: n} }
func truncT(t string, n int) edit          { return edit{op: "trunc", tag: t, a: n} }
func setT(t string, d []byte) edit         { return edit{op: "set", tag: t, data: d} }
func u16(t string, off, v int) edit        { return edit{op: "u16", tag: t, a: off, b: v} }
func byteT(t string, off, v int) edit      { return edit{op: "byte", tag: t, a: off, b: v} }
func scaler(v uint32) edit                 { return edit{op: "scaler", a: int(v)} }
func from(base, t string) edit             { return edit{op: "from", base: base, tag: t} }
func kernE() edit                          { return edit{op: "kern"} }
func dirpatch(t string, off, l uint32) edit {
	return edit{op: "dirpatch", tag: t, a: int(off), b: int(l)}
}

var optionalTables = []string{"head", "hhea", "maxp", "OS/2", "hmtx", "cmap", "name", "post"}

// handBuilt: the structured stream - every required / optional / tolerated
// site of read.go on both outline kinds.
func handBuilt() []builtCase {
	var out []builtCase
	add := func(r recipe, expect string, labels ...string) {
		out = append(out, builtCase{r, expect, labels})
	}
	for _, b := range []string{"ttf5", "ttf5h", "ttf5x", "ttf1", "cff5", "cff5x", "cff1", "debug", "gocut"} {
		add(rc(b), "ok", "site:base")
	}
	// T1: optional tables missing.  TrueType outlines need head and maxp later.
	for _, t := range optionalTables {
		exp := "ok"
		if t == "head" || t == "maxp" {
			exp = "err"
		}
		add(rc("ttf5h", drop(t)), exp, "site:T1-optional-missing", "missing:"+t)
		add(rc("cff5x", drop(t)), "ok", "site:T1-optional-missing", "missing:"+t)
	}
	add(rc("cff5", drop("head"), drop("maxp"), drop("hhea"), drop("hmtx"), drop("OS/2"), drop("name"), drop("post"), drop("cmap")), "ok",
		"site:T1-optional-missing", "missing:all-optional")
	// required tables
	for _, t := range []string{"loca", "glyf"} {
		add(rc("ttf5", drop(t)), "err", "site:required-missing", "missing:"+t)
	}
	add(rc("cff5", drop("CFF ")), "err", "site:required-missing", "missing:CFF")
	add(rc("ttf5", empty("loca")), "err", "site:gate", "empty:loca")
	add(rc("cff5", empty("CFF ")), "err", "site:gate", "empty:CFF")
	add(rc("ttf5", empty("glyf")), "", "site:gate", "empty:glyf") // "a glyf table of length zero is valid"; loca then disagrees
	// T8: outline tables of the other kind are never looked at
	add(rc("ttf5", junkT("CFF ", 40)), "ok", "site:T8-other-outlines", "junk:CFF")
	add(rc("cff5", junkT("glyf", 40), junkT("loca", 12), junkT("cvt ", 7), junkT("fpgm", 9)), "ok", "site:T8-other-outlines", "junk:glyf+loca")
	add(rc("ttf5", junkT("CFF ", 40), scaler(header.ScalerTypeCFF)), "err", "site:scaler", "scaler:OTTO-on-glyf")
	add(rc("cff5", scaler(header.ScalerTypeTrueType)), "err", "site:scaler", "scaler:TrueType-on-CFF")
	add(rc("ttf5h", scaler(header.ScalerTypeApple)), "ok", "site:scaler", "scaler:true")
	add(rc("ttf5", from("cff5", "CFF "), scaler(header.ScalerTypeCFF)), "ok", "site:scaler", "scaler:OTTO-both-outlines")
	// T5: hmtx without hhea is read but not decoded
	add(rc("ttf5", drop("hhea"), junkT("hmtx", 5)), "ok", "site:T5-hmtx-without-hhea")
	add(rc("cff5", drop("hhea"), junkT("hmtx", 3)), "ok", "site:T5-hmtx-without-hhea")
	add(rc("ttf5", junkT("hmtx", 5)), "err", "site:hmtx-decoded")
	add(rc("ttf5", drop("hmtx")), "", "site:hmtx-missing-with-hhea")
	// T6: empty guarded tables are skipped
	for _, t := range []string{"cvt ", "fpgm", "prep", "gasp", "GDEF", "GSUB", "GPOS", "kern"} {
		add(rc("ttf5x", empty(t)), "ok", "site:T6-empty-skipped", "empty:"+t)
	}
	add(rc("cff5x", empty("GDEF"), empty("GSUB"), empty("GPOS")), "ok", "site:T6-empty-skipped", "empty:layout")
	// guarded tables that are decoded: junk is an error
	for _, t := range []string{"GDEF", "GSUB", "GPOS"} {
		add(rc("ttf5x", junkT(t, 24)), "err", "site:layout-decoded", "junk:"+t)
		add(rc("cff5x", junkT(t, 24)), "err", "site:layout-decoded", "junk:"+t)
	}
	// cvt/fpgm/prep/gasp are read, never decoded: junk is fine
	add(rc("ttf5h", junkT("cvt ", 9), junkT("fpgm", 33), junkT("prep", 2), junkT("gasp", 1)), "ok", "site:hinting-raw")
	// T7: kern
	add(rc("ttf5", kernE()), "ok", "site:kern-decoded")
	add(rc("cff5", kernE()), "ok", "site:kern-decoded")
	add(rc("ttf5", junkT("kern", 3)), "err", "site:kern-decoded", "junk:kern")
	add(rc("ttf5", setT("kern", []byte{0, 1, 0, 0})), "err", "site:kern-decoded", "kern:version1")
	add(rc("ttf5x", junkT("kern", 3)), "ok", "site:T7-kern-behind-GPOS")
	add(rc("cff5x", junkT("kern", 3)), "ok", "site:T7-kern-behind-GPOS")
	add(rc("ttf5x", junkT("kern", 3), empty("GPOS")), "err", "site:kern-decoded", "kern:behind-empty-GPOS")
	// T9: tables read.go has no name for
	add(rc("ttf5", junkT("DSIG", 21), junkT("vhea", 1), junkT("zzzz", 300)), "ok", "site:T9-unnamed-tables")
	add(rc("cff5", junkT("CFF2", 11), junkT("morx", 5)), "ok", "site:T9-unnamed-tables")
	add(rc("ttf5", drop("glyf"), drop("loca"), junkT("CFF2", 11)), "err", "site:gate", "cff2-only")
	// T2/T3: no usable cmap subtable: GetBest fails, Read goes on
	add(rc("ttf5", setT("cmap", []byte{0, 0, 0, 0})), "ok", "site:T2-getbest-discarded")
	add(rc("cff5", setT("cmap", []byte{0, 0, 0, 0})), "ok", "site:T2-getbest-discarded")
	add(rc("ttf5", junkT("cmap", 3)), "err", "site:cmap-decoded")
	// decoders that are not tolerated
	for _, t := range []string{"head", "maxp", "OS/2", "post", "name"} {
		add(rc("ttf5", truncT(t, 3)), "err", "site:decoder-error", "short:"+t)
		add(rc("cff5", truncT(t, 3)), "err", "site:decoder-error", "short:"+t)
	}
	add(rc("ttf5", byteT("head", 12, 0)), "err", "site:decoder-error", "head:magic")
	add(rc("cff5", junkT("CFF ", 64)), "err", "site:decoder-error", "junk:CFF")
	add(rc("ttf5", junkT("glyf", 64)), "", "site:decoder-error", "junk:glyf")
	add(rc("ttf5", truncT("loca", 5)), "err", "site:decoder-error", "short:loca")
	// glyph counts
	add(rc("ttf5", u16("maxp", 4, 4)), "err", "site:count", "maxp:fewer")
	add(rc("ttf5", u16("maxp", 4, 6)), "err", "site:count", "maxp:more")
	add(rc("cff5", u16("maxp", 4, 4)), "err", "site:count", "maxp:fewer")
	add(rc("cff5", u16("maxp", 4, 6)), "err", "site:count", "maxp:more")
	add(rc("cff5", u16("maxp", 4, 0)), "", "site:count", "maxp:zero")
	add(rc("ttf5", u16("maxp", 4, 0)), "", "site:count", "maxp:zero")
	add(rc("cff5", drop("maxp")), "ok", "site:count", "maxp:missing")
	add(rc("cff5", drop("maxp"), drop("hhea")), "ok", "site:count", "maxp+hhea:missing")
	add(rc("cff5", u16("hhea", 34, 3)), "", "site:count", "hhea:fewer-metrics")
	add(rc("ttf5", u16("hhea", 34, 3)), "", "site:count", "hhea:fewer-metrics")
	add(rc("ttf5", u16("head", 50, 1)), "", "site:locaformat", "head:long-loca")
	// directories header.Read has to judge: a table past the end of the file,
	// overlapping tables, a table inside the directory, and T10: an entry whose
	// offset + length wraps around 2^32 (the last-byte probe then looks at byte 9)
	add(rc("ttf5", junkT("zzzz", 8), dirpatch("zzzz", 5000, 8)), "err", "site:directory", "dir:table-past-eof")
	add(rc("cff5", junkT("zzzz", 8), dirpatch("zzzz", 300, 64)), "err", "site:directory", "dir:overlap")
	add(rc("cff5", junkT("zzzz", 8), dirpatch("zzzz", 13, 2)), "ok", "site:directory", "dir:table-inside-directory")
	add(rc("cff5", junkT("zzzz", 8), dirpatch("zzzz", 0xffffff00, 0x10A)), "ok", "site:T10-wrap", "dir:wrap")
	add(rc("ttf5h", junkT("zzzz", 8), dirpatch("zzzz", 0xffffff00, 0x10A)), "ok", "site:T10-wrap", "dir:wrap")
	add(rc("ttf5h", dirpatch("prep", 0xfffffff0, 0x20)), "ok", "site:T10-wrap", "dir:wrap-named-table")
	return out
}

// ksFor: the fault points of a file: every k for small files; for large ones
// the directory, the neighbourhood of every boundary of a table or of a range
// the fault-free run read, and a stride.
func ksFor(file []byte, plain readResult, r *vlib.Rand, small int) []int {
	n := len(file)
	if n <= small {
		ks := make([]int, n+3)
		for i := range ks {
			ks[i] = i
		}
		return ks
	}
	set := map[int]bool{}
	addK := func(k int) {
		if k >= 0 && k <= n+2 {
			set[k] = true
		}
	}
	dir := readDirectory(file)
	// offset table, the first two directory entries byte by byte, of the others
	// the first, a middle and the last byte; the end of the directory
	for k := 0; k <= 12+32; k++ {
		addK(k)
	}
	for i := 2; i < len(dir); i++ {
		addK(12 + 16*i)
		addK(12 + 16*i + 9)
		addK(12 + 16*i + 15)
	}
	addK(12 + 16*len(dir))
	addK(12 + 16*len(dir) + 1)
	near := func(x int) {
		for d := -2; d <= 2; d++ {
			addK(x + d)
		}
	}
	for _, e := range dir {
		near(e.off)
		near(e.off + e.len)
		addK(e.off + e.len/2)
	}
	for _, iv := range merged(plain.log) {
		near(iv[0])
		near(iv[1])
	}
	near(n)
	for i := 0; i < 12; i++ {
		addK(r.Intn(n + 1))
	}
	ks := make([]int, 0, len(set))
	for k := range set {
		ks = append(ks, k)
	}
	sort.Ints(ks)
	return ks
}

func chunkInts(ks []int, size int) [][]int {
	var out [][]int
	for len(ks) > 0 {
		n := size
		if n > len(ks) {
			n = len(ks)
		}
		out = append(out, ks[:n])
		ks = ks[n:]
	}
	return out
}

type styleSpec struct {
	style string
	chunk int
}

// addFile: the fault-free case and the fault cases of one file.
func addFile(run *vlib.Run, r *vlib.Rand, c builtCase, styles []styleSpec, small int, extra ...string) {
	labels := append(append([]string{"base:" + c.r.base}, c.labels...), extra...)
	file, err := c.r.build()
	if err != nil {
		line := vlib.Line(vlib.Atom("rd"), vlib.L(), c.r.sx())
		idx := run.Add("!"+line, "builderr", false, append(labels, "kind:builderr")...)
		run.Fail(idx, line, "the file of this case could not be built: "+err.Error(), sigBuild)
		return
	}
	plain := readPlain(file)
	line := rdLine(file, c.r, c.expect)
	obs := plainObs(file, plain)
	nontrivial := plain.class == "ok" || len(plain.log) > 3
	idx := run.Add(line, obs, nontrivial, append(labels, "kind:rd", "class:"+plain.class, fmt.Sprintf("tables:%d", len(readDirectory(file))))...)
	if d, s := rdOracle(file, plain, c.expect); d != "" {
		run.Fail(idx, line, d, s)
	}
	addFaultsOf(run, r, c, file, plain, styles, small, labels)
}

// addFaults: only the fault cases of a file (its fault-free case is in the run already).
func addFaults(run *vlib.Run, r *vlib.Rand, c builtCase, styles []styleSpec, small int, extra ...string) {
	labels := append(append([]string{"base:" + c.r.base}, c.labels...), extra...)
	file, err := c.r.build()
	if err != nil {
		return
	}
	addFaultsOf(run, r, c, file, readPlain(file), styles, small, labels)
}

func addFaultsOf(run *vlib.Run, r *vlib.Rand, c builtCase, file []byte, plain readResult, styles []styleSpec, small int, labels []string) {
	if len(styles) == 0 {
		return
	}
	ks := ksFor(file, plain, r, small)
	for _, st := range styles {
		for _, part := range chunkInts(ks, 400) {
			fl := flLine(file, c.r, st.style, part, st.chunk)
			if (st.style == "trunc" || st.style == "seof") && wraps(readDirectory(file)) {
				// a directory entry wraps around 2^32: header.Read accepts cuts inside the
				// table data, the decoders then see other bytes than the recording the
				// model is given - oracle only (no panic, font value iff no error)
				fl = "!" + fl
			}
			obs, d, s := flOracle(file, plain, st.style, part, st.chunk)
			idx := run.Add(fl, obs, plain.class == "ok", append(append([]string{}, labels...), "kind:fl", "style:"+st.style, "plain:"+plain.class)...)
			if d != "" {
				run.Fail(idx, fl, d, s)
			}
		}
	}
}

var exhaustiveStyles = []styleSpec{{"at", 0}, {"ge", 0}, {"trunc", 0}, {"stream", 512}, {"seof", 512}}
var otherStyles = []styleSpec{{"atp", 0}, {"gep", 0}, {"stream", 7}, {"seof", 5}}
var allStyles = append(append([]styleSpec{}, exhaustiveStyles...), otherStyles...)
var fewStyles = []styleSpec{{"at", 0}, {"trunc", 0}}
var bigStyles = []styleSpec{{"at", 0}, {"ge", 0}, {"trunc", 0}}

// the base fonts whose every fault point is tried (both outline kinds, the
// full table set and the one-glyph fonts)
var exhaustiveBases = map[string]bool{"ttf5x": true, "cff5x": true, "ttf1": true, "cff1": true}

// importedCases: files on which head.Read, hmtx.Decode and glyf.Decode decide.
func importedCases() []recipe {
	out := []recipe{rc("ttf5"), rc("ttf5h"), rc("ttf1"), rc("cff5"), rc("cff1")}
	for _, b := range []string{"ttf5", "cff5"} {
		out = append(out,
			rc(b, byteT("head", 12, 0)), // magic number
			rc(b, byteT("head", 0, 1)),  // version
			rc(b, truncT("head", 53)),   // one byte short
			rc(b, truncT("head", 54)),   // exact
			rc(b, u16("head", 50, 1)),   // long loca format
			rc(b, u16("head", 50, 2)),   // invalid loca format
			rc(b, u16("head", 50, 0xFFFF)),
			rc(b, junkT("hmtx", 5)), rc(b, truncT("hmtx", 19)), rc(b, truncT("hmtx", 0)), rc(b, drop("hmtx")),
			rc(b, u16("hhea", 34, 0)), rc(b, u16("hhea", 34, 3)), rc(b, u16("hhea", 34, 6)), rc(b, u16("hhea", 34, 0xFFFF)),
			rc(b, byteT("hhea", 0, 9)), rc(b, truncT("hhea", 35)), rc(b, u16("hhea", 32, 1)),
			rc(b, u16("maxp", 4, 4)), rc(b, u16("maxp", 4, 6)))
	}
	out = append(out,
		rc("ttf5", junkT("glyf", 64)), rc("ttf5", truncT("glyf", 50)), rc("ttf5", empty("glyf")),
		rc("ttf5", truncT("loca", 10)), rc("ttf5", truncT("loca", 11)), rc("ttf5", u16("loca", 4, 0xFFFF)),
		rc("ttf5", u16("loca", 2, 7)), rc("ttf5", u16("loca", 10, 0)), rc("ttf5", byteT("glyf", 0, 0x80)),
		rc("ttf5", byteT("glyf", 1, 5)), rc("ttf5", u16("glyf", 10, 50)), rc("ttf5", u16("glyf", 12, 60000)),
		rc("ttf1", empty("glyf"), setT("loca", []byte{0, 0, 0, 0})))
	return out
}

func addImported(run *vlib.Run, r *vlib.Rand, rec recipe) {
	labels := []string{"base:" + rec.base, "site:imported-decoders"}
	file, err := rec.build()
	if err != nil {
		line := vlib.Line(vlib.Atom("rdc"), vlib.Atom("x"), vlib.L(), rec.sx())
		idx := run.Add("!"+line, "builderr", false, append(labels, "kind:builderr")...)
		run.Fail(idx, line, "the file of this case could not be built: "+err.Error(), sigBuild)
		return
	}
	plain := readPlain(file)
	line := rdcLine(file, rec)
	idx := run.Add(line, plainObs(file, plain), true, append(labels, "kind:rdc", "class:"+plain.class)...)
	if d, s := rdOracle(file, plain, ""); d != "" {
		run.Fail(idx, line, d, s)
	}
	if len(rec.edits) == 0 {
		ks := ksFor(file, plain, r, 0)
		for _, st := range []styleSpec{{"at", 0}, {"trunc", 0}, {"stream", 64}} {
			fl := flcLine(file, rec, st.style, ks, st.chunk)
			obs, d, s := flOracle(file, plain, st.style, ks, st.chunk)
			idx := run.Add(fl, obs, plain.class == "ok", append(append([]string{}, labels...), "kind:flc", "style:"+st.style, "plain:"+plain.class)...)
			if d != "" {
				run.Fail(idx, fl, d, s)
			}
		}
	}
}

// randomRecipe: a base font with one to three random table edits (the
// malformed stream).
func randomRecipe(r *vlib.Rand) recipe {
	base := vlib.Pick(r, []string{"ttf5", "ttf5h", "ttf5x", "cff5", "cff5x", "ttf1", "cff1"})
	tags := []string{"head", "hhea", "maxp", "OS/2", "hmtx", "cmap", "name", "post", "CFF ", "loca", "glyf",
		"cvt ", "fpgm", "prep", "gasp", "GDEF", "GSUB", "GPOS", "kern", "DSIG"}
	rec := recipe{base: base}
	for i := r.Range(1, 3); i > 0; i-- {
		t := vlib.Pick(r, tags)
		switch r.Intn(8) {
		case 0:
			rec.edits = append(rec.edits, drop(t))
		case 1:
			rec.edits = append(rec.edits, empty(t))
		case 2:
			rec.edits = append(rec.edits, junkT(t, r.Range(1, 80)))
		case 3:
			rec.edits = append(rec.edits, truncT(t, r.Range(0, 40)))
		case 4:
			rec.edits = append(rec.edits, byteT(t, r.Intn(60), r.Intn(256)))
		case 5:
			rec.edits = append(rec.edits, u16(t, 2*r.Intn(20), vlib.Pick(r, []int{0, 1, 4, 5, 6, 0xFFFF, r.Intn(65536)})))
		case 6:
			rec.edits = append(rec.edits, scaler(vlib.Pick(r, []uint32{header.ScalerTypeTrueType, header.ScalerTypeCFF, header.ScalerTypeApple, 0x74797031})))
		default:
			rec.edits = append(rec.edits, kernE())
		}
	}
	return rec
}

// Gen writes the run for the given tier.
func Gen(run *vlib.Run, seed uint64, tier string) {
	run.Rule = "rd: non-trivial = the file is accepted or more than header.Read's first accesses were made; fl: non-trivial = the fault-free file is accepted; distinct by the full case line"
	root := vlib.NewRand(seed)
	faultStats = map[string]int{}
	defer func() { run.Extra["c18b_fault_points"] = faultStats }()

	// (1) the structured stream: every site of read.go, exhaustive fault points
	// for the base fonts, two styles for the others
	r := root.Fork("built")
	for _, c := range handBuilt() {
		switch {
		case len(c.r.edits) == 0 && exhaustiveBases[c.r.base]:
			addFile(run, r, c, exhaustiveStyles, 1<<20, "ks:every")
			c2 := c
			c2.labels = append([]string{"again"}, c.labels...)
			addFaults(run, r, c2, otherStyles, 0, "ks:sampled")
		case len(c.r.edits) == 0 || tier == "thorough":
			addFile(run, r, c, allStyles, 0, "ks:sampled")
		default:
			addFile(run, r, c, fewStyles, 0, "ks:sampled")
		}
	}

	// (2) a complete font file of realistic size: sampled fault points
	r = root.Fork("big")
	addFile(run, r, builtCase{r: rc("goregular"), expect: "ok", labels: []string{"site:base"}}, bigStyles, 0, "ks:sampled")
	addFile(run, r, builtCase{r: rc("goregular", junkT("DSIG", 100), kernE()), expect: "ok", labels: []string{"site:base"}}, fewStyles, 0, "ks:sampled")

	// (2b) the imported decoder models: the whole (small) file goes to the model,
	// which runs C12's head / hmtx and C11's glyf decoders on the bytes
	r = root.Fork("imported")
	for _, rec := range importedCases() {
		addImported(run, r, rec)
	}

	// (2c) CFF size sweep, cff.Read and Parser.Read behind failing sources
	genSweep(run, tier)

	// (3) the malformed stream: random table edits
	r = root.Fork("random")
	n := vlib.Count(tier, 60, 1500)
	for i := 0; i < n; i++ {
		rec := randomRecipe(r)
		styles := []styleSpec{{vlib.Pick(r, []string{"at", "ge", "atp", "trunc", "seof", "stream"}), vlib.Pick(r, []int{5, 64, 512})}}
		addFile(run, r, builtCase{r: rec, labels: []string{"site:random"}}, styles, 0, "ks:sampled")
	}
}
