package c18b

// What part C18C's harness (harness/c18c) uses of this package.

import (
	"io"

	"seehuhn.de/go/sfnt/verifharness/vlib"
)

// BaseFont returns the bytes of a base font file.
func BaseFont(name string) ([]byte, error) { return baseFont(name) }

// Entry is one entry of the table directory, read independently of the library.
type Entry struct {
	Tag      string
	Off, Len int
}

// Directory returns the entries of the table directory as far as they lie in the file.
func Directory(file []byte) []Entry {
	var out []Entry
	for _, e := range readDirectory(file) {
		out = append(out, Entry{e.tag, e.off, e.len})
	}
	return out
}

// Result is one observed run of sfnt.Read.
type Result struct {
	Class string // ok err panic
	NG    int
	Both  bool     // font value together with an error, or neither
	Log   [][2]int // requests to the io.ReaderAt (fault-free runs and ReaderAt fault styles)
	Msg   string
}

func export(r readResult) Result { return Result{r.class, r.ng, r.both, r.log, r.msg} }

// ReadPlain runs sfnt.Read on the intact file behind a recording ReaderAt.
func ReadPlain(file []byte) Result { return export(readPlain(file)) }

// ReadStream runs sfnt.Read on the file delivered by a plain io.Reader in chunks.
func ReadStream(file []byte, chunk int) Result {
	return export(callRead(&streamReader{data: file, k: len(file) + 1, chunk: chunk}))
}

// ReadFault runs sfnt.Read with a fault of the given style at k (styles as in the case lines);
// for the ReaderAt styles the log holds the requests made until the failure.
func ReadFault(file []byte, style string, k, chunk int) Result {
	switch style {
	case "at", "ge", "atp", "gep":
		rec := &recReaderAt{data: file, style: style[:2], k: k, partial: len(style) == 3}
		res := callRead(rec)
		res.log = rec.log
		return export(res)
	case "trunc":
		kk := k
		if kk > len(file) {
			kk = len(file)
		}
		rec := &recReaderAt{data: file[:kk]}
		res := callRead(rec)
		res.log = rec.log
		return export(res)
	}
	res, _ := readFault(file, style, k, chunk)
	return export(res)
}

// HeaderLog returns the requests header.Read alone makes and whether it accepts.
func HeaderLog(file []byte) ([][2]int, bool) { return headerLog(file) }

// Merged returns the bytes covered by a log as sorted disjoint intervals.
func Merged(log [][2]int) [][2]int { return merged(log) }

// Navigation returns, for the table decoders that read through parser.Parser
// (post, cff, gdef, gsub, gpos, kern), the ranges each fetches from its
// section when run on its own on the intact table - only for those that do
// more than fetch the whole section with one request.
func Navigation(file []byte) vlib.Sx {
	dir := readDirectory(file)
	out := vlib.List{}
	for _, d := range []struct{ name, tag string }{{"post", "post"}, {"cff", "CFF "}, {"gdef", "GDEF"}, {"gsub", "GSUB"}, {"gpos", "GPOS"}, {"kern", "kern"}} {
		e, ok := findEntry(dir, d.tag)
		if !ok {
			continue
		}
		v := runSection(file, e, func(r *io.SectionReader) (int, error) { return standalone(d.name, r) })
		oneWindow := e.len == 0 && len(v.accs) == 0 ||
			e.len > 0 && e.len <= 1024 && len(v.accs) == 1 && v.accs[0] == [2]int{0, e.len}
		if !oneWindow {
			out = append(out, vlib.L(vlib.Atom(d.name), accsSx(v.accs)))
		}
	}
	return out
}

// Recipe edits for the other package (a recipe is handed over as its S-expression).
func RecipeSx(base string, edits ...vlib.Sx) vlib.Sx {
	l := vlib.List{vlib.Atom("recipe"), vlib.Atom(base)}
	return append(l, edits...)
}

// BuildRecipe builds the file a recipe S-expression describes.
func BuildRecipe(x vlib.Sx) ([]byte, error) {
	r, err := parseRecipe(x)
	if err != nil {
		return nil, err
	}
	return r.build()
}
