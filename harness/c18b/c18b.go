// Package c18b ties the table-level model of sfnt.Read (coq/C18B) to read.go:
// generated font files of both outline kinds, edited table by table, are read
// through recording and fault-injecting readers; the model gets the table
// directory, the file length and what every table decoder (called on its own
// through the public API) returned and read; compared are the accept/reject
// class, header.Read's accesses, the order in which the tables are first
// touched and the set of bytes read; the oracle states the property directly:
// a fault at an offset the fault-free run read is an error, a fault elsewhere
// changes nothing, a panic never, a font value iff no error.
package c18b

import (
	"encoding/binary"
	"errors"
	"fmt"
	"io"
	"sort"
	"strings"

	"seehuhn.de/go/sfnt"
	"seehuhn.de/go/sfnt/cff"
	"seehuhn.de/go/sfnt/cmap"
	"seehuhn.de/go/sfnt/glyf"
	"seehuhn.de/go/sfnt/head"
	"seehuhn.de/go/sfnt/header"
	"seehuhn.de/go/sfnt/hmtx"
	"seehuhn.de/go/sfnt/kern"
	"seehuhn.de/go/sfnt/maxp"
	"seehuhn.de/go/sfnt/name"
	"seehuhn.de/go/sfnt/opentype/gdef"
	"seehuhn.de/go/sfnt/opentype/gtab"
	"seehuhn.de/go/sfnt/os2"
	"seehuhn.de/go/sfnt/post"
	"seehuhn.de/go/sfnt/verifharness/vlib"
)

var errFault = errors.New("injected I/O fault")

// ---------------------------------------------------------------- readers

// recReaderAt: bytes.Reader's ReadAt, recording every request; with a fault
// style it fails (not with EOF) on the requests the style names.
//
//	""     no fault
//	"at"   every request touching offset k
//	"ge"   every request touching an offset >= k
//
// partial: the bytes before the bad offset are delivered with the error.
type recReaderAt struct {
	data    []byte
	style   string
	k       int
	partial bool
	log     [][2]int
	hit     bool
}

func (r *recReaderAt) Read(p []byte) (int, error) { return 0, errors.New("Read must not be used") }

func (r *recReaderAt) ReadAt(p []byte, off int64) (int, error) {
	if off < 0 {
		return 0, errors.New("negative offset")
	}
	o, n := int(off), len(p)
	r.log = append(r.log, [2]int{o, n})
	bad := false
	switch r.style {
	case "at":
		bad = o <= r.k && r.k < o+n
	case "ge":
		bad = n > 0 && r.k < o+n
	}
	if bad {
		r.hit = true
		if r.partial && o < r.k && o < len(r.data) {
			lim := r.k
			if lim > len(r.data) {
				lim = len(r.data)
			}
			return copy(p, r.data[o:lim]), errFault
		}
		return 0, errFault
	}
	if o >= len(r.data) {
		return 0, io.EOF
	}
	c := copy(p, r.data[o:])
	if c < n {
		return c, io.EOF
	}
	return c, nil
}

// streamReader: a plain io.Reader delivering at most chunk bytes per call.
// fail: an error (not EOF) once offset k is reached; otherwise the stream
// ends (EOF) after k bytes.
type streamReader struct {
	data  []byte
	pos   int
	k     int
	chunk int
	fail  bool
}

func (r *streamReader) Read(p []byte) (int, error) {
	lim := len(r.data)
	if r.k < lim {
		lim = r.k
	}
	if r.pos >= lim {
		if r.fail && r.pos >= r.k {
			return 0, errFault
		}
		return 0, io.EOF
	}
	n := len(p)
	if r.chunk > 0 && n > r.chunk {
		n = r.chunk
	}
	if n > lim-r.pos {
		n = lim - r.pos
	}
	copy(p, r.data[r.pos:r.pos+n])
	r.pos += n
	return n, nil
}

// ---------------------------------------------------------------- the directory, independently

type dirEntry struct {
	tag      string
	off, len int
}

// readDirectory: the entries of the table directory, as far as they lie in
// the file (no validation: that is header.Read's business).
func readDirectory(b []byte) []dirEntry {
	if len(b) < 12 {
		return nil
	}
	n := int(binary.BigEndian.Uint16(b[4:]))
	var out []dirEntry
	for i := 0; i < n && 12+16*i+16 <= len(b); i++ {
		rec := b[12+16*i:]
		out = append(out, dirEntry{string(rec[:4]), int(binary.BigEndian.Uint32(rec[8:])), int(binary.BigEndian.Uint32(rec[12:]))})
	}
	return out
}

func findEntry(dir []dirEntry, tag string) (dirEntry, bool) {
	for _, e := range dir {
		if e.tag == tag {
			return e, true
		}
	}
	return dirEntry{}, false
}

func tableBytes(b []byte, e dirEntry) []byte {
	if e.off >= len(b) {
		return []byte{}
	}
	end := e.off + e.len
	if end > len(b) {
		end = len(b)
	}
	return b[e.off:end]
}

// wraps: an entry whose offset + length does not fit 32 bits (header.Read
// computes the end in uint32; the statements about truncation exclude it)
func wraps(dir []dirEntry) bool {
	for _, e := range dir {
		if uint64(e.off)+uint64(e.len) >= 1<<32 {
			return true
		}
	}
	return false
}

func dataEnd(dir []dirEntry) int {
	end := 0
	for _, e := range dir {
		if e.off+e.len > end {
			end = e.off + e.len
		}
	}
	return end
}

// ---------------------------------------------------------------- decoders on their own

type verdict struct {
	class string // ok err panic
	val   int
	accs  [][2]int // relative to the table
}

func (v verdict) sx() vlib.Sx {
	switch v.class {
	case "ok":
		return vlib.L(vlib.Atom("ok"), vlib.Int(v.val))
	}
	return vlib.Atom(v.class)
}

func accsSx(a [][2]int) vlib.Sx {
	l := vlib.List{}
	for _, x := range a {
		l = append(l, vlib.L(vlib.Int(x[0]), vlib.Int(x[1])))
	}
	return l
}

// runSection calls a decoder on a section reader over the table and records
// what it read.
func runSection(file []byte, e dirEntry, f func(r *io.SectionReader) (int, error)) (v verdict) {
	rec := &recReaderAt{data: file}
	defer func() {
		if x := recover(); x != nil {
			v.class = "panic"
		}
		for _, a := range rec.log {
			v.accs = append(v.accs, [2]int{a[0] - e.off, a[1]})
		}
	}()
	val, err := f(io.NewSectionReader(rec, int64(e.off), int64(e.len)))
	if err != nil {
		v.class = "err"
	} else {
		v.class, v.val = "ok", val
	}
	return v
}

func runBytes(f func() (int, error)) (v verdict) {
	defer func() {
		if x := recover(); x != nil {
			v = verdict{class: "panic"}
		}
	}()
	val, err := f()
	if err != nil {
		return verdict{class: "err"}
	}
	return verdict{class: "ok", val: val}
}

// standalone runs one of the parser-based decoders on a section reader.
func standalone(name string, r *io.SectionReader) (int, error) {
	switch name {
	case "post":
		_, err := post.Read(r)
		return 0, err
	case "cff":
		f, err := cff.Read(r)
		if err != nil {
			return 0, err
		}
		return len(f.Glyphs), nil
	case "gdef":
		_, err := gdef.Read(r)
		return 0, err
	case "gsub":
		_, err := gtab.Read(r, gtab.TypeGsub)
		return 0, err
	case "gpos":
		_, err := gtab.Read(r, gtab.TypeGpos)
		return 0, err
	case "kern":
		_, err := kern.Read(r)
		return 0, err
	}
	return 0, errors.New("unknown decoder " + name)
}

// decoderList: every table decoder of read.go, run on its own on the tables
// of this file (public API only).  The result is what the model is told.
func decoderList(file []byte, dir []dirEntry) vlib.Sx {
	l := vlib.List{}
	sec := func(nm, tag string, f func(r *io.SectionReader) (int, error)) (verdict, bool) {
		e, ok := findEntry(dir, tag)
		if !ok {
			return verdict{}, false
		}
		v := runSection(file, e, f)
		l = append(l, vlib.L(vlib.Atom(nm), v.sx(), accsSx(v.accs)))
		return v, true
	}
	headV, haveHead := sec("head", "head", func(r *io.SectionReader) (int, error) {
		info, err := head.Read(r)
		if err != nil {
			return 0, err
		}
		return int(info.LocaFormat), nil
	})
	sec("maxp", "maxp", func(r *io.SectionReader) (int, error) {
		info, err := maxp.Read(r)
		if err != nil {
			return 0, err
		}
		return info.NumGlyphs, nil
	})
	sec("os2", "OS/2", func(r *io.SectionReader) (int, error) { _, err := os2.Read(r); return 0, err })
	sec("post", "post", func(r *io.SectionReader) (int, error) { _, err := post.Read(r); return 0, err })
	sec("cff", "CFF ", func(r *io.SectionReader) (int, error) {
		f, err := cff.Read(r)
		if err != nil {
			return 0, err
		}
		return len(f.Glyphs), nil
	})
	sec("gdef", "GDEF", func(r *io.SectionReader) (int, error) { _, err := gdef.Read(r); return 0, err })
	sec("gsub", "GSUB", func(r *io.SectionReader) (int, error) { _, err := gtab.Read(r, gtab.TypeGsub); return 0, err })
	sec("gpos", "GPOS", func(r *io.SectionReader) (int, error) { _, err := gtab.Read(r, gtab.TypeGpos); return 0, err })
	sec("kern", "kern", func(r *io.SectionReader) (int, error) { _, err := kern.Read(r); return 0, err })

	byt := func(nm string, v verdict) { l = append(l, vlib.L(vlib.Atom(nm), v.sx())) }
	if hh, ok := findEntry(dir, "hhea"); ok {
		var hm []byte
		if e, ok := findEntry(dir, "hmtx"); ok {
			hm = tableBytes(file, e)
		}
		byt("hmtx", runBytes(func() (int, error) {
			info, err := hmtx.Decode(tableBytes(file, hh), hm)
			if err != nil {
				return 0, err
			}
			return len(info.Widths), nil
		}))
	}
	if e, ok := findEntry(dir, "cmap"); ok {
		var tab cmap.Table
		v := runBytes(func() (int, error) {
			var err error
			tab, err = cmap.Decode(tableBytes(file, e))
			return 0, err
		})
		byt("cmap", v)
		if v.class == "ok" {
			byt("getbest", runBytes(func() (int, error) { _, err := tab.GetBest(); return 0, err }))
		}
	}
	if e, ok := findEntry(dir, "name"); ok {
		byt("name", runBytes(func() (int, error) { _, err := name.Decode(tableBytes(file, e)); return 0, err }))
		byt("namever", verdict{class: "ok"})
	}
	lo, okl := findEntry(dir, "loca")
	gl, okg := findEntry(dir, "glyf")
	if haveHead && headV.class == "ok" && okl && okg {
		byt("glyf", runBytes(func() (int, error) {
			gg, err := glyf.Decode(&glyf.Encoded{GlyfData: tableBytes(file, gl), LocaData: tableBytes(file, lo), LocaFormat: int16(headV.val)})
			if err != nil {
				return 0, err
			}
			return len(gg), nil
		}))
	}
	return l
}

// fontSx: what the model is given: the directory bytes, the file length, the decoders.
func fontSx(file []byte) vlib.Sx {
	n := 0
	if len(file) >= 6 {
		n = int(binary.BigEndian.Uint16(file[4:]))
	}
	pre := 12 + 16*n
	if pre > len(file) {
		pre = len(file)
	}
	return vlib.L(vlib.Hex(file[:pre]), vlib.Int(len(file)), decoderList(file, readDirectory(file)))
}

// ---------------------------------------------------------------- running sfnt.Read

type readResult struct {
	class string // ok err panic
	font  *sfnt.Font
	ng    int
	both  bool // font value AND error, or neither
	log   [][2]int
	msg   string
}

func callRead(r io.Reader) (res readResult) {
	defer func() {
		if e := recover(); e != nil {
			res.class, res.msg = "panic", fmt.Sprint(e)
		}
	}()
	f, err := sfnt.Read(r)
	if (f == nil) == (err == nil) {
		res.both = true
	}
	if err != nil {
		res.class, res.msg = "err", err.Error()
		return res
	}
	res.class = "ok"
	if f != nil {
		res.ng = f.NumGlyphs()
		res.font = f
	}
	return res
}

func readPlain(file []byte) readResult {
	rec := &recReaderAt{data: file}
	res := callRead(rec)
	res.log = rec.log
	return res
}

func readFault(file []byte, style string, k, chunk int) (res readResult, hit bool) {
	kk := k
	if kk > len(file) {
		kk = len(file)
	}
	switch style {
	case "at", "ge", "atp", "gep":
		rec := &recReaderAt{data: file, style: style[:2], k: k, partial: len(style) == 3}
		res = callRead(rec)
		return res, rec.hit
	case "trunc":
		return callRead(&recReaderAt{data: file[:kk]}), false
	case "stream":
		return callRead(&streamReader{data: file, k: k, chunk: chunk, fail: true}), false
	case "seof":
		return callRead(&streamReader{data: file, k: k, chunk: chunk}), false
	}
	return readResult{class: "badstyle"}, false
}

func classChar(r readResult) byte {
	if r.both {
		return 'X'
	}
	switch r.class {
	case "ok":
		return 'o'
	case "err":
		return 'e'
	case "panic":
		return 'p'
	}
	return '?'
}

// ---------------------------------------------------------------- observation of the fault-free run

func merged(log [][2]int) [][2]int {
	var iv [][2]int
	for _, a := range log {
		if a[1] > 0 {
			iv = append(iv, [2]int{a[0], a[0] + a[1]})
		}
	}
	sort.Slice(iv, func(i, j int) bool { return iv[i][0] < iv[j][0] })
	var out [][2]int
	for _, x := range iv {
		if n := len(out); n > 0 && x[0] <= out[n-1][1] {
			if x[1] > out[n-1][1] {
				out[n-1][1] = x[1]
			}
		} else {
			out = append(out, x)
		}
	}
	return out
}

func touched(log [][2]int, k int) bool {
	for _, a := range log {
		if a[0] <= k && k < a[0]+a[1] {
			return true
		}
	}
	return false
}

func maxEnd(log [][2]int) int {
	m := 0
	for _, a := range log {
		if a[1] > 0 && a[0]+a[1] > m {
			m = a[0] + a[1]
		}
	}
	return m
}

// headerLog: the accesses of header.Read alone.
func headerLog(file []byte) (log [][2]int, ok bool) {
	rec := &recReaderAt{data: file}
	defer func() {
		if e := recover(); e != nil {
			log, ok = rec.log, false
		}
	}()
	_, err := header.Read(rec)
	return rec.log, err == nil
}

func plainObs(file []byte, res readResult) string {
	cls := vlib.Sx(vlib.Atom(res.class))
	if res.class == "ok" {
		cls = vlib.L(vlib.Atom("ok"), vlib.Int(res.ng))
	}
	hlog, hok := headerLog(file)
	dirl := vlib.List{vlib.Atom("dir")}
	for _, a := range hlog {
		dirl = append(dirl, vlib.L(vlib.Int(a[0]), vlib.Int(a[1])))
	}
	order := vlib.List{vlib.Atom("order")}
	if hok {
		dir := readDirectory(file)
		seen := map[string]bool{}
		for _, a := range res.log {
			for _, e := range dir {
				if e.off <= a[0] && a[0] < e.off+e.len {
					if !seen[e.tag] {
						seen[e.tag] = true
						order = append(order, vlib.Atom("x"+fmt.Sprintf("%08x", binary.BigEndian.Uint32([]byte(e.tag)))))
					}
					break
				}
			}
		}
	}
	cov := vlib.List{vlib.Atom("cov")}
	for _, iv := range merged(res.log) {
		cov = append(cov, vlib.L(vlib.Int(iv[0]), vlib.Int(iv[1])))
	}
	return vlib.Str(vlib.L(cls, dirl, order, cov))
}

// ---------------------------------------------------------------- signatures

const (
	sigPanic    = "c18b-read-panics"
	sigBoth     = "c18b-font-value-and-error"
	sigSwallow  = "c18b-fault-at-consulted-offset-accepted"
	sigSpurious = "c18b-fault-outside-consulted-ranges-changes-result"
	sigTrunc    = "c18b-truncated-inside-table-data-accepted"
	sigPadding  = "c18b-cut-in-final-padding-changes-result"
	sigExpect   = "c18b-tolerated-site-or-required-table"
	sigBuild    = "c18b-case-not-built"
	sigRequired = "c18b-required-table-missing-accepted"
)

// ---------------------------------------------------------------- case lines

// expectation of a hand-built case: "" none, "ok", "err"
func rdLine(file []byte, r recipe, expect string) string {
	items := []vlib.Sx{vlib.Atom("rd"), fontSx(file), r.sx()}
	if expect != "" {
		items = append(items, vlib.L(vlib.Atom("expect"), vlib.Atom(expect)))
	}
	return vlib.Line(items...)
}

// modelStyle: the variants that deliver partial data with the error are the
// same reader to the model.
func modelStyle(style string) string {
	switch style {
	case "atp":
		return "at"
	case "gep":
		return "ge"
	}
	return style
}

// rdcLine / flcLine: the whole file goes to the model, which decodes head, hhea+hmtx and
// glyf+loca itself with the imported models of C12 and C11.
func rdcLine(file []byte, r recipe) string {
	return vlib.Line(vlib.Atom("rdc"), vlib.Hex(file), decoderList(file, readDirectory(file)), r.sx())
}

func flcLine(file []byte, r recipe, style string, ks []int, chunk int) string {
	return vlib.Line(vlib.Atom("flc"), vlib.Atom(modelStyle(style)), vlib.Hex(file), decoderList(file, readDirectory(file)), vlib.Ints(ks), vlib.Int(chunk), r.sx(), vlib.Atom("impl:"+style))
}

func flLine(file []byte, r recipe, style string, ks []int, chunk int) string {
	return vlib.Line(vlib.Atom("fl"), vlib.Atom(modelStyle(style)), fontSx(file), vlib.Ints(ks), vlib.Int(chunk), r.sx(), vlib.Atom("impl:"+style))
}

// requiredMissing: the statement "a required table is missing", from the
// directory alone.
func requiredMissing(file []byte) (bool, string) {
	if len(file) < 12 {
		return false, ""
	}
	dir := readDirectory(file)
	sc := binary.BigEndian.Uint32(file)
	need := []string{"head", "maxp", "loca", "glyf"}
	if sc == header.ScalerTypeCFF {
		need = []string{"CFF "}
	}
	for _, t := range need {
		if _, ok := findEntry(dir, t); !ok {
			return true, t
		}
	}
	return false, ""
}

// rdOracle: the property on the fault-free run.
func rdOracle(file []byte, res readResult, expect string) (string, string) {
	if res.class == "panic" {
		return "sfnt.Read panics on the file: " + res.msg, sigPanic
	}
	if res.both {
		return "sfnt.Read returns a font value together with an error, or neither", sigBoth
	}
	if miss, t := requiredMissing(file); miss && res.class == "ok" {
		return fmt.Sprintf("sfnt.Read accepts a file without the required table %q", t), sigRequired
	}
	if expect != "" && res.class != expect {
		return fmt.Sprintf("expected %s, sfnt.Read gives %s (%s)", expect, res.class, res.msg), sigExpect
	}
	return "", ""
}

// faultStats: how the fault points of a run were distributed (evidence only).
var faultStats = map[string]int{}

// inTable: k lies inside a table of the directory.
func inTable(dir []dirEntry, k int) bool {
	for _, e := range dir {
		if e.off <= k && k < e.off+e.len {
			return true
		}
	}
	return false
}

// flOracle: the property for one fault style at every k of the list.
func flOracle(file []byte, plain readResult, style string, ks []int, chunk int) (obs string, fail, sig string) {
	dir := readDirectory(file)
	end := dataEnd(dir)
	dirEnd := 12 + 16*len(dir)
	var sb strings.Builder
	set := func(f, s string) {
		if fail == "" {
			fail, sig = f, s
		}
	}
	for _, k := range ks {
		res, _ := readFault(file, style, k, chunk)
		c := classChar(res)
		sb.WriteByte(c)
		if c == 'p' {
			set(fmt.Sprintf("sfnt.Read (%s) panics at k=%d: %s", style, k, res.msg), sigPanic)
			continue
		}
		if c == 'X' {
			set(fmt.Sprintf("sfnt.Read (%s) at k=%d returns a font value together with an error, or neither", style, k), sigBoth)
			continue
		}
		same := res.class == plain.class && (res.class != "ok" || res.ng == plain.ng)
		if c == 'o' && plain.class == "ok" && style != "trunc" && style != "seof" {
			// a read that succeeds on a faulty source must return the font of the intact file
			if d := sameAsIntact(res.font, file); d != "" {
				set(fmt.Sprintf("sfnt.Read (%s, k=%d) succeeds on a faulty source but %s", style, k, d), sigCFFDiffers)
			}
		}
		switch style {
		case "at", "atp":
			switch {
			case touched(plain.log, k):
				faultStats["bad byte at a consulted offset (must be an error)"]++
			case inTable(dir, k):
				faultStats["bad byte inside a table at an offset never read (must change nothing)"]++
			default:
				faultStats["bad byte in offset table / padding / behind the file (must change nothing)"]++
			}
			if touched(plain.log, k) {
				if c != 'e' {
					set(fmt.Sprintf("read error at offset %d, which the fault-free run reads, but sfnt.Read succeeds", k), sigSwallow)
				}
			} else if !same {
				set(fmt.Sprintf("bad byte at offset %d, which the fault-free run never reads: result %s instead of %s", k, res.class, plain.class), sigSpurious)
			}
		case "ge", "gep":
			if k < maxEnd(plain.log) {
				if c != 'e' {
					set(fmt.Sprintf("reads fail from offset %d on, the fault-free run reads up to %d, but sfnt.Read succeeds", k, maxEnd(plain.log)), sigSwallow)
				}
			} else if !same {
				set(fmt.Sprintf("reads fail from offset %d on, beyond everything the fault-free run reads: result %s instead of %s", k, res.class, plain.class), sigSpurious)
			}
		case "trunc", "seof":
			if wraps(dir) {
				break
			}
			if k < end && k < len(file) {
				faultStats["cut inside or before the table data (must be an error)"]++
			} else if k >= end && k >= dirEnd {
				faultStats["cut behind the table data (must change nothing)"]++
			}
			if k < end && k < len(file) {
				if c != 'e' {
					set(fmt.Sprintf("file cut at %d, inside the table data (end %d), accepted (%s)", k, end, style), sigTrunc)
				}
			} else if k >= end && k >= dirEnd && !same {
				set(fmt.Sprintf("file cut at %d, behind the table data (end %d): result %s instead of %s (%s)", k, end, res.class, plain.class, style), sigPadding)
			}
		case "stream":
			faultStats["streaming reader failing at k"]++
			if k <= len(file) {
				if c != 'e' {
					set(fmt.Sprintf("streaming reader fails at offset %d of %d, sfnt.Read succeeds", k, len(file)), sigSwallow)
				}
			} else if !same {
				set(fmt.Sprintf("streaming reader would fail at %d, behind the end of the stream: result %s instead of %s", k, res.class, plain.class), sigSpurious)
			}
		}
		if plain.class == "err" && c == 'o' {
			set(fmt.Sprintf("the file is rejected without faults but accepted with a fault (%s, k=%d)", style, k), sigSpurious)
		}
	}
	return sb.String(), fail, sig
}

// ---------------------------------------------------------------- RunCase

func findRecipe(items []vlib.Sx) (recipe, string, string, error) {
	var rec recipe
	found := false
	expect, impl := "", ""
	for _, it := range items {
		if a, err := vlib.AsAtom(it); err == nil {
			if strings.HasPrefix(a, "impl:") {
				impl = a[5:]
			}
			continue
		}
		l, err := vlib.AsList(it)
		if err != nil || len(l) == 0 {
			continue
		}
		h, err := vlib.AsAtom(l[0])
		if err != nil {
			continue
		}
		switch h {
		case "recipe":
			r, err := parseRecipe(it)
			if err != nil {
				return rec, "", "", err
			}
			rec, found = r, true
		case "expect":
			if len(l) == 2 {
				expect, _ = vlib.AsAtom(l[1])
			}
		}
	}
	if !found {
		return rec, "", "", errors.New("C18B case without recipe")
	}
	return rec, expect, impl, nil
}

// RunCase re-executes one case line: the file is rebuilt from the recipe.
func RunCase(line string) (impl, fail, sig string, err error) {
	line = strings.TrimPrefix(line, "!")
	items, err := vlib.Parse(line)
	if err != nil {
		return "", "", "", err
	}
	if len(items) < 3 {
		return "", "", "", errors.New("C18B case: too few items")
	}
	kind, err := vlib.AsAtom(items[0])
	if err != nil {
		return "", "", "", err
	}
	switch kind {
	case "cff":
		return runCFFLine(items)
	case "bulk":
		return runBulkLine(items)
	}
	rec, expect, implStyle, err := findRecipe(items[1:])
	if err != nil {
		return "", "", "", err
	}
	file, err := rec.build()
	if err != nil {
		return "builderr", "the file of this case could not be built: " + err.Error(), sigBuild, nil
	}
	plain := readPlain(file)
	switch kind {
	case "rd", "rdc":
		d, s := rdOracle(file, plain, expect)
		return plainObs(file, plain), d, s, nil
	case "fl", "flc":
		at := 3
		if kind == "flc" {
			at = 4
		}
		if len(items) < at+2 {
			return "", "", "", errors.New("fl: too few items")
		}
		style, err := vlib.AsAtom(items[1])
		if err != nil {
			return "", "", "", err
		}
		if implStyle != "" {
			style = implStyle
		}
		ks, err := vlib.AsInts(items[at])
		if err != nil {
			return "", "", "", err
		}
		chunk, err := vlib.AsInt(items[at+1])
		if err != nil {
			return "", "", "", err
		}
		obs, d, s := flOracle(file, plain, style, ks, chunk)
		return obs, d, s, nil
	}
	return "", "", "", errors.New("C18B case: unknown kind " + kind)
}
