package c18b

// The size sweep and the direct fault injection into cff.Read and
// parser.Parser.Read.
//
// A read error inside the parser's bulk read (Parser.Read: CFF INDEX payloads,
// Private DICT) only matters for the FINAL chunk of at most 1024 bytes, and the
// parser refills its buffer in 1024-byte windows: whether a fault in the last
// bytes of the CFF data is met by the bulk read of the Private DICT or earlier
// depends on the position of those bytes relative to the window, i.e. on the
// size of everything before them.  So the CFF table length is swept in steps
// of two or three bytes over more than 1024 bytes (cffpad-N fonts), and faults
// are placed in the Private DICT, at the end of every INDEX payload and in the
// last 64 bytes of the table - through sfnt.Read (single bad byte) and through
// cff.Read directly (failing ReadSeekSizer with and without partial data,
// single bad byte, truncation).
//
// The oracle does not depend on the model: the offsets the SAME read consumes
// on the intact data are recorded; a fault or cut at a consumed offset must
// give an error, and a read that succeeds on a faulty source must return the
// font the intact bytes give (compared through its encoding and the decoded
// Private DICTs).

import (
	"bytes"
	"encoding/binary"
	"errors"
	"fmt"
	"io"
	"reflect"
	"strings"

	"seehuhn.de/go/sfnt"
	"seehuhn.de/go/sfnt/cff"
	"seehuhn.de/go/sfnt/parser"
	"seehuhn.de/go/sfnt/verifharness/vlib"
)

const (
	sigCFFSwallow = "c18b-cff-read-fault-at-consumed-offset-accepted"
	sigCFFDiffers = "c18b-read-on-faulty-source-returns-a-different-font"
	sigCFFPanic   = "c18b-cff-read-panics"
	sigBulk       = "c18b-parser-bulk-read-loses-error"
)

// seekReader: a ReadSeekSizer over a recReaderAt (so that the fault styles
// and the recording are those of the ReaderAt).
type seekReader struct {
	ra  *recReaderAt
	pos int64
}

func (r *seekReader) Size() int64 { return int64(len(r.ra.data)) }

func (r *seekReader) Seek(offset int64, whence int) (int64, error) {
	switch whence {
	case io.SeekStart:
	case io.SeekCurrent:
		offset += r.pos
	case io.SeekEnd:
		offset += int64(len(r.ra.data))
	default:
		return 0, errors.New("bad whence")
	}
	if offset < 0 {
		return 0, errors.New("negative position")
	}
	r.pos = offset
	return offset, nil
}

func (r *seekReader) Read(p []byte) (int, error) {
	n, err := r.ra.ReadAt(p, r.pos)
	r.pos += int64(n)
	return n, err
}

// faultSeeker: the source for one fault style at k ("trunc": the first k bytes).
func faultSeeker(data []byte, style string, k int) *seekReader {
	switch style {
	case "trunc":
		if k > len(data) {
			k = len(data)
		}
		return &seekReader{ra: &recReaderAt{data: data[:k]}}
	case "":
		return &seekReader{ra: &recReaderAt{data: data}}
	}
	return &seekReader{ra: &recReaderAt{data: data, style: style[:2], k: k, partial: len(style) == 3}}
}

// ---------------------------------------------------------------- CFF structure (for choosing fault points)

// cffPoints: offsets inside CFF data worth a fault: the last bytes of every
// INDEX payload (Name, Top DICT, String, Global Subr, CharStrings) and the
// byte behind it, the Private DICT with the two bytes behind it, the last 64
// bytes.  Adobe Technical Note 5176; nothing is validated.
func cffPoints(c []byte) []int {
	set := map[int]bool{}
	add := func(k int) {
		if k >= 0 && k <= len(c) {
			set[k] = true
		}
	}
	index := func(p int) (items [][2]int, next int, ok bool) {
		if p+2 > len(c) {
			return nil, 0, false
		}
		cnt := int(binary.BigEndian.Uint16(c[p:]))
		if cnt == 0 {
			return nil, p + 2, true
		}
		if p+3 > len(c) {
			return nil, 0, false
		}
		os := int(c[p+2])
		if os < 1 || os > 4 || p+3+os*(cnt+1) > len(c) {
			return nil, 0, false
		}
		rd := func(i int) int {
			v := 0
			for _, x := range c[p+3+os*i : p+3+os*i+os] {
				v = v<<8 | int(x)
			}
			return v
		}
		base := p + 3 + os*(cnt+1) - 1
		for i := 0; i < cnt; i++ {
			items = append(items, [2]int{base + rd(i), base + rd(i+1)})
		}
		end := base + rd(cnt)
		for d := -3; d <= 1; d++ {
			add(end + d)
		}
		return items, end, true
	}
	for k := len(c) - 64; k <= len(c); k++ {
		add(k)
	}
	if len(c) < 4 {
		return keys(set)
	}
	p := int(c[2])
	_, p, ok := index(p) // Name INDEX
	if !ok {
		return keys(set)
	}
	tops, p, ok := index(p)
	if !ok {
		return keys(set)
	}
	if _, p, ok = index(p); ok { // String INDEX
		index(p) // Global Subr INDEX
	}
	for _, t := range tops {
		if t[0] < 0 || t[1] > len(c) || t[0] > t[1] {
			continue
		}
		d := c[t[0]:t[1]]
		var stack []int
		for i := 0; i < len(d); {
			b0 := int(d[i])
			switch {
			case b0 >= 32 && b0 <= 246:
				stack = append(stack, b0-139)
				i++
			case b0 >= 247 && b0 <= 250 && i+1 < len(d):
				stack = append(stack, (b0-247)*256+int(d[i+1])+108)
				i += 2
			case b0 >= 251 && b0 <= 254 && i+1 < len(d):
				stack = append(stack, -(b0-251)*256-int(d[i+1])-108)
				i += 2
			case b0 == 28 && i+2 < len(d):
				stack = append(stack, int(int16(binary.BigEndian.Uint16(d[i+1:]))))
				i += 3
			case b0 == 29 && i+4 < len(d):
				stack = append(stack, int(int32(binary.BigEndian.Uint32(d[i+1:]))))
				i += 5
			case b0 == 30:
				i++
				for i < len(d) {
					x := d[i]
					i++
					if x&0x0f == 0x0f || x>>4 == 0x0f {
						break
					}
				}
				stack = append(stack, 0)
			case b0 == 12:
				stack = stack[:0]
				i += 2
			case b0 <= 21:
				switch {
				case b0 == 17 && len(stack) >= 1: // CharStrings
					index(stack[len(stack)-1])
				case b0 == 18 && len(stack) >= 2: // Private: size offset
					size, off := stack[len(stack)-2], stack[len(stack)-1]
					for k := off - 1; k <= off+size+2; k++ {
						add(k)
					}
				}
				stack = stack[:0]
				i++
			default:
				i = len(d)
			}
		}
	}
	return keys(set)
}

func keys(set map[int]bool) []int {
	ks := make([]int, 0, len(set))
	for k := range set {
		ks = append(ks, k)
	}
	sortInts(ks)
	return ks
}

func sortInts(a []int) {
	for i := 1; i < len(a); i++ {
		for j := i; j > 0 && a[j-1] > a[j]; j-- {
			a[j-1], a[j] = a[j], a[j-1]
		}
	}
}

// ---------------------------------------------------------------- cff.Read directly

type cffResult struct {
	class string // ok err panic
	f     *cff.Font
	msg   string
}

func callCFF(r parser.ReadSeekSizer) (res cffResult) {
	defer func() {
		if e := recover(); e != nil {
			res = cffResult{class: "panic", msg: fmt.Sprint(e)}
		}
	}()
	f, err := cff.Read(r)
	if err != nil {
		return cffResult{class: "err", msg: err.Error()}
	}
	return cffResult{class: "ok", f: f}
}

func encodeCFF(f *cff.Font) (b []byte, err error) {
	defer func() {
		if e := recover(); e != nil {
			err = fmt.Errorf("panic: %v", e)
		}
	}()
	buf := &bytes.Buffer{}
	err = f.Write(buf)
	return buf.Bytes(), err
}

// sameCFF: the two fonts are the same as far as their encoding and their
// Private DICTs, glyphs and font info say ("" = same).
func sameCFF(a, b *cff.Font) string {
	if a == nil || b == nil {
		return "nil font"
	}
	if !reflect.DeepEqual(a.Private, b.Private) {
		return fmt.Sprintf("Private DICT differs: %+v, intact %+v", derefPrivate(a), derefPrivate(b))
	}
	if !reflect.DeepEqual(a.FontInfo, b.FontInfo) {
		return "FontInfo differs"
	}
	if !reflect.DeepEqual(a.Glyphs, b.Glyphs) {
		return "glyphs differ"
	}
	ea, err1 := encodeCFF(a)
	eb, err2 := encodeCFF(b)
	if (err1 == nil) != (err2 == nil) || !bytes.Equal(ea, eb) {
		return "the encodings of the two fonts differ"
	}
	return ""
}

func derefPrivate(f *cff.Font) string {
	var parts []string
	for _, p := range f.Private {
		if p == nil {
			parts = append(parts, "nil")
		} else {
			parts = append(parts, fmt.Sprintf("{Blue %v StdHW %v StdVW %v}", p.BlueValues, p.StdHW, p.StdVW))
		}
	}
	return strings.Join(parts, " ")
}

// cffTable: the "CFF " table of a file.
func cffTable(file []byte) ([]byte, int, bool) {
	e, ok := findEntry(readDirectory(file), "CFF ")
	if !ok || e.off+e.len > len(file) {
		return nil, 0, false
	}
	return file[e.off : e.off+e.len], e.off, true
}

// cffOracle: cff.Read on the CFF data behind a failing source, at every k.
func cffOracle(data []byte, style string, ks []int) (obs string, fail, sig string) {
	plainSrc := faultSeeker(data, "", 0)
	ref := callCFF(plainSrc)
	log := plainSrc.ra.log
	consumedEnd := maxEnd(log) // the requests pass the end of the data: a cut at len(data) cuts nothing
	cutEnd := consumedEnd
	if cutEnd > len(data) {
		cutEnd = len(data)
	}
	var sb strings.Builder
	set := func(f, s string) {
		if fail == "" {
			fail, sig = f, s
		}
	}
	for _, k := range ks {
		res := callCFF(faultSeeker(data, style, k))
		switch res.class {
		case "panic":
			sb.WriteByte('p')
			set(fmt.Sprintf("cff.Read (%s) panics at k=%d: %s", style, k, res.msg), sigCFFPanic)
			continue
		case "err":
			sb.WriteByte('e')
		default:
			sb.WriteByte('o')
		}
		consumed := false
		switch style {
		case "at", "atp":
			consumed = touched(log, k)
		case "trunc":
			consumed = k < cutEnd
		default: // ge, gep
			consumed = k < consumedEnd
		}
		if ref.class != "ok" {
			if res.class == "ok" {
				set(fmt.Sprintf("cff.Read rejects the intact data but accepts it with a fault (%s, k=%d)", style, k), sigCFFDiffers)
			}
			continue
		}
		if consumed && res.class == "ok" {
			d := sameCFF(res.f, ref.f)
			if d != "" {
				d = "; the font returned is damaged: " + d
			}
			set(fmt.Sprintf("cff.Read (%s) returns err == nil although the source failed at offset %d of %d, which the same read consumes on the intact data%s", style, k, len(data), d), sigCFFSwallow)
			continue
		}
		if res.class == "ok" {
			if d := sameCFF(res.f, ref.f); d != "" {
				set(fmt.Sprintf("cff.Read (%s, k=%d) succeeds but returns another font than the intact data gives: %s", style, k, d), sigCFFDiffers)
			}
		}
	}
	return sb.String(), fail, sig
}

// ---------------------------------------------------------------- the font a faulty sfnt.Read returns

var refEncodings = map[string][]byte{}

func encodeFont(f *sfnt.Font) (b []byte, err error) {
	defer func() {
		if e := recover(); e != nil {
			err = fmt.Errorf("panic: %v", e)
		}
	}()
	buf := &bytes.Buffer{}
	_, err = f.Write(buf)
	return buf.Bytes(), err
}

// sameAsIntact: the font read from a faulty source against the font read from
// the intact file ("" = same): number of glyphs, the Private DICTs of CFF
// outlines, and the whole font through its encoding.
func sameAsIntact(got *sfnt.Font, file []byte) string {
	ref, err := sfnt.Read(bytes.NewReader(file))
	if err != nil || got == nil {
		return ""
	}
	if got.NumGlyphs() != ref.NumGlyphs() {
		return fmt.Sprintf("%d glyphs, the intact file has %d", got.NumGlyphs(), ref.NumGlyphs())
	}
	if a, ok := got.Outlines.(*cff.Outlines); ok {
		if b, ok := ref.Outlines.(*cff.Outlines); ok && !reflect.DeepEqual(a.Private, b.Private) {
			return "the Private DICT of the CFF outlines differs from the intact file's"
		}
	}
	ea, err1 := encodeFont(got)
	eb, err2 := encodeFont(ref)
	if (err1 == nil) != (err2 == nil) || !bytes.Equal(ea, eb) {
		return "the font differs from the one the intact file gives (compared through Font.Write)"
	}
	return ""
}

// ---------------------------------------------------------------- parser.Parser.Read directly

// bulkCase: Parser.Read(want bytes) from position start of data behind a
// failing source.  The outcomes of the ReadBytes calls the loop makes are
// observed on a twin parser over a twin source by calling ReadBytes chunk by
// chunk; the model (C18B.Bulk.M_bulk_read) turns them into (count, error).
func bulkCase(dataLen, start, want int, style string, k int) (line, impl, fail, sig string) {
	data := junk(dataLen, 99)
	const bufferSize = 1024
	// twin: the chunk outcomes
	outs := vlib.List{}
	func() {
		defer func() { recover() }()
		p := parser.New(faultSeeker(data, style, k))
		if err := p.SeekPos(int64(start)); err != nil {
			return
		}
		for rem := want; rem > 0; {
			c := rem
			if c > bufferSize {
				c = bufferSize
			}
			_, err := p.ReadBytes(c)
			outs = append(outs, vlib.Bool(err != nil))
			if err != nil {
				return
			}
			rem -= c
		}
	}()
	line = vlib.Line(vlib.Atom("bulk"), vlib.Int(want), outs, vlib.Int(dataLen), vlib.Int(start), vlib.Atom(style), vlib.Int(k))
	// the real bulk read
	buf := make([]byte, want)
	var n int
	var err error
	panicked := ""
	func() {
		defer func() {
			if e := recover(); e != nil {
				panicked = fmt.Sprint(e)
			}
		}()
		p := parser.New(faultSeeker(data, style, k))
		if err = p.SeekPos(int64(start)); err != nil {
			return
		}
		n, err = p.Read(buf)
	}()
	if panicked != "" {
		return line, "panic", "Parser.Read panics: " + panicked, sigBulk
	}
	impl = vlib.Str(vlib.L(vlib.Int(n), vlib.Bool(err != nil)))
	anyFail := false
	for _, o := range outs {
		if b, _ := vlib.AsBool(o); b {
			anyFail = true
		}
	}
	avail := data
	if style == "trunc" && k < len(avail) {
		avail = avail[:k]
	}
	switch {
	case anyFail && err == nil:
		fail = fmt.Sprintf("a ReadBytes call of the bulk read fails (%s at %d) but Parser.Read(%d bytes from %d) returns (%d, nil)", style, k, want, start, n)
	case (err == nil) != (n == want):
		fail = fmt.Sprintf("Parser.Read(%d bytes) returns (%d, err != nil: %v)", want, n, err != nil)
	case n > 0 && (start+n > len(avail) || !bytes.Equal(buf[:n], avail[start:start+n])):
		fail = fmt.Sprintf("the %d bytes Parser.Read reports are not the bytes at %d..%d of the source", n, start, start+n)
	}
	if fail != "" {
		sig = sigBulk
	}
	return line, impl, fail, sig
}

// ---------------------------------------------------------------- generation

func genSweep(run *vlib.Run, tier string) {
	// (a) the size sweep
	first := -1
	sweepFonts, sweepPoints := 0, 0
	for n := 0; n <= 1200; n++ {
		rec := recipe{base: fmt.Sprintf("cffpad-%d", n)}
		file, err := rec.build()
		if err != nil {
			line := vlib.Line(vlib.Atom("rd"), vlib.L(), rec.sx())
			idx := run.Add("!"+line, "builderr", false, "kind:builderr")
			run.Fail(idx, line, "the file of this case could not be built: "+err.Error(), sigBuild)
			return
		}
		data, off, ok := cffTable(file)
		if !ok {
			continue
		}
		if first < 0 {
			first = len(data)
		}
		if len(data)-first > 1100 {
			break
		}
		sweepFonts++
		rel := cffPoints(data)
		abs := make([]int, len(rel))
		for i, k := range rel {
			abs[i] = off + k
		}
		sweepPoints += len(rel)
		labels := []string{"base:cffpad", "site:cff-size-sweep", fmt.Sprintf("cfflen%%1024:%d", (len(data)%1024)/128*128)}
		// sfnt.Read, single bad byte (with the model)
		plain := readPlain(file)
		fl := flLine(file, rec, "at", abs, 0)
		obs, d, s := flOracle(file, plain, "at", abs, 0)
		idx := run.Add(fl, obs, plain.class == "ok", append(append([]string{}, labels...), "kind:fl", "style:at", "plain:"+plain.class)...)
		if d != "" {
			run.Fail(idx, fl, d, s)
		}
		// cff.Read directly
		for _, st := range []string{"ge", "gep", "at", "trunc"} {
			line := "!" + vlib.Line(vlib.Atom("cff"), vlib.Atom(st), vlib.Ints(rel), rec.sx())
			obs, d, s := cffOracle(data, st, rel)
			idx := run.Add(line, obs, true, append(append([]string{}, labels...), "kind:cff", "style:"+st)...)
			if d != "" {
				run.Fail(idx, line, d, s)
			}
		}
	}
	run.Extra["c18b_size_sweep"] = map[string]int{"fonts": sweepFonts, "fault_points_per_style": sweepPoints}

	// (b) cff.Read on the CFF data of the base fonts, every fault point
	for _, b := range []string{"cff1", "cff5x", "debug"} {
		rec := recipe{base: b}
		file, err := rec.build()
		if err != nil {
			continue
		}
		data, _, ok := cffTable(file)
		if !ok {
			continue
		}
		ks := make([]int, len(data)+2)
		for i := range ks {
			ks[i] = i
		}
		styles := []string{"ge", "gep", "at", "atp", "trunc"}
		if b == "debug" && tier != "thorough" {
			styles = []string{"ge", "trunc"}
		}
		for _, st := range styles {
			for _, part := range chunkInts(ks, 1000) {
				line := "!" + vlib.Line(vlib.Atom("cff"), vlib.Atom(st), vlib.Ints(part), rec.sx())
				obs, d, s := cffOracle(data, st, part)
				idx := run.Add(line, obs, true, "base:"+b, "site:cff-read-direct", "kind:cff", "style:"+st, "ks:every")
				if d != "" {
					run.Fail(idx, line, d, s)
				}
			}
		}
	}

	// (c) Parser.Read directly: the chunk loop against the model
	starts, wants := []int{0, 700, 1024}, []int{0, 1, 1024, 1025, 2048, 2049, 3500}
	if tier == "thorough" {
		starts, wants = []int{0, 1, 700, 1023, 1024}, []int{0, 1, 300, 1023, 1024, 1025, 2047, 2048, 2049, 3500}
	}
	for _, start := range starts {
		for _, want := range wants {
			for _, st := range []string{"ge", "gep", "at", "trunc"} {
				seen := map[int]bool{}
				for _, k := range []int{0, start, start + want - 1, start + want, start + want + 1,
					start + 1023, start + 1024, start + 2047, start + 2048, start + 3071, start + 3072, 4999, 5000, 6000} {
					if k < 0 || seen[k] {
						continue
					}
					seen[k] = true
					line, impl, d, s := bulkCase(5000, start, want, st, k)
					idx := run.Add(line, impl, want > 1024, "kind:bulk", "style:"+st, fmt.Sprintf("chunks:%d", (want+1023)/1024))
					if d != "" {
						run.Fail(idx, line, d, s)
					}
				}
			}
		}
	}
}

// runCFFLine: "cff STYLE (K ...) (recipe ...)"
func runCFFLine(items []vlib.Sx) (impl, fail, sig string, err error) {
	if len(items) < 4 {
		return "", "", "", errors.New("cff: too few items")
	}
	style, err := vlib.AsAtom(items[1])
	if err != nil {
		return "", "", "", err
	}
	ks, err := vlib.AsInts(items[2])
	if err != nil {
		return "", "", "", err
	}
	rec, err := parseRecipe(items[3])
	if err != nil {
		return "", "", "", err
	}
	file, err := rec.build()
	if err != nil {
		return "builderr", "the file of this case could not be built: " + err.Error(), sigBuild, nil
	}
	data, _, ok := cffTable(file)
	if !ok {
		return "builderr", "the file of this case has no CFF table", sigBuild, nil
	}
	impl, fail, sig = cffOracle(data, style, ks)
	return impl, fail, sig, nil
}

// runBulkLine: "bulk WANT (OUTCOMES) DATALEN START STYLE K"
func runBulkLine(items []vlib.Sx) (impl, fail, sig string, err error) {
	if len(items) != 7 {
		return "", "", "", errors.New("bulk: want 7 items")
	}
	want, e1 := vlib.AsInt(items[1])
	dl, e2 := vlib.AsInt(items[3])
	start, e3 := vlib.AsInt(items[4])
	style, e4 := vlib.AsAtom(items[5])
	k, e5 := vlib.AsInt(items[6])
	if e1 != nil || e2 != nil || e3 != nil || e4 != nil || e5 != nil || want < 0 || want > 1<<20 || dl < 0 || dl > 1<<20 {
		return "", "", "", errors.New("bulk: bad arguments")
	}
	_, impl, fail, sig = bulkCase(dl, start, want, style, k)
	return impl, fail, sig, nil
}
