package main

import (
	"seehuhn.de/go/sfnt/verifharness/c05b"
	"seehuhn.de/go/sfnt/verifharness/vlib"
)

func main() { vlib.Main(c05b.Gen, c05b.RunCase) }
