package c05b

// Exact decimals: value = +-mant * 10^exp.  Canonical form: zero is
// (false, 0, 0); otherwise mant > 0 and mant is not divisible by 10.  This is
// the syntax the Coq model prints widths in.

import (
	"fmt"
	"math"
	"math/big"
)

type dec struct {
	neg  bool
	mant *big.Int
	exp  int
}

var (
	bigZero = big.NewInt(0)
	bigTen  = big.NewInt(10)
)

func decCanon(neg bool, mant *big.Int, exp int) dec {
	m := new(big.Int).Set(mant)
	if m.Sign() < 0 {
		m.Neg(m)
		neg = !neg
	}
	if m.Sign() == 0 {
		return dec{false, big.NewInt(0), 0}
	}
	q, r := new(big.Int), new(big.Int)
	for {
		q.QuoRem(m, bigTen, r)
		if r.Sign() != 0 {
			break
		}
		m.Set(q)
		exp++
	}
	return dec{neg, m, exp}
}

func decInt(v int64) dec { return decCanon(false, big.NewInt(v), 0) }

func pow10(k int) *big.Int { return new(big.Int).Exp(bigTen, big.NewInt(int64(k)), nil) }

func (d dec) signed() *big.Int {
	m := new(big.Int).Set(d.mant)
	if d.neg {
		m.Neg(m)
	}
	return m
}

func decAdd(a, b dec) dec {
	e := a.exp
	if b.exp < e {
		e = b.exp
	}
	x := new(big.Int).Mul(a.signed(), pow10(a.exp-e))
	y := new(big.Int).Mul(b.signed(), pow10(b.exp-e))
	return decCanon(false, x.Add(x, y), e)
}

// decFix: a 16.16 number w/65536 = w * 5^16 / 10^16.
func decFix(w int64) dec {
	m := new(big.Int).Mul(big.NewInt(w), new(big.Int).Exp(big.NewInt(5), big.NewInt(16), nil))
	return decCanon(false, m, -16)
}

func (d dec) String() string {
	n := 0
	if d.neg {
		n = 1
	}
	return fmt.Sprintf("(%d %s %d)", n, d.mant.String(), d.exp)
}

func (d dec) rat() *big.Rat {
	r := new(big.Rat).SetInt(d.signed())
	if d.exp >= 0 {
		return r.Mul(r, new(big.Rat).SetInt(pow10(d.exp)))
	}
	return r.Quo(r, new(big.Rat).SetInt(pow10(-d.exp)))
}

// decFloat: the exact value of a float64.
func decFloat(x float64) (dec, bool) {
	if math.IsNaN(x) || math.IsInf(x, 0) {
		return dec{}, false
	}
	r := new(big.Rat)
	r.SetFloat64(x)
	// the denominator is a power of two: num / 2^k = num * 5^k / 10^k
	den := r.Denom()
	k := den.BitLen() - 1
	m := new(big.Int).Mul(r.Num(), new(big.Int).Exp(big.NewInt(5), big.NewInt(int64(k)), nil))
	return decCanon(false, m, -k), true
}

// floatExact: the decimal is a float64 value and small enough that sums with
// 16.16 numbers stay exact (at most 16 fraction bits, magnitude below 2^31).
func (d dec) floatExact() bool {
	if d.exp > 12 || d.exp < -16 {
		return false
	}
	r := d.rat()
	den := r.Denom()
	if den.BitLen()-1 > 16 || new(big.Int).Lsh(big.NewInt(1), uint(den.BitLen()-1)).Cmp(den) != 0 {
		return false
	}
	lim := new(big.Rat).SetInt64(1 << 31)
	return new(big.Rat).Abs(r).Cmp(lim) < 0
}

func (d dec) float() float64 {
	f, _ := d.rat().Float64()
	return f
}

func newBig(s string) (*big.Int, bool) { return new(big.Int).SetString(s, 10) }
