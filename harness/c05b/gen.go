package c05b

import (
	"bytes"
	"fmt"
	"strings"

	"seehuhn.de/go/geom/matrix"
	"seehuhn.de/go/postscript/cid"
	"seehuhn.de/go/postscript/type1"

	"seehuhn.de/go/sfnt/cff"
	"seehuhn.de/go/sfnt/glyph"
	"seehuhn.de/go/sfnt/verifharness/vlib"
)

// ---- glyph programs ------------------------------------------------------------------------------

const (
	opHstem     = 1
	opVlineto   = 7
	opHlineto   = 6
	opRlineto   = 5
	opRrcurveto = 8
	opCallsubr  = 10
	opReturn    = 11
	opEndchar   = 14
	opHintmask  = 19
	opRmoveto   = 21
	opCallgsubr = 29
)

// width operand of a glyph: "none", an integer, or a 16.16 number "f<scaled>"
func widthOperand(w string) []byte {
	switch {
	case w == "none":
		return nil
	case strings.HasPrefix(w, "f"):
		var v int
		fmt.Sscanf(w[1:], "%d", &v)
		return t2Fix(int32(v))
	}
	var v int
	fmt.Sscanf(w, "%d", &v)
	return t2Int(v)
}

// glyphProg: [w] 100 200 rmoveto {call}* 40 vlineto endchar; a call is
// (index, n, global): the operand is index - bias(n).
type call struct {
	idx, n int
	global bool
}

func glyphProg(w string, calls []call, extra int) []byte {
	p := t2Prog(widthOperand(w))
	if extra == 1 {
		// hstem + hintmask in front: the width operand sits before the stem operands
		p = t2Prog(p, t2Int(10), t2Int(20), []byte{opHstem}, []byte{opHintmask, 0x80})
	}
	p = t2Prog(p, t2Int(100), t2Int(200), []byte{opRmoveto})
	for _, c := range calls {
		op := byte(opCallsubr)
		if c.global {
			op = opCallgsubr
		}
		p = t2Prog(p, t2Int(c.idx-subrBias(c.n)), []byte{op})
	}
	if extra == 2 {
		p = t2Prog(p, t2Int(10), t2Int(0), t2Int(10), t2Int(10), t2Int(0), t2Int(10), []byte{opRrcurveto})
	}
	return t2Prog(p, t2Int(40), []byte{opVlineto, opEndchar})
}

// subroutine bodies: each draws something different so that a call resolved
// in the wrong table shows in the outline
func subrBody(k int) []byte {
	switch k % 4 {
	case 0:
		return t2Prog(t2Int(10+k), []byte{opHlineto, opReturn})
	case 1:
		return t2Prog(t2Int(5+k), t2Int(-7), []byte{opRlineto, opReturn})
	case 2:
		return t2Prog(t2Int(20+k), []byte{opVlineto, opReturn})
	}
	return t2Prog(t2Int(3), t2Int(k), []byte{opRlineto, opReturn})
}

// a local subroutine that calls global subroutine gi of a table of gn entries
func nestedBody(gi, gn int) []byte {
	return t2Prog(t2Int(gi-subrBias(gn)), []byte{opCallgsubr}, t2Int(3), []byte{opHlineto, opReturn})
}

// table: n entries, all empty except the called ones (+ optionally fillers)
func makeTable(r *vlib.Rand, n int, called []int, seedBody int, offSize int, fill bool) *sparseIndex {
	if n == 0 {
		return &sparseIndex{n: 0, special: map[int][]byte{}}
	}
	s := &sparseIndex{n: n, special: map[int][]byte{}, offSize: offSize}
	for j, i := range called {
		if i >= 0 && i < n {
			s.special[i] = subrBody(seedBody + j)
		}
	}
	if fill && n <= 64 {
		for i := 0; i < n; i++ {
			if _, ok := s.special[i]; !ok && r.Chance(1, 2) {
				s.special[i] = []byte{opReturn}
			}
		}
	}
	return s
}

// ---- recording ---------------------------------------------------------------------------------------

var reported = map[string]int{}

func report(run *vlib.Run, idx int, line, fail, sig string) {
	reported[sig]++
	if reported[sig] > 40 && !strings.Contains(sig, "panic") {
		return // enough replays of this class
	}
	run.Fail(idx, line, fail, sig)
}

type genStats struct {
	valid, accepted, compared int
}

var stats genStats

// addFont records one font: the mirror line (font ...) and, for valid fonts
// inside the compared domain, the specification line (spec ...).
func addFont(run *vlib.Run, data []byte, valid bool, withSpec bool, labels ...string) {
	bang, impl, o, fail, sig := fontCase(data, valid)
	line := fontLine("font", data, valid)
	if len(data) > 200000 {
		bang = "!"
		labels = append(labels, "oracle-only(size)")
	}
	ls := append([]string{}, labels...)
	switch {
	case impl.obs == "err":
		ls = append(ls, "result:err")
	case strings.HasPrefix(impl.obs, "(ok"):
		ls = append(ls, "result:ok")
		stats.accepted++
	default:
		ls = append(ls, "result:"+impl.obs)
	}
	if !o.located {
		ls = append(ls, "oracle:not-located")
	} else if o.excluded != "" {
		ls = append(ls, "oracle:excluded:"+o.excluded)
	} else if o.inexact {
		ls = append(ls, "oracle:inexact-width")
	}
	if bang == "!" {
		ls = append(ls, "oracle-only")
	} else {
		stats.compared++
	}
	nontrivial := strings.HasPrefix(impl.obs, "(ok") && o.located
	idx := run.Add(bang+line, impl.obs, nontrivial, ls...)
	if fail != "" {
		report(run, idx, bang+line, fail, sig)
	}
	if withSpec && valid && bang == "" && o.located && len(data) < 20000 {
		sl := fontLine("spec", data, valid)
		run.Add(sl, impl.obs, nontrivial, append(append([]string{}, labels...), "spec-line")...)
	}
}

func mustBytes(f *asmFont) []byte {
	b, err := f.bytes()
	if err != nil {
		panic(err)
	}
	return b
}

// ---- stream 1: every operand form of the two width entries -----------------------------------------

var intForms = []string{"i0", "i107", "i108", "i500", "i1131", "i1132", "i-200", "i-1131", "i-1132", "i32767", "i-32768", "i40000", "i-70000",
	"i500/3", "i500/5", "i0/2", "i7/3", "i-5/5", "i1000/5"}
var realForms = []string{"r500", "r500.", "r500.0", "r250.5", "r-120.25", "r0.5", "r.5", "r1000", "r5E2", "r2505E-1", "r-0.125E3", "r0", "r-0",
	"r00500.500", "r12345.0625", "r1E0", "r3.0517578125E-5"}
var inexactForms = []string{"r0.1", "r333.3", "r1E-7", "r123456789012345678", "r1E20"}

var widthOperands = []string{"none", "50", "-30", "0", "f3309568" /* 50.5 */, "f-16384" /* -0.25 */, "f1" /* 2^-16 */, "1000"}

func simpleWidthFont(def, nom string, extra int, nomFirst bool) *asmFont {
	f := &asmFont{privs: []asmPriv{{mode: "own", def: def, nom: nom, extra: extra, nomFirst: nomFirst}}, gsubrs: nil}
	f.glyphs = append(f.glyphs, []byte{opEndchar})
	for i, w := range widthOperands {
		f.glyphs = append(f.glyphs, glyphProg(w, nil, i%3))
	}
	return f
}

func genForms(run *vlib.Run, r *vlib.Rand, tier string) {
	forms := append(append([]string{"none"}, intForms...), realForms...)
	for _, d := range forms {
		for _, n := range forms {
			if !(d == "none" || n == "none" || d == "i500" || n == "r250.5" || d == n) && !(tier == "thorough") {
				continue
			}
			kind := "int"
			if strings.HasPrefix(d, "r") || strings.HasPrefix(n, "r") {
				kind = "real"
			}
			f := simpleWidthFont(d, n, r.Intn(4), r.Chance(1, 4))
			addFont(run, mustBytes(f), true, true, "stream:forms", "forms:"+kind, "valid")
		}
	}
	for _, d := range inexactForms {
		addFont(run, mustBytes(simpleWidthFont(d, "i100", 0, false)), true, false, "stream:forms", "forms:inexact", "valid")
		addFont(run, mustBytes(simpleWidthFont("i100", d, 0, false)), true, false, "stream:forms", "forms:inexact", "valid")
	}
}

// ---- stream 2: CID-keyed fonts, one Private DICT per Font DICT ---------------------------------------

var privModes = []string{"own", "shared", "empty-own", "empty-shared", "prefix", "overlap"}

func pickForm(r *vlib.Rand) string {
	switch r.Intn(6) {
	case 0:
		return "none"
	case 1, 2:
		return vlib.Pick(r, intForms)
	}
	return vlib.Pick(r, realForms)
}

// cidFont: nFD Font DICTs; FD 0 is always "own"; the others take modes[k].
func cidFont(r *vlib.Rand, nFD int, modes []string, withSubrs bool, fdselFmt int) (*asmFont, string) {
	f := &asmFont{cid: true, fdselFmt: fdselFmt}
	gn := 0
	if withSubrs {
		gn = vlib.Pick(r, []int{1, 2, 5, 300})
	}
	f.gsubrs = makeTable(r, gn, []int{0, gn - 1}, 40, vlib.Pick(r, []int{0, 0, 2, 4}), true)
	own := []int{}
	for k := 0; k < nFD; k++ {
		p := asmPriv{mode: "own", def: pickForm(r), nom: pickForm(r), extra: r.Intn(4), nomFirst: r.Chance(1, 4)}
		if k > 0 {
			m := modes[k]
			if m != "own" && m != "empty-own" {
				j := own[r.Intn(len(own))]
				if m == "overlap" && f.privs[j].subrs != nil {
					m = "prefix"
				}
				p.mode = fmt.Sprintf("%s:%d", m, j)
			} else {
				p.mode = m
			}
		}
		if p.mode == "own" {
			if p.def == "none" && p.nom == "none" && p.extra == 0 {
				p.def = "i333" // prefix / overlap need a first entry
			}
			if withSubrs && r.Chance(2, 3) {
				ln := vlib.Pick(r, []int{1, 3, 4, 120})
				p.subrs = makeTable(r, ln, []int{0, ln - 1}, 10*k, vlib.Pick(r, []int{0, 0, 1, 3}), true)
			}
			own = append(own, k)
		}
		f.privs = append(f.privs, p)
	}
	// glyphs: .notdef, then for every Font DICT a glyph without and one with a width
	// operand, calling the first and last subroutine of ITS local table and of the global one
	f.glyphs = [][]byte{{opEndchar}}
	f.fdsel = []int{0}
	for rep := 0; rep < 2; rep++ {
		for k := 0; k < nFD; k++ {
			var calls []call
			if ls := f.localTable(k); ls != nil && ls.n > 0 {
				calls = append(calls, call{0, ls.n, false}, call{ls.n - 1, ls.n, false})
			}
			if gn > 0 {
				calls = append(calls, call{gn - 1, gn, true})
			}
			w := "none"
			if rep == 1 {
				w = vlib.Pick(r, widthOperands[1:])
			}
			f.glyphs = append(f.glyphs, glyphProg(w, calls, r.Intn(3)))
			f.fdsel = append(f.fdsel, k)
		}
	}
	return f, strings.Join(modes[1:], "+")
}

// localTable: the Subrs INDEX Font DICT k ends up with (following shared / prefix ...).
func (f *asmFont) localTable(k int) *sparseIndex {
	m, j := f.privs[k].ref()
	switch m {
	case "own":
		return f.privs[k].subrs
	case "shared":
		return f.privs[j].subrs
	case "overlap":
		return nil // only of dictionaries without Subrs
	case "prefix":
		// the first entry only: Subrs is never the first entry unless it is the only one
		p := f.privs[j]
		if p.extra&1 == 0 && p.def == "none" && p.nom == "none" {
			return p.subrs
		}
		return nil
	}
	return nil
}

func genCID(run *vlib.Run, r *vlib.Rand, tier string) {
	// two Font DICTs: every mode of the second, with and without subroutines
	for _, m := range privModes {
		for _, subrs := range []bool{false, true} {
			for rep := 0; rep < vlib.Count(tier, 6, 60); rep++ {
				f, _ := cidFont(r, 2, []string{"own", m}, subrs, rep%2*3)
				addFont(run, mustBytes(f), true, true, "stream:cid", "cid:2fd", "cid:"+m, "valid")
			}
		}
	}
	// three and four Font DICTs: random modes
	for rep := 0; rep < vlib.Count(tier, 60, 600); rep++ {
		n := 3 + rep%2
		modes := make([]string, n)
		modes[0] = "own"
		for k := 1; k < n; k++ {
			modes[k] = vlib.Pick(r, privModes)
		}
		f, lab := cidFont(r, n, modes, r.Bool(), r.Intn(2)*3)
		_ = lab
		addFont(run, mustBytes(f), true, true, "stream:cid", fmt.Sprintf("cid:%dfd", n), "valid")
	}
	// one Font DICT
	for rep := 0; rep < vlib.Count(tier, 8, 40); rep++ {
		f, _ := cidFont(r, 1, []string{"own"}, r.Bool(), r.Intn(2)*3)
		addFont(run, mustBytes(f), true, true, "stream:cid", "cid:1fd", "valid")
	}
}

// ---- stream 3: subroutine INDEXes: counts at the bias thresholds, empty entries ---------------------

var subrCounts = []int{0, 1, 1239, 1240, 33899, 33900}

func subrFont(r *vlib.Rand, ln, gn int, cidKeyed bool, ln2 int) *asmFont {
	f := &asmFont{cid: cidKeyed}
	gcalled := []int{0, gn - 1, gn / 2}
	f.gsubrs = makeTable(r, gn, gcalled, 100, 0, false)
	lcalled := []int{0, ln - 1, ln / 3}
	lt := makeTable(r, ln, lcalled, 200, 0, false)
	if ln > 1 && gn > 0 {
		// a local subroutine that calls the last global one
		lt.special[ln/3] = nestedBody(gn-1, gn)
	}
	p0 := asmPriv{mode: "own", def: "i300", nom: "r600.5"}
	if ln > 0 || r.Bool() {
		p0.subrs = lt
	}
	f.privs = []asmPriv{p0}
	mk := func(n int, w string) []byte {
		var calls []call
		if n > 0 {
			calls = append(calls, call{0, n, false}, call{n - 1, n, false})
			if n > 1 {
				calls = append(calls, call{n / 3, n, false})
			}
		}
		if gn > 0 {
			calls = append(calls, call{0, gn, true}, call{gn - 1, gn, true})
		}
		return glyphProg(w, calls, 0)
	}
	f.glyphs = [][]byte{{opEndchar}, mk(ln, "none"), mk(ln, "25")}
	f.fdsel = []int{0, 0, 0}
	if cidKeyed {
		lt2 := makeTable(r, ln2, []int{0, ln2 - 1, ln2 / 3}, 300, 0, false)
		p1 := asmPriv{mode: "own", def: "r150.25", nom: "i-50"}
		if ln2 > 0 {
			p1.subrs = lt2
		}
		f.privs = append(f.privs, p1)
		f.glyphs = append(f.glyphs, mk(ln2, "none"), mk(ln2, "f32768"))
		f.fdsel = append(f.fdsel, 1, 1)
		f.fdselFmt = 3
	}
	return f
}

// one bad index: the call is outside the table (must be rejected)
func badSubrFont(r *vlib.Rand, n int, global bool, idx int) *asmFont {
	f := &asmFont{}
	t := makeTable(r, n, []int{0, n - 1}, 7, 0, false)
	p := asmPriv{mode: "own", def: "i300", nom: "i600"}
	if global {
		f.gsubrs = t
	} else {
		p.subrs = t
	}
	f.privs = []asmPriv{p}
	prog := t2Prog(t2Int(100), t2Int(200), []byte{opRmoveto}, t2Int(idx-subrBias(n)))
	if global {
		prog = append(prog, opCallgsubr)
	} else {
		prog = append(prog, opCallsubr)
	}
	prog = t2Prog(prog, t2Int(40), []byte{opVlineto, opEndchar})
	f.glyphs = [][]byte{{opEndchar}, prog}
	return f
}

func genSubrs(run *vlib.Run, r *vlib.Rand, tier string) {
	// simple fonts: every pair of counts
	for _, ln := range subrCounts {
		for _, gn := range subrCounts {
			f := subrFont(r, ln, gn, false, 0)
			addFont(run, mustBytes(f), true, ln < 2000 && gn < 2000, "stream:subrs", fmt.Sprintf("subrs:local=%d", ln), fmt.Sprintf("subrs:global=%d", gn), "valid")
		}
	}
	// CID-keyed: two Font DICTs on different sides of a threshold
	for _, pr := range [][3]int{{1239, 1240, 1}, {1240, 1239, 1240}, {33899, 33900, 1239}, {33900, 33899, 33900}, {1, 0, 1240}, {0, 1, 33899}} {
		f := subrFont(r, pr[0], pr[2], true, pr[1])
		addFont(run, mustBytes(f), true, false, "stream:subrs", "subrs:cid-threshold", "valid")
	}
	// small tables: an empty entry at every position, local and global, every offSize
	for n := 1; n <= 5; n++ {
		for empty := -1; empty < n; empty++ {
			for _, global := range []bool{false, true} {
				for _, os := range []int{1, 2, 4} {
					t := &sparseIndex{n: n, special: map[int][]byte{}, offSize: os}
					var calls []call
					for i := 0; i < n; i++ {
						if i != empty {
							t.special[i] = subrBody(i)
							calls = append(calls, call{i, n, global})
						}
					}
					f := &asmFont{}
					p := asmPriv{mode: "own", def: "i250", nom: "i500"}
					if global {
						f.gsubrs = t
					} else {
						p.subrs = t
					}
					f.privs = []asmPriv{p}
					f.glyphs = [][]byte{{opEndchar}, glyphProg("100", calls, 0)}
					lab := "subrs:empty-entry"
					if empty < 0 {
						lab = "subrs:no-empty-entry"
					}
					addFont(run, mustBytes(f), true, true, "stream:subrs", lab, "valid")
				}
			}
		}
	}
	// calls outside the table, on both sides, at every count
	for _, n := range subrCounts {
		for _, global := range []bool{false, true} {
			for _, idx := range []int{-1, n, n + 1} {
				if idx-subrBias(n) < -32768 || idx-subrBias(n) > 32767 {
					continue
				}
				f := badSubrFont(r, n, global, idx)
				addFont(run, mustBytes(f), true, n < 2000, "stream:subrs", "subrs:bad-index", "valid")
			}
		}
	}
}

// ---- stream 4: fonts written by the library --------------------------------------------------------------

func libFont(r *vlib.Rand, cidKeyed bool, nFD, nGlyphs int) []byte {
	o := &cff.Outlines{}
	fds := make([]int, nGlyphs)
	for i := 0; i < nGlyphs; i++ {
		name := fmt.Sprintf("g%d", i)
		if i == 0 {
			name = ".notdef"
		}
		if cidKeyed {
			name = ""
		}
		w := float64(vlib.Pick(r, []int{0, 250, 500, 500, 600, 1000, r.Range(0, 2000)}))
		g := cff.NewGlyph(name, w)
		if i > 0 {
			x, y := float64(r.Range(-50, 300)), float64(r.Range(-200, 700))
			g.MoveTo(x, y)
			for k := r.Range(1, 5); k > 0; k-- {
				x += float64(r.Range(-100, 100))
				y += float64(r.Range(-100, 100))
				if r.Chance(1, 3) {
					g.CurveTo(x-10, y+5, x-5, y+10, x, y)
				} else {
					g.LineTo(x, y)
				}
			}
			if r.Chance(1, 3) {
				g.HStem = []float64{0, 20, 400, 420}
				g.VStem = []float64{50, 80}
			}
		}
		o.Glyphs = append(o.Glyphs, g)
		fds[i] = r.Intn(nFD)
	}
	for k := 0; k < nFD; k++ {
		o.Private = append(o.Private, &type1.PrivateDict{BlueScale: 0.039625, BlueShift: 7, BlueFuzz: 1, StdHW: float64(10 + k)})
	}
	info := &type1.FontInfo{FontName: "VerifC05B", FontMatrix: matrix.Matrix{0.001, 0, 0, 0.001, 0, 0}}
	if cidKeyed {
		for k := 0; k < nFD; k++ {
			o.FontMatrices = append(o.FontMatrices, matrix.Matrix{1, 0, 0, 1, 0, 0})
		}
		o.FDSelect = func(g glyph.ID) int { return fds[g] }
		o.ROS = &cid.SystemInfo{Registry: "Adobe", Ordering: "Identity", Supplement: 0}
		o.GIDToCID = make([]cid.CID, nGlyphs)
		for i := range o.GIDToCID {
			o.GIDToCID[i] = cid.CID(i)
		}
	} else {
		o.FDSelect = func(glyph.ID) int { return 0 }
	}
	f := &cff.Font{FontInfo: info, Outlines: o}
	buf := &bytes.Buffer{}
	var err error
	func() {
		defer func() {
			if e := recover(); e != nil {
				err = fmt.Errorf("panic: %v", e)
			}
		}()
		err = f.Write(buf)
	}()
	if err != nil {
		return nil
	}
	return buf.Bytes()
}

func genLib(run *vlib.Run, r *vlib.Rand, tier string, bases *[][]byte) {
	for rep := 0; rep < vlib.Count(tier, 40, 400); rep++ {
		cidKeyed := rep%2 == 1
		nFD := 1
		if cidKeyed {
			nFD = r.Range(1, 4)
		}
		data := libFont(r, cidKeyed, nFD, r.Range(1, 12))
		if data == nil {
			continue
		}
		kind := "lib:simple"
		if cidKeyed {
			kind = fmt.Sprintf("lib:cid-%dfd", nFD)
		}
		addFont(run, data, true, true, "stream:lib", kind, "valid")
		if len(data) < 4000 {
			*bases = append(*bases, data)
		}
	}
}

// ---- stream 5: damaged fonts ---------------------------------------------------------------------------------

func genMutations(run *vlib.Run, r *vlib.Rand, tier string, bases [][]byte) {
	if len(bases) == 0 {
		return
	}
	n := vlib.Count(tier, 700, 14000)
	for i := 0; i < n; i++ {
		base := bases[r.Intn(len(bases))]
		data := append([]byte(nil), base...)
		label := "mut:byte"
		switch r.Intn(12) {
		case 0:
			data = data[:r.Intn(len(data)+1)]
			label = "mut:truncated"
		case 1:
			k := r.Intn(len(data))
			data = append(data[:k:k], data[k+1:]...)
			label = "mut:byte-dropped"
		case 2:
			k := r.Intn(len(data))
			data = append(data[:k:k], append([]byte{byte(r.Intn(256))}, data[k:]...)...)
			label = "mut:byte-inserted"
		case 3, 4:
			// an operator of a DICT turned into another one / an operand form changed
			k := r.Intn(len(data))
			data[k] = vlib.Pick(r, []byte{18, 19, 20, 21, 28, 29, 30, 17, 12, 10, 11, 14})
			label = "mut:dict-byte"
		default:
			k := r.Intn(len(data))
			data[k] = vlib.Pick(r, []byte{0, 1, 2, 3, 4, 255, byte(r.Intn(256)), data[k] + 1, data[k] - 1, data[k] ^ 0x80})
			if r.Chance(1, 5) {
				k2 := r.Intn(len(data))
				data[k2] = byte(r.Intn(256))
				label = "mut:two-bytes"
			}
		}
		addFont(run, data, false, false, "stream:mut", label)
	}
}

// ---- stream 6: readPrivate alone ---------------------------------------------------------------------------------

func privLine(dict, data []byte) string {
	return vlib.Line(vlib.Atom("priv"), vlib.Hex(dict), vlib.Hex(data))
}

func addPriv(run *vlib.Run, dict, data []byte, labels ...string) {
	line := privLine(dict, data)
	impl, fail, sig := privCase(dict, data)
	bang := ""
	if impl == "(offgrid)" || bytes.IndexByte(data, 30) >= 0 && privInexact(dict, data) {
		bang = "!"
		labels = append(labels, "oracle-only")
	}
	idx := run.Add(bang+line, impl, strings.HasPrefix(impl, "(ok"), append(labels, "result:"+strings.SplitN(strings.Trim(impl, "()"), " ", 2)[0])...)
	if fail != "" {
		report(run, idx, bang+line, fail, sig)
	}
}

func privInexact(dict, data []byte) bool {
	fdict, ok := specDictParse(dict)
	if !ok {
		return true
	}
	fd, _ := specPrivate(data, fdict)
	return fd == nil || !fd.def.floatExact() || !fd.nom.floatExact()
}

func genPriv(run *vlib.Run, r *vlib.Rand, tier string) {
	mkData := func(p *asmPriv, pad int) (data []byte, at, size, subrAt int) {
		data = append(data, bytes.Repeat([]byte{0xEE}, 4+pad)...)
		at = len(data)
		d, _, err := p.privBytes(0)
		if err != nil {
			panic(err)
		}
		size = len(d)
		subrAt = at + size + r.Intn(3)
		d, _, _ = p.privBytes(subrAt - at)
		data = append(data, d...)
		for len(data) < subrAt {
			data = append(data, 0xEE)
		}
		if p.subrs != nil {
			data = append(data, p.subrs.bytes()...)
		}
		data = append(data, 0xEE, 0xEE)
		return
	}
	fontDict := func(size, at, form int) []byte {
		return append(append(intForm(size, form), intForm(at, form)...), 18)
	}
	forms := append(append([]string{"none"}, intForms...), realForms...)
	for rep := 0; rep < vlib.Count(tier, 160, 3000); rep++ {
		p := &asmPriv{mode: "own", def: vlib.Pick(r, forms), nom: vlib.Pick(r, forms), extra: r.Intn(4), nomFirst: r.Chance(1, 4)}
		if r.Chance(2, 3) {
			n := vlib.Pick(r, []int{0, 1, 2, 4, 9})
			p.subrs = makeTable(r, n, []int{0, n - 1}, rep, vlib.Pick(r, []int{0, 1, 2, 3, 4}), true)
		}
		data, at, size, _ := mkData(p, r.Intn(5))
		label := "priv:valid"
		fd := fontDict(size, at, vlib.Pick(r, []int{0, 3, 5}))
		switch r.Intn(10) {
		case 0:
			fd = fontDict(size, len(data)-size+1+r.Intn(3), 0)
			label = "priv:beyond-end"
		case 1:
			fd = fontDict(-1-r.Intn(5), at, 0)
			label = "priv:negative-size"
		case 2:
			fd = fontDict(size, r.Intn(4), 0)
			label = "priv:offset-below-4"
		case 3:
			fd = append(append(realForm(fmt.Sprint(size)), intForm(at, 0)...), 18)
			label = "priv:size-as-real"
		case 4:
			fd = append(intForm(at, 0), 18)
			label = "priv:one-operand"
		case 5:
			// a shorter size: a prefix of the dictionary (may cut an entry)
			fd = fontDict(r.Intn(size+1), at, 0)
			label = "priv:prefix"
		}
		addPriv(run, fd, data, "stream:priv", label)
	}
	// the Subrs offset: zero, negative, wrapping int32, as a real
	for _, so := range []string{"i0", "i-3", "i2147483647", "i2147483640", "r9", "r9.0", "i1", "i70000"} {
		ob, _ := operandBytes(so)
		d := append(append(intForm(500, 0), 20), append(ob, 19)...)
		data := append(bytes.Repeat([]byte{0xEE}, 8), d...)
		at := 8
		// an INDEX at offset 9 from the dictionary
		for len(data) < at+9 {
			data = append(data, 0xEE)
		}
		data = append(data, (&sparseIndex{n: 2, special: map[int][]byte{1: {11}}}).bytes()...)
		data = append(data, 0xEE)
		addPriv(run, append(append(intForm(len(d), 0), intForm(at, 0)...), 18), data, "stream:priv", "priv:subrs-offset")
	}
}

// ---- stream 7: readIndex alone --------------------------------------------------------------------------------------

func addIndex(run *vlib.Run, data []byte, labels ...string) {
	line := vlib.Line(vlib.Atom("index"), vlib.Hex(data))
	impl, fail, sig := indexCase(data)
	idx := run.Add(line, impl, strings.HasPrefix(impl, "(ok"), append(labels, "result:"+strings.SplitN(strings.Trim(impl, "()"), " ", 2)[0])...)
	if fail != "" {
		report(run, idx, line, fail, sig)
	}
}

func genIndex(run *vlib.Run, r *vlib.Rand, tier string) {
	// every pattern of empty / non-empty objects for up to 5 objects, offSize 1..4
	for n := 0; n <= 5; n++ {
		for mask := 0; mask < 1<<n; mask++ {
			os := 1 + (mask+n)%4
			s := &sparseIndex{n: n, special: map[int][]byte{}, offSize: os}
			for i := 0; i < n; i++ {
				if mask&(1<<i) != 0 {
					s.special[i] = r.Bytes(r.Range(1, 4))
				}
			}
			data := append(s.bytes(), r.Bytes(r.Range(1, 3))...)
			lab := "index:with-empty"
			if mask == 1<<n-1 {
				lab = "index:no-empty"
			}
			addIndex(run, data, "stream:index", lab)
		}
	}
	// outside the specification: offSize 0 and above 4, first offset above 1, decreasing offsets, data beyond the end
	for rep := 0; rep < vlib.Count(tier, 60, 600); rep++ {
		n := r.Range(1, 4)
		s := &sparseIndex{n: n, special: map[int][]byte{}, offSize: r.Range(1, 4)}
		for i := 0; i < n; i++ {
			if r.Bool() {
				s.special[i] = r.Bytes(r.Range(1, 3))
			}
		}
		data := append(s.bytes(), 0xEE, 0xEE)
		lab := "index:damaged"
		switch r.Intn(5) {
		case 0:
			data[2] = vlib.Pick(r, []byte{0, 5, 6, 255})
			lab = "index:bad-offsize"
		case 1:
			data = data[:r.Intn(len(data))]
			lab = "index:truncated"
		default:
			k := 3 + r.Intn(len(data)-3)
			data[k] = vlib.Pick(r, []byte{0, 1, 2, 255, data[k] + 1, data[k] - 1})
		}
		addIndex(run, data, "stream:index", lab)
	}
}

// ---- Gen -------------------------------------------------------------------------------------------------------------

// Gen produces all cases of one run.
func Gen(run *vlib.Run, seed uint64, tier string) {
	run.Rule = ("nontrivial = cff.Read accepted the font and the specification reader located every glyph's Private DICT and subroutine INDEXes (font / spec lines); readPrivate resp. readIndex returned a value (priv / index lines)")
	r := vlib.NewRand(seed)
	var bases [][]byte
	collect := func(f *asmFont) {
		if b, err := f.bytes(); err == nil && len(b) < 4000 {
			bases = append(bases, b)
		}
	}
	genForms(run, r.Fork("forms"), tier)
	genCID(run, r.Fork("cid"), tier)
	genSubrs(run, r.Fork("subrs"), tier)
	genLib(run, r.Fork("lib"), tier, &bases)
	// bases for the damaged stream: assembled fonts of every kind
	br := r.Fork("bases")
	for i := 0; i < 40; i++ {
		collect(simpleWidthFont(pickForm(br), pickForm(br), br.Intn(4), br.Bool()))
		n := br.Range(2, 4)
		modes := make([]string, n)
		modes[0] = "own"
		for k := 1; k < n; k++ {
			modes[k] = vlib.Pick(br, privModes)
		}
		f, _ := cidFont(br, n, modes, true, br.Intn(2)*3)
		collect(f)
		collect(subrFont(br, vlib.Pick(br, []int{0, 1, 3, 7}), vlib.Pick(br, []int{0, 1, 2, 5}), br.Bool(), vlib.Pick(br, []int{0, 2, 6})))
	}
	genMutations(run, r.Fork("mut"), tier, bases)
	genPriv(run, r.Fork("priv"), tier)
	genIndex(run, r.Fork("index"), tier)
	run.Extra["valid_fonts_accepted"] = stats.accepted
	run.Extra["font_lines_compared_with_the_model"] = stats.compared
}
