// Command mkcorpus writes the boundary cases of part C05B into the directory
// given as argument (corpus/C05B).
package main

import (
	"os"
	"path/filepath"
	"strings"

	"seehuhn.de/go/sfnt/verifharness/c05b"
)

func main() {
	dir := os.Args[1]
	for name, lines := range c05b.CorpusLines() {
		if err := os.WriteFile(filepath.Join(dir, name), []byte(strings.Join(lines, "\n")+"\n"), 0o644); err != nil {
			panic(err)
		}
	}
}
