// Package c05b drives part C05B of property C05: the plumbing between a CFF
// file and the Type 2 interpreter (cff.Read: Private DICT accessors, per Font
// DICT decodeInfo, subroutine INDEXes, FDSelect).  Whole fonts are handed to
// the public cff.Read; the observation is the glyph list (width as an exact
// decimal, stems, commands) in the syntax the Coq models M_cff_read /
// S_cff_glyphs print.  The oracle is independent of both: an own reader for
// the CFF structures written from TN5176 (specread.go) feeding the reference
// Type 2 interpreter of harness/c05 (written from TN5177).
package c05b

import (
	"bytes"
	"fmt"
	"math"
	"strings"
	"time"

	"seehuhn.de/go/sfnt/cff"
	"seehuhn.de/go/sfnt/verifharness/c05"
	"seehuhn.de/go/sfnt/verifharness/vlib"
)

const sc = 65536

// ---- the implementation's observation ---------------------------------------------------

func scaled(f float64) (int64, bool) {
	x := f * sc
	if math.IsNaN(x) || math.IsInf(x, 0) || math.Abs(x) > 1<<52 || x != math.Trunc(x) {
		return 0, false
	}
	return int64(x), true
}

func glyphObs(g *cff.Glyph) (string, bool) {
	w, ok := decFloat(g.Width)
	if !ok {
		return "", false
	}
	var b strings.Builder
	b.WriteString("(")
	b.WriteString(w.String())
	list := func(xs []float64) bool {
		b.WriteString(" (")
		for i, x := range xs {
			v, ok := scaled(x)
			if !ok {
				return false
			}
			if i > 0 {
				b.WriteByte(' ')
			}
			fmt.Fprintf(&b, "%d", v)
		}
		b.WriteString(")")
		return true
	}
	if !list(g.HStem) || !list(g.VStem) {
		return "", false
	}
	b.WriteString(" (")
	for i, c := range g.Cmds {
		if i > 0 {
			b.WriteByte(' ')
		}
		switch c.Op {
		case cff.OpMoveTo, cff.OpLineTo, cff.OpCurveTo:
			k := "m"
			if c.Op == cff.OpLineTo {
				k = "l"
			} else if c.Op == cff.OpCurveTo {
				k = "c"
			}
			b.WriteString("(" + k)
			for _, a := range c.Args {
				v, ok := scaled(a)
				if !ok {
					return "", false
				}
				fmt.Fprintf(&b, " %d", v)
			}
			b.WriteString(")")
		case cff.OpHintMask, cff.OpCntrMask:
			k := "hm"
			if c.Op == cff.OpCntrMask {
				k = "cm"
			}
			m := make([]byte, len(c.Args))
			for j, a := range c.Args {
				m[j] = byte(a)
			}
			fmt.Fprintf(&b, "(%s x%x)", k, m)
		default:
			return "", false
		}
	}
	b.WriteString("))")
	return b.String(), true
}

type implResult struct {
	obs    string // (ok G ...) | err | panic | timeout | (offgrid)
	glyphs []string
	widths []float64
	err    error
}

func readImpl(data []byte) implResult {
	done := make(chan implResult, 1)
	go func() {
		var r implResult
		defer func() {
			if e := recover(); e != nil {
				r = implResult{obs: "panic", err: fmt.Errorf("panic: %v", e)}
			}
			done <- r
		}()
		f, err := cff.Read(bytes.NewReader(data))
		if err != nil {
			r = implResult{obs: "err", err: err}
			return
		}
		var b strings.Builder
		b.WriteString("(ok")
		for _, g := range f.Glyphs {
			s, ok := glyphObs(g)
			if !ok {
				r = implResult{obs: "(offgrid)"}
				return
			}
			r.glyphs = append(r.glyphs, s)
			r.widths = append(r.widths, g.Width)
			b.WriteByte(' ')
			b.WriteString(s)
		}
		b.WriteString(")")
		r.obs = b.String()
	}()
	select {
	case r := <-done:
		return r
	case <-time.After(20 * time.Second):
		return implResult{obs: "timeout"}
	}
}

// ---- the oracle ---------------------------------------------------------------------------

const noWidth = int64(1) << 50 // "default width" handed to the reference interpreter: marks "no width operand"

func tableOf(items [][]byte) *c05.Table {
	t := &c05.Table{Size: len(items), Default: []byte{}, Special: map[int][]byte{}}
	for i, b := range items {
		if len(b) > 0 {
			t.Special[i] = b
		}
	}
	return t
}

type oracleResult struct {
	located  bool     // the specification reader found every glyph's data
	why      string   // why not
	want     string   // "(ok G ...)" or "err"; "" when excluded
	glyphs   []string // the glyphs decoded before the first problem
	excluded string   // non-empty: a class outside the compared domain
	inexact  bool     // a width entry is not exactly a float64 / the sum may round
	hasEmpty bool     // some subroutine INDEX holds an empty object
	errClass string   // class of the error the reference interpreter reports
}

func oracle(data []byte) oracleResult {
	sf, why := specRead(data)
	if sf == nil {
		return oracleResult{why: why}
	}
	res := oracleResult{located: true}
	gt := tableOf(sf.gsubrs)
	for _, b := range sf.gsubrs {
		if len(b) == 0 {
			res.hasEmpty = true
		}
	}
	lts := make([]*c05.Table, len(sf.fds))
	for k, fd := range sf.fds {
		lts[k] = tableOf(fd.subrs)
		for _, b := range fd.subrs {
			if len(b) == 0 {
				res.hasEmpty = true
			}
		}
	}
	for g, code := range sf.glyphs {
		fd := sf.fds[sf.fdOf[g]]
		ref := c05.Reference(code, lts[sf.fdOf[g]], gt, noWidth, 0, false)
		switch {
		case ref.Kind == "ok" && ref.BigDelta:
			res.excluded = "path-delta-above-32000"
			return res
		case ref.Kind == "ok":
			s := ref.String() // (ok W (hs) (vs) (cmds))
			body := s[4:]
			k := strings.IndexByte(body, ' ')
			var w int64
			fmt.Sscanf(body[:k], "%d", &w)
			width := fd.def
			if w != noWidth {
				width = decAdd(fd.nom, decFix(w))
				if !fd.nom.floatExact() {
					res.inexact = true
				}
			} else if !fd.def.floatExact() {
				res.inexact = true
			}
			res.glyphs = append(res.glyphs, "("+width.String()+" "+body[k+1:])
		case ref.Kind == "err" && ref.Class == "count":
			res.excluded = "operand-count"
			return res
		case ref.Kind == "err":
			res.want = "err"
			res.errClass = ref.Class
			return res
		default: // unspec, overbudget
			res.excluded = ref.Kind
			return res
		}
	}
	res.want = "(ok " + strings.Join(res.glyphs, " ") + ")"
	return res
}

// sameWidthApprox compares glyph observations up to the rounding of the width.
func approxEqual(impl implResult, o oracleResult) bool {
	if len(impl.glyphs) != len(o.glyphs) {
		return false
	}
	for i := range impl.glyphs {
		a, b := impl.glyphs[i], o.glyphs[i]
		// split off the width "(neg mant exp)"
		ka, kb := strings.Index(a, ") "), strings.Index(b, ") ")
		if ka < 0 || kb < 0 || a[ka:] != b[kb:] {
			return false
		}
		want := parseDec(b[1 : kb+1]).float()
		if math.Abs(impl.widths[i]-want) > 1e-9*math.Max(1, math.Abs(want)) {
			return false
		}
	}
	return true
}

func parseDec(s string) dec {
	s = strings.Trim(s, "()")
	parts := strings.Fields(s)
	d := dec{mant: bigZero}
	if len(parts) != 3 {
		return d
	}
	m, _ := newBig(parts[1])
	var e int
	fmt.Sscanf(parts[2], "%d", &e)
	return decCanon(parts[0] == "1", m, e)
}

// verdict: the property stated on the observation.  valid = the font was
// assembled from the specification or written by the library (it must be
// accepted); otherwise the bytes are damaged and only what the specification
// still defines is required.
func verdict(data []byte, impl implResult, o oracleResult, valid bool) (fail, sig string) {
	if impl.obs == "panic" {
		return "cff.Read panics: " + impl.err.Error(), "c05b-panic"
	}
	if impl.obs == "timeout" {
		return "cff.Read does not return within 20 s", "c05b-hang"
	}
	if !o.located {
		if valid {
			return "harness: the specification reader cannot locate the glyph data of a font it assembled (" + o.why + ")", "c05b-harness"
		}
		return "", ""
	}
	if o.excluded != "" {
		return "", ""
	}
	if impl.obs == "(offgrid)" {
		return "", ""
	}
	if o.want == "err" {
		if impl.obs != "err" && lenient(o, valid) {
			return "", "" // leniencies of the interpreter itself (not of the plumbing), see lenient
		}
		if impl.obs != "err" {
			return "a charstring the Type 2 specification rejects (glyph " + fmt.Sprint(len(o.glyphs)) + ", " + o.errClass + ") is accepted: " + clip(impl.obs), "c05b-malformed-accepted"
		}
		return "", ""
	}
	if impl.obs == "err" {
		if !valid {
			return "", "" // damaged elsewhere (charset, encoding, names): not this property
		}
		if o.hasEmpty {
			return fmt.Sprintf("cff.Read rejects a well-formed font whose subroutine INDEX has an empty entry: %v", impl.err), "c05b-subr-index-empty-entry"
		}
		return fmt.Sprintf("cff.Read rejects a well-formed font: %v", impl.err), "c05b-wellformed-rejected"
	}
	if impl.obs == o.want {
		return "", ""
	}
	if o.inexact && approxEqual(impl, o) {
		return "", ""
	}
	// name the first differing glyph and whether only the width differs
	for i := 0; i < len(o.glyphs) && i < len(impl.glyphs); i++ {
		if impl.glyphs[i] != o.glyphs[i] {
			a, b := impl.glyphs[i], o.glyphs[i]
			ka, kb := strings.Index(a, ") "), strings.Index(b, ") ")
			if ka >= 0 && kb >= 0 && a[ka:] == b[kb:] {
				return fmt.Sprintf("glyph %d: advance width %s, the specification (its Font DICT's defaultWidthX / nominalWidthX + operand) gives %s", i, a[1:ka+1], b[1:kb+1]), "c05b-glyph-width"
			}
			return fmt.Sprintf("glyph %d decoded as %s, the specification gives %s", i, clip(a), clip(b)), "c05b-glyph-outline"
		}
	}
	return fmt.Sprintf("%d glyphs decoded, the specification gives %d", len(impl.glyphs), len(o.glyphs)), "c05b-glyph-count"
}

// lenient: on damaged fonts the library's interpreter accepts two kinds of
// programs the reference interpreter rejects - a subroutine that ends without
// return / endchar ("incomplete" while the implementation went on in the
// caller) and stem operators after the hint section or a mask without stems
// ("hint").  They are outside the list of malformed programs of the property
// text and concern the interpreter (main development of C05), not the
// plumbing; such cases are not compared.
func lenient(o oracleResult, valid bool) bool {
	return !valid && (o.errClass == "hint" || o.errClass == "incomplete")
}

func clip(s string) string {
	if len(s) > 300 {
		return s[:300] + "..."
	}
	return s
}

// ---- case lines -----------------------------------------------------------------------------

// fontCase runs one font; returns the case-line prefix ("" or "!"), the
// observation and the verdict.
func fontCase(data []byte, valid bool) (bang string, impl implResult, o oracleResult, fail, sig string) {
	impl = readImpl(data)
	o = oracle(data)
	fail, sig = verdict(data, impl, o, valid)
	// outside the models' domain: classes the Type 2 specification leaves open
	// or the library treats leniently (open findings of C05), off-grid floats,
	// width entries that are not exact float64 values
	if o.want == "err" && impl.obs != "err" && lenient(o, valid) {
		bang = "!"
	}
	if o.excluded != "" || impl.obs == "(offgrid)" || impl.obs == "timeout" || (o.located && o.inexact) || (!o.located && widthsRisky(data)) {
		bang = "!"
	}
	return
}

// widthsRisky: the file holds a real operand (byte 30) somewhere - without a
// located Private DICT the harness cannot tell whether a width is inexact.
func widthsRisky(data []byte) bool { return bytes.IndexByte(data, 30) >= 0 }

func fontLine(kind string, data []byte, valid bool) string {
	items := []vlib.Sx{vlib.Atom(kind), vlib.Hex(data)}
	if valid {
		items = append(items, vlib.Atom("valid"))
	}
	return vlib.Line(items...)
}

// RunCase re-executes one case line.
func RunCase(line string) (impl, fail, sig string, err error) {
	line = strings.TrimPrefix(line, "!")
	items, err := vlib.Parse(line)
	if err != nil {
		return "", "", "", err
	}
	if len(items) < 2 {
		return "", "", "", fmt.Errorf("bad case")
	}
	kind, err := vlib.AsAtom(items[0])
	if err != nil {
		return "", "", "", err
	}
	switch kind {
	case "font", "spec":
		data, err := vlib.AsBytes(items[1])
		if err != nil {
			return "", "", "", err
		}
		valid := false
		if len(items) > 2 {
			if a, _ := vlib.AsAtom(items[2]); a == "valid" {
				valid = true
			}
		}
		_, r, _, fail, sig := fontCase(data, valid)
		return r.obs, fail, sig, nil
	case "priv":
		if len(items) != 3 {
			return "", "", "", fmt.Errorf("priv: two arguments")
		}
		dict, err := vlib.AsBytes(items[1])
		if err != nil {
			return "", "", "", err
		}
		data, err := vlib.AsBytes(items[2])
		if err != nil {
			return "", "", "", err
		}
		impl, fail, sig = privCase(dict, data)
		return impl, fail, sig, nil
	case "index":
		data, err := vlib.AsBytes(items[1])
		if err != nil {
			return "", "", "", err
		}
		impl, fail, sig = indexCase(data)
		return impl, fail, sig, nil
	}
	return "", "", "", fmt.Errorf("unknown case kind %q", kind)
}

// ---- readPrivate alone ------------------------------------------------------------------------

func privCase(dict, data []byte) (impl, fail, sig string) {
	var subrs [][]byte
	var dw, nw float64
	var err error
	func() {
		defer func() {
			if e := recover(); e != nil {
				impl = "panic"
				fail, sig = fmt.Sprintf("readPrivate panics: %v", e), "c05b-panic"
			}
		}()
		subrs, dw, nw, err = cff.VerifC05bReadPrivate(dict, data)
	}()
	if impl == "panic" {
		return
	}
	if err != nil {
		return "err", "", ""
	}
	d1, ok1 := decFloat(dw)
	d2, ok2 := decFloat(nw)
	if !ok1 || !ok2 {
		return "(offgrid)", "", ""
	}
	var b strings.Builder
	fmt.Fprintf(&b, "(ok %s %s (", d1.String(), d2.String())
	for i, s := range subrs {
		if i > 0 {
			b.WriteByte(' ')
		}
		fmt.Fprintf(&b, "x%x", s)
	}
	b.WriteString("))")
	impl = b.String()
	// oracle: the specification reader on the same Font DICT
	if fdict, ok := specDictParse(dict); ok {
		if fd, _ := specPrivate(data, fdict); fd != nil && fd.def.floatExact() && fd.nom.floatExact() {
			if fd.def.String() != d1.String() || fd.nom.String() != d2.String() {
				return impl, fmt.Sprintf("readPrivate: defaultWidthX %s nominalWidthX %s, the Private DICT states %s and %s", d1, d2, fd.def, fd.nom), "c05b-private-dict-width"
			}
			if len(fd.subrs) != len(subrs) {
				return impl, fmt.Sprintf("readPrivate: %d local subroutines, the Subrs INDEX holds %d", len(subrs), len(fd.subrs)), "c05b-private-subrs"
			}
			for i := range subrs {
				if !bytes.Equal(subrs[i], fd.subrs[i]) {
					return impl, fmt.Sprintf("readPrivate: local subroutine %d differs from the object of the Subrs INDEX", i), "c05b-private-subrs"
				}
			}
		}
	}
	return impl, "", ""
}

// ---- readIndex alone ----------------------------------------------------------------------------

func indexCase(data []byte) (impl, fail, sig string) {
	var objs [][]byte
	var rest int
	var err error
	func() {
		defer func() {
			if e := recover(); e != nil {
				impl = "panic"
				fail, sig = fmt.Sprintf("readIndex panics: %v", e), "c05b-panic"
			}
		}()
		objs, rest, err = cff.VerifC05bReadIndex(data)
	}()
	if impl == "panic" {
		return
	}
	want, _, wok := specIndex(data, 0)
	if err != nil {
		if wok {
			hasEmpty := false
			for _, b := range want {
				if len(b) == 0 {
					hasEmpty = true
				}
			}
			if hasEmpty {
				return "err", fmt.Sprintf("readIndex rejects a well-formed INDEX with an empty object: %v", err), "c05b-subr-index-empty-entry"
			}
			return "err", fmt.Sprintf("readIndex rejects a well-formed INDEX: %v", err), "c05b-index-rejected"
		}
		return "err", "", ""
	}
	var b strings.Builder
	b.WriteString("(ok (")
	for i, s := range objs {
		if i > 0 {
			b.WriteByte(' ')
		}
		fmt.Fprintf(&b, "x%x", s)
	}
	fmt.Fprintf(&b, ") %d spec-same)", rest)
	impl = b.String()
	if wok {
		if len(want) != len(objs) {
			return impl, fmt.Sprintf("readIndex returns %d objects, the INDEX holds %d", len(objs), len(want)), "c05b-index-objects"
		}
		for i := range objs {
			if !bytes.Equal(objs[i], want[i]) {
				return impl, fmt.Sprintf("readIndex: object %d is %x, the INDEX holds %x", i, objs[i], want[i]), "c05b-index-objects"
			}
		}
	}
	return impl, "", ""
}

