package c05b

import "seehuhn.de/go/sfnt/verifharness/vlib"

// CorpusLines returns the boundary cases kept in corpus/C05B (written there by
// harness/c05b/mkcorpus): name -> case lines.
func CorpusLines() map[string][]string {
	r := vlib.NewRand(20260930)
	out := map[string][]string{}
	add := func(name string, f *asmFont) {
		out[name] = append(out[name], fontLine("font", mustBytes(f), true), fontLine("spec", mustBytes(f), true))
	}
	// the two width entries as real operands (fractional, integral) and as integers of every size
	for _, p := range [][2]string{{"r250.5", "r500."}, {"r500", "r2505E-1"}, {"i500/5", "i-1132"}, {"none", "r0.5"}, {"i40000", "none"}} {
		add("01-width-operand-forms.txt", simpleWidthFont(p[0], p[1], 0, false))
	}
	// one Private DICT per (offset, size)
	for _, m := range []string{"empty-shared", "prefix", "overlap", "shared", "empty-own", "own"} {
		f := &asmFont{cid: true, fdselFmt: 0}
		t := &sparseIndex{n: 2, special: map[int][]byte{0: subrBody(0), 1: subrBody(1)}}
		p0 := asmPriv{mode: "own", def: "i500", nom: "i600", subrs: t}
		if m == "overlap" {
			p0.subrs = nil
		}
		f.privs = []asmPriv{p0, {mode: m + ":0", def: "i300", nom: "r400.25"}}
		if m == "own" || m == "empty-own" {
			f.privs[1].mode = m
		}
		var c0 []call
		if p0.subrs != nil {
			c0 = []call{{0, 2, false}, {1, 2, false}}
		}
		var c1 []call
		if m == "shared" {
			c1 = c0
		}
		f.glyphs = [][]byte{{opEndchar}, glyphProg("none", c0, 0), glyphProg("50", c0, 0), glyphProg("none", c1, 0), glyphProg("10", c1, 0)}
		f.fdsel = []int{0, 0, 0, 1, 1}
		add("02-private-dict-per-font-dict.txt", f)
	}
	// subroutine INDEXes with an empty entry at each position
	for _, global := range []bool{false, true} {
		for empty := 0; empty < 4; empty++ {
			t := &sparseIndex{n: 4, special: map[int][]byte{}}
			var calls []call
			for i := 0; i < 4; i++ {
				if i != empty {
					t.special[i] = subrBody(i)
					calls = append(calls, call{i, 4, global})
				}
			}
			f := &asmFont{}
			p := asmPriv{mode: "own", def: "none", nom: "i500"}
			if global {
				f.gsubrs = t
			} else {
				p.subrs = t
			}
			f.privs = []asmPriv{p}
			f.glyphs = [][]byte{{opEndchar}, glyphProg("100", calls, 0)}
			add("03-subr-index-empty-entry.txt", f)
		}
	}
	// both bias thresholds, local and global on different sides
	for _, pr := range [][2]int{{1239, 1240}, {1240, 1239}} {
		add("04-bias-thresholds.txt", subrFont(r, pr[0], pr[1], false, 0))
	}
	return out
}
