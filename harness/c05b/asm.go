package c05b

// An assembler for CFF fonts written from Adobe TN5176 (it extends the
// hand-assembled fonts of harness/c05/privw.go): name-keyed and CID-keyed
// fonts, 1..4 Font DICTs, Private DICTs that are their own / shared (same
// offset and size) / empty / a prefix of another / overlapping another,
// defaultWidthX and nominalWidthX in every operand form the specification
// allows, local and global subroutine INDEXes of any count with empty entries
// anywhere and any offSize.  Nothing of the library is used.

import (
	"fmt"
	"sort"
	"strconv"
	"strings"
)

// ---- DICT operands (TN5176 tables 3 and 5) -------------------------------------

// intForm encodes v in the form with the given number of bytes (1, 2, 3, 5);
// 0 = the shortest.  A form that cannot hold v falls back to the next longer.
func intForm(v, form int) []byte {
	fits1 := v >= -107 && v <= 107
	fits2 := (v >= 108 && v <= 1131) || (v >= -1131 && v <= -108)
	fits3 := v >= -32768 && v <= 32767
	switch {
	case (form == 0 || form == 1) && fits1:
		return []byte{byte(v + 139)}
	case (form == 0 || form <= 2) && fits2:
		if v > 0 {
			w := v - 108
			return []byte{byte(w>>8) + 247, byte(w)}
		}
		w := -v - 108
		return []byte{byte(w>>8) + 251, byte(w)}
	case (form == 0 || form <= 3) && fits3:
		return []byte{28, byte(v >> 8), byte(v)}
	}
	return []byte{29, byte(v >> 24), byte(v >> 16), byte(v >> 8), byte(v)}
}

func int5(v int) []byte { return []byte{29, byte(v >> 24), byte(v >> 16), byte(v >> 8), byte(v)} }

// realForm encodes a decimal text ([-]digits[.digits][E[-]digits]) as a real operand.
func realForm(s string) []byte {
	var nib []byte
	for i := 0; i < len(s); i++ {
		switch c := s[i]; {
		case c >= '0' && c <= '9':
			nib = append(nib, c-'0')
		case c == '.':
			nib = append(nib, 0xa)
		case c == '-':
			nib = append(nib, 0xe)
		case c == 'E' && i+1 < len(s) && s[i+1] == '-':
			nib = append(nib, 0xc)
			i++
		case c == 'E':
			nib = append(nib, 0xb)
		}
	}
	nib = append(nib, 0xf)
	if len(nib)%2 == 1 {
		nib = append(nib, 0xf)
	}
	out := []byte{30}
	for i := 0; i < len(nib); i += 2 {
		out = append(out, nib[i]<<4|nib[i+1])
	}
	return out
}

// operand: "none" | "i<int>" (shortest) | "i<int>/<form>" | "r<decimal>".
func operandBytes(a string) ([]byte, error) {
	switch {
	case a == "none":
		return nil, nil
	case strings.HasPrefix(a, "i"):
		body, form := a[1:], 0
		if k := strings.IndexByte(body, '/'); k >= 0 {
			f, err := strconv.Atoi(body[k+1:])
			if err != nil {
				return nil, err
			}
			form, body = f, body[:k]
		}
		v, err := strconv.Atoi(body)
		if err != nil {
			return nil, err
		}
		return intForm(v, form), nil
	case strings.HasPrefix(a, "r"):
		return realForm(a[1:]), nil
	}
	return nil, fmt.Errorf("bad operand %q", a)
}

// ---- INDEX (TN5176 section 5) ----------------------------------------------------

// sparseIndex: n objects, all empty except the listed ones.
type sparseIndex struct {
	n       int
	special map[int][]byte
	offSize int // 0 = the smallest that fits
}

func (s *sparseIndex) get(i int) []byte { return s.special[i] }

func (s *sparseIndex) bytes() []byte {
	if s == nil || s.n == 0 {
		return []byte{0, 0}
	}
	total := 0
	for i, b := range s.special {
		if i >= 0 && i < s.n {
			total += len(b)
		}
	}
	os := s.offSize
	need := 1
	for total+1 >= 1<<(8*need) {
		need++
	}
	if os < need {
		os = need
	}
	out := make([]byte, 0, 3+(s.n+1)*os+total)
	out = append(out, byte(s.n>>8), byte(s.n), byte(os))
	put := func(v int) {
		for j := os - 1; j >= 0; j-- {
			out = append(out, byte(v>>(8*j)))
		}
	}
	off := 1
	put(off)
	for i := 0; i < s.n; i++ {
		off += len(s.special[i])
		put(off)
	}
	for i := 0; i < s.n; i++ {
		out = append(out, s.special[i]...)
	}
	return out
}

func denseIndex(items [][]byte, offSize int) []byte {
	s := &sparseIndex{n: len(items), special: map[int][]byte{}, offSize: offSize}
	for i, b := range items {
		if len(b) > 0 {
			s.special[i] = b
		}
	}
	return s.bytes()
}

func (s *sparseIndex) sx() string {
	if s == nil {
		return "(0 0)"
	}
	var keys []int
	for k := range s.special {
		if k >= 0 && k < s.n && len(s.special[k]) > 0 {
			keys = append(keys, k)
		}
	}
	sort.Ints(keys)
	var b strings.Builder
	fmt.Fprintf(&b, "(%d %d", s.n, s.offSize)
	for _, k := range keys {
		fmt.Fprintf(&b, " (%d x%x)", k, s.special[k])
	}
	b.WriteString(")")
	return b.String()
}

// ---- the font ------------------------------------------------------------------------

// asmPriv describes the Private DICT of one Font DICT.
//
//	mode: own            its own dictionary
//	      shared:k       the dictionary of Font DICT k (same offset and size)
//	      empty-own      size 0 at an offset of its own (the end of the dictionary area)
//	      empty-shared:k size 0 at the offset of Font DICT k's dictionary
//	      prefix:k       the first entry of Font DICT k's dictionary (same offset, smaller size)
//	      overlap:k      Font DICT k's dictionary without its first entry (later offset)
type asmPriv struct {
	mode     string
	def, nom string       // operand forms of defaultWidthX / nominalWidthX
	subrs    *sparseIndex // nil = no Subrs entry
	extra    int          // 0 none, 1 other entries in front, 2 behind, 3 both
	nomFirst bool         // nominalWidthX before defaultWidthX
}

type asmFont struct {
	cid       bool
	privs     []asmPriv
	fdsel     []int // per glyph (CID-keyed)
	fdselFmt  int   // 0 or 3
	glyphs    [][]byte
	gsubrs    *sparseIndex
	csOffSize int
}

func (p *asmPriv) ref() (string, int) {
	if k := strings.IndexByte(p.mode, ':'); k >= 0 {
		n, _ := strconv.Atoi(p.mode[k+1:])
		return p.mode[:k], n
	}
	return p.mode, -1
}

// privBytes: the dictionary of an "own" Private DICT; subrsAt = offset operand
// of Subrs (relative to the dictionary).  Returns the bytes and the length of
// the first entry.
func (p *asmPriv) privBytes(subrsAt int) ([]byte, int, error) {
	var entries [][]byte
	if p.extra&1 != 0 {
		// BlueValues -10 0 500 510 (deltas), StdHW 50
		e := append(append(append(append(intForm(-10, 0), intForm(10, 0)...), intForm(500, 0)...), intForm(10, 0)...), 6)
		entries = append(entries, e, append(intForm(50, 0), 10))
	}
	def, err := operandBytes(p.def)
	if err != nil {
		return nil, 0, err
	}
	nom, err := operandBytes(p.nom)
	if err != nil {
		return nil, 0, err
	}
	var ws [][]byte
	if def != nil {
		ws = append(ws, append(def, 20))
	}
	if nom != nil {
		e := append(nom, 21)
		if p.nomFirst {
			ws = append([][]byte{e}, ws...)
		} else {
			ws = append(ws, e)
		}
	}
	entries = append(entries, ws...)
	if p.subrs != nil {
		entries = append(entries, append(int5(subrsAt), 19))
	}
	if p.extra&2 != 0 {
		// BlueShift 5, ForceBold 1
		entries = append(entries, append(intForm(5, 0), 12, 10), append(intForm(1, 0), 12, 14))
	}
	var out []byte
	first := 0
	for i, e := range entries {
		out = append(out, e...)
		if i == 0 {
			first = len(e)
		}
	}
	return out, first, nil
}

// bytes lays the font out: header, Name INDEX, Top DICT INDEX, String INDEX,
// Global Subr INDEX, [charset, FDSelect,] CharStrings INDEX, [Font DICT
// INDEX,] Private DICTs, local Subrs INDEXes.  Every offset operand is
// written in the five-byte form, so that the sizes are known in advance.
func (f *asmFont) bytes() ([]byte, error) {
	nFD := len(f.privs)
	if nFD == 0 || (!f.cid && nFD != 1) {
		return nil, fmt.Errorf("bad number of Private DICTs")
	}
	b := []byte{1, 0, 4, 2}
	b = append(b, 0, 1, 1, 1, 2, 'A')
	topLen := 6 + 11
	var strs []byte
	if f.cid {
		topLen = 7 + 6 + 7 + 7 + 6
		strs = []byte{0, 2, 1, 1, 6, 14}
		strs = append(strs, "AdobeIdentity"...)
	} else {
		strs = []byte{0, 0}
	}
	gs := f.gsubrs.bytes()
	pos := len(b) + (2 + 1 + 2 + topLen) + len(strs) + len(gs)
	charsetAt, fdselectAt := 0, 0
	var charset, fdsel []byte
	n := len(f.glyphs)
	if f.cid {
		charsetAt = pos
		charset = []byte{2, 0, 1, byte((n - 2) >> 8), byte(n - 2)} // format 2: CIDs 1.. for glyphs 1..
		if n == 1 {
			charset = []byte{0}
		}
		pos += len(charset)
		fdselectAt = pos
		if len(f.fdsel) != n {
			return nil, fmt.Errorf("FDSelect needs one entry per glyph")
		}
		if f.fdselFmt == 3 {
			fdsel = []byte{3, 0, 0}
			nr := 0
			for g := 0; g < n; g++ {
				if g == 0 || f.fdsel[g] != f.fdsel[g-1] {
					fdsel = append(fdsel, byte(g>>8), byte(g), byte(f.fdsel[g]))
					nr++
				}
			}
			fdsel[1], fdsel[2] = byte(nr>>8), byte(nr)
			fdsel = append(fdsel, byte(n>>8), byte(n))
		} else {
			fdsel = []byte{0}
			for _, fd := range f.fdsel {
				fdsel = append(fdsel, byte(fd))
			}
		}
		pos += len(fdsel)
	}
	charStringsAt := pos
	cs := denseIndex(f.glyphs, f.csOffSize)
	pos += len(cs)
	fdArrayAt := pos
	if f.cid {
		pos += 2 + 1 + (nFD + 1) + nFD*11
	}
	// the dictionary area: the "own" dictionaries one after the other
	privAt := make([]int, nFD)
	privLen := make([]int, nFD)
	firstLen := make([]int, nFD)
	dicts := make([][]byte, nFD)
	areaStart := pos
	for k := range f.privs {
		if m, _ := f.privs[k].ref(); m == "own" {
			d, fl, err := f.privs[k].privBytes(0)
			if err != nil {
				return nil, err
			}
			privAt[k], privLen[k], firstLen[k] = pos, len(d), fl
			pos += len(d)
		}
	}
	areaEnd := pos
	// local Subrs INDEXes behind the dictionaries
	subrAt := make([]int, nFD)
	var subrBytes [][]byte
	for k := range f.privs {
		if m, _ := f.privs[k].ref(); m == "own" && f.privs[k].subrs != nil {
			sb := f.privs[k].subrs.bytes()
			subrAt[k] = pos
			subrBytes = append(subrBytes, sb)
			pos += len(sb)
		}
	}
	for k := range f.privs {
		m, j := f.privs[k].ref()
		if m == "own" {
			d, _, _ := f.privs[k].privBytes(subrAt[k] - privAt[k])
			dicts[k] = d
			continue
		}
		if m != "empty-own" {
			if j < 0 || j >= nFD {
				return nil, fmt.Errorf("bad reference in %q", f.privs[k].mode)
			}
			if mj, _ := f.privs[j].ref(); mj != "own" {
				return nil, fmt.Errorf("%q must refer to an own dictionary", f.privs[k].mode)
			}
		}
		switch m {
		case "shared":
			privAt[k], privLen[k] = privAt[j], privLen[j]
		case "empty-own":
			privAt[k], privLen[k] = areaEnd, 0
		case "empty-shared":
			privAt[k], privLen[k] = privAt[j], 0
		case "prefix":
			privAt[k], privLen[k] = privAt[j], firstLen[j]
		case "overlap":
			if f.privs[j].subrs != nil {
				return nil, fmt.Errorf("overlap with a dictionary that has Subrs")
			}
			privAt[k], privLen[k] = privAt[j]+firstLen[j], privLen[j]-firstLen[j]
		default:
			return nil, fmt.Errorf("bad mode %q", f.privs[k].mode)
		}
	}
	_ = areaStart
	// Top DICT
	var top []byte
	if f.cid {
		top = append(append(append(intForm(391, 0), intForm(392, 0)...), intForm(0, 0)...), 12, 30)
		top = append(append(top, int5(charsetAt)...), 15)
		top = append(append(top, int5(fdselectAt)...), 12, 37)
		top = append(append(top, int5(fdArrayAt)...), 12, 36)
		top = append(append(top, int5(charStringsAt)...), 17)
	} else {
		top = append(int5(charStringsAt), 17)
		top = append(append(append(top, int5(privLen[0])...), int5(privAt[0])...), 18)
	}
	if len(top) != topLen {
		return nil, fmt.Errorf("internal: Top DICT length %d != %d", len(top), topLen)
	}
	b = append(b, 0, 1, 1, 1, byte(1+len(top)))
	b = append(b, top...)
	b = append(b, strs...)
	b = append(b, gs...)
	b = append(b, charset...)
	b = append(b, fdsel...)
	if len(b) != charStringsAt {
		return nil, fmt.Errorf("internal: CharStrings at %d != %d", len(b), charStringsAt)
	}
	b = append(b, cs...)
	if f.cid {
		b = append(b, byte(nFD>>8), byte(nFD), 1)
		for k := 0; k <= nFD; k++ {
			b = append(b, byte(1+11*k))
		}
		for k := 0; k < nFD; k++ {
			b = append(append(append(b, int5(privLen[k])...), int5(privAt[k])...), 18)
		}
	}
	for k := range f.privs {
		if m, _ := f.privs[k].ref(); m == "own" {
			if len(b) != privAt[k] {
				return nil, fmt.Errorf("internal: Private DICT %d at %d != %d", k, len(b), privAt[k])
			}
			b = append(b, dicts[k]...)
		}
	}
	for _, sb := range subrBytes {
		b = append(b, sb...)
	}
	return b, nil
}

// ---- Type 2 programs (TN5177) -----------------------------------------------------------

func t2Int(v int) []byte {
	switch {
	case v >= -107 && v <= 107:
		return []byte{byte(v + 139)}
	case v >= 108 && v <= 1131:
		w := v - 108
		return []byte{byte(w>>8) + 247, byte(w)}
	case v >= -1131 && v <= -108:
		w := -v - 108
		return []byte{byte(w>>8) + 251, byte(w)}
	}
	return []byte{28, byte(v >> 8), byte(v)}
}

// t2Fix: a 16.16 operand (255 + four bytes).
func t2Fix(v int32) []byte { return []byte{255, byte(v >> 24), byte(v >> 16), byte(v >> 8), byte(v)} }

func subrBias(n int) int {
	switch {
	case n < 1240:
		return 107
	case n < 33900:
		return 1131
	}
	return 32768
}

func t2Prog(parts ...[]byte) []byte {
	var out []byte
	for _, p := range parts {
		out = append(out, p...)
	}
	return out
}
