package c05b

// An independent reader for the parts of a CFF file the Type 2 interpreter
// depends on, written from Adobe TN5176 (header section 6, INDEX section 5,
// DICT operands section 4 tables 3-6, Top DICT table 9 / CIDFont operators
// table 10, Private DICT table 23, Local / Global Subrs section 16, FDSelect
// section 19).  It shares nothing with cff/read.go, cff/dict.go, cff/index.go
// nor with the Coq models.  It is strict: what the specification does not
// allow is "malformed" (the property then only asks for "no panic").

import (
	"math/big"
)

type specOperand struct {
	isInt bool
	i     int64
	d     dec // value (integers too)
}

type specDict map[int][]specOperand

type specFD struct {
	def, nom dec
	subrs    [][]byte
	privOffs int
	privSize int
}

type specFont struct {
	cid    bool
	glyphs [][]byte
	gsubrs [][]byte
	fdOf   []int
	fds    []*specFD
}

// specIndex: INDEX at pos; returns the objects and the position behind it.
func specIndex(data []byte, pos int) (items [][]byte, end int, ok bool) {
	if pos < 0 || pos+2 > len(data) {
		return nil, 0, false
	}
	count := int(data[pos])<<8 | int(data[pos+1])
	if count == 0 {
		return nil, pos + 2, true
	}
	if pos+3 > len(data) {
		return nil, 0, false
	}
	offSize := int(data[pos+2])
	if offSize < 1 || offSize > 4 {
		return nil, 0, false
	}
	arr := pos + 3
	if arr+(count+1)*offSize > len(data) {
		return nil, 0, false
	}
	offs := make([]int, count+1)
	for i := range offs {
		v := 0
		for j := 0; j < offSize; j++ {
			v = v<<8 | int(data[arr+i*offSize+j])
		}
		offs[i] = v
	}
	if offs[0] != 1 {
		return nil, 0, false
	}
	base := arr + (count+1)*offSize - 1 // offsets are relative to the byte before the data
	for i := 0; i < count; i++ {
		if offs[i+1] < offs[i] {
			return nil, 0, false
		}
	}
	if base+offs[count] > len(data) {
		return nil, 0, false
	}
	items = make([][]byte, count)
	for i := range items {
		items[i] = data[base+offs[i] : base+offs[i+1]]
	}
	return items, base + offs[count], true
}

// specReal: a real operand behind the byte 30; returns the value and the
// number of bytes used.
func specReal(buf []byte) (d dec, n int, ok bool) {
	var text []byte
	done := false
	for n < len(buf) && !done {
		b := buf[n]
		n++
		for _, nib := range []byte{b >> 4, b & 15} {
			switch {
			case nib <= 9:
				text = append(text, '0'+nib)
			case nib == 0xa:
				text = append(text, '.')
			case nib == 0xb:
				text = append(text, 'E')
			case nib == 0xc:
				text = append(text, 'E', '-')
			case nib == 0xd:
				return dec{}, 0, false
			case nib == 0xe:
				text = append(text, '-')
			default:
				done = true
			}
			if done {
				break
			}
		}
	}
	if !done {
		return dec{}, 0, false
	}
	d, ok = decText(string(text))
	return d, n, ok
}

// decText: [-] digits [. digits] [E [-] digits] with at least one mantissa digit.
func decText(s string) (dec, bool) {
	i := 0
	neg := false
	if i < len(s) && s[i] == '-' {
		neg = true
		i++
	}
	mant := new(big.Int)
	nd, frac := 0, 0
	for i < len(s) && s[i] >= '0' && s[i] <= '9' {
		mant.Mul(mant, bigTen).Add(mant, big.NewInt(int64(s[i]-'0')))
		i++
		nd++
	}
	if i < len(s) && s[i] == '.' {
		i++
		for i < len(s) && s[i] >= '0' && s[i] <= '9' {
			mant.Mul(mant, bigTen).Add(mant, big.NewInt(int64(s[i]-'0')))
			i++
			nd++
			frac++
		}
	}
	if nd == 0 {
		return dec{}, false
	}
	exp := 0
	if i < len(s) && s[i] == 'E' {
		i++
		eneg := false
		if i < len(s) && s[i] == '-' {
			eneg = true
			i++
		}
		ne := 0
		for i < len(s) && s[i] >= '0' && s[i] <= '9' {
			if exp < 100000 {
				exp = exp*10 + int(s[i]-'0')
			}
			i++
			ne++
		}
		if ne == 0 {
			return dec{}, false
		}
		if eneg {
			exp = -exp
		}
	}
	if i != len(s) {
		return dec{}, false
	}
	if exp > 400 || exp < -400 {
		return dec{}, false // outside what this reader handles exactly
	}
	return decCanon(neg, mant, exp-frac), true
}

// specDictParse: a DICT as operator -> operands (a repeated operator: the last one).
func specDictParse(buf []byte) (specDict, bool) {
	res := specDict{}
	var stack []specOperand
	for i := 0; i < len(buf); {
		b0 := int(buf[i])
		switch {
		case b0 == 12:
			if i+1 >= len(buf) {
				return nil, false
			}
			res[12<<8|int(buf[i+1])] = stack
			stack = nil
			i += 2
		case b0 <= 21:
			res[b0] = stack
			stack = nil
			i++
		case b0 == 28:
			if i+2 >= len(buf) {
				return nil, false
			}
			v := int64(int16(uint16(buf[i+1])<<8 | uint16(buf[i+2])))
			stack = append(stack, specOperand{true, v, decInt(v)})
			i += 3
		case b0 == 29:
			if i+4 >= len(buf) {
				return nil, false
			}
			v := int64(int32(uint32(buf[i+1])<<24 | uint32(buf[i+2])<<16 | uint32(buf[i+3])<<8 | uint32(buf[i+4])))
			stack = append(stack, specOperand{true, v, decInt(v)})
			i += 5
		case b0 == 30:
			d, n, ok := specReal(buf[i+1:])
			if !ok {
				return nil, false
			}
			stack = append(stack, specOperand{false, 0, d})
			i += 1 + n
		case b0 >= 32 && b0 <= 246:
			v := int64(b0 - 139)
			stack = append(stack, specOperand{true, v, decInt(v)})
			i++
		case b0 >= 247 && b0 <= 250:
			if i+1 >= len(buf) {
				return nil, false
			}
			v := int64((b0-247)*256 + int(buf[i+1]) + 108)
			stack = append(stack, specOperand{true, v, decInt(v)})
			i += 2
		case b0 >= 251 && b0 <= 254:
			if i+1 >= len(buf) {
				return nil, false
			}
			v := int64(-(b0-251)*256 - int(buf[i+1]) - 108)
			stack = append(stack, specOperand{true, v, decInt(v)})
			i += 2
		default: // 22-27, 31, 255 are reserved
			return nil, false
		}
		if len(stack) > 48 {
			return nil, false
		}
	}
	if len(stack) != 0 {
		return nil, false
	}
	return res, true
}

func (d specDict) offset(op int) (int, bool) {
	a, ok := d[op]
	if !ok || len(a) != 1 || !a[0].isInt {
		return 0, false
	}
	return int(a[0].i), true
}

// number: the value of a one-number entry, the default when the entry is absent.
func (d specDict) number(op int, def dec) (dec, bool) {
	a, ok := d[op]
	if !ok {
		return def, true
	}
	if len(a) != 1 {
		return dec{}, false
	}
	return a[0].d, true
}

func specPrivate(data []byte, fd specDict) (*specFD, string) {
	a, ok := fd[18]
	if !ok || len(a) != 2 || !a[0].isInt || !a[1].isInt {
		return nil, "no Private operands"
	}
	size, offs := int(a[0].i), int(a[1].i)
	if size < 0 || offs < 0 || offs+size > len(data) {
		return nil, "Private DICT outside the file"
	}
	pd, ok := specDictParse(data[offs : offs+size])
	if !ok {
		return nil, "malformed Private DICT"
	}
	res := &specFD{privOffs: offs, privSize: size}
	if res.def, ok = pd.number(20, decInt(0)); !ok {
		return nil, "defaultWidthX is not a number"
	}
	if res.nom, ok = pd.number(21, decInt(0)); !ok {
		return nil, "nominalWidthX is not a number"
	}
	if _, present := pd[19]; present {
		so, ok := pd.offset(19)
		if !ok || so <= 0 {
			return nil, "Subrs is not a positive integer offset"
		}
		subrs, _, ok := specIndex(data, offs+so)
		if !ok {
			return nil, "malformed Subrs INDEX"
		}
		res.subrs = subrs
	}
	return res, ""
}

// specRead locates, per glyph, everything the Type 2 specification needs.
func specRead(data []byte) (*specFont, string) {
	if len(data) < 4 || data[0] != 1 {
		return nil, "header"
	}
	hdr := int(data[2])
	if hdr < 4 || int(data[3]) < 1 || int(data[3]) > 4 {
		return nil, "header"
	}
	names, p, ok := specIndex(data, hdr)
	if !ok || len(names) != 1 {
		return nil, "Name INDEX"
	}
	tops, p, ok := specIndex(data, p)
	if !ok || len(tops) != 1 {
		return nil, "Top DICT INDEX"
	}
	_, p, ok = specIndex(data, p)
	if !ok {
		return nil, "String INDEX"
	}
	gsubrs, _, ok := specIndex(data, p)
	if !ok {
		return nil, "Global Subr INDEX"
	}
	top, ok := specDictParse(tops[0])
	if !ok {
		return nil, "Top DICT"
	}
	if a, present := top[12<<8|6]; present && !(len(a) == 1 && a[0].isInt && a[0].i == 2) {
		return nil, "CharstringType"
	}
	cso, ok := top.offset(17)
	if !ok {
		return nil, "CharStrings operand"
	}
	glyphs, _, ok := specIndex(data, cso)
	if !ok || len(glyphs) == 0 {
		return nil, "CharStrings INDEX"
	}
	f := &specFont{glyphs: glyphs, gsubrs: gsubrs, fdOf: make([]int, len(glyphs))}
	if _, f.cid = top[12<<8|30]; !f.cid {
		fd, why := specPrivate(data, top)
		if fd == nil {
			return nil, why
		}
		f.fds = []*specFD{fd}
		return f, ""
	}
	fao, ok := top.offset(12<<8 | 36)
	if !ok {
		return nil, "FDArray operand"
	}
	fdicts, _, ok := specIndex(data, fao)
	if !ok || len(fdicts) == 0 || len(fdicts) > 256 {
		return nil, "FDArray INDEX"
	}
	for _, b := range fdicts {
		d, ok := specDictParse(b)
		if !ok {
			return nil, "Font DICT"
		}
		fd, why := specPrivate(data, d)
		if fd == nil {
			return nil, why
		}
		f.fds = append(f.fds, fd)
	}
	fso, ok := top.offset(12<<8 | 37)
	if !ok || fso < 0 || fso >= len(data) {
		return nil, "FDSelect operand"
	}
	n := len(glyphs)
	switch data[fso] {
	case 0:
		if fso+1+n > len(data) {
			return nil, "FDSelect"
		}
		for g := 0; g < n; g++ {
			f.fdOf[g] = int(data[fso+1+g])
		}
	case 3:
		if fso+3 > len(data) {
			return nil, "FDSelect"
		}
		nr := int(data[fso+1])<<8 | int(data[fso+2])
		if nr == 0 || fso+3+3*nr+2 > len(data) {
			return nil, "FDSelect"
		}
		first := func(k int) int { q := fso + 3 + 3*k; return int(data[q])<<8 | int(data[q+1]) }
		if first(0) != 0 || first(nr) != n {
			return nil, "FDSelect"
		}
		for k := 0; k < nr; k++ {
			if first(k+1) <= first(k) || first(k+1) > n {
				return nil, "FDSelect"
			}
			for g := first(k); g < first(k+1); g++ {
				f.fdOf[g] = int(data[fso+3+3*k+2])
			}
		}
	default:
		return nil, "FDSelect"
	}
	for _, fd := range f.fdOf {
		if fd >= len(f.fds) {
			return nil, "FDSelect"
		}
	}
	return f, ""
}
