// Package c12 is the harness of property C12 (metrics and header tables).
//
// Every case is one line; the first atom names the table operation
// (hmtx-enc, hmtx-dec, head-enc, ...).  runLine executes the real go-sfnt code
// on the case, renders the observation in the syntax the extracted Coq model
// prints, and evaluates the property oracle, which is written against the
// table definitions and Go-level round trips, never against the model.
package c12

import (
	"fmt"
	"strings"

	"seehuhn.de/go/sfnt/verifharness/vlib"
)

type runner func(items []vlib.Sx) (impl, fail, sig string, err error)

var runners = map[string]runner{}

// stats counts events inside the runners that are worth showing in the evidence.
var stats = map[string]int{}

// runLine re-executes one case line.  A leading "!" (oracle-only case, not
// given to the model) is ignored here.
func runLine(line string) (impl, fail, sig string, err error) {
	line = strings.TrimPrefix(strings.TrimSpace(line), "!")
	items, err := vlib.Parse(line)
	if err != nil {
		return "", "", "", err
	}
	if len(items) == 0 {
		return "", "", "", fmt.Errorf("empty case")
	}
	kind, err := vlib.AsAtom(items[0])
	if err != nil {
		return "", "", "", err
	}
	f, ok := runners[kind]
	if !ok {
		return "", "", "", fmt.Errorf("unknown case kind %q", kind)
	}
	return f(items[1:])
}

// RunCase is the entry point for corpus lines and replays.
func RunCase(line string) (impl, fail, sig string, err error) { return runLine(line) }

// emit runs one generated case through the same code path as a replay.
func emit(run *vlib.Run, line string, nontrivial bool, labels ...string) {
	impl, fail, sig, err := runLine(line)
	if err != nil {
		panic(fmt.Sprintf("generator produced an unparsable case: %v: %.200s", err, line))
	}
	idx := run.Add(line, impl, nontrivial, labels...)
	if fail != "" {
		run.Fail(idx, line, fail, sig)
	}
}

// guard calls f and reports whether it panicked.
func guard(f func()) (panicked bool, msg string) {
	defer func() {
		if e := recover(); e != nil {
			panicked = true
			msg = fmt.Sprint(e)
		}
	}()
	f()
	return false, ""
}

func nilAtom() vlib.Sx { return vlib.Atom("nil") }

func isNil(x vlib.Sx) bool {
	a, ok := x.(vlib.Atom)
	return ok && string(a) == "nil"
}

// Gen writes the run for the given tier.
func Gen(run *vlib.Run, seed uint64, tier string) {
	run.Rule = "one Encode or Decode call (or one Font.Write) per case; non-trivial = hmtx with a constant width tail of length >= 2 or a decoder input that is accepted, a header table with at least one flag set, a written font with at least one empty and two non-empty glyph boxes; distinct by case line"
	r := vlib.NewRand(seed)
	genHmtx(run, r.Fork("hmtx"), tier)
	genHead(run, r.Fork("head"), tier)
	genMaxp(run, r.Fork("maxp"), tier)
	genPost(run, r.Fork("post"), tier)
	genOS2(run, r.Fork("os2"), tier)
	genDerived(run, r.Fork("derived"), tier)
	genCidBox(run, r.Fork("cidbox"), tier)
	genVersion(run, r.Fork("version"), tier)
	genCaret(run, r.Fork("caret"), tier)
	for k, v := range stats {
		run.Extra[k] = v
	}
}
