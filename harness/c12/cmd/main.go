package main

import (
	"seehuhn.de/go/sfnt/verifharness/c12"
	"seehuhn.de/go/sfnt/verifharness/vlib"
)

func main() { vlib.Main(c12.Gen, c12.RunCase) }
