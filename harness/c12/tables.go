package c12

import (
	"bytes"
	"encoding/binary"
	"fmt"
	"math"
	"math/big"
	"reflect"

	"seehuhn.de/go/postscript/funit"

	"seehuhn.de/go/sfnt/maxp"
	"seehuhn.de/go/sfnt/os2"
	"seehuhn.de/go/sfnt/post"
	"seehuhn.de/go/sfnt/verifharness/vlib"
)

func init() {
	runners["maxp-enc"] = runMaxpEnc
	runners["maxp-dec"] = runMaxpDec
	runners["post-enc"] = runPostEnc
	runners["post-dec"] = runPostDec
	runners["post-angle"] = runPostAngle
	runners["os2-enc"] = runOS2Enc
	runners["os2-dec"] = runOS2Dec
}

// ================================================================ maxp

func ttfList(t *maxp.TTFInfo) []uint16 {
	return []uint16{t.MaxPoints, t.MaxContours, t.MaxCompositePoints, t.MaxCompositeContours, t.MaxZones, t.MaxTwilightPoints,
		t.MaxStorage, t.MaxFunctionDefs, t.MaxInstructionDefs, t.MaxStackElements, t.MaxSizeOfInstructions, t.MaxComponentElements, t.MaxComponentDepth}
}

func ttfFromList(v []int) *maxp.TTFInfo {
	u := func(i int) uint16 { return uint16(v[i]) }
	return &maxp.TTFInfo{MaxPoints: u(0), MaxContours: u(1), MaxCompositePoints: u(2), MaxCompositeContours: u(3), MaxZones: u(4), MaxTwilightPoints: u(5),
		MaxStorage: u(6), MaxFunctionDefs: u(7), MaxInstructionDefs: u(8), MaxStackElements: u(9), MaxSizeOfInstructions: u(10), MaxComponentElements: u(11), MaxComponentDepth: u(12)}
}

func sxTTF(t *maxp.TTFInfo) vlib.Sx {
	if t == nil {
		return nilAtom()
	}
	return vlib.Ints(ttfList(t))
}

func maxpEncLine(i *maxp.Info) string {
	return vlib.Line(vlib.Atom("maxp-enc"), vlib.Int(i.NumGlyphs), sxTTF(i.TTF))
}

func runMaxpEnc(items []vlib.Sx) (impl, fail, sig string, err error) {
	if len(items) != 2 {
		return "", "", "", fmt.Errorf("maxp-enc: want 2 arguments")
	}
	n, err := vlib.AsInt(items[0])
	if err != nil {
		return "", "", "", err
	}
	info := &maxp.Info{NumGlyphs: n}
	if !isNil(items[1]) {
		v, err := vlib.AsInts(items[1])
		if err != nil || len(v) != 13 {
			return "", "", "", fmt.Errorf("maxp-enc: want 13 TrueType values")
		}
		for _, x := range v {
			if x < 0 || x > 65535 {
				return "", "", "", fmt.Errorf("value outside uint16")
			}
		}
		info.TTF = ttfFromList(v)
	}
	var b []byte
	panicked, _ := guard(func() { b = info.Encode() })
	inDomain := n >= 1 && n <= 65535
	if panicked {
		if inDomain {
			return "panic", "maxp Encode panics for a glyph count in 1..65535", "c12-maxp-encode-panic", nil
		}
		return "panic", "", "", nil
	}
	impl = vlib.Str(vlib.L(vlib.Atom("ok"), vlib.Hex(b)))
	if !inDomain {
		return impl, fmt.Sprintf("maxp Encode accepts numGlyphs=%d", n), "c12-maxp-encode-range", nil
	}
	// layout (OpenType maxp): version 0.5 = 6 bytes, version 1.0 = 32 bytes
	wantLen, wantVer := 6, uint32(0x00005000)
	if info.TTF != nil {
		wantLen, wantVer = 32, 0x00010000
	}
	if len(b) != wantLen || binary.BigEndian.Uint32(b) != wantVer || int(binary.BigEndian.Uint16(b[4:])) != n {
		return impl, "maxp layout: version / numGlyphs / length", "c12-maxp-layout", nil
	}
	if info.TTF != nil {
		for k, x := range ttfList(info.TTF) {
			if binary.BigEndian.Uint16(b[6+2*k:]) != x {
				return impl, fmt.Sprintf("maxp layout: TrueType field %d", k), "c12-maxp-layout", nil
			}
		}
	}
	var back *maxp.Info
	var rerr error
	if p, msg := guard(func() { back, rerr = maxp.Read(bytes.NewReader(b)) }); p {
		return impl, "maxp Read panics on Encode's output: " + msg, "c12-maxp-decode-panic", nil
	}
	if rerr != nil || !reflect.DeepEqual(back, info) {
		return impl, fmt.Sprintf("maxp Read(Encode(info)) = %+v, %v", back, rerr), "c12-maxp-roundtrip", nil
	}
	return impl, "", "", nil
}

func runMaxpDec(items []vlib.Sx) (impl, fail, sig string, err error) {
	if len(items) != 1 {
		return "", "", "", fmt.Errorf("maxp-dec: want 1 argument")
	}
	b, err := vlib.AsBytes(items[0])
	if err != nil {
		return "", "", "", err
	}
	var info *maxp.Info
	var rerr error
	if p, msg := guard(func() { info, rerr = maxp.Read(bytes.NewReader(b)) }); p {
		return "panic", "maxp Read panics: " + msg, "c12-maxp-decode-panic", nil
	}
	accept := false
	if len(b) >= 6 && binary.BigEndian.Uint16(b[4:]) != 0 {
		switch binary.BigEndian.Uint32(b) {
		case 0x00005000:
			accept = true
		case 0x00010000:
			accept = len(b) >= 32
		}
	}
	if rerr != nil {
		impl = "err"
	} else {
		impl = vlib.Str(vlib.L(vlib.Atom("ok"), vlib.Int(info.NumGlyphs), sxTTF(info.TTF)))
	}
	if accept != (rerr == nil) {
		return impl, fmt.Sprintf("maxp Read error=%v, reference accepts=%v", rerr, accept), "c12-maxp-decode-accept", nil
	}
	if rerr != nil {
		return impl, "", "", nil
	}
	if info.NumGlyphs != int(binary.BigEndian.Uint16(b[4:])) || (info.TTF != nil) != (binary.BigEndian.Uint32(b) == 0x00010000) {
		return impl, "decoded maxp differs from the bytes", "c12-maxp-decode-values", nil
	}
	if info.TTF != nil {
		for k, x := range ttfList(info.TTF) {
			if binary.BigEndian.Uint16(b[6+2*k:]) != x {
				return impl, "decoded maxp differs from the bytes", "c12-maxp-decode-values", nil
			}
		}
	}
	b2 := info.Encode()
	if !bytes.Equal(b2, b[:len(b2)]) {
		return impl, "re-encoding a decoded maxp changes the bytes", "c12-maxp-roundtrip", nil
	}
	return impl, "", "", nil
}

func genMaxp(run *vlib.Run, r *vlib.Rand, tier string) {
	u16s := []int{0, 1, 255, 256, 32767, 32768, 65535}
	var tables [][]byte
	for _, n := range []int{-1, 0, 1, 2, 255, 256, 65534, 65535, 65536, 65537, 1 << 20, math.MinInt32, math.MaxInt32} {
		for _, ttf := range []bool{false, true} {
			i := &maxp.Info{NumGlyphs: n}
			if ttf {
				v := make([]int, 13)
				for k := range v {
					v[k] = vlib.Pick(r, u16s)
				}
				i.TTF = ttfFromList(v)
			}
			emit(run, maxpEncLine(i), n >= 1 && n <= 65535, "maxp-enc", "maxp-enc:boundary")
			if n >= 1 && n <= 65535 {
				tables = append(tables, i.Encode())
			}
		}
	}
	for k := 0; k < vlib.Count(tier, 60, 2000); k++ {
		i := &maxp.Info{NumGlyphs: r.Range(1, 65535)}
		if r.Bool() {
			v := make([]int, 13)
			for j := range v {
				if r.Bool() {
					v[j] = vlib.Pick(r, u16s)
				} else {
					v[j] = r.Intn(65536)
				}
			}
			i.TTF = ttfFromList(v)
		}
		emit(run, maxpEncLine(i), true, "maxp-enc", "maxp-enc:random")
		tables = append(tables, i.Encode())
	}
	for k, t := range tables {
		emitDec(run, "maxp-dec", t, "maxp-dec:valid")
		if k < 4 {
			for l := 0; l < len(t); l++ {
				emitDec(run, "maxp-dec", t[:l], "maxp-dec:truncated")
			}
		}
		t2 := append([]byte(nil), t...)
		switch r.Intn(5) {
		case 0:
			t2 = t2[:r.Intn(len(t2))]
		case 1:
			t2 = append(t2, r.Bytes(r.Range(1, 30))...)
		case 2:
			t2[r.Intn(4)] ^= byte(1 << r.Intn(8))
		case 3:
			t2[4], t2[5] = 0, 0
		default:
			binary.BigEndian.PutUint32(t2, vlib.Pick(r, []uint32{0x00005000, 0x00010000, 0x00005001, 0x00020000, 0}))
		}
		emitDec(run, "maxp-dec", t2, "maxp-dec:mutated")
	}
	for k := 0; k < vlib.Count(tier, 40, 1000); k++ {
		b := r.Bytes(r.Intn(40))
		if len(b) >= 4 && r.Bool() {
			binary.BigEndian.PutUint32(b, vlib.Pick(r, []uint32{0x00005000, 0x00010000}))
		}
		emitDec(run, "maxp-dec", b, "maxp-dec:random")
	}
}

// ================================================================ post (header)

// macNames returns the 258 standard Macintosh glyph names as Read reports them
// for a version 1.0 table.
func macNames() []string {
	b := make([]byte, 32)
	binary.BigEndian.PutUint32(b, 0x00010000)
	info, err := post.Read(bytes.NewReader(b))
	if err != nil {
		panic(err)
	}
	return info.Names
}

func postNames(version int64) []string {
	switch version {
	case 0x00010000:
		return macNames()
	case 0x00020000:
		return []string{".notdef", "verif.custom", "A"}
	}
	return nil
}

// post-enc version italic(16.16) ulpos ulthick fixed: Encode with the names
// that make Encode choose the version; the observation is the 32-byte header.
func runPostEnc(items []vlib.Sx) (impl, fail, sig string, err error) {
	if len(items) != 5 {
		return "", "", "", fmt.Errorf("post-enc: want 5 arguments")
	}
	version, err := asRange(items[0], 0, math.MaxUint32)
	if err != nil {
		return "", "", "", err
	}
	if version != 0x00010000 && version != 0x00020000 && version != 0x00030000 {
		return "", "", "", fmt.Errorf("post-enc: Encode writes versions 1.0, 2.0, 3.0 only")
	}
	it, err := asRange(items[1], math.MinInt32, math.MaxInt32)
	if err != nil {
		return "", "", "", err
	}
	pos, err := i16arg(items[2])
	if err != nil {
		return "", "", "", err
	}
	th, err := i16arg(items[3])
	if err != nil {
		return "", "", "", err
	}
	fixed, err := vlib.AsBool(items[4])
	if err != nil {
		return "", "", "", err
	}
	info := &post.Info{ItalicAngle: float64(it) / 65536, UnderlinePosition: pos, UnderlineThickness: th, IsFixedPitch: fixed, Names: postNames(version)}
	var b []byte
	if p, msg := guard(func() { b = info.Encode() }); p {
		return "panic", "post Encode panics: " + msg, "c12-post-encode-panic", nil
	}
	if len(b) < 32 {
		return "short", fmt.Sprintf("post table has %d bytes", len(b)), "c12-post-layout", nil
	}
	impl = vlib.Str(vlib.L(vlib.Atom("ok"), vlib.Hex(b[:32])))
	fx := uint32(0)
	if fixed {
		fx = 1
	}
	if int64(binary.BigEndian.Uint32(b)) != version || int32(binary.BigEndian.Uint32(b[4:])) != int32(it) ||
		int16(binary.BigEndian.Uint16(b[8:])) != int16(pos) || int16(binary.BigEndian.Uint16(b[10:])) != int16(th) ||
		binary.BigEndian.Uint32(b[12:]) != fx || !bytes.Equal(b[16:32], make([]byte, 16)) {
		return impl, "post header layout: a field differs from the Info", "c12-post-layout", nil
	}
	var back *post.Info
	var rerr error
	if p, msg := guard(func() { back, rerr = post.Read(bytes.NewReader(b)) }); p {
		return impl, "post Read panics on Encode's output: " + msg, "c12-post-decode-panic", nil
	}
	if rerr != nil {
		return impl, "post Read rejects Encode's output: " + rerr.Error(), "c12-post-roundtrip", nil
	}
	if back.ItalicAngle != info.ItalicAngle || back.UnderlinePosition != pos || back.UnderlineThickness != th || back.IsFixedPitch != fixed {
		return impl, fmt.Sprintf("post header comes back as %g %d %d %v", back.ItalicAngle, back.UnderlinePosition, back.UnderlineThickness, back.IsFixedPitch), "c12-post-roundtrip", nil
	}
	return impl, "", "", nil
}

// post-angle bits: an arbitrary float64 angle (oracle only; float code is not
// modelled): the angle that comes back is the nearest multiple of 1/65536.
func runPostAngle(items []vlib.Sx) (impl, fail, sig string, err error) {
	if len(items) != 1 {
		return "", "", "", fmt.Errorf("post-angle: want 1 argument")
	}
	bits, err := asU64(items[0])
	if err != nil {
		return "", "", "", err
	}
	a := math.Float64frombits(bits)
	if math.IsNaN(a) || math.Abs(a) >= 32767 {
		return "", "", "", fmt.Errorf("post-angle: angle outside the 16.16 range")
	}
	info := &post.Info{ItalicAngle: a}
	var back *post.Info
	var rerr error
	if p, msg := guard(func() { back, rerr = post.Read(bytes.NewReader(info.Encode())) }); p {
		return "panic", "post Encode/Read panics: " + msg, "c12-post-encode-panic", nil
	}
	if rerr != nil {
		return "err", "post Read rejects Encode's output", "c12-post-roundtrip", nil
	}
	impl = "ok"
	// exact rational check: |back - a| <= 2^-17 and back*65536 is an integer
	ra, rb := new(big.Rat).SetFloat64(a), new(big.Rat).SetFloat64(back.ItalicAngle)
	d := new(big.Rat).Sub(ra, rb)
	d.Abs(d)
	scaled := new(big.Rat).Mul(rb, big.NewRat(65536, 1))
	if d.Cmp(big.NewRat(1, 131072)) > 0 || !scaled.IsInt() {
		return impl, fmt.Sprintf("italic angle %g comes back as %g", a, back.ItalicAngle), "c12-post-angle", nil
	}
	return impl, "", "", nil
}

func runPostDec(items []vlib.Sx) (impl, fail, sig string, err error) {
	if len(items) != 1 {
		return "", "", "", fmt.Errorf("post-dec: want 1 argument")
	}
	b, err := vlib.AsBytes(items[0])
	if err != nil {
		return "", "", "", err
	}
	var info *post.Info
	var rerr error
	if p, msg := guard(func() { info, rerr = post.Read(bytes.NewReader(b)) }); p {
		return "panic", "post Read panics: " + msg, "c12-post-decode-panic", nil
	}
	version := uint32(0)
	if len(b) >= 4 {
		version = binary.BigEndian.Uint32(b)
	}
	if rerr != nil {
		impl = "err"
	} else {
		impl = vlib.Str(vlib.L(vlib.Atom("ok"), vlib.U64(uint64(version)), vlib.I64(int64(info.ItalicAngle*65536)),
			vlib.Int(int(info.UnderlinePosition)), vlib.Int(int(info.UnderlineThickness)), vlib.Bool(info.IsFixedPitch)))
	}
	if version == 0x00020000 && len(b) >= 32 {
		// the glyph name part decides acceptance (property C14); header values are still checked below
		if rerr != nil {
			return impl, "", "", nil
		}
	} else {
		accept := len(b) >= 32 && (version == 0x00010000 || version == 0x00030000 || version == 0x00040000)
		if accept != (rerr == nil) {
			return impl, fmt.Sprintf("post Read error=%v, reference accepts=%v", rerr, accept), "c12-post-decode-accept", nil
		}
		if rerr != nil {
			return impl, "", "", nil
		}
	}
	if info.ItalicAngle*65536 != float64(int32(binary.BigEndian.Uint32(b[4:]))) ||
		int16(info.UnderlinePosition) != int16(binary.BigEndian.Uint16(b[8:])) ||
		int16(info.UnderlineThickness) != int16(binary.BigEndian.Uint16(b[10:])) ||
		info.IsFixedPitch != (binary.BigEndian.Uint32(b[12:]) != 0) {
		return impl, "decoded post header differs from the bytes", "c12-post-decode-values", nil
	}
	// fixed point
	back, err2 := post.Read(bytes.NewReader(info.Encode()))
	if err2 != nil || back.ItalicAngle != info.ItalicAngle || back.UnderlinePosition != info.UnderlinePosition ||
		back.UnderlineThickness != info.UnderlineThickness || back.IsFixedPitch != info.IsFixedPitch {
		return impl, "re-encoding a decoded post header changes it", "c12-post-roundtrip", nil
	}
	return impl, "", "", nil
}

func genPost(run *vlib.Run, r *vlib.Rand, tier string) {
	angles := []int64{0, 1, -1, 65536, -65536, -12 * 65536, -786432 - 32768, 32767*65536 + 65535, math.MinInt32, math.MaxInt32, 32768, -32768}
	var tables [][]byte
	one := func(version, it int64, pos, th funit.Int16, fixed bool, label string) {
		line := vlib.Line(vlib.Atom("post-enc"), vlib.I64(version), vlib.I64(it), vlib.Int(int(pos)), vlib.Int(int(th)), vlib.Bool(fixed))
		emit(run, line, it != 0 || fixed, "post-enc", label)
		if version != 0x00020000 || r.Chance(1, 4) {
			info := &post.Info{ItalicAngle: float64(it) / 65536, UnderlinePosition: pos, UnderlineThickness: th, IsFixedPitch: fixed, Names: postNames(version)}
			tables = append(tables, info.Encode())
		}
	}
	for _, v := range []int64{0x00010000, 0x00020000, 0x00030000} {
		for _, a := range angles {
			one(v, a, vlib.Pick(r, i16Extremes), vlib.Pick(r, i16Extremes), r.Bool(), "post-enc:boundary")
		}
	}
	for k := 0; k < vlib.Count(tier, 100, 3000); k++ {
		it := int64(int32(r.Uint64()))
		if r.Bool() {
			it = int64(r.Range(-45*65536, 5*65536))
		}
		one(vlib.Pick(r, []int64{0x00010000, 0x00020000, 0x00030000, 0x00030000}), it, randI16(r), randI16(r), r.Bool(), "post-enc:random")
	}
	// arbitrary float angles (oracle only)
	for k := 0; k < vlib.Count(tier, 100, 3000); k++ {
		var a float64
		switch r.Intn(4) {
		case 0:
			a = -float64(r.Intn(4000000)) / 100000
		case 1:
			a = (float64(r.Intn(1<<30))/float64(1<<30) - 0.5) * 65000
		case 2:
			a = float64(int32(r.Uint64())>>8)/65536 + vlib.Pick(r, []float64{0.5, -0.5, 0.25, 0.4999999, 0.5000001})/65536
		default:
			a = math.Float64frombits(r.Uint64())
			if math.IsNaN(a) || math.Abs(a) >= 32767 {
				a = 1 / 3.0
			}
		}
		emit(run, "!"+vlib.Line(vlib.Atom("post-angle"), vlib.U64(math.Float64bits(a))), true, "post-angle")
	}
	// decoder
	for k, t := range tables {
		line := vlib.Line(vlib.Atom("post-dec"), vlib.Hex(t))
		if binary.BigEndian.Uint32(t) == 0x00020000 {
			emit(run, "!"+line, true, "post-dec", "post-dec:v2-oracle-only")
			continue
		}
		emitDec(run, "post-dec", t, "post-dec:valid")
		if k < 3 {
			for l := 0; l < len(t); l++ {
				emitDec(run, "post-dec", t[:l], "post-dec:truncated")
			}
		}
		t2 := append([]byte(nil), t...)
		switch r.Intn(4) {
		case 0:
			binary.BigEndian.PutUint32(t2, vlib.Pick(r, []uint32{0x00010000, 0x00030000, 0x00040000, 0x00025000, 0, 0x00050000, 0x00010001}))
		case 1:
			binary.BigEndian.PutUint32(t2[12:], vlib.Pick(r, []uint32{0, 1, 2, 0x80000000, 0xFFFFFFFF, 256}))
		case 2:
			t2 = append(t2, r.Bytes(r.Range(1, 9))...)
		default:
			t2[4+r.Intn(28)] = byte(r.Intn(256))
		}
		emitDec(run, "post-dec", t2, "post-dec:mutated")
	}
	for k := 0; k < vlib.Count(tier, 40, 1000); k++ {
		b := r.Bytes(r.Range(28, 36))
		binary.BigEndian.PutUint32(b, vlib.Pick(r, []uint32{0x00010000, 0x00030000, 0x00040000, uint32(r.Uint64())}))
		emitDec(run, "post-dec", b, "post-dec:random")
	}
}

// ================================================================ OS/2

func os2Fields(i *os2.Info) []vlib.Sx {
	sub := []funit.Int16{i.SubscriptXSize, i.SubscriptYSize, i.SubscriptXOffset, i.SubscriptYOffset, i.SuperscriptXSize, i.SuperscriptYSize,
		i.SuperscriptXOffset, i.SuperscriptYOffset, i.StrikeoutSize, i.StrikeoutPosition}
	ur := vlib.L(vlib.U64(uint64(i.UnicodeRange[0])), vlib.U64(uint64(i.UnicodeRange[1])), vlib.U64(uint64(i.UnicodeRange[2])), vlib.U64(uint64(i.UnicodeRange[3])))
	return []vlib.Sx{vlib.Int(int(i.WeightClass)), vlib.Int(int(i.WidthClass)), vlib.Bool(i.IsBold), vlib.Bool(i.IsItalic), vlib.Bool(i.IsRegular), vlib.Bool(i.IsOblique),
		vlib.Int(int(i.FirstCharIndex)), vlib.Int(int(i.LastCharIndex)), vlib.Int(int(i.Ascent)), vlib.Int(int(i.Descent)), vlib.Int(int(i.WinAscent)), vlib.Int(int(i.WinDescent)),
		vlib.Int(int(i.LineGap)), vlib.Int(int(i.CapHeight)), vlib.Int(int(i.XHeight)), vlib.Int(int(i.AvgGlyphWidth)), vlib.Ints(sub),
		vlib.Int(int(i.FamilyClass)), vlib.Hex(i.Panose[:]), vlib.Hex([]byte(i.Vendor)), ur,
		vlib.U64(uint64(i.CodePageRange)), vlib.Int(int(i.PermUse)), vlib.Bool(i.PermNoSubsetting), vlib.Bool(i.PermOnlyBitmap)}
}

func parseOS2(items []vlib.Sx) (*os2.Info, error) {
	if len(items) != 25 {
		return nil, fmt.Errorf("os2-enc: want 25 arguments")
	}
	i := &os2.Info{}
	u16 := func(k int) (uint16, error) { v, err := asRange(items[k], 0, 65535); return uint16(v), err }
	i16 := func(k int) (funit.Int16, error) { return i16arg(items[k]) }
	var err error
	var w uint16
	if w, err = u16(0); err != nil {
		return nil, err
	}
	i.WeightClass = os2.Weight(w)
	if w, err = u16(1); err != nil {
		return nil, err
	}
	i.WidthClass = os2.Width(w)
	for k, b := range []*bool{&i.IsBold, &i.IsItalic, &i.IsRegular, &i.IsOblique} {
		if *b, err = vlib.AsBool(items[2+k]); err != nil {
			return nil, err
		}
	}
	if i.FirstCharIndex, err = u16(6); err != nil {
		return nil, err
	}
	if i.LastCharIndex, err = u16(7); err != nil {
		return nil, err
	}
	for k, d := range []*funit.Int16{&i.Ascent, &i.Descent, &i.WinAscent, &i.WinDescent, &i.LineGap, &i.CapHeight, &i.XHeight, &i.AvgGlyphWidth} {
		if *d, err = i16(8 + k); err != nil {
			return nil, err
		}
	}
	sub, err := i16list(items[16])
	if err != nil || len(sub) != 10 {
		return nil, fmt.Errorf("os2-enc: want 10 sub/superscript values")
	}
	for k, d := range []*funit.Int16{&i.SubscriptXSize, &i.SubscriptYSize, &i.SubscriptXOffset, &i.SubscriptYOffset, &i.SuperscriptXSize, &i.SuperscriptYSize,
		&i.SuperscriptXOffset, &i.SuperscriptYOffset, &i.StrikeoutSize, &i.StrikeoutPosition} {
		*d = sub[k]
	}
	fam, err := asRange(items[17], -32768, 32767)
	if err != nil {
		return nil, err
	}
	i.FamilyClass = int16(fam)
	pan, err := vlib.AsBytes(items[18])
	if err != nil || len(pan) != 10 {
		return nil, fmt.Errorf("os2-enc: want 10 panose bytes")
	}
	copy(i.Panose[:], pan)
	ven, err := vlib.AsBytes(items[19])
	if err != nil {
		return nil, err
	}
	i.Vendor = string(ven)
	url, err := vlib.AsList(items[20])
	if err != nil || len(url) != 4 {
		return nil, fmt.Errorf("os2-enc: want 4 unicode range words")
	}
	for k := range url {
		v, err := asRange(url[k], 0, math.MaxUint32)
		if err != nil {
			return nil, err
		}
		i.UnicodeRange[k] = uint32(v)
	}
	cpr, err := asU64(items[21])
	if err != nil {
		return nil, err
	}
	i.CodePageRange = os2.CodePageRange(cpr)
	perm, err := vlib.AsInt(items[22])
	if err != nil {
		return nil, err
	}
	i.PermUse = os2.Permissions(perm)
	if i.PermNoSubsetting, err = vlib.AsBool(items[23]); err != nil {
		return nil, err
	}
	if i.PermOnlyBitmap, err = vlib.AsBool(items[24]); err != nil {
		return nil, err
	}
	return i, nil
}

// os2Normal reports whether the Info is one that an OS/2 table can express
// (the normal form of the round trip): regular excludes bold/italic, the
// vendor tag has four bytes, the permission is one of the four values, the
// "non-plane-0" bit follows LastCharIndex, heights are not negative.
func os2Normal(i *os2.Info) bool {
	return !(i.IsRegular && (i.IsBold || i.IsItalic)) && len(i.Vendor) == 4 &&
		i.PermUse >= 0 && i.PermUse <= 3 &&
		(i.UnicodeRange[1]&(1<<25) != 0) == (i.LastCharIndex == 0xFFFF) &&
		i.XHeight >= 0 && i.CapHeight >= 0
}

func runOS2Enc(items []vlib.Sx) (impl, fail, sig string, err error) {
	info, err := parseOS2(items)
	if err != nil {
		return "", "", "", err
	}
	var b []byte
	if p, msg := guard(func() { b = info.Encode() }); p {
		return "panic", "OS/2 Encode panics: " + msg, "c12-os2-encode-panic", nil
	}
	impl = vlib.Str(vlib.L(vlib.Atom("ok"), vlib.Hex(b)))
	if len(b) != 96 {
		return impl, fmt.Sprintf("OS/2 table has %d bytes", len(b)), "c12-os2-layout", nil
	}
	// layout (OpenType OS/2 version 4), read independently
	u16 := func(o int) uint16 { return binary.BigEndian.Uint16(b[o:]) }
	s16 := func(o int) funit.Int16 { return funit.Int16(u16(o)) }
	fsType, fsSel := u16(8), u16(62)
	wantType := map[os2.Permissions]uint16{os2.PermInstall: 0, os2.PermRestricted: 2, os2.PermView: 4, os2.PermEdit: 8}[info.PermUse]
	if info.PermNoSubsetting {
		wantType |= 0x100
	}
	if info.PermOnlyBitmap {
		wantType |= 0x200
	}
	ok := u16(0) == 4 && s16(2) == info.AvgGlyphWidth && u16(4) == uint16(info.WeightClass) && u16(6) == uint16(info.WidthClass) &&
		fsType == wantType && int16(u16(30)) == info.FamilyClass && bytes.Equal(b[32:42], info.Panose[:]) &&
		u16(64) == info.FirstCharIndex && u16(66) == info.LastCharIndex &&
		s16(68) == info.Ascent && s16(70) == info.Descent && s16(72) == info.LineGap && s16(74) == info.WinAscent && s16(76) == info.WinDescent &&
		binary.BigEndian.Uint32(b[78:]) == uint32(info.CodePageRange) && binary.BigEndian.Uint32(b[82:]) == uint32(info.CodePageRange>>32) &&
		s16(86) == info.XHeight && s16(88) == info.CapHeight &&
		(fsSel&0x40 != 0) == info.IsRegular && (fsSel&0x200 != 0) == info.IsOblique && fsSel&0x80 != 0 &&
		(info.IsRegular || ((fsSel&0x01 != 0) == info.IsItalic && (fsSel&0x20 != 0) == info.IsBold)) &&
		(!info.IsRegular || fsSel&0x21 == 0)
	for k := 0; k < 4 && ok; k++ {
		w := binary.BigEndian.Uint32(b[42+4*k:])
		want := info.UnicodeRange[k]
		if k == 1 {
			want &^= 1 << 25
			if info.LastCharIndex == 0xFFFF {
				want |= 1 << 25
			}
		}
		ok = w == want
	}
	if !ok {
		return impl, "a field of the encoded OS/2 table differs from the Info (independent reading)", "c12-os2-layout", nil
	}
	var back *os2.Info
	var rerr error
	if p, msg := guard(func() { back, rerr = os2.Read(bytes.NewReader(b)) }); p {
		return impl, "OS/2 Read panics on Encode's output: " + msg, "c12-os2-decode-panic", nil
	}
	if rerr != nil {
		return impl, "OS/2 Read rejects Encode's output: " + rerr.Error(), "c12-os2-roundtrip", nil
	}
	if os2Normal(info) && *back != *info {
		return impl, fmt.Sprintf("OS/2 %+v comes back as %+v", *info, *back), "c12-os2-roundtrip", nil
	}
	// in every case what came back is a fixed point
	back2, rerr2 := os2.Read(bytes.NewReader(back.Encode()))
	if rerr2 != nil || *back2 != *back {
		return impl, "re-encoding the decoded OS/2 Info changes it", "c12-os2-roundtrip", nil
	}
	return impl, "", "", nil
}

func runOS2Dec(items []vlib.Sx) (impl, fail, sig string, err error) {
	if len(items) != 1 {
		return "", "", "", fmt.Errorf("os2-dec: want 1 argument")
	}
	b, err := vlib.AsBytes(items[0])
	if err != nil {
		return "", "", "", err
	}
	var info *os2.Info
	var rerr error
	if p, msg := guard(func() { info, rerr = os2.Read(bytes.NewReader(b)) }); p {
		return "panic", "OS/2 Read panics: " + msg, "c12-os2-decode-panic", nil
	}
	if rerr != nil {
		impl = "err"
	} else {
		impl = vlib.Str(append(vlib.List{vlib.Atom("ok")}, os2Fields(info)...))
	}
	// acceptance by table length and version (OpenType OS/2: 68 bytes of
	// version-0 data, optionally 10 more, and from version 2 on 18 more)
	accept := false
	version := 0
	if len(b) >= 68 {
		version = int(binary.BigEndian.Uint16(b))
		switch {
		case version > 5:
		case len(b) == 68:
			accept = true
		case len(b) < 78:
		case version < 2:
			accept = true
		default:
			accept = len(b) >= 96
		}
	}
	if accept != (rerr == nil) {
		return impl, fmt.Sprintf("OS/2 Read error=%v, reference accepts=%v", rerr, accept), "c12-os2-decode-accept", nil
	}
	if rerr != nil {
		return impl, "", "", nil
	}
	// version gating of fsType and fsSelection, read independently
	fsType, fsSel := binary.BigEndian.Uint16(b[8:]), binary.BigEndian.Uint16(b[62:])
	if version < 3 {
		fsType &= 0x000F
	}
	if version <= 3 {
		fsSel &= 0x007F
	}
	wantPerm := os2.PermInstall
	switch {
	case fsType&8 != 0:
		wantPerm = os2.PermEdit
	case fsType&4 != 0:
		wantPerm = os2.PermView
	case fsType&2 != 0:
		wantPerm = os2.PermRestricted
	}
	ok := info.PermUse == wantPerm && info.PermNoSubsetting == (fsType&0x100 != 0) && info.PermOnlyBitmap == (fsType&0x200 != 0) &&
		info.IsRegular == (fsSel&0x40 != 0) && info.IsOblique == (fsSel&0x200 != 0) &&
		info.IsBold == (fsSel&0x20 != 0 && fsSel&0x40 == 0) && info.IsItalic == (fsSel&0x01 != 0 && fsSel&0x40 == 0) &&
		uint16(info.WeightClass) == binary.BigEndian.Uint16(b[4:]) && uint16(info.WidthClass) == binary.BigEndian.Uint16(b[6:]) &&
		info.FirstCharIndex == binary.BigEndian.Uint16(b[64:]) && info.LastCharIndex == binary.BigEndian.Uint16(b[66:]) &&
		info.Vendor == string(b[58:62]) && bytes.Equal(info.Panose[:], b[32:42])
	if ok && len(b) >= 78 {
		ok = int16(info.Ascent) == int16(binary.BigEndian.Uint16(b[68:])) && int16(info.WinDescent) == int16(binary.BigEndian.Uint16(b[76:]))
	}
	if ok && len(b) >= 96 && version >= 2 {
		ok = uint64(info.CodePageRange) == uint64(binary.BigEndian.Uint32(b[78:]))|uint64(binary.BigEndian.Uint32(b[82:]))<<32
	} else if ok {
		ok = info.CodePageRange == 0 && info.XHeight == 0 && info.CapHeight == 0
	}
	if !ok {
		return impl, "a decoded OS/2 field differs from an independent reading of the bytes", "c12-os2-decode-values", nil
	}
	if !os2Normal(info) {
		return impl, "OS/2 Read returned an Info outside the normal form", "c12-os2-decode-normal", nil
	}
	back, rerr2 := os2.Read(bytes.NewReader(info.Encode()))
	if rerr2 != nil || *back != *info {
		return impl, "re-encoding a decoded OS/2 Info changes it", "c12-os2-roundtrip", nil
	}
	return impl, "", "", nil
}

func randOS2(r *vlib.Rand, flags int, normal bool) *os2.Info {
	i := &os2.Info{
		WeightClass: os2.Weight(vlib.Pick(r, []int{0, 1, 100, 400, 700, 1000, 65535, r.Intn(65536)})),
		WidthClass:  os2.Width(vlib.Pick(r, []int{0, 1, 5, 9, 65535, r.Intn(65536)})),
		IsBold:      flags&1 != 0, IsItalic: flags&2 != 0, IsRegular: flags&4 != 0, IsOblique: flags&8 != 0,
		PermNoSubsetting: flags&16 != 0, PermOnlyBitmap: flags&32 != 0,
		PermUse:        os2.Permissions(flags >> 6 & 3),
		FirstCharIndex: uint16(vlib.Pick(r, []int{0, 32, 65535, r.Intn(65536)})),
		LastCharIndex:  uint16(vlib.Pick(r, []int{0, 126, 65534, 65535, 65535, r.Intn(65536)})),
		Ascent:         randI16(r), Descent: randI16(r), WinAscent: randI16(r), WinDescent: randI16(r), LineGap: randI16(r),
		CapHeight: randI16(r), XHeight: randI16(r), AvgGlyphWidth: randI16(r),
		SubscriptXSize: randI16(r), SubscriptYSize: randI16(r), SubscriptXOffset: randI16(r), SubscriptYOffset: randI16(r),
		SuperscriptXSize: randI16(r), SuperscriptYSize: randI16(r), SuperscriptXOffset: randI16(r), SuperscriptYOffset: randI16(r),
		StrikeoutSize: randI16(r), StrikeoutPosition: randI16(r),
		FamilyClass:   int16(randI16(r)),
		Vendor:        vlib.Pick(r, []string{"ABCD", "    ", "\x00\xff\x80z", "GOOG"}),
		CodePageRange: os2.CodePageRange(vlib.Pick(r, []uint64{0, 1, 1 << 31, 1 << 32, 1 << 63, math.MaxUint64, r.Uint64()})),
	}
	copy(i.Panose[:], r.Bytes(10))
	for k := range i.UnicodeRange {
		i.UnicodeRange[k] = uint32(vlib.Pick(r, []uint64{0, 1, 1 << 25, 0xFFFFFFFF, 0xFFFFFFFF &^ (1 << 25), r.Uint64() & 0xFFFFFFFF}))
	}
	if normal {
		if i.IsRegular {
			i.IsBold, i.IsItalic = false, false
		}
		i.UnicodeRange[1] &^= 1 << 25
		if i.LastCharIndex == 0xFFFF {
			i.UnicodeRange[1] |= 1 << 25
		}
		if i.XHeight < 0 {
			i.XHeight = -(i.XHeight + 1)
		}
		if i.CapHeight < 0 {
			i.CapHeight = -(i.CapHeight + 1)
		}
	} else {
		switch r.Intn(4) {
		case 0:
			i.Vendor = vlib.Pick(r, []string{"", "AB", "ABCDE"})
		case 1:
			i.PermUse = os2.Permissions(vlib.Pick(r, []int{-1, 4, 7, 1 << 20}))
		}
	}
	return i
}

func genOS2(run *vlib.Run, r *vlib.Rand, tier string) {
	var tables [][]byte
	for rep := 0; rep < vlib.Count(tier, 1, 6); rep++ {
		for flags := 0; flags < 256; flags++ {
			normal := rep%2 == 0
			i := randOS2(r, flags, normal)
			line := vlib.Line(append([]vlib.Sx{vlib.Atom("os2-enc")}, os2Fields(i)...)...)
			lab := "os2-enc:arbitrary"
			if os2Normal(i) {
				lab = "os2-enc:normal-form"
			}
			emit(run, line, flags != 0, "os2-enc", lab)
			if flags%3 == 0 {
				tables = append(tables, i.Encode())
			}
		}
	}
	// decoder: all versions 0..6 against the structural lengths, all fsType / fsSelection bit patterns under each version
	lens := []int{0, 1, 67, 68, 69, 77, 78, 79, 85, 86, 95, 96, 97, 100}
	for _, t := range tables[:4] {
		for v := 0; v <= 6; v++ {
			for _, l := range lens {
				t2 := append(append([]byte(nil), t...), 1, 2, 3, 4)[:l]
				if l >= 2 {
					binary.BigEndian.PutUint16(t2, uint16(v))
				}
				emitDec(run, "os2-dec", t2, "os2-dec:version-length")
			}
		}
	}
	for k, t := range tables {
		emitDec(run, "os2-dec", t, "os2-dec:valid")
		t2 := append([]byte(nil), t...)
		binary.BigEndian.PutUint16(t2, uint16(r.Intn(7)))
		switch r.Intn(5) {
		case 0:
			copy(t2[8:], r.Bytes(2))  // fsType
			copy(t2[62:], r.Bytes(2)) // fsSelection
		case 1:
			binary.BigEndian.PutUint16(t2[8:], uint16(1<<uint(k%16)))
			binary.BigEndian.PutUint16(t2[62:], uint16(1<<uint(k/16%16)))
		case 2:
			copy(t2[86:], r.Bytes(4)) // xHeight, capHeight of either sign
		case 3:
			t2 = append(t2, 9, 9, 9, 9)[:vlib.Pick(r, lens)]
		default:
			t2[r.Intn(len(t2))] = byte(r.Intn(256))
		}
		emitDec(run, "os2-dec", t2, "os2-dec:mutated")
	}
	for k := 0; k < vlib.Count(tier, 60, 2000); k++ {
		b := r.Bytes(vlib.Pick(r, lens))
		if len(b) >= 2 {
			binary.BigEndian.PutUint16(b, uint16(r.Intn(7)))
		}
		emitDec(run, "os2-dec", b, "os2-dec:random")
	}
}
