package c12

import (
	"bytes"
	"encoding/binary"
	"fmt"
	"math"
	"strconv"
	"time"

	"seehuhn.de/go/postscript/funit"

	"seehuhn.de/go/sfnt/head"
	"seehuhn.de/go/sfnt/verifharness/vlib"
)

func init() {
	runners["time-enc"] = runTimeEnc
	runners["time-dec"] = runTimeDec
	runners["head-enc"] = runHeadEnc
	runners["head-dec"] = runHeadDec
}

const epoch1904 = -2082844800 // 1904-01-01T00:00:00Z as Unix time (from the OpenType head description)
const zeroUnix = -62135596800 // time.Time{}.Unix()

// ---------------------------------------------------------------- syntax

func asU64(x vlib.Sx) (uint64, error) {
	a, err := vlib.AsAtom(x)
	if err != nil {
		return 0, err
	}
	return strconv.ParseUint(a, 10, 64)
}

func asRange(x vlib.Sx, lo, hi int64) (int64, error) {
	v, err := vlib.AsI64(x)
	if err != nil {
		return 0, err
	}
	if v < lo || v > hi {
		return 0, fmt.Errorf("value %d outside [%d,%d]", v, lo, hi)
	}
	return v, nil
}

func asTime(x vlib.Sx) (time.Time, error) {
	l, err := vlib.AsList(x)
	if err != nil || len(l) != 2 {
		return time.Time{}, fmt.Errorf("bad time")
	}
	s, err := vlib.AsI64(l[0])
	if err != nil {
		return time.Time{}, err
	}
	ns, err := asRange(l[1], 0, 999999999)
	if err != nil {
		return time.Time{}, err
	}
	return time.Unix(s, ns), nil
}

func sxTime(t time.Time) vlib.Sx {
	return vlib.L(vlib.I64(t.Unix()), vlib.Int(t.Nanosecond()))
}

func asRect(x vlib.Sx) (funit.Rect16, error) {
	r, err := rectlist(vlib.List{x})
	if err != nil {
		return funit.Rect16{}, err
	}
	return r[0], nil
}

func sxRect(r funit.Rect16) vlib.Sx { return sxRects([]funit.Rect16{r}).(vlib.List)[0] }

func headFields(i *head.Info) []vlib.Sx {
	return []vlib.Sx{vlib.U64(uint64(i.FontRevision)), vlib.Bool(i.HasYBaseAt0), vlib.Bool(i.HasXBaseAt0), vlib.Bool(i.IsNonlinear),
		vlib.Int(int(i.UnitsPerEm)), sxTime(i.Created), sxTime(i.Modified), sxRect(i.FontBBox),
		vlib.Bool(i.IsBold), vlib.Bool(i.IsItalic), vlib.Bool(i.HasShadow), vlib.Bool(i.IsCondensed), vlib.Bool(i.IsExtended),
		vlib.Int(int(i.LowestRecPPEM)), vlib.Int(int(i.LocaFormat))}
}

func parseHead(items []vlib.Sx) (*head.Info, error) {
	if len(items) != 15 {
		return nil, fmt.Errorf("head-enc: want 15 arguments")
	}
	i := &head.Info{}
	rev, err := asRange(items[0], 0, math.MaxUint32)
	if err != nil {
		return nil, err
	}
	i.FontRevision = head.Version(rev)
	bs := []*bool{&i.HasYBaseAt0, &i.HasXBaseAt0, &i.IsNonlinear}
	for k, b := range bs {
		if *b, err = vlib.AsBool(items[1+k]); err != nil {
			return nil, err
		}
	}
	upem, err := asRange(items[4], 0, 65535)
	if err != nil {
		return nil, err
	}
	i.UnitsPerEm = uint16(upem)
	if i.Created, err = asTime(items[5]); err != nil {
		return nil, err
	}
	if i.Modified, err = asTime(items[6]); err != nil {
		return nil, err
	}
	if i.FontBBox, err = asRect(items[7]); err != nil {
		return nil, err
	}
	bs = []*bool{&i.IsBold, &i.IsItalic, &i.HasShadow, &i.IsCondensed, &i.IsExtended}
	for k, b := range bs {
		if *b, err = vlib.AsBool(items[8+k]); err != nil {
			return nil, err
		}
	}
	ppem, err := asRange(items[13], 0, 65535)
	if err != nil {
		return nil, err
	}
	i.LowestRecPPEM = uint16(ppem)
	loca, err := asRange(items[14], -32768, 32767)
	if err != nil {
		return nil, err
	}
	i.LocaFormat = int16(loca)
	return i, nil
}

// ---------------------------------------------------------------- time

func runTimeEnc(items []vlib.Sx) (impl, fail, sig string, err error) {
	if len(items) != 2 {
		return "", "", "", fmt.Errorf("time-enc: want 2 arguments")
	}
	t, err := asTime(vlib.List{items[0], items[1]})
	if err != nil {
		return "", "", "", err
	}
	var v int64
	if p, msg := guard(func() { v = head.VerifC12EncodeTime(t) }); p {
		return "panic", "encodeTime panics: " + msg, "c12-time-panic", nil
	}
	impl = vlib.Str(vlib.L(vlib.Atom("ok"), vlib.I64(v)))
	// definition: seconds since 1904-01-01T00:00:00Z; the zero Time is written as 0
	want := t.Unix() - epoch1904 // wraps like the field does
	if t.IsZero() {
		want = 0
	}
	if v != want {
		return impl, fmt.Sprintf("encodeTime = %d, seconds since 1904 = %d", v, want), "c12-time-encode", nil
	}
	back := head.VerifC12DecodeTime(v)
	return impl, timeRoundTrip("time", t, back), timeSig(t), nil
}

// timeRoundTrip compares a time with what came back, to the second.
func timeRoundTrip(what string, t, back time.Time) string {
	if t.IsZero() {
		if !back.IsZero() {
			return what + ": the zero time comes back as " + back.UTC().String()
		}
		return ""
	}
	if back.Unix() != t.Unix() {
		return fmt.Sprintf("%s: %d (unix) comes back as %d (zero=%v)", what, t.Unix(), back.Unix(), back.IsZero())
	}
	return ""
}

// timeSig names the one input class for which the timestamp is known not to
// survive (seconds since 1904 = 0 is also the encoding of "no time").
func timeSig(ts ...time.Time) string {
	for _, t := range ts {
		if !t.IsZero() && t.Unix() == epoch1904 {
			return "c12-head-time-1904-epoch-reads-as-unset"
		}
	}
	return "c12-time-roundtrip"
}

func runTimeDec(items []vlib.Sx) (impl, fail, sig string, err error) {
	if len(items) != 1 {
		return "", "", "", fmt.Errorf("time-dec: want 1 argument")
	}
	x, err := vlib.AsI64(items[0])
	if err != nil {
		return "", "", "", err
	}
	var t time.Time
	if p, msg := guard(func() { t = head.VerifC12DecodeTime(x) }); p {
		return "panic", "decodeTime panics: " + msg, "c12-time-panic", nil
	}
	impl = vlib.Str(vlib.L(vlib.Atom("ok"), sxTime(t)))
	if x == 0 {
		if !t.IsZero() {
			return impl, "0 does not decode to the zero time", "c12-time-decode", nil
		}
	} else if t.Unix() != epoch1904+x || t.Nanosecond() != 0 {
		return impl, fmt.Sprintf("decodeTime(%d).Unix() = %d", x, t.Unix()), "c12-time-decode", nil
	}
	// decoded times are fixed points
	if y := head.VerifC12EncodeTime(t); head.VerifC12DecodeTime(y).Unix() != t.Unix() {
		return impl, "decode(encode(decode(x))) differs", "c12-time-roundtrip", nil
	}
	return impl, "", "", nil
}

// ---------------------------------------------------------------- head

func safeHeadRead(b []byte) (info *head.Info, err error, panicked bool, msg string) {
	panicked, msg = guard(func() { info, err = head.Read(bytes.NewReader(b)) })
	return
}

func headEqual(a, b *head.Info) string {
	if s := timeRoundTrip("Created", a.Created, b.Created); s != "" {
		return s
	}
	if s := timeRoundTrip("Modified", a.Modified, b.Modified); s != "" {
		return s
	}
	a2, b2 := *a, *b
	a2.Created, a2.Modified, b2.Created, b2.Modified = time.Time{}, time.Time{}, time.Time{}, time.Time{}
	if a2 != b2 {
		return fmt.Sprintf("%+v comes back as %+v", a2, b2)
	}
	return ""
}

func runHeadEnc(items []vlib.Sx) (impl, fail, sig string, err error) {
	info, err := parseHead(items)
	if err != nil {
		return "", "", "", err
	}
	var b []byte
	if p, msg := guard(func() { b = info.Encode() }); p {
		return "panic", "head Encode panics: " + msg, "c12-head-encode-panic", nil
	}
	impl = vlib.Str(vlib.L(vlib.Atom("ok"), vlib.Hex(b)))

	// layout, read independently (OpenType head)
	if len(b) != 54 {
		return impl, fmt.Sprintf("head has %d bytes", len(b)), "c12-head-layout", nil
	}
	u16 := func(o int) uint16 { return binary.BigEndian.Uint16(b[o:]) }
	u32 := func(o int) uint32 { return binary.BigEndian.Uint32(b[o:]) }
	flags, mac := u16(16), u16(44)
	bit := func(v uint16, k uint) bool { return v>>k&1 == 1 }
	secs := func(t time.Time) int64 {
		if t.IsZero() {
			return 0
		}
		return t.Unix() - epoch1904
	}
	ok := u32(0) == 0x00010000 && u32(4) == uint32(info.FontRevision) && u32(8) == 0 && u32(12) == 0x5F0F3CF5 &&
		bit(flags, 0) == info.HasYBaseAt0 && bit(flags, 1) == info.HasXBaseAt0 && bit(flags, 2) == info.IsNonlinear && bit(flags, 4) == info.IsNonlinear &&
		u16(18) == info.UnitsPerEm &&
		int64(binary.BigEndian.Uint64(b[20:])) == secs(info.Created) && int64(binary.BigEndian.Uint64(b[28:])) == secs(info.Modified) &&
		int16(u16(36)) == int16(info.FontBBox.LLx) && int16(u16(38)) == int16(info.FontBBox.LLy) &&
		int16(u16(40)) == int16(info.FontBBox.URx) && int16(u16(42)) == int16(info.FontBBox.URy) &&
		bit(mac, 0) == info.IsBold && bit(mac, 1) == info.IsItalic && bit(mac, 4) == info.HasShadow && bit(mac, 5) == info.IsCondensed && bit(mac, 6) == info.IsExtended &&
		mac&^0x73 == 0 && u16(46) == info.LowestRecPPEM && int16(u16(50)) == info.LocaFormat && u16(52) == 0
	if !ok {
		return impl, "a field of the encoded head table differs from the Info (independent reading of the 54 bytes)", "c12-head-layout", nil
	}

	back, rerr, p, msg := safeHeadRead(b)
	if p {
		return impl, "head Read panics on Encode's output: " + msg, "c12-head-decode-panic", nil
	}
	if rerr != nil {
		return impl, "head Read rejects Encode's output: " + rerr.Error(), "c12-head-roundtrip", nil
	}
	if s := headEqual(info, back); s != "" {
		return impl, s, timeSigOr(info, "c12-head-roundtrip"), nil
	}
	return impl, "", "", nil
}

func timeSigOr(info *head.Info, other string) string {
	if s := timeSig(info.Created, info.Modified); s != "c12-time-roundtrip" {
		return s
	}
	return other
}

func runHeadDec(items []vlib.Sx) (impl, fail, sig string, err error) {
	if len(items) != 1 {
		return "", "", "", fmt.Errorf("head-dec: want 1 argument")
	}
	b, err := vlib.AsBytes(items[0])
	if err != nil {
		return "", "", "", err
	}
	info, rerr, p, msg := safeHeadRead(b)
	if p {
		return "panic", "head Read panics: " + msg, "c12-head-decode-panic", nil
	}
	accept := len(b) >= 54 && binary.BigEndian.Uint32(b) == 0x00010000 && binary.BigEndian.Uint32(b[12:]) == 0x5F0F3CF5
	if rerr != nil {
		impl = "err"
	} else {
		impl = vlib.Str(append(vlib.List{vlib.Atom("ok")}, headFields(info)...))
	}
	if accept != (rerr == nil) {
		return impl, fmt.Sprintf("head Read error=%v, reference accepts=%v", rerr, accept), "c12-head-decode-accept", nil
	}
	if rerr != nil {
		return impl, "", "", nil
	}
	// values against an independent reading
	u16 := func(o int) uint16 { return binary.BigEndian.Uint16(b[o:]) }
	flags, mac := u16(16), u16(44)
	tm := func(o int) (int64, bool) {
		v := int64(binary.BigEndian.Uint64(b[o:]))
		return epoch1904 + v, v == 0
	}
	chkTime := func(t time.Time, o int) bool {
		s, zero := tm(o)
		if zero {
			return t.IsZero()
		}
		return t.Unix() == s && t.Nanosecond() == 0
	}
	ok := uint32(info.FontRevision) == binary.BigEndian.Uint32(b[4:]) &&
		info.HasYBaseAt0 == (flags&1 != 0) && info.HasXBaseAt0 == (flags&2 != 0) && info.IsNonlinear == (flags&(4|16) != 0) &&
		info.UnitsPerEm == u16(18) && chkTime(info.Created, 20) && chkTime(info.Modified, 28) &&
		int16(info.FontBBox.LLx) == int16(u16(36)) && int16(info.FontBBox.LLy) == int16(u16(38)) &&
		int16(info.FontBBox.URx) == int16(u16(40)) && int16(info.FontBBox.URy) == int16(u16(42)) &&
		info.IsBold == (mac&1 != 0) && info.IsItalic == (mac&2 != 0) && info.HasShadow == (mac&16 != 0) &&
		info.IsCondensed == (mac&32 != 0) && info.IsExtended == (mac&64 != 0) &&
		info.LowestRecPPEM == u16(46) && info.LocaFormat == int16(u16(50))
	if !ok {
		return impl, "a decoded head field differs from an independent reading of the bytes", "c12-head-decode-values", nil
	}
	// a decoded Info is a fixed point of Encode/Read
	var b2 []byte
	if p, msg := guard(func() { b2 = info.Encode() }); p {
		return impl, "head Encode panics on a decoded Info: " + msg, "c12-head-encode-panic", nil
	}
	back, rerr2, p2, _ := safeHeadRead(b2)
	if p2 || rerr2 != nil {
		return impl, "head Read fails on the re-encoded table", "c12-head-roundtrip", nil
	}
	if s := headEqual(info, back); s != "" {
		return impl, "re-encoding a decoded Info: " + s, "c12-head-roundtrip", nil
	}
	return impl, "", "", nil
}

// ---------------------------------------------------------------- generators

var timeSecs = []int64{0, 1, -1, epoch1904, epoch1904 + 1, epoch1904 - 1, zeroUnix, zeroUnix + 1, zeroUnix - 1,
	1136239445, 1700000000, 4102444800, math.MaxInt64, math.MinInt64, math.MaxInt64 + epoch1904, math.MinInt64 - epoch1904,
	math.MaxInt64 + epoch1904 + 1, math.MinInt64 - epoch1904 - 1, 2 * epoch1904, -epoch1904}

func randTime(r *vlib.Rand) time.Time {
	var s int64
	switch r.Intn(4) {
	case 0:
		s = vlib.Pick(r, timeSecs)
	case 1:
		s = int64(r.Uint64())
	default:
		s = int64(r.Range(-3000000000, 5000000000))
	}
	ns := int64(0)
	if r.Chance(1, 5) {
		ns = vlib.Pick(r, []int64{1, 500000000, 999999999})
	}
	if r.Chance(1, 8) {
		return time.Time{}
	}
	return time.Unix(s, ns)
}

func randHead(r *vlib.Rand, flags int) *head.Info {
	i := &head.Info{
		FontRevision: head.Version(vlib.Pick(r, []uint64{0, 1, 0x10000, 0x18000, 0xFFFFFFFF, r.Uint64() & 0xFFFFFFFF})),
		HasYBaseAt0:  flags&1 != 0, HasXBaseAt0: flags&2 != 0, IsNonlinear: flags&4 != 0,
		IsBold: flags&8 != 0, IsItalic: flags&16 != 0, HasShadow: flags&32 != 0, IsCondensed: flags&64 != 0, IsExtended: flags&128 != 0,
		UnitsPerEm:    uint16(vlib.Pick(r, []int{0, 1, 15, 16, 1000, 1024, 2048, 16384, 16385, 65535, r.Intn(65536)})),
		Created:       randTime(r),
		Modified:      randTime(r),
		FontBBox:      funit.Rect16{LLx: randI16(r), LLy: randI16(r), URx: randI16(r), URy: randI16(r)},
		LowestRecPPEM: uint16(vlib.Pick(r, []int{0, 7, 8, 65535, r.Intn(65536)})),
		LocaFormat:    int16(vlib.Pick(r, []int{0, 1, 0, 1, -1, 2, 32767, -32768})),
	}
	return i
}

func genHead(run *vlib.Run, r *vlib.Rand, tier string) {
	for _, s := range timeSecs {
		for _, ns := range []int64{0, 1, 999999999} {
			emit(run, vlib.Line(vlib.Atom("time-enc"), vlib.I64(s), vlib.I64(ns)), true, "time-enc")
		}
		emit(run, vlib.Line(vlib.Atom("time-dec"), vlib.I64(s)), true, "time-dec")
		emit(run, vlib.Line(vlib.Atom("time-dec"), vlib.I64(s-epoch1904)), true, "time-dec")
	}
	for k := 0; k < vlib.Count(tier, 200, 5000); k++ {
		t := randTime(r)
		emit(run, vlib.Line(vlib.Atom("time-enc"), vlib.I64(t.Unix()), vlib.Int(t.Nanosecond())), true, "time-enc")
		emit(run, vlib.Line(vlib.Atom("time-dec"), vlib.I64(int64(r.Uint64())>>uint(r.Intn(40)))), true, "time-dec")
	}

	var tables [][]byte
	// all 256 flag combinations (thorough: several value sets each)
	for rep := 0; rep < vlib.Count(tier, 1, 8); rep++ {
		for flags := 0; flags < 256; flags++ {
			i := randHead(r, flags)
			line := vlib.Line(append([]vlib.Sx{vlib.Atom("head-enc")}, headFields(i)...)...)
			emit(run, line, flags != 0, "head-enc", fmt.Sprintf("head-enc:flagbits=%d", popcount(flags)))
			if flags%5 == 0 {
				if p, _ := guard(func() { tables = append(tables, i.Encode()) }); p {
					continue
				}
			}
		}
	}
	// every boundary time as Created / Modified
	for _, s := range timeSecs {
		i := randHead(r, r.Intn(256))
		i.Created, i.Modified = time.Unix(s, 0), time.Unix(s, 0)
		if r.Bool() {
			i.Modified = randTime(r)
		}
		line := vlib.Line(append([]vlib.Sx{vlib.Atom("head-enc")}, headFields(i)...)...)
		emit(run, line, true, "head-enc", "head-enc:boundary-time")
	}

	// decoder: valid tables, every truncation of one, single-byte and field mutations, random bytes
	for _, t := range tables {
		emitDec(run, "head-dec", t, "head-dec:valid")
		t2 := append([]byte(nil), t...)
		switch r.Intn(6) {
		case 0:
			t2 = t2[:r.Intn(len(t2))]
		case 1:
			t2 = append(t2, r.Bytes(r.Range(1, 8))...)
		case 2:
			t2[r.Intn(4)] ^= byte(1 << r.Intn(8)) // version
		case 3:
			t2[12+r.Intn(4)] ^= byte(1 << r.Intn(8)) // magic
		case 4:
			copy(t2[16:], r.Bytes(2)) // all 16 flag bits
			copy(t2[44:], r.Bytes(2)) // all 16 macStyle bits
		default:
			t2[r.Intn(len(t2))] = byte(r.Intn(256))
		}
		emitDec(run, "head-dec", t2, "head-dec:mutated")
	}
	if len(tables) > 0 {
		t := tables[0]
		for l := 0; l <= len(t)+1; l++ {
			if l <= len(t) {
				emitDec(run, "head-dec", t[:l], "head-dec:truncated")
			} else {
				emitDec(run, "head-dec", append(append([]byte(nil), t...), 0), "head-dec:extended")
			}
		}
		// every flag and macStyle bit on its own, and the timestamps at the boundaries
		for k := 0; k < 16; k++ {
			t2 := append([]byte(nil), t...)
			binary.BigEndian.PutUint16(t2[16:], 1<<uint(k))
			binary.BigEndian.PutUint16(t2[44:], 1<<uint(k))
			emitDec(run, "head-dec", t2, "head-dec:single-bit")
		}
		for _, s := range timeSecs {
			t2 := append([]byte(nil), t...)
			binary.BigEndian.PutUint64(t2[20:], uint64(s))
			binary.BigEndian.PutUint64(t2[28:], uint64(s-epoch1904))
			emitDec(run, "head-dec", t2, "head-dec:boundary-time")
		}
	}
	for k := 0; k < vlib.Count(tier, 60, 2000); k++ {
		b := r.Bytes(r.Range(50, 58))
		if r.Bool() && len(b) >= 16 {
			binary.BigEndian.PutUint32(b, 0x00010000)
			binary.BigEndian.PutUint32(b[12:], 0x5F0F3CF5)
		}
		emitDec(run, "head-dec", b, "head-dec:random")
	}
}

func popcount(x int) int {
	n := 0
	for ; x != 0; x &= x - 1 {
		n++
	}
	return n
}

// emitDec emits a decoder case "<kind> xBYTES"; non-trivial when accepted.
func emitDec(run *vlib.Run, kind string, b []byte, labels ...string) {
	line := vlib.Line(vlib.Atom(kind), vlib.Hex(b))
	impl, fail, sig, err := runLine(line)
	if err != nil {
		panic(err)
	}
	labels = append(labels, kind, kind+":"+obsClass(impl))
	idx := run.Add(line, impl, obsClass(impl) == "ok", labels...)
	if fail != "" {
		run.Fail(idx, line, fail, sig)
	}
}
