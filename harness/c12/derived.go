package c12

import (
	"bytes"
	"encoding/binary"
	"fmt"
	"math"
	"math/big"
	"sort"
	"strconv"
	"strings"
	"sync"

	"golang.org/x/image/font"
	"golang.org/x/image/font/gofont/goregular"
	xsfnt "golang.org/x/image/font/sfnt"
	"golang.org/x/image/math/fixed"
	"seehuhn.de/go/postscript/funit"

	"seehuhn.de/go/sfnt"
	"seehuhn.de/go/sfnt/cff"
	"seehuhn.de/go/sfnt/cmap"
	"seehuhn.de/go/sfnt/glyf"
	"seehuhn.de/go/sfnt/glyph"
	"seehuhn.de/go/sfnt/head"
	"seehuhn.de/go/sfnt/internal/debug"
	"seehuhn.de/go/sfnt/verifharness/vlib"
)

func init() {
	runners["derived"] = runDerived
	runners["ver"] = runVersion
}

// ---------------------------------------------------------------- font construction

var (
	baseOnce   sync.Once
	baseTTF    *sfnt.Font
	baseCFF    *sfnt.Font
	someSimple glyf.SimpleGlyph
)

func bases() (*sfnt.Font, *sfnt.Font) {
	baseOnce.Do(func() {
		var err error
		baseTTF, err = sfnt.Read(bytes.NewReader(goregular.TTF))
		if err != nil {
			panic(err)
		}
		for _, g := range baseTTF.Outlines.(*glyf.Outlines).Glyphs {
			if g == nil {
				continue
			}
			if sg, ok := g.Data.(glyf.SimpleGlyph); ok {
				someSimple = sg
				break
			}
		}
		baseCFF = debug.MakeSimpleFont()
	})
	return baseTTF, baseCFF
}

type cmapSpec struct {
	format int // 0 none, 4, 12
	codes  []int
}

// buildFont makes a font whose glyphs have exactly the given boxes and
// (integer) advance widths.
func buildFont(kind string, boxes []funit.Rect16, ws []funit.Int16, cm cmapSpec) *sfnt.Font {
	ttf, cf := bases()
	var f *sfnt.Font
	switch kind {
	case "glyf":
		f = ttf.Clone()
		o := ttf.Outlines.(*glyf.Outlines)
		no := &glyf.Outlines{Tables: o.Tables, Maxp: o.Maxp, Widths: append([]funit.Int16(nil), ws...)}
		for _, b := range boxes {
			if b.IsZero() {
				no.Glyphs = append(no.Glyphs, nil)
			} else {
				no.Glyphs = append(no.Glyphs, &glyf.Glyph{Rect16: b, Data: someSimple})
			}
		}
		f.Outlines = no
		f.Gdef, f.Gsub, f.Gpos = nil, nil, nil
	case "cff":
		f = cf.Clone()
		o := cf.Outlines.(*cff.Outlines)
		no := &cff.Outlines{Private: o.Private, FDSelect: o.FDSelect, Encoding: make([]glyph.ID, 256)}
		for i, b := range boxes {
			name := ".notdef"
			if i > 0 {
				name = "g" + strconv.Itoa(i)
			}
			g := cff.NewGlyph(name, float64(ws[i]))
			if !b.IsZero() {
				// every third glyph is hinted the way hinted CFF glyphs with
				// hint replacement are laid out: stems declared, the command
				// list opening with a hintmask (i%3 == 1) or carrying a
				// cntrmask + hintmask pair before the first moveto, and
				// another mask between two path segments; masks carry no point
				if i%3 == 1 && b.LLy < b.URy && b.LLx < b.URx {
					g.HStem = []float64{float64(b.LLy), float64(b.URy)}
					g.VStem = []float64{float64(b.LLx), float64(b.URx)}
					if i%2 == 0 {
						g.Cmds = append(g.Cmds, cff.GlyphOp{Op: cff.OpCntrMask, Args: []float64{0xC0}})
					}
					g.Cmds = append(g.Cmds, cff.GlyphOp{Op: cff.OpHintMask, Args: []float64{0xF0}})
				}
				g.MoveTo(float64(b.LLx), float64(b.LLy))
				g.LineTo(float64(b.URx), float64(b.LLy))
				if len(g.HStem) > 0 {
					g.Cmds = append(g.Cmds, cff.GlyphOp{Op: cff.OpHintMask, Args: []float64{0x50}})
				}
				g.LineTo(float64(b.URx), float64(b.URy))
				g.LineTo(float64(b.LLx), float64(b.URy))
			}
			no.Glyphs = append(no.Glyphs, g)
		}
		f.Outlines = no
		f.Gdef, f.Gsub, f.Gpos = nil, nil, nil
	default:
		panic("bad font kind")
	}
	n := len(boxes)
	// code points are mapped to glyphs other than .notdef (a mapping to glyph 0
	// is the same as no mapping and does not survive the cmap encoding)
	switch cm.format {
	case 0:
		f.CMapTable = nil
	case 4:
		m := cmap.Format4{}
		for k, c := range cm.codes {
			m[uint16(c)] = glyph.ID(1 + k%(n-1))
		}
		f.CMapTable = nil
		f.InstallCMap(m)
	case 12:
		m := cmap.Format12{}
		for k, c := range cm.codes {
			m[uint32(c)] = glyph.ID(1 + k%(n-1))
		}
		f.CMapTable = nil
		f.InstallCMap(m)
	}
	return f
}

// sfntTables is a reader for the table directory written from the OpenType
// file format description (12-byte header, 16-byte records).
func sfntTables(file []byte) (map[string][]byte, error) {
	if len(file) < 12 {
		return nil, fmt.Errorf("short file")
	}
	n := int(binary.BigEndian.Uint16(file[4:]))
	out := map[string][]byte{}
	for i := 0; i < n; i++ {
		o := 12 + 16*i
		if o+16 > len(file) {
			return nil, fmt.Errorf("short directory")
		}
		off, l := int(binary.BigEndian.Uint32(file[o+8:])), int(binary.BigEndian.Uint32(file[o+12:]))
		if off+l > len(file) {
			return nil, fmt.Errorf("table beyond the end of the file")
		}
		out[string(file[o:o+4])] = file[off : off+l]
	}
	return out, nil
}

// ---------------------------------------------------------------- the case

type derivedObs struct {
	numGlyphs                         int
	bbox                              funit.Rect16
	advMax, minLSB, minRSB, xMaxExt   int
	numLong                           int
	avg, first, last, winAsc, winDesc int
	fixed                             bool
}

func (d derivedObs) sx() vlib.Sx {
	return vlib.L(vlib.Atom("ok"), vlib.Int(d.numGlyphs), sxRect(d.bbox), vlib.Int(d.advMax), vlib.Int(d.minLSB), vlib.Int(d.minRSB),
		vlib.Int(d.xMaxExt), vlib.Int(d.numLong), vlib.Int(d.avg), vlib.Int(d.first), vlib.Int(d.last), vlib.Int(d.winAsc), vlib.Int(d.winDesc), vlib.Bool(d.fixed))
}

func parseDerived(items []vlib.Sx) (kind string, boxes []funit.Rect16, ws []funit.Int16, cm cmapSpec, err error) {
	if len(items) != 4 {
		return "", nil, nil, cm, fmt.Errorf("derived: want 4 arguments")
	}
	if kind, err = vlib.AsAtom(items[0]); err != nil {
		return
	}
	if kind != "glyf" && kind != "cff" {
		return "", nil, nil, cm, fmt.Errorf("derived: kind must be glyf or cff")
	}
	if boxes, err = rectlist(items[1]); err != nil {
		return
	}
	if ws, err = i16list(items[2]); err != nil {
		return
	}
	if len(boxes) != len(ws) || len(boxes) == 0 {
		return "", nil, nil, cm, fmt.Errorf("derived: boxes and widths must have the same positive length")
	}
	if a, ok := items[3].(vlib.Atom); ok {
		if string(a) != "none" {
			return "", nil, nil, cm, fmt.Errorf("derived: bad cmap")
		}
		return
	}
	l, err2 := vlib.AsInts(items[3])
	if err2 != nil || len(l) < 2 || (l[0] != 4 && l[0] != 12) {
		return "", nil, nil, cm, fmt.Errorf("derived: bad cmap")
	}
	cm = cmapSpec{format: l[0], codes: l[1:]}
	if len(boxes) < 2 {
		return "", nil, nil, cm, fmt.Errorf("derived: a cmap needs a glyph besides .notdef")
	}
	for _, c := range cm.codes {
		if c < 0 || (cm.format == 4 && c > 0xFFFF) || c > 0x10FFFF {
			return "", nil, nil, cm, fmt.Errorf("derived: code point out of range")
		}
	}
	return
}

func derivedLine(kind string, boxes []funit.Rect16, ws []funit.Int16, cm cmapSpec) string {
	var c vlib.Sx = vlib.Atom("none")
	if cm.format != 0 {
		c = vlib.Ints(append([]int{cm.format}, cm.codes...))
	}
	return vlib.Line(vlib.Atom("derived"), vlib.Atom(kind), sxRects(boxes), sxI16s(ws), c)
}

func runDerived(items []vlib.Sx) (impl, fail, sig string, err error) {
	kind, boxes, ws, cm, err := parseDerived(items)
	if err != nil {
		return "", "", "", err
	}
	n := len(boxes)
	var f *sfnt.Font
	var file bytes.Buffer
	var werr error
	if p, msg := guard(func() {
		f = buildFont(kind, boxes, ws, cm)
		_, werr = f.Write(&file)
	}); p {
		return "panic", "Font.Write panics: " + msg, "c12-write-panic", nil
	}
	if werr != nil {
		return "err", "Font.Write fails: " + werr.Error(), "c12-write-error", nil
	}
	tabs, terr := sfntTables(file.Bytes())
	if terr != nil {
		return "badfile", "written file: " + terr.Error(), "c12-write-directory", nil
	}
	need := map[string]int{"head": 54, "hhea": 36, "maxp": 6, "OS/2": 78, "post": 32, "hmtx": 2}
	for name, l := range need {
		if len(tabs[name]) < l {
			return "badfile", fmt.Sprintf("written file: table %q has %d bytes", name, len(tabs[name])), "c12-write-directory", nil
		}
	}
	i16 := func(t string, o int) int { return int(int16(binary.BigEndian.Uint16(tabs[t][o:]))) }
	u16 := func(t string, o int) int { return int(binary.BigEndian.Uint16(tabs[t][o:])) }
	obs := derivedObs{
		numGlyphs: u16("maxp", 4),
		bbox:      funit.Rect16{LLx: funit.Int16(i16("head", 36)), LLy: funit.Int16(i16("head", 38)), URx: funit.Int16(i16("head", 40)), URy: funit.Int16(i16("head", 42))},
		advMax:    i16("hhea", 10), minLSB: i16("hhea", 12), minRSB: i16("hhea", 14), xMaxExt: i16("hhea", 16), numLong: u16("hhea", 34),
		avg: i16("OS/2", 2), first: u16("OS/2", 64), last: u16("OS/2", 66), winAsc: i16("OS/2", 74), winDesc: i16("OS/2", 76),
		fixed: binary.BigEndian.Uint32(tabs["post"][12:]) != 0,
	}
	impl = vlib.Str(obs.sx())

	// ---- the definitions, computed directly
	proper := true
	for _, b := range boxes {
		if b.LLx > b.URx || b.LLy > b.URy {
			proper = false
		}
	}
	var want derivedObs
	want.numGlyphs = n
	have := false
	fits := true
	for i, b := range boxes {
		w := int(ws[i])
		if w > want.advMax {
			want.advMax = w
		}
		if b.IsZero() {
			continue
		}
		rsb := w - int(b.URx) // lsb = xMin
		if rsb < -32768 || rsb > 32767 {
			fits = false
		}
		if !have {
			want.bbox, want.minLSB, want.minRSB, want.xMaxExt = b, int(b.LLx), rsb, int(b.URx)
			have = true
			continue
		}
		if b.LLx < want.bbox.LLx {
			want.bbox.LLx = b.LLx
		}
		if b.LLy < want.bbox.LLy {
			want.bbox.LLy = b.LLy
		}
		if b.URx > want.bbox.URx {
			want.bbox.URx = b.URx
		}
		if b.URy > want.bbox.URy {
			want.bbox.URy = b.URy
		}
		if int(b.LLx) < want.minLSB {
			want.minLSB = int(b.LLx)
		}
		if rsb < want.minRSB {
			want.minRSB = rsb
		}
		if int(b.URx) > want.xMaxExt {
			want.xMaxExt = int(b.URx)
		}
	}
	negW := false
	sum, cnt := 0, 0
	fixed := true
	firstW := 0
	for _, w := range ws {
		if w < 0 {
			negW = true
		}
		if w > 0 {
			sum += int(w)
			cnt++
		}
		if w != 0 {
			if firstW == 0 {
				firstW = int(w)
			} else if int(w) != firstW {
				fixed = false
			}
		}
	}
	// average rounded to nearest (exact rational comparison)
	avgOK := true
	if cnt == 0 {
		avgOK = obs.avg == 0
	} else {
		d := new(big.Rat).Sub(big.NewRat(int64(sum), int64(cnt)), big.NewRat(int64(obs.avg), 1))
		avgOK = d.Abs(d).Cmp(big.NewRat(1, 2)) <= 0
	}
	if cm.format != 0 {
		lo, hi := cm.codes[0], cm.codes[0]
		for _, c := range cm.codes {
			if c < lo {
				lo = c
			}
			if c > hi {
				hi = c
			}
		}
		want.first, want.last = min(lo, 0xFFFF), min(hi, 0xFFFF)
	}
	numLong := n
	for numLong > 1 && ws[numLong-1] == ws[numLong-2] {
		numLong--
	}
	type chk struct {
		name      string
		got, want int
		on        bool
	}
	checks := []chk{
		{"maxp.numGlyphs", obs.numGlyphs, n, true},
		{"head.xMin", int(obs.bbox.LLx), int(want.bbox.LLx), proper}, {"head.yMin", int(obs.bbox.LLy), int(want.bbox.LLy), proper},
		{"head.xMax", int(obs.bbox.URx), int(want.bbox.URx), proper}, {"head.yMax", int(obs.bbox.URy), int(want.bbox.URy), proper},
		{"hhea.advanceWidthMax", obs.advMax, want.advMax, !negW},
		{"hhea.minLeftSideBearing", obs.minLSB, want.minLSB, true},
		{"hhea.minRightSideBearing", obs.minRSB, want.minRSB, fits},
		{"hhea.xMaxExtent", obs.xMaxExt, want.xMaxExt, true},
		{"hhea.numberOfHMetrics", obs.numLong, numLong, true},
		{"OS/2.usFirstCharIndex", obs.first, want.first, true}, {"OS/2.usLastCharIndex", obs.last, want.last, true},
		{"OS/2.usWinAscent", obs.winAsc, int(want.bbox.URy), proper}, {"OS/2.usWinDescent", obs.winDesc, int(int16(-want.bbox.LLy)), proper},
	}
	for _, c := range checks {
		if c.on && c.got != c.want {
			return impl, fmt.Sprintf("%s = %d, definition gives %d", c.name, c.got, c.want), "c12-derived:" + c.name, nil
		}
	}
	if !avgOK && !negW {
		return impl, fmt.Sprintf("OS/2.xAvgCharWidth = %d, positive widths sum %d count %d", obs.avg, sum, cnt), "c12-derived:OS/2.xAvgCharWidth", nil
	}
	if obs.fixed != fixed {
		return impl, fmt.Sprintf("post.isFixedPitch = %v, all non-zero widths equal = %v", obs.fixed, fixed), "c12-derived:post.isFixedPitch", nil
	}
	// hmtx carries every width (and xMin as left side bearing), whatever the compression
	hm := tabs["hmtx"]
	if len(hm) != 4*obs.numLong+2*(n-obs.numLong) {
		return impl, fmt.Sprintf("hmtx has %d bytes for %d glyphs, %d long records", len(hm), n, obs.numLong), "c12-derived:hmtx", nil
	}
	for i := 0; i < n; i++ {
		var w, l int16
		if i < obs.numLong {
			w, l = int16(binary.BigEndian.Uint16(hm[4*i:])), int16(binary.BigEndian.Uint16(hm[4*i+2:]))
		} else {
			w = int16(binary.BigEndian.Uint16(hm[4*(obs.numLong-1):]))
			l = int16(binary.BigEndian.Uint16(hm[4*obs.numLong+2*(i-obs.numLong):]))
		}
		if w != int16(ws[i]) || l != int16(boxes[i].LLx) {
			return impl, fmt.Sprintf("hmtx glyph %d: advance %d lsb %d, font has %d and xMin %d", i, w, l, ws[i], boxes[i].LLx), "c12-derived:hmtx", nil
		}
	}

	// ---- an independent reader (golang.org/x/image/font/sfnt) sees the same
	// glyph count, units per em and advance widths in the written file
	if s := crossCheckXImage(file.Bytes(), n, ws, int(binary.BigEndian.Uint16(tabs["head"][18:]))); s != "" {
		return impl, s, "c12-ximage", nil
	}

	// ---- the font's own queries agree with the outlines and with each other
	if s := checkQueries(f, kind, boxes, ws, proper, want.bbox, fixed); s != "" {
		return impl, s, "c12-query", nil
	}
	// ---- and the same holds for the font read back from the written file
	// (a glyf font without any outline has an empty glyf table, which the
	// container does not store: whole-font round trips are property C01)
	if kind == "glyf" && !have {
		return impl, "", "", nil
	}
	var back *sfnt.Font
	var rerr error
	if p, msg := guard(func() { back, rerr = sfnt.Read(bytes.NewReader(file.Bytes())) }); p {
		return impl, "sfnt.Read panics on the written font: " + msg, "c12-reread", nil
	}
	if rerr != nil {
		return impl, "sfnt.Read rejects the written font: " + rerr.Error(), "c12-reread", nil
	}
	if s := checkQueries(back, kind, boxes, ws, proper, want.bbox, fixed); s != "" {
		return impl, "after Write and Read: " + s, "c12-reread", nil
	}
	return impl, "", "", nil
}

// crossCheckXImage parses the written file with golang.org/x/image/font/sfnt.
// A font that reader does not support is not an error of the code under test;
// only a successfully parsed font is compared.
func crossCheckXImage(file []byte, n int, ws []funit.Int16, upem int) (res string) {
	defer func() {
		if e := recover(); e != nil {
			res = "" // the foreign parser is not under test
		}
	}()
	xf, err := xsfnt.Parse(file)
	if err != nil {
		stats["ximage_rejected"]++
		return ""
	}
	stats["ximage_parsed_and_compared"]++
	if xf.NumGlyphs() != n {
		return fmt.Sprintf("x/image reads %d glyphs, the font has %d", xf.NumGlyphs(), n)
	}
	if int(xf.UnitsPerEm()) != upem {
		return fmt.Sprintf("x/image reads unitsPerEm %d, head has %d", xf.UnitsPerEm(), upem)
	}
	var buf xsfnt.Buffer
	step := 1
	if n > 2000 {
		step = n / 500
	}
	for i := 0; i < n; i += step {
		if int64(ws[i])*int64(upem)*64 >= 1<<31 || ws[i] < 0 {
			continue // beyond the 26.6 fixed-point range of that reader
		}
		adv, err := xf.GlyphAdvance(&buf, xsfnt.GlyphIndex(i), fixed.I(upem), font.HintingNone)
		if err != nil {
			return ""
		}
		if adv != fixed.I(int(uint16(ws[i]))) {
			return fmt.Sprintf("x/image reads advance %v for glyph %d, the font has %d", adv, i, ws[i])
		}
	}
	return ""
}

// checkQueries compares Widths, GlyphWidth, GlyphBBox(es), FontBBox,
// IsFixedPitch and the PDF-unit variants with the glyph data (exact rational
// arithmetic for the float results; support only).
func checkQueries(f *sfnt.Font, kind string, boxes []funit.Rect16, ws []funit.Int16, proper bool, union funit.Rect16, fixed bool) (res string) {
	defer func() {
		if e := recover(); e != nil {
			res = fmt.Sprint("a query method panics: ", e)
		}
	}()
	n := len(boxes)
	if f.NumGlyphs() != n {
		return fmt.Sprintf("NumGlyphs() = %d, want %d", f.NumGlyphs(), n)
	}
	widths, wpdf, bb := f.Widths(), f.WidthsPDF(), f.GlyphBBoxes()
	if len(widths) != n || len(wpdf) != n || len(bb) != n {
		return "Widths / WidthsPDF / GlyphBBoxes have the wrong length"
	}
	near := func(got float64, want *big.Rat) bool {
		if math.IsNaN(got) || math.IsInf(got, 0) {
			return false
		}
		d := new(big.Rat).Sub(new(big.Rat).SetFloat64(got), want)
		d.Abs(d)
		tol := new(big.Rat).Mul(new(big.Rat).Abs(want), big.NewRat(1, 1e12))
		tol.Add(tol, big.NewRat(1, 1e15))
		return d.Cmp(tol) <= 0
	}
	for i := 0; i < n; i++ {
		gid := glyph.ID(i)
		if widths[i] != float64(ws[i]) || f.GlyphWidth(gid) != float64(ws[i]) {
			return fmt.Sprintf("glyph %d: Widths()=%g GlyphWidth()=%g, advance is %d", i, widths[i], f.GlyphWidth(gid), ws[i])
		}
		if bb[i] != boxes[i] || f.GlyphBBox(gid) != boxes[i] {
			return fmt.Sprintf("glyph %d: GlyphBBoxes()=%v GlyphBBox()=%v, box is %v", i, bb[i], f.GlyphBBox(gid), boxes[i])
		}
		// PDF units: text space = design units scaled by FontMatrix[0] (CFF) or 1/unitsPerEm (glyf)
		var scale *big.Rat
		if kind == "glyf" {
			scale = big.NewRat(1, int64(f.UnitsPerEm))
		} else {
			scale = new(big.Rat).SetFloat64(f.FontMatrix[0])
		}
		wantW := new(big.Rat).Mul(big.NewRat(int64(ws[i]), 1), scale)
		if !near(wpdf[i], wantW) {
			return fmt.Sprintf("glyph %d: WidthsPDF = %g, want %s", i, wpdf[i], wantW.FloatString(9))
		}
		if kind == "glyf" || (f.FontMatrix[1] == 0 && f.FontMatrix[2] == 0) {
			if got := f.GlyphWidthPDF(gid); !near(got, new(big.Rat).Mul(wantW, big.NewRat(1000, 1))) {
				return fmt.Sprintf("glyph %d: GlyphWidthPDF = %g, WidthsPDF*1000 = %s", i, got, new(big.Rat).Mul(wantW, big.NewRat(1000, 1)).FloatString(6))
			}
		}
	}
	// the name-keyed width map of simple CFF fonts agrees with the per-glyph query
	if kind != "glyf" {
		if mp := f.WidthsMapPDF(); mp != nil {
			if len(mp) != n {
				return fmt.Sprintf("WidthsMapPDF has %d entries for %d glyphs with distinct names", len(mp), n)
			}
			for i := 0; i < n; i++ {
				gid := glyph.ID(i)
				got, ok := mp[f.GlyphName(gid)]
				if !ok || !near(got, new(big.Rat).SetFloat64(f.GlyphWidthPDF(gid))) {
					return fmt.Sprintf("glyph %d (%q): WidthsMapPDF = %g (present=%v), GlyphWidthPDF = %g", i, f.GlyphName(gid), got, ok, f.GlyphWidthPDF(gid))
				}
			}
		} else if o, isCFF := f.Outlines.(*cff.Outlines); isCFF && !o.IsCIDKeyed() {
			return "WidthsMapPDF returns nil for a simple CFF font"
		}
	} else if f.WidthsMapPDF() != nil {
		return "WidthsMapPDF is documented to return nil for fonts without CFF outlines"
	}
	if f.IsFixedPitch() != fixed {
		return fmt.Sprintf("IsFixedPitch() = %v, all non-zero widths equal = %v", f.IsFixedPitch(), fixed)
	}
	if proper {
		if f.FontBBox() != union {
			return fmt.Sprintf("FontBBox() = %v, union of the non-empty glyph boxes = %v", f.FontBBox(), union)
		}
		// FontBBoxPDF is the union of the GlyphBBoxPDF boxes, which are the design boxes scaled
		fb := f.FontBBoxPDF()
		if kind == "glyf" {
			q := big.NewRat(1000, int64(f.UnitsPerEm))
			for k, pair := range [][2]float64{{fb.LLx, float64(union.LLx)}, {fb.LLy, float64(union.LLy)}, {fb.URx, float64(union.URx)}, {fb.URy, float64(union.URy)}} {
				wantV := new(big.Rat).Mul(new(big.Rat).SetFloat64(pair[1]), q)
				if !near(pair[0], wantV) {
					return fmt.Sprintf("FontBBoxPDF component %d = %g, want %s", k, pair[0], wantV.FloatString(6))
				}
			}
		}
	}
	return ""
}

// ---------------------------------------------------------------- generators

func randBoxes(r *vlib.Rand, n int, mode int) []funit.Rect16 {
	boxes := make([]funit.Rect16, n)
	for i := range boxes {
		switch {
		case mode == 0 && r.Chance(1, 3), mode == 3:
			// empty glyph
		case mode == 2:
			x0, y0 := vlib.Pick(r, i16Extremes), vlib.Pick(r, i16Extremes)
			x1, y1 := vlib.Pick(r, i16Extremes), vlib.Pick(r, i16Extremes)
			if x0 > x1 {
				x0, x1 = x1, x0
			}
			if y0 > y1 {
				y0, y1 = y1, y0
			}
			boxes[i] = funit.Rect16{LLx: x0, LLy: y0, URx: x1, URy: y1}
		default:
			x0, y0 := r.Range(-400, 400), r.Range(-400, 400)
			boxes[i] = funit.Rect16{LLx: funit.Int16(x0), LLy: funit.Int16(y0), URx: funit.Int16(x0 + r.Range(0, 1200)), URy: funit.Int16(y0 + r.Range(0, 1200))}
		}
	}
	return boxes
}

func randWidths(r *vlib.Rand, n int, mode int) []funit.Int16 {
	ws := make([]funit.Int16, n)
	c := funit.Int16(r.Range(1, 2000))
	for i := range ws {
		switch mode {
		case 0: // fixed pitch with zero-width glyphs
			if !r.Chance(1, 4) {
				ws[i] = c
			}
		case 1: // proportional, constant tail
			ws[i] = funit.Int16(r.Range(0, 1500))
			if i > n/2 {
				ws[i] = c
			}
		case 2: // extremes
			ws[i] = vlib.Pick(r, []funit.Int16{0, 1, 2, 32766, 32767, 500})
		case 3: // all zero
		case 5: // almost fixed pitch: neighbouring widths differ by one unit
			ws[i] = c + funit.Int16(r.Intn(2))
			if r.Chance(1, 5) {
				ws[i] = 0
			}
		default:
			ws[i] = funit.Int16(r.Range(0, 3000))
		}
	}
	return ws
}

func randCmap(r *vlib.Rand) cmapSpec {
	switch r.Intn(6) {
	case 0:
		return cmapSpec{}
	case 1, 2, 3:
		k := r.Range(1, 12)
		cs := make([]int, k)
		for i := range cs {
			cs[i] = vlib.Pick(r, []int{0, 1, 32, 65, 0xFFFE, 0xFFFF, r.Intn(0x10000)})
		}
		return cmapSpec{4, cs}
	default:
		k := r.Range(1, 12)
		cs := make([]int, k)
		for i := range cs {
			cs[i] = vlib.Pick(r, []int{0, 65, 0xFFFF, 0x10000, 0x1F600, 0x10FFFF, r.Intn(0x110000)})
		}
		return cmapSpec{12, cs}
	}
}

func emitDerived(run *vlib.Run, kind string, boxes []funit.Rect16, ws []funit.Int16, cm cmapSpec, labels ...string) {
	if kind == "cff" {
		// Type 2 charstrings cannot express coordinate steps beyond +-32000
		// (open finding of C05); keep CFF outlines inside +-16000
		cl := func(x funit.Int16) funit.Int16 { return max(-16000, min(16000, x)) }
		for i, b := range boxes {
			boxes[i] = funit.Rect16{LLx: cl(b.LLx), LLy: cl(b.LLy), URx: cl(b.URx), URy: cl(b.URy)}
		}
	}
	empty, nonEmpty := 0, 0
	for _, b := range boxes {
		if b.IsZero() {
			empty++
		} else {
			nonEmpty++
		}
	}
	if len(boxes) < 2 {
		cm = cmapSpec{}
	}
	labels = append(labels, "derived", "derived:"+kind, fmt.Sprintf("derived:cmap%d", cm.format), "derived:n="+sizeClass(len(boxes)))
	emit(run, derivedLine(kind, boxes, ws, cm), empty >= 1 && nonEmpty >= 2, labels...)
}

func genDerived(run *vlib.Run, r *vlib.Rand, tier string) {
	kinds := []string{"glyf", "cff"}
	// small exhaustive part: every empty / non-empty pattern of up to 4 glyphs
	for n := 1; n <= 4; n++ {
		for pat := 0; pat < 1<<n; pat++ {
			boxes := randBoxes(r, n, 1)
			for i := range boxes {
				if pat>>i&1 == 0 {
					boxes[i] = funit.Rect16{}
				}
			}
			emitDerived(run, kinds[pat%2], boxes, randWidths(r, n, r.Intn(6)), randCmap(r), "derived:patterns")
		}
	}
	for k := 0; k < vlib.Count(tier, 150, 4000); k++ {
		n := r.Range(1, 40)
		if r.Chance(1, 10) {
			n = vlib.Pick(r, []int{255, 256, 257, 300})
		}
		bm := vlib.Pick(r, []int{0, 0, 0, 1, 2, 3})
		emitDerived(run, vlib.Pick(r, kinds), randBoxes(r, n, bm), randWidths(r, n, r.Intn(6)), randCmap(r), "derived:random")
	}
	// improper boxes (xMin > xMax) can only be stored in glyf data; outside the
	// property's domain, compared with the model only
	for k := 0; k < vlib.Count(tier, 20, 300); k++ {
		n := r.Range(2, 6)
		boxes := randBoxes(r, n, 0)
		for i := range boxes {
			if r.Chance(1, 2) {
				boxes[i] = funit.Rect16{LLx: funit.Int16(r.Range(-2, 2)), LLy: funit.Int16(r.Range(-1, 1)), URx: funit.Int16(r.Range(-2, 2)), URy: funit.Int16(r.Range(-1, 1))}
			}
		}
		emitDerived(run, "glyf", boxes, randWidths(r, n, 4), randCmap(r), "derived:improper-boxes")
	}
	// the glyph-count limit (glyf only: quick to write)
	counts := []int{65535}
	if tier == "thorough" {
		counts = append(counts, 65534, 32768)
	}
	for _, n := range counts {
		boxes := randBoxes(r, n, 0)
		ws := randWidths(r, n, 1)
		emitDerived(run, "glyf", boxes, ws, cmapSpec{4, []int{65, 0xFFFF}}, "derived:huge")
	}
}

// ---------------------------------------------------------------- head.Version

func runVersion(items []vlib.Sx) (impl, fail, sig string, err error) {
	if len(items) != 1 {
		return "", "", "", fmt.Errorf("ver: want 1 argument")
	}
	x, err := asRange(items[0], 0, math.MaxUint32)
	if err != nil {
		return "", "", "", err
	}
	v := head.Version(x)
	var rv head.Version
	var s string
	if p, msg := guard(func() { rv = v.Round(); s = v.String() }); p {
		return "panic", "Version.Round/String panics: " + msg, "c12-version-panic", nil
	}
	digits := strings.Replace(s, ".", "", 1)
	milli, perr := strconv.ParseUint(digits, 10, 64)
	if perr != nil || len(s) < 5 || s[len(s)-4] != '.' {
		return "badstring", "Version.String() = " + s, "c12-version-string", nil
	}
	impl = vlib.Str(vlib.L(vlib.Atom("ok"), vlib.U64(uint64(rv)), vlib.U64(milli)))
	// String shows the value to the nearest thousandth (exact rational arithmetic)
	d := new(big.Rat).Sub(big.NewRat(int64(x), 65536), big.NewRat(int64(milli), 1000))
	if d.Abs(d).Cmp(big.NewRat(1, 2000)) > 0 {
		return impl, fmt.Sprintf("String() = %s for %d/65536", s, x), "c12-version-string", nil
	}
	if x >= 4294967264 {
		return impl, "", "", nil // Round overflows uint32: outside the domain
	}
	// Round is idempotent, stays within half a thousandth, and is a fixed point of the string round trip
	if rv.Round() != rv {
		return impl, fmt.Sprintf("Round(Round(%d)) = %d, Round = %d", x, rv.Round(), rv), "c12-version-round-idempotent", nil
	}
	d2 := new(big.Rat).Sub(big.NewRat(int64(x), 65536), big.NewRat(int64(rv), 65536))
	if d2.Abs(d2).Cmp(new(big.Rat).Add(big.NewRat(1, 2000), big.NewRat(1, 131072))) > 0 {
		return impl, fmt.Sprintf("Round(%d) = %d is more than half a thousandth away", x, rv), "c12-version-round-distance", nil
	}
	back, perr2 := head.VersionFromString(rv.String())
	if perr2 != nil || back != rv {
		return impl, fmt.Sprintf("VersionFromString(Round(%d).String()) = %d, Round = %d", x, back, rv), "c12-version-string-roundtrip", nil
	}
	// Round removes only what String does not show (the repository's own FuzzVersion property)
	if rv.String() != s {
		return impl, fmt.Sprintf("Version(%d).String() = %s but Round().String() = %s", x, s, rv.String()), "c12-version-round-changes-string", nil
	}
	if fromS, perr3 := head.VersionFromString(s); perr3 != nil || fromS != rv {
		return impl, fmt.Sprintf("Version(%d): Round() = %d but VersionFromString(String()) = %d", x, rv, fromS), "c12-version-round-changes-string", nil
	}
	return impl, "", "", nil
}

func genVersion(run *vlib.Run, r *vlib.Rand, tier string) {
	vs := []uint64{0, 1, 32, 33, 65, 66, 4096, 12288, 20480, 65535, 65536, 65537, 98304, 0x18000, 0x10000 * 1000, 4294967263, 4294967262, 1 << 31}
	for k := uint64(0); k < 40; k++ {
		vs = append(vs, 4096+8192*k) // exact ties of the third decimal
	}
	for _, v := range vs {
		emit(run, vlib.Line(vlib.Atom("ver"), vlib.U64(v)), true, "ver", "ver:boundary")
	}
	for _, v := range []uint64{4294967264, 4294967295} {
		emit(run, "!"+vlib.Line(vlib.Atom("ver"), vlib.U64(v)), true, "ver", "ver:overflow-oracle-only")
	}
	for k := 0; k < vlib.Count(tier, 400, 20000); k++ {
		v := r.Uint64() & 0xFFFFFFFF
		switch r.Intn(3) {
		case 0:
			v &= 0xFFFFF
		case 1:
			v = uint64(r.Intn(200000))*8192/125 + uint64(r.Intn(3)) // near multiples of a thousandth
		}
		if v >= 4294967264 {
			v = 4294967263
		}
		emit(run, vlib.Line(vlib.Atom("ver"), vlib.U64(v)), true, "ver", "ver:random")
	}
	sort.Slice(vs, func(i, j int) bool { return vs[i] < vs[j] })
}
