package c12

// Oracle-only stream "cidbox": the PDF-unit queries of CFF fonts against the
// outlines, in exact rational arithmetic - for simple fonts (one font matrix)
// and for CID-keyed fonts, where glyph space is mapped by the glyph's Font DICT
// matrix FIRST and by the top-level FontMatrix SECOND (Adobe TN5176 and
// PDF 32000 9.7.4.2).  The matrices are chosen so that the order matters
// (translations, shears, anisotropic scales next to the 0.001 scale).
//
//	!cidbox <seed>

import (
	"fmt"
	"math/big"

	"seehuhn.de/go/geom/matrix"
	"seehuhn.de/go/postscript/cid"
	"seehuhn.de/go/postscript/type1"
	"seehuhn.de/go/sfnt/cff"
	"seehuhn.de/go/sfnt/glyph"
	"seehuhn.de/go/sfnt/verifharness/vlib"
)

func init() { runners["cidbox"] = runCidBox }

var cidboxMatrices = []matrix.Matrix{
	{1, 0, 0, 1, 0, 0},
	{0.001, 0, 0, 0.001, 0, 0},
	{1, 0, 0, 1, 50, 0},
	{1, 0, 0.25, 1, 50, -20},
	{0.5, 0, 0, 2, 0, 0},
	{1, 0.125, 0, 1, 0, 0},
	{0.0009765625, 0, 0, 0.0009765625, 0, 0},
	{0.001, 0, 0.0002, 0.001, 0.01, 0},
	{2, 0, 0, 0.5, 7, 3},
	{0, 1, -1, 0, 0, 0},
}

type ratM [6]*big.Rat

func ratOf(m matrix.Matrix) ratM {
	var r ratM
	for i, v := range m {
		r[i] = new(big.Rat).SetFloat64(v)
	}
	return r
}

// apply: (x, y) -> (a x + c y + e, b x + d y + f)
func (m ratM) apply(x, y *big.Rat) (*big.Rat, *big.Rat) {
	mul := func(a, b *big.Rat) *big.Rat { return new(big.Rat).Mul(a, b) }
	add3 := func(a, b, c *big.Rat) *big.Rat { return new(big.Rat).Add(new(big.Rat).Add(a, b), c) }
	return add3(mul(m[0], x), mul(m[2], y), m[4]), add3(mul(m[1], x), mul(m[3], y), m[5])
}

func runCidBox(args []vlib.Sx) (impl, fail, sig string, err error) {
	if len(args) != 1 {
		return "", "", "", fmt.Errorf("cidbox: want 1 argument")
	}
	seed, err := vlib.AsI64(args[0])
	if err != nil {
		return "", "", "", err
	}
	r := vlib.NewRand(uint64(seed))
	_, cf := bases()
	f := cf.Clone()
	base := cf.Outlines.(*cff.Outlines)
	n := r.Range(3, 8)
	isCID := r.Chance(3, 4)
	nFD := 1
	if isCID {
		nFD = r.Range(1, 3)
	}
	o := &cff.Outlines{}
	type box struct{ x0, y0, x1, y1 int }
	boxes := make([]box, n)
	fds := make([]int, n)
	for i := 0; i < n; i++ {
		name := ".notdef"
		if i > 0 {
			name = fmt.Sprintf("g%d", i)
		}
		g := cff.NewGlyph(name, float64(r.Range(0, 1200)))
		if i > 0 || r.Bool() {
			x0, y0 := r.Range(-300, 300), r.Range(-300, 300)
			b := box{x0, y0, x0 + r.Range(1, 900), y0 + r.Range(1, 900)}
			boxes[i] = b
			g.MoveTo(float64(b.x0), float64(b.y0))
			g.LineTo(float64(b.x1), float64(b.y0))
			g.LineTo(float64(b.x1), float64(b.y1))
			g.LineTo(float64(b.x0), float64(b.y1))
		}
		if isCID {
			g.Name = ""
		}
		o.Glyphs = append(o.Glyphs, g)
		fds[i] = r.Intn(nFD)
	}
	for k := 0; k < nFD; k++ {
		o.Private = append(o.Private, &type1.PrivateDict{BlueScale: base.Private[0].BlueScale, BlueShift: base.Private[0].BlueShift, BlueFuzz: base.Private[0].BlueFuzz})
	}
	top := vlib.Pick(r, cidboxMatrices[:9])
	f.FontMatrix = top
	if isCID {
		for k := 0; k < nFD; k++ {
			o.FontMatrices = append(o.FontMatrices, vlib.Pick(r, cidboxMatrices))
		}
		o.FDSelect = func(g glyph.ID) int { return fds[g] }
		o.ROS = &cid.SystemInfo{Registry: "Adobe", Ordering: "Identity", Supplement: 0}
		o.GIDToCID = make([]cid.CID, n)
		for i := range o.GIDToCID {
			o.GIDToCID[i] = cid.CID(i)
		}
	} else {
		o.FDSelect = func(glyph.ID) int { return 0 }
		o.Encoding = make([]glyph.ID, 256)
	}
	f.Outlines = o
	f.CMapTable = nil
	f.Gdef, f.Gsub, f.Gpos = nil, nil, nil

	near := func(got float64, want *big.Rat) bool {
		d := new(big.Rat).Sub(new(big.Rat).SetFloat64(got), want)
		d.Abs(d)
		tol := new(big.Rat).Mul(new(big.Rat).Abs(want), big.NewRat(1, 1e9))
		tol.Add(tol, big.NewRat(1, 1e9))
		return d.Cmp(tol) <= 0
	}
	thousand := big.NewRat(1000, 1)
	var uni [4]*big.Rat
	haveUnion := false
	defer func() {
		if e := recover(); e != nil {
			impl, fail, sig = "panic", fmt.Sprint("a PDF-unit query panics: ", e), "c12-queries"
		}
	}()
	kindS := "simple"
	if isCID {
		kindS = "cid"
	}
	for i := 0; i < n; i++ {
		b := boxes[i]
		got := o.GlyphBBoxPDF(f.FontMatrix, glyph.ID(i))
		if b == (box{}) {
			if !got.IsZero() {
				return kindS, fmt.Sprintf("glyph %d is blank, GlyphBBoxPDF = %v", i, got), "c12-queries-pdf-box", nil
			}
			continue
		}
		var want [4]*big.Rat // LLx LLy URx URy
		first := true
		for _, c := range [][2]int{{b.x0, b.y0}, {b.x1, b.y0}, {b.x1, b.y1}, {b.x0, b.y1}} {
			x, y := big.NewRat(int64(c[0]), 1), big.NewRat(int64(c[1]), 1)
			if isCID {
				x, y = ratOf(o.FontMatrices[fds[i]]).apply(x, y) // Font DICT matrix first
			}
			x, y = ratOf(top).apply(x, y) // then the top-level matrix
			x.Mul(x, thousand)
			y.Mul(y, thousand)
			if first || x.Cmp(want[0]) < 0 {
				want[0] = x
			}
			if first || y.Cmp(want[1]) < 0 {
				want[1] = y
			}
			if first || x.Cmp(want[2]) > 0 {
				want[2] = x
			}
			if first || y.Cmp(want[3]) > 0 {
				want[3] = y
			}
			first = false
		}
		for k, g := range []float64{got.LLx, got.LLy, got.URx, got.URy} {
			if !near(g, want[k]) {
				return kindS, fmt.Sprintf("glyph %d (FD %d): GlyphBBoxPDF = %v, the outline mapped by the Font DICT matrix, then the FontMatrix, then x1000 gives [%s %s %s %s]",
					i, fds[i], got, want[0].FloatString(4), want[1].FloatString(4), want[2].FloatString(4), want[3].FloatString(4)), "c12-queries-pdf-box", nil
			}
		}
		for k := 0; k < 4; k++ {
			if !haveUnion || (k < 2 && want[k].Cmp(uni[k]) < 0) || (k >= 2 && want[k].Cmp(uni[k]) > 0) {
				uni[k] = want[k]
			}
		}
		haveUnion = true
	}
	if haveUnion {
		fb := f.FontBBoxPDF()
		for k, g := range []float64{fb.LLx, fb.LLy, fb.URx, fb.URy} {
			if !near(g, uni[k]) {
				return kindS, fmt.Sprintf("FontBBoxPDF = %v, union of the glyph boxes component %d = %s", fb, k, uni[k].FloatString(4)), "c12-queries-pdf-box", nil
			}
		}
	}
	return kindS, "", "", nil
}

func genCidBox(run *vlib.Run, r *vlib.Rand, tier string) {
	for i, n := 0, vlib.Count(tier, 120, 3000); i < n; i++ {
		emit(run, fmt.Sprintf("!cidbox %d", r.Uint64()>>2), true, "stream:cidbox", "oracle-only")
	}
}
