package c12

import (
	"encoding/binary"
	"fmt"
	"math"
	"reflect"

	"seehuhn.de/go/postscript/funit"

	"seehuhn.de/go/sfnt/hmtx"
	"seehuhn.de/go/sfnt/verifharness/vlib"
)

func init() {
	runners["hmtx-enc"] = runHmtxEnc
	runners["hmtx-dec"] = runHmtxDec
}

// ---------------------------------------------------------------- case syntax

func i16list(x vlib.Sx) ([]funit.Int16, error) {
	if isNil(x) {
		return nil, nil
	}
	v, err := vlib.AsInts(x)
	if err != nil {
		return nil, err
	}
	out := make([]funit.Int16, len(v))
	for i, y := range v {
		if y < -32768 || y > 32767 {
			return nil, fmt.Errorf("value %d outside int16", y)
		}
		out[i] = funit.Int16(y)
	}
	return out, nil
}

func rectlist(x vlib.Sx) ([]funit.Rect16, error) {
	if isNil(x) {
		return nil, nil
	}
	l, err := vlib.AsList(x)
	if err != nil {
		return nil, err
	}
	out := make([]funit.Rect16, len(l))
	for i, y := range l {
		v, err := vlib.AsInts(y)
		if err != nil || len(v) != 4 {
			return nil, fmt.Errorf("bad rect")
		}
		for _, c := range v {
			if c < -32768 || c > 32767 {
				return nil, fmt.Errorf("value %d outside int16", c)
			}
		}
		out[i] = funit.Rect16{LLx: funit.Int16(v[0]), LLy: funit.Int16(v[1]), URx: funit.Int16(v[2]), URy: funit.Int16(v[3])}
	}
	return out, nil
}

func sxI16s(v []funit.Int16) vlib.Sx {
	if v == nil {
		return nilAtom()
	}
	return vlib.Ints(v)
}

func sxRects(v []funit.Rect16) vlib.Sx {
	if v == nil {
		return nilAtom()
	}
	l := make(vlib.List, len(v))
	for i, r := range v {
		l[i] = vlib.L(vlib.Int(int(r.LLx)), vlib.Int(int(r.LLy)), vlib.Int(int(r.URx)), vlib.Int(int(r.URy)))
	}
	return l
}

func sxOptBytes(b []byte) vlib.Sx {
	if b == nil {
		return nilAtom()
	}
	return vlib.Hex(b)
}

func i16arg(x vlib.Sx) (funit.Int16, error) {
	v, err := vlib.AsInt(x)
	if err != nil {
		return 0, err
	}
	if v < -32768 || v > 32767 {
		return 0, fmt.Errorf("value %d outside int16", v)
	}
	return funit.Int16(v), nil
}

// hmtxEncLine renders an encoder case.  rise/run are what fromAngle returns
// for the angle (an input of the model, which does not contain the float code).
func hmtxEncLine(info *hmtx.Info) string {
	rise, run := hmtx.VerifC12FromAngle(info.CaretAngle)
	return vlib.Line(vlib.Atom("hmtx-enc"), sxI16s(info.Widths), sxRects(info.GlyphExtents), sxI16s(info.LSB),
		vlib.Int(int(info.Ascent)), vlib.Int(int(info.Descent)), vlib.Int(int(info.LineGap)), vlib.Int(int(info.CaretOffset)),
		vlib.Int(int(rise)), vlib.Int(int(run)), vlib.U64(math.Float64bits(info.CaretAngle)))
}

func parseHmtxEnc(items []vlib.Sx) (*hmtx.Info, error) {
	if len(items) != 10 {
		return nil, fmt.Errorf("hmtx-enc: want 10 arguments")
	}
	info := &hmtx.Info{}
	var err error
	if info.Widths, err = i16list(items[0]); err != nil {
		return nil, err
	}
	if info.GlyphExtents, err = rectlist(items[1]); err != nil {
		return nil, err
	}
	if info.LSB, err = i16list(items[2]); err != nil {
		return nil, err
	}
	dst := []*funit.Int16{&info.Ascent, &info.Descent, &info.LineGap, &info.CaretOffset}
	for k, d := range dst {
		if *d, err = i16arg(items[3+k]); err != nil {
			return nil, err
		}
	}
	a, err := vlib.AsAtom(items[9])
	if err != nil {
		return nil, err
	}
	var bits uint64
	if _, err := fmt.Sscan(a, &bits); err != nil {
		return nil, err
	}
	info.CaretAngle = math.Float64frombits(bits)
	return info, nil
}

// ---------------------------------------------------------------- Encode

// angleTol bounds the caret angle error of the rise/run approximation with
// denominators up to 32767 (slope error <= 1/(2*maxDenom)).
const angleTol = 2e-5

func angleClose(a, b float64) bool {
	d := math.Mod(a-b, 2*math.Pi)
	if d > math.Pi {
		d -= 2 * math.Pi
	} else if d < -math.Pi {
		d += 2 * math.Pi
	}
	return math.Abs(d) <= angleTol
}

func runHmtxEnc(items []vlib.Sx) (impl, fail, sig string, err error) {
	info, err := parseHmtxEnc(items)
	if err != nil {
		return "", "", "", err
	}
	var hhea, hm []byte
	panicked, _ := guard(func() { hhea, hm = info.Encode() })
	if panicked {
		impl = "panic"
	} else {
		impl = vlib.Str(vlib.L(vlib.Atom("ok"), vlib.Hex(hhea), sxOptBytes(hm)))
	}
	fail, sig = oracleHmtxEnc(info, panicked, hhea, hm)
	return impl, fail, sig, nil
}

// oracleHmtxEnc states the property on the real code's output: no panic on a
// consistent Info, Decode(Encode(info)) = info, numberOfHMetrics minimal, and
// the hhea aggregates equal their OpenType definitions.
func oracleHmtxEnc(info *hmtx.Info, panicked bool, hhea, hm []byte) (string, string) {
	n := -1
	consistent := true
	for _, l := range []int{lenOrNeg(info.Widths != nil, len(info.Widths)), lenOrNeg(info.GlyphExtents != nil, len(info.GlyphExtents)), lenOrNeg(info.LSB != nil, len(info.LSB))} {
		if l < 0 {
			continue
		}
		if n < 0 {
			n = l
		} else if n != l {
			consistent = false
		}
	}
	if !consistent {
		return "", "" // outside the domain (the code documents a panic)
	}
	if panicked {
		return "Encode panics on an Info with consistent lengths", "c12-hmtx-encode-panic"
	}
	if len(hhea) != 36 {
		return fmt.Sprintf("hhea has %d bytes", len(hhea)), "c12-hhea-layout"
	}
	i16 := func(o int) int { return int(int16(binary.BigEndian.Uint16(hhea[o:]))) }
	if binary.BigEndian.Uint32(hhea) != 0x00010000 || i16(4) != int(info.Ascent) || i16(6) != int(info.Descent) ||
		i16(8) != int(info.LineGap) || i16(22) != int(info.CaretOffset) ||
		i16(24) != 0 || i16(26) != 0 || i16(28) != 0 || i16(30) != 0 || i16(32) != 0 {
		return "hhea fixed fields / ascent / descent / lineGap / caretOffset differ from the Info", "c12-hhea-layout"
	}
	// caret slope (support only: float code): the slope written approximates the angle
	rise, run := i16(18), i16(20)
	if !(math.IsNaN(info.CaretAngle) || math.IsInf(info.CaretAngle, 0)) {
		got := math.Atan2(float64(rise), float64(run)) - math.Pi/2
		if !angleClose(got, info.CaretAngle) {
			return fmt.Sprintf("caret slope %d/%d is angle %g, Info has %g", rise, run, got, info.CaretAngle), "c12-caret-slope"
		}
	}

	lsbs := info.LSB
	if lsbs == nil && info.GlyphExtents != nil {
		lsbs = make([]funit.Int16, len(info.GlyphExtents))
		for i, e := range info.GlyphExtents {
			lsbs[i] = e.LLx
		}
	}

	// --- aggregates against the definitions, in plain int arithmetic
	nonEmpty := func(i int) bool {
		if info.GlyphExtents == nil {
			return true
		}
		e := info.GlyphExtents[i]
		return !(e.LLx == 0 && e.LLy == 0 && e.URx == 0 && e.URy == 0)
	}
	if info.Widths != nil {
		max, neg := 0, false
		for _, w := range info.Widths {
			if w < 0 {
				neg = true
			}
			if int(w) > max {
				max = int(w)
			}
		}
		if !neg && i16(10) != max {
			return fmt.Sprintf("advanceWidthMax %d, definition %d", i16(10), max), "c12-hhea-advmax"
		}
	}
	if lsbs != nil {
		min, have := 0, false
		for i, l := range lsbs {
			if nonEmpty(i) && (!have || int(l) < min) {
				min, have = int(l), true
			}
		}
		if i16(12) != min {
			return fmt.Sprintf("minLeftSideBearing %d, definition %d", i16(12), min), "c12-hhea-minlsb"
		}
	}
	if info.GlyphExtents != nil {
		minR, maxE, have, fits := 0, 0, false, true
		for i, e := range info.GlyphExtents {
			if !nonEmpty(i) {
				continue
			}
			ext := int(lsbs[i]) + int(e.URx) - int(e.LLx)
			rsb := 0
			if info.Widths != nil {
				rsb = int(info.Widths[i]) - ext
			}
			if ext < -32768 || ext > 32767 || rsb < -32768 || rsb > 32767 {
				fits = false
			}
			if !have || rsb < minR {
				minR = rsb
			}
			if !have || ext > maxE {
				maxE = ext
			}
			have = true
		}
		if fits {
			if info.Widths != nil && i16(14) != minR {
				return fmt.Sprintf("minRightSideBearing %d, definition min(aw-(lsb+xMax-xMin)) = %d", i16(14), minR), "c12-hhea-minrsb"
			}
			if i16(16) != maxE {
				return fmt.Sprintf("xMaxExtent %d, definition max(lsb+xMax-xMin) = %d", i16(16), maxE), "c12-hhea-xmaxextent"
			}
		}
	}

	if info.Widths == nil || lsbs == nil {
		if hm != nil {
			return "hmtx data without widths or side bearings", "c12-hmtx-layout"
		}
		return "", ""
	}
	if n == 0 || n > 65535 {
		return "", "" // glyph counts 1..65535
	}

	// --- numberOfHMetrics: minimal, and the table has the matching size
	numLong := int(binary.BigEndian.Uint16(hhea[34:]))
	if numLong < 1 || numLong > n {
		return fmt.Sprintf("numberOfHMetrics %d with %d glyphs", numLong, n), "c12-hmtx-numlong"
	}
	for i := numLong; i < n; i++ {
		if info.Widths[i] != info.Widths[numLong-1] {
			return fmt.Sprintf("numberOfHMetrics %d drops width[%d]", numLong, i), "c12-hmtx-numlong"
		}
	}
	if numLong > 1 && info.Widths[numLong-2] == info.Widths[numLong-1] {
		return fmt.Sprintf("numberOfHMetrics %d is not minimal", numLong), "c12-hmtx-numlong"
	}
	if len(hm) != 4*numLong+2*(n-numLong) {
		return fmt.Sprintf("hmtx has %d bytes for %d glyphs, %d long", len(hm), n, numLong), "c12-hmtx-layout"
	}

	// --- round trip through the real decoder
	var back *hmtx.Info
	var derr error
	if p, msg := guard(func() { back, derr = hmtx.Decode(hhea, hm) }); p {
		return "Decode panics on Encode's output: " + msg, "c12-hmtx-decode-panic"
	}
	if derr != nil {
		return "Decode rejects Encode's output: " + derr.Error(), "c12-hmtx-roundtrip"
	}
	if !reflect.DeepEqual(back.Widths, info.Widths) || !reflect.DeepEqual(back.LSB, lsbs) {
		return "Decode(Encode(info)) has different widths or side bearings", "c12-hmtx-roundtrip"
	}
	if back.Ascent != info.Ascent || back.Descent != info.Descent || back.LineGap != info.LineGap || back.CaretOffset != info.CaretOffset {
		return "Decode(Encode(info)) has different ascent/descent/lineGap/caretOffset", "c12-hmtx-roundtrip"
	}
	if !(math.IsNaN(info.CaretAngle) || math.IsInf(info.CaretAngle, 0)) && !angleClose(back.CaretAngle, info.CaretAngle) {
		return fmt.Sprintf("caret angle %g comes back as %g", info.CaretAngle, back.CaretAngle), "c12-caret-slope"
	}
	// the decoded Info is a fixed point of Encode/Decode, caret slope included
	var hhea2, hm2 []byte
	if p, msg := guard(func() { hhea2, hm2 = back.Encode() }); p {
		return "Encode panics on a decoded Info: " + msg, "c12-hmtx-encode-panic"
	}
	if string(hm2) != string(hm) {
		return "re-encoding the decoded Info changes hmtx", "c12-hmtx-roundtrip"
	}
	r2, u2 := int(int16(binary.BigEndian.Uint16(hhea2[18:]))), int(int16(binary.BigEndian.Uint16(hhea2[20:])))
	if r2*run != u2*rise || r2*rise < 0 || u2*run < 0 {
		return fmt.Sprintf("caret slope %d/%d re-encodes as %d/%d", rise, run, r2, u2), "c12-caret-slope"
	}
	return "", ""
}

func lenOrNeg(present bool, l int) int {
	if !present {
		return -1
	}
	return l
}

// ---------------------------------------------------------------- Decode

func runHmtxDec(items []vlib.Sx) (impl, fail, sig string, err error) {
	if len(items) != 2 {
		return "", "", "", fmt.Errorf("hmtx-dec: want 2 arguments")
	}
	hhea, err := vlib.AsBytes(items[0])
	if err != nil {
		return "", "", "", err
	}
	var hm []byte
	if !isNil(items[1]) {
		if hm, err = vlib.AsBytes(items[1]); err != nil {
			return "", "", "", err
		}
		if hm == nil {
			hm = []byte{}
		}
	}
	var info *hmtx.Info
	var derr error
	panicked, msg := guard(func() { info, derr = hmtx.Decode(hhea, hm) })
	switch {
	case panicked:
		return "panic", "Decode panics: " + msg, "c12-hmtx-decode-panic", nil
	case derr != nil:
		impl = "err"
	default:
		impl = vlib.Str(vlib.L(vlib.Atom("ok"), vlib.Int(int(info.Ascent)), vlib.Int(int(info.Descent)), vlib.Int(int(info.LineGap)),
			vlib.Int(int(info.CaretOffset)), sxI16s(info.Widths), sxI16s(info.LSB)))
	}

	// reference reader written from the hhea/hmtx format description
	refOK := len(hhea) >= 36 && binary.BigEndian.Uint32(hhea) == 0x00010000 && binary.BigEndian.Uint16(hhea[32:]) == 0
	var rw, rl []funit.Int16
	if refOK && hm != nil {
		numLong := int(binary.BigEndian.Uint16(hhea[34:]))
		rest := len(hm) - 4*numLong
		if rest < 0 || rest%2 != 0 {
			refOK = false
		} else {
			for i := 0; i < numLong+rest/2; i++ {
				if i < numLong {
					rw = append(rw, funit.Int16(binary.BigEndian.Uint16(hm[4*i:])))
					rl = append(rl, funit.Int16(binary.BigEndian.Uint16(hm[4*i+2:])))
				} else {
					var w funit.Int16
					if numLong > 0 {
						w = rw[numLong-1]
					}
					rw = append(rw, w)
					rl = append(rl, funit.Int16(binary.BigEndian.Uint16(hm[4*numLong+2*(i-numLong):])))
				}
			}
		}
	}
	if refOK != (derr == nil) {
		return impl, fmt.Sprintf("Decode error=%v, reference reader accepts=%v", derr, refOK), "c12-hmtx-decode-accept", nil
	}
	if derr != nil {
		return impl, "", "", nil
	}
	if !reflect.DeepEqual(info.Widths, rw) || !reflect.DeepEqual(info.LSB, rl) {
		return impl, "decoded widths / side bearings differ from the reference reader", "c12-hmtx-decode-values", nil
	}
	i16 := func(o int) funit.Int16 { return funit.Int16(binary.BigEndian.Uint16(hhea[o:])) }
	if info.Ascent != i16(4) || info.Descent != i16(6) || info.LineGap != i16(8) || info.CaretOffset != i16(22) {
		return impl, "decoded ascent/descent/lineGap/caretOffset differ from the bytes", "c12-hmtx-decode-values", nil
	}
	// support: caret angle matches the stored slope (-32768 is read as -32767)
	rise, run := float64(int16(i16(18))), float64(int16(i16(20)))
	if rise == -32768 {
		rise = -32767
	}
	if run == -32768 {
		run = -32767
	}
	if !angleClose(info.CaretAngle, math.Atan2(rise, run)-math.Pi/2) {
		return impl, "decoded caret angle does not match the slope", "c12-caret-slope", nil
	}
	if info.Widths != nil && len(info.Widths) <= 65535 {
		// decoded Infos are fixed points
		var h2, m2 []byte
		if p, msg := guard(func() { h2, m2 = info.Encode() }); p {
			return impl, "Encode panics on a decoded Info: " + msg, "c12-hmtx-encode-panic", nil
		}
		back, err := hmtx.Decode(h2, m2)
		if err != nil || !reflect.DeepEqual(back.Widths, info.Widths) || !reflect.DeepEqual(back.LSB, info.LSB) {
			return impl, "Decode(Encode(decoded)) differs", "c12-hmtx-roundtrip", nil
		}
	}
	return impl, "", "", nil
}

// ---------------------------------------------------------------- generators

var i16Extremes = []funit.Int16{-32768, -32767, -1, 0, 1, 255, 256, 1000, 32766, 32767}

func randI16(r *vlib.Rand) funit.Int16 {
	switch r.Intn(4) {
	case 0:
		return vlib.Pick(r, i16Extremes)
	case 1:
		return funit.Int16(r.Range(-32768, 32767))
	default:
		return funit.Int16(r.Range(-200, 1200))
	}
}

func randWidth(r *vlib.Rand) funit.Int16 {
	switch r.Intn(6) {
	case 0:
		return vlib.Pick(r, []funit.Int16{0, 1, 32767, 500, 600})
	case 1:
		return randI16(r)
	default:
		return funit.Int16(r.Range(0, 2000))
	}
}

// randRect returns a glyph box; zero (empty glyph) with probability 1/4.
func randRect(r *vlib.Rand, extreme bool) funit.Rect16 {
	if r.Chance(1, 4) {
		return funit.Rect16{}
	}
	if extreme && r.Chance(1, 3) {
		return funit.Rect16{LLx: vlib.Pick(r, i16Extremes), LLy: vlib.Pick(r, i16Extremes), URx: vlib.Pick(r, i16Extremes), URy: vlib.Pick(r, i16Extremes)}
	}
	x0, y0 := r.Range(-300, 300), r.Range(-300, 300)
	return funit.Rect16{LLx: funit.Int16(x0), LLy: funit.Int16(y0), URx: funit.Int16(x0 + r.Range(0, 1500)), URy: funit.Int16(y0 + r.Range(0, 1500))}
}

// widthsWithTail returns n widths whose constant tail has exactly the length
// tail (1 <= tail <= n).
func widthsWithTail(r *vlib.Rand, n, tail int) []funit.Int16 {
	w := make([]funit.Int16, n)
	c := randWidth(r)
	for i := n - tail; i < n; i++ {
		w[i] = c
	}
	prev := c
	for i := n - tail - 1; i >= 0; i-- {
		x := randWidth(r)
		if i == n-tail-1 || r.Chance(1, 2) {
			for x == prev {
				x = randWidth(r)
			}
		}
		w[i] = x
		prev = x
	}
	return w
}

var caretPairs = [][2]int16{{1, 0}, {-1, 0}, {0, 1}, {0, -1}, {1, 1}, {5, 1}, {1000, 176}, {2048, 361}, {32767, 1}, {1, 32767},
	{-32767, 1}, {32767, 32766}, {-3, -7}, {3, -7}, {100, 17}, {20, -3}}

func randAngle(r *vlib.Rand) float64 {
	switch r.Intn(5) {
	case 0:
		return 0
	case 1:
		p := vlib.Pick(r, caretPairs)
		return hmtx.VerifC12ToAngle(p[0], p[1])
	case 2:
		return hmtx.VerifC12ToAngle(int16(r.Range(-32767, 32767)), int16(r.Range(-32767, 32767)))
	case 3:
		return -float64(r.Range(0, 4000)) / 100 / 180 * math.Pi // italic angles 0..40 degrees
	default:
		return (float64(r.Intn(2000001))/1000000 - 1) * math.Pi
	}
}

// mkHmtxInfo builds an Info around the given widths.  mode: 0 LSB only,
// 1 GlyphExtents only (LSB derived), 2 both with LSB = xMin on non-empty
// glyphs, 3 both with unrelated LSB.
func mkHmtxInfo(r *vlib.Rand, w []funit.Int16, mode int, extreme bool) *hmtx.Info {
	n := len(w)
	info := &hmtx.Info{Widths: w, Ascent: randI16(r), Descent: randI16(r), LineGap: randI16(r), CaretOffset: randI16(r), CaretAngle: randAngle(r)}
	if mode >= 1 {
		info.GlyphExtents = make([]funit.Rect16, n)
		for i := range info.GlyphExtents {
			info.GlyphExtents[i] = randRect(r, extreme)
		}
	}
	if mode != 1 {
		info.LSB = make([]funit.Int16, n)
		for i := range info.LSB {
			if mode == 2 {
				info.LSB[i] = info.GlyphExtents[i].LLx
			} else if extreme {
				info.LSB[i] = randI16(r)
			} else {
				info.LSB[i] = funit.Int16(r.Range(-300, 300))
			}
		}
	}
	return info
}

func emitHmtxEnc(run *vlib.Run, info *hmtx.Info, labels ...string) {
	n := len(info.Widths)
	numLong := n
	for numLong > 1 && info.Widths[numLong-1] == info.Widths[numLong-2] {
		numLong--
	}
	nt := n >= 3 && n-numLong >= 1
	labels = append(labels, "hmtx-enc", "hmtx-enc:n="+sizeClass(n))
	if n > 0 {
		labels = append(labels, "hmtx-enc:tail="+sizeClass(n-numLong+1))
	}
	emit(run, hmtxEncLine(info), nt, labels...)
}

func sizeClass(n int) string {
	switch {
	case n <= 8:
		return fmt.Sprint(n)
	case n < 256:
		return "9..255"
	case n < 65535:
		return "256..65534"
	default:
		return fmt.Sprint(n)
	}
}

func emitHmtxDec(run *vlib.Run, hhea, hm []byte, labels ...string) {
	line := vlib.Line(vlib.Atom("hmtx-dec"), vlib.Hex(hhea), sxOptBytes(hm))
	impl, fail, sig, err := runLine(line)
	if err != nil {
		panic(err)
	}
	labels = append(labels, "hmtx-dec", "hmtx-dec:"+obsClass(impl))
	nt := obsClass(impl) == "ok" && len(hm) >= 6
	idx := run.Add(line, impl, nt, labels...)
	if fail != "" {
		run.Fail(idx, line, fail, sig)
	}
}

func obsClass(impl string) string {
	switch {
	case impl == "err" || impl == "panic":
		return impl
	default:
		return "ok"
	}
}

func genHmtx(run *vlib.Run, r *vlib.Rand, tier string) {
	var encoded [][2][]byte // some encoder outputs to mutate for the decoder stream

	keep := func(info *hmtx.Info) {
		if len(info.Widths) > 300 {
			return
		}
		var h, m []byte
		if p, _ := guard(func() { h, m = info.Encode() }); !p && m != nil {
			encoded = append(encoded, [2][]byte{h, m})
		}
	}

	// (a) exhaustive: every width pattern over {a,b} for short vectors covers
	// every length of constant tail and every position of the last change
	maxN := vlib.Count(tier, 6, 9)
	for n := 1; n <= maxN; n++ {
		for pat := 0; pat < 1<<n; pat++ {
			w := make([]funit.Int16, n)
			for i := range w {
				if pat>>i&1 == 1 {
					w[i] = 600
				} else {
					w[i] = 500
				}
			}
			info := mkHmtxInfo(r, w, pat%4, false)
			emitHmtxEnc(run, info, "hmtx-enc:exhaustive")
			if pat%7 == 0 {
				keep(info)
			}
		}
	}

	// (b) every tail length for a few moderate sizes, random values, all modes
	sizes := []int{1, 2, 3, 7, 16, 255, 256, 257}
	if tier == "thorough" {
		sizes = append(sizes, 1000, 4095, 4096)
	}
	for _, n := range sizes {
		step := 1
		if n > 40 {
			step = n / 13
		}
		for tail := 1; tail <= n; tail += step {
			info := mkHmtxInfo(r, widthsWithTail(r, n, tail), r.Intn(4), r.Chance(1, 3))
			emitHmtxEnc(run, info, "hmtx-enc:tails")
			keep(info)
		}
		info := mkHmtxInfo(r, widthsWithTail(r, n, n), r.Intn(4), false)
		emitHmtxEnc(run, info, "hmtx-enc:tails")
	}

	// (c) signed extremes everywhere
	for k := 0; k < vlib.Count(tier, 150, 3000); k++ {
		n := r.Range(1, 12)
		w := make([]funit.Int16, n)
		for i := range w {
			w[i] = vlib.Pick(r, i16Extremes)
		}
		info := mkHmtxInfo(r, w, r.Intn(4), true)
		emitHmtxEnc(run, info, "hmtx-enc:extremes")
		keep(info)
	}

	// (d) random
	for k := 0; k < vlib.Count(tier, 300, 6000); k++ {
		n := r.Range(1, 60)
		info := mkHmtxInfo(r, widthsWithTail(r, n, r.Range(1, n)), r.Intn(4), r.Chance(1, 4))
		emitHmtxEnc(run, info, "hmtx-enc:random")
		if k%10 == 0 {
			keep(info)
		}
	}

	// (e) nil / empty combinations and inconsistent lengths (documented panics)
	for k := 0; k < vlib.Count(tier, 80, 800); k++ {
		n := r.Range(0, 5)
		info := mkHmtxInfo(r, widthsWithTail(r, n+1, 1)[:n], 3, false)
		switch r.Intn(8) {
		case 0:
			info.Widths = nil
		case 1:
			info.LSB = nil
		case 2:
			info.GlyphExtents = nil
		case 3:
			info.Widths, info.LSB = nil, nil
		case 4:
			info.LSB, info.GlyphExtents = nil, nil
		case 5:
			info.LSB = append(info.LSB, 7)
		case 6:
			info.GlyphExtents = append(info.GlyphExtents, randRect(r, false))
		case 7:
			info.Widths = append(info.Widths, 9)
		}
		emitHmtxEnc(run, info, "hmtx-enc:nil-or-mismatch")
	}

	// (f) the glyph-count limits: 65535 glyphs (and 65536, where uint16(numLong)
	// wraps: outside the property's domain, compared with the model only)
	big := []struct{ n, tail int }{{65535, 1}, {65535, 65535}, {65535, 30000}}
	if tier == "thorough" {
		big = append(big, struct{ n, tail int }{65535, 2}, struct{ n, tail int }{65534, 1}, struct{ n, tail int }{65536, 1}, struct{ n, tail int }{65536, 65536}, struct{ n, tail int }{65536, 2})
	} else {
		big = append(big, struct{ n, tail int }{65536, 1})
	}
	for _, b := range big {
		w := make([]funit.Int16, b.n)
		for i := range w {
			if i >= b.n-b.tail {
				w[i] = 777
			} else {
				w[i] = funit.Int16(i % 700) // neighbours differ
			}
		}
		info := mkHmtxInfo(r, w, 1+r.Intn(2), false)
		emitHmtxEnc(run, info, "hmtx-enc:huge")
	}

	// ---- decoder stream
	hheaOf := func(numLong int) []byte {
		h := make([]byte, 36)
		binary.BigEndian.PutUint32(h, 0x00010000)
		for o := 4; o < 24; o += 2 {
			binary.BigEndian.PutUint16(h[o:], uint16(randI16(r)))
		}
		binary.BigEndian.PutUint16(h[34:], uint16(numLong))
		return h
	}
	// every hmtx length 0..14 against every numberOfHMetrics 0..4
	for l := 0; l <= vlib.Count(tier, 14, 22); l++ {
		for nl := 0; nl <= 4; nl++ {
			emitHmtxDec(run, hheaOf(nl), r.Bytes(l), "hmtx-dec:lengths")
		}
	}
	emitHmtxDec(run, hheaOf(0), nil, "hmtx-dec:nil")
	emitHmtxDec(run, hheaOf(3), nil, "hmtx-dec:nil")
	emitHmtxDec(run, hheaOf(65535), r.Bytes(40), "hmtx-dec:lengths")
	for _, e := range encoded {
		h, m := e[0], e[1]
		emitHmtxDec(run, h, m, "hmtx-dec:valid")
		switch r.Intn(9) {
		case 0: // truncate hmtx
			emitHmtxDec(run, h, m[:r.Intn(len(m)+1)], "hmtx-dec:truncated")
		case 1: // truncate hhea
			emitHmtxDec(run, h[:r.Intn(36)], m, "hmtx-dec:hhea-short")
		case 2: // longer hhea
			emitHmtxDec(run, append(append([]byte(nil), h...), r.Bytes(r.Range(1, 6))...), m, "hmtx-dec:hhea-long")
		case 3, 4: // numberOfHMetrics changed
			h2 := append([]byte(nil), h...)
			nl := int(binary.BigEndian.Uint16(h[34:]))
			binary.BigEndian.PutUint16(h2[34:], uint16(vlib.Pick(r, []int{0, 1, nl - 1, nl + 1, len(m) / 4, len(m)/4 + 1, 65535})))
			emitHmtxDec(run, h2, m, "hmtx-dec:numlong-mutated")
		case 5: // version / metricDataFormat
			h2 := append([]byte(nil), h...)
			if r.Bool() {
				h2[r.Intn(4)] ^= byte(1 << r.Intn(8))
			} else {
				h2[32+r.Intn(2)] ^= byte(1 << r.Intn(8))
			}
			emitHmtxDec(run, h2, m, "hmtx-dec:version-mutated")
		case 6: // one byte of hmtx changed
			m2 := append([]byte(nil), m...)
			m2[r.Intn(len(m2))] ^= byte(1 << r.Intn(8))
			emitHmtxDec(run, h, m2, "hmtx-dec:byte-mutated")
		case 7: // extended by a few bytes
			emitHmtxDec(run, h, append(append([]byte(nil), m...), r.Bytes(r.Range(1, 5))...), "hmtx-dec:extended")
		case 8: // any byte of hhea changed
			h2 := append([]byte(nil), h...)
			h2[r.Intn(36)] = byte(r.Intn(256))
			emitHmtxDec(run, h2, m, "hmtx-dec:hhea-mutated")
		}
	}
	for k := 0; k < vlib.Count(tier, 100, 3000); k++ {
		emitHmtxDec(run, hheaOf(r.Intn(6)), r.Bytes(r.Intn(40)), "hmtx-dec:random")
		if k%5 == 0 {
			emitHmtxDec(run, r.Bytes(r.Range(30, 40)), r.Bytes(r.Intn(20)), "hmtx-dec:random-hhea")
		}
	}
}
