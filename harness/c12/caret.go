package c12

import (
	"fmt"
	"math"
	"math/big"

	"seehuhn.de/go/sfnt/hmtx"
	"seehuhn.de/go/sfnt/verifharness/vlib"
)

// Support checks for the float code behind the caret slope (not modelled in
// Coq): exact math/big comparisons on the real code only.
//
//	bra bits N        bestRationalApproximation(x, N): |p| <= N, 0 < q <= N and no
//	                  fraction with a denominator the function may use is closer
//	caret rise run    the slope read from hhea comes back as the same direction
//	                  after toAngle / fromAngle (reduced to lowest terms)

func init() {
	runners["bra"] = runBRA
	runners["caret"] = runCaret
}

func runBRA(items []vlib.Sx) (impl, fail, sig string, err error) {
	if len(items) != 2 {
		return "", "", "", fmt.Errorf("bra: want 2 arguments")
	}
	bits, err := asU64(items[0])
	if err != nil {
		return "", "", "", err
	}
	n, err := asRange(items[1], 1, 32767)
	if err != nil {
		return "", "", "", err
	}
	x := math.Float64frombits(bits)
	if math.IsNaN(x) || math.IsInf(x, 0) {
		return "", "", "", fmt.Errorf("bra: not a finite number")
	}
	var p, q int
	if pk, msg := guard(func() { p, q = hmtx.VerifC12BestRationalApproximation(x, int(n)) }); pk {
		return "panic", "bestRationalApproximation panics: " + msg, "c12-bra-panic", nil
	}
	impl = "ok"
	N := int(n)
	ax := math.Abs(x)
	if ax < 0.5/float64(N) {
		// too small: the function answers 0/±1
		if p != 0 || (q != 1 && q != -1) {
			return impl, fmt.Sprintf("bra(%g,%d) = %d/%d, want 0", x, N, p, q), "c12-bra", nil
		}
		return impl, "", "", nil
	}
	if q <= 0 || q > N || p > N || p < -N {
		return impl, fmt.Sprintf("bra(%g,%d) = %d/%d outside the bounds", x, N, p, q), "c12-bra", nil
	}
	if (x < 0) != (p < 0) && p != 0 {
		return impl, fmt.Sprintf("bra(%g,%d) = %d/%d has the wrong sign", x, N, p, q), "c12-bra", nil
	}
	if ax > float64(N)-0.5 {
		return impl, "", "", nil // clamped to ±N/1
	}
	// no admissible fraction is closer (exact arithmetic; float slack 1e-9 relative)
	rx := new(big.Rat).SetFloat64(ax)
	got := new(big.Rat).Sub(big.NewRat(int64(abs(p)), int64(q)), rx)
	got.Abs(got)
	maxDenom := N
	if ax > 1 {
		maxDenom = int(math.Floor((float64(N) + 0.5) / ax))
	}
	slack := new(big.Rat).Mul(rx, big.NewRat(1, 1e9))
	for d := 1; d <= maxDenom && d <= 400; d++ {
		num := int64(math.Round(ax * float64(d)))
		if num > int64(N) {
			continue
		}
		c := new(big.Rat).Sub(big.NewRat(num, int64(d)), rx)
		c.Abs(c)
		c.Add(c, slack)
		if c.Cmp(got) < 0 {
			return impl, fmt.Sprintf("bra(%g,%d) = %d/%d but %d/%d is closer", x, N, p, q, num, d), "c12-bra", nil
		}
	}
	return impl, "", "", nil
}

func abs(x int) int {
	if x < 0 {
		return -x
	}
	return x
}

func gcd(a, b int) int {
	a, b = abs(a), abs(b)
	for b != 0 {
		a, b = b, a%b
	}
	return a
}

func runCaret(items []vlib.Sx) (impl, fail, sig string, err error) {
	if len(items) != 2 {
		return "", "", "", fmt.Errorf("caret: want 2 arguments")
	}
	r0, err := asRange(items[0], -32767, 32767)
	if err != nil {
		return "", "", "", err
	}
	u0, err := asRange(items[1], -32767, 32767)
	if err != nil {
		return "", "", "", err
	}
	if r0 == 0 && u0 == 0 {
		return "", "", "", fmt.Errorf("caret: 0/0 is not a slope")
	}
	var rise, run int16
	if pk, msg := guard(func() { rise, run = hmtx.VerifC12FromAngle(hmtx.VerifC12ToAngle(int16(r0), int16(u0))) }); pk {
		return "panic", "toAngle/fromAngle panics: " + msg, "c12-caret-panic", nil
	}
	impl = "ok"
	g := gcd(int(r0), int(u0))
	wr, wu := int(r0)/g, int(u0)/g
	if int(rise) != wr || int(run) != wu {
		return impl, fmt.Sprintf("caret slope %d/%d comes back as %d/%d, lowest terms are %d/%d", r0, u0, rise, run, wr, wu), "c12-caret-slope", nil
	}
	return impl, "", "", nil
}

func genCaret(run *vlib.Run, r *vlib.Rand, tier string) {
	for k := 0; k < vlib.Count(tier, 150, 3000); k++ {
		var x float64
		switch r.Intn(4) {
		case 0:
			x = float64(r.Range(-2000, 2000)) / float64(r.Range(1, 300))
		case 1:
			x = (float64(r.Intn(1<<20))/float64(1<<20) - 0.5) * 4
		case 2:
			x = math.Tan((float64(r.Intn(1800))/10 - 90) / 180 * math.Pi * 0.999)
		default:
			x = float64(r.Range(-40000, 40000)) + float64(r.Intn(100))/100
		}
		n := vlib.Pick(r, []int{1, 2, 7, 50, 300, 32767})
		emit(run, "!"+vlib.Line(vlib.Atom("bra"), vlib.U64(math.Float64bits(x)), vlib.Int(n)), true, "bra")
	}
	for _, p := range caretPairs {
		emit(run, "!"+vlib.Line(vlib.Atom("caret"), vlib.Int(int(p[0])), vlib.Int(int(p[1]))), true, "caret")
	}
	// the signed extremes of the slope fields: rise or run at +-32767, +-32766
	// against small, medium and near-extreme partners (the denominator bound of
	// the rational approximation is tight exactly there)
	ext := []int{32767, -32767, 32766, -32766}
	for k := 0; k < vlib.Count(tier, 240, 4000); k++ {
		e := vlib.Pick(r, ext)
		var o int
		switch r.Intn(4) {
		case 0:
			o = r.Range(-40, 40)
		case 1:
			o = r.Range(-2000, 2000)
		case 2:
			o = vlib.Pick(r, []int{1, -1}) * (32767 - r.Intn(40))
		default:
			o = r.Range(-32767, 32767)
		}
		a, b := e, o
		if r.Intn(3) == 0 {
			a, b = o, e
		}
		if a == 0 && b == 0 {
			b = 1
		}
		emit(run, "!"+vlib.Line(vlib.Atom("caret"), vlib.Int(a), vlib.Int(b)), true, "caret", "caret:extreme")
	}
	for k := 0; k < vlib.Count(tier, 200, 5000); k++ {
		a, b := r.Range(-32767, 32767), r.Range(-32767, 32767)
		if r.Bool() {
			a, b = r.Range(-60, 60), r.Range(-60, 60)
		}
		if a == 0 && b == 0 {
			a = 1
		}
		emit(run, "!"+vlib.Line(vlib.Atom("caret"), vlib.Int(a), vlib.Int(b)), true, "caret")
	}
}
