package c08b

import (
	"errors"
	"fmt"
	"sort"

	"seehuhn.de/go/postscript/funit"
	"seehuhn.de/go/sfnt/glyph"
	"seehuhn.de/go/sfnt/opentype/anchor"
	"seehuhn.de/go/sfnt/opentype/gtab"
	"seehuhn.de/go/sfnt/opentype/markarray"
	"seehuhn.de/go/sfnt/verifharness/vlib"
)

// desc is the canonical description of one subtable of this part (and of
// Gpos2_1, which a mutated format word can select).
type desc struct {
	kind       string    // gpos22 gpos31 gpos41 gpos51 gpos61 gpos21
	cov1, cov2 []pair    // coverage tables (3.1: cov1; 4.1/5.1/6.1: mark, base/lig/mark2)
	set        []int     // 2.2: coverage set
	cd1, cd2   []pair    // 2.2: class tables (gid, class)
	adj        [][][2]vr // 2.2: rows of (First, Second)
	ee         [][4]int  // 3.1: entry x, y, exit x, y
	marks      [][3]int  // class, x, y
	rows       [][][2]int
	ligs       [][][][2]int
	pairs      []pair21 // 2.1
}

type vr *[8]int // nil = nil *GposValueRecord

type pair21 struct {
	l, r int
	a, b vr
}

func vrSx(v vr) vlib.Sx {
	if v == nil {
		return vlib.Atom("nil")
	}
	l := vlib.List{}
	for _, x := range v {
		l = append(l, vlib.Int(x))
	}
	return l
}

func vrOf(x vlib.Sx) (vr, error) {
	if a, ok := x.(vlib.Atom); ok {
		if a == "nil" {
			return nil, nil
		}
		return nil, errors.New("bad value record")
	}
	v, err := vlib.AsInts(x)
	if err != nil || len(v) != 8 {
		return nil, errors.New("bad value record")
	}
	var a [8]int
	copy(a[:], v)
	return &a, nil
}

func vrBuild(v vr) *gtab.GposValueRecord {
	if v == nil {
		return nil
	}
	return &gtab.GposValueRecord{XPlacement: funit.Int16(v[0]), YPlacement: funit.Int16(v[1]),
		XAdvance: funit.Int16(v[2]), YAdvance: funit.Int16(v[3]),
		XPlacementDevOffs: uint16(v[4]), YPlacementDevOffs: uint16(v[5]),
		XAdvanceDevOffs: uint16(v[6]), YAdvanceDevOffs: uint16(v[7])}
}

func vrDescribe(g *gtab.GposValueRecord) vr {
	if g == nil {
		return nil
	}
	return &[8]int{int(g.XPlacement), int(g.YPlacement), int(g.XAdvance), int(g.YAdvance),
		int(g.XPlacementDevOffs), int(g.YPlacementDevOffs), int(g.XAdvanceDevOffs), int(g.YAdvanceDevOffs)}
}

func anchorsSx(row [][2]int) vlib.Sx {
	r := vlib.List{}
	for _, a := range row {
		r = append(r, vlib.L(vlib.Int(a[0]), vlib.Int(a[1])))
	}
	return r
}

func rowsSx(rows [][][2]int) vlib.Sx {
	bs := vlib.List{}
	for _, row := range rows {
		bs = append(bs, anchorsSx(row))
	}
	return bs
}

func marksSx(marks [][3]int) vlib.Sx {
	ms := vlib.List{}
	for _, m := range marks {
		ms = append(ms, vlib.L(vlib.Int(m[0]), vlib.Int(m[1]), vlib.Int(m[2])))
	}
	return ms
}

func (d desc) sx() vlib.Sx {
	switch d.kind {
	case "gpos22":
		rows := vlib.List{}
		for _, row := range d.adj {
			r := vlib.List{}
			for _, p := range row {
				r = append(r, vrSx(p[0]), vrSx(p[1]))
			}
			rows = append(rows, r)
		}
		return vlib.L(vlib.Atom("gpos22"), setRunsSx(d.set), cdRunsSx(d.cd1), cdRunsSx(d.cd2), rows)
	case "gpos31":
		rs := vlib.List{}
		for _, e := range d.ee {
			rs = append(rs, vlib.L(vlib.Int(e[0]), vlib.Int(e[1]), vlib.Int(e[2]), vlib.Int(e[3])))
		}
		return vlib.L(vlib.Atom("gpos31"), runsSx(d.cov1), rs)
	case "gpos41", "gpos61":
		return vlib.L(vlib.Atom(d.kind), runsSx(d.cov1), runsSx(d.cov2), marksSx(d.marks), rowsSx(d.rows))
	case "gpos51":
		ls := vlib.List{}
		for _, l := range d.ligs {
			ls = append(ls, rowsSx(l))
		}
		return vlib.L(vlib.Atom("gpos51"), runsSx(d.cov1), runsSx(d.cov2), marksSx(d.marks), ls)
	case "gpos21":
		ps := vlib.List{}
		for _, p := range d.pairs {
			ps = append(ps, vlib.L(vlib.Int(p.l), vlib.Int(p.r), vrSx(p.a), vrSx(p.b)))
		}
		return vlib.L(vlib.Atom("gpos21"), ps)
	}
	return vlib.Atom("unknown")
}

func anchorsOf(x vlib.Sx) ([][2]int, error) {
	l, err := vlib.AsList(x)
	if err != nil {
		return nil, err
	}
	out := [][2]int{}
	for _, a := range l {
		v, err := vlib.AsInts(a)
		if err != nil || len(v) != 2 {
			return nil, errors.New("bad anchor")
		}
		out = append(out, [2]int{v[0], v[1]})
	}
	return out, nil
}

func rowsOf(x vlib.Sx) ([][][2]int, error) {
	l, err := vlib.AsList(x)
	if err != nil {
		return nil, err
	}
	out := [][][2]int{}
	for _, r := range l {
		row, err := anchorsOf(r)
		if err != nil {
			return nil, err
		}
		out = append(out, row)
	}
	return out, nil
}

func marksOf(x vlib.Sx) ([][3]int, error) {
	l, err := vlib.AsList(x)
	if err != nil {
		return nil, err
	}
	out := [][3]int{}
	for _, m := range l {
		v, err := vlib.AsInts(m)
		if err != nil || len(v) != 3 {
			return nil, errors.New("bad mark record")
		}
		out = append(out, [3]int{v[0], v[1], v[2]})
	}
	return out, nil
}

func descOf(x vlib.Sx) (desc, error) {
	var d desc
	f, err := vlib.AsList(x)
	if err != nil || len(f) == 0 {
		return d, errors.New("bad subtable")
	}
	d.kind, err = vlib.AsAtom(f[0])
	if err != nil {
		return d, err
	}
	switch d.kind {
	case "gpos22":
		if len(f) != 5 {
			return d, errors.New("bad gpos22")
		}
		if d.set, err = setRunsOf(f[1]); err != nil {
			return d, err
		}
		if d.cd1, err = cdRunsOf(f[2]); err != nil {
			return d, err
		}
		if d.cd2, err = cdRunsOf(f[3]); err != nil {
			return d, err
		}
		rows, err := vlib.AsList(f[4])
		if err != nil {
			return d, err
		}
		d.adj = [][][2]vr{}
		for _, r := range rows {
			vs, err := vlib.AsList(r)
			if err != nil || len(vs)%2 != 0 {
				return d, errors.New("bad gpos22 row")
			}
			row := [][2]vr{}
			for k := 0; k < len(vs); k += 2 {
				a, e1 := vrOf(vs[k])
				b, e2 := vrOf(vs[k+1])
				if e1 != nil || e2 != nil {
					return d, errors.New("bad value record")
				}
				row = append(row, [2]vr{a, b})
			}
			d.adj = append(d.adj, row)
		}
	case "gpos31":
		if len(f) != 3 {
			return d, errors.New("bad gpos31")
		}
		if d.cov1, err = covRunsOf(f[1]); err != nil {
			return d, err
		}
		rs, err := vlib.AsList(f[2])
		if err != nil {
			return d, err
		}
		d.ee = [][4]int{}
		for _, r := range rs {
			v, err := vlib.AsInts(r)
			if err != nil || len(v) != 4 {
				return d, errors.New("bad entry/exit record")
			}
			d.ee = append(d.ee, [4]int{v[0], v[1], v[2], v[3]})
		}
	case "gpos41", "gpos61", "gpos51":
		if len(f) != 5 {
			return d, errors.New("bad " + d.kind)
		}
		if d.cov1, err = covRunsOf(f[1]); err != nil {
			return d, err
		}
		if d.cov2, err = covRunsOf(f[2]); err != nil {
			return d, err
		}
		if d.marks, err = marksOf(f[3]); err != nil {
			return d, err
		}
		if d.kind == "gpos51" {
			ls, err := vlib.AsList(f[4])
			if err != nil {
				return d, err
			}
			d.ligs = [][][][2]int{}
			for _, l := range ls {
				rows, err := rowsOf(l)
				if err != nil {
					return d, err
				}
				d.ligs = append(d.ligs, rows)
			}
		} else if d.rows, err = rowsOf(f[4]); err != nil {
			return d, err
		}
	default:
		return d, fmt.Errorf("unknown subtable kind %q", d.kind)
	}
	return d, nil
}

func anchorRow(row [][2]int) []anchor.Table {
	out := make([]anchor.Table, len(row))
	for j, a := range row {
		out[j] = anchor.Table{X: funit.Int16(a[0]), Y: funit.Int16(a[1])}
	}
	return out
}

func markRecs(ms [][3]int) []markarray.Record {
	out := make([]markarray.Record, len(ms))
	for i, m := range ms {
		out[i] = markarray.Record{Class: uint16(m[0]), Table: anchor.Table{X: funit.Int16(m[1]), Y: funit.Int16(m[2])}}
	}
	return out
}

// build makes the library's value.
func (d desc) build() gtab.Subtable {
	switch d.kind {
	case "gpos22":
		s := &gtab.Gpos2_2{Cov: setOf(d.set), Class1: cdOf(d.cd1), Class2: cdOf(d.cd2)}
		s.Adjust = make([][]*gtab.PairAdjust, len(d.adj))
		for i, row := range d.adj {
			s.Adjust[i] = make([]*gtab.PairAdjust, len(row))
			for j, p := range row {
				s.Adjust[i][j] = &gtab.PairAdjust{First: vrBuild(p[0]), Second: vrBuild(p[1])}
			}
		}
		return s
	case "gpos31":
		s := &gtab.Gpos3_1{Cov: tableOf(d.cov1)}
		s.Records = make([]gtab.EntryExitRecord, len(d.ee))
		for i, e := range d.ee {
			s.Records[i] = gtab.EntryExitRecord{
				Entry: anchor.Table{X: funit.Int16(e[0]), Y: funit.Int16(e[1])},
				Exit:  anchor.Table{X: funit.Int16(e[2]), Y: funit.Int16(e[3])}}
		}
		return s
	case "gpos41":
		s := &gtab.Gpos4_1{MarkCov: tableOf(d.cov1), BaseCov: tableOf(d.cov2), MarkArray: markRecs(d.marks)}
		s.BaseArray = make([][]anchor.Table, len(d.rows))
		for i, row := range d.rows {
			s.BaseArray[i] = anchorRow(row)
		}
		return s
	case "gpos61":
		s := &gtab.Gpos6_1{Mark1Cov: tableOf(d.cov1), Mark2Cov: tableOf(d.cov2), Mark1Array: markRecs(d.marks)}
		s.Mark2Array = make([][]anchor.Table, len(d.rows))
		for i, row := range d.rows {
			s.Mark2Array[i] = anchorRow(row)
		}
		return s
	case "gpos51":
		s := &gtab.Gpos5_1{MarkCov: tableOf(d.cov1), LigCov: tableOf(d.cov2), MarkArray: markRecs(d.marks)}
		s.LigArray = make([][][]anchor.Table, len(d.ligs))
		for i, l := range d.ligs {
			s.LigArray[i] = make([][]anchor.Table, len(l))
			for j, row := range l {
				s.LigArray[i][j] = anchorRow(row)
			}
		}
		return s
	}
	return nil
}

func describeRow(row []anchor.Table) [][2]int {
	r := [][2]int{}
	for _, a := range row {
		r = append(r, [2]int{int(a.X), int(a.Y)})
	}
	return r
}

func describeMarks(ms []markarray.Record) [][3]int {
	out := [][3]int{}
	for _, m := range ms {
		out = append(out, [3]int{int(m.Class), int(m.X), int(m.Y)})
	}
	return out
}

// describe canonicalises a decoded subtable.
func describe(s gtab.Subtable) (desc, bool) {
	switch t := s.(type) {
	case *gtab.Gpos2_2:
		d := desc{kind: "gpos22", set: setGlyphs(t.Cov), cd1: cdPairs(t.Class1), cd2: cdPairs(t.Class2), adj: [][][2]vr{}}
		for _, row := range t.Adjust {
			r := [][2]vr{}
			for _, p := range row {
				if p == nil {
					return d, false
				}
				r = append(r, [2]vr{vrDescribe(p.First), vrDescribe(p.Second)})
			}
			d.adj = append(d.adj, r)
		}
		return d, true
	case *gtab.Gpos3_1:
		d := desc{kind: "gpos31", cov1: covPairs(t.Cov), ee: [][4]int{}}
		for _, e := range t.Records {
			d.ee = append(d.ee, [4]int{int(e.Entry.X), int(e.Entry.Y), int(e.Exit.X), int(e.Exit.Y)})
		}
		return d, true
	case *gtab.Gpos4_1:
		d := desc{kind: "gpos41", cov1: covPairs(t.MarkCov), cov2: covPairs(t.BaseCov), marks: describeMarks(t.MarkArray), rows: [][][2]int{}}
		for _, row := range t.BaseArray {
			d.rows = append(d.rows, describeRow(row))
		}
		return d, true
	case *gtab.Gpos6_1:
		d := desc{kind: "gpos61", cov1: covPairs(t.Mark1Cov), cov2: covPairs(t.Mark2Cov), marks: describeMarks(t.Mark1Array), rows: [][][2]int{}}
		for _, row := range t.Mark2Array {
			d.rows = append(d.rows, describeRow(row))
		}
		return d, true
	case *gtab.Gpos5_1:
		d := desc{kind: "gpos51", cov1: covPairs(t.MarkCov), cov2: covPairs(t.LigCov), marks: describeMarks(t.MarkArray), ligs: [][][][2]int{}}
		for _, l := range t.LigArray {
			rows := [][][2]int{}
			for _, row := range l {
				rows = append(rows, describeRow(row))
			}
			d.ligs = append(d.ligs, rows)
		}
		return d, true
	case gtab.Gpos2_1:
		d := desc{kind: "gpos21"}
		for k, v := range t {
			if v == nil {
				return d, false
			}
			d.pairs = append(d.pairs, pair21{int(k.Left), int(k.Right), vrDescribe(v.First), vrDescribe(v.Second)})
		}
		sort.Slice(d.pairs, func(a, b int) bool {
			if d.pairs[a].l != d.pairs[b].l {
				return d.pairs[a].l < d.pairs[b].l
			}
			return d.pairs[a].r < d.pairs[b].r
		})
		return d, true
	}
	return desc{}, false
}

var _ = glyph.ID(0)

// ---- semantic normal form (the property's notion of "equal structure") ----

func vrZero(v vr) bool {
	return v == nil || *v == [8]int{}
}

// norm: nil and the all-zero value record are the same adjustment; class 0
// entries of a class table mean "not listed".
func (d desc) norm() desc {
	n := d
	if d.kind == "gpos22" {
		n.adj = make([][][2]vr, len(d.adj))
		for i, row := range d.adj {
			n.adj[i] = make([][2]vr, len(row))
			for j, p := range row {
				for s := 0; s < 2; s++ {
					if vrZero(p[s]) {
						n.adj[i][j][s] = nil
					} else {
						n.adj[i][j][s] = p[s]
					}
				}
			}
		}
		nz := func(ps []pair) []pair {
			out := []pair{}
			for _, p := range ps {
				if p.i != 0 {
					out = append(out, p)
				}
			}
			return out
		}
		n.cd1, n.cd2 = nz(d.cd1), nz(d.cd2)
	}
	return n
}

func sameValue(a, b desc) bool {
	return vlib.Str(a.norm().sx()) == vlib.Str(b.norm().sx())
}
