package c08b

import (
	"errors"
	"fmt"
	"sort"

	"seehuhn.de/go/sfnt/glyph"
	"seehuhn.de/go/sfnt/opentype/coverage"
)

// Independent structural walk of emitted subtables, written from the OpenType
// specification (chapters "GPOS" and "Common Table Formats"): none of the
// library's readers is used.  Every offset is followed from the base the
// specification names, every access is bounds-checked; the result is the
// canonical description of what the bytes say.

type walker struct{ b []byte }

var errShort = errors.New("offset or field beyond the end of the subtable")

func (w walker) u16(p int) (int, error) {
	if p < 0 || p+2 > len(w.b) {
		return 0, errShort
	}
	return int(w.b[p])<<8 | int(w.b[p+1]), nil
}

func (w walker) i16(p int) (int, error) {
	v, err := w.u16(p)
	if v >= 0x8000 {
		v -= 0x10000
	}
	return v, err
}

// coverage table at p: glyphs in coverage-index order (strictly increasing).
func (w walker) coverage(p int) ([]int, error) {
	format, err := w.u16(p)
	if err != nil {
		return nil, err
	}
	n, err := w.u16(p + 2)
	if err != nil {
		return nil, err
	}
	out := []int{}
	switch format {
	case 1:
		for k := 0; k < n; k++ {
			g, err := w.u16(p + 4 + 2*k)
			if err != nil {
				return nil, err
			}
			if len(out) > 0 && g <= out[len(out)-1] {
				return nil, errors.New("coverage format 1: glyphs not increasing")
			}
			out = append(out, g)
		}
	case 2:
		for k := 0; k < n; k++ {
			s, e1 := w.u16(p + 4 + 6*k)
			e, e2 := w.u16(p + 6 + 6*k)
			idx, e3 := w.u16(p + 8 + 6*k)
			if e1 != nil || e2 != nil || e3 != nil {
				return nil, errShort
			}
			if e < s || idx != len(out) || (len(out) > 0 && s <= out[len(out)-1]) {
				return nil, errors.New("coverage format 2: bad range record")
			}
			for g := s; g <= e; g++ {
				out = append(out, g)
			}
		}
	default:
		return nil, fmt.Errorf("coverage format %d", format)
	}
	return out, nil
}

// class definition table at p: (gid, class) for class != 0, sorted.
func (w walker) classDef(p int) ([]pair, error) {
	format, err := w.u16(p)
	if err != nil {
		return nil, err
	}
	out := []pair{}
	switch format {
	case 1:
		start, e1 := w.u16(p + 2)
		n, e2 := w.u16(p + 4)
		if e1 != nil || e2 != nil {
			return nil, errShort
		}
		for k := 0; k < n; k++ {
			c, err := w.u16(p + 6 + 2*k)
			if err != nil {
				return nil, err
			}
			if start+k > 0xFFFF {
				return nil, errors.New("class format 1: glyph id beyond 65535")
			}
			if c != 0 {
				out = append(out, pair{start + k, c})
			}
		}
	case 2:
		n, err := w.u16(p + 2)
		if err != nil {
			return nil, err
		}
		prev := -1
		for k := 0; k < n; k++ {
			s, e1 := w.u16(p + 4 + 6*k)
			e, e2 := w.u16(p + 6 + 6*k)
			c, e3 := w.u16(p + 8 + 6*k)
			if e1 != nil || e2 != nil || e3 != nil {
				return nil, errShort
			}
			if e < s || s <= prev {
				return nil, errors.New("class format 2: bad range record")
			}
			prev = e
			if c != 0 {
				for g := s; g <= e; g++ {
					out = append(out, pair{g, c})
				}
			}
		}
	default:
		return nil, fmt.Errorf("class definition format %d", format)
	}
	return out, nil
}

// anchor table at p (formats 1..3: the coordinates)
func (w walker) anchor(p int) ([2]int, error) {
	format, err := w.u16(p)
	if err != nil {
		return [2]int{}, err
	}
	if format < 1 || format > 3 {
		return [2]int{}, fmt.Errorf("anchor format %d", format)
	}
	x, e1 := w.i16(p + 2)
	y, e2 := w.i16(p + 4)
	if e1 != nil || e2 != nil {
		return [2]int{}, errShort
	}
	return [2]int{x, y}, nil
}

// value record at p for the given format; returns the record (nil for
// format 0) and its size.
func (w walker) value(p, format int) (vr, int, error) {
	if format == 0 {
		return nil, 0, nil
	}
	var v [8]int
	size := 0
	for k := 0; k < 8; k++ {
		if format&(1<<uint(k)) == 0 {
			continue
		}
		var x int
		var err error
		if k < 4 {
			x, err = w.i16(p + size)
		} else {
			x, err = w.u16(p + size)
		}
		if err != nil {
			return nil, 0, err
		}
		v[k] = x
		size += 2
	}
	for k := 8; k < 16; k++ {
		if format&(1<<uint(k)) != 0 {
			size += 2 // reserved bits: the library never sets them
		}
	}
	return &v, size, nil
}

// mark array at p
func (w walker) markArray(p int) ([][3]int, error) {
	n, err := w.u16(p)
	if err != nil {
		return nil, err
	}
	out := [][3]int{}
	for k := 0; k < n; k++ {
		c, e1 := w.u16(p + 2 + 4*k)
		o, e2 := w.u16(p + 4 + 4*k)
		if e1 != nil || e2 != nil {
			return nil, errShort
		}
		a, err := w.anchor(p + o)
		if err != nil {
			return nil, fmt.Errorf("mark record %d (anchor offset %d): %v", k, o, err)
		}
		out = append(out, [3]int{c, a[0], a[1]})
	}
	return out, nil
}

// anchor matrix at p: count, count*cols offsets from p (0 = NULL), anchors
func (w walker) anchorMatrix(p, cols int) ([][][2]int, error) {
	n, err := w.u16(p)
	if err != nil {
		return nil, err
	}
	out := [][][2]int{}
	for i := 0; i < n; i++ {
		row := [][2]int{}
		for j := 0; j < cols; j++ {
			o, err := w.u16(p + 2 + 2*(i*cols+j))
			if err != nil {
				return nil, err
			}
			if o == 0 {
				row = append(row, [2]int{0, 0})
				continue
			}
			a, err := w.anchor(p + o)
			if err != nil {
				return nil, fmt.Errorf("record %d class %d (anchor offset %d): %v", i, j, o, err)
			}
			row = append(row, a)
		}
		out = append(out, row)
	}
	return out, nil
}

func walk(kind string, b []byte) (desc, error) {
	w := walker{b}
	d := desc{kind: kind}
	format, err := w.u16(0)
	if err != nil {
		return d, err
	}
	switch kind {
	case "gpos41", "gpos61", "gpos51":
		if format != 1 {
			return d, fmt.Errorf("posFormat %d", format)
		}
		mco, _ := w.u16(2)
		bco, _ := w.u16(4)
		mcc, _ := w.u16(6)
		mao, _ := w.u16(8)
		bao, err := w.u16(10)
		if err != nil {
			return d, err
		}
		g1, err := w.coverage(mco)
		if err != nil {
			return d, fmt.Errorf("mark coverage at %d: %v", mco, err)
		}
		g2, err := w.coverage(bco)
		if err != nil {
			return d, fmt.Errorf("second coverage at %d: %v", bco, err)
		}
		d.cov1, d.cov2 = covOfGlyphs(g1), covOfGlyphs(g2)
		if d.marks, err = w.markArray(mao); err != nil {
			return d, fmt.Errorf("mark array at %d: %v", mao, err)
		}
		if len(d.marks) != len(g1) {
			return d, fmt.Errorf("markCount %d but %d covered mark glyphs", len(d.marks), len(g1))
		}
		if kind == "gpos51" {
			n, err := w.u16(bao)
			if err != nil {
				return d, err
			}
			d.ligs = [][][][2]int{}
			for i := 0; i < n; i++ {
				o, err := w.u16(bao + 2 + 2*i)
				if err != nil {
					return d, err
				}
				rows, err := w.anchorMatrix(bao+o, mcc)
				if err != nil {
					return d, fmt.Errorf("ligature attach %d at %d: %v", i, bao+o, err)
				}
				d.ligs = append(d.ligs, rows)
			}
			if len(d.ligs) != len(g2) {
				return d, fmt.Errorf("ligatureCount %d but %d covered glyphs", len(d.ligs), len(g2))
			}
			return d, nil
		}
		if d.rows, err = w.anchorMatrix(bao, mcc); err != nil {
			return d, fmt.Errorf("base array at %d: %v", bao, err)
		}
		if len(d.rows) != len(g2) {
			return d, fmt.Errorf("baseCount %d but %d covered glyphs", len(d.rows), len(g2))
		}
		return d, nil
	case "gpos22":
		if format != 2 {
			return d, fmt.Errorf("posFormat %d", format)
		}
		co, _ := w.u16(2)
		f1, _ := w.u16(4)
		f2, _ := w.u16(6)
		o1, _ := w.u16(8)
		o2, _ := w.u16(10)
		c1, _ := w.u16(12)
		c2, err := w.u16(14)
		if err != nil {
			return d, err
		}
		p := 16
		d.adj = [][][2]vr{}
		for i := 0; i < c1; i++ {
			row := [][2]vr{}
			for j := 0; j < c2; j++ {
				a, n1, err := w.value(p, f1)
				if err != nil {
					return d, err
				}
				b, n2, err := w.value(p+n1, f2)
				if err != nil {
					return d, err
				}
				p += n1 + n2
				row = append(row, [2]vr{a, b})
			}
			d.adj = append(d.adj, row)
		}
		if d.set, err = w.coverage(co); err != nil {
			return d, fmt.Errorf("coverage at %d: %v", co, err)
		}
		if d.cd1, err = w.classDef(o1); err != nil {
			return d, fmt.Errorf("classDef1 at %d: %v", o1, err)
		}
		if d.cd2, err = w.classDef(o2); err != nil {
			return d, fmt.Errorf("classDef2 at %d: %v", o2, err)
		}
		return d, nil
	case "gpos31":
		if format != 1 {
			return d, fmt.Errorf("posFormat %d", format)
		}
		co, _ := w.u16(2)
		n, err := w.u16(4)
		if err != nil {
			return d, err
		}
		d.ee = [][4]int{}
		for k := 0; k < n; k++ {
			eo, e1 := w.u16(6 + 4*k)
			xo, e2 := w.u16(8 + 4*k)
			if e1 != nil || e2 != nil {
				return d, errShort
			}
			var en, ex [2]int
			if eo != 0 {
				if en, err = w.anchor(eo); err != nil {
					return d, fmt.Errorf("entry anchor %d at %d: %v", k, eo, err)
				}
			}
			if xo != 0 {
				if ex, err = w.anchor(xo); err != nil {
					return d, fmt.Errorf("exit anchor %d at %d: %v", k, xo, err)
				}
			}
			d.ee = append(d.ee, [4]int{en[0], en[1], ex[0], ex[1]})
		}
		g, err := w.coverage(co)
		if err != nil {
			return d, fmt.Errorf("coverage at %d: %v", co, err)
		}
		d.cov1 = covOfGlyphs(g)
		if len(g) != n {
			return d, fmt.Errorf("entryExitCount %d but %d covered glyphs", n, len(g))
		}
		return d, nil
	}
	return d, errors.New("no walker for " + kind)
}

// ---- sizes from the specification (for the legitimacy of a refusal) ----

func covSize(gs []int) int {
	runs := 0
	for k, g := range gs {
		if k == 0 || g != gs[k-1]+1 {
			runs++
		}
	}
	return min(4+2*len(gs), 4+6*runs)
}

func cdSize(ps []pair) int {
	if len(ps) == 0 {
		return 4
	}
	sort.Slice(ps, func(a, b int) bool { return ps[a].g < ps[b].g })
	span := ps[len(ps)-1].g - ps[0].g + 1
	segs := 0
	for k, p := range ps {
		if p.i == 0 {
			continue
		}
		if k == 0 || ps[k-1].g != p.g-1 || ps[k-1].i != p.i {
			segs++
		}
	}
	f2 := 4 + 6*segs
	if span > 65535 {
		return f2
	}
	return min(6+2*span, f2)
}

func covGlyphs(ps []pair) []int {
	out := make([]int, len(ps))
	for i, p := range ps {
		out[i] = p.g
	}
	return out
}

func validCov(ps []pair) bool {
	for k, p := range ps {
		if p.i != k || p.g < 0 || p.g > 65535 || (k > 0 && ps[k-1].g >= p.g) {
			return false
		}
	}
	return true
}

// the encoder of the library's coverage tables (property C08 main part) is
// used to lay out the GPOS 5.1 specification bytes
func covBytes(ps []pair) []byte {
	t := make(coverage.Table, len(ps))
	for _, p := range ps {
		t[glyph.ID(p.g)] = p.i
	}
	return t.Encode()
}
