package c08b

import (
	"errors"
	"fmt"

	"seehuhn.de/go/sfnt/opentype/anchor"
	"seehuhn.de/go/sfnt/opentype/gtab"
	"seehuhn.de/go/sfnt/opentype/markarray"
	"seehuhn.de/go/sfnt/verifharness/vlib"
)

var lookupTypeOf = map[string]int{"gpos22": 2, "gpos31": 3, "gpos41": 4, "gpos51": 5, "gpos61": 6}

func i16ok(x int) bool { return -32768 <= x && x <= 32767 }

// markClassCount as the encoder derives it
func (d desc) classCount() int {
	if len(d.rows) > 0 {
		return len(d.rows[0])
	}
	mx := 0
	for _, m := range d.marks {
		if m[0] > mx {
			mx = m[0]
		}
	}
	return mx + 1
}

// wellFormed: the domain of the property (valid coverage tables, one record
// per covered glyph, rectangular matrices, fields of their Go types)
func (d desc) wellFormed() bool {
	anchorsOk := func(row [][2]int) bool {
		for _, a := range row {
			if !i16ok(a[0]) || !i16ok(a[1]) {
				return false
			}
		}
		return true
	}
	marksOk := func() bool {
		for _, m := range d.marks {
			if m[0] < 0 || m[0] > 65535 || !i16ok(m[1]) || !i16ok(m[2]) {
				return false
			}
		}
		return len(d.marks) == len(d.cov1)
	}
	switch d.kind {
	case "gpos41", "gpos61":
		if !validCov(d.cov1) || !validCov(d.cov2) || !marksOk() || len(d.rows) != len(d.cov2) {
			return false
		}
		nc := d.classCount()
		for _, row := range d.rows {
			if len(row) != nc || !anchorsOk(row) {
				return false
			}
		}
		return true
	case "gpos51":
		if !validCov(d.cov1) || !validCov(d.cov2) || !marksOk() || len(d.ligs) != len(d.cov2) {
			return false
		}
		return true
	case "gpos31":
		if !validCov(d.cov1) || len(d.ee) != len(d.cov1) {
			return false
		}
		for _, e := range d.ee {
			if !i16ok(e[0]) || !i16ok(e[1]) || !i16ok(e[2]) || !i16ok(e[3]) {
				return false
			}
		}
		return true
	case "gpos22":
		for k, g := range d.set {
			if g < 0 || g > 65535 || (k > 0 && d.set[k-1] >= g) {
				return false
			}
		}
		for _, cd := range [][]pair{d.cd1, d.cd2} {
			for k, p := range cd {
				if p.g < 0 || p.g > 65535 || p.i < 0 || p.i > 65535 || (k > 0 && cd[k-1].g >= p.g) {
					return false
				}
			}
		}
		for _, row := range d.adj {
			if len(row) != len(d.adj[0]) {
				return false
			}
		}
		return true
	}
	return false
}

func vrFormat(v vr) int {
	if v == nil {
		return 0
	}
	f := 0
	for k := 0; k < 8; k++ {
		if v[k] != 0 {
			f |= 1 << uint(k)
		}
	}
	if f == 0 {
		return 4
	}
	return f
}

func popcount(x int) int {
	n := 0
	for ; x != 0; x &= x - 1 {
		n++
	}
	return n
}

// mustRefuse: some 16-bit offset or count of the subtable, laid out in the
// library's order (sizes computed from the specification), cannot hold its
// value - or the library has no encoder for the format.  Exactly these values
// may (and must) be refused.
func (d desc) mustRefuse() bool {
	switch d.kind {
	case "gpos51":
		return true
	case "gpos41", "gpos61":
		nm, nb, nc := len(d.marks), len(d.rows), d.classCount()
		bao := 12 + covSize(covGlyphs(d.cov1)) + covSize(covGlyphs(d.cov2)) + 2 + 10*nm
		if bao > 0xFFFF || nb*nc > (65536-6-2)/2 || nc > 0xFFFF || nb > 0xFFFF {
			return true
		}
		if nm > 0 && 2+4*nm+6*(nm-1) > 0xFFFF {
			return true
		}
		offs := 2 + 2*nb*nc
		for _, row := range d.rows {
			for _, a := range row {
				if a == [2]int{0, 0} {
					continue
				}
				if offs > 0xFFFF {
					return true
				}
				offs += 6
			}
		}
		return false
	case "gpos31":
		total := 6 + 4*len(d.ee)
		for _, e := range d.ee {
			if e[0] != 0 || e[1] != 0 {
				total += 6
			}
			if e[2] != 0 || e[3] != 0 {
				total += 6
			}
		}
		return total > 0xFFFF
	case "gpos22":
		f1, f2 := 0, 0
		for _, row := range d.adj {
			for _, p := range row {
				f1 |= vrFormat(p[0])
				f2 |= vrFormat(p[1])
			}
		}
		c1, c2 := len(d.adj), 0
		if c1 > 0 {
			c2 = len(d.adj[0])
		}
		cd2Off := 16 + c1*c2*2*(popcount(f1)+popcount(f2)) + covSize(d.set) + cdSize(append([]pair(nil), d.cd1...))
		return cd2Off > 0xFFFF || c1 > 0xFFFF || c2 > 0xFFFF || c1*c2 > 0xFFFF
	}
	return false
}

func readSubtable(data []byte, pos, lookupType int) (gtab.Subtable, error) {
	return gtab.VerifC08ReadSubtable(data, int64(pos), gtab.TypeGpos, uint16(lookupType))
}

// encCase: "sub-enc SUBTABLE" -> (ok xBYTES encodeLen) | panic, with the oracle.
func encCase(d desc) (impl, fail string, enc []byte) {
	s := d.build()
	if s == nil {
		return "err", "", nil
	}
	var n int
	p1, h1, msg := guard(func() { enc = gtab.VerifC08Encode(s) })
	p2, h2, _ := guard(func() { n = gtab.VerifC08EncodeLen(s) })
	if h1 || h2 {
		return "hang", "the encoder does not return", nil
	}
	wf := d.wellFormed()
	if p1 {
		if wf && !d.mustRefuse() {
			return "panic", "encode panics on a representable " + d.kind + " subtable: " + msg, nil
		}
		return "panic", "", nil
	}
	if p2 {
		return "panic", "encodeLen panics although encode returns", enc
	}
	impl = encObs(enc, n)
	if !wf {
		return impl, "", enc // outside the property's domain: compared with the model only
	}
	if n != len(enc) {
		return impl, fmt.Sprintf("encodeLen = %d but encode wrote %d bytes", n, len(enc)), enc
	}
	if d.mustRefuse() {
		return impl, "a " + d.kind + " subtable with a field beyond 16 bits was written instead of refused", enc
	}
	w, err := walk(d.kind, enc)
	if err != nil {
		return impl, "independent structural walk of the emitted bytes fails: " + err.Error(), enc
	}
	if !sameValue(w, d) {
		return impl, "independent structural walk: the emitted bytes describe a different subtable", enc
	}
	var back gtab.Subtable
	pp, hh, m2 := guard(func() { back, err = readSubtable(enc, 0, lookupTypeOf[d.kind]) })
	if pp || hh {
		return impl, "the reader panics or hangs on encode's output: " + m2, enc
	}
	if err != nil {
		return impl, "the reader rejects encode's output: " + err.Error(), enc
	}
	bd, ok := describe(back)
	if !ok || !sameValue(bd, d) {
		return impl, "round trip changes the " + d.kind + " subtable", enc
	}
	return impl, "", enc
}

// readCase: "sub-read TYPE xBYTES pos" -> (ok SUBTABLE) | err | panic, with
// the oracle: no panic, no hang, and whatever is decoded either is refused by
// the encoder or survives another encode -> read.
func readCase(lookupType int, data []byte, pos int) (impl, fail string) {
	var back gtab.Subtable
	var err error
	pp, hh, msg := guard(func() { back, err = readSubtable(data, pos, lookupType) })
	if hh {
		return "hang", "the reader does not return: " + msg
	}
	if pp {
		return "panic", "the reader panics: " + msg
	}
	if err != nil {
		return "err", ""
	}
	d, ok := describe(back)
	if !ok {
		return "(ok unknown)", ""
	}
	impl = vlib.Str(vlib.L(vlib.Atom("ok"), d.sx()))
	if d.kind == "gpos21" {
		return impl, "" // C08's main part
	}
	var enc []byte
	var n int
	p1, h1, _ := guard(func() { enc = gtab.VerifC08Encode(back); n = gtab.VerifC08EncodeLen(back) })
	if h1 {
		return impl, "re-encoding a decoded subtable does not return"
	}
	if p1 {
		return impl, "" // loud refusal
	}
	if n != len(enc) {
		return impl, fmt.Sprintf("decoded subtable: encodeLen = %d but encode wrote %d bytes", n, len(enc))
	}
	var again gtab.Subtable
	p3, h3, _ := guard(func() { again, err = readSubtable(enc, 0, lookupType) })
	if p3 || h3 || err != nil {
		return impl, "a decoded subtable was re-encoded to bytes that cannot be read"
	}
	d2, ok2 := describe(again)
	if !ok2 || !sameValue(d2, d) {
		return impl, "a decoded subtable changes in encode -> read"
	}
	return impl, ""
}

// ---- GPOS 5.1 bytes from the specification (the library has no encoder) ----

func be16(v int) []byte { return []byte{byte(v >> 8), byte(v)} }

func anchorBytes(a [2]int) []byte {
	return []byte{0, 1, byte(a[0] >> 8), byte(a[0]), byte(a[1] >> 8), byte(a[1])}
}

// matrixBytes: count, offsets from the start of the table (0 = NULL), anchors
func matrixBytes(rows [][][2]int, cols int) (b []byte, fits bool) {
	fits = len(rows) < 65536 && len(rows)*cols <= (65536-6-2)/2
	b = append(b, be16(len(rows))...)
	offs := 2 + 2*len(rows)*cols
	var tail []byte
	for _, row := range rows {
		for _, a := range row {
			if a == [2]int{0, 0} {
				b = append(b, 0, 0)
				continue
			}
			if offs > 0xFFFF {
				fits = false
			}
			b = append(b, be16(offs)...)
			offs += 6
			tail = append(tail, anchorBytes(a)...)
		}
	}
	return append(b, tail...), fits
}

// spec51: MarkLigPosFormat1 laid out as header, mark coverage, ligature
// coverage, MarkArray, LigatureArray with its LigatureAttach tables.
func spec51(d desc, mcc int) (b []byte, fits bool) {
	mcb, lcb := covBytes(d.cov1), covBytes(d.cov2)
	nm := len(d.marks)
	bco := 12 + len(mcb)
	mao := bco + len(lcb)
	lao := mao + 2 + 10*nm
	fits = lao < 65536 && mcc < 65536 && len(d.ligs) < 65536
	b = append(b, 0, 1)
	b = append(b, be16(12)...)
	b = append(b, be16(bco)...)
	b = append(b, be16(mcc)...)
	b = append(b, be16(mao)...)
	b = append(b, be16(lao)...)
	b = append(b, mcb...)
	b = append(b, lcb...)
	b = append(b, be16(nm)...)
	offs := 2 + 4*nm
	for _, m := range d.marks {
		if offs > 0xFFFF {
			fits = false
		}
		b = append(b, be16(m[0])...)
		b = append(b, be16(offs)...)
		offs += 6
	}
	for _, m := range d.marks {
		b = append(b, anchorBytes([2]int{m[1], m[2]})...)
	}
	b = append(b, be16(len(d.ligs))...)
	offs = 2 + 2*len(d.ligs)
	var tail []byte
	work := 0
	for _, l := range d.ligs {
		work += len(l) + len(l)*mcc
		if offs > 0xFFFF || work > 1<<20 { // 1<<20: the reader's budget (maxLigatureWork)
			fits = false
		}
		b = append(b, be16(offs)...)
		mb, f := matrixBytes(l, mcc)
		if !f {
			fits = false
		}
		offs += len(mb)
		tail = append(tail, mb...)
	}
	return append(b, tail...), fits
}

func (d desc) wf51(mcc int) bool {
	if !d.wellFormed() {
		return false
	}
	for _, l := range d.ligs {
		for _, row := range l {
			if len(row) != mcc {
				return false
			}
			for _, a := range row {
				if !i16ok(a[0]) || !i16ok(a[1]) {
					return false
				}
			}
		}
	}
	return true
}

// spec51Case: "spec51 MCOV LCOV mcc MARKS LIGS" -> (ok xBYTES fits); oracle:
// the reader returns exactly the value when every field fits.
func spec51Case(d desc, mcc int) (impl, fail string, b []byte) {
	if !validCov(d.cov1) || !validCov(d.cov2) {
		return "panic", "", nil
	}
	b, fits := spec51(d, mcc)
	if len(b) <= 300 {
		impl = vlib.Str(vlib.L(vlib.Atom("ok"), vlib.Hex(b), vlib.Bool(fits)))
	} else {
		impl = vlib.Str(vlib.L(vlib.Atom("ok"), vlib.Int(len(b)), vlib.Atom(md5hex(b)), vlib.Bool(fits)))
	}
	if !fits || !d.wf51(mcc) {
		return impl, "", b
	}
	if w, err := walk("gpos51", b); err != nil || !sameValue(w, d) {
		return impl, "harness: the GPOS 5.1 specification bytes do not walk back to the value", b
	}
	var back gtab.Subtable
	var err error
	pp, hh, msg := guard(func() { back, err = readSubtable(b, 0, 5) })
	if pp || hh {
		return impl, "readGpos5_1 panics or hangs on a valid subtable: " + msg, b
	}
	if err != nil {
		return impl, "readGpos5_1 rejects a valid subtable: " + err.Error(), b
	}
	bd, ok := describe(back)
	if !ok || !sameValue(bd, d) {
		return impl, "readGpos5_1 decodes a valid subtable to a different value", b
	}
	return impl, "", b
}

// ---- anchors and mark arrays read directly ----

func anchorReadCase(data []byte, pos int) (impl, fail string) {
	var a anchor.Table
	var err error
	pp, hh, msg := guard(func() { a, err = anchor.Read(newParser(data), int64(pos)) })
	if pp || hh {
		return "panic", "anchor.Read panics or hangs: " + msg
	}
	if err != nil {
		return "err", ""
	}
	w, werr := walker{data}.anchor(pos)
	if werr != nil || w != [2]int{int(a.X), int(a.Y)} {
		return "(ok)", "anchor.Read accepts bytes the specification walk does not decode to the same anchor"
	}
	return vlib.Str(vlib.L(vlib.Atom("ok"), vlib.L(vlib.Int(int(a.X)), vlib.Int(int(a.Y))))), ""
}

func markArrayReadCase(data []byte, pos, n int) (impl, fail string) {
	var ms []markarray.Record
	var err error
	pp, hh, msg := guard(func() { ms, err = markarray.Read(newParser(data), int64(pos), n) })
	if pp || hh {
		return "panic", "markarray.Read panics or hangs: " + msg
	}
	if err != nil {
		return "err", ""
	}
	if len(ms) > n {
		return "(ok)", "markarray.Read returns more records than asked for"
	}
	return vlib.Str(vlib.L(vlib.Atom("ok"), marksSx(describeMarks(ms)))), ""
}

// RunCase re-executes one case line (corpus entries and replays).
func RunCase(line string) (impl, fail, sig string, err error) {
	if len(line) > 0 && line[0] == '!' {
		line = line[1:]
	}
	items, err := vlib.Parse(line)
	if err != nil {
		return "", "", "", err
	}
	if len(items) == 0 {
		return "", "", "", errors.New("empty case")
	}
	kind, err := vlib.AsAtom(items[0])
	if err != nil {
		return "", "", "", err
	}
	switch kind {
	case "sub-enc":
		if len(items) != 2 {
			return "", "", "", errors.New("sub-enc: want 1 argument")
		}
		d, err := descOf(items[1])
		if err != nil {
			return "", "", "", err
		}
		impl, fail, _ = encCase(d)
		return impl, fail, "c08b-" + d.kind + "-encode", nil
	case "sub-read":
		if len(items) != 4 {
			return "", "", "", errors.New("sub-read: want 3 arguments")
		}
		tp, e1 := vlib.AsInt(items[1])
		data, e2 := vlib.AsBytes(items[2])
		pos, e3 := vlib.AsInt(items[3])
		if e1 != nil || e2 != nil || e3 != nil {
			return "", "", "", errors.New("sub-read: bad arguments")
		}
		impl, fail = readCase(tp, data, pos)
		return impl, fail, fmt.Sprintf("c08b-gpos%d-read", tp), nil
	case "anchor-read":
		if len(items) != 3 {
			return "", "", "", errors.New("anchor-read: want 2 arguments")
		}
		data, e1 := vlib.AsBytes(items[1])
		pos, e2 := vlib.AsInt(items[2])
		if e1 != nil || e2 != nil {
			return "", "", "", errors.New("anchor-read: bad arguments")
		}
		impl, fail = anchorReadCase(data, pos)
		return impl, fail, "c08b-anchor-read", nil
	case "markarray-read":
		if len(items) != 4 {
			return "", "", "", errors.New("markarray-read: want 3 arguments")
		}
		data, e1 := vlib.AsBytes(items[1])
		pos, e2 := vlib.AsInt(items[2])
		n, e3 := vlib.AsInt(items[3])
		if e1 != nil || e2 != nil || e3 != nil {
			return "", "", "", errors.New("markarray-read: bad arguments")
		}
		impl, fail = markArrayReadCase(data, pos, n)
		return impl, fail, "c08b-markarray-read", nil
	case "spec51":
		if len(items) != 6 {
			return "", "", "", errors.New("spec51: want 5 arguments")
		}
		d, mcc, err := spec51Of(items[1:])
		if err != nil {
			return "", "", "", err
		}
		impl, fail, _ = spec51Case(d, mcc)
		return impl, fail, "c08b-gpos51-read", nil
	}
	return "", "", "", fmt.Errorf("unknown case kind %q", kind)
}

func spec51Of(f []vlib.Sx) (desc, int, error) {
	d := desc{kind: "gpos51"}
	var err error
	if d.cov1, err = covRunsOf(f[0]); err != nil {
		return d, 0, err
	}
	if d.cov2, err = covRunsOf(f[1]); err != nil {
		return d, 0, err
	}
	mcc, err := vlib.AsInt(f[2])
	if err != nil {
		return d, 0, err
	}
	if d.marks, err = marksOf(f[3]); err != nil {
		return d, 0, err
	}
	ls, err := vlib.AsList(f[4])
	if err != nil {
		return d, 0, err
	}
	d.ligs = [][][][2]int{}
	for _, l := range ls {
		rows, err := rowsOf(l)
		if err != nil {
			return d, 0, err
		}
		d.ligs = append(d.ligs, rows)
	}
	return d, mcc, nil
}
