// Package c08b is part C08B of property C08: it drives the binary codecs of
// the GPOS subtables 2.2, 3.1, 4.1, 5.1, 6.1 (with opentype/anchor and
// opentype/markarray) on generated structures and byte strings, records the
// observations in the syntax the Coq model prints and evaluates the property
// oracle on every case: encode -> read -> compare, encodeLen == len(encode),
// an independent structural walk of the emitted bytes written from the
// OpenType specification, loud refusal instead of corrupt output, no panic and
// no hang in the readers.
package c08b

import (
	"bytes"
	"crypto/md5"
	"encoding/hex"
	"fmt"
	"sort"
	"time"

	"seehuhn.de/go/sfnt/glyph"
	"seehuhn.de/go/sfnt/opentype/classdef"
	"seehuhn.de/go/sfnt/opentype/coverage"
	"seehuhn.de/go/sfnt/parser"
	"seehuhn.de/go/sfnt/verifharness/vlib"
)

func newParser(data []byte) *parser.Parser {
	return parser.New(bytes.NewReader(data))
}

// guard runs f under recover and a watchdog: a panic is the observation
// "panic", a call that does not return within the limit is "hang" (the
// goroutine is abandoned).
func guard(f func()) (panicked, hung bool, msg string) {
	type res struct {
		p   bool
		msg string
	}
	ch := make(chan res, 1)
	go func() {
		defer func() {
			if e := recover(); e != nil {
				ch <- res{true, fmt.Sprint(e)}
			}
		}()
		f()
		ch <- res{false, ""}
	}()
	select {
	case r := <-ch:
		return r.p, false, r.msg
	case <-time.After(20 * time.Second):
		return false, true, "no answer within 20 s"
	}
}

type pair struct{ g, i int }

func sortPairs(ps []pair) {
	sort.Slice(ps, func(a, b int) bool { return ps[a].g < ps[b].g })
}

// runsSx compresses (gid, idx) pairs (sorted by gid) into maximal runs in
// which both advance by one: ((gid idx len) ...).
func runsSx(ps []pair) vlib.Sx {
	out := vlib.List{}
	for k := 0; k < len(ps); {
		j := k + 1
		for j < len(ps) && ps[j].g == ps[k].g+(j-k) && ps[j].i == ps[k].i+(j-k) {
			j++
		}
		out = append(out, vlib.L(vlib.Int(ps[k].g), vlib.Int(ps[k].i), vlib.Int(j-k)))
		k = j
	}
	return out
}

// cdRunsSx: (gid, class) pairs sorted by gid as ((gid class len) ...).
func cdRunsSx(ps []pair) vlib.Sx {
	out := vlib.List{}
	for k := 0; k < len(ps); {
		j := k + 1
		for j < len(ps) && ps[j].g == ps[k].g+(j-k) && ps[j].i == ps[k].i {
			j++
		}
		out = append(out, vlib.L(vlib.Int(ps[k].g), vlib.Int(ps[k].i), vlib.Int(j-k)))
		k = j
	}
	return out
}

// setRunsSx: sorted glyph list as ((gid len) ...).
func setRunsSx(gs []int) vlib.Sx {
	out := vlib.List{}
	for k := 0; k < len(gs); {
		j := k + 1
		for j < len(gs) && gs[j] == gs[k]+(j-k) {
			j++
		}
		out = append(out, vlib.L(vlib.Int(gs[k]), vlib.Int(j-k)))
		k = j
	}
	return out
}

func covRunsOf(x vlib.Sx) ([]pair, error) {
	l, err := vlib.AsList(x)
	if err != nil {
		return nil, err
	}
	ps := []pair{}
	for _, y := range l {
		v, err := vlib.AsInts(y)
		if err != nil || len(v) != 3 || v[2] < 0 || v[2] > 65536 {
			return nil, fmt.Errorf("bad coverage run")
		}
		for k := 0; k < v[2]; k++ {
			ps = append(ps, pair{v[0] + k, v[1] + k})
		}
	}
	return ps, nil
}

func cdRunsOf(x vlib.Sx) ([]pair, error) {
	l, err := vlib.AsList(x)
	if err != nil {
		return nil, err
	}
	ps := []pair{}
	for _, y := range l {
		v, err := vlib.AsInts(y)
		if err != nil || len(v) != 3 || v[2] < 0 || v[2] > 65536 {
			return nil, fmt.Errorf("bad class run")
		}
		for k := 0; k < v[2]; k++ {
			ps = append(ps, pair{v[0] + k, v[1]})
		}
	}
	return ps, nil
}

func setRunsOf(x vlib.Sx) ([]int, error) {
	l, err := vlib.AsList(x)
	if err != nil {
		return nil, err
	}
	gs := []int{}
	for _, y := range l {
		v, err := vlib.AsInts(y)
		if err != nil || len(v) != 2 || v[1] < 0 || v[1] > 65536 {
			return nil, fmt.Errorf("bad set run")
		}
		for k := 0; k < v[1]; k++ {
			gs = append(gs, v[0]+k)
		}
	}
	return gs, nil
}

func tableOf(ps []pair) coverage.Table {
	t := make(coverage.Table, len(ps))
	for _, p := range ps {
		t[glyph.ID(p.g)] = p.i
	}
	return t
}

func covPairs(t coverage.Table) []pair {
	ps := make([]pair, 0, len(t))
	for g, i := range t {
		ps = append(ps, pair{int(g), i})
	}
	sortPairs(ps)
	return ps
}

func setOf(gs []int) coverage.Set {
	s := make(coverage.Set, len(gs))
	for _, g := range gs {
		s[glyph.ID(g)] = true
	}
	return s
}

func setGlyphs(s coverage.Set) []int {
	out := make([]int, 0, len(s))
	for g := range s {
		out = append(out, int(g))
	}
	sort.Ints(out)
	return out
}

func cdOf(ps []pair) classdef.Table {
	t := make(classdef.Table, len(ps))
	for _, p := range ps {
		t[glyph.ID(p.g)] = uint16(p.i)
	}
	return t
}

func cdPairs(t classdef.Table) []pair {
	ps := make([]pair, 0, len(t))
	for g, c := range t {
		ps = append(ps, pair{int(g), int(c)})
	}
	sortPairs(ps)
	return ps
}

// covOfGlyphs: the valid coverage table of a sorted glyph list.
func covOfGlyphs(gs []int) []pair {
	ps := make([]pair, len(gs))
	for i, g := range gs {
		ps[i] = pair{g, i}
	}
	return ps
}

// glyphList generates n strictly increasing glyph ids: a mix of runs and
// singletons so that both coverage formats get chosen.
func glyphList(r *vlib.Rand, n int) []int {
	if n <= 0 {
		return []int{}
	}
	if n > 65536 {
		n = 65536
	}
	mode := r.Intn(4) // 0: one run, 1: singletons, 2, 3: mixed
	out := make([]int, 0, n)
	room := 65536 - n // glyph ids that may be skipped
	g := 0
	if room > 0 {
		g = r.Intn(min(room, 2000) + 1)
		room -= g
	}
	for len(out) < n {
		out = append(out, g)
		g++
		gap := 0
		switch {
		case mode == 1 || (mode >= 2 && r.Chance(1, 4)):
			gap = 1 + r.Intn(5)
		}
		if gap > room {
			gap = room
		}
		room -= gap
		g += gap
	}
	return out
}

// runList: n consecutive glyphs starting at g0 with `breaks` extra gaps of one
// glyph (so that the coverage table has breaks+1 ranges).
func runList(g0, n, breaks int) []int {
	out := make([]int, 0, n)
	g := g0
	for k := 0; k < n; k++ {
		out = append(out, g)
		g++
		if breaks > 0 && k+1 < n && (k+1)%(n/(breaks+1)+1) == 0 {
			g++
			breaks--
		}
	}
	return out
}

func md5hex(b []byte) string {
	h := md5.Sum(b)
	return hex.EncodeToString(h[:])
}

// encObs: the observation of an encoder in the model's syntax.
func encObs(enc []byte, n int) string {
	if len(enc) <= 300 {
		return vlib.Str(vlib.L(vlib.Atom("ok"), vlib.Hex(enc), vlib.Int(n)))
	}
	return vlib.Str(vlib.L(vlib.Atom("ok"), vlib.Int(len(enc)), vlib.Atom(md5hex(enc)), vlib.Int(n)))
}

// mutate returns a damaged copy of b: truncation, single-byte changes, 16-bit
// field changes to boundary values, off-by-one, extension with junk, deletion
// and aliasing (one 16-bit field copied onto another, so that two offsets
// point to the same place or a count takes the value of an offset).
func mutate(r *vlib.Rand, b []byte) ([]byte, string) {
	c := append([]byte(nil), b...)
	switch r.Intn(8) {
	case 0:
		if len(c) > 0 {
			c = c[:r.Intn(len(c))]
		}
		return c, "mut:truncate"
	case 1:
		for k := 0; k <= r.Intn(3) && len(c) > 0; k++ {
			c[r.Intn(len(c))] = byte(r.Uint64())
		}
		return c, "mut:byte"
	case 2:
		if len(c) >= 2 {
			p := 2 * r.Intn(len(c)/2)
			if r.Chance(1, 2) && len(c) >= 16 {
				p = 2 * r.Intn(8) // the header
			}
			v := vlib.Pick(r, []int{0, 1, 2, 3, 255, 256, 0x7fff, 0x8000, 0xfffe, 0xffff, len(c), len(c) - 1, len(c) - 6})
			c[p], c[p+1] = byte(v>>8), byte(v)
		}
		return c, "mut:field"
	case 3:
		if len(c) >= 2 {
			p := 2 * r.Intn(len(c)/2)
			v := int(c[p])<<8 | int(c[p+1])
			v += vlib.Pick(r, []int{-6, -2, -1, 1, 2, 6})
			c[p], c[p+1] = byte(v>>8), byte(v)
		}
		return c, "mut:offbyone"
	case 4:
		c = append(c, r.Bytes(r.Intn(12))...)
		return c, "mut:extend"
	case 5, 6:
		if len(c) >= 4 {
			lim := len(c) / 2
			if lim > 40 && r.Chance(2, 3) {
				lim = 40
			}
			p, q := 2*r.Intn(lim), 2*r.Intn(lim)
			c[p], c[p+1] = c[q], c[q+1]
		}
		return c, "mut:alias"
	}
	if len(c) > 6 {
		p := 2 * r.Intn(len(c)/2-1)
		c = append(c[:p], c[p+2:]...)
	}
	return c, "mut:delete"
}
