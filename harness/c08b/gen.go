package c08b

import (
	"fmt"

	"seehuhn.de/go/sfnt/verifharness/vlib"
)

// Gen writes the run for the given tier.
func Gen(run *vlib.Run, seed uint64, tier string) {
	run.Rule = "part C08B: one case = one call of a GPOS 2.2/3.1/4.1/5.1/6.1 encoder (structure -> bytes + declared length | refusal) or reader (bytes -> structure | err), of anchor.Read / markarray.Read, or of the GPOS 5.1 specification layout; non-trivial = encoder input with >= 2 records, reader input of >= 12 bytes; distinct by case line"
	r := vlib.NewRand(seed)
	g := &gen{run: run, tier: tier}
	g.markbase(r.Fork("gpos41"), "gpos41")
	g.markbase(r.Fork("gpos61"), "gpos61")
	g.gpos22(r.Fork("gpos22"))
	g.gpos31(r.Fork("gpos31"))
	g.gpos51(r.Fork("gpos51"))
	g.anchors(r.Fork("anchors"))
	g.malformed(r.Fork("malformed"))
}

type sample struct {
	kind string
	enc  []byte
}

type gen struct {
	run     *vlib.Run
	tier    string
	samples map[string][]sample // valid encodings kept for the malformed stream, by kind
}

var kinds = []string{"gpos22", "gpos31", "gpos41", "gpos51", "gpos61"}

func (g *gen) keep(kind string, enc []byte) {
	if g.samples == nil {
		g.samples = map[string][]sample{}
	}
	if len(enc) > 0 && len(enc) <= 3000 && len(g.samples[kind]) < 1000 {
		g.samples[kind] = append(g.samples[kind], sample{kind, enc})
	}
}

func (g *gen) enc(d desc, lb ...string) []byte {
	line := vlib.Line(vlib.Atom("sub-enc"), d.sx())
	impl, fail, enc := encCase(d)
	cls := "ok"
	if impl == "panic" {
		cls = "refused"
	}
	nontriv := len(d.marks)+len(d.rows)+len(d.ee)+len(d.adj)+len(d.ligs) >= 2
	labels := append([]string{"sub-enc", "sub-enc:" + d.kind, d.kind + ":" + cls}, lb...)
	if !d.wellFormed() {
		labels = append(labels, "sub-enc:ill-formed(model only)")
	}
	idx := g.run.Add(line, impl, nontriv, labels...)
	if fail != "" {
		g.run.Fail(idx, line, fail, "c08b-"+d.kind+"-encode")
	}
	return enc
}

func (g *gen) read(tp int, data []byte, pos int, lb ...string) {
	line := vlib.Line(vlib.Atom("sub-read"), vlib.Int(tp), vlib.Hex(data), vlib.Int(pos))
	impl, fail := readCase(tp, data, pos)
	cls := "ok"
	switch impl {
	case "err", "panic", "hang":
		cls = impl
	}
	labels := append([]string{"sub-read", fmt.Sprintf("sub-read:gpos%d", tp), fmt.Sprintf("read%d:%s", tp, cls)}, lb...)
	idx := g.run.Add(line, impl, len(data) >= 12, labels...)
	if fail != "" {
		g.run.Fail(idx, line, fail, fmt.Sprintf("c08b-gpos%d-read", tp))
	}
}

// encThenRead: the encoder case, then the reader on the emitted bytes - at
// position 0 and behind a junk prefix.
func (g *gen) encThenRead(r *vlib.Rand, d desc, lb ...string) {
	enc := g.enc(d, lb...)
	if enc == nil {
		return
	}
	g.keep(d.kind, enc)
	if len(enc) > 20000 {
		return // large tables are read back by the oracle; the model reads the boundary cases chosen below
	}
	tp := lookupTypeOf[d.kind]
	g.read(tp, enc, 0, "read:valid")
	if r.Chance(1, 3) {
		pre := r.Bytes(1 + r.Intn(9))
		g.read(tp, append(pre, enc...), len(pre), "read:valid-with-prefix")
	}
}

func anchorVal(r *vlib.Rand) int {
	return vlib.Pick(r, []int{1, -1, 255, 256, -256, 32767, -32768, r.Intn(2001) - 1000, r.Intn(65536) - 32768})
}

func genAnchor(r *vlib.Rand, emptyNum, emptyDen int) [2]int {
	if r.Chance(emptyNum, emptyDen) {
		return [2]int{0, 0}
	}
	if r.Chance(1, 8) {
		return [2]int{0, anchorVal(r)} // one coordinate zero is still an anchor
	}
	return [2]int{anchorVal(r), anchorVal(r)}
}

// ---- GPOS 4.1 / 6.1 ----

func genMarkbase(r *vlib.Rand, kind string, nm, nb, nc int, emptyNum, emptyDen int) desc {
	d := desc{kind: kind, marks: [][3]int{}, rows: [][][2]int{}}
	d.cov1 = covOfGlyphs(glyphList(r, nm))
	d.cov2 = covOfGlyphs(glyphList(r, nb))
	for i := 0; i < nm; i++ {
		c := 0
		if nc > 0 {
			c = r.Intn(nc)
		}
		a := genAnchor(r, 1, 10) // the mark anchor may be (0,0): it is written anyway
		d.marks = append(d.marks, [3]int{c, a[0], a[1]})
	}
	for i := 0; i < nb; i++ {
		row := make([][2]int, nc)
		for j := range row {
			row[j] = genAnchor(r, emptyNum, emptyDen)
		}
		d.rows = append(d.rows, row)
	}
	return d
}

// bigMarkbase: nb x nc matrix with exactly k anchors present (the first k),
// consecutive coverage tables (small), nm marks.
func bigMarkbase(kind string, nm, nb, nc, k int, covBreaks int) desc {
	d := desc{kind: kind, marks: [][3]int{}, rows: [][][2]int{}}
	d.cov1 = covOfGlyphs(runList(100, nm, covBreaks))
	d.cov2 = covOfGlyphs(runList(30000, nb, 0))
	for i := 0; i < nm; i++ {
		c := 0
		if nc > 0 {
			c = i % nc
		}
		d.marks = append(d.marks, [3]int{c, i%2000 - 1000, 7})
	}
	for i := 0; i < nb; i++ {
		row := make([][2]int, nc)
		for j := range row {
			if k > 0 {
				row[j] = [2]int{1 + (i+j)%500, -3}
				k--
			}
		}
		d.rows = append(d.rows, row)
	}
	return d
}

// shareAnchors encodes d and redirects every non-NULL base array offset to the
// first anchor table of the base array.
func shareAnchors(d desc) ([]byte, bool) {
	_, fail, enc := encCase(d)
	if fail != "" || len(enc) < 12 {
		return nil, false
	}
	enc = append([]byte(nil), enc...)
	mcc := int(enc[6])<<8 | int(enc[7])
	bao := int(enc[10])<<8 | int(enc[11])
	if bao+2 > len(enc) {
		return nil, false
	}
	n := (int(enc[bao])<<8 | int(enc[bao+1])) * mcc
	first := 0
	for k := 0; k < n; k++ {
		p := bao + 2 + 2*k
		if p+2 > len(enc) {
			return nil, false
		}
		if o := int(enc[p])<<8 | int(enc[p+1]); o != 0 {
			if first == 0 {
				first = o
			}
			enc[p], enc[p+1] = byte(first>>8), byte(first)
		}
	}
	return enc, first != 0
}

func (g *gen) markbase(r *vlib.Rand, kind string) {
	// structured, small
	for k := 0; k < vlib.Count(g.tier, 150, 4000); k++ {
		nm, nb, nc := r.Intn(9), r.Intn(9), r.Intn(5)
		if r.Chance(1, 10) {
			nm, nb, nc = r.Intn(40), r.Intn(40), r.Intn(12)
		}
		g.encThenRead(r, genMarkbase(r, kind, nm, nb, nc, vlib.Pick(r, []int{0, 1, 1, 3}), 4))
	}
	// counts 0 / 1
	for _, c := range [][3]int{{0, 0, 0}, {0, 0, 1}, {1, 0, 1}, {0, 1, 0}, {0, 1, 1}, {1, 1, 0}, {1, 1, 1}, {2, 1, 3}, {1, 2, 0}, {3, 0, 5}} {
		g.encThenRead(r, genMarkbase(r, kind, c[0], c[1], c[2], 1, 4), "boundary:counts-0-1")
	}
	// shared anchors: every non-NULL offset of the base array points to the
	// same anchor table (legal, and what font compilers do to save space)
	for k := 0; k < vlib.Count(g.tier, 12, 200); k++ {
		d := genMarkbase(r, kind, 1+r.Intn(4), 1+r.Intn(5), 1+r.Intn(4), 1, 4)
		if enc, ok := shareAnchors(d); ok {
			g.read(lookupTypeOf[kind], enc, 0, "read:valid", "read:shared-anchors")
		}
	}
	// all anchors empty / none empty; nil-like rows
	g.encThenRead(r, genMarkbase(r, kind, 3, 4, 3, 1, 1), "boundary:all-base-anchors-empty")
	g.encThenRead(r, genMarkbase(r, kind, 3, 4, 3, 0, 1), "boundary:no-base-anchor-empty")
	// mark class 65535 without base records: markClassCount = 65536
	d := genMarkbase(r, kind, 2, 0, 1, 0, 1)
	d.marks[1][0] = 65535
	g.enc(d, "boundary:markClassCount=65536")
	d = genMarkbase(r, kind, 2, 0, 1, 0, 1)
	d.marks[1][0] = 65534
	g.encThenRead(r, d, "boundary:markClassCount=65535")
	// header offsets around 65535: baseArrayOffset = 12 + cov1 + cov2 + 2 + 10*nm
	//   nm = 6550: 65514 + cov1 + cov2; cov1 = 4 + 6*(breaks+1), cov2 = 4 (no base glyph) or 6 (one)
	g.enc(bigMarkbase(kind, 6550, 0, 1, 0, 0), "boundary:baseArrayOffset=65528")
	g.enc(bigMarkbase(kind, 6550, 0, 1, 0, 1), "boundary:baseArrayOffset=65534")
	g.enc(bigMarkbase(kind, 6550, 1, 1, 1, 1), "boundary:baseArrayOffset=65536")
	g.enc(bigMarkbase(kind, 6551, 0, 1, 0, 0), "boundary:baseArrayOffset=65538")
	g.enc(bigMarkbase(kind, 6554, 0, 1, 0, 0), "boundary:markAnchorOffset=65536")
	// base anchor offsets around 65535: 2 + 2*nb*nc + 6*(k-1) for the k-th anchor
	//   nb*nc = 10000: 20002 + 6*(k-1): k = 7589 -> 65530 (fits), k = 7590 -> 65536
	enc := g.enc(bigMarkbase(kind, 2, 1000, 10, 7589, 0), "boundary:lastBaseAnchorOffset=65530")
	if enc != nil {
		g.read(lookupTypeOf[kind], enc, 0, "read:valid", "read:large(offsets near 65535)")
	}
	g.enc(bigMarkbase(kind, 2, 1000, 10, 7590, 0), "boundary:lastBaseAnchorOffset=65536")
	g.enc(bigMarkbase(kind, 2, 1000, 10, 10000, 0), "boundary:lastBaseAnchorOffset=79996")
	// number of offsets at the reader's limit (65536-6-2)/2 = 32764
	g.enc(bigMarkbase(kind, 1, 8191, 4, 0, 0), "boundary:numOffsets=32764")
	g.enc(bigMarkbase(kind, 1, 6553, 5, 0, 0), "boundary:numOffsets=32765")
	g.enc(bigMarkbase(kind, 1, 32764, 1, 3, 0), "boundary:numOffsets=32764")
	// a base coverage of all 65536 glyphs with empty rows: baseCount = 65536
	if g.tier == "thorough" {
		d = desc{kind: kind, cov1: []pair{}, marks: [][3]int{}, cov2: covOfGlyphs(runList(0, 65536, 0)), rows: make([][][2]int, 65536)}
		for i := range d.rows {
			d.rows[i] = [][2]int{}
		}
		g.enc(d, "boundary:baseCount=65536")
	}
	if g.tier == "thorough" {
		for k := 0; k < 40; k++ {
			nm := 6530 + r.Intn(30)
			g.enc(bigMarkbase(kind, nm, r.Intn(3), 1, r.Intn(3), r.Intn(4)), "boundary:baseArrayOffset-sweep")
			g.enc(bigMarkbase(kind, 2, 1000, 10, 7570+r.Intn(40), 0), "boundary:lastBaseAnchorOffset-sweep")
		}
	}
	// ill-formed (outside the property's domain, compared with the model only):
	// ragged rows, missing records, invalid coverage
	d = genMarkbase(r, kind, 2, 3, 2, 1, 4)
	d.rows[1] = d.rows[1][:1]
	g.enc(d, "ill-formed:ragged-rows")
	d = genMarkbase(r, kind, 3, 2, 2, 1, 4)
	d.marks = d.marks[:2]
	g.enc(d, "ill-formed:fewer-marks-than-glyphs")
	d = genMarkbase(r, kind, 3, 2, 2, 1, 4)
	d.cov1[0].i, d.cov1[1].i = 1, 0
	g.enc(d, "ill-formed:coverage-not-monotone")
}

// ---- GPOS 2.2 ----

// a value record whose format is exactly f (bits 0..7); f = 0 gives nil
func vrWithFormat(r *vlib.Rand, f int) vr {
	if f == 0 {
		return nil
	}
	var v [8]int
	for k := 0; k < 8; k++ {
		if f&(1<<uint(k)) != 0 {
			if k < 4 {
				v[k] = vlib.Pick(r, []int{1, -1, 255, -256, 32767, -32768, r.Intn(2001) - 1000})
			} else {
				v[k] = vlib.Pick(r, []int{1, 255, 256, 65535, 1 + r.Intn(65535)})
			}
		}
	}
	return &v
}

func genVR(r *vlib.Rand) vr {
	switch r.Intn(8) {
	case 0:
		return nil
	case 1:
		return &[8]int{} // non-nil, all zero: format 4
	case 2:
		return vrWithFormat(r, 4)
	}
	return vrWithFormat(r, r.Intn(256))
}

func genClassDef(r *vlib.Rand, nclasses int) []pair {
	ps := []pair{}
	if nclasses <= 1 || r.Chance(1, 8) {
		return ps
	}
	g := r.Intn(300)
	for n := r.Intn(25); n > 0 && g < 65536; n-- {
		l := 1 + r.Intn(4)
		c := r.Intn(nclasses)
		if r.Chance(1, 6) {
			c = 0 // an explicit class 0 entry means "not listed"
		}
		for k := 0; k < l && g < 65536; k++ {
			ps = append(ps, pair{g, c})
			g++
		}
		g += r.Intn(4)
	}
	return ps
}

func genGpos22(r *vlib.Rand, c1, c2 int, mk func() vr) desc {
	d := desc{kind: "gpos22", adj: [][][2]vr{}}
	d.set = glyphList(r, r.Intn(12))
	d.cd1 = genClassDef(r, c1)
	d.cd2 = genClassDef(r, c2)
	for i := 0; i < c1; i++ {
		row := make([][2]vr, c2)
		for j := range row {
			row[j] = [2]vr{mk(), mk()}
		}
		d.adj = append(d.adj, row)
	}
	return d
}

func (g *gen) gpos22(r *vlib.Rand) {
	for k := 0; k < vlib.Count(g.tier, 150, 4000); k++ {
		c1, c2 := r.Intn(5), r.Intn(5)
		if r.Chance(1, 10) {
			c1, c2 = r.Intn(20), r.Intn(20)
		}
		g.encThenRead(r, genGpos22(r, c1, c2, func() vr { return genVR(r) }))
	}
	// class counts 0 / 1, empty coverage, empty class tables
	for _, c := range [][2]int{{0, 0}, {1, 0}, {0, 1}, {1, 1}, {3, 0}, {1, 3}, {2, 2}} {
		d := genGpos22(r, c[0], c[1], func() vr { return genVR(r) })
		g.encThenRead(r, d, "boundary:class-counts-0-1")
		d.set, d.cd1, d.cd2 = []int{}, []pair{}, []pair{}
		g.encThenRead(r, d, "boundary:empty-coverage-and-classes")
	}
	// all value-format combinations: quick = every format on each side against
	// 0, itself and a random one; thorough = all 256 x 256
	for f1 := 0; f1 < 256; f1++ {
		f2s := []int{0, f1, r.Intn(256)}
		if g.tier == "thorough" {
			f2s = f2s[:0]
			for f2 := 0; f2 < 256; f2++ {
				f2s = append(f2s, f2)
			}
		}
		for _, f2 := range f2s {
			d := desc{kind: "gpos22", set: []int{7}, cd1: []pair{{7, 1}}, cd2: []pair{{9, 1}}}
			a, b := f1, f2
			if r.Chance(1, 2) && g.tier != "thorough" {
				a, b = f2, f1
			}
			d.adj = [][][2]vr{{{nil, nil}, {vrWithFormat(r, a), vrWithFormat(r, b)}}, {{vrWithFormat(r, a), nil}, {nil, vrWithFormat(r, b)}}}
			enc := g.enc(d, "boundary:value-formats")
			if enc != nil && (g.tier != "thorough" || r.Chance(1, 16)) {
				g.keep(d.kind, enc)
				g.read(2, enc, 0, "read:valid")
			}
		}
	}
	// class1Count*class2Count at the reader's limit 65535 (nil records: 0 bytes each)
	nilrec := func() vr { return nil }
	big := func(c1, c2 int, mk func() vr, lb string) {
		d := desc{kind: "gpos22", set: []int{1, 2, 3}, cd1: []pair{{1, 1}}, cd2: []pair{{2, 1}}, adj: [][][2]vr{}}
		for i := 0; i < c1; i++ {
			row := make([][2]vr, c2)
			for j := range row {
				row[j] = [2]vr{mk(), nil}
			}
			d.adj = append(d.adj, row)
		}
		g.enc(d, lb)
	}
	big(255, 257, nilrec, "boundary:class1Count*class2Count=65535")
	big(256, 256, nilrec, "boundary:class1Count*class2Count=65536")
	// offsets around 65535 with 2-byte records (XAdvance): 16 + 2*c1*c2 + 10 (coverage) + 10 (class table)
	xadv := func() vr { return &[8]int{0, 0, 5, 0, 0, 0, 0, 0} }
	big(127, 258, xadv, "boundary:classDef2Offset=65568")  // 32766 records
	big(129, 253, xadv, "boundary:classDef2Offset=65310")  // 32637 records
	big(131, 250, xadv, "boundary:classDef2Offset=65536")  // 32750 records: 16+65500+10+10
	big(2, 16374, xadv, "boundary:classDef2Offset=65532")  // 32748 records
	big(100, 100, func() vr { return &[8]int{1, 2, 3, 4, 0, 0, 0, 0} }, "boundary:coverageOffset=80016")
	// ill-formed: ragged rows (outside the property's domain, model only)
	d := genGpos22(r, 3, 3, func() vr { return genVR(r) })
	d.adj[1] = d.adj[1][:2]
	g.enc(d, "ill-formed:ragged-rows")
	d = genGpos22(r, 2, 2, func() vr { return genVR(r) })
	d.adj[1] = append(d.adj[1], [2]vr{nil, nil})
	g.enc(d, "ill-formed:ragged-rows")
}

// ---- GPOS 3.1 ----

func genGpos31(r *vlib.Rand, n int) desc {
	d := desc{kind: "gpos31", ee: [][4]int{}}
	d.cov1 = covOfGlyphs(glyphList(r, n))
	for i := 0; i < n; i++ {
		en, ex := genAnchor(r, 1, 3), genAnchor(r, 1, 3)
		d.ee = append(d.ee, [4]int{en[0], en[1], ex[0], ex[1]})
	}
	return d
}

// n records, the first k anchors (entry, exit, entry, ...) present
func bigGpos31(n, k int) desc {
	d := desc{kind: "gpos31", ee: make([][4]int, n)}
	d.cov1 = covOfGlyphs(runList(10, n, 0))
	for i := 0; i < n && k > 0; i++ {
		d.ee[i][0], d.ee[i][1] = 1+i%300, 2
		k--
		if k > 0 {
			d.ee[i][2], d.ee[i][3] = -3, 4+i%300
			k--
		}
	}
	return d
}

func (g *gen) gpos31(r *vlib.Rand) {
	for k := 0; k < vlib.Count(g.tier, 150, 4000); k++ {
		n := r.Intn(8)
		if r.Chance(1, 10) {
			n = r.Intn(60)
		}
		g.encThenRead(r, genGpos31(r, n))
	}
	for _, n := range []int{0, 1, 1, 2} {
		g.encThenRead(r, genGpos31(r, n), "boundary:counts-0-1")
	}
	// nil anchors: entry only, exit only, none, both
	d := desc{kind: "gpos31", cov1: covOfGlyphs([]int{4, 5, 6, 9}), ee: [][4]int{{1, 2, 0, 0}, {0, 0, 3, 4}, {0, 0, 0, 0}, {5, 6, 7, 8}}}
	g.encThenRead(r, d, "boundary:nil-anchors")
	// shared anchors: the exit anchors reuse the entry anchor's table
	for k := 0; k < vlib.Count(g.tier, 12, 200); k++ {
		d := genGpos31(r, 1+r.Intn(6))
		if _, fail, enc := encCase(d); fail == "" && len(enc) > 6 {
			enc = append([]byte(nil), enc...)
			n := int(enc[4])<<8 | int(enc[5])
			for i := 0; i < n && 10+4*i <= len(enc); i++ {
				p := 6 + 4*i
				if (enc[p] != 0 || enc[p+1] != 0) && (enc[p+2] != 0 || enc[p+3] != 0) {
					enc[p+2], enc[p+3] = enc[p], enc[p+1]
				}
			}
			g.read(3, enc, 0, "read:valid", "read:shared-anchors")
		}
	}
	// coverage offset 6 + 4n + 6k around 65535 (n = 5000: 20006 + 6k; k = 7588 -> 65534)
	enc := g.enc(bigGpos31(5000, 7588), "boundary:coverageOffset=65534")
	if enc != nil {
		g.read(3, enc, 0, "read:valid", "read:large(offsets near 65535)")
	}
	g.enc(bigGpos31(5000, 7589), "boundary:coverageOffset=65540")
	g.enc(bigGpos31(5000, 10000), "boundary:coverageOffset=80006")
	g.enc(bigGpos31(16382, 0), "boundary:coverageOffset=65534(no anchors)")
	g.enc(bigGpos31(16383, 0), "boundary:coverageOffset=65538(no anchors)")
	// the witness of gpos3_1_len_agrees_refuted_found: the last exit anchor at 65536
	d = bigGpos31(16381, 0)
	d.ee[16380] = [4]int{1, 2, 3, 4}
	g.enc(d, "boundary:exitAnchorOffset=65536")
	if g.tier == "thorough" {
		for k := 0; k < 40; k++ {
			g.enc(bigGpos31(5000, 7570+r.Intn(40)), "boundary:coverageOffset-sweep")
		}
	}
	d = genGpos31(r, 4)
	d.ee = d.ee[:3]
	g.enc(d, "ill-formed:fewer-records-than-glyphs")
}

// ---- GPOS 5.1 ----

func genGpos51(r *vlib.Rand, nm, nl, mcc int) desc {
	d := desc{kind: "gpos51", marks: [][3]int{}, ligs: [][][][2]int{}}
	d.cov1 = covOfGlyphs(glyphList(r, nm))
	d.cov2 = covOfGlyphs(glyphList(r, nl))
	for i := 0; i < nm; i++ {
		c := 0
		if mcc > 0 {
			c = r.Intn(mcc)
		}
		a := genAnchor(r, 1, 10)
		d.marks = append(d.marks, [3]int{c, a[0], a[1]})
	}
	for i := 0; i < nl; i++ {
		comps := [][][2]int{}
		for j := r.Intn(4); j > 0; j-- {
			row := make([][2]int, mcc)
			for k := range row {
				row[k] = genAnchor(r, 1, 3)
			}
			comps = append(comps, row)
		}
		d.ligs = append(d.ligs, comps)
	}
	return d
}

func (g *gen) spec51(d desc, mcc int, lb ...string) []byte {
	line := vlib.Line(vlib.Atom("spec51"), runsSx(d.cov1), runsSx(d.cov2), vlib.Int(mcc), marksSx(d.marks), d.sx().(vlib.List)[4])
	impl, fail, b := spec51Case(d, mcc)
	labels := append([]string{"spec51", "spec51:layout+reader-oracle"}, lb...)
	idx := g.run.Add(line, impl, len(d.ligs)+len(d.marks) >= 2, labels...)
	if fail != "" {
		g.run.Fail(idx, line, fail, "c08b-gpos51-read")
	}
	return b
}

func (g *gen) gpos51(r *vlib.Rand) {
	// the encoder: refuses everything (not implemented)
	for k := 0; k < vlib.Count(g.tier, 10, 100); k++ {
		g.enc(genGpos51(r, r.Intn(4), r.Intn(4), 1+r.Intn(3)))
	}
	// the reader on the specification layout
	for k := 0; k < vlib.Count(g.tier, 200, 5000); k++ {
		nm, nl, mcc := r.Intn(6), r.Intn(6), r.Intn(4)
		if r.Chance(1, 10) {
			nm, nl, mcc = r.Intn(30), r.Intn(30), r.Intn(8)
		}
		d := genGpos51(r, nm, nl, mcc)
		b := g.spec51(d, mcc)
		if b != nil && len(b) <= 20000 {
			g.keep("gpos51", b)
			g.read(5, b, 0, "read:valid")
			if r.Chance(1, 4) {
				pre := r.Bytes(1 + r.Intn(9))
				g.read(5, append(pre, b...), len(pre), "read:valid-with-prefix")
			}
		}
	}
	for _, c := range [][3]int{{0, 0, 0}, {1, 0, 1}, {0, 1, 0}, {0, 1, 2}, {1, 1, 1}, {2, 2, 0}} {
		d := genGpos51(r, c[0], c[1], c[2])
		b := g.spec51(d, c[2], "boundary:counts-0-1")
		g.read(5, b, 0, "read:valid")
	}
	// a ligature without components, all anchors NULL
	d := genGpos51(r, 2, 3, 2)
	d.ligs[0] = [][][2]int{}
	d.ligs[1] = [][][2]int{{{0, 0}, {0, 0}}, {{0, 0}, {0, 0}}}
	g.read(5, g.spec51(d, 2, "boundary:null-anchors"), 0, "read:valid")
	// component records at the reader's limit of 32764 offsets (all NULL) and beyond
	mk := func(comps, mcc int) desc {
		d := desc{kind: "gpos51", cov1: []pair{}, marks: [][3]int{}, cov2: covOfGlyphs([]int{40})}
		l := make([][][2]int, comps)
		for i := range l {
			l[i] = make([][2]int, mcc)
		}
		l[comps-1][mcc-1] = [2]int{5, 6}
		d.ligs = [][][][2]int{l}
		return d
	}
	b := g.spec51(mk(8191, 4), 4, "boundary:numOffsets=32764")
	g.read(5, b, 0, "read:valid", "read:large(offsets near 65535)")
	b = g.spec51(mk(6553, 5), 5, "boundary:numOffsets=32765")
	g.read(5, b, 0, "read:reader-limit")
	// aliased LigatureAttach offsets: every ligature points back to the
	// LigatureArray itself, whose first word (the ligature count) is then
	// read as the component count: quadratic work and memory in the reader
	// as found; the repaired reader stops at its budget
	for _, n := range []int{1000, 4000} {
		b := []byte{0, 1, 0, 12, 0, 16, 0, 0, 0, 26, 0, 28, 0, 1, 0, 0, 0, 2, 0, 1, 0, 0, byte((n - 1) >> 8), byte(n - 1), 0, 0, 0, 0}
		b = append(b, be16(n)...)
		b = append(b, make([]byte, 2*n)...)
		g.read(5, b, 0, "read:malformed", "mut:aliased-ligature-attach", fmt.Sprintf("boundary:aliased-ligatures=%d", n))
	}
	// ill-formed rows (model only)
	d = genGpos51(r, 1, 1, 2)
	d.ligs[0] = [][][2]int{{{1, 1}}}
	g.spec51(d, 2, "ill-formed:ragged-rows")
}

// ---- anchors and mark arrays ----

func (g *gen) anchors(r *vlib.Rand) {
	for k := 0; k < vlib.Count(g.tier, 120, 3000); k++ {
		pre := r.Bytes(r.Intn(5))
		format := vlib.Pick(r, []int{1, 1, 1, 2, 3, 0, 4, 256, 65535, r.Intn(65536)})
		b := append(append([]byte(nil), pre...), be16(format)...)
		b = append(b, be16(anchorVal(r))...)
		b = append(b, be16(anchorVal(r))...)
		b = append(b, r.Bytes(r.Intn(5))...)
		if r.Chance(1, 5) {
			b = b[:r.Intn(len(b)+1)]
		}
		pos := len(pre)
		if r.Chance(1, 10) {
			pos = r.Intn(len(b) + 3)
		}
		line := vlib.Line(vlib.Atom("anchor-read"), vlib.Hex(b), vlib.Int(pos))
		impl, fail := anchorReadCase(b, pos)
		idx := g.run.Add(line, impl, true, "anchor-read", "anchor-read:"+impl[:min(3, len(impl))])
		if fail != "" {
			g.run.Fail(idx, line, fail, "c08b-anchor-read")
		}
	}
	for k := 0; k < vlib.Count(g.tier, 120, 3000); k++ {
		// a mark array as the encoders write it, then damaged half of the time
		nm := r.Intn(6)
		var b []byte
		b = append(b, be16(nm)...)
		offs := 2 + 4*nm
		for i := 0; i < nm; i++ {
			b = append(b, be16(r.Intn(4))...)
			b = append(b, be16(offs)...)
			offs += 6
		}
		for i := 0; i < nm; i++ {
			b = append(b, anchorBytes([2]int{anchorVal(r), anchorVal(r)})...)
		}
		lb := "markarray-read:valid"
		if r.Chance(1, 2) {
			b, lb = mutate(r, b)
			lb = "markarray-read:" + lb
		}
		pre := r.Bytes(r.Intn(4))
		data := append(pre, b...)
		n := vlib.Pick(r, []int{nm, nm, nm + 1, 0, 1, 65535, r.Intn(8)})
		line := vlib.Line(vlib.Atom("markarray-read"), vlib.Hex(data), vlib.Int(len(pre)), vlib.Int(n))
		impl, fail := markArrayReadCase(data, len(pre), n)
		idx := g.run.Add(line, impl, true, "markarray-read", lb)
		if fail != "" {
			g.run.Fail(idx, line, fail, "c08b-markarray-read")
		}
	}
}

// ---- malformed stream for the readers ----

func (g *gen) malformed(r *vlib.Rand) {
	n := vlib.Count(g.tier, 2500, 60000)
	for k := 0; k < n; k++ {
		pool := g.samples[kinds[k%len(kinds)]]
		if len(pool) == 0 {
			continue
		}
		s := pool[r.Intn(len(pool))]
		b, lb := mutate(r, s.enc)
		if r.Chance(1, 6) {
			var lb2 string
			b, lb2 = mutate(r, b)
			lb = lb + "+" + lb2[4:]
		}
		tp := lookupTypeOf[s.kind]
		pos := 0
		if r.Chance(1, 8) {
			pre := r.Bytes(1 + r.Intn(6))
			b = append(pre, b...)
			pos = len(pre)
		}
		if r.Chance(1, 40) {
			pos = r.Intn(len(b) + 2) // a position inside or just beyond the data
			lb = "mut:position"
		}
		g.read(tp, b, pos, "read:malformed", lb)
	}
	// pure noise and very short inputs
	for k := 0; k < vlib.Count(g.tier, 150, 2000); k++ {
		b := r.Bytes(r.Intn(40))
		if len(b) >= 2 && r.Chance(3, 4) {
			b[0], b[1] = 0, byte(1+r.Intn(2))
		}
		g.read(2+r.Intn(5), b, 0, "read:malformed", "mut:noise")
	}
}
