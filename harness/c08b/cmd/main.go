package main

import (
	"seehuhn.de/go/sfnt/verifharness/c08b"
	"seehuhn.de/go/sfnt/verifharness/vlib"
)

func main() { vlib.Main(c08b.Gen, c08b.RunCase) }
