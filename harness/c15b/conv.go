package c15b

import (
	"seehuhn.de/go/postscript/funit"

	"seehuhn.de/go/sfnt/glyph"
	"seehuhn.de/go/sfnt/opentype/anchor"
	"seehuhn.de/go/sfnt/opentype/classdef"
	"seehuhn.de/go/sfnt/opentype/coverage"
	"seehuhn.de/go/sfnt/opentype/gdef"
	"seehuhn.de/go/sfnt/opentype/gtab"
	"seehuhn.de/go/sfnt/opentype/markarray"
	"seehuhn.de/go/sfnt/verifharness/c06"
)

// ---- abstract description (C06's case syntax) -> the library's structures ----
//
// The abstract types are C06's (c06.Sub, c06.Lookup, c06.Gdef); the
// conversion to gtab structures is written here because C06's converter is
// not exported.  Every lookup also gets the LookupType a font file needs.

func gids(xs []int) []glyph.ID {
	out := make([]glyph.ID, len(xs))
	for i, x := range xs {
		out[i] = glyph.ID(x)
	}
	return out
}

func u16s(xs []int) []uint16 {
	out := make([]uint16, len(xs))
	for i, x := range xs {
		out[i] = uint16(x)
	}
	return out
}

func covSet(xs []int) coverage.Set {
	s := coverage.Set{}
	for _, x := range xs {
		s[glyph.ID(x)] = true
	}
	return s
}

func covSets(xs [][]int) []coverage.Set {
	out := make([]coverage.Set, len(xs))
	for i, x := range xs {
		out[i] = covSet(x)
	}
	return out
}

func covTable(xs []int) coverage.Table {
	t := coverage.Table{}
	for i, x := range xs {
		t[glyph.ID(x)] = i
	}
	return t
}

func classDef(xs [][2]int) classdef.Table {
	t := classdef.Table{}
	for _, x := range xs {
		t[glyph.ID(x[0])] = uint16(x[1])
	}
	return t
}

func seqLookups(as []c06.Action) []gtab.SeqLookup {
	out := make([]gtab.SeqLookup, len(as))
	for i, a := range as {
		out[i] = gtab.SeqLookup{SequenceIndex: uint16(a.Seq), LookupListIndex: gtab.LookupIndex(a.Lookup)}
	}
	return out
}

func valueRecord(v c06.VRec) *gtab.GposValueRecord {
	r := &gtab.GposValueRecord{
		XPlacement: funit.Int16(v.X),
		YPlacement: funit.Int16(v.Y),
		XAdvance:   funit.Int16(v.A),
	}
	if v.Bad {
		r.YAdvance = 1
	}
	return r
}

func pairAdjust(c c06.PairCell) *gtab.PairAdjust {
	pa := &gtab.PairAdjust{First: valueRecord(c.V1)}
	if c.V2 != nil {
		pa.Second = valueRecord(*c.V2)
	}
	return pa
}

// subToGtab returns the subtable and its lookup type in a GSUB (gpos=false)
// or GPOS (gpos=true) table; 0 when the kind does not belong into that table.
func subToGtab(s *c06.Sub, gpos bool) (gtab.Subtable, int) {
	ctxType := func(seq bool) int {
		switch {
		case seq && !gpos:
			return 5
		case seq && gpos:
			return 7
		case !seq && !gpos:
			return 6
		}
		return 8
	}
	only := func(t int, wantGpos bool) int {
		if gpos != wantGpos {
			return 0
		}
		return t
	}
	switch s.Kind {
	case "s1":
		return &gtab.Gsub1_1{Cov: covSet(s.Cov), Delta: glyph.ID(s.Delta)}, only(1, false)
	case "s2":
		var keys, vals []int
		for _, e := range s.Map {
			keys = append(keys, e[0])
			vals = append(vals, e[1])
		}
		return &gtab.Gsub1_2{Cov: covTable(keys), SubstituteGlyphIDs: gids(vals)}, only(1, false)
	case "mul", "alt":
		var keys []int
		var repl [][]glyph.ID
		for _, e := range s.KVs {
			keys = append(keys, e.G)
			repl = append(repl, gids(e.Vals))
		}
		if s.Kind == "mul" {
			return &gtab.Gsub2_1{Cov: covTable(keys), Repl: repl}, only(2, false)
		}
		return &gtab.Gsub3_1{Cov: covTable(keys), Alternates: repl}, only(3, false)
	case "lig":
		var keys []int
		var repl [][]gtab.Ligature
		for _, e := range s.LigSets {
			keys = append(keys, e.G)
			var ls []gtab.Ligature
			for _, l := range e.Ligs {
				ls = append(ls, gtab.Ligature{In: gids(l.Comps), Out: glyph.ID(l.Out)})
			}
			repl = append(repl, ls)
		}
		return &gtab.Gsub4_1{Cov: covTable(keys), Repl: repl}, only(4, false)
	case "c1":
		var keys []int
		var rules [][]*gtab.SeqRule
		for _, e := range s.CSets {
			keys = append(keys, e.G)
			var rs []*gtab.SeqRule
			for _, r := range e.Rules {
				rs = append(rs, &gtab.SeqRule{Input: gids(r.In), Actions: seqLookups(r.Acts)})
			}
			rules = append(rules, rs)
		}
		return &gtab.SeqContext1{Cov: covTable(keys), Rules: rules}, ctxType(true)
	case "c2":
		var rules [][]*gtab.ClassSeqRule
		for _, e := range s.CRules {
			var rs []*gtab.ClassSeqRule
			for _, r := range e {
				rs = append(rs, &gtab.ClassSeqRule{Input: u16s(r.In), Actions: seqLookups(r.Acts)})
			}
			rules = append(rules, rs)
		}
		return &gtab.SeqContext2{Cov: covTable(s.Cov), Input: classDef(s.CD), Rules: rules}, ctxType(true)
	case "c3":
		return &gtab.SeqContext3{Input: covSets(s.Covs), Actions: seqLookups(s.Acts)}, ctxType(true)
	case "k1":
		var keys []int
		var rules [][]*gtab.ChainedSeqRule
		for _, e := range s.KSets {
			keys = append(keys, e.G)
			var rs []*gtab.ChainedSeqRule
			for _, r := range e.Rules {
				rs = append(rs, &gtab.ChainedSeqRule{Backtrack: gids(r.Back), Input: gids(r.In),
					Lookahead: gids(r.Look), Actions: seqLookups(r.Acts)})
			}
			rules = append(rules, rs)
		}
		return &gtab.ChainedSeqContext1{Cov: covTable(keys), Rules: rules}, ctxType(false)
	case "k2":
		var rules [][]*gtab.ChainedClassSeqRule
		for _, e := range s.KRules {
			var rs []*gtab.ChainedClassSeqRule
			for _, r := range e {
				rs = append(rs, &gtab.ChainedClassSeqRule{Backtrack: u16s(r.Back), Input: u16s(r.In),
					Lookahead: u16s(r.Look), Actions: seqLookups(r.Acts)})
			}
			rules = append(rules, rs)
		}
		return &gtab.ChainedSeqContext2{Cov: covTable(s.Cov), Backtrack: classDef(s.CD),
			Input: classDef(s.CD2), Lookahead: classDef(s.CD3), Rules: rules}, ctxType(false)
	case "k3":
		return &gtab.ChainedSeqContext3{Backtrack: covSets(s.Covs), Input: covSets(s.Covs2),
			Lookahead: covSets(s.Covs3), Actions: seqLookups(s.Acts)}, ctxType(false)
	case "p1":
		return &gtab.Gpos1_1{Cov: covTable(s.Cov), Adjust: valueRecord(s.V)}, only(1, true)
	case "p2":
		var keys []int
		var adj []*gtab.GposValueRecord
		for _, e := range s.GVs {
			keys = append(keys, e.G)
			adj = append(adj, valueRecord(e.V))
		}
		return &gtab.Gpos1_2{Cov: covTable(keys), Adjust: adj}, only(1, true)
	case "pp1":
		t := gtab.Gpos2_1{}
		for _, r := range s.PairRows {
			for _, e := range r.Ents {
				t[glyph.Pair{Left: glyph.ID(r.G), Right: glyph.ID(e.G2)}] = pairAdjust(e.PairCell)
			}
		}
		return t, only(2, true)
	case "pp2":
		var adj [][]*gtab.PairAdjust
		for _, r := range s.PairMat {
			var row []*gtab.PairAdjust
			for _, c := range r {
				row = append(row, pairAdjust(c))
			}
			adj = append(adj, row)
		}
		return &gtab.Gpos2_2{Cov: covSet(s.Cov), Class1: classDef(s.CD), Class2: classDef(s.CD2), Adjust: adj}, only(2, true)
	case "r8":
		var keys, vals []int
		for _, e := range s.Map {
			keys = append(keys, e[0])
			vals = append(vals, e[1])
		}
		back := make([]coverage.Table, len(s.Covs))
		for i, c := range s.Covs {
			back[i] = covTable(c)
		}
		look := make([]coverage.Table, len(s.Covs3))
		for i, c := range s.Covs3 {
			look[i] = covTable(c)
		}
		return &gtab.Gsub8_1{Input: covTable(keys), Backtrack: back, Lookahead: look, SubstituteGlyphIDs: gids(vals)}, only(8, false)
	case "mb", "mm":
		var mk, bk []int
		var marr []markarray.Record
		for _, m := range s.Marks {
			mk = append(mk, m.G)
			marr = append(marr, markarray.Record{Class: uint16(m.Cls),
				Table: anchor.Table{X: funit.Int16(m.X), Y: funit.Int16(m.Y)}})
		}
		var barr [][]anchor.Table
		for _, b := range s.Bases {
			bk = append(bk, b.G)
			var row []anchor.Table
			for _, a := range b.Anchors {
				if a == nil {
					row = append(row, anchor.Table{})
				} else {
					row = append(row, anchor.Table{X: funit.Int16(a[0]), Y: funit.Int16(a[1])})
				}
			}
			barr = append(barr, row)
		}
		if s.Kind == "mm" {
			return &gtab.Gpos6_1{Mark1Cov: covTable(mk), Mark2Cov: covTable(bk), Mark1Array: marr, Mark2Array: barr}, only(6, true)
		}
		return &gtab.Gpos4_1{MarkCov: covTable(mk), BaseCov: covTable(bk), MarkArray: marr, BaseArray: barr}, only(4, true)
	}
	return nil, 0
}

// lookupsToGtab builds the library's lookup list.  ok is false when a
// subtable cannot be built; homogeneous is true when every lookup holds
// subtables of one lookup type that belongs into the table (what a font file
// can represent).
func lookupsToGtab(ll []c06.Lookup, gpos bool) (out gtab.LookupList, ok, homogeneous bool) {
	ok, homogeneous = true, true
	for i := range ll {
		lt := &gtab.LookupTable{Meta: &gtab.LookupMetaInfo{
			LookupFlags:      gtab.LookupFlags(ll[i].Flags),
			MarkFilteringSet: uint16(ll[i].MFS),
		}}
		typ := 0
		for j := range ll[i].Subs {
			st, t := subToGtab(&ll[i].Subs[j], gpos)
			if st == nil {
				ok = false
				continue
			}
			if t == 0 || (typ != 0 && t != typ) {
				homogeneous = false
			}
			if typ == 0 {
				typ = t
			}
			lt.Subtables = append(lt.Subtables, st)
		}
		if typ == 0 {
			typ = 1
			if len(ll[i].Subs) > 0 {
				homogeneous = false
			}
		}
		lt.Meta.LookupType = uint16(typ)
		out = append(out, lt)
	}
	return out, ok, homogeneous
}

func gdefToGtab(g *c06.Gdef) *gdef.Table {
	if g == nil {
		return nil
	}
	t := &gdef.Table{GlyphClass: classDef(g.Class)}
	if len(g.Attach) > 0 {
		t.MarkAttachClass = classDef(g.Attach)
	}
	if len(g.Sets) > 0 {
		t.MarkGlyphSets = covSets(g.Sets)
	}
	return t
}

// gdefFromGtab: the GDEF table of a font that was read back, in the abstract
// syntax (sorted by glyph id).
func gdefFromGtab(t *gdef.Table) *c06.Gdef {
	if t == nil {
		return nil
	}
	g := &c06.Gdef{}
	g.Class = sortedClassDef(t.GlyphClass)
	g.Attach = sortedClassDef(t.MarkAttachClass)
	for _, s := range t.MarkGlyphSets {
		var xs []int
		for gid, in := range s {
			if in {
				xs = append(xs, int(gid))
			}
		}
		sortInts(xs)
		if xs == nil {
			xs = []int{}
		}
		g.Sets = append(g.Sets, xs)
	}
	return g
}

func sortedClassDef(t classdef.Table) [][2]int {
	var keys []int
	for g := range t {
		keys = append(keys, int(g))
	}
	sortInts(keys)
	out := [][2]int{}
	for _, g := range keys {
		if c := t[glyph.ID(g)]; c != 0 {
			out = append(out, [2]int{g, int(c)})
		}
	}
	return out
}

func sortInts(xs []int) {
	for i := 1; i < len(xs); i++ {
		for j := i; j > 0 && xs[j-1] > xs[j]; j-- {
			xs[j-1], xs[j] = xs[j], xs[j-1]
		}
	}
}

// canonLookups sorts every glyph-keyed list of the description by glyph id:
// the order is irrelevant for the lookup's meaning (the lists describe maps),
// but a coverage table can only be written with ascending glyph ids.
func canonLookups(ll []c06.Lookup) {
	for i := range ll {
		for j := range ll[i].Subs {
			s := &ll[i].Subs[j]
			sortInts(s.Cov)
			sortBy(len(s.Map), func(a, b int) bool { return s.Map[a][0] < s.Map[b][0] }, func(a, b int) { s.Map[a], s.Map[b] = s.Map[b], s.Map[a] })
			sortBy(len(s.KVs), func(a, b int) bool { return s.KVs[a].G < s.KVs[b].G }, func(a, b int) { s.KVs[a], s.KVs[b] = s.KVs[b], s.KVs[a] })
			sortBy(len(s.LigSets), func(a, b int) bool { return s.LigSets[a].G < s.LigSets[b].G }, func(a, b int) { s.LigSets[a], s.LigSets[b] = s.LigSets[b], s.LigSets[a] })
			sortBy(len(s.CSets), func(a, b int) bool { return s.CSets[a].G < s.CSets[b].G }, func(a, b int) { s.CSets[a], s.CSets[b] = s.CSets[b], s.CSets[a] })
			sortBy(len(s.KSets), func(a, b int) bool { return s.KSets[a].G < s.KSets[b].G }, func(a, b int) { s.KSets[a], s.KSets[b] = s.KSets[b], s.KSets[a] })
			sortBy(len(s.GVs), func(a, b int) bool { return s.GVs[a].G < s.GVs[b].G }, func(a, b int) { s.GVs[a], s.GVs[b] = s.GVs[b], s.GVs[a] })
			sortBy(len(s.Marks), func(a, b int) bool { return s.Marks[a].G < s.Marks[b].G }, func(a, b int) { s.Marks[a], s.Marks[b] = s.Marks[b], s.Marks[a] })
			sortBy(len(s.Bases), func(a, b int) bool { return s.Bases[a].G < s.Bases[b].G }, func(a, b int) { s.Bases[a], s.Bases[b] = s.Bases[b], s.Bases[a] })
			if s.Kind == "r8" {
				for _, c := range s.Covs {
					sortInts(c)
				}
				for _, c := range s.Covs3 {
					sortInts(c)
				}
			}
		}
	}
}

// sortBy: insertion sort through index callbacks (stable).
func sortBy(n int, less func(a, b int) bool, swap func(a, b int)) {
	for i := 1; i < n; i++ {
		for j := i; j > 0 && less(j, j-1); j-- {
			swap(j, j-1)
		}
	}
}

// canonPairsForFile: a pair-adjustment subtable in a font file has ONE value
// format for all second glyphs; the in-memory structure (Second == nil per
// pair) is finer.  A file-backed description therefore has either a second
// value record in every pair (when some pair has a non-zero one) or in none.
func canonPairsForFile(ll []c06.Lookup) {
	nonzero := func(v *c06.VRec) bool { return v != nil && (v.X != 0 || v.Y != 0 || v.A != 0 || v.Bad) }
	for i := range ll {
		for j := range ll[i].Subs {
			s := &ll[i].Subs[j]
			var cells []*c06.PairCell
			for a := range s.PairRows {
				for b := range s.PairRows[a].Ents {
					cells = append(cells, &s.PairRows[a].Ents[b].PairCell)
				}
			}
			for a := range s.PairMat {
				for b := range s.PairMat[a] {
					cells = append(cells, &s.PairMat[a][b])
				}
			}
			any := false
			for _, c := range cells {
				if nonzero(c.V2) {
					any = true
				}
			}
			for _, c := range cells {
				if !any {
					c.V2 = nil
				} else if c.V2 == nil {
					c.V2 = &c06.VRec{}
				}
			}
		}
	}
}
