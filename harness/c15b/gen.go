package c15b

import (
	"fmt"
	"sort"
	"sync"
	"time"

	"golang.org/x/text/language"
	"seehuhn.de/go/sfnt"
	"seehuhn.de/go/sfnt/cff"
	"seehuhn.de/go/sfnt/glyf"
	"seehuhn.de/go/sfnt/opentype/gtab"
	"seehuhn.de/go/sfnt/verifharness/c06"
	"seehuhn.de/go/sfnt/verifharness/vlib"
)

// ---------------------------------------------------------------- the glyph universe

const (
	gA   = 1 // a   base
	gB   = 2 // b   base
	gC   = 3 // c   (no class)
	gF   = 4 // f   (no class)
	gI   = 5 // i   (no class)
	gL   = 6 // l   (no class)
	gFI  = 7 // fi  ligature class
	gFFI = 8 // ffi ligature class
	gM1  = 9 // mark, attachment class 1, mark sets 0 and 2
	gM2  = 10
	gM3  = 11
	gX   = 12
	gY   = 13
	nBase = 14 // glyphs of the in-memory fonts
)

var alphabet = []int{gA, gB, gC, gF, gI, gL, gFI, gFFI, gM1, gM2, gM3, gX, gY}

// characters and their usual glyphs
var baseCmap = map[rune]int{'a': gA, 'b': gB, 'c': gC, 'f': gF, 'i': gI, 'l': gL,
	0x301: gM1, 0x308: gM2, 0x323: gM3, 'x': gX, 'y': gY}

// characters of the generated strings; z ? U+FFFD U+10FFFF are never mapped
var runePool = []rune{'a', 'b', 'c', 'f', 'f', 'i', 'i', 'l', 'x', 'y', 0x301, 0x308, 0x323, 'a', 'f', 0x301, 'z', '?', 0xFFFD, 0x1F600, 0xFB01, 0x10FFFF}

func fullGdef() *c06.Gdef {
	return &c06.Gdef{
		Class:  [][2]int{{gA, 1}, {gB, 1}, {gFI, 2}, {gFFI, 2}, {gM1, 3}, {gM2, 3}, {gM3, 3}},
		Attach: [][2]int{{gM1, 1}, {gM2, 2}, {gM3, 1}},
		Sets:   [][]int{{gM1, gM3}, {gM2, gM3}, {gM1, gM2}},
	}
}

const (
	flagBase  = 2
	flagLig   = 4
	flagMarks = 8
	flagMFS   = 16
)

type flagVar struct {
	name       string
	flags, mfs int
}

var flagVars = []flagVar{
	{"none", 0, 0}, {"rtl", 1, 0}, {"base", flagBase, 0}, {"lig", flagLig, 0}, {"marks", flagMarks, 0},
	{"lig+marks", flagLig | flagMarks, 0}, {"mfs0", flagMFS, 0}, {"mfs1", flagMFS, 1}, {"mfs2", flagMFS, 2},
	{"att1", 1 << 8, 0}, {"att2", 2 << 8, 0}, {"marks+mfs1", flagMarks | flagMFS, 1}, {"base+att2", flagBase | 2<<8, 0},
}

// ---------------------------------------------------------------- language tags

var rawTagPool = []string{
	"en", "de", "fr", "ja", "zh", "ar", "ru", "und", "und-Latn", "und-Zzzz", "und-Cyrl", "und-Arab", "und-Grek",
	"tr", "he", "hi", "el", "ko", "th", "vi", "nl", "sv", "und-Latn-x-latn", "und-Deva", "es", "it", "pl", "uk", "ro",
	"und-Hebr", "und-Thai", "ur", "fa", "und-Hani", "tr-Latn", "de-Latn", "ro-Latn", "sr-Cyrl", "ru-Cyrl",
}

var rawLangPool = []string{
	"en", "en-US", "de", "de-CH", "fr", "fr-CA", "zu", "und", "ja", "zh-TW", "sr-Latn", "pt", "ar-EG", "ru", "tlh",
	"es-MX", "und-Cyrl", "he", "tr", "ro", "nl", "el", "und-Grek", "uk", "vi",
}

var (
	tagPool  []string
	langPool []string
)

func init() {
	keep := func(raw []string) []string {
		var out []string
		seen := map[string]bool{}
		for _, s := range raw {
			t, err := language.Parse(s)
			if err != nil {
				continue
			}
			str := t.String()
			t2, err := language.Parse(str)
			if err != nil || t2 != t || seen[str] {
				continue
			}
			seen[str] = true
			out = append(out, str)
		}
		return out
	}
	tagPool = keep(rawTagPool)
	langPool = keep(rawLangPool)
}

var (
	fileTagOnce sync.Once
	fileTags    []string
)

// fileTagPool: the language tags that survive Write -> sfnt.Read unchanged
// (the file stores OpenType script/language tags, not BCP 47 tags).
func fileTagPool() []string {
	fileTagOnce.Do(func() {
		probe := func(t string) fontT {
			return fontT{Outl: "glyf", Widths: make([]int, nBase), NGlyphs: nBase, Cmap: map[rune]int{'a': gA}, Gpos: gtabT{Nil: true},
				Gsub: gtabT{
					LL: []c06.Lookup{lk(0, 0, c06.Sub{Kind: "s2", Map: [][2]int{{gA, gB}}})},
					FL: []featureT{{Tag: "liga", Lookups: []int{0}}},
					SL: []slEntryT{{Tag: t, F: featsT{Req: 0xFFFF, Opt: []int{0}}}},
				}}
		}
		seen := map[string]bool{}
		for _, t := range tagPool {
			// the tag sfnt.Read gives back for t (script and language system tags
			// are kept in a private-use extension)
			f, _, _, err := probe(t).goFont(true)
			if err != nil {
				continue
			}
			f2, err := roundTrip(f)
			if err != nil || f2.Gsub == nil || len(f2.Gsub.ScriptList) != 1 {
				continue
			}
			for back := range f2.Gsub.ScriptList {
				t2 := back.String()
				if p, err := language.Parse(t2); err != nil || p != back || seen[t2] {
					continue
				}
				if why, err := fileFaithful(caseT{Mode: "file", Lang: "en", Font: probe(t2)}); err == nil && why == "" {
					seen[t2] = true
					fileTags = append(fileTags, t2)
				}
			}
		}
	})
	return fileTags
}

var gsubTags = []string{"liga", "ccmp", "calt", "clig", "locl", "smcp", "dlig", "test", "liga", "calt"}
var gposTags = []string{"kern", "mark", "mkmk", "cpsp", "test", "dist", "kern", "mark"}

// ---------------------------------------------------------------- random pieces

func vr(x, y, a int) c06.VRec { return c06.VRec{X: x, Y: y, A: a} }

func randGids(r *vlib.Rand, al []int, lo, hi int) []int {
	n := r.Range(lo, hi)
	out := make([]int, n)
	for i := range out {
		out[i] = vlib.Pick(r, al)
	}
	return out
}

func randSubset(r *vlib.Rand, al []int, num, den int) []int {
	var out []int
	for _, g := range al {
		if r.Chance(num, den) {
			out = append(out, g)
		}
	}
	if len(out) == 0 {
		out = []int{vlib.Pick(r, al)}
	}
	return out
}

func shuffled(r *vlib.Rand, s []int) []int {
	for i := len(s) - 1; i > 0; i-- {
		j := r.Intn(i + 1)
		s[i], s[j] = s[j], s[i]
	}
	return s
}

func randActs(r *vlib.Rand, n, nl int) []c06.Action {
	k := r.Range(0, 3)
	out := make([]c06.Action, k)
	for i := range out {
		out[i] = c06.Action{Seq: r.Intn(n + 1), Lookup: r.Intn(nl)}
		if r.Chance(1, 30) {
			out[i].Seq = n + 1 + r.Intn(3)
		}
		if r.Chance(1, 40) {
			out[i].Lookup = nl + r.Intn(2)
		}
	}
	return out
}

func randClassDef(r *vlib.Rand, al []int, nc int) [][2]int {
	out := [][2]int{}
	for _, g := range al {
		if c := r.Intn(nc); c > 0 {
			out = append(out, [2]int{g, c})
		}
	}
	return out
}

func randVR(r *vlib.Rand) c06.VRec {
	v := c06.VRec{X: r.Range(-50, 50), Y: r.Range(-50, 50), A: r.Range(-100, 100)}
	if r.Chance(1, 4) {
		v.X = 0
	}
	if r.Chance(1, 4) {
		v.Y = 0
	}
	if r.Chance(1, 80) {
		v.A = vlib.Pick(r, []int{32767, -32768, 30000})
	}
	return v
}

var gsubKinds = []string{"s1", "s2", "mul", "alt", "lig", "lig", "lig", "s2", "r8"}
var gposKinds = []string{"p1", "p2", "pp1", "pp1", "pp2", "mb", "mb", "mm"}
var ctxKinds = []string{"c1", "c2", "c3", "k1", "k2", "k3", "c1", "c3", "k1", "k3"}

// randSub: a random subtable of the given kind over the alphabet (the style
// of C06's random generator, restricted to what belongs into one table).
func randSub(r *vlib.Rand, kind string, al []int, nl int) c06.Sub {
	distinct := func() []int { return shuffled(r, randSubset(r, al, 1, 3)) }
	s := c06.Sub{Kind: kind}
	switch kind {
	case "s1":
		s.Cov, s.Delta = distinct(), vlib.Pick(r, []int{1, 2, 65535, 65534, 3})
	case "s2":
		s.Map = [][2]int{}
		for _, g := range distinct() {
			s.Map = append(s.Map, [2]int{g, vlib.Pick(r, al)})
		}
	case "mul":
		for _, g := range distinct() {
			s.KVs = append(s.KVs, c06.KV{G: g, Vals: randGids(r, al, 1, 3)})
		}
	case "alt":
		for _, g := range distinct() {
			s.KVs = append(s.KVs, c06.KV{G: g, Vals: randGids(r, al, 1, 2)})
		}
	case "lig":
		for _, g := range distinct() {
			ls := c06.LigSet{G: g}
			for i, n := 0, r.Range(1, 3); i < n; i++ {
				ls.Ligs = append(ls.Ligs, c06.Lig{Comps: randGids(r, al, 0, 3), Out: vlib.Pick(r, al)})
			}
			s.LigSets = append(s.LigSets, ls)
		}
	case "c1":
		for _, g := range distinct() {
			cs := c06.CSet{G: g}
			for i, n := 0, r.Range(1, 2); i < n; i++ {
				in := randGids(r, al, 0, 2)
				cs.Rules = append(cs.Rules, c06.CRule{In: in, Acts: randActs(r, len(in)+1, nl)})
			}
			s.CSets = append(s.CSets, cs)
		}
	case "c2":
		s.Cov, s.CD = distinct(), randClassDef(r, al, 3)
		for c := 0; c < 3; c++ {
			row := []c06.CRule{}
			for i, n := 0, r.Range(0, 2); i < n; i++ {
				in := make([]int, r.Range(0, 2))
				for j := range in {
					in[j] = r.Intn(3)
				}
				row = append(row, c06.CRule{In: in, Acts: randActs(r, len(in)+1, nl)})
			}
			s.CRules = append(s.CRules, row)
		}
	case "c3":
		n := r.Range(1, 3)
		for i := 0; i < n; i++ {
			s.Covs = append(s.Covs, randSubset(r, al, 1, 2))
		}
		s.Acts = randActs(r, n, nl)
	case "k1":
		for _, g := range distinct() {
			ks := c06.KSet{G: g}
			for i, n := 0, r.Range(1, 2); i < n; i++ {
				in := randGids(r, al, 0, 2)
				ks.Rules = append(ks.Rules, c06.KRule{Back: randGids(r, al, 0, 2), In: in, Look: randGids(r, al, 0, 2), Acts: randActs(r, len(in)+1, nl)})
			}
			s.KSets = append(s.KSets, ks)
		}
	case "k2":
		s.Cov = distinct()
		s.CD, s.CD2, s.CD3 = randClassDef(r, al, 3), randClassDef(r, al, 3), randClassDef(r, al, 3)
		cl := func(lo, hi int) []int {
			out := make([]int, r.Range(lo, hi))
			for j := range out {
				out[j] = r.Intn(3)
			}
			return out
		}
		for c, nc := 0, r.Range(1, 3); c < nc; c++ {
			row := []c06.KRule{}
			for i, n := 0, r.Range(0, 2); i < n; i++ {
				in := cl(0, 2)
				row = append(row, c06.KRule{Back: cl(0, 2), In: in, Look: cl(0, 2), Acts: randActs(r, len(in)+1, nl)})
			}
			s.KRules = append(s.KRules, row)
		}
	case "k3":
		covs := func(lo, hi int) [][]int {
			out := [][]int{}
			for i, n := 0, r.Range(lo, hi); i < n; i++ {
				out = append(out, randSubset(r, al, 1, 2))
			}
			return out
		}
		s.Covs, s.Covs2, s.Covs3 = covs(0, 2), covs(1, 3), covs(0, 2)
		s.Acts = randActs(r, len(s.Covs2), nl)
	case "p1":
		s.Cov, s.V = distinct(), randVR(r)
	case "p2":
		for _, g := range distinct() {
			s.GVs = append(s.GVs, c06.GV{G: g, V: randVR(r)})
		}
	case "pp1":
		for _, g := range distinct() {
			row := c06.PairRow{G: g}
			for _, g2 := range distinct() {
				c := c06.PairCell{V1: randVR(r)}
				if r.Bool() {
					v := randVR(r)
					c.V2 = &v
				}
				row.Ents = append(row.Ents, c06.PairEnt{G2: g2, PairCell: c})
			}
			s.PairRows = append(s.PairRows, row)
		}
	case "pp2":
		s.Cov, s.CD, s.CD2 = distinct(), randClassDef(r, al, 2), randClassDef(r, al, 3)
		for i := 0; i < 2; i++ {
			var row []c06.PairCell
			for j := 0; j < 3; j++ {
				c := c06.PairCell{V1: randVR(r)}
				if r.Bool() {
					v := randVR(r)
					c.V2 = &v
				}
				row = append(row, c)
			}
			s.PairMat = append(s.PairMat, row)
		}
	case "r8":
		s.Map = [][2]int{}
		for _, g := range distinct() {
			s.Map = append(s.Map, [2]int{g, vlib.Pick(r, al)})
		}
		s.Covs, s.Covs3 = [][]int{}, [][]int{}
		for i, n := 0, r.Range(0, 2); i < n; i++ {
			s.Covs = append(s.Covs, randSubset(r, al, 1, 2))
		}
		for i, n := 0, r.Range(0, 2); i < n; i++ {
			s.Covs3 = append(s.Covs3, randSubset(r, al, 1, 2))
		}
	case "mb", "mm":
		nc := r.Range(1, 2)
		marks := []int{gM1, gM2, gM3}
		bases := []int{gA, gB, gC, gF, gFI, gX}
		if kind == "mm" {
			bases = marks
		}
		if r.Chance(1, 6) {
			marks, bases = al, al
		}
		for _, g := range shuffled(r, randSubset(r, marks, 2, 3)) {
			s.Marks = append(s.Marks, c06.MarkRec{G: g, Cls: r.Intn(nc), X: r.Range(-300, 300), Y: r.Range(-300, 300)})
		}
		for _, g := range shuffled(r, randSubset(r, bases, 2, 3)) {
			b := c06.BaseRec{G: g}
			for c := 0; c < nc; c++ {
				if r.Chance(1, 6) {
					b.Anchors = append(b.Anchors, nil)
				} else {
					b.Anchors = append(b.Anchors, &[2]int{r.Range(1, 600), r.Range(-600, 600)})
				}
			}
			s.Bases = append(s.Bases, b)
		}
	}
	return s
}

func randFlags(r *vlib.Rand) (int, int) {
	if r.Chance(2, 5) {
		return 0, 0
	}
	f := vlib.Pick(r, flagVars)
	return f.flags, f.mfs
}

func randGdef(r *vlib.Rand) *c06.Gdef {
	switch r.Intn(6) {
	case 0:
		return nil
	case 1, 2, 3:
		return fullGdef()
	}
	g := &c06.Gdef{Class: [][2]int{}, Attach: [][2]int{}, Sets: [][]int{sortedInts(randSubset(r, alphabet, 1, 3)), sortedInts(randSubset(r, alphabet, 1, 3)), sortedInts(randSubset(r, alphabet, 1, 3))}}
	for _, x := range alphabet {
		if c := r.Intn(5); c > 0 && c < 4 {
			g.Class = append(g.Class, [2]int{x, c})
		} else if c == 4 && (x == gM1 || x == gM2) {
			g.Class = append(g.Class, [2]int{x, 3})
		}
		if c := r.Intn(3); c > 0 {
			g.Attach = append(g.Attach, [2]int{x, c})
		}
	}
	return g
}

func sortedInts(xs []int) []int {
	sort.Ints(xs)
	return xs
}

// randLookups: nl lookups for one table; homogeneous = every lookup holds one
// lookup type (what a font file can store).
func randLookups(r *vlib.Rand, gpos bool, nl int, al []int, ctx, homogeneous bool) []c06.Lookup {
	kinds := gsubKinds
	if gpos {
		kinds = gposKinds
	}
	lookupType := func(k string) int {
		_, t := subToGtab(&c06.Sub{Kind: k}, gpos)
		return t
	}
	ll := make([]c06.Lookup, nl)
	for i := range ll {
		f, m := randFlags(r)
		ll[i] = c06.Lookup{Flags: f, MFS: m, Subs: []c06.Sub{}}
		if r.Chance(1, 25) {
			continue // a lookup without subtables
		}
		first := vlib.Pick(r, kinds)
		if ctx && r.Chance(1, 3) {
			first = vlib.Pick(r, ctxKinds)
		}
		n := vlib.Pick(r, []int{1, 1, 1, 2, 2, 3})
		for j := 0; j < n; j++ {
			k := first
			if j > 0 {
				for tries := 0; tries < 20; tries++ {
					k = vlib.Pick(r, kinds)
					if ctx && r.Chance(1, 3) {
						k = vlib.Pick(r, ctxKinds)
					}
					if !homogeneous || lookupType(k) == lookupType(first) {
						break
					}
					k = first
				}
			}
			ll[i].Subs = append(ll[i].Subs, randSub(r, k, al, nl))
		}
	}
	return ll
}

func randFeats(r *vlib.Rand, nFeat int, forFile bool) featsT {
	if !forFile && r.Chance(1, 12) {
		return featsT{Nil: true} // (a nil *Features cannot be written)
	}
	f := featsT{Req: 0xFFFF, Opt: []int{}}
	if nFeat > 0 && r.Chance(1, 3) {
		f.Req = r.Intn(nFeat)
	}
	if r.Chance(1, 30) {
		f.Req = nFeat + r.Intn(3)
	}
	for i := 0; i < nFeat; i++ {
		if r.Chance(3, 4) {
			f.Opt = append(f.Opt, i)
		}
	}
	if r.Chance(1, 30) {
		f.Opt = append(f.Opt, nFeat+r.Intn(2))
	}
	shuffled(r, f.Opt)
	return f
}

func randTable(r *vlib.Rand, gpos bool, al []int, ctx, forFile bool) gtabT {
	nl := vlib.Pick(r, []int{1, 1, 2, 2, 3, 4, 5})
	g := gtabT{LL: randLookups(r, gpos, nl, al, ctx, forFile || r.Chance(2, 3))}
	tags := gsubTags
	if gpos {
		tags = gposTags
	}
	nFeat := vlib.Pick(r, []int{1, 1, 2, 2, 3, 4})
	for i := 0; i < nFeat; i++ {
		f := featureT{Tag: vlib.Pick(r, tags), Lookups: []int{}}
		for j := 0; j < nl; j++ {
			if r.Chance(1, 2) {
				f.Lookups = append(f.Lookups, j)
			}
		}
		if len(f.Lookups) == 0 {
			f.Lookups = []int{r.Intn(nl)}
		}
		if r.Chance(1, 10) {
			f.Lookups = append(f.Lookups, f.Lookups[0]) // duplicate
		}
		if !forFile && r.Chance(1, 15) {
			f.Lookups = append(f.Lookups, nl+r.Intn(3)) // out of range
		}
		shuffled(r, f.Lookups)
		g.FL = append(g.FL, f)
	}
	nSys := vlib.Pick(r, []int{1, 1, 1, 2, 2, 3, 4})
	pool := tagPool
	if forFile {
		pool = fileTagPool()
	}
	perm := make([]int, len(pool))
	for i := range perm {
		perm[i] = i
	}
	shuffled(r, perm)
	for i := 0; i < nSys && i < len(pool); i++ {
		g.SL = append(g.SL, slEntryT{Tag: pool[perm[i]], F: randFeats(r, nFeat, forFile)})
	}
	return g
}

func randSwitches(r *vlib.Rand, g gtabT, gpos bool) swT {
	switch r.Intn(6) {
	case 0, 1:
		return swT{Nil: true}
	case 2:
		return swT{M: map[string]bool{}} // everything off: only required features
	case 3:
		s := swT{M: map[string]bool{}}
		for _, f := range g.FL {
			s.M[f.Tag] = true
		}
		return s
	}
	s := swT{M: map[string]bool{}}
	for _, f := range g.FL {
		if r.Chance(2, 3) {
			s.M[f.Tag] = r.Chance(3, 4)
		}
	}
	if r.Chance(1, 4) {
		s.M["zzzz"] = true
	}
	return s
}

func randLang(r *vlib.Rand, tabs ...gtabT) string {
	if r.Chance(1, 2) {
		for _, g := range tabs {
			if !g.Nil && len(g.SL) > 0 && r.Bool() {
				return g.SL[r.Intn(len(g.SL))].Tag
			}
		}
	}
	return vlib.Pick(r, langPool)
}

func randWidths(r *vlib.Rand, n int) []int {
	w := make([]int, n)
	for i := range w {
		w[i] = vlib.Pick(r, []int{500, 600, 250, 1000, 0, 333, r.Range(0, 2000)})
	}
	return w
}

func randString(r *vlib.Rand, maxLen int) []rune {
	n := r.Range(0, maxLen)
	s := make([]rune, n)
	for i := range s {
		s[i] = vlib.Pick(r, runePool)
	}
	return s
}

// directed strings: repeated ligature candidates, marks after bases and
// between ligature components, unmapped characters, the empty string
var directed = [][]rune{
	{}, []rune("f"), []rune("fi"), []rune("ffi"), []rune("fififfifi"), []rune("ffiffifi"), []rune("affib"),
	{'f', 0x301, 'i'}, {'f', 0x301, 'f', 0x308, 'i'}, {'a', 0x301, 0x308, 'b', 0x323}, {0x301, 'a'},
	[]rune("az?a"), {'a', 0xFFFD, 'b'}, {'x', 0x1F600, 'y'}, []rune("abcabcab"), {'a', 0x301, 'a', 0x301, 0x301},
	{0xFB01, 'a'}, []rune("aaaa"), []rune("fafbfc"), {'i', 0x323, 'f', 'f', 'i', 0x301},
}

// ---------------------------------------------------------------- fonts

func randCmap(r *vlib.Rand, n int, forFile bool) map[rune]int {
	cm := map[rune]int{}
	for ru, g := range baseCmap {
		if r.Chance(1, 25) {
			continue // unmapped this time
		}
		cm[ru] = g
	}
	if r.Chance(1, 3) {
		cm[0x1F600] = vlib.Pick(r, []int{gX, gA, gM1}) // forces a format 12 subtable
	}
	if !forFile && r.Chance(1, 3) {
		cm[0xFB01] = gFI
	}
	if !forFile && r.Chance(1, 12) {
		cm['y'] = n + r.Intn(3) // a glyph the font does not have
	}
	if r.Chance(1, 10) {
		cm['c'] = 0 // explicitly .notdef
	}
	return cm
}

func randFont(r *vlib.Rand, forFile bool, ctx bool) (fontT, []string) {
	var f fontT
	var labels []string
	n := nBase
	switch r.Intn(5) {
	case 0, 1:
		f.Outl = "glyf"
	case 2, 3:
		f.Outl = "cff"
		if forFile {
			n = cffBaseGlyphs()
		}
	default:
		f.Outl = "glyf"
		if !forFile && r.Chance(1, 2) {
			f.Outl = "glyf-nil"
		}
	}
	f.NGlyphs = n
	if f.Outl != "glyf-nil" {
		f.Widths = randWidths(r, n)
	} else {
		f.NGlyphs = vlib.Pick(r, []int{1, 1, n})
	}
	if f.Outl == "glyf" && !forFile && r.Chance(1, 12) {
		// the width slice and the glyph list disagree (never from sfnt.Read)
		if r.Bool() {
			f.Widths = f.Widths[:r.Range(1, n-1)]
			labels = append(labels, "widths-shorter-than-glyphs")
		} else {
			f.NGlyphs = r.Range(1, n-1)
			labels = append(labels, "widths-longer-than-glyphs")
		}
	}
	labels = append(labels, "outlines:"+f.Outl)
	f.Cmap = randCmap(r, n, forFile)
	f.Gdef = randGdef(r)
	if f.Gdef == nil {
		labels = append(labels, "nogdef")
	}
	al := alphabet
	if !forFile && r.Chance(1, 8) {
		al = append(append([]int{}, alphabet...), n+1, 0) // lookups naming a glyph beyond the font
		labels = append(labels, "glyph-beyond-font-in-lookups")
	}
	f.Gsub, f.Gpos = gtabT{Nil: true}, gtabT{Nil: true}
	switch r.Intn(8) {
	case 0:
		f.Gsub = randTable(r, false, al, ctx, forFile)
	case 1:
		f.Gpos = randTable(r, true, al, ctx, forFile)
	default:
		f.Gsub = randTable(r, false, al, ctx, forFile)
		f.Gpos = randTable(r, true, al, ctx, forFile)
	}
	if forFile && f.Gsub.Nil {
		// sfnt.Read would synthesise the standard ligatures; that is the main
		// development's subject
		f.Gsub = randTable(r, false, al, ctx, forFile)
	}
	if forFile {
		canonLookups(f.Gsub.LL)
		canonLookups(f.Gpos.LL)
		canonPairsForFile(f.Gpos.LL)
	}
	return f, labels
}

// ---------------------------------------------------------------- the catalogue

type catEntry struct {
	name string
	gpos bool
	ll   []c06.Lookup // lookup 0 is the one under test; the others are children
}

func lk(flags, mfs int, subs ...c06.Sub) c06.Lookup {
	return c06.Lookup{Flags: flags, MFS: mfs, Subs: subs}
}

func catalogue() []catEntry {
	v2 := vr(0, 40, 0)
	acts := func(a ...int) []c06.Action {
		var out []c06.Action
		for i := 0; i+1 < len(a); i += 2 {
			out = append(out, c06.Action{Seq: a[i], Lookup: a[i+1]})
		}
		return out
	}
	childSub := lk(0, 0, c06.Sub{Kind: "s2", Map: [][2]int{{gA, gX}, {gF, gY}, {gI, gX}, {gM1, gM2}}})
	childLig := lk(0, 0, c06.Sub{Kind: "lig", LigSets: []c06.LigSet{{G: gF, Ligs: []c06.Lig{{Comps: []int{gI}, Out: gFI}}}, {G: gA, Ligs: []c06.Lig{{Comps: []int{gA}, Out: gB}}}}})
	childMul := lk(0, 0, c06.Sub{Kind: "mul", KVs: []c06.KV{{G: gA, Vals: []int{gA, gM1}}, {G: gF, Vals: []int{gF, gF}}}})
	childPos := lk(0, 0, c06.Sub{Kind: "p1", Cov: []int{gA, gF, gI, gM1, gX}, V: vr(7, -3, 11)})
	gsubCtx := func(s c06.Sub) []c06.Lookup { return []c06.Lookup{lk(0, 0, s), childSub, childLig, childMul} }
	gposCtx := func(s c06.Sub) []c06.Lookup { return []c06.Lookup{lk(0, 0, s), childPos} }
	axf := []int{gA, gF, gX}
	return []catEntry{
		{"gsub1.1", false, []c06.Lookup{lk(0, 0, c06.Sub{Kind: "s1", Cov: []int{gA, gF, gM1}, Delta: 1})}},
		{"gsub1.1/wrap", false, []c06.Lookup{lk(0, 0, c06.Sub{Kind: "s1", Cov: []int{gB, gX}, Delta: 65535})}},
		{"gsub1.2", false, []c06.Lookup{lk(0, 0, c06.Sub{Kind: "s2", Map: [][2]int{{gA, gX}, {gF, gY}, {gM1, gM2}, {gI, gA}}})}},
		{"gsub2.1", false, []c06.Lookup{lk(0, 0, c06.Sub{Kind: "mul", KVs: []c06.KV{{G: gA, Vals: []int{gA, gM1, gA}}, {G: gF, Vals: []int{gF, gI}}, {G: gM1, Vals: []int{gX}}}})}},
		{"gsub3.1", false, []c06.Lookup{lk(0, 0, c06.Sub{Kind: "alt", KVs: []c06.KV{{G: gA, Vals: []int{gX, gY}}, {G: gI, Vals: []int{gL}}}})}},
		{"gsub4.1/ffi", false, []c06.Lookup{lk(0, 0, c06.Sub{Kind: "lig", LigSets: []c06.LigSet{
			{G: gF, Ligs: []c06.Lig{{Comps: []int{gF, gI}, Out: gFFI}, {Comps: []int{gI}, Out: gFI}, {Comps: []int{gF}, Out: gY}}},
			{G: gA, Ligs: []c06.Lig{{Comps: []int{gM1}, Out: gX}}}}})}},
		{"gsub4.1/candidates", false, []c06.Lookup{lk(0, 0, c06.Sub{Kind: "lig", LigSets: []c06.LigSet{
			{G: gF, Ligs: []c06.Lig{{Comps: []int{gB, gI}, Out: gX}, {Comps: []int{gI, gF}, Out: gY}, {Comps: []int{gI}, Out: gFI}, {Comps: []int{}, Out: gL}}},
			{G: gM1, Ligs: []c06.Lig{{Comps: []int{gM2}, Out: gM3}}}}})}},
		{"gsub4.1+1.2", false, []c06.Lookup{lk(0, 0,
			c06.Sub{Kind: "lig", LigSets: []c06.LigSet{{G: gF, Ligs: []c06.Lig{{Comps: []int{gI}, Out: gFI}}}}},
			c06.Sub{Kind: "s2", Map: [][2]int{{gF, gY}, {gA, gX}}})}},
		{"gsub8.1", false, []c06.Lookup{lk(0, 0, c06.Sub{Kind: "r8", Map: [][2]int{{gA, gX}, {gF, gY}}, Covs: [][]int{{gA, gB, gX}}, Covs3: [][]int{}})}},
		{"gsub5.1", false, gsubCtx(c06.Sub{Kind: "c1", CSets: []c06.CSet{{G: gA, Rules: []c06.CRule{{In: []int{gA}, Acts: acts(0, 1, 1, 3)}, {In: []int{gF, gI}, Acts: acts(1, 2)}}}}})},
		{"gsub5.2", false, gsubCtx(c06.Sub{Kind: "c2", Cov: axf, CD: [][2]int{{gA, 1}, {gF, 1}, {gX, 1}, {gI, 2}}, CRules: [][]c06.CRule{{}, {{In: []int{1}, Acts: acts(1, 1)}, {In: []int{2}, Acts: acts(0, 2)}}, {}}})},
		{"gsub5.3", false, gsubCtx(c06.Sub{Kind: "c3", Covs: [][]int{axf, {gF, gI}, {gI, gA}}, Acts: acts(1, 2, 0, 1)})},
		{"gsub6.1", false, gsubCtx(c06.Sub{Kind: "k1", KSets: []c06.KSet{{G: gF, Rules: []c06.KRule{{Back: []int{gA}, In: []int{gI}, Look: []int{gB}, Acts: acts(0, 2)}, {Back: []int{}, In: []int{}, Look: []int{gF}, Acts: acts(0, 1)}}}}})},
		{"gsub6.2", false, gsubCtx(c06.Sub{Kind: "k2", Cov: axf, CD: [][2]int{{gB, 1}, {gA, 1}}, CD2: [][2]int{{gA, 1}, {gF, 1}, {gX, 1}}, CD3: [][2]int{{gI, 1}, {gB, 1}},
			KRules: [][]c06.KRule{{}, {{Back: []int{1}, In: []int{}, Look: []int{}, Acts: acts(0, 1)}, {Back: []int{}, In: []int{1}, Look: []int{1}, Acts: acts(1, 3, 0, 1)}}}})},
		{"gsub6.3", false, gsubCtx(c06.Sub{Kind: "k3", Covs: [][]int{{gA, gB}}, Covs2: [][]int{{gF}, {gI, gF}}, Covs3: [][]int{{gA, gB, gI}}, Acts: acts(0, 2)})},
		{"gpos1.1", true, []c06.Lookup{lk(0, 0, c06.Sub{Kind: "p1", Cov: []int{gA, gF, gM1}, V: vr(10, -20, 30)})}},
		{"gpos1.2", true, []c06.Lookup{lk(0, 0, c06.Sub{Kind: "p2", GVs: []c06.GV{{G: gA, V: vr(1, 2, 3)}, {G: gM1, V: vr(-5, 500, 0)}, {G: gFI, V: vr(0, 0, -40)}}})}},
		{"gpos2.1", true, []c06.Lookup{lk(0, 0, c06.Sub{Kind: "pp1", PairRows: []c06.PairRow{
			{G: gA, Ents: []c06.PairEnt{{G2: gA, PairCell: c06.PairCell{V1: vr(0, 0, -200)}}, {G2: gB, PairCell: c06.PairCell{V1: vr(0, 0, -300), V2: &v2}}, {G2: gM1, PairCell: c06.PairCell{V1: vr(1, 1, 1)}}}},
			{G: gF, Ents: []c06.PairEnt{{G2: gI, PairCell: c06.PairCell{V1: vr(0, 0, -50)}}, {G2: gF, PairCell: c06.PairCell{V1: vr(0, 0, -25), V2: &v2}}}}}})}},
		{"gpos2.2", true, []c06.Lookup{lk(0, 0, c06.Sub{Kind: "pp2", Cov: []int{gA, gF, gFI}, CD: [][2]int{{gF, 1}, {gFI, 1}}, CD2: [][2]int{{gA, 1}, {gB, 1}, {gI, 2}, {gM1, 2}},
			PairMat: [][]c06.PairCell{{{V1: vr(0, 0, 0)}, {V1: vr(0, 0, -100)}, {V1: vr(3, 0, 0), V2: &v2}}, {{V1: vr(0, 0, 0)}, {V1: vr(0, 11, 0), V2: &v2}, {V1: vr(0, 0, -60)}}}})}},
		{"gpos4.1", true, []c06.Lookup{lk(0, 0, c06.Sub{Kind: "mb",
			Marks: []c06.MarkRec{{G: gM1, Cls: 0, X: 400, Y: 0}, {G: gM2, Cls: 1, X: 10, Y: -10}, {G: gM3, Cls: 0, X: 0, Y: 50}},
			Bases: []c06.BaseRec{{G: gA, Anchors: []*[2]int{{400, 1000}, {5, 6}}}, {G: gB, Anchors: []*[2]int{nil, {300, 700}}}, {G: gFI, Anchors: []*[2]int{{250, 800}, {260, -100}}}, {G: gF, Anchors: []*[2]int{{100, 900}, nil}}}})}},
		{"gpos6.1", true, []c06.Lookup{lk(0, 0, c06.Sub{Kind: "mm",
			Marks: []c06.MarkRec{{G: gM1, Cls: 0, X: 10, Y: 20}, {G: gM2, Cls: 1, X: 5, Y: -5}},
			Bases: []c06.BaseRec{{G: gM1, Anchors: []*[2]int{{100, 200}, {7, 8}}}, {G: gM2, Anchors: []*[2]int{nil, {50, 60}}}}})}},
		{"gpos7.1", true, gposCtx(c06.Sub{Kind: "c1", CSets: []c06.CSet{{G: gA, Rules: []c06.CRule{{In: []int{gF}, Acts: acts(0, 1, 1, 1)}, {In: []int{gA}, Acts: acts(1, 1)}}}}})},
		{"gpos7.3", true, gposCtx(c06.Sub{Kind: "c3", Covs: [][]int{axf, {gI, gA, gM1}}, Acts: acts(1, 1)})},
		{"gpos8.1", true, gposCtx(c06.Sub{Kind: "k1", KSets: []c06.KSet{{G: gF, Rules: []c06.KRule{{Back: []int{gA}, In: []int{}, Look: []int{gI}, Acts: acts(0, 1)}}}}})},
		{"gpos8.3", true, gposCtx(c06.Sub{Kind: "k3", Covs: [][]int{}, Covs2: [][]int{{gA, gF}, {gM1, gI}}, Covs3: [][]int{{gA, gB, gF}}, Acts: acts(0, 1, 1, 1)})},
		{"gpos2.1+4.1", true, []c06.Lookup{
			lk(0, 0, c06.Sub{Kind: "pp1", PairRows: []c06.PairRow{{G: gA, Ents: []c06.PairEnt{{G2: gB, PairCell: c06.PairCell{V1: vr(0, 0, -80)}}, {G2: gA, PairCell: c06.PairCell{V1: vr(0, 0, -40)}}}}}}),
			lk(0, 0, c06.Sub{Kind: "mb", Marks: []c06.MarkRec{{G: gM1, Cls: 0, X: 200, Y: 0}}, Bases: []c06.BaseRec{{G: gA, Anchors: []*[2]int{{300, 900}}}, {G: gB, Anchors: []*[2]int{{310, 950}}}}})}},
	}
}

// catalogue font: one feature holding the lookup under test (lookup 0, and
// lookup 1 of two-lookup GPOS entries), under three language systems, one of
// which has it as REQUIRED feature, one as optional, one not at all.
func catFont(e catEntry, fv flagVar, outl string, n int, gd *c06.Gdef, forFile bool) fontT {
	tDe, tEn, tFr, tUnd := "de", "en", "fr", "und"
	if forFile {
		tDe, tEn, tFr, tUnd = "de-Latn-x-latn-deu", "en-Latn-x-latn-eng", "fr-Latn-x-latn-fra", "und-Latn-x-latn"
	}
	ll := make([]c06.Lookup, len(e.ll))
	copy(ll, e.ll)
	ll[0].Flags, ll[0].MFS = fv.flags, fv.mfs
	tag := "liga"
	other := "smcp"
	if e.gpos {
		tag, other = "kern", "cpsp"
	}
	top := []int{0}
	if e.name == "gpos2.1+4.1" {
		top = []int{1, 0}
	}
	g := gtabT{
		LL: ll,
		FL: []featureT{{Tag: other, Lookups: []int{}}, {Tag: tag, Lookups: top}},
		SL: []slEntryT{
			{Tag: tDe, F: featsT{Req: 1, Opt: []int{0}}},
			{Tag: tEn, F: featsT{Req: 0xFFFF, Opt: []int{1, 0}}},
			{Tag: tFr, F: featsT{Req: 0, Opt: []int{}}},
		},
	}
	f := fontT{Outl: outl, NGlyphs: n, Gdef: gd, Gsub: gtabT{Nil: true}, Gpos: gtabT{Nil: true}, Cmap: map[rune]int{}}
	for r, x := range baseCmap {
		f.Cmap[r] = x
	}
	f.Widths = make([]int, n)
	for i := range f.Widths {
		f.Widths[i] = 400 + 10*i
	}
	if e.gpos {
		f.Gpos = g
		// a plain ligature GSUB in front, so that GPOS sees ligature glyphs
		f.Gsub = gtabT{
			LL: []c06.Lookup{lk(0, 0, c06.Sub{Kind: "lig", LigSets: []c06.LigSet{{G: gF, Ligs: []c06.Lig{{Comps: []int{gI}, Out: gFI}}}}})},
			FL: []featureT{{Tag: "liga", Lookups: []int{0}}},
			SL: []slEntryT{{Tag: tUnd, F: featsT{Req: 0xFFFF, Opt: []int{0}}}},
		}
	} else {
		f.Gsub = g
		f.Gpos = gtabT{
			LL: []c06.Lookup{lk(0, 0, c06.Sub{Kind: "pp1", PairRows: []c06.PairRow{{G: gFI, Ents: []c06.PairEnt{{G2: gA, PairCell: c06.PairCell{V1: vr(0, 0, -30)}}}}, {G: gX, Ents: []c06.PairEnt{{G2: gX, PairCell: c06.PairCell{V1: vr(0, 0, -10)}}}}}})},
			FL: []featureT{{Tag: "kern", Lookups: []int{0}}},
			SL: []slEntryT{{Tag: tUnd, F: featsT{Req: 0, Opt: []int{}}}},
		}
	}
	if forFile {
		canonLookups(f.Gsub.LL)
		canonLookups(f.Gpos.LL)
		canonPairsForFile(f.Gpos.LL)
	}
	return f
}

// ---------------------------------------------------------------- running

const caseTimeout = 60 * time.Second

// evalCaseGuarded runs evalCase under a watchdog.
func evalCaseGuarded(c caseT) (res caseResult, err error, timedOut bool) {
	type out struct {
		res caseResult
		err error
	}
	ch := make(chan out, 1)
	go func() {
		r, e := evalCase(c)
		ch <- out{r, e}
	}()
	select {
	case o := <-ch:
		return o.res, o.err, false
	case <-time.After(caseTimeout):
		return caseResult{}, nil, true
	}
}

type stats struct {
	timeouts                                  int
	cases, strings, inDomain, changed, panics int
	fileCases, fileFallback                    int
	failCount                                  map[string]int
}

// fileFaithful: the font that was written and read back carries what the
// description says (tags, features, lookup counts, GDEF, widths, cmap).
func fileFaithful(c caseT) (string, error) {
	f, _, fileOK, err := c.Font.goFont(true)
	if err != nil {
		return "", err
	}
	if !fileOK {
		return "not-storable", nil
	}
	f2, err := roundTrip(f)
	if err != nil {
		return "write-read-error", nil
	}
	cmpTab := func(g gtabT, info *gtab.Info) string {
		if g.Nil != (info == nil) {
			return "table-presence"
		}
		if g.Nil {
			return ""
		}
		if len(info.LookupList) != len(g.LL) {
			return "lookup-count"
		}
		if len(info.FeatureList) != len(g.FL) {
			return "feature-count"
		}
		for i, ft := range info.FeatureList {
			if ft.Tag != g.FL[i].Tag || fmt.Sprint(toInts(ft.Lookups)) != fmt.Sprint(g.FL[i].Lookups) {
				return "feature-list"
			}
		}
		if len(info.ScriptList) != len(g.SL) {
			return "script-count"
		}
		for _, e := range g.SL {
			t, _ := parseTag(e.Tag)
			fs, ok := info.ScriptList[t]
			if !ok {
				return "script-tag"
			}
			if (fs == nil) != e.F.Nil {
				return "script-nil"
			}
			if fs != nil {
				opt := make([]int, len(fs.Optional))
				for i, o := range fs.Optional {
					opt[i] = int(o)
				}
				if int(fs.Required) != e.F.Req || fmt.Sprint(opt) != fmt.Sprint(e.F.Opt) {
					return "script-features"
				}
			}
		}
		return ""
	}
	if d := cmpTab(c.Font.Gsub, f2.Gsub); d != "" {
		return "gsub-" + d, nil
	}
	if d := cmpTab(c.Font.Gpos, f2.Gpos); d != "" {
		return "gpos-" + d, nil
	}
	canon := func(g *c06.Gdef) string {
		if g == nil {
			return "nil"
		}
		cl := append([][2]int{}, g.Class...)
		at := append([][2]int{}, g.Attach...)
		sort.Slice(cl, func(i, j int) bool { return cl[i][0] < cl[j][0] })
		sort.Slice(at, func(i, j int) bool { return at[i][0] < at[j][0] })
		var sets [][]int
		for _, s := range g.Sets {
			sets = append(sets, sortedInts(append([]int{}, s...)))
		}
		return fmt.Sprint(cl, at, sets)
	}
	if canon(c.Font.Gdef) != canon(gdefFromGtab(f2.Gdef)) {
		return "gdef", nil
	}
	var w2 []int
	switch o := f2.Outlines.(type) {
	case *glyf.Outlines:
		for _, w := range o.Widths {
			w2 = append(w2, int(w))
		}
	case *cff.Outlines:
		for _, g := range o.Glyphs {
			if g.Width != float64(int(g.Width)) {
				return "widths", nil
			}
			w2 = append(w2, int(g.Width))
		}
	}
	if fmt.Sprint(w2) != fmt.Sprint(c.Font.Widths) || f2.NumGlyphs() != c.Font.NGlyphs {
		return "widths", nil
	}
	cm, err := f2.CMapTable.GetBest()
	if err != nil {
		return "cmap", nil
	}
	probe := append([]rune{}, runePool...)
	for r := range c.Font.Cmap {
		probe = append(probe, r)
	}
	for _, r := range probe {
		if int(cm.Lookup(r)) != c.Font.Cmap[r] {
			return "cmap", nil
		}
	}
	return "", nil
}

func addCase(run *vlib.Run, st *stats, c caseT, labels ...string) {
	if st.timeouts >= 3 {
		return // the code under test hangs: the failures recorded so far are reported
	}
	if c.Mode == "file" {
		why, err := fileFaithful(c)
		if err != nil {
			panic(err)
		}
		if why == "not-storable" || why == "write-read-error" {
			// the file cannot carry the description: lay the in-memory font out instead
			c.Mode = "mem"
			st.fileFallback++
			labels = append(labels, "file-fallback:"+why)
		} else if why != "" {
			// the font read back differs from the description although the file
			// can carry it: the case stays a file case, the layout of the font
			// read back is compared with the model's layout of the description
			st.fileCases++
			labels = append(labels, "file-unfaithful:"+why)
		} else {
			st.fileCases++
		}
	}
	res, err, timedOut := evalCaseGuarded(c)
	if timedOut {
		// the code under test hangs (or is far too slow) on this font: an
		// observation of its own; the abandoned goroutine keeps a core busy,
		// so the run stops after a few of them
		st.timeouts++
		line, lerr := c.line(true)
		if lerr != nil {
			panic(lerr)
		}
		idx := run.Add(line, "timeout", false, append(labels, "timeout")...)
		run.Fail(idx, line, fmt.Sprintf("Layout of one font with %d strings did not finish within %v", len(c.Strs), caseTimeout), "c15b-timeout")
		return
	}
	if err != nil {
		panic(fmt.Sprintf("harness error: %v", err))
	}
	line, err := c.line(res.oracleOnly)
	if err != nil {
		panic(err)
	}
	st.cases++
	st.strings += res.strings
	st.inDomain += res.inDomain
	st.changed += res.changed
	st.panics += res.panics
	labels = append(labels, "mode:"+c.Mode)
	for l := range res.labels {
		labels = append(labels, l)
	}
	if res.inDomain == 0 {
		labels = append(labels, "all-ood")
	}
	if res.panics > 0 {
		labels = append(labels, "layout-panics")
	}
	if c.GSW.Nil {
		labels = append(labels, "gsub-switches-nil")
	}
	if c.PSW.Nil {
		labels = append(labels, "gpos-switches-nil")
	}
	for _, g := range []gtabT{c.Font.Gsub, c.Font.Gpos} {
		if g.Nil {
			continue
		}
		labels = append(labels, fmt.Sprintf("language-systems:%d", len(g.SL)))
		for _, e := range g.SL {
			if !e.F.Nil && e.F.Req < len(g.FL) {
				labels = append(labels, "required-feature")
				break
			}
		}
		seen := map[string]bool{}
		for i := range g.LL {
			if g.LL[i].Flags&0xFF1E != 0 && !seen["flags"] {
				seen["flags"] = true
				labels = append(labels, "lookup-flags")
			}
			for j := range g.LL[i].Subs {
				k := g.LL[i].Subs[j].Kind
				if !seen[k] {
					seen[k] = true
					labels = append(labels, "subtable:"+k)
				}
			}
		}
	}
	sort.Strings(labels)
	uniq := labels[:0]
	for i, l := range labels {
		if i == 0 || labels[i-1] != l {
			uniq = append(uniq, l)
		}
	}
	idx := run.Add(line, res.impl, res.changed > 0, uniq...)
	for _, f := range res.fails {
		if st.failCount == nil {
			st.failCount = map[string]int{}
		}
		st.failCount[f.sig]++
		if st.failCount[f.sig] > 8 {
			continue
		}
		single := c
		if f.str != nil {
			single.Strs = [][]rune{f.str}
		}
		sl, err := single.line(res.oracleOnly)
		if err != nil {
			sl = line
		}
		run.Fail(idx, sl, f.detail, f.sig)
	}
}

var _ = sfnt.Read

// Gen writes the run for the given tier.
func Gen(run *vlib.Run, seed uint64, tier string) {
	run.Rule = "one case = a complete font (cmap, widths, GDEF, GSUB and GPOS with script/feature/lookup lists), a language, two switch maps and a batch of strings laid out through Font.NewLayouter + Layouter.Layout (in memory, or after Write -> sfnt.Read); every string is compared with the extracted S_layout_general when both shaping passes are inside C06's in_domain (ood otherwise); non-trivial = at least one in-domain string whose layout differs from one-glyph-per-character with the font's advance (a rule applied); distinct by the whole case line"
	r := vlib.NewRand(seed)
	st := &stats{}
	t0 := time.Now()

	// (i) the catalogue: every lookup type/format under test x lookup flags x
	// outlines x in-memory/file x language (required / optional / absent) x switches
	cat := catalogue()
	nFlags := vlib.Count(tier, 4, len(flagVars))
	for ei, e := range cat {
		for k := 0; k < nFlags; k++ {
			fv := flagVars[k]
			if tier != "thorough" && k > 0 {
				fv = flagVars[1+(ei+k+int(seed))%(len(flagVars)-1)]
			}
			for mi, mode := range []string{"mem", "file"} {
				outl := []string{"glyf", "cff"}[(ei+k+mi)%2]
				n := nBase
				if outl == "cff" && mode == "file" {
					n = cffBaseGlyphs()
				}
				gd := fullGdef()
				if (ei+k)%5 == 4 {
					gd = nil
				}
				font := catFont(e, fv, outl, n, gd, mode == "file")
				strs := append([][]rune{}, directed...)
				rr := r.Fork(fmt.Sprintf("cat/%s/%s/%s", e.name, fv.name, mode))
				for i := 0; i < 6; i++ {
					strs = append(strs, randString(rr, 10))
				}
				for li, lang := range []string{"de", "en", "fr"} {
					if tier != "thorough" && (ei+k+mi+li)%3 != 0 && !(li == 1 && mi == 0) {
						continue
					}
					sw := []swT{{Nil: true}, {M: map[string]bool{}}, {M: map[string]bool{"liga": true, "kern": true, "smcp": true}}}[(ei+k+li)%3]
					c := caseT{Mode: mode, Lang: lang, Font: font, GSW: sw, PSW: sw, Strs: strs}
					addCase(run, st, c, "catalogue", "cat:"+e.name, "flags:"+fv.name)
				}
			}
		}
	}
	run.Extra["catalogue_entries"] = len(cat)
	run.Extra["catalogue_cases"] = st.cases

	// (ii) random fonts
	nr := vlib.Count(tier, 700, 20000)
	for i := 0; i < nr; i++ {
		forFile := i%4 == 3
		ctx := i%3 != 0
		font, labels := randFont(r, forFile, ctx)
		c := caseT{Mode: "mem", Font: font}
		if forFile {
			c.Mode = "file"
		}
		c.Lang = randLang(r, font.Gsub, font.Gpos)
		c.GSW = randSwitches(r, font.Gsub, false)
		c.PSW = randSwitches(r, font.Gpos, true)
		for j := 0; j < 4; j++ {
			c.Strs = append(c.Strs, vlib.Pick(r, directed))
		}
		for j := 0; j < 8; j++ {
			c.Strs = append(c.Strs, randString(r, vlib.Pick(r, []int{4, 8, 12, 16, 40})))
		}
		labels = append(labels, "random")
		if ctx {
			labels = append(labels, "contextual-allowed")
		}
		addCase(run, st, c, labels...)
	}

	run.Extra["cases"] = st.cases
	run.Extra["strings"] = st.strings
	run.Extra["strings_in_domain"] = st.inDomain
	run.Extra["strings_changed_by_a_rule"] = st.changed
	run.Extra["strings_on_which_layout_panics"] = st.panics
	run.Extra["file_cases"] = st.fileCases
	run.Extra["file_cases_laid_out_in_memory_instead"] = st.fileFallback
	run.Extra["oracle_failures_by_signature"] = st.failCount
	run.Extra["cases_timed_out"] = st.timeouts
	run.Extra["gen_wall_s"] = int(time.Since(t0).Seconds())
}
