// Package c15b (part C15B of property C15) drives the GENERAL layout pipeline:
// complete sfnt.Font values carrying generated cmap + GSUB + GPOS + GDEF
// content (C06's catalogue style: every substitution and positioning type,
// contextual rules, lookup flags with GDEF classes, several features and
// language systems, required features, switch maps) are laid out through the
// public API (Font.NewLayouter + Layouter.Layout), in memory or after
// Write -> sfnt.Read, and the observations are recorded in the syntax the Coq
// model S_layout_general (ocaml/c15b_driver.ml) prints.
//
// Case line (a leading "!" marks an oracle-only case):
//
//	layg MODE (MT) LANG (CMAP) OUTL GDEF GSUB GPOS GSW PSW (STR ...)
//
//	MODE  = mem | file             font used as built / written to bytes and read back
//	MT    = (((xTAG ...) idx) ...) what x/text answers for a sorted tag list
//	CMAP  = ((rune gid) ...)
//	OUTL  = (glyf n nil) | (glyf n (w...)) | (cff (w...))   n = Font.NumGlyphs() (for glyf fonts built
//	        in memory it may differ from the number of widths), the width slice
//	GDEF  = nogdef | (gdef ((g c)...) ((g c)...) ((g...)...))       C06 syntax
//	GSUB, GPOS = nil | ((SL) (FL) (LOOKUP ...))
//	SL    = ((xTAG nil) | (xTAG (req (opt...))) ...)
//	FL    = ((tag (lookup...)) ...)         tag as big-endian number
//	LOOKUP = (flags mfs (SUB...))            C06 syntax (harness/c06/types.go)
//	GSW, PSW = nil | ((tag 0|1) ...)
//	STR   = (rune ...)
//
// Observation: one entry per string: (ok (gid (text...) xoff yoff adv)...),
// panic, or ood (outside C06's in_domain for one of the shaping passes,
// decided by C06's Go reference shaper).
//
// The oracle (oracle.go) states the property on the real code's observables
// and does not use the model.
package c15b

import (
	"bytes"
	"errors"
	"fmt"
	"sort"
	"strings"
	"sync"

	"golang.org/x/text/language"
	"seehuhn.de/go/postscript/funit"
	"seehuhn.de/go/sfnt"
	"seehuhn.de/go/sfnt/header"
	"seehuhn.de/go/sfnt/cff"
	"seehuhn.de/go/sfnt/cmap"
	"seehuhn.de/go/sfnt/glyf"
	"seehuhn.de/go/sfnt/glyph"
	"seehuhn.de/go/sfnt/internal/debug"
	"seehuhn.de/go/sfnt/opentype/gtab"
	"seehuhn.de/go/sfnt/verifharness/c06"
	"seehuhn.de/go/sfnt/verifharness/vlib"
)

// ---------------------------------------------------------------- plain data

type featsT struct {
	Nil bool
	Req int
	Opt []int
}

type slEntryT struct {
	Tag string // language.Tag.String()
	F   featsT
}

type featureT struct {
	Tag     string // 4 bytes
	Lookups []int
}

type swT struct {
	Nil bool
	M   map[string]bool
}

type gtabT struct {
	Nil bool
	SL  []slEntryT
	FL  []featureT
	LL  []c06.Lookup
}

type fontT struct {
	Cmap   map[rune]int
	Outl   string // "glyf-nil", "glyf", "cff"
	Widths []int
	NGlyphs int      // Font.NumGlyphs()
	Gdef   *c06.Gdef // nil = no GDEF table
	Gsub   gtabT
	Gpos   gtabT
}

type caseT struct {
	Mode     string // mem, file
	Lang     string
	Font     fontT
	GSW, PSW swT
	Strs     [][]rune
}

func tagN(s string) uint32 {
	return uint32(s[0])<<24 | uint32(s[1])<<16 | uint32(s[2])<<8 | uint32(s[3])
}

func tagS(n uint32) string {
	return string([]byte{byte(n >> 24), byte(n >> 16), byte(n >> 8), byte(n)})
}

// ---------------------------------------------------------------- printing

func (f featsT) sx() vlib.Sx {
	if f.Nil {
		return vlib.Atom("nil")
	}
	return vlib.L(vlib.Int(f.Req), vlib.Ints(f.Opt))
}

func slSx(sl []slEntryT) vlib.Sx {
	l := vlib.List{}
	for _, e := range sl {
		l = append(l, vlib.L(vlib.Hex([]byte(e.Tag)), e.F.sx()))
	}
	return l
}

func flSx(fl []featureT) vlib.Sx {
	l := vlib.List{}
	for _, f := range fl {
		l = append(l, vlib.L(vlib.U64(uint64(tagN(f.Tag))), vlib.Ints(f.Lookups)))
	}
	return l
}

func (s swT) sx() vlib.Sx {
	if s.Nil {
		return vlib.Atom("nil")
	}
	keys := make([]string, 0, len(s.M))
	for k := range s.M {
		keys = append(keys, k)
	}
	sort.Strings(keys)
	l := vlib.List{}
	for _, k := range keys {
		l = append(l, vlib.L(vlib.U64(uint64(tagN(k))), vlib.Bool(s.M[k])))
	}
	return l
}

func (s swT) goMap() map[string]bool {
	if s.Nil {
		return nil
	}
	m := make(map[string]bool, len(s.M))
	for k, v := range s.M {
		m[k] = v
	}
	return m
}

// c06Sx renders a GDEF and a lookup list in C06's syntax (through C06's own
// printer: the first two items of its case line).
func c06Sx(gd *c06.Gdef, ll []c06.Lookup) (vlib.Sx, vlib.Sx) {
	items, err := vlib.Parse((&c06.Case{Gdef: gd, LL: ll}).Line())
	if err != nil || len(items) != 4 {
		panic("c06 case line not parsable")
	}
	return items[0], items[1]
}

func (g gtabT) sx() vlib.Sx {
	if g.Nil {
		return vlib.Atom("nil")
	}
	_, ll := c06Sx(nil, g.LL)
	return vlib.L(slSx(g.SL), flSx(g.FL), ll)
}

func cmapSx(cm map[rune]int) vlib.Sx {
	keys := make([]int, 0, len(cm))
	for r := range cm {
		keys = append(keys, int(r))
	}
	sort.Ints(keys)
	l := vlib.List{}
	for _, r := range keys {
		l = append(l, vlib.L(vlib.Int(r), vlib.Int(cm[rune(r)])))
	}
	return l
}

func outlSx(kind string, w []int, n int) vlib.Sx {
	switch kind {
	case "glyf-nil":
		return vlib.L(vlib.Atom("glyf"), vlib.Int(n), vlib.Atom("nil"))
	case "glyf":
		return vlib.L(vlib.Atom("glyf"), vlib.Int(n), vlib.Ints(w))
	case "cff":
		return vlib.L(vlib.Atom("cff"), vlib.Ints(w))
	}
	panic("bad outline kind")
}

func runesSx(rs []rune) vlib.Sx {
	l := vlib.List{}
	for _, r := range rs {
		l = append(l, vlib.Int(int(r)))
	}
	return l
}

func seqSx(seq []glyph.Info) string {
	l := vlib.List{vlib.Atom("ok")}
	for _, g := range seq {
		l = append(l, vlib.L(vlib.Int(int(g.GID)), runesSx(g.Text), vlib.Int(int(g.XOffset)), vlib.Int(int(g.YOffset)), vlib.Int(int(g.Advance))))
	}
	return vlib.Str(l)
}

// ---------------------------------------------------------------- language tags

func parseTag(s string) (language.Tag, error) {
	t, err := language.Parse(s)
	if err != nil {
		return language.Tag{}, fmt.Errorf("tag %q: %v", s, err)
	}
	return t, nil
}

// sortedTags returns the keys of a script list in the order of their strings
// (Go's string order), and the corresponding language.Tag values.
func sortedTags(sl []slEntryT) ([]string, []language.Tag, error) {
	strs := make([]string, len(sl))
	for i, e := range sl {
		strs[i] = e.Tag
	}
	sort.Strings(strs)
	tags := make([]language.Tag, len(strs))
	for i, s := range strs {
		t, err := parseTag(s)
		if err != nil {
			return nil, nil, err
		}
		tags[i] = t
	}
	return strs, tags, nil
}

// matcherIndex asks x/text which of the (sorted) tags matches lang.
func matcherIndex(sl []slEntryT, lang language.Tag) (int, []string, error) {
	strs, tags, err := sortedTags(sl)
	if err != nil {
		return 0, nil, err
	}
	if len(tags) == 0 {
		return 0, strs, nil
	}
	_, idx, _ := language.NewMatcher(tags).Match(lang)
	return idx, strs, nil
}

// matcherTable lists, for every non-empty script list of the font, the sorted
// tag list and x/text's answer.
func matcherTable(lang language.Tag, tabs ...gtabT) (vlib.Sx, error) {
	l := vlib.List{}
	for _, g := range tabs {
		if g.Nil || len(g.SL) == 0 {
			continue
		}
		idx, strs, err := matcherIndex(g.SL, lang)
		if err != nil {
			return nil, err
		}
		tl := vlib.List{}
		for _, s := range strs {
			tl = append(tl, vlib.Hex([]byte(s)))
		}
		l = append(l, vlib.L(tl, vlib.Int(idx)))
	}
	return l, nil
}

// ---------------------------------------------------------------- building the real structures

func (f featsT) goFeatures() *gtab.Features {
	if f.Nil {
		return nil
	}
	opt := make([]gtab.FeatureIndex, len(f.Opt))
	for i, o := range f.Opt {
		opt[i] = gtab.FeatureIndex(o)
	}
	return &gtab.Features{Required: gtab.FeatureIndex(f.Req), Optional: opt}
}

func goScriptList(sl []slEntryT) (gtab.ScriptListInfo, error) {
	res := gtab.ScriptListInfo{}
	for _, e := range sl {
		t, err := parseTag(e.Tag)
		if err != nil {
			return nil, err
		}
		if _, dup := res[t]; dup {
			return nil, fmt.Errorf("duplicate language tag %q", e.Tag)
		}
		res[t] = e.F.goFeatures()
	}
	return res, nil
}

func goFeatureList(fl []featureT) gtab.FeatureListInfo {
	res := make(gtab.FeatureListInfo, len(fl))
	for i, f := range fl {
		ls := make([]gtab.LookupIndex, len(f.Lookups))
		for j, l := range f.Lookups {
			ls[j] = gtab.LookupIndex(l)
		}
		res[i] = &gtab.Feature{Tag: f.Tag, Lookups: ls}
	}
	return res
}

// goInfo builds the gtab.Info; buildable is false when a subtable kind cannot
// be built, fileOK when the lookup list can be stored in a font file.
func (g gtabT) goInfo(gpos bool) (info *gtab.Info, buildable, fileOK bool, err error) {
	if g.Nil {
		return nil, true, true, nil
	}
	sl, err := goScriptList(g.SL)
	if err != nil {
		return nil, false, false, err
	}
	ll, ok, hom := lookupsToGtab(g.LL, gpos)
	return &gtab.Info{ScriptList: sl, FeatureList: goFeatureList(g.FL), LookupList: ll}, ok, hom, nil
}

func goCmap(cm map[rune]int) cmap.Subtable {
	big := false
	for r := range cm {
		if r > 0xFFFF {
			big = true
		}
	}
	if big {
		s := cmap.Format12{}
		for r, g := range cm {
			s[uint32(r)] = glyph.ID(g)
		}
		return s
	}
	s := cmap.Format4{}
	for r, g := range cm {
		s[uint16(r)] = glyph.ID(g)
	}
	return s
}

// a one-contour triangle, so that the glyf table is not empty
var triangle = &glyf.Glyph{
	Rect16: funit.Rect16{URx: 100, URy: 100},
	Data:   glyf.SimpleGlyph{NumContours: 1, Encoded: []byte{0, 2, 0, 0, 1, 1, 1, 0, 0, 0, 100, 0, 0, 0, 0, 0, 0, 0, 100}},
}

var (
	cffBaseOnce sync.Once
	cffBase     *sfnt.Font
)

func cffBaseFont() *sfnt.Font {
	cffBaseOnce.Do(func() { cffBase = debug.MakeSimpleFont() })
	return cffBase
}

// cffBaseGlyphs returns the number of glyphs of the CFF base font used for
// fonts that are written to a file.
func cffBaseGlyphs() int { return len(cffBaseFont().Outlines.(*cff.Outlines).Glyphs) }

func goOutlines(kind string, w []int, n int) sfnt.Outlines {
	switch kind {
	case "glyf-nil", "glyf":
		gg := make(glyf.Glyphs, n)
		if len(gg) > 0 {
			gg[0] = triangle
		}
		if kind == "glyf-nil" {
			return &glyf.Outlines{Glyphs: gg}
		}
		ws := make([]funit.Int16, len(w))
		for i, x := range w {
			ws[i] = funit.Int16(x)
		}
		return &glyf.Outlines{Glyphs: gg, Widths: ws}
	case "cff":
		o := &cff.Outlines{}
		for i, x := range w {
			o.Glyphs = append(o.Glyphs, cff.NewGlyph(fmt.Sprintf("g%d", i), float64(x)))
		}
		return o
	}
	panic("bad outline kind")
}

// goFont builds the in-memory font.  forFile: CFF outlines are those of
// internal/debug.MakeSimpleFont with our widths (they can be written).
func (f fontT) goFont(forFile bool) (res *sfnt.Font, buildable, fileOK bool, err error) {
	if forFile && f.Outl == "cff" {
		base := cffBaseFont()
		cp := *base
		o := *(base.Outlines.(*cff.Outlines))
		if len(f.Widths) != len(o.Glyphs) {
			return nil, false, false, fmt.Errorf("cff base font has %d glyphs, case has %d widths", len(o.Glyphs), len(f.Widths))
		}
		gg := make([]*cff.Glyph, len(o.Glyphs))
		for i, g := range o.Glyphs {
			g2 := *g
			g2.Width = float64(f.Widths[i])
			gg[i] = &g2
		}
		o.Glyphs = gg
		o.Encoding = nil
		cp.Outlines = &o
		res = &cp
	} else {
		res = &sfnt.Font{FamilyName: "C15B", UnitsPerEm: 1000, Outlines: goOutlines(f.Outl, f.Widths, f.NGlyphs)}
	}
	res.InstallCMap(goCmap(f.Cmap))
	res.Gdef = gdefToGtab(f.Gdef)
	var ok1, ok2, h1, h2 bool
	res.Gsub, ok1, h1, err = f.Gsub.goInfo(false)
	if err != nil {
		return nil, false, false, err
	}
	res.Gpos, ok2, h2, err = f.Gpos.goInfo(true)
	if err != nil {
		return nil, false, false, err
	}
	if f.Outl == "cff" && f.NGlyphs != len(f.Widths) {
		return nil, false, false, fmt.Errorf("cff: %d glyphs but %d widths", f.NGlyphs, len(f.Widths))
	}
	return res, ok1 && ok2, h1 && h2 && f.Outl != "glyf-nil" && f.NGlyphs == len(f.Widths), nil
}

// roundTrip writes the font and reads it back.
func roundTrip(f *sfnt.Font) (f2 *sfnt.Font, err error) {
	defer func() {
		if e := recover(); e != nil {
			f2, err = nil, fmt.Errorf("panic: %v", e)
		}
	}()
	buf := &bytes.Buffer{}
	if _, err := f.Write(buf); err != nil {
		return nil, err
	}
	file := buf.Bytes()
	// every second file (chosen by its length) carries its GDEF table the way
	// other tools write it: version 1.3 header, i.e. an item variation store
	// offset behind the mark glyph sets offset - same content, same layout
	if len(file)%2 == 0 {
		if g := repackGdef13(file); g != nil {
			file = g
		}
	}
	return sfnt.Read(bytes.NewReader(file))
}

// repackGdef13 rewrites the container with the GDEF table (if it has the
// 14-byte version 1.2 header) turned into a version 1.3 table; nil if there is
// nothing to do.
func repackGdef13(file []byte) []byte {
	hdr, err := header.Read(bytes.NewReader(file))
	if err != nil {
		return nil
	}
	tables := map[string][]byte{}
	for n := range hdr.Toc {
		b, err := hdr.ReadTableBytes(bytes.NewReader(file), n)
		if err != nil {
			return nil
		}
		tables[n] = b
	}
	e := tables["GDEF"]
	if len(e) < 14 || e[0] != 0 || e[1] != 1 || e[3] != 2 {
		return nil
	}
	d := append([]byte(nil), e[:14]...)
	d[3] = 3
	for p := 4; p < 14; p += 2 {
		if o := int(d[p])<<8 | int(d[p+1]); o != 0 {
			o += 4
			d[p], d[p+1] = byte(o>>8), byte(o)
		}
	}
	storeAt := 0
	if len(e)%4 == 0 {
		storeAt = 18 + len(e) - 14
	}
	d = append(d, byte(storeAt>>24), byte(storeAt>>16), byte(storeAt>>8), byte(storeAt))
	d = append(d, e[14:]...)
	if storeAt != 0 {
		d = append(d, 0, 1, 0, 0, 0, 8, 0, 0, 0, 0, 0, 0)
	}
	tables["GDEF"] = d
	out := &bytes.Buffer{}
	if _, err := header.Write(out, hdr.ScalerType, tables); err != nil {
		return nil
	}
	return out.Bytes()
}

// ---------------------------------------------------------------- case lines

func (c caseT) line(oracleOnly bool) (string, error) {
	lang, err := parseTag(c.Lang)
	if err != nil {
		return "", err
	}
	mt, err := matcherTable(lang, c.Font.Gsub, c.Font.Gpos)
	if err != nil {
		return "", err
	}
	head := "layg"
	if oracleOnly {
		head = "!layg"
	}
	gd, _ := c06Sx(c.Font.Gdef, nil)
	strs := vlib.List{}
	for _, s := range c.Strs {
		strs = append(strs, runesSx(s))
	}
	return vlib.Line(vlib.Atom(head), vlib.Atom(c.Mode), mt, vlib.Atom(c.Lang),
		cmapSx(c.Font.Cmap), outlSx(c.Font.Outl, c.Font.Widths, c.Font.NGlyphs), gd,
		c.Font.Gsub.sx(), c.Font.Gpos.sx(), c.GSW.sx(), c.PSW.sx(), strs), nil
}

func isNilAtom(x vlib.Sx) bool {
	a, ok := x.(vlib.Atom)
	return ok && a == "nil"
}

func asFeats(x vlib.Sx) (featsT, error) {
	if isNilAtom(x) {
		return featsT{Nil: true}, nil
	}
	l, err := vlib.AsList(x)
	if err != nil || len(l) != 2 {
		return featsT{}, errors.New("bad features")
	}
	req, err := vlib.AsInt(l[0])
	if err != nil {
		return featsT{}, err
	}
	opt, err := vlib.AsInts(l[1])
	if err != nil {
		return featsT{}, err
	}
	return featsT{Req: req, Opt: opt}, nil
}

func asSL(x vlib.Sx) ([]slEntryT, error) {
	l, err := vlib.AsList(x)
	if err != nil {
		return nil, err
	}
	var out []slEntryT
	for _, e := range l {
		p, err := vlib.AsList(e)
		if err != nil || len(p) != 2 {
			return nil, errors.New("bad script list entry")
		}
		b, err := vlib.AsBytes(p[0])
		if err != nil {
			return nil, err
		}
		f, err := asFeats(p[1])
		if err != nil {
			return nil, err
		}
		out = append(out, slEntryT{Tag: string(b), F: f})
	}
	return out, nil
}

func asFL(x vlib.Sx) ([]featureT, error) {
	l, err := vlib.AsList(x)
	if err != nil {
		return nil, err
	}
	var out []featureT
	for _, e := range l {
		p, err := vlib.AsList(e)
		if err != nil || len(p) != 2 {
			return nil, errors.New("bad feature")
		}
		t, err := vlib.AsI64(p[0])
		if err != nil {
			return nil, err
		}
		ls, err := vlib.AsInts(p[1])
		if err != nil {
			return nil, err
		}
		out = append(out, featureT{Tag: tagS(uint32(t)), Lookups: ls})
	}
	return out, nil
}

func asSW(x vlib.Sx) (swT, error) {
	if isNilAtom(x) {
		return swT{Nil: true}, nil
	}
	l, err := vlib.AsList(x)
	if err != nil {
		return swT{}, err
	}
	s := swT{M: map[string]bool{}}
	for _, e := range l {
		p, err := vlib.AsList(e)
		if err != nil || len(p) != 2 {
			return swT{}, errors.New("bad switch")
		}
		t, err := vlib.AsI64(p[0])
		if err != nil {
			return swT{}, err
		}
		b, err := vlib.AsBool(p[1])
		if err != nil {
			return swT{}, err
		}
		s.M[tagS(uint32(t))] = b
	}
	return s, nil
}

// parseC06 parses a GDEF and a lookup list in C06's syntax through C06's parser.
func parseC06(gd, ll vlib.Sx) (*c06.Gdef, []c06.Lookup, error) {
	c, err := c06.ParseCase(vlib.Line(gd, ll, vlib.L(), vlib.L()))
	if err != nil {
		return nil, nil, err
	}
	return c.Gdef, c.LL, nil
}

func asGtab(x vlib.Sx) (gtabT, error) {
	if isNilAtom(x) {
		return gtabT{Nil: true}, nil
	}
	l, err := vlib.AsList(x)
	if err != nil || len(l) != 3 {
		return gtabT{}, errors.New("bad gtab")
	}
	var g gtabT
	if g.SL, err = asSL(l[0]); err != nil {
		return g, err
	}
	if g.FL, err = asFL(l[1]); err != nil {
		return g, err
	}
	if _, g.LL, err = parseC06(vlib.Atom("nogdef"), l[2]); err != nil {
		return g, err
	}
	return g, nil
}

func asCmap(x vlib.Sx) (map[rune]int, error) {
	l, err := vlib.AsList(x)
	if err != nil {
		return nil, err
	}
	m := map[rune]int{}
	for _, e := range l {
		p, err := vlib.AsInts(e)
		if err != nil || len(p) != 2 {
			return nil, errors.New("bad cmap entry")
		}
		m[rune(p[0])] = p[1]
	}
	return m, nil
}

func asOutl(x vlib.Sx) (kind string, w []int, n int, err error) {
	l, err := vlib.AsList(x)
	if err != nil || len(l) < 2 {
		return "", nil, 0, errors.New("bad outlines")
	}
	k, err := vlib.AsAtom(l[0])
	if err != nil {
		return "", nil, 0, err
	}
	switch {
	case k == "glyf" && len(l) == 3:
		if n, err = vlib.AsInt(l[1]); err != nil {
			return "", nil, 0, err
		}
		if isNilAtom(l[2]) {
			return "glyf-nil", nil, n, nil
		}
		if w, err = vlib.AsInts(l[2]); err != nil {
			return "", nil, 0, err
		}
		return "glyf", w, n, nil
	case k == "cff" && len(l) == 2:
		if w, err = vlib.AsInts(l[1]); err != nil {
			return "", nil, 0, err
		}
		return "cff", w, len(w), nil
	}
	return "", nil, 0, errors.New("bad outlines")
}

func parseCase(line string) (c caseT, err error) {
	line = strings.TrimPrefix(line, "!")
	items, err := vlib.Parse(line)
	if err != nil {
		return c, err
	}
	if len(items) != 12 {
		return c, fmt.Errorf("layg case: want 12 items, got %d", len(items))
	}
	if a, _ := vlib.AsAtom(items[0]); a != "layg" {
		return c, errors.New("unknown case kind")
	}
	if c.Mode, err = vlib.AsAtom(items[1]); err != nil {
		return c, err
	}
	if c.Lang, err = vlib.AsAtom(items[3]); err != nil {
		return c, err
	}
	if c.Font.Cmap, err = asCmap(items[4]); err != nil {
		return c, err
	}
	if c.Font.Outl, c.Font.Widths, c.Font.NGlyphs, err = asOutl(items[5]); err != nil {
		return c, err
	}
	if c.Font.Gdef, _, err = parseC06(items[6], vlib.L()); err != nil {
		return c, err
	}
	if c.Font.Gsub, err = asGtab(items[7]); err != nil {
		return c, err
	}
	if c.Font.Gpos, err = asGtab(items[8]); err != nil {
		return c, err
	}
	if c.GSW, err = asSW(items[9]); err != nil {
		return c, err
	}
	if c.PSW, err = asSW(items[10]); err != nil {
		return c, err
	}
	sl, err := vlib.AsList(items[11])
	if err != nil {
		return c, err
	}
	for _, s := range sl {
		rs, err := vlib.AsInts(s)
		if err != nil {
			return c, err
		}
		str := make([]rune, len(rs))
		for i, r := range rs {
			str[i] = rune(r)
		}
		c.Strs = append(c.Strs, str)
	}
	return c, nil
}
