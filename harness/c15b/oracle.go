package c15b

import (
	"fmt"
	"sort"
	"strings"

	"golang.org/x/text/language"
	"seehuhn.de/go/postscript/funit"
	"seehuhn.de/go/sfnt"
	"seehuhn.de/go/sfnt/glyph"
	"seehuhn.de/go/sfnt/opentype/gtab"
	"seehuhn.de/go/sfnt/verifharness/c06"
	"seehuhn.de/go/sfnt/verifharness/vlib"
)

// ---------------------------------------------------------------- running the implementation

func copySeq(seq []glyph.Info) []glyph.Info {
	cp := make([]glyph.Info, len(seq))
	for i, g := range seq {
		cp[i] = g
		cp[i].Text = append([]rune(nil), g.Text...)
	}
	return cp
}

func newLayouter(f *sfnt.Font, lang language.Tag, gsw, psw map[string]bool) (l *sfnt.Layouter, obs string) {
	defer func() {
		if e := recover(); e != nil {
			l, obs = nil, "panic"
		}
	}()
	l, err := f.NewLayouter(lang, gsw, psw)
	if err != nil {
		return nil, "err"
	}
	return l, ""
}

// layoutOnce: Layouter.Layout through the public API; a panic is an observation.
func layoutOnce(l *sfnt.Layouter, s string) (out []glyph.Info, obs string) {
	defer func() {
		if e := recover(); e != nil {
			out, obs = nil, "panic"
		}
	}()
	out = copySeq(l.Layout(s))
	if len(out) > 64*len(s)+4096 {
		// runaway growth: do not build megabytes of observation text
		return out[:0], fmt.Sprintf("(runaway %d)", len(out))
	}
	return out, seqSx(out)
}

func findLookups(info *gtab.Info, lang language.Tag, sw map[string]bool) (res []gtab.LookupIndex, panicked bool) {
	defer func() {
		if e := recover(); e != nil {
			res, panicked = nil, true
		}
	}()
	return info.FindLookups(lang, sw), false
}

func applyFresh(ll gtab.LookupList, gd *sfnt.Font, sel []gtab.LookupIndex, seq []glyph.Info) (out []glyph.Info, panicked bool) {
	defer func() {
		if e := recover(); e != nil {
			out, panicked = nil, true
		}
	}()
	return gtab.NewContext(ll, gd.Gdef, sel).Apply(seq), false
}

// recompute: the pipeline of the property statement, step by step, with the
// library's own lower-level API on fresh contexts: best cmap subtable ->
// FindLookups + Apply (GSUB) -> advance widths for non-marks -> FindLookups +
// Apply (GPOS).  obs is "panic" when a step panics; where tells which.
func recompute(f *sfnt.Font, lang language.Tag, gsw, psw map[string]bool, s string) (obs, where string, afterGsub []glyph.Info) {
	defer func() {
		if e := recover(); e != nil {
			obs = "panic"
			if where == "" {
				where = "other"
			}
		}
	}()
	cm, err := f.CMapTable.GetBest()
	if err != nil {
		return "err", "cmap", nil
	}
	var seq []glyph.Info
	for _, r := range s {
		seq = append(seq, glyph.Info{GID: cm.Lookup(r), Text: []rune{r}})
	}
	if f.Gsub != nil {
		if gsw == nil {
			gsw = gtab.GsubDefaultFeatures
		}
		sel, p := findLookups(f.Gsub, lang, gsw)
		if p {
			return "panic", "gsub-select", nil
		}
		seq, p = applyFresh(f.Gsub.LookupList, f, sel, seq)
		if p {
			return "panic", "gsub-apply", nil
		}
	}
	afterGsub = copySeq(seq)
	where = "widths"
	for i := range seq {
		// every glyph the font has and which is not a mark gets its advance width
		if int(seq[i].GID) < f.NumGlyphs() && !f.Gdef.IsMark(seq[i].GID) {
			seq[i].Advance = funit.Int16(f.GlyphWidth(seq[i].GID))
		}
	}
	where = ""
	if f.Gpos != nil {
		if psw == nil {
			psw = gtab.GposDefaultFeatures
		}
		sel, p := findLookups(f.Gpos, lang, psw)
		if p {
			return "panic", "gpos-select", afterGsub
		}
		seq, p = applyFresh(f.Gpos.LookupList, f, sel, seq)
		if p {
			return "panic", "gpos-apply", afterGsub
		}
	}
	return seqSx(seq), "", afterGsub
}

// ---------------------------------------------------------------- statements on the abstract description

func (f fontT) isMark(gid int) bool {
	if f.Gdef == nil {
		return false
	}
	c := 0
	for _, e := range f.Gdef.Class {
		if e[0] == gid {
			c = e[1]
		}
	}
	return c == 3
}

// advance returns the advance the width loop gives a glyph.  exists=false:
// the font does not have the glyph (no width: the advance is left alone);
// ok=false: the glyph exists but the width slice has no entry for it
// (GlyphWidth indexes out of range).
func (f fontT) advance(gid int) (w int, exists, ok bool) {
	if gid < 0 || gid >= f.NGlyphs {
		return 0, false, true
	}
	if f.Outl == "glyf-nil" {
		return 0, true, true
	}
	if gid >= len(f.Widths) {
		return 0, true, false
	}
	return f.Widths[gid], true, true
}

// wantedLookups states the selection rule directly: the in-range lookups of
// the required feature and of every optional feature that is switched on,
// ascending, without duplicates.
func wantedLookups(f featsT, fl []featureT, nLookups int, sw map[string]bool) []int {
	set := map[int]bool{}
	if f.Req >= 0 && f.Req < len(fl) {
		for _, l := range fl[f.Req].Lookups {
			set[l] = true
		}
	}
	for _, o := range f.Opt {
		if o >= 0 && o < len(fl) && sw[fl[o].Tag] {
			for _, l := range fl[o].Lookups {
				set[l] = true
			}
		}
	}
	res := []int{}
	for l := range set {
		if l < nLookups {
			res = append(res, l)
		}
	}
	sort.Ints(res)
	return res
}

// specSelection: the language system x/text points at (in the sorted tag
// list), then the selection rule.
func specSelection(g gtabT, lang language.Tag, sw map[string]bool) ([]int, error) {
	if g.Nil || len(g.SL) == 0 {
		return []int{}, nil
	}
	idx, strs, err := matcherIndex(g.SL, lang)
	if err != nil {
		return nil, err
	}
	for _, e := range g.SL {
		if e.Tag == strs[idx] {
			if e.F.Nil {
				return []int{}, nil
			}
			return wantedLookups(e.F, g.FL, len(g.LL), sw), nil
		}
	}
	return nil, fmt.Errorf("tag not found")
}

func sameSel(a []int, b []gtab.LookupIndex) bool {
	if len(a) != len(b) {
		return false
	}
	for i := range a {
		if a[i] != int(b[i]) {
			return false
		}
	}
	return true
}

func isContextual(kind string) bool {
	switch kind {
	case "c1", "c2", "c3", "k1", "k2", "k3":
		return true
	}
	return false
}

// firstGlyphs: the glyphs at which a subtable can start to match (its
// coverage of the first input glyph), from the description alone.
func firstGlyphs(s *c06.Sub) []int {
	var out []int
	switch s.Kind {
	case "s1", "p1", "c2", "k2", "pp2":
		out = append(out, s.Cov...)
	case "s2", "r8":
		for _, e := range s.Map {
			out = append(out, e[0])
		}
	case "mul", "alt":
		for _, e := range s.KVs {
			out = append(out, e.G)
		}
	case "lig":
		for _, e := range s.LigSets {
			out = append(out, e.G)
		}
	case "c1":
		for _, e := range s.CSets {
			out = append(out, e.G)
		}
	case "k1":
		for _, e := range s.KSets {
			out = append(out, e.G)
		}
	case "c3":
		if len(s.Covs) > 0 {
			out = append(out, s.Covs[0]...)
		}
	case "k3":
		if len(s.Covs2) > 0 {
			out = append(out, s.Covs2[0]...)
		}
	case "p2":
		for _, e := range s.GVs {
			out = append(out, e.G)
		}
	case "pp1":
		for _, e := range s.PairRows {
			out = append(out, e.G)
		}
	case "mb", "mm":
		for _, e := range s.Marks {
			out = append(out, e.G)
		}
	default:
		return nil // unknown kind: cannot tell
	}
	if out == nil {
		out = []int{}
	}
	return out
}

// noRuleCanApply: none of the selected lookups has a subtable whose first
// input glyph occurs in the sequence (judged from the description alone).
func noRuleCanApply(ll []c06.Lookup, sel []int, gidsIn []int) bool {
	in := map[int]bool{}
	for _, g := range gidsIn {
		in[g] = true
	}
	for _, li := range sel {
		if li < 0 || li >= len(ll) {
			continue
		}
		for j := range ll[li].Subs {
			fg := firstGlyphs(&ll[li].Subs[j])
			if fg == nil {
				return false
			}
			for _, g := range fg {
				if in[g] {
					return false
				}
			}
		}
	}
	return true
}

// ligaturesKeepEverything: every selected GSUB lookup holding a ligature
// subtable ignores no glyph (no GDEF, or flags without ignore bits, mark
// filtering set and attachment type), so ligature components are adjacent.
func ligaturesKeepEverything(ll []c06.Lookup, sel []int, hasGdef bool) bool {
	for _, li := range sel {
		if li < 0 || li >= len(ll) {
			continue
		}
		hasLig := false
		for j := range ll[li].Subs {
			if ll[li].Subs[j].Kind == "lig" {
				hasLig = true
			}
		}
		if hasLig && hasGdef && ll[li].Flags&0xFF1E != 0 {
			return false
		}
	}
	return true
}

func selectedContextual(ll []c06.Lookup, sel []int) bool {
	for _, li := range sel {
		if li < 0 || li >= len(ll) {
			continue
		}
		for j := range ll[li].Subs {
			if isContextual(ll[li].Subs[j].Kind) {
				return true
			}
		}
	}
	return false
}

func textOf(out []glyph.Info) []rune {
	var t []rune
	for _, g := range out {
		t = append(t, g.Text...)
	}
	return t
}

func sortedRunes(rs []rune) string {
	cp := append([]rune(nil), rs...)
	sort.Slice(cp, func(i, j int) bool { return cp[i] < cp[j] })
	return string(cp)
}

func toInts(sel []gtab.LookupIndex) []int {
	out := make([]int, len(sel))
	for i, x := range sel {
		out[i] = int(x)
	}
	return out
}

// ---------------------------------------------------------------- one case

type failure struct {
	str    []rune
	detail string
	sig    string
}

type caseResult struct {
	impl       string
	oracleOnly bool // the model cannot express the font (unsupported subtable)
	fails      []failure
	strings    int
	inDomain   int
	changed    int // in-domain strings whose output differs from the identity
	panics     int
	labels     map[string]bool
}

const repeats = 50

func copyMap(m map[string]bool) map[string]bool {
	res := make(map[string]bool, len(m))
	for k, v := range m {
		res[k] = v
	}
	return res
}

// evalCase builds the font (writes and re-reads it in file mode), lays every
// string out through the public API and evaluates the oracle.
func evalCase(c caseT) (res caseResult, err error) {
	res.labels = map[string]bool{}
	lang, err := parseTag(c.Lang)
	if err != nil {
		return res, err
	}
	f, buildable, fileOK, err := c.Font.goFont(c.Mode == "file")
	if err != nil {
		return res, err
	}
	res.oracleOnly = !buildable
	if c.Mode == "file" {
		if !fileOK {
			return res, fmt.Errorf("font cannot be stored in a file")
		}
		f2, err := roundTrip(f)
		if err != nil {
			return res, fmt.Errorf("write/read: %v", err)
		}
		f = f2
	}
	gsw, psw := c.GSW.goMap(), c.PSW.goMap()
	fail := func(s []rune, sig, format string, a ...any) {
		res.fails = append(res.fails, failure{s, fmt.Sprintf(format, a...), sig})
	}

	// feature selection: the real FindLookups against the selection rule
	effG, effP := gsw, psw
	if effG == nil {
		effG = gtab.GsubDefaultFeatures
	}
	if effP == nil {
		effP = gtab.GposDefaultFeatures
	}
	var gsubSel, gposSel []int
	selPanic := false
	for i, tb := range []struct {
		g    gtabT
		info *gtab.Info
		sw   map[string]bool
	}{{c.Font.Gsub, f.Gsub, effG}, {c.Font.Gpos, f.Gpos, effP}} {
		if tb.info == nil {
			continue
		}
		sel, p := findLookups(tb.info, lang, tb.sw)
		if p {
			selPanic = true
			fail(nil, "c15b-findlookups-panic", "FindLookups panicked")
			continue
		}
		want, err := specSelection(tb.g, lang, tb.sw)
		if err != nil {
			return res, err
		}
		if !sameSel(want, sel) {
			fail(nil, "c15b-selection", "table %d: FindLookups returned %v, the selection rule (required feature + switched-on optional features of the matched language system, in range, ascending) gives %v", i, sel, want)
		}
		for j := 1; j < len(sel); j++ {
			if sel[j-1] >= sel[j] {
				fail(nil, "c15b-selection-order", "FindLookups result %v not strictly ascending", sel)
			}
		}
		// a feature that is switched off contributes nothing: switching every
		// optional feature off leaves exactly the required feature's lookups
		off, p2 := findLookups(tb.info, lang, map[string]bool{})
		if !p2 {
			for _, x := range off {
				found := false
				for _, y := range sel {
					if x == y {
						found = true
					}
				}
				if !found {
					fail(nil, "c15b-required-dropped", "lookup %d of the required feature is missing from the selection %v", x, sel)
				}
			}
		}
		if i == 0 {
			gsubSel = toInts(sel)
		} else {
			gposSel = toInts(sel)
		}
	}

	lay, lobs := newLayouter(f, lang, gsw, psw)
	if lay == nil {
		if !selPanic {
			fail(nil, "c15b-layouter-"+lobs, "NewLayouter: %s", lobs)
		}
		parts := make([]string, len(c.Strs))
		for i := range parts {
			parts[i] = lobs
		}
		res.impl = "(" + strings.Join(parts, " ") + ")"
		return res, nil
	}
	lay2, _ := newLayouter(f, lang, gsw, psw)

	gsubCtx := !c.Font.Gsub.Nil && selectedContextual(c.Font.Gsub.LL, gsubSel)
	ligKeep := c.Font.Gsub.Nil || ligaturesKeepEverything(c.Font.Gsub.LL, gsubSel, c.Font.Gdef != nil)

	parts := make([]string, len(c.Strs))
	for si, rs := range c.Strs {
		res.strings++
		s := string(rs)
		out, obs := layoutOnce(lay, s)
		if obs == "panic" {
			res.panics++
			// the Layouter may be left in any state: continue with a fresh one
			lay, _ = newLayouter(f, lang, gsw, psw)
		}

		// ---- domain of the model: C06's reference shaper decides per pass
		seq0 := make([]c06.Glyph, len(rs))
		gids0 := make([]int, len(rs))
		for i, r := range rs {
			gids0[i] = c.Font.Cmap[r]
			seq0[i] = c06.Glyph{GID: gids0[i], Text: []int{int(r)}}
		}
		seq1, dom := seq0, true
		if !c.Font.Gsub.Nil {
			seq1, dom = c06.Reference(c.Font.Gsub.LL, c.Font.Gdef, gsubSel, seq0)
		}
		widthPanic := false
		seq2 := make([]c06.Glyph, len(seq1))
		for i, g := range seq1 {
			seq2[i] = g
			if w, exists, ok := c.Font.advance(g.GID); exists && !c.Font.isMark(g.GID) {
				if !ok {
					widthPanic = true
					break
				}
				seq2[i].Adv = w
			}
		}
		seq3 := seq2
		if dom && !widthPanic && !c.Font.Gpos.Nil {
			seq3, dom = c06.Reference(c.Font.Gpos.LL, c.Font.Gdef, gposSel, seq2)
		}
		inDomain := dom && buildable
		if inDomain {
			res.inDomain++
			parts[si] = obs
		} else {
			parts[si] = "ood"
		}

		// ---- oracle 0: inside the domain, Layout on the font (built in memory
		// or read back from the file) is the reference pipeline on the
		// description: cmap, reference GSUB pass, widths, reference GPOS pass
		if inDomain && !widthPanic && !selPanic && obs != "panic" {
			l := vlib.List{vlib.Atom("ok")}
			for _, g := range seq3 {
				tx := make([]rune, len(g.Text))
				for i, r := range g.Text {
					tx[i] = rune(r)
				}
				l = append(l, vlib.L(vlib.Int(g.GID), runesSx(tx), vlib.Int(g.X), vlib.Int(g.Y), vlib.Int(g.Adv)))
			}
			if want := vlib.Str(l); want != obs {
				fail(rs, "c15b-reference", "Layout (%s font) returns %s; the reference pipeline on the font's description gives %s", c.Mode, obs, want)
			}
		}

		// ---- oracle 1: the pipeline recomputed step by step equals Layout
		robs, where, afterGsub := recompute(f, lang, gsw, psw, s)
		if robs != obs {
			fail(rs, "c15b-pipeline", "Layout returns %s; cmap -> FindLookups/Apply(GSUB) -> widths -> FindLookups/Apply(GPOS) on fresh contexts gives %s", obs, robs)
		}
		if robs == "panic" {
			res.labels["panic:"+where] = true
			// the only panic left: a font whose width slice is shorter than its
			// glyph list (never delivered by sfnt.Read) and a glyph in between
			if where != "widths" {
				fail(rs, "c15b-panic-"+where, "the %s step panics", where)
			} else {
				short := false
				for _, g := range afterGsub {
					if _, exists, ok := c.Font.advance(int(g.GID)); exists && !ok && !c.Font.isMark(int(g.GID)) {
						short = true
					}
				}
				if !short {
					fail(rs, "c15b-width-panic", "the width loop panics although every glyph of the font has a width")
				}
			}
		}
		if obs == "panic" {
			if si+1 < len(c.Strs) {
				continue
			}
			break
		}

		// ---- oracle 2: no applicable rule => one glyph per character
		identity := true
		if len(out) != len(rs) {
			identity = false
		} else {
			for i, g := range out {
				w, exists, _ := c.Font.advance(gids0[i])
				if !exists || c.Font.isMark(gids0[i]) {
					w = 0
				}
				if int(g.GID) != gids0[i] || len(g.Text) != 1 || g.Text[0] != rs[i] || g.XOffset != 0 || g.YOffset != 0 || int(g.Advance) != w {
					identity = false
				}
			}
		}
		if !identity && inDomain {
			res.changed++
		}
		noGsub := c.Font.Gsub.Nil || noRuleCanApply(c.Font.Gsub.LL, gsubSel, gids0)
		noGpos := c.Font.Gpos.Nil || noRuleCanApply(c.Font.Gpos.LL, gposSel, gids0)
		if noGsub && noGpos {
			res.labels["no-rule"] = true
			if !identity {
				fail(rs, "c15b-identity", "no selected lookup can match a glyph of the string, but the output %s is not one glyph per character with the font's advance", obs)
			}
		}

		// ---- oracle 3: text conservation
		if sortedRunes(textOf(out)) != sortedRunes(rs) {
			fail(rs, "c15b-text-multiset", "the characters attached to the output glyphs %s are not those of the input", obs)
		} else if !gsubCtx && ligKeep && string(textOf(out)) != s {
			fail(rs, "c15b-text-order", "non-contextual GSUB without skipped glyphs in ligatures, but the text of the output %s is not the input string in order", obs)
		}
		// GPOS never changes glyph ids or text: the ids after the GSUB stage are the final ones
		if len(afterGsub) == len(out) {
			for i := range out {
				if out[i].GID != afterGsub[i].GID || string(out[i].Text) != string(afterGsub[i].Text) {
					fail(rs, "c15b-gpos-changes-glyphs", "glyph %d after GSUB is %d %v, in the result %d %v", i, afterGsub[i].GID, afterGsub[i].Text, out[i].GID, out[i].Text)
					break
				}
			}
		} else if robs != "panic" {
			fail(rs, "c15b-gpos-changes-glyphs", "%d glyphs after GSUB, %d in the result", len(afterGsub), len(out))
		}

		// ---- oracle 4: determinism (50 calls, two Layouter instances)
		for k := 0; k < repeats; k++ {
			_, o2 := layoutOnce(lay, s)
			if o2 != obs {
				fail(rs, "c15b-nondeterministic", "call %d returns %s, the first call %s", k+2, o2, obs)
				break
			}
		}
		if lay2 != nil {
			if _, o2 := layoutOnce(lay2, s); o2 != obs {
				fail(rs, "c15b-layouter-instances", "a second Layouter returns %s, the first %s", o2, obs)
			}
		}
	}

	// a nil switch map means the default feature set
	if (c.GSW.Nil || c.PSW.Nil) && len(c.Strs) > 0 {
		l3, _ := newLayouter(f, lang, copyMap(effG), copyMap(effP))
		if l3 != nil {
			s := string(c.Strs[0])
			_, o1 := layoutOnce(lay2, s)
			_, o3 := layoutOnce(l3, s)
			if o1 != o3 {
				fail(c.Strs[0], "c15b-defaults", "nil switch maps give %s, the default feature sets given explicitly %s", o1, o3)
			}
		}
	}
	res.impl = "(" + strings.Join(parts, " ") + ")"
	return res, nil
}

// RunCase re-executes one case line (corpus entries and replays).
func RunCase(line string) (impl, fail, sig string, err error) {
	c, err := parseCase(line)
	if err != nil {
		return "", "", "", err
	}
	r, err, timedOut := evalCaseGuarded(c)
	if timedOut {
		return "timeout", "Layout did not finish within the time limit", "c15b-timeout", nil
	}
	if err != nil {
		return "", "", "", err
	}
	if len(r.fails) > 0 {
		f := r.fails[0]
		return r.impl, fmt.Sprintf("string %v: %s", f.str, f.detail), f.sig, nil
	}
	return r.impl, "", "", nil
}
