package main

import (
	"seehuhn.de/go/sfnt/verifharness/c15b"
	"seehuhn.de/go/sfnt/verifharness/vlib"
)

func main() { vlib.Main(c15b.Gen, c15b.RunCase) }
