package c19b

import (
	"fmt"
	"sort"
	"strings"

	"seehuhn.de/go/postscript/funit"
	"seehuhn.de/go/sfnt/glyph"
	"seehuhn.de/go/sfnt/opentype/anchor"
	"seehuhn.de/go/sfnt/opentype/classdef"
	"seehuhn.de/go/sfnt/opentype/coverage"
	"seehuhn.de/go/sfnt/opentype/gtab"
	"seehuhn.de/go/sfnt/opentype/gtab/builder"
	"seehuhn.de/go/sfnt/opentype/markarray"
	"seehuhn.de/go/sfnt/verifharness/vlib"
)

// ---------------------------------------------------------------- fonts

// names that are words of the GPOS grammar come first in the "keywords" kind
var kwNames = []string{"x", "y", "dx", "_", "first", "second", "mark", "base", "to", "GPOS2", "GPOS1", "marks", "ligs", "dy"}

var asciiNames = []string{
	"A", "B", "C", "D", "E", "F", "G", "H", "I", "J", "K", "L", "M", "N", "O", "P", "Q",
	"a", "b", "c", "d", "e", "f", "g", "h", "i", "uni0041", "f_i", "a.sc", "one", "two", ".null",
	"A1", "A2", "_a", "..", "f_f_i", "zero.alt", "x.alt", "dx1", "__",
}

var uniNames = []string{"é", "Ω", "中", "a٣", "ß.alt", "Ж", "ñ_x", "α", "β", "γ"}

var fontKinds = []string{"named", "unnamed", "named-nocmap", "unnamed-nocmap", "mixed", "unicode", "keywords", "quoting"}

func genFont(r *vlib.Rand, kind string) *fontSpec {
	n := r.Range(4, 36)
	fs := &fontSpec{names: make([]string, n), cm: map[rune]glyph.ID{}}
	pool := append([]string(nil), asciiNames...)
	pool = append(pool, kwNames...)
	if kind == "unicode" {
		pool = append(append([]string(nil), uniNames...), pool...)
	}
	for i := len(pool) - 1; i > 0; i-- {
		j := r.Intn(i + 1)
		pool[i], pool[j] = pool[j], pool[i]
	}
	if kind == "keywords" {
		pool = append(append([]string(nil), kwNames...), pool...)
	}
	named := kind != "unnamed" && kind != "unnamed-nocmap"
	if named {
		fs.names[0] = ".notdef"
		seen := map[string]bool{".notdef": true}
		k := 0
		for i := 1; i < n; i++ {
			if kind == "mixed" && r.Chance(1, 2) {
				continue
			}
			for k < len(pool) && seen[pool[k]] {
				k++
			}
			if k < len(pool) {
				fs.names[i] = pool[k]
				seen[pool[k]] = true
			} else if kind != "mixed" {
				fs.names[i] = fmt.Sprintf("g%d", i)
			}
		}
	}
	if kind == "named-nocmap" || kind == "unnamed-nocmap" {
		return fs
	}
	// cmap: runes -> glyphs; in the "quoting" kind most glyphs are reached
	// through runes that need a backslash or are not printable
	runes := []rune("ABCDEFGHIJabcdefghij0123456789 -,>[]|#'&/;_")
	if kind == "quoting" {
		runes = []rune("\"\\\"\\AB ;&/")
	}
	if kind == "unicode" || r.Chance(1, 4) {
		runes = append(runes, 'é', 'Ω', '中', '→', 0x1F600, 0xA0, 0xAD, 0x200B, 7, 9, 13, 0x7F, 0x85)
	}
	k := r.Range(1, n+4)
	if kind == "quoting" {
		k = 3 * n
	}
	for i := 0; i < k; i++ {
		c := vlib.Pick(r, runes)
		g := glyph.ID(r.Range(1, n-1))
		if r.Chance(1, 2) {
			for j, nm := range fs.names {
				if nm == string(c) {
					g = glyph.ID(j)
				}
			}
		}
		fs.cm[c] = g
	}
	return fs
}

// ---------------------------------------------------------------- lookup lists

// subset returns strictly ascending glyph ids in [lo, n), at most 10
func subset(r *vlib.Rand, n, lo int, runs bool) []glyph.ID {
	var out []glyph.ID
	if n <= lo {
		return out
	}
	if runs {
		g := lo + r.Intn(n-lo)
		for g < n && len(out) < 10 {
			l := r.Range(1, 4)
			for i := 0; i < l && g < n; i++ {
				out = append(out, glyph.ID(g))
				g++
			}
			g += r.Range(1, 3)
		}
		return out
	}
	p := r.Range(1, 4)
	for g := lo; g < n; g++ {
		if r.Chance(1, p) && len(out) < 10 {
			out = append(out, glyph.ID(g))
		}
	}
	if len(out) == 0 {
		out = append(out, glyph.ID(lo+r.Intn(n-lo)))
	}
	return out
}

var int16s = []int{1, -1, 10, -10, 100, -250, 32767, -32768, 1000, 7}

var flagSets = []gtab.LookupFlags{0, 2, 4, 8, 6, 10, 12, 14}

// adjMask builds a value record with exactly the fields of mask set
// (1 XPlacement, 2 YPlacement, 4 XAdvance); mask 0 is the all-zero record.
func adjMask(r *vlib.Rand, mask int) *gtab.GposValueRecord {
	a := &gtab.GposValueRecord{}
	if mask&1 != 0 {
		a.XPlacement = funit.Int16(vlib.Pick(r, int16s))
	}
	if mask&2 != 0 {
		a.YPlacement = funit.Int16(vlib.Pick(r, int16s))
	}
	if mask&4 != 0 {
		a.XAdvance = funit.Int16(vlib.Pick(r, int16s))
	}
	return a
}

// genAdj: nil, or a record with a non-empty random field subset (the normal
// form of the parser); with denormal also the all-zero record.
func genAdj(r *vlib.Rand, denormal bool) (*gtab.GposValueRecord, string) {
	switch k := r.Intn(10); {
	case k < 3:
		return nil, "nil"
	case k == 3 && denormal:
		return adjMask(r, 0), "zero"
	}
	m := r.Range(1, 7)
	return adjMask(r, m), fmt.Sprintf("m%d", m)
}

func genPairAdj(r *vlib.Rand, denormal bool, labels map[string]bool) *gtab.PairAdjust {
	a, la := genAdj(r, denormal)
	b, lb := genAdj(r, denormal)
	if r.Chance(1, 3) {
		b, lb = nil, "nil"
	}
	labels["vr1:"+la] = true
	labels["vr2:"+lb] = true
	return &gtab.PairAdjust{First: a, Second: b}
}

// genGpos2_1: npairs = 0 is outside the language (no syntax for an empty
// pair table); pairs share first glyphs
func genGpos2_1(r *vlib.Rand, n int, npairs int, denormal bool, labels map[string]bool) gtab.Gpos2_1 {
	st := gtab.Gpos2_1{}
	firsts := subset(r, n, 0, r.Bool())
	for len(st) < npairs {
		k := glyph.Pair{Left: vlib.Pick(r, firsts), Right: glyph.ID(r.Intn(n))}
		if r.Chance(1, 6) {
			k.Right = k.Left
		}
		st[k] = genPairAdj(r, denormal, labels)
		if len(st) >= n*len(firsts) {
			break
		}
	}
	shared := map[glyph.ID]int{}
	for k := range st {
		shared[k.Left]++
	}
	for _, c := range shared {
		if c > 1 {
			labels["shared-first-glyph"] = true
		}
	}
	return st
}

// genClassTable: k classes 1..k over the glyphs below n, classes pairwise
// disjoint, some of the classes 1..k-1 empty, class k never empty
func genClassTable(r *vlib.Rand, n, k int, labels map[string]bool, which string) classdef.Table {
	t := classdef.Table{}
	if k == 0 {
		labels[which+":0"] = true
		return t
	}
	perm := make([]int, n)
	for i := range perm {
		perm[i] = i
	}
	for i := n - 1; i > 0; i-- {
		j := r.Intn(i + 1)
		perm[i], perm[j] = perm[j], perm[i]
	}
	pos := 0
	empty := false
	for c := 1; c <= k; c++ {
		m := r.Range(1, 3)
		if c < k && r.Chance(1, 3) {
			m = 0
			empty = true
		}
		for i := 0; i < m && pos < n; i++ {
			t[glyph.ID(perm[pos])] = uint16(c)
			pos++
		}
	}
	if empty {
		labels[which+":empty-class"] = true
	}
	labels[fmt.Sprintf("%s:%d", which, min(t.NumClasses()-1, 3))] = true
	return t
}

func genGpos2_2(r *vlib.Rand, n int, denormal bool, labels map[string]bool) *gtab.Gpos2_2 {
	st := &gtab.Gpos2_2{Cov: coverage.Set{}}
	if !r.Chance(1, 6) {
		for _, g := range subset(r, n, 0, r.Bool()) {
			st.Cov[g] = true
		}
	} else {
		labels["cov:empty"] = true
	}
	st.Class1 = genClassTable(r, n, r.Range(0, 3), labels, "class1")
	st.Class2 = genClassTable(r, n, r.Range(0, 3), labels, "class2")
	n1, n2 := st.Class1.NumClasses(), st.Class2.NumClasses()
	for i := 0; i < n1; i++ {
		row := make([]*gtab.PairAdjust, n2)
		for j := range row {
			row[j] = genPairAdj(r, denormal, labels)
		}
		st.Adjust = append(st.Adjust, row)
	}
	return st
}

// genGpos2Lookup: 1-4 subtables of the given formats (0 = mixed)
func genGpos2Lookup(r *vlib.Rand, n int, format int, denormal bool, labels map[string]bool) *gtab.LookupTable {
	l := &gtab.LookupTable{Meta: &gtab.LookupMetaInfo{LookupType: 2, LookupFlags: vlib.Pick(r, flagSets)}}
	k := r.Range(1, 4)
	for i := 0; i < k; i++ {
		f := format
		if f == 0 {
			f = r.Range(1, 2)
		}
		if f == 1 {
			np := vlib.Pick(r, []int{1, 1, 2, 3, 5, 9})
			labels[fmt.Sprintf("pairs:%d", min(np, 3))] = true
			l.Subtables = append(l.Subtables, genGpos2_1(r, n, np, denormal, labels))
			labels["Gpos2_1"] = true
		} else {
			l.Subtables = append(l.Subtables, genGpos2_2(r, n, denormal, labels))
			labels["Gpos2_2"] = true
		}
	}
	labels[fmt.Sprintf("subtables:%d", k)] = true
	labels[fmt.Sprintf("flags:%d", l.Meta.LookupFlags)] = true
	return l
}

func genAdj1(r *vlib.Rand) *gtab.GposValueRecord {
	a, _ := genAdj(r, false)
	return a
}

func genGpos1Lookup(r *vlib.Rand, n int) *gtab.LookupTable {
	l := &gtab.LookupTable{Meta: &gtab.LookupMetaInfo{LookupType: 1, LookupFlags: vlib.Pick(r, flagSets)}}
	k := r.Range(1, 3)
	for i := 0; i < k; i++ {
		if r.Bool() {
			var cov []glyph.ID
			if !r.Chance(1, 8) {
				cov = subset(r, n, 0, r.Bool())
			}
			l.Subtables = append(l.Subtables, &gtab.Gpos1_1{Cov: covFromList(cov), Adjust: genAdj1(r)})
		} else {
			cov := subset(r, n, 0, r.Bool())
			adj := make([]*gtab.GposValueRecord, len(cov))
			for j := range adj {
				adj[j] = genAdj1(r)
			}
			l.Subtables = append(l.Subtables, &gtab.Gpos1_2{Cov: covFromList(cov), Adjust: adj})
		}
	}
	return l
}

var anchors = []int{0, 1, -1, 10, -10, 100, -250, 32767, -32768, 1000}

func genGpos3Lookup(r *vlib.Rand, n int) *gtab.LookupTable {
	l := &gtab.LookupTable{Meta: &gtab.LookupMetaInfo{LookupType: 3, LookupFlags: vlib.Pick(r, flagSets)}}
	an := func() anchor.Table {
		return anchor.Table{X: funit.Int16(vlib.Pick(r, anchors)), Y: funit.Int16(vlib.Pick(r, anchors))}
	}
	for k := r.Range(1, 3); k > 0; k-- {
		cov := subset(r, n, 0, r.Bool())
		st := &gtab.Gpos3_1{Cov: covFromList(cov)}
		for range cov {
			st.Records = append(st.Records, gtab.EntryExitRecord{Entry: an(), Exit: an()})
		}
		l.Subtables = append(l.Subtables, st)
	}
	return l
}

func genGpos4Lookup(r *vlib.Rand, n int) *gtab.LookupTable {
	l := &gtab.LookupTable{Meta: &gtab.LookupMetaInfo{LookupType: 4, LookupFlags: vlib.Pick(r, flagSets)}}
	an := func() anchor.Table {
		return anchor.Table{X: funit.Int16(vlib.Pick(r, anchors)), Y: funit.Int16(vlib.Pick(r, anchors))}
	}
	for k := r.Range(1, 3); k > 0; k-- {
		mc := subset(r, n, 0, r.Bool())
		nc := r.Range(1, min(3, len(mc)))
		st := &gtab.Gpos4_1{MarkCov: covFromList(mc)}
		// every class 0..nc-1 is used at least once
		cls := make([]int, len(mc))
		for i := range cls {
			if i < nc {
				cls[i] = i
			} else {
				cls[i] = r.Intn(nc)
			}
		}
		for i := len(cls) - 1; i > 0; i-- {
			j := r.Intn(i + 1)
			cls[i], cls[j] = cls[j], cls[i]
		}
		for i := range mc {
			st.MarkArray = append(st.MarkArray, markarray.Record{Class: uint16(cls[i]), Table: an()})
		}
		var bc []glyph.ID
		if !r.Chance(1, 6) {
			bc = subset(r, n, 0, r.Bool())
		}
		st.BaseCov = covFromList(bc)
		for range bc {
			row := make([]anchor.Table, nc)
			for j := range row {
				row[j] = an()
			}
			st.BaseArray = append(st.BaseArray, row)
		}
		l.Subtables = append(l.Subtables, st)
	}
	return l
}

// ---------------------------------------------------------------- grammar-derived GPOS2 texts

// textGen writes GPOS2 descriptions in the variants the grammar allows that
// Explain never produces: optional colon, comments, several spaces, newlines
// after commas, numbers / names / quoted strings for glyphs, ranges, repeated
// value-record fields, missing matrix entries.
type textGen struct {
	r  *vlib.Rand
	fs *fontSpec
	b  strings.Builder
}

func (g *textGen) sp() {
	switch g.r.Intn(10) {
	case 0:
		g.b.WriteString("  ")
	case 1:
		g.b.WriteString("\t")
	default:
		g.b.WriteString(" ")
	}
}
func (g *textGen) w(s string) { g.b.WriteString(s); g.sp() }
func (g *textGen) p(s string) {
	g.b.WriteString(s)
	if !g.r.Chance(1, 4) {
		g.sp()
	}
}
func (g *textGen) nl() {
	if g.r.Chance(1, 6) {
		g.b.WriteString(" # comment -> [x] & /")
	}
	g.b.WriteString("\n")
	if g.r.Bool() {
		g.b.WriteString("\t")
	}
}

func quoteRune(c rune) string {
	switch c {
	case '"':
		return `\"`
	case '\\':
		return `\\`
	case '\r':
		return `\r`
	case '\t':
		return `\t`
	}
	return string(c)
}

func (g *textGen) runesOf(gid int) []rune {
	var rr []rune
	for c, x := range g.fs.cm {
		if int(x) == gid && c != 0 && c != '\n' {
			rr = append(rr, c)
		}
	}
	sort.Slice(rr, func(i, j int) bool { return rr[i] < rr[j] })
	return rr
}

func (g *textGen) ref(gid int) {
	forms := []int{0}
	if g.fs.names[gid] != "" {
		forms = append(forms, 1, 1)
	}
	rr := g.runesOf(gid)
	if len(rr) > 0 && gid != 0 {
		forms = append(forms, 2, 2)
	}
	switch vlib.Pick(g.r, forms) {
	case 0:
		g.w(fmt.Sprintf("%d", gid))
	case 1:
		g.w(g.fs.names[gid])
	case 2:
		g.p(`"` + quoteRune(vlib.Pick(g.r, rr)) + `"`)
	}
}

func (g *textGen) glyph() { g.ref(g.r.Intn(g.fs.numGlyphs())) }

func (g *textGen) intv() string {
	if g.r.Chance(1, 500) {
		return fmt.Sprintf("%+d", vlib.Pick(g.r, []int{32768, -32769, 70000}))
	}
	return fmt.Sprintf("%+d", vlib.Pick(g.r, []int{0, 1, -1, 10, -250, 32767, -32768, 1000}))
}

func (g *textGen) valueRecord() {
	switch g.r.Intn(8) {
	case 0:
		g.w("_")
		return
	case 1:
		return // nothing at all
	}
	k := g.r.Range(1, 3)
	for i := 0; i < k; i++ {
		g.w(vlib.Pick(g.r, []string{"x", "y", "dx"}) + g.intv())
	}
}

func (g *textGen) pairAdjust() {
	g.valueRecord()
	if g.r.Chance(1, 3) {
		g.p("&")
		g.valueRecord()
	}
}

func (g *textGen) flags() {
	for _, f := range []string{"marks", "ligs", "base"} {
		if g.r.Chance(1, 4) {
			g.w("-" + f)
		}
	}
}

// classLists writes k glyph lists separated by commas and ended by ";"; it
// returns the largest class that has a glyph
func (g *textGen) classLists(k int, disjoint bool) int {
	maxc := 0
	n := g.fs.numGlyphs()
	perm := make([]int, n)
	for i := range perm {
		perm[i] = i
	}
	for i := n - 1; i > 0; i-- {
		j := g.r.Intn(i + 1)
		perm[i], perm[j] = perm[j], perm[i]
	}
	pos := 0
	for i := 0; i < k; i++ {
		if i > 0 {
			g.p(",")
		}
		m := g.r.Range(0, 3)
		for j := 0; j < m; j++ {
			if disjoint && pos < n {
				g.ref(perm[pos])
				pos++
				maxc = i + 1
			} else if !disjoint {
				maxc = i + 1
				g.glyph()
				if g.r.Chance(1, 12) {
					g.w("-")
					g.glyph()
				}
			}
		}
	}
	g.p(";")
	return maxc
}

func (g *textGen) lookup() {
	r := g.r
	g.b.WriteString("GPOS2")
	if !r.Chance(1, 8) {
		g.b.WriteString(":")
	}
	g.sp()
	g.flags()
	ns := r.Range(1, 3)
	for s := 0; s < ns; s++ {
		if s > 0 {
			g.p("||")
			if !r.Chance(1, 6) {
				g.nl()
			}
		}
		if r.Chance(1, 2) {
			k := r.Range(1, 4)
			for i := 0; i < k; i++ {
				if i > 0 {
					g.p(",")
					if r.Chance(1, 4) {
						g.nl()
					}
				}
				if r.Chance(1, 25) {
					g.glyph() // not a pair
				} else {
					g.glyph()
					g.glyph()
				}
				g.p("->")
				g.pairAdjust()
			}
		} else {
			if s == 0 && r.Bool() {
				g.nl()
			}
			g.p("/")
			for i := r.Range(0, 4); i > 0; i-- {
				g.glyph()
			}
			g.p("/")
			if !r.Chance(1, 5) {
				g.nl()
			}
			disjoint := !r.Chance(1, 10)
			k1, k2 := r.Range(0, 3), r.Range(0, 3)
			g.w("first")
			k1 = g.classLists(k1, disjoint)
			if !r.Chance(1, 5) {
				g.nl()
			}
			g.w("second")
			k2 = g.classLists(k2, disjoint)
			if !r.Chance(1, 5) {
				g.nl()
			}
			// the matrix: usually complete, sometimes short or long
			rows, cols := k1+1, k2+1
			if r.Chance(1, 10) {
				rows = r.Range(0, 4)
			}
			for i := 0; i < rows; i++ {
				for j := 0; j < cols; j++ {
					if j > 0 && !r.Chance(1, 25) {
						g.p(",")
					}
					g.pairAdjust()
				}
				if !r.Chance(1, 12) {
					g.p(vlib.Pick(r, []string{";", ";", ","}))
				}
				if i+1 < rows || r.Chance(1, 3) {
					g.nl()
				}
			}
		}
	}
}

func genText(r *vlib.Rand, fs *fontSpec) string {
	g := &textGen{r: r, fs: fs}
	k := r.Range(1, 2)
	for i := 0; i < k; i++ {
		g.lookup()
		g.b.WriteString("\n")
	}
	return g.b.String()
}

// ---------------------------------------------------------------- mutations

var tokenPool = []string{
	"->", "-", ",", ";", ":", "[", "]", "|", "||", "@", "/", "&", "=", "\n", "A", "B", "zz", "0", "1", "+5", "-5",
	"70000", "99999999999999999999", "+", "\"A\"", "\"\"", "\"\\", "\"AB", "!", "GPOS2", "GPOS2:", "GPOS1:", "GPOS7", "_", "x", "y", "dx", "dx+1", "x+40000",
	"-marks", "-lig", "#", "\x00", "é", "first", "second", "mark", "base", "to", "dy+1", "&", "&", "/", ";", ",",
}

// mutate applies one token-level mutation to a text.
func mutate(r *vlib.Rand, text string) (string, string) {
	toks := builder.VerifC19Lex(text)
	// drop the final EOF / error item
	if len(toks) > 0 {
		toks = toks[:len(toks)-1]
	}
	if len(toks) == 0 {
		return vlib.Pick(r, tokenPool), "insert"
	}
	i := r.Intn(len(toks))
	op := vlib.Pick(r, []string{"delete", "replace", "insert", "swap", "duplicate", "truncate"})
	var out []builder.VerifC19Item
	switch op {
	case "delete":
		out = append(append(out, toks[:i]...), toks[i+1:]...)
	case "replace":
		out = append(out, toks...)
		out[i] = builder.VerifC19Item{Typ: 99, Val: vlib.Pick(r, tokenPool)}
	case "insert":
		out = append(append(append(out, toks[:i]...), builder.VerifC19Item{Typ: 99, Val: vlib.Pick(r, tokenPool)}), toks[i:]...)
	case "swap":
		out = append(out, toks...)
		if i+1 < len(out) {
			out[i], out[i+1] = out[i+1], out[i]
		}
	case "duplicate":
		out = append(append(append(out, toks[:i]...), toks[i]), toks[i:]...)
	case "truncate":
		out = append(out, toks[:i]...)
	}
	for k := range out {
		if out[k].Val == "" {
			out[k].Val = " "
		}
	}
	var b strings.Builder
	for _, t := range out {
		if t.Val == "\n" {
			b.WriteString("\n")
			continue
		}
		if b.Len() > 0 {
			b.WriteString(" ")
		}
		b.WriteString(t.Val)
	}
	return b.String(), op
}
