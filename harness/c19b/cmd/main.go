package main

import (
	"seehuhn.de/go/sfnt/verifharness/c19b"
	"seehuhn.de/go/sfnt/verifharness/vlib"
)

func main() { vlib.Main(c19b.Gen, c19b.RunCase) }
