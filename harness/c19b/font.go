package c19b

import (
	"fmt"
	"reflect"
	"sort"
	"strings"
	"unicode"

	"seehuhn.de/go/postscript/funit"
	"seehuhn.de/go/sfnt"
	"seehuhn.de/go/sfnt/cmap"
	"seehuhn.de/go/sfnt/glyf"
	"seehuhn.de/go/sfnt/glyph"
	"seehuhn.de/go/sfnt/opentype/anchor"
	"seehuhn.de/go/sfnt/opentype/classdef"
	"seehuhn.de/go/sfnt/opentype/coverage"
	"seehuhn.de/go/sfnt/opentype/gtab"
	"seehuhn.de/go/sfnt/opentype/markarray"
	"seehuhn.de/go/sfnt/verifharness/vlib"
)

// The helpers of the main harness (package c19) are not exported; the small
// ones needed here are written again.

// fontSpec is the abstraction of a font the language depends on: the glyph
// name table (index = glyph id, "" = no name) and the best cmap subtable.
type fontSpec struct {
	names []string
	cm    map[rune]glyph.ID
}

func (fs *fontSpec) numGlyphs() int { return len(fs.names) }

// build makes a *sfnt.Font with exactly this name table and cmap.
func (fs *fontSpec) build() *sfnt.Font {
	o := &glyf.Outlines{Glyphs: make(glyf.Glyphs, len(fs.names))}
	hasName := false
	for _, n := range fs.names {
		if n != "" {
			hasName = true
		}
	}
	if hasName {
		o.Names = append([]string(nil), fs.names...)
	}
	f := &sfnt.Font{Outlines: o}
	big := false
	for r := range fs.cm {
		if r > 0xFFFF {
			big = true
		}
	}
	if big {
		c := cmap.Format12{}
		for r, g := range fs.cm {
			c[uint32(r)] = g
		}
		f.CMapTable = cmap.Table{cmap.Key{PlatformID: 3, EncodingID: 10}: c.Encode(0)}
	} else {
		c := cmap.Format4{}
		for r, g := range fs.cm {
			c[uint16(r)] = g
		}
		f.CMapTable = cmap.Table{cmap.Key{PlatformID: 3, EncodingID: 1}: c.Encode(0)}
	}
	return f
}

func runesSx(s string) vlib.Sx {
	l := vlib.List{}
	for _, r := range s {
		l = append(l, vlib.Int(int(r)))
	}
	return l
}

func (fs *fontSpec) sx() vlib.Sx {
	names := make(vlib.List, len(fs.names))
	for i, n := range fs.names {
		names[i] = runesSx(n)
	}
	keys := make([]int, 0, len(fs.cm))
	for r := range fs.cm {
		keys = append(keys, int(r))
	}
	sort.Ints(keys)
	cm := make(vlib.List, len(keys))
	for i, k := range keys {
		cm[i] = vlib.L(vlib.Int(k), vlib.Int(int(fs.cm[rune(k)])))
	}
	return vlib.L(names, cm)
}

func fontFromSx(x vlib.Sx) (*fontSpec, error) {
	l, err := vlib.AsList(x)
	if err != nil || len(l) != 2 {
		return nil, fmt.Errorf("bad font")
	}
	nl, err := vlib.AsList(l[0])
	if err != nil {
		return nil, err
	}
	fs := &fontSpec{cm: map[rune]glyph.ID{}}
	for _, n := range nl {
		s, err := textFromSx(n)
		if err != nil {
			return nil, err
		}
		fs.names = append(fs.names, s)
	}
	cl, err := vlib.AsList(l[1])
	if err != nil {
		return nil, err
	}
	for _, p := range cl {
		kv, err := vlib.AsInts(p)
		if err != nil || len(kv) != 2 {
			return nil, fmt.Errorf("bad cmap entry")
		}
		fs.cm[rune(kv[0])] = glyph.ID(kv[1])
	}
	return fs, nil
}

func textFromSx(x vlib.Sx) (string, error) {
	ii, err := vlib.AsInts(x)
	if err != nil {
		return "", err
	}
	var b strings.Builder
	for _, i := range ii {
		b.WriteRune(rune(i))
	}
	return b.String(), nil
}

// cls lists the classification by package unicode (the model's external
// black box) of every non-ASCII rune of the font and of the extra strings:
// 1 letter, 2 digit, 4 space, 8 print.
func (fs *fontSpec) cls(extra ...string) vlib.Sx {
	seen := map[rune]bool{}
	add := func(s string) {
		for _, r := range s {
			if r >= 128 {
				seen[r] = true
			}
		}
	}
	for _, n := range fs.names {
		add(n)
	}
	for _, s := range extra {
		add(s)
	}
	for r := range fs.cm {
		if r >= 128 {
			seen[r] = true
		}
	}
	keys := make([]int, 0, len(seen))
	for r := range seen {
		keys = append(keys, int(r))
	}
	sort.Ints(keys)
	l := vlib.List{}
	for _, k := range keys {
		r := rune(k)
		f := 0
		if unicode.IsLetter(r) {
			f |= 1
		}
		if unicode.IsDigit(r) {
			f |= 2
		}
		if unicode.IsSpace(r) {
			f |= 4
		}
		if unicode.IsPrint(r) {
			f |= 8
		}
		l = append(l, vlib.L(vlib.Int(k), vlib.Int(f)))
	}
	return l
}

// ---- lookup lists <-> S-expressions (the model's representation) ----

func gidsSx(l []glyph.ID) vlib.Sx {
	out := make(vlib.List, len(l))
	for i, g := range l {
		out[i] = vlib.Int(int(g))
	}
	return out
}

// covList returns the glyphs of a coverage table in coverage-index order;
// ok is false if the indices are not 0..n-1.
func covList(c coverage.Table) ([]glyph.ID, bool) {
	out := make([]glyph.ID, len(c))
	seen := make([]bool, len(c))
	for g, i := range c {
		if i < 0 || i >= len(c) || seen[i] {
			return nil, false
		}
		seen[i] = true
		out[i] = g
	}
	return out, true
}

func adjSx(a *gtab.GposValueRecord) (vlib.Sx, bool) {
	if a == nil {
		return vlib.Atom("_"), true
	}
	ok := a.YAdvance == 0 && a.XPlacementDevOffs == 0 && a.YPlacementDevOffs == 0 &&
		a.XAdvanceDevOffs == 0 && a.YAdvanceDevOffs == 0
	return vlib.L(vlib.Int(int(a.XPlacement)), vlib.Int(int(a.YPlacement)), vlib.Int(int(a.XAdvance))), ok
}

func padjSx(p *gtab.PairAdjust) (vlib.Sx, bool) {
	if p == nil {
		return vlib.L(vlib.Atom("_"), vlib.Atom("_")), false
	}
	a, o1 := adjSx(p.First)
	b, o2 := adjSx(p.Second)
	return vlib.L(a, b), o1 && o2
}

// classSx renders a classdef.Table as its (glyph class) entries in ascending
// glyph order.
func classSx(t classdef.Table) vlib.Sx {
	keys := make([]int, 0, len(t))
	for g := range t {
		keys = append(keys, int(g))
	}
	sort.Ints(keys)
	l := vlib.List{}
	for _, g := range keys {
		l = append(l, vlib.L(vlib.Int(g), vlib.Int(int(t[glyph.ID(g)]))))
	}
	return l
}

// lookupsSx renders a lookup list in the model's syntax; ok is false when the
// list contains something the model of this part has no representation for
// (GSUB subtables, nil *PairAdjust, YAdvance, device tables).
func lookupsSx(ll gtab.LookupList) (vlib.Sx, bool) {
	ok := true
	out := vlib.List{}
	for _, l := range ll {
		subs := vlib.List{}
		for _, s := range l.Subtables {
			switch t := s.(type) {
			case gtab.Gpos2_1:
				keys := make([]glyph.Pair, 0, len(t))
				for k := range t {
					keys = append(keys, k)
				}
				sort.Slice(keys, func(i, j int) bool {
					if keys[i].Left != keys[j].Left {
						return keys[i].Left < keys[j].Left
					}
					return keys[i].Right < keys[j].Right
				})
				pl := vlib.List{}
				for _, k := range keys {
					p, o := padjSx(t[k])
					ok = ok && o
					pl = append(pl, vlib.L(vlib.L(vlib.Int(int(k.Left)), vlib.Int(int(k.Right))), p))
				}
				subs = append(subs, vlib.L(vlib.Atom("p21"), pl))
			case *gtab.Gpos2_2:
				rows := vlib.List{}
				for _, row := range t.Adjust {
					rl := vlib.List{}
					for _, p := range row {
						x, o := padjSx(p)
						ok = ok && o
						rl = append(rl, x)
					}
					rows = append(rows, rl)
				}
				subs = append(subs, vlib.L(vlib.Atom("p22"), gidsSx(t.Cov.Glyphs()), classSx(t.Class1), classSx(t.Class2), rows))
			case *gtab.Gpos3_1:
				cov, o := covList(t.Cov)
				ok = ok && o
				recs := vlib.List{}
				for _, r := range t.Records {
					recs = append(recs, vlib.L(vlib.L(vlib.Int(int(r.Entry.X)), vlib.Int(int(r.Entry.Y))),
						vlib.L(vlib.Int(int(r.Exit.X)), vlib.Int(int(r.Exit.Y)))))
				}
				subs = append(subs, vlib.L(vlib.Atom("p31"), gidsSx(cov), recs))
			case *gtab.Gpos4_1:
				mc, o1 := covList(t.MarkCov)
				bc, o2 := covList(t.BaseCov)
				ok = ok && o1 && o2
				ma := vlib.List{}
				for _, m := range t.MarkArray {
					ma = append(ma, vlib.L(vlib.Int(int(m.Class)), vlib.Int(int(m.X)), vlib.Int(int(m.Y))))
				}
				ba := vlib.List{}
				for _, row := range t.BaseArray {
					rl := vlib.List{}
					for _, a := range row {
						rl = append(rl, vlib.L(vlib.Int(int(a.X)), vlib.Int(int(a.Y))))
					}
					ba = append(ba, rl)
				}
				subs = append(subs, vlib.L(vlib.Atom("p41"), gidsSx(mc), ma, gidsSx(bc), ba))
			case *gtab.Gpos1_1:
				cov, o := covList(t.Cov)
				ok = ok && o
				a, o2 := adjSx(t.Adjust)
				ok = ok && o2
				subs = append(subs, vlib.L(vlib.Atom("p11"), gidsSx(cov), a))
			case *gtab.Gpos1_2:
				cov, o := covList(t.Cov)
				ok = ok && o
				as := vlib.List{}
				for _, x := range t.Adjust {
					a, o2 := adjSx(x)
					ok = ok && o2
					as = append(as, a)
				}
				subs = append(subs, vlib.L(vlib.Atom("p12"), gidsSx(cov), as))
			default:
				ok = false
				subs = append(subs, vlib.Atom(fmt.Sprintf("unmodelled-%T", s)))
			}
		}
		out = append(out, vlib.L(vlib.Int(int(l.Meta.LookupType)), vlib.Int(int(l.Meta.LookupFlags)), subs))
	}
	return out, ok
}

func gidsFromSx(x vlib.Sx) ([]glyph.ID, error) {
	ii, err := vlib.AsInts(x)
	if err != nil {
		return nil, err
	}
	out := make([]glyph.ID, len(ii))
	for i, v := range ii {
		out[i] = glyph.ID(v)
	}
	return out, nil
}

func covFromList(l []glyph.ID) coverage.Table {
	t := make(coverage.Table, len(l))
	for i, g := range l {
		t[g] = i
	}
	return t
}

func adjFromSx(x vlib.Sx) (*gtab.GposValueRecord, error) {
	if a, ok := x.(vlib.Atom); ok && a == "_" {
		return nil, nil
	}
	ii, err := vlib.AsInts(x)
	if err != nil || len(ii) != 3 {
		return nil, fmt.Errorf("bad adj")
	}
	return &gtab.GposValueRecord{XPlacement: funit.Int16(ii[0]), YPlacement: funit.Int16(ii[1]), XAdvance: funit.Int16(ii[2])}, nil
}

func padjFromSx(x vlib.Sx) (*gtab.PairAdjust, error) {
	l, err := vlib.AsList(x)
	if err != nil || len(l) != 2 {
		return nil, fmt.Errorf("bad padj")
	}
	a, e1 := adjFromSx(l[0])
	b, e2 := adjFromSx(l[1])
	if e1 != nil || e2 != nil {
		return nil, fmt.Errorf("bad padj")
	}
	return &gtab.PairAdjust{First: a, Second: b}, nil
}

func classFromSx(x vlib.Sx) (classdef.Table, error) {
	l, err := vlib.AsList(x)
	if err != nil {
		return nil, err
	}
	t := classdef.Table{}
	for _, e := range l {
		p, err := vlib.AsInts(e)
		if err != nil || len(p) != 2 {
			return nil, fmt.Errorf("bad class entry")
		}
		t[glyph.ID(p[0])] = uint16(p[1])
	}
	return t, nil
}

func lookupsFromSx(x vlib.Sx) (gtab.LookupList, error) {
	l, err := vlib.AsList(x)
	if err != nil {
		return nil, err
	}
	var out gtab.LookupList
	for _, lx := range l {
		parts, err := vlib.AsList(lx)
		if err != nil || len(parts) != 3 {
			return nil, fmt.Errorf("bad lookup")
		}
		ty, e1 := vlib.AsInt(parts[0])
		fl, e2 := vlib.AsInt(parts[1])
		subs, e3 := vlib.AsList(parts[2])
		if e1 != nil || e2 != nil || e3 != nil {
			return nil, fmt.Errorf("bad lookup")
		}
		lt := &gtab.LookupTable{Meta: &gtab.LookupMetaInfo{LookupType: uint16(ty), LookupFlags: gtab.LookupFlags(fl)}}
		for _, sx := range subs {
			sp, err := vlib.AsList(sx)
			if err != nil || len(sp) < 2 {
				return nil, fmt.Errorf("bad subtable")
			}
			kind, _ := vlib.AsAtom(sp[0])
			switch kind {
			case "p21":
				pl, err := vlib.AsList(sp[1])
				if err != nil || len(sp) != 2 {
					return nil, fmt.Errorf("bad p21")
				}
				st := gtab.Gpos2_1{}
				for _, e := range pl {
					ep, err := vlib.AsList(e)
					if err != nil || len(ep) != 2 {
						return nil, fmt.Errorf("bad pair")
					}
					k, err := vlib.AsInts(ep[0])
					if err != nil || len(k) != 2 {
						return nil, fmt.Errorf("bad pair key")
					}
					pa, err := padjFromSx(ep[1])
					if err != nil {
						return nil, err
					}
					st[glyph.Pair{Left: glyph.ID(k[0]), Right: glyph.ID(k[1])}] = pa
				}
				lt.Subtables = append(lt.Subtables, st)
			case "p22":
				if len(sp) != 5 {
					return nil, fmt.Errorf("bad p22")
				}
				cov, e1 := gidsFromSx(sp[1])
				c1, e2 := classFromSx(sp[2])
				c2, e3 := classFromSx(sp[3])
				rl, e4 := vlib.AsList(sp[4])
				if e1 != nil || e2 != nil || e3 != nil || e4 != nil {
					return nil, fmt.Errorf("bad p22")
				}
				st := &gtab.Gpos2_2{Cov: coverage.Set{}, Class1: c1, Class2: c2}
				for _, g := range cov {
					st.Cov[g] = true
				}
				for _, row := range rl {
					el, err := vlib.AsList(row)
					if err != nil {
						return nil, err
					}
					r := make([]*gtab.PairAdjust, 0, len(el))
					for _, e := range el {
						pa, err := padjFromSx(e)
						if err != nil {
							return nil, err
						}
						r = append(r, pa)
					}
					st.Adjust = append(st.Adjust, r)
				}
				lt.Subtables = append(lt.Subtables, st)
			case "p31":
				if len(sp) != 3 {
					return nil, fmt.Errorf("bad p31")
				}
				cov, err := gidsFromSx(sp[1])
				if err != nil {
					return nil, err
				}
				rl, err := vlib.AsList(sp[2])
				if err != nil {
					return nil, err
				}
				st := &gtab.Gpos3_1{Cov: covFromList(cov)}
				for _, r := range rl {
					p, err := vlib.AsList(r)
					if err != nil || len(p) != 2 {
						return nil, fmt.Errorf("bad record")
					}
					e, e1 := vlib.AsInts(p[0])
					x, e2 := vlib.AsInts(p[1])
					if e1 != nil || e2 != nil || len(e) != 2 || len(x) != 2 {
						return nil, fmt.Errorf("bad record")
					}
					st.Records = append(st.Records, gtab.EntryExitRecord{
						Entry: anchor.Table{X: funit.Int16(e[0]), Y: funit.Int16(e[1])},
						Exit:  anchor.Table{X: funit.Int16(x[0]), Y: funit.Int16(x[1])}})
				}
				lt.Subtables = append(lt.Subtables, st)
			case "p41":
				if len(sp) != 5 {
					return nil, fmt.Errorf("bad p41")
				}
				mc, e1 := gidsFromSx(sp[1])
				bc, e2 := gidsFromSx(sp[3])
				ml, e3 := vlib.AsList(sp[2])
				bl, e4 := vlib.AsList(sp[4])
				if e1 != nil || e2 != nil || e3 != nil || e4 != nil {
					return nil, fmt.Errorf("bad p41")
				}
				st := &gtab.Gpos4_1{MarkCov: covFromList(mc), BaseCov: covFromList(bc)}
				for _, m := range ml {
					v, err := vlib.AsInts(m)
					if err != nil || len(v) != 3 {
						return nil, fmt.Errorf("bad mark record")
					}
					st.MarkArray = append(st.MarkArray, markarray.Record{Class: uint16(v[0]),
						Table: anchor.Table{X: funit.Int16(v[1]), Y: funit.Int16(v[2])}})
				}
				for _, row := range bl {
					rl, err := vlib.AsList(row)
					if err != nil {
						return nil, err
					}
					an := make([]anchor.Table, 0, len(rl))
					for _, a := range rl {
						v, err := vlib.AsInts(a)
						if err != nil || len(v) != 2 {
							return nil, fmt.Errorf("bad anchor")
						}
						an = append(an, anchor.Table{X: funit.Int16(v[0]), Y: funit.Int16(v[1])})
					}
					st.BaseArray = append(st.BaseArray, an)
				}
				lt.Subtables = append(lt.Subtables, st)
			case "p11":
				if len(sp) != 3 {
					return nil, fmt.Errorf("bad p11")
				}
				cov, err := gidsFromSx(sp[1])
				if err != nil {
					return nil, err
				}
				a, err := adjFromSx(sp[2])
				if err != nil {
					return nil, err
				}
				lt.Subtables = append(lt.Subtables, &gtab.Gpos1_1{Cov: covFromList(cov), Adjust: a})
			case "p12":
				if len(sp) != 3 {
					return nil, fmt.Errorf("bad p12")
				}
				cov, err := gidsFromSx(sp[1])
				if err != nil {
					return nil, err
				}
				al, err := vlib.AsList(sp[2])
				if err != nil {
					return nil, err
				}
				var adj []*gtab.GposValueRecord
				for _, ax := range al {
					a, err := adjFromSx(ax)
					if err != nil {
						return nil, err
					}
					adj = append(adj, a)
				}
				lt.Subtables = append(lt.Subtables, &gtab.Gpos1_2{Cov: covFromList(cov), Adjust: adj})
			default:
				return nil, fmt.Errorf("unknown subtable kind %q", kind)
			}
		}
		out = append(out, lt)
	}
	return out, nil
}

// ---- canonical text of arbitrary lookup structures (oracle side) ----

// canon prints a Go value structurally: maps sorted by key, nil and empty
// slices/maps alike, pointers followed, interfaces with their dynamic type.
// It is the equality of the round-trip oracle; it does not go through the
// model's representation.
func canon(v any) string {
	var b strings.Builder
	canonV(&b, reflect.ValueOf(v))
	return b.String()
}

func canonV(b *strings.Builder, v reflect.Value) {
	if !v.IsValid() {
		b.WriteString("nil")
		return
	}
	switch v.Kind() {
	case reflect.Ptr:
		if v.IsNil() {
			b.WriteString("nil")
			return
		}
		b.WriteString("&")
		canonV(b, v.Elem())
	case reflect.Interface:
		if v.IsNil() {
			b.WriteString("nil")
			return
		}
		b.WriteString(v.Elem().Type().String())
		b.WriteString(":")
		canonV(b, v.Elem())
	case reflect.Struct:
		b.WriteString("{")
		for i := 0; i < v.NumField(); i++ {
			if i > 0 {
				b.WriteString(" ")
			}
			b.WriteString(v.Type().Field(i).Name)
			b.WriteString("=")
			canonV(b, v.Field(i))
		}
		b.WriteString("}")
	case reflect.Slice, reflect.Array:
		b.WriteString("[")
		for i := 0; i < v.Len(); i++ {
			if i > 0 {
				b.WriteString(" ")
			}
			canonV(b, v.Index(i))
		}
		b.WriteString("]")
	case reflect.Map:
		type kv struct{ k, v string }
		var kvs []kv
		it := v.MapRange()
		for it.Next() {
			var kb, vb strings.Builder
			canonV(&kb, it.Key())
			canonV(&vb, it.Value())
			kvs = append(kvs, kv{kb.String(), vb.String()})
		}
		sort.Slice(kvs, func(i, j int) bool {
			if len(kvs[i].k) != len(kvs[j].k) {
				return len(kvs[i].k) < len(kvs[j].k)
			}
			return kvs[i].k < kvs[j].k
		})
		b.WriteString("map[")
		for i, x := range kvs {
			if i > 0 {
				b.WriteString(" ")
			}
			b.WriteString(x.k + ":" + x.v)
		}
		b.WriteString("]")
	case reflect.Int, reflect.Int8, reflect.Int16, reflect.Int32, reflect.Int64:
		fmt.Fprintf(b, "%d", v.Int())
	case reflect.Uint, reflect.Uint8, reflect.Uint16, reflect.Uint32, reflect.Uint64:
		fmt.Fprintf(b, "%d", v.Uint())
	case reflect.Bool:
		fmt.Fprintf(b, "%v", v.Bool())
	case reflect.String:
		fmt.Fprintf(b, "%q", v.String())
	default:
		fmt.Fprintf(b, "?%s", v.Kind())
	}
}
