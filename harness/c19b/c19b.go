// Package c19b is part B of the check of property C19 (the lookup description
// language of opentype/gtab/builder is a faithful, total notation): the GPOS2
// grammar (pair adjustment, glyph pairs and class pairs), which the main
// development leaves to its Go-level oracle, and lookup lists mixing GPOS1-4.
//
// Model cases (compared with the Coq model M_parse_gpos2 / M_explain_gpos2):
//
//	egpos CLS FONT LOOKUPS     text written by ExplainGpos (or panic)
//	parse CLS FONT TEXT        result of Parse: lookups or error line
//
// Oracle-only cases ("!" prefix): the same when the lookups contain something
// the model of this part cannot express (GSUB subtables in a parse result).
//
// The oracle states the property on the Go code alone: for a lookup list in
// the form the language can express, Explain -> Parse returns a structurally
// equal lookup list; Parse of any text ends, within a watchdog, in lookups or
// in an error with a line number inside the text, without panic and with the
// goroutine count back at its starting value, for every GOMAXPROCS setting
// tried; a successful parse is a fixed point of Explain -> Parse.
package c19b

import (
	"fmt"
	"regexp"
	"runtime"
	"sort"
	"strconv"
	"strings"
	"time"

	"seehuhn.de/go/sfnt"
	"seehuhn.de/go/sfnt/glyph"
	"seehuhn.de/go/sfnt/opentype/gtab"
	"seehuhn.de/go/sfnt/opentype/gtab/builder"
	"seehuhn.de/go/sfnt/verifharness/vlib"
)

const watchdog = 20 * time.Second

// ---------------------------------------------------------------- running the implementation

type parseObs struct {
	lookups gtab.LookupList
	err     error
	panic   any
	hung    bool
	leak    int
}

var errLine = regexp.MustCompile(`^(-?\d+):`)

func (o *parseObs) line() (int, bool) {
	if o.err == nil {
		return 0, false
	}
	m := errLine.FindStringSubmatch(o.err.Error())
	if m == nil {
		return 0, false
	}
	n, err := strconv.Atoi(m[1])
	return n, err == nil
}

// settle waits for the goroutine count to come back to base.
func settle(base int) int {
	for i := 0; i < 2000; i++ {
		if runtime.NumGoroutine() <= base {
			return 0
		}
		runtime.Gosched()
	}
	deadline := time.Now().Add(2 * time.Second)
	for time.Now().Before(deadline) {
		if runtime.NumGoroutine() <= base {
			return 0
		}
		time.Sleep(time.Millisecond)
	}
	return runtime.NumGoroutine() - base
}

func runParse(f *sfnt.Font, text string) *parseObs {
	base := runtime.NumGoroutine()
	done := make(chan *parseObs, 1)
	go func() {
		o := &parseObs{}
		defer func() {
			if r := recover(); r != nil {
				o.panic = r
			}
			done <- o
		}()
		o.lookups, o.err = builder.Parse(f, text)
	}()
	var o *parseObs
	select {
	case o = <-done:
	case <-time.After(watchdog):
		return &parseObs{hung: true}
	}
	o.leak = settle(base)
	return o
}

// obsString is the observation compared with the model; modelled is false if
// the result contains structures the model cannot express.
func (o *parseObs) obsString() (string, bool) {
	switch {
	case o.hung:
		return "hang", true
	case o.panic != nil:
		return "panic", true
	case o.err != nil:
		if n, ok := o.line(); ok {
			return fmt.Sprintf("(err %d)", n), true
		}
		return "(err noline)", true
	}
	sx, ok := lookupsSx(o.lookups)
	return vlib.Str(vlib.L(vlib.Atom("ok"), sx)), ok
}

func allGpos(ll gtab.LookupList) bool {
	for _, l := range ll {
		if len(l.Subtables) == 0 {
			return false
		}
		for _, s := range l.Subtables {
			t := fmt.Sprintf("%T", s)
			if !strings.HasPrefix(t, "*gtab.Gpos") && !strings.HasPrefix(t, "gtab.Gpos") {
				return false
			}
		}
	}
	return true
}

func explain(f *sfnt.Font, ll gtab.LookupList) (text string, panicked any) {
	defer func() {
		if r := recover(); r != nil {
			panicked = r
		}
	}()
	f.Gpos = &gtab.Info{LookupList: ll}
	return strings.Join(builder.ExplainGpos(f), "\n"), nil
}

var procsForReplay = []int{1, 2, 4, 8, 16}

// checkParse runs Parse under the given GOMAXPROCS settings and evaluates the
// oracle.  It returns the observation, whether the model can express it, and
// the oracle's verdict (fail, sig).
func checkParse(fs *fontSpec, text string, procs []int) (obs string, modelled bool, fail, sig string, first *parseObs) {
	f := fs.build()
	nlines := strings.Count(text, "\n") + 1
	old := runtime.GOMAXPROCS(0)
	defer runtime.GOMAXPROCS(old)
	for i, p := range procs {
		runtime.GOMAXPROCS(p)
		o := runParse(f, text)
		s, m := o.obsString()
		if i == 0 {
			obs, modelled, first = s, m, o
		} else if s != obs && fail == "" {
			fail, sig = fmt.Sprintf("result depends on GOMAXPROCS: %s (procs %d) vs %s (procs %d)", obs, procs[0], s, p), "parse-schedule-dependent"
		}
		if fail != "" {
			continue
		}
		switch {
		case o.hung:
			fail, sig = fmt.Sprintf("Parse did not return within %v (GOMAXPROCS %d)", watchdog, p), "parse-hang"
		case o.panic != nil:
			fail, sig = fmt.Sprintf("Parse panicked: %v (GOMAXPROCS %d)", o.panic, p), "parse-panic"
		case o.leak != 0:
			fail, sig = fmt.Sprintf("%d goroutine(s) left running after Parse returned (GOMAXPROCS %d)", o.leak, p), "parse-goroutine-leak"
		case o.err != nil:
			n, ok := o.line()
			if !ok {
				fail, sig = fmt.Sprintf("error without line number: %v", o.err), "parse-error-without-line"
			} else if n < 1 || n > nlines {
				fail, sig = fmt.Sprintf("error line %d outside the text (1..%d): %v", n, nlines, o.err), "parse-error-line-out-of-range"
			}
		}
	}
	if fail == "" && first.err == nil && len(first.lookups) > 0 && allGpos(first.lookups) {
		// a successful parse must be a fixed point of Explain -> Parse
		want := canon(first.lookups)
		t2, pn := explain(f, first.lookups)
		if pn != nil {
			fail, sig = fmt.Sprintf("ExplainGpos panicked on a parsed lookup list: %v", pn), "explain-panic"
		} else {
			o2 := runParse(fs.build(), t2)
			if o2.err != nil || o2.panic != nil || o2.hung {
				fail, sig = fmt.Sprintf("description written by ExplainGpos is rejected: %q -> err=%v panic=%v", t2, o2.err, o2.panic), "explain-not-parseable"
			} else if got := canon(o2.lookups); got != want {
				fail, sig = fmt.Sprintf("ExplainGpos -> Parse changes the lookup list: %q\nwant %s\ngot  %s", t2, want, got), "explain-parse-differs"
			}
		}
	}
	return
}

// checkExplain runs ExplainGpos on a lookup list and then the round-trip
// oracle: with normal set the list is in the form the language can express
// and Parse must give back a structurally equal list; otherwise (all-zero
// value records, ...) the text must be accepted (the parse case added for the text
// then checks that the list read back is a fixed point of Explain -> Parse).  expressible = false: the list is outside the language (empty
// pair table, matrix smaller than the class counts); only "no hang, error
// with a line" is required of Parse then.
func checkExplain(fs *fontSpec, ll gtab.LookupList, normal, expressible bool) (text string, obs string, fail, sig string) {
	f := fs.build()
	want := canon(ll)
	text, pn := explain(f, ll)
	if pn != nil {
		if expressible {
			return "", "panic", fmt.Sprintf("ExplainGpos panicked: %v", pn), "explain-panic"
		}
		return "", "panic", "", ""
	}
	l := vlib.List{vlib.Atom("text")}
	for _, r := range text {
		l = append(l, vlib.Int(int(r)))
	}
	obs = vlib.Str(l)
	o := runParse(fs.build(), text)
	switch {
	case o.hung:
		fail, sig = "Parse of the explained text hangs", "parse-hang"
	case o.panic != nil:
		fail, sig = fmt.Sprintf("Parse of the explained text panics: %v", o.panic), "parse-panic"
	case o.leak != 0:
		fail, sig = "goroutine left running", "parse-goroutine-leak"
	case o.err != nil:
		if expressible {
			fail, sig = fmt.Sprintf("description written by ExplainGpos is rejected: %q -> %v", text, o.err), "explain-not-parseable"
		}
	default:
		got := canon(o.lookups)
		if normal && got != want {
			fail, sig = fmt.Sprintf("ExplainGpos -> Parse changes the lookup list: %q\nwant %s\ngot  %s", text, want, got), "explain-parse-differs"
		}
	}
	return
}

func validRunes(s string) bool {
	for _, r := range s {
		if r == 0xFFFD {
			return false
		}
	}
	return true
}

// ---------------------------------------------------------------- case lines

func parseCaseLine(fs *fontSpec, text string, modelled bool) string {
	head := "parse"
	if !modelled {
		head = "!parse"
	}
	return vlib.Line(vlib.Atom(head), fs.cls(text), fs.sx(), runesSx(text))
}

// isNormal: every value record of the GPOS2 subtables is nil or non-zero, no
// pair table is empty, the matrix has the dimensions of the class tables and
// no class table has class-0 entries.
func classify(ll gtab.LookupList) (normal, expressible bool) {
	normal, expressible = true, true
	vr := func(a *gtab.GposValueRecord) {
		if a != nil && a.XPlacement == 0 && a.YPlacement == 0 && a.XAdvance == 0 {
			normal = false
		}
	}
	pa := func(p *gtab.PairAdjust) {
		if p == nil {
			normal, expressible = false, false
			return
		}
		vr(p.First)
		vr(p.Second)
	}
	for _, l := range ll {
		if len(l.Subtables) == 0 {
			normal, expressible = false, false
		}
		for _, s := range l.Subtables {
			switch t := s.(type) {
			case gtab.Gpos2_1:
				if len(t) == 0 {
					normal, expressible = false, false
				}
				for _, p := range t {
					pa(p)
				}
			case *gtab.Gpos2_2:
				n1, n2 := t.Class1.NumClasses(), t.Class2.NumClasses()
				if len(t.Adjust) < n1 {
					normal, expressible = false, false
				}
				if len(t.Adjust) != n1 {
					normal = false
				}
				for i, row := range t.Adjust {
					if len(row) < n2 && i < n1 {
						normal, expressible = false, false
					}
					if len(row) != n2 {
						normal = false
					}
					for _, p := range row {
						pa(p)
					}
				}
				for _, c := range t.Class1 {
					if c == 0 {
						normal = false
					}
				}
				for _, c := range t.Class2 {
					if c == 0 {
						normal = false
					}
				}
			}
		}
	}
	return
}

func RunCase(line string) (impl, fail, sig string, err error) {
	items, err := vlib.Parse(line)
	if err != nil || len(items) != 4 {
		return "", "", "", fmt.Errorf("bad case line")
	}
	head, _ := vlib.AsAtom(items[0])
	fs, err := fontFromSx(items[2])
	if err != nil {
		return "", "", "", err
	}
	switch head {
	case "parse", "!parse":
		text, err := textFromSx(items[3])
		if err != nil {
			return "", "", "", err
		}
		obs, _, fail, sig, _ := checkParse(fs, text, procsForReplay)
		return obs, fail, sig, nil
	case "egpos", "!egpos":
		ll, err := lookupsFromSx(items[3])
		if err != nil {
			return "", "", "", err
		}
		normal, expressible := classify(ll)
		_, obs, fail, sig := checkExplain(fs, ll, normal, expressible)
		return obs, fail, sig, nil
	}
	return "", "", "", fmt.Errorf("unknown case kind %q", head)
}

// ---------------------------------------------------------------- generation

func labelList(m map[string]bool, more ...string) []string {
	out := append([]string(nil), more...)
	for k := range m {
		out = append(out, k)
	}
	sort.Strings(out)
	return out
}

func Gen(run *vlib.Run, seed uint64, tier string) {
	run.Rule = "non-trivial: an explain case with at least one GPOS2 subtable (or, in the mixed lists, at least two lookups of different types); a parse case whose text contains GPOS2 and ends in at least one lookup or in an error on a line >= 1"
	root := vlib.NewRand(seed)
	caseNo := 0
	procs := func() []int {
		caseNo++
		return []int{1 + caseNo%16, 1 + (caseNo*7+3)%16}
	}
	procHist := map[int]int{}

	addParse := func(fs *fontSpec, text string, labels ...string) {
		if !validRunes(text) {
			return
		}
		pp := procs()
		for _, p := range pp {
			procHist[p]++
		}
		obs, modelled, fail, sig, o := checkParse(fs, text, pp)
		line := parseCaseLine(fs, text, modelled)
		cls := "err"
		if o.err == nil && o.panic == nil && !o.hung {
			cls = fmt.Sprintf("ok-%d", min(len(o.lookups), 3))
		}
		nontriv := strings.Contains(text, "GPOS2") && (cls != "err" && cls != "ok-0" || (o.err != nil && obs != "(err 0)" && obs != "(err noline)"))
		lab := append([]string{"parse", "parse:" + cls}, labels...)
		for _, l := range labels {
			if strings.HasPrefix(l, "text:") {
				lab = append(lab, l+":"+strings.SplitN(cls, "-", 2)[0])
			}
		}
		if !modelled {
			lab = append(lab, "oracle-only")
		}
		idx := run.Add(line, obs, nontriv, lab...)
		if fail != "" {
			run.Fail(idx, line, fail, sig)
		}
	}
	addExplain := func(fs *fontSpec, ll gtab.LookupList, nmut int, r *vlib.Rand, labels ...string) {
		sx, ok := lookupsSx(ll)
		normal, expressible := classify(ll)
		head := "egpos"
		if !ok {
			head = "!egpos"
		}
		text, obs, fail, sig := checkExplain(fs, ll, normal, expressible)
		line := vlib.Line(vlib.Atom(head), fs.cls(), fs.sx(), sx)
		lab := append([]string{"explain"}, labels...)
		if !normal {
			lab = append(lab, "denormal")
		}
		if !expressible {
			lab = append(lab, "outside-language")
		}
		if !ok {
			lab = append(lab, "oracle-only")
		}
		types := map[uint16]bool{}
		hasPair := false
		for _, l := range ll {
			types[l.Meta.LookupType] = true
			if l.Meta.LookupType == 2 && len(l.Subtables) > 0 {
				hasPair = true
			}
		}
		idx := run.Add(line, obs, hasPair || len(types) > 1, lab...)
		if fail != "" {
			run.Fail(idx, line, fail, sig)
		}
		if obs != "panic" {
			addParse(fs, text, "text:explained")
			for k := 0; k < nmut; k++ {
				m, op := mutate(r, text)
				addParse(fs, m, "text:mutated", "mut:"+op)
			}
		}
	}

	// 1. GPOS2 lookup lists in the form the language expresses
	r := root.Fork("gpos2")
	for i := 0; i < vlib.Count(tier, 330, 9000); i++ {
		kind := fontKinds[i%len(fontKinds)]
		fs := genFont(r, kind)
		labels := map[string]bool{"font:" + kind: true}
		format := []int{1, 2, 0}[(i/len(fontKinds))%3]
		var ll gtab.LookupList
		for k := r.Range(1, 2); k > 0; k-- {
			ll = append(ll, genGpos2Lookup(r, fs.numGlyphs(), format, false, labels))
		}
		addExplain(fs, ll, 2, r, labelList(labels, fmt.Sprintf("format:%d", format))...)
	}

	// 2. every flag subset on both formats, fonts with and without names / cmap
	r = root.Fork("flags")
	for _, kind := range []string{"named", "unnamed", "named-nocmap", "unnamed-nocmap"} {
		for _, fl := range flagSets {
			for format := 1; format <= 2; format++ {
				fs := genFont(r, kind)
				labels := map[string]bool{}
				l := genGpos2Lookup(r, fs.numGlyphs(), format, false, labels)
				l.Meta.LookupFlags = fl
				addExplain(fs, gtab.LookupList{l}, 0, r, "flag-sweep", "font:"+kind, fmt.Sprintf("flags:%d", fl), fmt.Sprintf("format:%d", format))
			}
		}
	}

	// 3. lookup lists mixing GPOS1, GPOS2, GPOS3 and GPOS4
	r = root.Fork("mixed")
	for i := 0; i < vlib.Count(tier, 200, 6000); i++ {
		kind := fontKinds[i%len(fontKinds)]
		fs := genFont(r, kind)
		labels := map[string]bool{}
		var ll gtab.LookupList
		var types []string
		// every fourth list has all four lookup types, in random order
		tys := []int{1, 2, 3, 4}
		for j := 3; j > 0; j-- {
			x := r.Intn(j + 1)
			tys[j], tys[x] = tys[x], tys[j]
		}
		if i%4 != 0 {
			tys = nil
			for k := r.Range(2, 4); k > 0; k-- {
				tys = append(tys, r.Range(1, 4))
			}
		}
		for _, ty := range tys {
			switch ty {
			case 1:
				ll = append(ll, genGpos1Lookup(r, fs.numGlyphs()))
			case 2:
				ll = append(ll, genGpos2Lookup(r, fs.numGlyphs(), 0, false, labels))
			case 3:
				ll = append(ll, genGpos3Lookup(r, fs.numGlyphs()))
			case 4:
				ll = append(ll, genGpos4Lookup(r, fs.numGlyphs()))
			}
			types = append(types, fmt.Sprintf("GPOS%d", ll[len(ll)-1].Meta.LookupType))
		}
		lab := []string{"mixed-list", "font:" + kind}
		seen := map[string]bool{}
		for _, t := range types {
			if !seen[t] {
				lab = append(lab, "mixed:"+t)
			}
			seen[t] = true
		}
		lab = append(lab, fmt.Sprintf("mixed-types:%d", len(seen)))
		addExplain(fs, ll, 1, r, lab...)
	}

	// 4. denormal lists (all-zero value records, written "_" and read back as
	//    nil) and lists outside the language (empty pair table; a matrix
	//    smaller than the class counts, on which ExplainGpos panics)
	r = root.Fork("denormal")
	for i := 0; i < vlib.Count(tier, 60, 1500); i++ {
		kind := fontKinds[i%len(fontKinds)]
		fs := genFont(r, kind)
		labels := map[string]bool{"font:" + kind: true}
		l := genGpos2Lookup(r, fs.numGlyphs(), 0, true, labels)
		switch i % 6 {
		case 0:
			l.Subtables[r.Intn(len(l.Subtables))] = gtab.Gpos2_1{}
			labels["pairs:0"] = true
		case 1:
			st := genGpos2_2(r, fs.numGlyphs(), true, labels)
			st.Adjust = st.Adjust[:len(st.Adjust)-1]
			l.Subtables[0] = st
			labels["short-adjust:rows"] = true
		case 2:
			st := genGpos2_2(r, fs.numGlyphs(), true, labels)
			j := r.Intn(len(st.Adjust))
			st.Adjust[j] = st.Adjust[j][:len(st.Adjust[j])-1]
			l.Subtables[0] = st
			labels["short-adjust:cols"] = true
		case 3:
			st := genGpos2_2(r, fs.numGlyphs(), true, labels)
			st.Adjust = append(st.Adjust, st.Adjust[0])
			l.Subtables[0] = st
			labels["long-adjust"] = true
		case 4:
			st := genGpos2_2(r, fs.numGlyphs(), true, labels)
			st.Class1[0] = 0
			l.Subtables[0] = st
			labels["class-0-entry"] = true
		}
		addExplain(fs, gtab.LookupList{l}, 1, r, labelList(labels)...)
	}

	// 5. grammar-derived GPOS2 texts in the variants Explain never writes, and
	//    their single-token mutations
	r = root.Fork("texts")
	for i := 0; i < vlib.Count(tier, 450, 12000); i++ {
		kind := fontKinds[i%len(fontKinds)]
		fs := genFont(r, kind)
		text := genText(r, fs)
		addParse(fs, text, "text:grammar", "font:"+kind)
		for k := 0; k < 2; k++ {
			m, op := mutate(r, text)
			addParse(fs, m, "text:mutated", "mut:"+op, "font:"+kind)
		}
	}

	// 6. boundaries: a valid description cut after every item; the class
	//    counter; int16 limits; empty pieces
	r = root.Fork("boundary")
	{
		fs := &fontSpec{names: []string{".notdef", "A", "B", "C", "D", "x", "_", "first", "second"}, cm: map[rune]glyph.ID{'A': 1, 'B': 2, '"': 3}}
		valid := "GPOS2: -marks \"AB\" -> x+1 & y-2, C \"\\\"\" -> _ ||\n\t/A B first/\n\tfirst A, , B;\n\tsecond C D;\n\t_, x+1;\n\t_ & dx+5, _;\n\t_, _;\n\tx+1 y+1 dx+1 & x+2, _;\nGPOS1: [A] -> x+1\nGPOS2:\n\t//\n\tfirst;\n\tsecond;\n\t_;"
		toks := builder.VerifC19Lex(valid)
		for i := 0; i <= len(valid); i++ {
			if i < len(valid) && (valid[i]&0xC0) == 0x80 {
				continue
			}
			if tier != "thorough" && i%2 == 1 && i > 40 {
				continue
			}
			addParse(fs, valid[:i], "text:cut")
		}
		_ = toks
		many := func(k int) string { return strings.Repeat(", ", k) }
		for _, t := range []string{
			"GPOS2", "GPOS2:", "GPOS2:\n", "GPOS2: -marks", "GPOS2: -marks\n", "GPOS2: A", "GPOS2: A B", "GPOS2: A B ->", "GPOS2: A B -> &", "GPOS2: A B -> & &",
			"GPOS2: A B C -> x+1", "GPOS2: -> x+1", "GPOS2: A B -> x+1,", "GPOS2: A B -> x+1,\n", "GPOS2: A B -> x+1,\n\n", "GPOS2: A B -> x+1 ||", "GPOS2: A B -> x+1 ||\n", "GPOS2: A B -> x+1 ||\n\n",
			"GPOS2: A B -> x+32767 y-32768 & dx+32767", "GPOS2: A B -> x+32768", "GPOS2: A B -> x-32769", "GPOS2: A B -> x", "GPOS2: A B -> x x", "GPOS2: A B -> x+1 x+2 x+3",
			"GPOS2: A B -> x+1, A B -> y+2", "GPOS2: A B -> x+1, B A -> y+2, A A -> _", "GPOS2: A-C -> x+1", "GPOS2: A - -> x+1", "GPOS2: A-B -> x+1", "GPOS2: B-A -> _",
			"GPOS2: /", "GPOS2: //", "GPOS2: / /\n", "GPOS2: /A/", "GPOS2: /A/ first", "GPOS2: /A/ first;", "GPOS2: /A/ first; second", "GPOS2: /A/ first; second;", "GPOS2: /A/ first; second; _",
			"GPOS2: /A/ second; first;", "GPOS2: /A/ first A A;", "GPOS2: /A/ first A, A;", "GPOS2: /A/ first A; second A, B, A;", "GPOS2: /A/ first A B; second;\nx+1\n\ny+2", "GPOS2: /A/ first , ; second , , ;",
			"GPOS2: /A/ first A\n; second B;", "GPOS2: /A/\n\nfirst A; second B;", "GPOS2: /A/ first A;\n\nsecond B;", "GPOS2: /A/ first A; second B;\n\n_", "GPOS2: /A/ first A; second B; x+1, y+1; dx+1, _; ; GPOS1: [A] -> _",
			"GPOS2: /A-D/ first A-C; second D-B;", "GPOS2: /A/ first \"AB\"; second 3 4;", "GPOS2: /A/ first A; second B; & & & &", "GPOS2: /A/ first A; second B; x+1 & , , ,",
			"GPOS2: /A/ first A; second B; _ _ _ _ || A B -> _", "GPOS2: /A/ first A; second B; _, _; _, _; || /B/ first; second; _ || A B -> x+1",
			"GPOS2: /A/ first" + many(300) + "A; second B;", "GPOS2: /A/ first A; second" + many(200) + "B;" + strings.Repeat(" x+1,", 500),
			"GPOS2 GPOS2 GPOS2", "GPOS2: A B -> _\nGPOS2: /A/ first; second;\nGPOS2: A B -> _", "GPOS2: A B -> x+1 # c\n|| A C -> _", "GPOS2: x _ -> x+1 & _, _ x -> _ & x+1",
			"GPOS2: first second -> x+1 || /first second/ first first; second second; _, x+1; _, _",
		} {
			addParse(fs, t, "text:boundary")
			if tier == "thorough" {
				for k := 0; k < 3; k++ {
					m, op := mutate(r, t)
					addParse(fs, m, "text:mutated", "mut:"+op)
				}
			}
		}
	}

	if tier == "thorough" {
		// the class counter is an int whose low 16 bits become the class: the
		// 65536th list is class 0 (about three minutes in the extracted model,
		// whose end-of-input line is found with the quadratic List.rev)
		fs := &fontSpec{names: []string{".notdef", "A", "B"}, cm: map[rune]glyph.ID{'A': 1}}
		addParse(fs, "GPOS2: /A/ first"+strings.Repeat(", ", 65535)+"A; second B;", "text:boundary", "class-counter-wrap")
		addParse(fs, "GPOS2: /A/ first"+strings.Repeat(", ", 65534)+"A; second B;", "text:boundary", "class-65535")
	}

	ph := map[string]int{}
	for p, c := range procHist {
		ph[strconv.Itoa(p)] = c
	}
	run.Extra["gomaxprocs_histogram"] = ph
	run.Extra["watchdog_seconds"] = int(watchdog / time.Second)
}
