package c13

import (
	"bytes"
	"fmt"
	"math"
	"strings"

	"seehuhn.de/go/geom/matrix"
	"seehuhn.de/go/postscript/cid"
	"seehuhn.de/go/postscript/funit"
	"seehuhn.de/go/postscript/type1"

	"seehuhn.de/go/sfnt/cff"
	"seehuhn.de/go/sfnt/glyph"
	"seehuhn.de/go/sfnt/verifharness/vlib"
)

// ---------------------------------------------------------------------------
// font generator: a cff.Font determined by (seed, style)
//
// style = "simple-<size>" or "cid-<size>", size one of s (<= 40 glyphs),
// m (<= 400), l (<= 3000), xl (65535 glyphs), optionally followed by
// "-names" (all glyph names custom strings, simple fonts only).
// ---------------------------------------------------------------------------

var stdGlyphNames = []string{"space", "exclam", "A", "B", "C", "a", "b", "c", "zero", "one", "two", "period", "comma",
	"hyphen", "Aacute", "germandbls", "fi", "fl", "ff", "onesuperior", "Zcaron", "Asmall", "dollaroldstyle", "001.000", "Semibold"}

func pickWidth(r *vlib.Rand, pool []float64) float64 {
	if r.Chance(3, 4) {
		return vlib.Pick(r, pool)
	}
	switch r.Intn(4) {
	case 0:
		return float64(r.Range(0, 2000))
	case 1:
		return float64(r.Range(0, 1000*65536)) / 65536 // any 16.16 value
	case 2:
		return float64(r.Range(0, 4000)) / 4
	}
	return float64(r.Range(-300, 300))
}

func randString(r *vlib.Rand) string {
	switch r.Intn(6) {
	case 0:
		return ""
	case 1:
		return vlib.Pick(r, []string{"Bold", "Regular", "001.000", "Light", "Roman", "Medium"}) // standard strings
	case 2:
		return vlib.Pick(r, []string{"Copyright (c) 2024 the verification harness", "Test Family", "Version 1.5; \xc3\xa9t\xc3\xa9", "x"})
	}
	n := r.Range(1, 30)
	b := make([]byte, n)
	for i := range b {
		b[i] = byte(r.Range(32, 126))
	}
	return string(b)
}

func randDecimal(r *vlib.Rand, lo, hi float64) float64 {
	// a decimal number with at most six significant digits
	x := lo + (hi-lo)*float64(r.Intn(1000000))/1000000
	s := fmt.Sprintf("%.6g", x)
	var y float64
	fmt.Sscanf(s, "%g", &y)
	return y
}

func randPrivate(r *vlib.Rand) *type1.PrivateDict {
	p := &type1.PrivateDict{BlueScale: 0.039625, BlueShift: 7, BlueFuzz: 1}
	blues := func() []funit.Int16 {
		n := 2 * r.Intn(5)
		if n == 0 {
			return nil
		}
		out := make([]funit.Int16, n)
		v := r.Range(-300, 0)
		for i := range out {
			out[i] = funit.Int16(v)
			v += r.Range(1, 400)
		}
		return out
	}
	if r.Chance(2, 3) {
		p.BlueValues = blues()
	}
	if r.Chance(1, 3) {
		p.OtherBlues = blues()
	}
	switch r.Intn(5) {
	case 0:
		p.BlueScale = randDecimal(r, 0.01, 0.5)
	case 1:
		p.BlueScale = 0.05
	case 2: // close to the default
		p.BlueScale = 0.0396255
	}
	if r.Chance(1, 3) {
		p.BlueShift = int32(r.Range(0, 20))
	}
	if r.Chance(1, 3) {
		p.BlueFuzz = int32(r.Range(0, 3))
	}
	if r.Chance(1, 2) {
		p.StdHW = vlib.Pick(r, []float64{50, 80, 41.5, randDecimal(r, 1, 300)})
	}
	if r.Chance(1, 2) {
		p.StdVW = vlib.Pick(r, []float64{60, 95, 88.25, randDecimal(r, 1, 300)})
	}
	p.ForceBold = r.Chance(1, 5)
	return p
}

func randOutline(r *vlib.Rand, g *cff.Glyph) {
	switch r.Intn(5) {
	case 0, 1: // blank
	case 2, 3: // a box
		x, y := float64(r.Range(-50, 200)), float64(r.Range(-200, 100))
		w, h := float64(r.Range(10, 700)), float64(r.Range(10, 900))
		g.MoveTo(x, y)
		g.LineTo(x+w, y)
		g.LineTo(x+w, y+h)
		g.LineTo(x, y+h)
	default: // a box with a curved side, two sub-paths
		x, y := float64(r.Range(0, 100)), float64(r.Range(0, 100))
		g.MoveTo(x, y)
		g.LineTo(x+300, y)
		g.CurveTo(x+350, y+50, x+350, y+150, x+300, y+200)
		g.LineTo(x, y+200)
		g.MoveTo(x+50, y+50)
		g.LineTo(x+50, y+100)
		g.LineTo(x+100, y+100)
	}
}

func parseStyle(style string) (isCID bool, size string, customNames bool, err error) {
	parts := strings.Split(style, "-")
	if len(parts) < 2 {
		return false, "", false, fmt.Errorf("bad font style %q", style)
	}
	switch parts[0] {
	case "simple":
	case "cid":
		isCID = true
	default:
		return false, "", false, fmt.Errorf("bad font style %q", style)
	}
	size = parts[1]
	if size != "s" && size != "m" && size != "l" && size != "xl" {
		return false, "", false, fmt.Errorf("bad font style %q", style)
	}
	customNames = len(parts) > 2 && parts[2] == "names"
	return
}

// encBoundary: style "simple-m-enc": a simple font of 257..400 glyphs whose
// encoding uses 250..256 glyphs (see boundaryEncoding).
func encBoundary(style string) bool { return strings.HasSuffix(style, "-enc") }

func genFont(seed uint64, style string) (*cff.Font, error) {
	if strings.HasPrefix(style, "cid-") && strings.HasSuffix(style, "-conv") {
		// a simple font converted by Outlines.MakeCIDKeyed: the per-dictionary
		// matrices it adds are exactly the identity
		parts := strings.Split(style, "-")
		f, err := genFont(seed, "simple-"+parts[1])
		if err != nil {
			return nil, err
		}
		r := vlib.NewRand(seed).Fork("conv/" + style)
		n := len(f.Glyphs)
		gid2cid := make([]cid.CID, n)
		c := 0
		for i := 1; i < n; i++ {
			c += vlib.Pick(r, []int{1, 1, 2, 3})
			gid2cid[i] = cid.CID(c)
		}
		f.Outlines.MakeCIDKeyed(&cid.SystemInfo{Registry: "Adobe", Ordering: "Identity", Supplement: 0}, gid2cid)
		f.FDSelect = func(glyph.ID) int { return 0 }
		return f, nil
	}
	isCID, size, customNames, err := parseStyle(style)
	if err != nil {
		return nil, err
	}
	r := vlib.NewRand(seed).Fork("font/" + style)
	var n int
	switch size {
	case "s":
		n = vlib.Pick(r, []int{1, 2, 3, r.Range(1, 40)})
	case "m":
		n = r.Range(41, 400)
		if encBoundary(style) {
			n = r.Range(257, 400)
		}
	case "l":
		n = r.Range(401, 3000)
	default:
		n = 65535
		if !isCID && !customNames {
			// every custom glyph name needs a string id: at most 65536-391 of them
			n = 65000
		}
	}

	info := &type1.FontInfo{
		FontName:           vlib.Pick(r, []string{"Test", "A", "VerifFont-Regular", randString(r) + "x"}),
		Version:            randString(r),
		Notice:             randString(r),
		Copyright:          randString(r),
		FullName:           randString(r),
		FamilyName:         randString(r),
		Weight:             randString(r),
		IsFixedPitch:       r.Chance(1, 4),
		UnderlinePosition:  -100,
		UnderlineThickness: 50,
	}
	if r.Chance(1, 3) {
		info.ItalicAngle = vlib.Pick(r, []float64{-12, -9.5, 11.25, randDecimal(r, -60, 60)})
	}
	if r.Chance(1, 3) {
		info.UnderlinePosition = funit.Float64(vlib.Pick(r, []float64{-75, -150, -120.5, 0, float64(r.Range(-400, 100))}))
	}
	if r.Chance(1, 3) {
		info.UnderlineThickness = funit.Float64(vlib.Pick(r, []float64{20, 100, 45.25, float64(r.Range(1, 200))}))
	}
	if isCID {
		info.FontMatrix = matrix.Identity
		switch r.Intn(5) {
		case 0:
			info.FontMatrix = matrix.Matrix{1.25, 0, 0, 1.25, 0, 0}
		case 1: // what a converted simple font keeps at the top level
			info.FontMatrix = matrix.Matrix{0.001, 0, 0, 0.001, 0, 0}
		}
	} else {
		info.FontMatrix = matrix.Matrix{0.001, 0, 0, 0.001, 0, 0}
		switch r.Intn(6) {
		case 0:
			info.FontMatrix = matrix.Matrix{1.0 / 1024, 0, 0, 1.0 / 1024, 0, 0}
		case 1:
			info.FontMatrix = matrix.Matrix{0.001, 0, 0.000212, 0.001, 0, 0}
		case 2:
			info.FontMatrix = matrix.Matrix{0.0005, 0, 0, 0.0005, 10, -20}
		case 3: // close to the default
			info.FontMatrix = matrix.Matrix{0.0010001, 0, 0, 0.0010001, 0, 0}
		}
	}

	o := &cff.Outlines{}
	// widths: a pool with a dominant value so that default/nominal widths matter
	pool := []float64{500, 600, 250, 333}
	switch r.Intn(5) {
	case 0: // fractional default width
		pool = []float64{500.5, 500.5, 500.5, 300.25, 700.75}
	case 1: // fractional extremes (nominal width gets clamped to min+107 / max-107)
		pool = []float64{1000.25, 1000.25, 20.5, 1500}
	case 2: // arbitrary 16.16 values
		v := float64(r.Range(1, 900*65536)) / 65536
		pool = []float64{v, v, v, float64(r.Range(1, 900*65536)) / 65536, 400}
	case 3: // all the same
		pool = []float64{vlib.Pick(r, []float64{600, 512.75})}
	}
	usedNames := map[string]bool{".notdef": true}
	for i := 0; i < n; i++ {
		g := &cff.Glyph{Width: pickWidth(r, pool)}
		if !isCID {
			switch {
			case i == 0:
				g.Name = ".notdef"
			case !customNames && i <= len(stdGlyphNames) && r.Chance(1, 2) && !usedNames[stdGlyphNames[i-1]]:
				g.Name = stdGlyphNames[i-1]
			default:
				g.Name = fmt.Sprintf("g%d", i)
			}
			usedNames[g.Name] = true
		}
		if size != "xl" || i < 50 {
			randOutline(r, g)
		}
		o.Glyphs = append(o.Glyphs, g)
	}

	if !isCID {
		o.Private = []*type1.PrivateDict{randPrivate(r)}
		encChoice := r.Intn(4)
		if encBoundary(style) {
			encChoice = 9
		}
		switch encChoice {
		case 0: // standard encoding by omission
		case 1:
			o.Encoding = cff.StandardEncoding(o.Glyphs)
		case 9:
			for {
				k := vlib.Pick(r, []int{250, 254, 255, 255, 256, 256, 256})
				enc := boundaryEncoding(r, k, vlib.Pick(r, []string{"perm", "short", "short", "pairs", "long"}), r.Bool())
				names := make([]int32, n)
				for i := range names {
					names[i] = int32(i) // any distinct values: only the acceptance matters here
				}
				if _, err := cff.VerifC13EncodeEncoding(gidsOf(enc), names); err == nil {
					o.Encoding = gidsOf(enc)
					break
				}
				// more than 255 ranges cannot be written in CFF: draw again
			}
		default:
			names := make([]int, n)
			enc, _ := randEncoding(r, n)
			// restore the contiguity rule if randEncoding broke it
			if _, ok := contiguousEncoding(enc); !ok {
				enc = make([]int, 256)
				for g := 1; g < n && g <= 200; g++ {
					enc[(g*7)%256] = g
				}
				if _, ok := contiguousEncoding(enc); !ok {
					enc = make([]int, 256)
				}
			}
			_ = names
			o.Encoding = gidsOf(enc)
		}
	} else {
		np := vlib.Pick(r, []int{1, 1, 2, 3, 4, r.Range(1, 12)})
		if size != "s" && r.Chance(1, 12) {
			np = 256
		}
		if np > n {
			np = n
		}
		for i := 0; i < np; i++ {
			o.Private = append(o.Private, randPrivate(r))
			fm := matrix.Matrix{0.001, 0, 0, 0.001, 0, 0}
			switch r.Intn(6) {
			case 0:
				fm = matrix.Matrix{1.0 / 2048, 0, 0, 1.0 / 2048, 0, 0}
			case 1, 2: // exactly the identity (what MakeCIDKeyed puts here)
				fm = matrix.Identity
			case 3:
				fm = matrix.Matrix{0.0005, 0, 0.0001, 0.0005, 0, 0}
			}
			o.FontMatrices = append(o.FontMatrices, fm)
		}
		fds := randFDs(r, n, np, r.Intn(3))
		o.FDSelect = func(g glyph.ID) int { return fds[g] }
		o.ROS = &cid.SystemInfo{
			Registry:   vlib.Pick(r, []string{"Adobe", "Verif"}),
			Ordering:   vlib.Pick(r, []string{"Identity", "Japan1", "Custom-Ordering"}),
			Supplement: int32(vlib.Pick(r, []int{0, 1, 6, r.Range(0, 70000)})),
		}
		o.GIDToCID = make([]cid.CID, n)
		switch r.Intn(3) {
		case 0: // identity
			for i := range o.GIDToCID {
				o.GIDToCID[i] = cid.CID(i)
			}
		case 1: // increasing with gaps
			c := 0
			for i := 1; i < n; i++ {
				c += vlib.Pick(r, []int{1, 1, 1, 2, 5})
				if c > 65535 {
					c = 65535 - (n - i) // cannot happen for n <= 3000; keeps values valid for xl
				}
				o.GIDToCID[i] = cid.CID(c)
			}
			if n == 65535 {
				for i := range o.GIDToCID {
					o.GIDToCID[i] = cid.CID(i)
				}
				o.GIDToCID[n-1] = 65535
			}
		default: // a permutation of 1..n-1
			for i := 1; i < n; i++ {
				o.GIDToCID[i] = cid.CID(i)
			}
			for i := n - 1; i > 1; i-- {
				j := 1 + r.Intn(i)
				o.GIDToCID[i], o.GIDToCID[j] = o.GIDToCID[j], o.GIDToCID[i]
			}
		}
	}
	return &cff.Font{FontInfo: info, Outlines: o}, nil
}

// ---------------------------------------------------------------------------
// field-by-field comparison (the property stated on cff.Font values)
// ---------------------------------------------------------------------------

// sameReal: equal to nine significant digits.
func sameReal(a, b float64) bool {
	if a == b {
		return true
	}
	return math.Abs(a-b) <= 5.01e-9*math.Max(math.Abs(a), math.Abs(b))
}

func sameMatrix(a, b matrix.Matrix) bool {
	for i := range a {
		if !sameReal(a[i], b[i]) {
			return false
		}
	}
	return true
}

func sameInt16s(a, b []funit.Int16) bool {
	if len(a) != len(b) {
		return false
	}
	for i := range a {
		if a[i] != b[i] {
			return false
		}
	}
	return true
}

func sameFloats(a, b []float64) bool {
	if len(a) != len(b) {
		return false
	}
	for i := range a {
		if a[i] != b[i] {
			return false
		}
	}
	return true
}

// compareFonts returns the first difference as (category, detail).
func compareFonts(f, g *cff.Font) (string, string) {
	a, b := f.FontInfo, g.FontInfo
	str := func(name, x, y string) (string, string) {
		if x != y {
			return "fontinfo." + name, fmt.Sprintf("%q read back as %q", x, y)
		}
		return "", ""
	}
	for _, t := range []struct{ n, x, y string }{
		{"FontName", a.FontName, b.FontName}, {"Version", a.Version, b.Version}, {"Notice", a.Notice, b.Notice},
		{"Copyright", a.Copyright, b.Copyright}, {"FullName", a.FullName, b.FullName},
		{"FamilyName", a.FamilyName, b.FamilyName}, {"Weight", a.Weight, b.Weight}} {
		if c, d := str(t.n, t.x, t.y); c != "" {
			return c, d
		}
	}
	if a.IsFixedPitch != b.IsFixedPitch {
		return "fontinfo.IsFixedPitch", ""
	}
	if !sameReal(a.ItalicAngle, b.ItalicAngle) {
		return "fontinfo.ItalicAngle", fmt.Sprintf("%v read back as %v", a.ItalicAngle, b.ItalicAngle)
	}
	if !sameReal(float64(a.UnderlinePosition), float64(b.UnderlinePosition)) {
		return "fontinfo.UnderlinePosition", fmt.Sprintf("%v read back as %v", a.UnderlinePosition, b.UnderlinePosition)
	}
	if !sameReal(float64(a.UnderlineThickness), float64(b.UnderlineThickness)) {
		return "fontinfo.UnderlineThickness", fmt.Sprintf("%v read back as %v", a.UnderlineThickness, b.UnderlineThickness)
	}
	if !sameMatrix(a.FontMatrix, b.FontMatrix) {
		return "fontinfo.FontMatrix", fmt.Sprintf("%v read back as %v", a.FontMatrix, b.FontMatrix)
	}
	if len(f.Glyphs) != len(g.Glyphs) {
		return "glyphs.count", fmt.Sprintf("%d read back as %d", len(f.Glyphs), len(g.Glyphs))
	}
	for i := range f.Glyphs {
		x, y := f.Glyphs[i], g.Glyphs[i]
		if x.Name != y.Name {
			return "glyph.name", fmt.Sprintf("glyph %d: %q read back as %q", i, x.Name, y.Name)
		}
		if x.Width != y.Width {
			return "glyph.width", fmt.Sprintf("glyph %d: width %v read back as %v", i, x.Width, y.Width)
		}
		if len(x.Cmds) != len(y.Cmds) {
			return "glyph.outline", fmt.Sprintf("glyph %d: %d commands read back as %d", i, len(x.Cmds), len(y.Cmds))
		}
		for j := range x.Cmds {
			if x.Cmds[j].Op != y.Cmds[j].Op || !sameFloats(x.Cmds[j].Args, y.Cmds[j].Args) {
				return "glyph.outline", fmt.Sprintf("glyph %d command %d: %v read back as %v", i, j, x.Cmds[j], y.Cmds[j])
			}
		}
		if !sameFloats(x.HStem, y.HStem) || !sameFloats(x.VStem, y.VStem) {
			return "glyph.stems", fmt.Sprintf("glyph %d", i)
		}
	}
	if len(f.Private) != len(g.Private) {
		return "private.count", fmt.Sprintf("%d read back as %d", len(f.Private), len(g.Private))
	}
	for i := range f.Private {
		p, q := f.Private[i], g.Private[i]
		switch {
		case !sameInt16s(p.BlueValues, q.BlueValues):
			return "private.BlueValues", fmt.Sprintf("dict %d: %v read back as %v", i, p.BlueValues, q.BlueValues)
		case !sameInt16s(p.OtherBlues, q.OtherBlues):
			return "private.OtherBlues", fmt.Sprintf("dict %d: %v read back as %v", i, p.OtherBlues, q.OtherBlues)
		case !sameReal(p.BlueScale, q.BlueScale):
			return "private.BlueScale", fmt.Sprintf("dict %d: %v read back as %v", i, p.BlueScale, q.BlueScale)
		case p.BlueShift != q.BlueShift:
			return "private.BlueShift", fmt.Sprintf("dict %d: %v read back as %v", i, p.BlueShift, q.BlueShift)
		case p.BlueFuzz != q.BlueFuzz:
			return "private.BlueFuzz", fmt.Sprintf("dict %d: %v read back as %v", i, p.BlueFuzz, q.BlueFuzz)
		case !sameReal(p.StdHW, q.StdHW):
			return "private.StdHW", fmt.Sprintf("dict %d: %v read back as %v", i, p.StdHW, q.StdHW)
		case !sameReal(p.StdVW, q.StdVW):
			return "private.StdVW", fmt.Sprintf("dict %d: %v read back as %v", i, p.StdVW, q.StdVW)
		case p.ForceBold != q.ForceBold:
			return "private.ForceBold", fmt.Sprintf("dict %d", i)
		}
	}
	if (f.ROS == nil) != (g.ROS == nil) {
		return "ros", "simple / CID-keyed changed"
	}
	if f.ROS == nil {
		want := f.Encoding
		if len(want) == 0 {
			want = cff.StandardEncoding(f.Glyphs)
		}
		if len(g.Encoding) != 256 || len(want) != 256 {
			return "encoding", fmt.Sprintf("length %d read back as %d", len(want), len(g.Encoding))
		}
		for c := range want {
			if want[c] != g.Encoding[c] {
				return "encoding", fmt.Sprintf("code %d: glyph %d read back as %d", c, want[c], g.Encoding[c])
			}
		}
		if len(g.GIDToCID) != 0 || len(g.FontMatrices) != 0 {
			return "ros", "CID data in a simple font"
		}
	} else {
		if *f.ROS != *g.ROS {
			return "ros", fmt.Sprintf("%v read back as %v", *f.ROS, *g.ROS)
		}
		if len(f.GIDToCID) != len(g.GIDToCID) {
			return "gid2cid", "length"
		}
		for i := range f.GIDToCID {
			if f.GIDToCID[i] != g.GIDToCID[i] {
				return "gid2cid", fmt.Sprintf("glyph %d: CID %d read back as %d", i, f.GIDToCID[i], g.GIDToCID[i])
			}
		}
		if len(f.FontMatrices) != len(g.FontMatrices) {
			return "fontmatrices", "count"
		}
		for i := range f.FontMatrices {
			if !sameMatrix(f.FontMatrices[i], g.FontMatrices[i]) {
				return "fontmatrices", fmt.Sprintf("dict %d: %v read back as %v", i, f.FontMatrices[i], g.FontMatrices[i])
			}
		}
		if len(g.Encoding) != 0 {
			return "encoding", "encoding in a CID-keyed font"
		}
	}
	if f.ROS == nil || f.FDSelect != nil {
		for i := range f.Glyphs {
			if i > 300 && i%97 != 0 {
				continue
			}
			x, y := f.GlyphWidthPDF(glyph.ID(i)), g.GlyphWidthPDF(glyph.ID(i))
			if math.Abs(x-y) > 1e-7*math.Max(math.Abs(x), math.Abs(y)) {
				return "glyphwidthpdf", fmt.Sprintf("glyph %d: GlyphWidthPDF %v read back as %v", i, x, y)
			}
		}
	}
	for i := range f.Glyphs {
		x := 0
		if f.FDSelect != nil {
			x = f.FDSelect(glyph.ID(i))
		}
		if y := g.FDSelect(glyph.ID(i)); x != y {
			return "fdselect", fmt.Sprintf("glyph %d: dictionary %d read back as %d", i, x, y)
		}
	}
	return "", ""
}

// ---------------------------------------------------------------------------
// independent walk of the emitted CFF bytes
// ---------------------------------------------------------------------------

type secDesc struct {
	kind  string     // f, l, d, i
	n     int        // f, l
	dicts []dictDesc // d (one), i (several)
}

type dictDesc struct {
	base int
	ops  []vlib.Sx
}

type walkResult struct {
	offs []int     // start of every section, then the file size
	hdr  int       // header offSize byte
	secs []secDesc // the abstract description handed to the model
}

// dictOperandSizes parses a DICT and returns, per operator, the operands with
// their encoded sizes.
type sizedOperand struct {
	v    int64
	size int
	real bool
}

func sizedDict(buf []byte) (map[int][]sizedOperand, bool) {
	res := map[int][]sizedOperand{}
	var stack []sizedOperand
	for len(buf) > 0 {
		b0 := buf[0]
		switch {
		case b0 == 12:
			if len(buf) < 2 {
				return nil, false
			}
			res[0x0C00|int(buf[1])] = stack
			stack = nil
			buf = buf[2:]
		case b0 <= 21:
			res[int(b0)] = stack
			stack = nil
			buf = buf[1:]
		case b0 == 28:
			if len(buf) < 3 {
				return nil, false
			}
			stack = append(stack, sizedOperand{v: int64(int16(uint16(buf[1])<<8 | uint16(buf[2]))), size: 3})
			buf = buf[3:]
		case b0 == 29:
			if len(buf) < 5 {
				return nil, false
			}
			stack = append(stack, sizedOperand{v: int64(int32(uint32(buf[1])<<24 | uint32(buf[2])<<16 | uint32(buf[3])<<8 | uint32(buf[4]))), size: 5})
			buf = buf[5:]
		case b0 == 30:
			_, n, ok := specReal(buf[1:])
			if !ok {
				return nil, false
			}
			stack = append(stack, sizedOperand{size: 1 + n, real: true})
			buf = buf[1+n:]
		case b0 >= 32 && b0 <= 246:
			stack = append(stack, sizedOperand{v: int64(b0) - 139, size: 1})
			buf = buf[1:]
		case b0 >= 247 && b0 <= 250:
			if len(buf) < 2 {
				return nil, false
			}
			stack = append(stack, sizedOperand{v: (int64(b0)-247)*256 + int64(buf[1]) + 108, size: 2})
			buf = buf[2:]
		case b0 >= 251 && b0 <= 254:
			if len(buf) < 2 {
				return nil, false
			}
			stack = append(stack, sizedOperand{v: -(int64(b0)-251)*256 - int64(buf[1]) - 108, size: 2})
			buf = buf[2:]
		default:
			return nil, false
		}
	}
	return res, len(stack) == 0
}

func intOperand(d map[int][]sizedOperand, op, k, idx int) (sizedOperand, bool) {
	v, ok := d[op]
	if !ok || len(v) != k || v[idx].real {
		return sizedOperand{}, false
	}
	return v[idx], true
}

func opO(j int) vlib.Sx    { return vlib.L(vlib.Atom("o"), vlib.Int(j)) }
func opX(a, b int) vlib.Sx { return vlib.L(vlib.Atom("x"), vlib.Int(a), vlib.Int(b)) }
func opZ(j int) vlib.Sx    { return vlib.L(vlib.Atom("z"), vlib.Int(j)) }

// walkCFF checks that data is a tiling of the sections Font.Write emits, each
// at the offset the DICTs give, and returns the layout.
func walkCFF(data []byte) (*walkResult, string) {
	if len(data) < 4 || data[0] != 1 || data[2] != 4 {
		return nil, "bad header"
	}
	w := &walkResult{hdr: int(data[3])}
	names, p2, ok := specIndex(data, 4)
	if !ok || len(names) != 1 {
		return nil, "bad Name INDEX"
	}
	tops, p3, ok := specIndex(data, p2)
	if !ok || len(tops) != 1 {
		return nil, "bad Top DICT INDEX"
	}
	_, p4, ok := specIndex(data, p3)
	if !ok {
		return nil, "bad String INDEX"
	}
	gs, p5, ok := specIndex(data, p4)
	if !ok || len(gs) != 0 {
		return nil, "bad Global Subr INDEX"
	}
	top, ok := sizedDict(tops[0])
	if !ok {
		return nil, "Top DICT is malformed"
	}
	_, isCID := top[0x0C1E]
	pos := p5
	offs := []int{0, 4, p2, p3, p4}
	secs := []secDesc{{kind: "f", n: 4}, {kind: "f", n: p2 - 4}, {}, {kind: "l", n: p4 - p3}, {kind: "f", n: p5 - p4}}
	var topOps []vlib.Sx
	topLayoutBytes := 0
	addSection := func(name string, start int) string {
		if start != pos {
			return fmt.Sprintf("%s is at %d, the previous section ends at %d", name, start, pos)
		}
		offs = append(offs, start)
		return ""
	}
	closeFixed := func(end int) {
		secs = append(secs, secDesc{kind: "f", n: end - pos})
		pos = end
	}
	// charstrings first (number of glyphs)
	csOp, ok := intOperand(top, 17, 1, 0)
	if !ok {
		return nil, "no CharStrings offset"
	}
	css, csEnd, ok := specIndex(data, int(csOp.v))
	if !ok {
		return nil, "bad CharStrings INDEX"
	}
	nGlyphs := len(css)
	// encoding (custom only)
	encOp, hasEnc := intOperand(top, 16, 1, 0)
	csetOp, ok := intOperand(top, 15, 1, 0)
	if !ok {
		return nil, "no charset offset"
	}
	if hasEnc && encOp.v > 1 {
		if msg := addSection("encoding", int(encOp.v)); msg != "" {
			return nil, msg
		}
		topOps = append(topOps, opO(len(offs)-1))
		topLayoutBytes += encOp.size
		if int(csetOp.v) < pos {
			return nil, "charset before encoding"
		}
		closeFixed(int(csetOp.v))
	}
	if msg := addSection("charset", int(csetOp.v)); msg != "" {
		return nil, msg
	}
	topOps = append(topOps, opO(len(offs)-1))
	topLayoutBytes += csetOp.size
	_, cend, ok := specCharset(data[csetOp.v:], nGlyphs)
	if !ok {
		return nil, "charset does not parse"
	}
	closeFixed(int(csetOp.v) + cend)
	var fdArrayOp sizedOperand
	if isCID {
		fdsOp, ok := intOperand(top, 0x0C25, 1, 0)
		if !ok {
			return nil, "no FDSelect offset"
		}
		if msg := addSection("FDSelect", int(fdsOp.v)); msg != "" {
			return nil, msg
		}
		topOps = append(topOps, opO(len(offs)-1))
		topLayoutBytes += fdsOp.size
		closeFixed(int(csOp.v))
	}
	if msg := addSection("CharStrings", int(csOp.v)); msg != "" {
		return nil, msg
	}
	topOps = append(topOps, opO(len(offs)-1))
	topLayoutBytes += csOp.size
	closeFixed(csEnd)

	type priv struct {
		size, offs sizedOperand
	}
	var privs []priv
	fdIndexSec := len(offs)
	offs = append(offs, pos)
	var fontDictDescs []dictDesc
	if isCID {
		var ok bool
		fdArrayOp, ok = intOperand(top, 0x0C24, 1, 0)
		if !ok || int(fdArrayOp.v) != pos {
			return nil, "Font DICT INDEX is not where the Top DICT says"
		}
		topOps = append(topOps, opO(fdIndexSec))
		topLayoutBytes += fdArrayOp.size
		fds, fdEnd, ok := specIndex(data, pos)
		if !ok || len(fds) == 0 {
			return nil, "bad Font DICT INDEX"
		}
		for i, fdBlob := range fds {
			fd, ok := sizedDict(fdBlob)
			if !ok {
				return nil, "Font DICT is malformed"
			}
			sz, ok1 := intOperand(fd, 18, 2, 0)
			of, ok2 := intOperand(fd, 18, 2, 1)
			if !ok1 || !ok2 {
				return nil, "Font DICT without Private"
			}
			privs = append(privs, priv{sz, of})
			secIdx := fdIndexSec + 1 + i
			fontDictDescs = append(fontDictDescs, dictDesc{base: len(fdBlob) - sz.size - of.size, ops: []vlib.Sx{opZ(secIdx), opO(secIdx)}})
		}
		secs = append(secs, secDesc{kind: "i", dicts: fontDictDescs})
		pos = fdEnd
	} else {
		sz, ok1 := intOperand(top, 18, 2, 0)
		of, ok2 := intOperand(top, 18, 2, 1)
		if !ok1 || !ok2 {
			return nil, "Top DICT without Private"
		}
		privs = append(privs, priv{sz, of})
		topOps = append(topOps, opZ(fdIndexSec+1), opO(fdIndexSec+1))
		topLayoutBytes += sz.size + of.size
		secs = append(secs, secDesc{kind: "f", n: 0})
	}
	subrsSec := fdIndexSec + 1 + len(privs)
	for i, p := range privs {
		if msg := addSection(fmt.Sprintf("Private DICT %d", i), int(p.offs.v)); msg != "" {
			return nil, msg
		}
		end := int(p.offs.v + p.size.v)
		if end > len(data) || p.size.v < 0 {
			return nil, "Private DICT outside the file"
		}
		pd, ok := sizedDict(data[p.offs.v:end])
		if !ok {
			return nil, "Private DICT is malformed"
		}
		sub, ok := intOperand(pd, 19, 1, 0)
		if !ok {
			return nil, "Private DICT without Subrs"
		}
		secs = append(secs, secDesc{kind: "d", dicts: []dictDesc{{base: int(p.size.v) - sub.size, ops: []vlib.Sx{opX(subrsSec, fdIndexSec+1+i)}}}})
		pos = end
		_ = sub
	}
	// Subrs: relative offsets must all point at the section after the last Private DICT
	for i, p := range privs {
		pd, _ := sizedDict(data[p.offs.v : p.offs.v+p.size.v])
		sub, _ := intOperand(pd, 19, 1, 0)
		if int(p.offs.v+sub.v) != pos {
			return nil, fmt.Sprintf("Subrs of Private DICT %d points at %d, the Subrs INDEX is at %d", i, p.offs.v+sub.v, pos)
		}
	}
	offs = append(offs, pos)
	sub, subEnd, ok := specIndex(data, pos)
	if !ok || len(sub) != 0 {
		return nil, "bad Subrs INDEX"
	}
	secs = append(secs, secDesc{kind: "f", n: subEnd - pos})
	if subEnd != len(data) {
		return nil, "bytes after the Subrs INDEX"
	}
	offs = append(offs, subEnd)
	secs[2] = secDesc{kind: "i", dicts: []dictDesc{{base: len(tops[0]) - topLayoutBytes, ops: topOps}}}
	w.offs, w.secs = offs, secs
	if len(secs)+1 != len(offs) {
		return nil, fmt.Sprintf("internal: %d sections, %d offsets", len(secs), len(offs))
	}
	// section sizes agree with the offsets
	for i, s := range secs {
		if (s.kind == "f" || s.kind == "l") && offs[i+1]-offs[i] != s.n {
			return nil, fmt.Sprintf("section %d has %d bytes, the next one starts %d bytes later", i, s.n, offs[i+1]-offs[i])
		}
	}
	want := 1
	for want < 4 && len(data) >= 1<<(8*want) {
		want++
	}
	if w.hdr != want {
		return nil, fmt.Sprintf("header offSize is %d, the file size %d needs %d", w.hdr, len(data), want)
	}
	return w, ""
}

func (w *walkResult) secsSx() vlib.Sx {
	out := vlib.List{}
	dsx := func(d dictDesc) vlib.Sx { return vlib.L(vlib.Int(d.base), vlib.List(d.ops)) }
	for _, s := range w.secs {
		switch s.kind {
		case "f", "l":
			out = append(out, vlib.L(vlib.Atom(s.kind), vlib.Int(s.n)))
		case "d":
			out = append(out, vlib.L(vlib.Atom("d"), vlib.Int(s.dicts[0].base), vlib.List(s.dicts[0].ops)))
		case "i":
			l := vlib.List{}
			for _, d := range s.dicts {
				l = append(l, dsx(d))
			}
			out = append(out, vlib.L(vlib.Atom("i"), l))
		}
	}
	return out
}

// ---------------------------------------------------------------------------
// case kinds
// ---------------------------------------------------------------------------

// runFont writes and reads the font; it returns the bytes, the walk and the
// oracle's verdict.
func runFont(seed uint64, style string) (data []byte, w *walkResult, fail, sig string, err error) {
	f, err := genFont(seed, style)
	if err != nil {
		return nil, nil, "", "", err
	}
	data, w, fail, sig = checkFont(f)
	return data, w, fail, sig, nil
}

// witnessFont builds the fixed fonts used as corpus witnesses of repaired defects.
func witnessFont(name string) (*cff.Font, error) {
	f := &cff.Font{
		FontInfo: &type1.FontInfo{FontName: "Witness", FontMatrix: matrix.Matrix{0.001, 0, 0, 0.001, 0, 0},
			UnderlinePosition: -100, UnderlineThickness: 50},
		Outlines: &cff.Outlines{Private: []*type1.PrivateDict{{BlueScale: 0.039625, BlueShift: 7, BlueFuzz: 1}}},
	}
	widths := []float64{500, 500, 500, 300, 700}
	switch name {
	case "underline-fractional":
		f.FontInfo.UnderlinePosition, f.FontInfo.UnderlineThickness = -120.5, 45.25
	case "fontmatrix-near-default":
		f.FontInfo.FontMatrix = matrix.Matrix{0.0010001, 0, 0, 0.0010001, 0, 0}
	case "bluescale-near-default":
		f.Private[0].BlueScale = 0.0396255
	case "cid-identity-fd-matrix", "cid-default-fd-matrix":
		f.ROS = &cid.SystemInfo{Registry: "Adobe", Ordering: "Identity"}
		f.FontInfo.FontMatrix = matrix.Identity
		f.Private = append(f.Private, &type1.PrivateDict{BlueScale: 0.039625, BlueShift: 7, BlueFuzz: 1})
		f.FontMatrices = []matrix.Matrix{{0.001, 0, 0, 0.001, 0, 0}, matrix.Identity}
		if name == "cid-default-fd-matrix" {
			f.FontMatrices[1] = matrix.Matrix{0.0005, 0, 0, 0.0005, 0, 0}
		}
		f.FDSelect = func(g glyph.ID) int { return int(g) % 2 }
		f.GIDToCID = []cid.CID{0, 1, 2, 3, 4}
	case "width-fractional-default":
		widths = []float64{500.5, 500.5, 500.5, 300.25, 700.75, 1000, 250}
	case "width-fractional-nominal":
		widths = []float64{1000, 1000, 1000, 950.5, 990, 980}
	case "width-all-equal":
		widths = []float64{512.75, 512.75, 512.75}
	default:
		return nil, fmt.Errorf("unknown witness font %q", name)
	}
	for i, w := range widths {
		g := &cff.Glyph{Name: fmt.Sprintf("g%d", i), Width: w}
		if i == 0 {
			g.Name = ".notdef"
		}
		if f.ROS != nil {
			g.Name = ""
		}
		f.Glyphs = append(f.Glyphs, g)
	}
	return f, nil
}

func checkFont(f *cff.Font) (data []byte, w *walkResult, fail, sig string) {
	var err error
	_ = err
	var buf bytes.Buffer
	var werr error
	if p, what := safely(func() { werr = f.Write(&buf) }); p {
		return nil, nil, "Font.Write: " + what, "c13-font-write-panic"
	}
	if werr != nil {
		return nil, nil, "Font.Write rejects a valid font: " + werr.Error(), "c13-font-write-rejects"
	}
	data = buf.Bytes()
	w, msg := walkCFF(data)
	if msg != "" {
		return data, nil, "structural walk of the emitted CFF: " + msg, "c13-font-structure"
	}
	var g *cff.Font
	var rerr error
	if p, what := safely(func() { g, rerr = cff.Read(bytes.NewReader(data)) }); p {
		return data, w, "cff.Read: " + what, "c13-font-read-panic"
	}
	if rerr != nil {
		return data, w, "cff.Read rejects the emitted font: " + rerr.Error(), "c13-font-read-rejects"
	}
	if cat, detail := compareFonts(f, g); cat != "" {
		return data, w, cat + ": " + detail, "c13-font-roundtrip:" + cat
	}
	return data, w, "", ""
}

func init() {
	kinds["font"] = func(items []vlib.Sx) (result, error) {
		if len(items) != 2 {
			return result{}, fmt.Errorf("font: want 2 arguments")
		}
		a, err := vlib.AsAtom(items[0])
		if err != nil {
			return result{}, err
		}
		var seed uint64
		if _, err := fmt.Sscanf(a, "%d", &seed); err != nil {
			return result{}, err
		}
		style, err := vlib.AsAtom(items[1])
		if err != nil {
			return result{}, err
		}
		data, _, fail, sig, err := runFont(seed, style)
		if err != nil {
			return result{}, err
		}
		return result{impl: fmt.Sprintf("(bytes %d)", len(data)), fail: fail, sig: sig}, nil
	}

	kinds["font-witness"] = func(items []vlib.Sx) (result, error) {
		if len(items) != 1 {
			return result{}, fmt.Errorf("font-witness: want 1 argument")
		}
		name, err := vlib.AsAtom(items[0])
		if err != nil {
			return result{}, err
		}
		f, err := witnessFont(name)
		if err != nil {
			return result{}, err
		}
		data, _, fail, sig := checkFont(f)
		return result{impl: fmt.Sprintf("(bytes %d)", len(data)), fail: fail, sig: sig}, nil
	}

	kinds["layout"] = func(items []vlib.Sx) (result, error) {
		if len(items) != 3 {
			return result{}, fmt.Errorf("layout: want 3 arguments")
		}
		a, err := vlib.AsAtom(items[0])
		if err != nil {
			return result{}, err
		}
		var seed uint64
		if _, err := fmt.Sscanf(a, "%d", &seed); err != nil {
			return result{}, err
		}
		style, err := vlib.AsAtom(items[1])
		if err != nil {
			return result{}, err
		}
		_, w, fail, sig, err := runFont(seed, style)
		if err != nil {
			return result{}, err
		}
		if w == nil {
			return result{impl: "(no-layout)", fail: fail, sig: sig}, nil
		}
		if got := vlib.Str(w.secsSx()); got != vlib.Str(items[2]) {
			return result{}, fmt.Errorf("layout: the font of this seed now has sections %s", got)
		}
		return result{impl: vlib.Str(vlib.L(vlib.Atom("ok"), vlib.Ints(w.offs), vlib.Int(w.hdr))), fail: fail, sig: sig}, nil
	}

	// width def nom w : widths in units of 1/65536; the charstring is encoded
	// and decoded with the same default / nominal width
	kinds["width"] = func(items []vlib.Sx) (result, error) {
		if len(items) != 3 {
			return result{}, fmt.Errorf("width: want 3 arguments")
		}
		var v [3]int64
		for i := range v {
			x, err := vlib.AsI64(items[i])
			if err != nil {
				return result{}, err
			}
			v[i] = x
		}
		def, nom, wd := float64(v[0])/65536, float64(v[1])/65536, float64(v[2])/65536
		g := &cff.Glyph{Width: wd}
		var back *cff.Glyph
		var err1, err2 error
		if p, what := safely(func() {
			var code []byte
			code, err1 = cff.VerifC13EncodeCharString(g, def, nom)
			if err1 == nil {
				back, err2 = cff.VerifC13DecodeCharString(code, def, nom)
			}
		}); p {
			return result{impl: "panic", fail: "charstring width codec: " + what, sig: "c13-width-panic"}, nil
		}
		if err1 != nil || err2 != nil {
			return result{impl: "err", fail: fmt.Sprintf("charstring width codec fails: %v %v", err1, err2), sig: "c13-width-recovered"}, nil
		}
		scaled := back.Width * 65536
		res := result{impl: "offgrid"}
		if scaled == math.Trunc(scaled) && math.Abs(scaled) < 1e15 {
			res.impl = fmt.Sprintf("%d", int64(scaled))
		}
		if back.Width != wd {
			res.fail, res.sig = fmt.Sprintf("width %v (default %v, nominal %v) decodes as %v", wd, def, nom, back.Width), "c13-width-recovered"
		}
		return res, nil
	}

	// width-font seed style : Font.encodeCharStrings against makePrivateDict:
	// the default / nominal widths used for the charstrings are the ones
	// stored in the Private DICT (oracle only)
	kinds["width-font"] = func(items []vlib.Sx) (result, error) {
		if len(items) != 2 {
			return result{}, fmt.Errorf("width-font: want 2 arguments")
		}
		a, _ := vlib.AsAtom(items[0])
		var seed uint64
		if _, err := fmt.Sscanf(a, "%d", &seed); err != nil {
			return result{}, err
		}
		style, _ := vlib.AsAtom(items[1])
		f, err := genFont(seed, style)
		if err != nil {
			return result{}, err
		}
		var def, nom float64
		var d, n []interface{}
		var cerr error
		if p, what := safely(func() {
			_, def, nom, cerr = cff.VerifC13EncodeCharStrings(f)
			d, n = cff.VerifC13PrivateWidths(f, 0, def, nom)
		}); p {
			return result{impl: "panic", fail: "encodeCharStrings: " + what, sig: "c13-width-panic"}, nil
		}
		if cerr != nil {
			return result{impl: "err", fail: "encodeCharStrings fails: " + cerr.Error(), sig: "c13-font-write-rejects"}, nil
		}
		stored := func(v []interface{}) float64 {
			if len(v) != 1 {
				return 0
			}
			switch x := v[0].(type) {
			case int32:
				return float64(x)
			case float64:
				return x
			}
			return math.NaN()
		}
		res := result{impl: "(widths)"}
		if stored(d) != def || stored(n) != nom {
			res.fail = fmt.Sprintf("charstrings use default %v / nominal %v, the Private DICT stores %v / %v", def, nom, stored(d), stored(n))
			res.sig = "c13-width-default-nominal-truncated"
		}
		return res, nil
	}
}

func genFonts(run *vlib.Run, r *vlib.Rand, tier string) {
	one := func(seed uint64, style string) {
		_, w, _, _, err := runFont(seed, style)
		if err != nil {
			panic(err)
		}
		isCID := strings.HasPrefix(style, "cid")
		labels := []string{"font:" + style}
		if w == nil {
			emit(run, "!"+vlib.Line(vlib.Atom("font"), vlib.U64(seed), vlib.Atom(style)), true, append(labels, "font:no-layout")...)
			return
		}
		// which integer size classes do the layout operands use?
		for _, o := range w.offs[5:] {
			labels = append(labels, fmt.Sprintf("layout-offset-size:%d", intSizeClass(int64(o))))
		}
		if isCID {
			np := 0
			for _, sc := range w.secs {
				if sc.kind == "d" {
					np++
				}
			}
			labels = append(labels, fmt.Sprintf("font:private-dicts:%d", np))
		}
		labels = append(labels, fmt.Sprintf("font:hdr-offsize:%d", w.hdr))
		emit(run, vlib.Line(vlib.Atom("layout"), vlib.U64(seed), vlib.Atom(style), w.secsSx()), true, labels...)
		emit(run, "!"+vlib.Line(vlib.Atom("width-font"), vlib.U64(seed), vlib.Atom(style)), true, "width-font")
	}
	styles := []string{"simple-s", "simple-s", "simple-m", "simple-m", "simple-l", "cid-s", "cid-s", "cid-m", "cid-m", "cid-l"}
	n := vlib.Count(tier, 300, 2500)
	for i := 0; i < n; i++ {
		one(r.Uint64()>>1, styles[i%len(styles)])
	}
	// simple fonts converted by MakeCIDKeyed (identity per-dictionary matrices)
	for i := 0; i < vlib.Count(tier, 30, 400); i++ {
		one(r.Uint64()>>1, vlib.Pick(r, []string{"cid-s-conv", "cid-s-conv", "cid-m-conv"}))
	}
	// encodings with 250..256 encoded glyphs on fonts with 257+ glyphs
	for i := 0; i < vlib.Count(tier, 40, 600); i++ {
		one(r.Uint64()>>1, "simple-m-enc")
	}
	// the largest fonts
	one(r.Uint64()>>1, "simple-xl")
	one(r.Uint64()>>1, "cid-xl")
	if tier == "thorough" {
		for i := 0; i < 6; i++ {
			one(r.Uint64()>>1, vlib.Pick(r, []string{"simple-xl", "cid-xl"}))
		}
	}
	// more custom glyph names than string ids: Write must refuse, not write a broken file
	{
		line := "!" + vlib.Line(vlib.Atom("font-too-many-names"))
		emit(run, line, true, "font:too-many-names")
	}

	// width coding on the 16.16 grid
	widthLine := func(def, nom, w int64) string {
		return vlib.Line(vlib.Atom("width"), vlib.I64(def), vlib.I64(nom), vlib.I64(w))
	}
	grid := func() int64 {
		switch r.Intn(4) {
		case 0:
			return int64(r.Range(-2000, 2000)) * 65536
		case 1:
			return int64(r.Range(-2000*65536, 2000*65536))
		case 2:
			return int64(r.Range(0, 1200))*65536 + int64(vlib.Pick(r, []int{0, 1, 32768, 65535, 16384}))
		}
		return int64(vlib.Pick(r, []int{0, 107, 108, 1131, 1132, -107, -108, -1131, -1132, 32767, -32768})) * 65536
	}
	n = vlib.Count(tier, 600, 20000)
	for i := 0; i < n; i++ {
		def, nom, w := grid(), grid(), grid()
		if r.Chance(1, 6) {
			w = def
		}
		if d := w - nom; d >= 1<<31 || d < -(1<<31) {
			continue
		}
		lab := "width:explicit"
		if w == def {
			lab = "width:default"
		} else if (w-nom)%65536 != 0 {
			lab = "width:fractional-delta"
		}
		emit(run, widthLine(def, nom, w), true, "width", lab)
	}
}

func init() {
	// a simple font whose glyph names need string ids beyond 65535
	kinds["font-too-many-names"] = func(items []vlib.Sx) (result, error) {
		f, err := genFont(1, "simple-xl-names")
		if err != nil {
			return result{}, err
		}
		var buf bytes.Buffer
		var werr error
		if p, what := safely(func() { werr = f.Write(&buf) }); p {
			return result{impl: "panic", fail: "Font.Write: " + what, sig: "c13-font-write-panic"}, nil
		}
		if werr != nil {
			return result{impl: "err"}, nil // the font cannot be represented: refusing is right
		}
		res := result{impl: "(written)"}
		g, rerr := cff.Read(bytes.NewReader(buf.Bytes()))
		if rerr != nil {
			res.fail, res.sig = "Font.Write accepts 65534 custom glyph names, cff.Read rejects the file: "+rerr.Error(), "c13-charset-sid-truncated"
			return res, nil
		}
		if cat, detail := compareFonts(f, g); cat != "" {
			res.fail, res.sig = cat+": "+detail, "c13-charset-sid-truncated"
		}
		return res, nil
	}
}
