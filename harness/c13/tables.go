package c13

import (
	"fmt"
	"strings"

	"seehuhn.de/go/sfnt/cff"
	"seehuhn.de/go/sfnt/glyph"
	"seehuhn.de/go/sfnt/verifharness/vlib"
)

// ---- integer lists with run-length items: (r n v) = n copies of v,
// (s first n) = first, first+1, ... (n values) ----

func expandInts(x vlib.Sx) ([]int, error) {
	l, err := vlib.AsList(x)
	if err != nil {
		return nil, err
	}
	var out []int
	for _, it := range l {
		if sub, ok := it.(vlib.List); ok {
			if len(sub) != 3 {
				return nil, fmt.Errorf("bad run item")
			}
			k, _ := vlib.AsAtom(sub[0])
			a, err1 := vlib.AsInt(sub[1])
			b, err2 := vlib.AsInt(sub[2])
			if err1 != nil || err2 != nil {
				return nil, fmt.Errorf("bad run item")
			}
			switch k {
			case "r":
				for i := 0; i < a; i++ {
					out = append(out, b)
				}
			case "s":
				for i := 0; i < b; i++ {
					out = append(out, a+i)
				}
			default:
				return nil, fmt.Errorf("bad run item")
			}
			continue
		}
		v, err := vlib.AsInt(it)
		if err != nil {
			return nil, err
		}
		out = append(out, v)
	}
	return out, nil
}

// compressInts writes a list with (s first n) / (r n v) items where that is shorter.
func compressInts(xs []int) vlib.Sx {
	out := vlib.List{}
	for i := 0; i < len(xs); {
		j := i + 1
		for j < len(xs) && xs[j] == xs[j-1]+1 {
			j++
		}
		k := i + 1
		for k < len(xs) && xs[k] == xs[i] {
			k++
		}
		switch {
		case k-i >= 4 && k >= j:
			out = append(out, vlib.L(vlib.Atom("r"), vlib.Int(k-i), vlib.Int(xs[i])))
			i = k
		case j-i >= 4:
			out = append(out, vlib.L(vlib.Atom("s"), vlib.Int(xs[i]), vlib.Int(j-i)))
			i = j
		default:
			out = append(out, vlib.Int(xs[i]))
			i++
		}
	}
	return out
}

func intsSx[T ~int | ~int32 | ~uint16 | ~uint8](xs []T) vlib.Sx {
	l := make(vlib.List, len(xs))
	for i, x := range xs {
		l[i] = vlib.I64(int64(x))
	}
	return l
}

// ================= charset =================

// specCharset reads a charset as the specification describes it.
func specCharset(data []byte, nGlyphs int) (sids []int, end int, ok bool) {
	if len(data) < 1 || nGlyphs < 1 {
		return nil, 0, false
	}
	sids = []int{0}
	pos := 1
	switch data[0] {
	case 0:
		for len(sids) < nGlyphs {
			if pos+2 > len(data) {
				return nil, 0, false
			}
			sids = append(sids, int(data[pos])<<8|int(data[pos+1]))
			pos += 2
		}
	case 1, 2:
		w := int(data[0]) // bytes of nLeft
		for len(sids) < nGlyphs {
			if pos+2+w > len(data) {
				return nil, 0, false
			}
			first := int(data[pos])<<8 | int(data[pos+1])
			nLeft := int(data[pos+2])
			if w == 2 {
				nLeft = nLeft<<8 | int(data[pos+3])
			}
			pos += 2 + w
			if first+nLeft > 0xFFFF || len(sids)+nLeft+1 > nGlyphs {
				return nil, 0, false
			}
			for i := 0; i <= nLeft; i++ {
				sids = append(sids, first+i)
			}
		}
	default:
		return nil, 0, false
	}
	return sids, pos, true
}

// specCharsetEncode writes names[1:] in the given format (0, 1, 2),
// independently of the implementation.
func specCharsetEncode(names []int, format int) []byte {
	rest := names[1:]
	out := []byte{byte(format)}
	if format == 0 {
		for _, n := range rest {
			out = append(out, byte(n>>8), byte(n))
		}
		return out
	}
	maxRun := 256
	if format == 2 {
		maxRun = 65536
	}
	for i := 0; i < len(rest); {
		j := i + 1
		for j < len(rest) && rest[j] == rest[j-1]+1 && j-i < maxRun {
			j++
		}
		out = append(out, byte(rest[i]>>8), byte(rest[i]))
		if format == 1 {
			out = append(out, byte(j-i-1))
		} else {
			out = append(out, byte((j-i-1)>>8), byte(j-i-1))
		}
		i = j
	}
	return out
}

func sameInts32(a []int32, b []int) bool {
	if len(a) != len(b) {
		return false
	}
	for i := range a {
		if int(a[i]) != b[i] {
			return false
		}
	}
	return true
}

func init() {
	kinds["charset-enc"] = func(items []vlib.Sx) (result, error) {
		if len(items) != 1 {
			return result{}, fmt.Errorf("charset-enc: want 1 argument")
		}
		names, err := expandInts(items[0])
		if err != nil {
			return result{}, err
		}
		names32 := make([]int32, len(names))
		inDomain := len(names) >= 1 && len(names) < 65536
		for i, n := range names {
			names32[i] = int32(n)
			if n < 0 || n > 0xFFFF {
				inDomain = false
			}
		}
		var enc []byte
		var eerr error
		if p, what := safely(func() { enc, eerr = cff.VerifC13EncodeCharset(names32) }); p {
			res := result{impl: "panic"}
			if len(names) > 0 {
				res.fail, res.sig = "encodeCharset panics: "+what, "c13-charset-encode-panic"
			}
			return res, nil
		}
		if eerr != nil {
			res := result{impl: "err"}
			if inDomain && names[0] == 0 {
				res.fail, res.sig = "encodeCharset rejects a valid charset: "+eerr.Error(), "c13-charset-encode-rejects"
			}
			return res, nil
		}
		res := result{impl: okHex(enc)}
		if !inDomain {
			// identifiers that do not fit 16 bits cannot be represented
			res.fail, res.sig = "encodeCharset accepts identifiers outside 0..65535 and truncates them", "c13-charset-sid-truncated"
			return res, nil
		}
		got, end, ok := specCharset(enc, len(names))
		if !ok || end != len(enc) || !equalInts(got, names) {
			res.fail, res.sig = "specification reader does not return the encoded charset", "c13-charset-roundtrip"
			return res, nil
		}
		best := len(specCharsetEncode(names, 0))
		for f := 1; f <= 2; f++ {
			if l := len(specCharsetEncode(names, f)); l < best {
				best = l
			}
		}
		if len(enc) != best {
			res.fail, res.sig = fmt.Sprintf("charset takes %d bytes, the shortest format takes %d", len(enc), best), "c13-charset-format"
			return res, nil
		}
		var back []int32
		var pos int64
		var rerr error
		if p, what := safely(func() {
			back, pos, rerr = cff.VerifC13ReadCharset(append(append([]byte(nil), enc...), 0xAA, 0xBB), len(names))
		}); p {
			res.fail, res.sig = "readCharset panics on an emitted charset: "+what, "c13-charset-read-panic"
		} else if rerr != nil || !sameInts32(back, names) || pos != int64(len(enc)) {
			res.fail, res.sig = "readCharset does not return the encoded charset", "c13-charset-roundtrip"
		}
		return res, nil
	}

	kinds["charset-read"] = func(items []vlib.Sx) (result, error) {
		if len(items) != 2 {
			return result{}, fmt.Errorf("charset-read: want 2 arguments")
		}
		nGlyphs, err := vlib.AsInt(items[0])
		if err != nil {
			return result{}, err
		}
		data, err := vlib.AsBytes(items[1])
		if err != nil {
			return result{}, err
		}
		var cs []int32
		var pos int64
		var rerr error
		if p, what := safely(func() { cs, pos, rerr = cff.VerifC13ReadCharset(data, nGlyphs) }); p {
			return result{impl: "panic", fail: "readCharset panics: " + what, sig: "c13-charset-read-panic"}, nil
		}
		want, end, sok := specCharset(data, nGlyphs)
		if nGlyphs >= 0x10000 {
			sok = false
		}
		if rerr != nil {
			res := result{impl: "err"}
			if sok {
				res.fail, res.sig = "readCharset rejects a charset that is valid by the specification: "+rerr.Error(), "c13-charset-read-rejects-valid"
			}
			return res, nil
		}
		res := result{impl: vlib.Str(vlib.L(vlib.Atom("ok"), intsSx(cs), vlib.I64(pos)))}
		if sok && (!sameInts32(cs, want) || int64(end) != pos) {
			res.fail, res.sig = "readCharset differs from the specification reader", "c13-charset-read-differs"
		}
		if len(cs) != nGlyphs {
			res.fail, res.sig = "readCharset returns the wrong number of entries", "c13-charset-read-differs"
		}
		return res, nil
	}
}

func equalInts(a, b []int) bool {
	if len(a) != len(b) {
		return false
	}
	for i := range a {
		if a[i] != b[i] {
			return false
		}
	}
	return true
}

func charsetEncLine(names []int) string {
	return vlib.Line(vlib.Atom("charset-enc"), compressInts(names))
}

// randCharset builds 0 followed by n-1 identifiers made of runs.
func randCharset(r *vlib.Rand, n int, style int) []int {
	names := []int{0}
	next := 1
	for len(names) < n {
		var runLen int
		switch style {
		case 0: // no two consecutive
			runLen = 1
		case 1: // short runs
			runLen = r.Range(1, 6)
		case 2: // runs around the 256 limit of format 1
			runLen = vlib.Pick(r, []int{1, 2, 255, 256, 257, 300, 511, 512, 513, 600})
		default: // one long run
			runLen = n
		}
		if runLen > n-len(names) {
			runLen = n - len(names)
		}
		gap := vlib.Pick(r, []int{1, 1, 2, 5, r.Intn(40) + 1})
		if style == 3 {
			gap = 0
		}
		first := next + gap
		if first+runLen > 0xFFFF {
			first = 0xFFFF - runLen + 1
			if first < 1 {
				first, runLen = 1, 0xFFFF
			}
		}
		for i := 0; i < runLen; i++ {
			names = append(names, first+i)
		}
		next = first + runLen
		if next > 60000 {
			next = r.Intn(1000) + 1 // wrap around: later runs may be below earlier ones
		}
	}
	return names[:n]
}

func genCharset(run *vlib.Run, r *vlib.Rand, tier string) {
	label := func(names []int) []string {
		runs := 0
		cross := false
		for i := 1; i < len(names); {
			j := i + 1
			for j < len(names) && names[j] == names[j-1]+1 {
				j++
			}
			if j-i > 256 {
				cross = true
			}
			runs++
			i = j
		}
		l := []string{"charset-enc"}
		if cross {
			l = append(l, "charset:run>256")
		}
		return l
	}
	encCase := func(names []int) {
		res := emit(run, charsetEncLine(names), len(names) > 1, label(names)...)
		if len(res.impl) > 6 && res.impl[:5] == "(ok x" {
			run.Hist[fmt.Sprintf("charset-format:%c", res.impl[6])]++
		}
	}
	// boundary cases
	encCase([]int{0})
	encCase([]int{0, 1})
	encCase([]int{0, 5})
	encCase([]int{0, 1, 2})
	encCase([]int{0, 1, 2, 3})
	encCase([]int{0, 65535})
	encCase([]int{0, 65534, 65535})
	encCase([]int{0, 3, 2, 1})
	encCase([]int{0, 7, 7, 7})
	encCase([]int{1, 2, 3}) // missing .notdef
	encCase([]int{})        // outside the domain
	for _, n := range []int{255, 256, 257, 258, 513, 514, 1000} {
		for style := 0; style < 4; style++ {
			encCase(randCharset(r, n, style))
		}
	}
	// length ties between the formats: k runs of length 2 etc.
	for k := 1; k <= 6; k++ {
		for runLen := 1; runLen <= 4; runLen++ {
			names := []int{0}
			for i := 0; i < k; i++ {
				for j := 0; j < runLen; j++ {
					names = append(names, 10+i*10+j)
				}
			}
			encCase(names)
		}
	}
	big := []int{65535}
	if tier == "thorough" {
		big = []int{65535, 65534, 40000}
	}
	for _, n := range big {
		encCase(randCharset(r, n, 3))
		encCase(randCharset(r, n, 2))
		if tier == "thorough" {
			encCase(randCharset(r, n, 0))
			encCase(randCharset(r, n, 1))
		}
	}
	n := vlib.Count(tier, 300, 8000)
	for i := 0; i < n; i++ {
		encCase(randCharset(r, vlib.Pick(r, []int{1, 2, 3, 5, 10, 40, r.Range(1, 700)}), r.Intn(4)))
	}
	// identifiers that do not fit 16 bits
	encCase([]int{0, 65536})
	encCase([]int{0, 1, 70000, 70001, 70002})

	// reader: each format (also the non-optimal ones), then damaged
	n = vlib.Count(tier, 500, 15000)
	for i := 0; i < n; i++ {
		ng := vlib.Pick(r, []int{1, 2, 3, 5, 10, 40, 257, 258, r.Range(1, 600)})
		names := randCharset(r, ng, r.Intn(4))
		format := r.Intn(3)
		data := specCharsetEncode(names, format)
		data = append(data, r.Bytes(vlib.Pick(r, []int{0, 0, 1, 3}))...)
		lab := fmt.Sprintf("charset-read:valid-format%d", format)
		switch r.Intn(8) {
		case 0:
			if len(data) > 1 {
				data = data[:r.Range(0, len(data)-1)]
				lab = "charset-read:truncated"
			}
		case 1, 2:
			k := r.Intn(min(len(data), 12))
			data[k] = vlib.Pick(r, []byte{0, 1, 2, 3, 255, byte(r.Uint64())})
			lab = "charset-read:mutated"
		case 3:
			ng += vlib.Pick(r, []int{-1, 1, 2, 255})
			lab = "charset-read:wrong-nglyphs"
		case 4: // range running past 0xFFFF
			if format > 0 && len(data) > 3 {
				data[1], data[2] = 0xFF, byte(r.Range(0xF0, 0xFF))
				lab = "charset-read:code-overflow"
			}
		}
		if ng < 0 {
			ng = 0
		}
		res := emit(run, vlib.Line(vlib.Atom("charset-read"), vlib.Int(ng), vlib.Hex(data)), true, lab)
		if res.impl == "err" {
			run.Hist["charset-read=>err"]++
		} else {
			run.Hist["charset-read=>ok"]++
		}
	}
	for _, ng := range []int{0, -1, 65535, 65536, 70000} {
		emit(run, vlib.Line(vlib.Atom("charset-read"), vlib.Int(ng), vlib.Hex([]byte{2, 0, 1, 0xFF, 0xFD, 9})), true, "charset-read:nglyphs-limit")
	}
}

// ================= encoding =================

// specEncoding reads an encoding as the specification describes it: the
// result maps codes to glyph ids; supplements name glyphs by SID.
func specEncoding(data []byte, charset []int) (enc []int, end int, ok bool) {
	if len(data) < 2 {
		return nil, 0, false
	}
	enc = make([]int, 256)
	used := make([]bool, 256)
	gid := 1
	pos := 2
	switch data[0] & 127 {
	case 0:
		n := int(data[1])
		if pos+n > len(data) || n >= len(charset) {
			return nil, 0, false
		}
		for i := 0; i < n; i++ {
			c := data[pos+i]
			if used[c] {
				return nil, 0, false
			}
			enc[c], used[c] = gid, true
			gid++
		}
		pos += n
	case 1:
		n := int(data[1])
		for i := 0; i < n; i++ {
			if pos+2 > len(data) {
				return nil, 0, false
			}
			first, nLeft := int(data[pos]), int(data[pos+1])
			pos += 2
			if first+nLeft > 255 {
				return nil, 0, false
			}
			for c := first; c <= first+nLeft; c++ {
				if used[c] || gid >= len(charset) {
					return nil, 0, false
				}
				enc[c], used[c] = gid, true
				gid++
			}
		}
	default:
		return nil, 0, false
	}
	if data[0]&128 != 0 {
		if pos+1 > len(data) {
			return nil, 0, false
		}
		n := int(data[pos])
		pos++
		for i := 0; i < n; i++ {
			if pos+3 > len(data) {
				return nil, 0, false
			}
			c := data[pos]
			sid := int(data[pos+1])<<8 | int(data[pos+2])
			pos += 3
			if used[c] {
				return nil, 0, false
			}
			g := -1
			cnt := 0
			for j, s := range charset {
				if s == sid {
					g = j
					cnt++
				}
			}
			if cnt != 1 || g >= gid {
				return nil, 0, false // unknown, ambiguous or not yet encoded glyph
			}
			if g != 0 {
				enc[c] = g
				used[c] = true
			}
		}
	}
	return enc, pos, true
}

func gidsOf(xs []int) []glyph.ID {
	out := make([]glyph.ID, len(xs))
	for i, x := range xs {
		out[i] = glyph.ID(x)
	}
	return out
}

func int32sOf(xs []int) []int32 {
	out := make([]int32, len(xs))
	for i, x := range xs {
		out[i] = int32(x)
	}
	return out
}

// contiguousEncoding: the documented rule - the encoded glyphs are exactly 1..max.
func contiguousEncoding(enc []int) (maxGid int, ok bool) {
	seen := map[int]bool{}
	for _, g := range enc {
		if g != 0 {
			seen[g] = true
			if g > maxGid {
				maxGid = g
			}
		}
	}
	return maxGid, len(seen) == maxGid
}

func uniqueNames(names []int) bool {
	seen := map[int]bool{}
	for _, n := range names {
		if n < 0 || n > 0xFFFF || seen[n] {
			return false
		}
		seen[n] = true
	}
	return true
}

func init() {
	kinds["encoding-enc"] = func(items []vlib.Sx) (result, error) {
		if len(items) != 2 {
			return result{}, fmt.Errorf("encoding-enc: want 2 arguments")
		}
		enc, err := expandInts(items[0])
		if err != nil {
			return result{}, err
		}
		names, err := expandInts(items[1])
		if err != nil {
			return result{}, err
		}
		maxGid, contiguous := contiguousEncoding(enc)
		inDomain := len(enc) == 256 && uniqueNames(names) && maxGid < len(names) && len(names) < 65536
		for _, g := range enc {
			if g < 0 || g > 0xFFFF {
				return result{}, fmt.Errorf("glyph id out of range")
			}
		}
		var data []byte
		var eerr error
		if p, what := safely(func() { data, eerr = cff.VerifC13EncodeEncoding(gidsOf(enc), int32sOf(names)) }); p {
			res := result{impl: "panic"}
			if inDomain {
				res.fail, res.sig = "encodeEncoding panics: "+what, "c13-encoding-encode-panic"
			}
			return res, nil
		}
		if eerr != nil {
			res := result{impl: "err"}
			if inDomain && contiguous && maxGid <= 255 {
				// with at most 255 encoded glyphs format 0 is always possible
				res.fail, res.sig = "encodeEncoding rejects a contiguous encoding: "+eerr.Error(), "c13-encoding-encode-rejects"
			}
			return res, nil
		}
		res := result{impl: okHex(data)}
		if !inDomain {
			return res, nil
		}
		if !contiguous {
			res.fail, res.sig = "encodeEncoding accepts a non-contiguous encoding", "c13-encoding-contiguity"
			return res, nil
		}
		got, end, ok := specEncoding(data, names)
		if !ok || end != len(data) || !equalInts(got, enc) {
			res.fail, res.sig = "specification reader does not return the encoding vector", "c13-encoding-roundtrip"
			return res, nil
		}
		var back []glyph.ID
		var pos int64
		var rerr error
		if p, what := safely(func() {
			back, pos, rerr = cff.VerifC13ReadEncoding(append(append([]byte(nil), data...), 0xAA), int32sOf(names))
		}); p {
			res.fail, res.sig = "readEncoding panics on an emitted encoding: "+what, "c13-encoding-read-panic"
			return res, nil
		}
		same := rerr == nil && len(back) == 256 && pos == int64(len(data))
		if same {
			for i := range back {
				if int(back[i]) != enc[i] {
					same = false
				}
			}
		}
		if !same {
			res.fail, res.sig = "readEncoding does not return the encoding vector", "c13-encoding-roundtrip"
		}
		return res, nil
	}

	kinds["encoding-read"] = func(items []vlib.Sx) (result, error) {
		if len(items) != 2 {
			return result{}, fmt.Errorf("encoding-read: want 2 arguments")
		}
		data, err := vlib.AsBytes(items[0])
		if err != nil {
			return result{}, err
		}
		charset, err := expandInts(items[1])
		if err != nil {
			return result{}, err
		}
		var enc []glyph.ID
		var pos int64
		var rerr error
		if p, what := safely(func() { enc, pos, rerr = cff.VerifC13ReadEncoding(data, int32sOf(charset)) }); p {
			return result{impl: "panic", fail: "readEncoding panics: " + what, sig: "c13-encoding-read-panic"}, nil
		}
		want, end, sok := specEncoding(data, charset)
		if rerr != nil {
			res := result{impl: "err"}
			if sok && uniqueNames(charset) {
				res.fail, res.sig = "readEncoding rejects an encoding that is valid by the specification: "+rerr.Error(), "c13-encoding-read-rejects-valid"
			}
			return res, nil
		}
		res := result{impl: vlib.Str(vlib.L(vlib.Atom("ok"), intsSx(enc), vlib.I64(pos)))}
		if sok && uniqueNames(charset) {
			same := len(enc) == 256 && int64(end) == pos
			if same {
				for i := range enc {
					if int(enc[i]) != want[i] {
						same = false
					}
				}
			}
			if !same {
				res.fail, res.sig = "readEncoding differs from the specification reader", "c13-encoding-read-differs"
			}
		}
		return res, nil
	}
}

// randEncoding returns an encoding vector over nGlyphs glyphs (gid 0 is
// .notdef) and says how it was made.
func randEncoding(r *vlib.Rand, nGlyphs int) ([]int, string) {
	enc := make([]int, 256)
	maxGid := r.Range(0, min(nGlyphs-1, 256))
	style := r.Intn(5)
	free := r.Intn(256)
	perm := make([]int, 256)
	for i := range perm {
		perm[i] = i
	}
	for i := 255; i > 0; i-- {
		j := r.Intn(i + 1)
		perm[i], perm[j] = perm[j], perm[i]
	}
	used := 0
	place := func(code, gid int) bool {
		if enc[code&255] != 0 {
			return false
		}
		enc[code&255] = gid
		used++
		return true
	}
	switch style {
	case 0: // one ascending run of codes (format 1 with one range)
		for g := 1; g <= maxGid; g++ {
			place(free+g-1, g)
		}
	case 1: // a few ascending runs
		code := free
		for g := 1; g <= maxGid; g++ {
			if r.Chance(1, 12) {
				code += r.Range(2, 20)
			}
			for !place(code, g) {
				code++
			}
			code++
		}
	default: // scattered codes (format 0)
		for g := 1; g <= maxGid; g++ {
			place(perm[g-1], g)
		}
	}
	label := []string{"one-run", "few-runs", "scattered", "scattered", "scattered"}[style]
	// supplements: further codes for already encoded glyphs
	if maxGid > 0 && r.Chance(1, 2) {
		ns := vlib.Pick(r, []int{1, 1, 2, 5, r.Intn(30) + 1})
		for i := 0; i < ns && used < 256; i++ {
			c := r.Intn(256)
			if enc[c] == 0 {
				enc[c] = r.Range(1, maxGid)
				used++
				label += "+suppl"
			}
		}
	}
	// violations of the contiguity rule
	if maxGid > 1 && r.Chance(1, 8) {
		g := r.Range(1, maxGid-1)
		for c := range enc {
			if enc[c] == g {
				enc[c] = 0
			}
		}
		label += "+gap"
	}
	return enc, label
}

// boundaryEncoding encodes glyphs 1..k (k near 256) with the codes laid out
// as a random permutation ("perm"), many short runs ("short": 128..255 ranges
// when k = 256, so that format 0 is not longer than format 1) or a few long
// runs ("long"); with supplements on the free codes when suppl is set.
func boundaryEncoding(r *vlib.Rand, k int, layout string, suppl bool) []int {
	enc := make([]int, 256)
	var runs []int
	for left := k; left > 0; {
		var l int
		switch layout {
		case "perm":
			l = 1
		case "short":
			l = vlib.Pick(r, []int{1, 1, 2, 2, 2})
		case "pairs": // exactly k/2 ranges: for k = 256 both formats take 258 bytes
			l = 2
		default:
			l = r.Range(30, 120)
		}
		if l > left {
			l = left
		}
		runs = append(runs, l)
		left -= l
	}
	// the runs take consecutive blocks of codes, in a shuffled order
	order := make([]int, len(runs))
	for i := range order {
		order[i] = i
	}
	for i := len(order) - 1; i > 0; i-- {
		j := r.Intn(i + 1)
		order[i], order[j] = order[j], order[i]
	}
	start := make([]int, len(runs))
	code := r.Intn(256 - k + 1)
	for _, i := range order {
		start[i] = code
		code += runs[i]
	}
	g := 1
	for i, l := range runs {
		for j := 0; j < l; j++ {
			enc[start[i]+j] = g
			g++
		}
	}
	if suppl {
		for c := range enc {
			if enc[c] == 0 && r.Chance(2, 3) {
				enc[c] = r.Range(1, k)
			}
		}
	}
	return enc
}

func randNames(r *vlib.Rand, n int) []int {
	names := make([]int, n)
	seen := map[int]bool{0: true}
	for i := 1; i < n; i++ {
		for {
			v := vlib.Pick(r, []int{i, 390 + i, r.Intn(2000), r.Intn(65536)})
			if !seen[v] {
				seen[v] = true
				names[i] = v
				break
			}
		}
	}
	return names
}

func genEncoding(run *vlib.Run, r *vlib.Rand, tier string) {
	encLine := func(enc, names []int) string {
		return vlib.Line(vlib.Atom("encoding-enc"), compressInts(enc), compressInts(names))
	}
	count := func(res result, pre string) {
		switch {
		case res.impl == "err":
			run.Hist[pre+"=>err"]++
		case res.impl == "panic":
			run.Hist[pre+"=>panic"]++
		default:
			run.Hist[pre+"=>ok"]++
		}
	}
	// boundary cases
	zero := make([]int, 256)
	count(emit(run, encLine(zero, []int{0, 1, 2}), false, "encoding-enc", "encoding:empty"), "encoding-enc")
	all := make([]int, 256)
	for i := range all {
		all[i] = i + 1
	}
	count(emit(run, encLine(all, randNames(r, 257)), true, "encoding-enc", "encoding:256-glyphs-one-run"), "encoding-enc")
	rev := make([]int, 256)
	for i := range rev {
		rev[i] = 256 - i
	}
	count(emit(run, encLine(rev, randNames(r, 257)), true, "encoding-enc", "encoding:256-glyphs-256-segments"), "encoding-enc")
	rev255 := make([]int, 256)
	for i := 0; i < 255; i++ {
		rev255[i] = 255 - i
	}
	count(emit(run, encLine(rev255, randNames(r, 256)), true, "encoding-enc", "encoding:255-glyphs-255-segments"), "encoding-enc")
	same := make([]int, 256)
	for i := range same {
		same[i] = 1
	}
	count(emit(run, encLine(same, []int{0, 77}), true, "encoding-enc", "encoding:255-supplements"), "encoding-enc")
	// glyph id beyond the names (supplement lookup out of range)
	oob := make([]int, 256)
	oob[10], oob[11] = 1, 1
	count(emit(run, encLine(oob, []int{0}), true, "encoding-enc", "encoding:gid-beyond-names"), "encoding-enc")

	// 250..256 encoded glyphs: both formats around the limit of the format 0 count byte
	reps := vlib.Count(tier, 2, 40)
	for k := 250; k <= 256; k++ {
		for _, layout := range []string{"perm", "short", "pairs", "long"} {
			for _, suppl := range []bool{false, true} {
				for rep := 0; rep < reps; rep++ {
					enc := boundaryEncoding(r, k, layout, suppl)
					names := randNames(r, vlib.Pick(r, []int{257, 258, 300, 1000}))
					res := emit(run, encLine(enc, names), true, "encoding-enc", fmt.Sprintf("encoding:%d-glyphs-%s", k, layout))
					count(res, "encoding-enc")
					if strings.HasPrefix(res.impl, "(ok x") && len(res.impl) > 7 {
						run.Hist[fmt.Sprintf("encoding:%d-glyphs=>format%c%c", k, res.impl[5], res.impl[6])]++
					}
					// and the reader on what was written
					if data, err := cff.VerifC13EncodeEncoding(gidsOf(enc), int32sOf(names)); err == nil {
						count(emit(run, vlib.Line(vlib.Atom("encoding-read"), vlib.Hex(data), compressInts(names)), true,
							fmt.Sprintf("encoding-read:%d-glyphs", k)), "encoding-read")
					}
				}
			}
		}
	}

	n := vlib.Count(tier, 600, 20000)
	for i := 0; i < n; i++ {
		ng := vlib.Pick(r, []int{2, 3, 5, 20, 100, 257, 300, r.Range(2, 400)})
		enc, label := randEncoding(r, ng)
		names := randNames(r, ng)
		count(emit(run, encLine(enc, names), true, "encoding-enc", "encoding:"+label), "encoding-enc")
	}

	// reader: emitted encodings, damaged
	n = vlib.Count(tier, 500, 15000)
	for i := 0; i < n; i++ {
		ng := vlib.Pick(r, []int{2, 3, 5, 20, 100, 257, 300})
		enc, _ := randEncoding(r, ng)
		names := randNames(r, ng)
		data, err := cff.VerifC13EncodeEncoding(gidsOf(enc), int32sOf(names))
		if err != nil {
			data = r.Bytes(r.Range(0, 12))
		}
		data = append(append([]byte(nil), data...), r.Bytes(vlib.Pick(r, []int{0, 0, 2}))...)
		lab := "encoding-read:valid"
		switch r.Intn(8) {
		case 0:
			if len(data) > 0 {
				data = data[:r.Intn(len(data))]
				lab = "encoding-read:truncated"
			}
		case 1, 2, 3:
			if len(data) > 0 {
				data[r.Intn(len(data))] = vlib.Pick(r, []byte{0, 1, 2, 127, 128, 129, 255, byte(r.Uint64())})
				lab = "encoding-read:mutated"
			}
		case 4: // shorter charset than the encoding needs
			names = names[:r.Range(1, len(names))]
			lab = "encoding-read:short-charset"
		case 5: // duplicate SIDs in the charset
			if len(names) > 2 {
				names[len(names)-1] = names[1]
				lab = "encoding-read:duplicate-sid"
			}
		}
		count(emit(run, vlib.Line(vlib.Atom("encoding-read"), vlib.Hex(data), compressInts(names)), len(data) > 1, lab), "encoding-read")
	}
}

// ================= FDSelect =================

func specFDSelect(data []byte, nGlyphs, nPrivate int) (fds []int, end int, ok bool) {
	if len(data) < 1 {
		return nil, 0, false
	}
	switch data[0] {
	case 0:
		if 1+nGlyphs > len(data) {
			return nil, 0, false
		}
		for i := 0; i < nGlyphs; i++ {
			if int(data[1+i]) >= nPrivate {
				return nil, 0, false
			}
			fds = append(fds, int(data[1+i]))
		}
		return fds, 1 + nGlyphs, true
	case 3:
		if len(data) < 3 {
			return nil, 0, false
		}
		n := int(data[1])<<8 | int(data[2])
		if n == 0 || 3+3*n+2 > len(data) {
			return nil, 0, false
		}
		fds = make([]int, nGlyphs)
		for i := 0; i < n; i++ {
			first := int(data[3+3*i])<<8 | int(data[4+3*i])
			fd := int(data[5+3*i])
			next := int(data[6+3*i])<<8 | int(data[7+3*i]) // first of the next range or the sentinel
			if (i == 0 && first != 0) || next <= first || fd >= nPrivate || next > nGlyphs {
				return nil, 0, false
			}
			for g := first; g < next; g++ {
				fds[g] = fd
			}
			if i == n-1 && next != nGlyphs {
				return nil, 0, false
			}
		}
		return fds, 3 + 3*n + 2, true
	}
	return nil, 0, false
}

func evalFD(fn cff.FDSelectFn, nGlyphs int) (fds []int, panicked bool, what string) {
	fds = make([]int, nGlyphs)
	panicked, what = safely(func() {
		for g := 0; g < nGlyphs; g++ {
			fds[g] = fn(glyph.ID(g))
		}
	})
	return
}

func init() {
	kinds["fdselect-enc"] = func(items []vlib.Sx) (result, error) {
		if len(items) != 1 {
			return result{}, fmt.Errorf("fdselect-enc: want 1 argument")
		}
		fds, err := expandInts(items[0])
		if err != nil {
			return result{}, err
		}
		inDomain := len(fds) >= 1 && len(fds) < 65536
		nPrivate := 1
		for _, fd := range fds {
			if fd < 0 {
				return result{}, fmt.Errorf("negative fd")
			}
			if fd > 255 {
				inDomain = false
			}
			if fd+1 > nPrivate {
				nPrivate = fd + 1
			}
		}
		fn := func(g glyph.ID) int { return fds[g] }
		var data []byte
		if p, what := safely(func() { data = cff.VerifC13EncodeFDSelect(fn, len(fds)) }); p {
			return result{impl: "panic", fail: "FDSelectFn.encode panics: " + what, sig: "c13-fdselect-encode-panic"}, nil
		}
		res := result{impl: vlib.Str(vlib.Hex(data))}
		if !inDomain {
			return res, nil
		}
		got, end, ok := specFDSelect(data, len(fds), nPrivate)
		if !ok || end != len(data) || !equalInts(got, fds) {
			res.fail, res.sig = "specification reader does not return the FDSelect assignment", "c13-fdselect-roundtrip"
			return res, nil
		}
		// the shorter of the two formats (format 0 on a tie)
		segs := 0
		for i := range fds {
			if i == 0 || fds[i] != fds[i-1] {
				segs++
			}
		}
		best := min(len(fds)+1, 3+3*segs+2)
		if len(data) != best {
			res.fail, res.sig = fmt.Sprintf("FDSelect takes %d bytes, the shorter format takes %d", len(data), best), "c13-fdselect-format"
			return res, nil
		}
		var back cff.FDSelectFn
		var pos int64
		var rerr error
		if p, what := safely(func() {
			back, pos, rerr = cff.VerifC13ReadFDSelect(append(append([]byte(nil), data...), 0xAA), len(fds), nPrivate)
		}); p {
			res.fail, res.sig = "readFDSelect panics on an emitted FDSelect: "+what, "c13-fdselect-read-panic"
			return res, nil
		}
		if rerr != nil || pos != int64(len(data)) {
			res.fail, res.sig = "readFDSelect rejects an emitted FDSelect", "c13-fdselect-roundtrip"
			return res, nil
		}
		vals, p, what := evalFD(back, len(fds))
		if p {
			res.fail, res.sig = "FDSelect function panics: "+what, "c13-fdselect-read-panic"
		} else if !equalInts(vals, fds) {
			res.fail, res.sig = "readFDSelect does not return the FDSelect assignment", "c13-fdselect-roundtrip"
		}
		return res, nil
	}

	kinds["fdselect-read"] = func(items []vlib.Sx) (result, error) {
		if len(items) != 3 {
			return result{}, fmt.Errorf("fdselect-read: want 3 arguments")
		}
		nGlyphs, err := vlib.AsInt(items[0])
		if err != nil {
			return result{}, err
		}
		nPrivate, err := vlib.AsInt(items[1])
		if err != nil {
			return result{}, err
		}
		data, err := vlib.AsBytes(items[2])
		if err != nil {
			return result{}, err
		}
		if nGlyphs < 0 || nGlyphs > 1<<20 {
			return result{}, fmt.Errorf("fdselect-read: nGlyphs outside the harness limits")
		}
		var fn cff.FDSelectFn
		var pos int64
		var rerr error
		if p, what := safely(func() { fn, pos, rerr = cff.VerifC13ReadFDSelect(data, nGlyphs, nPrivate) }); p {
			return result{impl: "panic", fail: "readFDSelect panics: " + what, sig: "c13-fdselect-read-panic"}, nil
		}
		want, end, sok := specFDSelect(data, nGlyphs, nPrivate)
		if rerr != nil {
			res := result{impl: "err"}
			if sok {
				res.fail, res.sig = "readFDSelect rejects an FDSelect that is valid by the specification: "+rerr.Error(), "c13-fdselect-read-rejects-valid"
			}
			return res, nil
		}
		vals, p, what := evalFD(fn, nGlyphs)
		if p {
			return result{impl: "panic", fail: "FDSelect function panics for a glyph id below nGlyphs: " + what, sig: "c13-fdselect-read-panic"}, nil
		}
		res := result{impl: vlib.Str(vlib.L(vlib.Atom("ok"), intsSx(vals), vlib.I64(pos)))}
		for _, v := range vals {
			if v < 0 || v >= nPrivate {
				res.fail, res.sig = "FDSelect function returns an index outside the private dictionaries", "c13-fdselect-range"
			}
		}
		if sok && (!equalInts(vals, want) || int64(end) != pos) {
			res.fail, res.sig = "readFDSelect differs from the specification reader", "c13-fdselect-read-differs"
		}
		return res, nil
	}
}

func randFDs(r *vlib.Rand, n, nPrivate, style int) []int {
	fds := make([]int, n)
	cur := r.Intn(nPrivate)
	for i := range fds {
		switch style {
		case 0: // long segments
			if r.Chance(1, max(n/4, 2)) {
				cur = r.Intn(nPrivate)
			}
		case 1: // changes every few glyphs (near the format threshold)
			if r.Chance(1, 3) {
				cur = r.Intn(nPrivate)
			}
		default: // arbitrary
			cur = r.Intn(nPrivate)
		}
		fds[i] = cur
	}
	return fds
}

func genFDSelect(run *vlib.Run, r *vlib.Rand, tier string) {
	encCase := func(fds []int, labels ...string) {
		res := emit(run, vlib.Line(vlib.Atom("fdselect-enc"), compressInts(fds)), len(fds) > 1, append([]string{"fdselect-enc"}, labels...)...)
		if len(res.impl) > 2 {
			run.Hist["fdselect-format:"+res.impl[1:3]]++
		}
	}
	// boundary: the format switch happens where 3*segs+5 = n+1
	for n := 1; n <= 12; n++ {
		for segs := 1; segs <= n && segs <= 4; segs++ {
			fds := make([]int, n)
			for i := range fds {
				fds[i] = (i * segs / n) % 2
				if segs > 2 {
					fds[i] = i * segs / n
				}
			}
			encCase(fds)
		}
	}
	encCase([]int{255}, "fdselect:fd255")
	encCase([]int{0, 255, 0, 255, 255, 255, 255, 255, 255, 255, 255, 255, 255}, "fdselect:fd255")
	encCase([]int{5, 5, 5, 5, 5, 5, 5, 5, 5, 5}) // first fd equals nothing: a segment must still start at 0
	encCase([]int{0, 0, 0, 0, 0, 0, 0, 0, 0, 0})
	encCase([]int{0, 256, 0, 0, 0, 0, 0, 0, 0, 0, 0, 0, 0, 0, 0, 0}, "fdselect:fd>255")
	big := make([]int, 65535)
	encCase(big, "fdselect:65535-glyphs")
	for i := range big {
		big[i] = i / 300
	}
	encCase(big, "fdselect:65535-glyphs")
	if tier == "thorough" {
		encCase(randFDs(r, 65535, 256, 2), "fdselect:65535-glyphs")
		encCase(randFDs(r, 65535, 7, 0), "fdselect:65535-glyphs")
	}
	n := vlib.Count(tier, 400, 12000)
	for i := 0; i < n; i++ {
		ng := vlib.Pick(r, []int{1, 2, 5, 9, 10, 11, 30, 300, r.Range(1, 2000)})
		np := vlib.Pick(r, []int{1, 2, 3, 16, 256})
		encCase(randFDs(r, ng, np, r.Intn(3)))
	}
	// reader
	n = vlib.Count(tier, 500, 15000)
	for i := 0; i < n; i++ {
		ng := vlib.Pick(r, []int{1, 2, 5, 9, 10, 11, 30, 300, r.Range(1, 800)})
		np := vlib.Pick(r, []int{1, 2, 3, 16, 256})
		fds := randFDs(r, ng, np, r.Intn(3))
		fn := func(g glyph.ID) int { return fds[g] }
		data := cff.VerifC13EncodeFDSelect(fn, ng)
		if r.Chance(1, 4) {
			// the other format, written from the specification
			if data[0] == 0 {
				d := []byte{3, 0, 0}
				segs := 0
				for g := range fds {
					if g == 0 || fds[g] != fds[g-1] {
						d = append(d, byte(g>>8), byte(g), byte(fds[g]))
						segs++
					}
				}
				d[1], d[2] = byte(segs>>8), byte(segs)
				data = append(d, byte(ng>>8), byte(ng))
			} else {
				d := []byte{0}
				for _, fd := range fds {
					d = append(d, byte(fd))
				}
				data = d
			}
		}
		data = append(append([]byte(nil), data...), r.Bytes(vlib.Pick(r, []int{0, 0, 2}))...)
		lab := fmt.Sprintf("fdselect-read:valid-format%d", data[0])
		switch r.Intn(9) {
		case 0:
			data = data[:r.Intn(len(data))]
			lab = "fdselect-read:truncated"
		case 1, 2, 3:
			data[r.Intn(min(len(data), 14))] = vlib.Pick(r, []byte{0, 1, 2, 3, 255, byte(r.Uint64())})
			lab = "fdselect-read:mutated"
		case 4:
			ng += vlib.Pick(r, []int{-1, 1})
			lab = "fdselect-read:wrong-nglyphs"
		case 5:
			np = max(1, np-1)
			lab = "fdselect-read:fewer-private"
		case 6: // a range start beyond the sentinel
			if data[0] == 3 && len(data) >= 11 {
				data[6], data[7] = 0xFF, 0xF0
				lab = "fdselect-read:first-beyond-sentinel"
			}
		}
		if ng < 0 {
			ng = 0
		}
		res := emit(run, vlib.Line(vlib.Atom("fdselect-read"), vlib.Int(ng), vlib.Int(np), vlib.Hex(data)), true, lab)
		if res.impl == "err" {
			run.Hist["fdselect-read=>err"]++
		} else {
			run.Hist["fdselect-read=>ok"]++
		}
	}
}
