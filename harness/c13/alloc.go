package c13

import (
	"bytes"
	"fmt"
	"runtime"

	"seehuhn.de/go/sfnt/cff"
	"seehuhn.de/go/sfnt/verifharness/vlib"
)

// craftedPrivate builds a minimal simple font whose Top DICT claims a
// Private DICT of pdSize bytes at offset pdOffs.
func craftedPrivate(pdSize, pdOffs int32) []byte {
	idx := cff.VerifC13EncodeIndex
	hdr := []byte{1, 0, 4, 1}
	name := idx([][]byte{[]byte("X")})
	str := idx(nil)
	gsub := idx(nil)
	cs := idx([][]byte{{14}}) // one glyph: endchar
	var top []byte
	for it := 0; it < 6; it++ {
		csOff := len(hdr) + len(name) + len(idx([][]byte{top})) + len(str) + len(gsub)
		top = cff.VerifC13EncodeDict(map[uint16][]interface{}{
			17: {int32(csOff)},
			18: {pdSize, pdOffs},
		}, nil)
	}
	var out []byte
	for _, b := range [][]byte{hdr, name, idx([][]byte{top}), str, gsub, cs} {
		out = append(out, b...)
	}
	return out
}

func init() {
	// read-private pdSize pdOffs : cff.Read on a small crafted font must not
	// allocate more than a small multiple of the input size (C02)
	kinds["read-private"] = func(items []vlib.Sx) (result, error) {
		if len(items) != 2 {
			return result{}, fmt.Errorf("read-private: want 2 arguments")
		}
		sz, err := vlib.AsI64(items[0])
		if err != nil {
			return result{}, err
		}
		off, err := vlib.AsI64(items[1])
		if err != nil {
			return result{}, err
		}
		data := craftedPrivate(int32(sz), int32(off))
		var m0, m1 runtime.MemStats
		runtime.GC()
		runtime.ReadMemStats(&m0)
		var rerr error
		if p, what := safely(func() { _, rerr = cff.Read(bytes.NewReader(data)) }); p {
			return result{impl: "panic", fail: "cff.Read: " + what, sig: "c13-font-read-panic"}, nil
		}
		runtime.ReadMemStats(&m1)
		alloc := m1.TotalAlloc - m0.TotalAlloc
		res := result{impl: "ok"}
		if rerr != nil {
			res.impl = "err"
		}
		if limit := uint64(1<<20 + 64*len(data)); alloc > limit {
			res.fail = fmt.Sprintf("cff.Read of a %d-byte file (Private DICT size operand %d) allocates %d bytes", len(data), sz, alloc)
			res.sig = "c13-readprivate-unbounded-alloc"
		}
		return res, nil
	}
}

func genAlloc(run *vlib.Run, r *vlib.Rand, tier string) {
	for _, sz := range []int64{0, 1, 30, 100, 1 << 16, 1 << 24, 1 << 28, 1<<31 - 1, -1} {
		for _, off := range []int64{4, 20, 1 << 20} {
			emit(run, "!"+vlib.Line(vlib.Atom("read-private"), vlib.I64(sz), vlib.I64(off)), true, "read-private")
		}
	}
}

// craftedPredefined builds a minimal simple font with nGlyphs empty glyphs
// that uses predefined charset id (0 ISOAdobe, 1 Expert, 2 ExpertSubset) and
// an empty Private DICT.
func craftedPredefined(id, nGlyphs int) []byte {
	idx := cff.VerifC13EncodeIndex
	hdr := []byte{1, 0, 4, 1}
	name := idx([][]byte{[]byte("X")})
	str := idx(nil)
	gsub := idx(nil)
	glyphs := make([][]byte, nGlyphs)
	for i := range glyphs {
		glyphs[i] = []byte{14}
	}
	cs := idx(glyphs)
	var top []byte
	for it := 0; it < 6; it++ {
		csOff := len(hdr) + len(name) + len(idx([][]byte{top})) + len(str) + len(gsub)
		d := map[uint16][]interface{}{
			17: {int32(csOff)},
			18: {int32(0), int32(4)},
		}
		if id != 0 {
			d[15] = []interface{}{int32(id)}
		}
		top = cff.VerifC13EncodeDict(d, nil)
	}
	var out []byte
	for _, b := range [][]byte{hdr, name, idx([][]byte{top}), str, gsub, cs} {
		out = append(out, b...)
	}
	return out
}

// Appendix C of the specification, as SID ranges.
var specPredefined = [3][][2]int{
	{{0, 228}},
	{{0, 1}, {229, 238}, {13, 15}, {99, 99}, {239, 248}, {27, 28}, {249, 266}, {109, 110}, {267, 318}, {158, 158}, {155, 155}, {163, 163}, {319, 326}, {150, 150}, {164, 164}, {169, 169}, {327, 378}},
	{{0, 1}, {231, 232}, {235, 238}, {13, 15}, {99, 99}, {239, 248}, {27, 28}, {249, 251}, {253, 266}, {109, 110}, {267, 270}, {272, 272}, {300, 302}, {305, 305}, {314, 315}, {158, 158}, {155, 155}, {163, 163}, {320, 326}, {150, 150}, {164, 164}, {169, 169}, {327, 346}},
}

func init() {
	// charset-predef id nGlyphs : glyph names (as SIDs) cff.Read gives a font
	// that uses a predefined charset
	kinds["charset-predef"] = func(items []vlib.Sx) (result, error) {
		if len(items) != 2 {
			return result{}, fmt.Errorf("charset-predef: want 2 arguments")
		}
		id, err := vlib.AsInt(items[0])
		if err != nil || id < 0 || id > 2 {
			return result{}, fmt.Errorf("charset-predef: bad id")
		}
		n, err := vlib.AsInt(items[1])
		if err != nil || n < 1 || n > 2000 {
			return result{}, fmt.Errorf("charset-predef: bad glyph count")
		}
		data := craftedPredefined(id, n)
		var f *cff.Font
		var rerr error
		if p, what := safely(func() { f, rerr = cff.Read(bytes.NewReader(data)) }); p {
			return result{impl: "panic", fail: "cff.Read: " + what, sig: "c13-font-read-panic"}, nil
		}
		var want []int
		for _, rg := range specPredefined[id] {
			for s := rg[0]; s <= rg[1]; s++ {
				want = append(want, s)
			}
		}
		if rerr != nil {
			res := result{impl: "err"}
			if n <= len(want) {
				res.fail, res.sig = "cff.Read rejects a font with a predefined charset: "+rerr.Error(), "c13-charset-predefined"
			}
			return res, nil
		}
		sids := make([]int, len(f.Glyphs))
		for i, g := range f.Glyphs {
			s, ok := sidOf(g.Name, 0)
			if !ok {
				s = -1
			}
			sids[i] = s
		}
		res := result{impl: vlib.Str(vlib.L(vlib.Atom("ok"), vlib.Ints(sids)))}
		if n > len(want) || !equalInts(sids, want[:n]) {
			res.fail, res.sig = "glyph names of a predefined charset differ from Appendix C of the specification", "c13-charset-predefined"
		}
		return res, nil
	}
}

func genPredefined(run *vlib.Run, r *vlib.Rand, tier string) {
	lens := [3]int{229, 166, 87}
	for id := 0; id < 3; id++ {
		for _, n := range []int{1, 2, lens[id] - 1, lens[id], lens[id] + 1, r.Range(1, lens[id])} {
			emit(run, vlib.Line(vlib.Atom("charset-predef"), vlib.Int(id), vlib.Int(n)), true, "charset-predef")
		}
	}
}
