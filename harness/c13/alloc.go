package c13

import (
	"bytes"
	"fmt"
	"runtime"

	"seehuhn.de/go/sfnt/cff"
	"seehuhn.de/go/sfnt/verifharness/vlib"
)

// craftedPrivate builds a minimal simple font whose Top DICT claims a
// Private DICT of pdSize bytes at offset pdOffs.
func craftedPrivate(pdSize, pdOffs int32) []byte {
	idx := cff.VerifC13EncodeIndex
	hdr := []byte{1, 0, 4, 1}
	name := idx([][]byte{[]byte("X")})
	str := idx(nil)
	gsub := idx(nil)
	cs := idx([][]byte{{14}}) // one glyph: endchar
	var top []byte
	for it := 0; it < 6; it++ {
		csOff := len(hdr) + len(name) + len(idx([][]byte{top})) + len(str) + len(gsub)
		top = cff.VerifC13EncodeDict(map[uint16][]interface{}{
			17: {int32(csOff)},
			18: {pdSize, pdOffs},
		}, nil)
	}
	var out []byte
	for _, b := range [][]byte{hdr, name, idx([][]byte{top}), str, gsub, cs} {
		out = append(out, b...)
	}
	return out
}

func init() {
	// read-private pdSize pdOffs : cff.Read on a small crafted font must not
	// allocate more than a small multiple of the input size (C02)
	kinds["read-private"] = func(items []vlib.Sx) (result, error) {
		if len(items) != 2 {
			return result{}, fmt.Errorf("read-private: want 2 arguments")
		}
		sz, err := vlib.AsI64(items[0])
		if err != nil {
			return result{}, err
		}
		off, err := vlib.AsI64(items[1])
		if err != nil {
			return result{}, err
		}
		data := craftedPrivate(int32(sz), int32(off))
		var m0, m1 runtime.MemStats
		runtime.GC()
		runtime.ReadMemStats(&m0)
		var rerr error
		if p, what := safely(func() { _, rerr = cff.Read(bytes.NewReader(data)) }); p {
			return result{impl: "panic", fail: "cff.Read: " + what, sig: "c13-font-read-panic"}, nil
		}
		runtime.ReadMemStats(&m1)
		alloc := m1.TotalAlloc - m0.TotalAlloc
		res := result{impl: "ok"}
		if rerr != nil {
			res.impl = "err"
		}
		if limit := uint64(1<<20 + 64*len(data)); alloc > limit {
			res.fail = fmt.Sprintf("cff.Read of a %d-byte file (Private DICT size operand %d) allocates %d bytes", len(data), sz, alloc)
			res.sig = "c13-readprivate-unbounded-alloc"
		}
		return res, nil
	}
}

func genAlloc(run *vlib.Run, r *vlib.Rand, tier string) {
	for _, sz := range []int64{0, 1, 30, 100, 1 << 16, 1 << 24, 1 << 28, 1<<31 - 1, -1} {
		for _, off := range []int64{4, 20, 1 << 20} {
			emit(run, "!"+vlib.Line(vlib.Atom("read-private"), vlib.I64(sz), vlib.I64(off)), true, "read-private")
		}
	}
}
