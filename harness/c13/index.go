package c13

import (
	"bytes"
	"fmt"

	"seehuhn.de/go/sfnt/cff"
	"seehuhn.de/go/sfnt/verifharness/vlib"
)

// specIndex reads an INDEX at pos as the CFF specification describes it
// (offSize 1..4, first offset 1, offsets non-decreasing, data inside the
// input).  It is independent of the implementation and of the Coq model.
func specIndex(data []byte, pos int) (blobs [][]byte, end int, ok bool) {
	if pos < 0 || pos+2 > len(data) {
		return nil, 0, false
	}
	count := int(data[pos])<<8 | int(data[pos+1])
	if count == 0 {
		return nil, pos + 2, true
	}
	if pos+3 > len(data) {
		return nil, 0, false
	}
	offSize := int(data[pos+2])
	if offSize < 1 || offSize > 4 {
		return nil, 0, false
	}
	base := pos + 3
	if base+(count+1)*offSize > len(data) {
		return nil, 0, false
	}
	offs := make([]int, count+1)
	for i := range offs {
		v := 0
		for j := 0; j < offSize; j++ {
			v = v<<8 | int(data[base+i*offSize+j])
		}
		offs[i] = v
	}
	if offs[0] != 1 {
		return nil, 0, false
	}
	dataStart := base + (count+1)*offSize - 1
	for i := 0; i < count; i++ {
		if offs[i+1] < offs[i] {
			return nil, 0, false
		}
	}
	if dataStart+offs[count] > len(data) {
		return nil, 0, false
	}
	blobs = make([][]byte, count)
	for i := range blobs {
		blobs[i] = data[dataStart+offs[i] : dataStart+offs[i+1]]
	}
	return blobs, dataStart + offs[count], true
}

func sameBlobs(a, b [][]byte) bool {
	if len(a) != len(b) {
		return false
	}
	for i := range a {
		if !bytes.Equal(a[i], b[i]) {
			return false
		}
	}
	return true
}

func minOffSize(body int) int {
	k := 1
	for body+1 >= 1<<(8*k) {
		k++
	}
	return k
}

// checkIndexEncoding is the oracle for an emitted INDEX: the specification
// reader and the implementation's reader both return the blobs, wherever the
// INDEX is embedded, and offSize is minimal.
func checkIndexEncoding(blobs [][]byte, enc []byte) string {
	got, end, ok := specIndex(enc, 0)
	if !ok || end != len(enc) || !sameBlobs(got, blobs) {
		return "specification reader does not return the encoded blobs"
	}
	if len(blobs) > 0 {
		body := 0
		for _, b := range blobs {
			body += len(b)
		}
		if int(enc[2]) != minOffSize(body) {
			return fmt.Sprintf("offSize %d is not minimal (%d)", enc[2], minOffSize(body))
		}
	}
	// embedded: 5 bytes before, 3 bytes after
	emb := append(append([]byte{9, 9, 9, 9, 9}, enc...), 7, 7, 7)
	var got2 [][]byte
	var pos int64
	var err error
	if p, what := safely(func() { got2, pos, err = cff.VerifC13ReadIndex(emb, 5) }); p {
		return "readIndex panics on an emitted INDEX: " + what
	}
	if err != nil {
		return "readIndex rejects an emitted INDEX: " + err.Error()
	}
	if !sameBlobs(got2, blobs) || pos != int64(5+len(enc)) {
		return "readIndex does not return the encoded blobs / end position"
	}
	return ""
}

func init() {
	kinds["index-enc"] = func(items []vlib.Sx) (result, error) {
		if len(items) != 1 {
			return result{}, fmt.Errorf("index-enc: want 1 argument")
		}
		blobs, err := asHexList(items[0])
		if err != nil {
			return result{}, err
		}
		var enc []byte
		if p, what := safely(func() { enc = cff.VerifC13EncodeIndex(blobs) }); p {
			res := result{impl: "panic"}
			if len(blobs) < 65536 {
				res.fail, res.sig = "cffIndex.encode panics: "+what, "c13-index-encode-panic"
			}
			return res, nil
		}
		res := result{impl: okHex(enc)}
		if msg := checkIndexEncoding(blobs, enc); msg != "" {
			res.fail, res.sig = msg, "c13-index-roundtrip"
		}
		return res, nil
	}

	kinds["index-hdr"] = func(items []vlib.Sx) (result, error) {
		if len(items) != 1 {
			return result{}, fmt.Errorf("index-hdr: want 1 argument")
		}
		lens, err := vlib.AsInts(items[0])
		if err != nil {
			return result{}, err
		}
		blobs := make([][]byte, len(lens))
		body := 0
		for i, n := range lens {
			if n < 0 || body+n > 1<<26 {
				return result{}, fmt.Errorf("index-hdr: body too large for the harness")
			}
			blobs[i] = make([]byte, n)
			for j := range blobs[i] {
				blobs[i][j] = byte(i + j)
			}
			body += n
		}
		var enc []byte
		if p, what := safely(func() { enc = cff.VerifC13EncodeIndex(blobs) }); p {
			res := result{impl: "panic"}
			if len(blobs) < 65536 {
				res.fail, res.sig = "cffIndex.encode panics: "+what, "c13-index-encode-panic"
			}
			return res, nil
		}
		hdr := len(enc) - body
		if len(blobs) == 0 {
			hdr = len(enc)
		}
		if hdr < 0 {
			return result{impl: "(short)", fail: "encoding shorter than its body", sig: "c13-index-roundtrip"}, nil
		}
		res := result{impl: okHex(enc[:hdr])}
		if msg := checkIndexEncoding(blobs, enc); msg != "" {
			res.fail, res.sig = msg, "c13-index-roundtrip"
		}
		return res, nil
	}

	kinds["index-read"] = func(items []vlib.Sx) (result, error) {
		if len(items) != 2 {
			return result{}, fmt.Errorf("index-read: want 2 arguments")
		}
		start, err := vlib.AsInt(items[0])
		if err != nil {
			return result{}, err
		}
		data, err := vlib.AsBytes(items[1])
		if err != nil {
			return result{}, err
		}
		var blobs [][]byte
		var pos int64
		var rerr error
		if p, what := safely(func() { blobs, pos, rerr = cff.VerifC13ReadIndex(data, int64(start)) }); p {
			return result{impl: "panic", fail: "readIndex panics: " + what, sig: "c13-index-read-panic"}, nil
		}
		sblobs, send, sok := specIndex(data, start)
		_ = send
		if rerr != nil {
			res := result{impl: "err"}
			if sok {
				res.fail, res.sig = "readIndex rejects an INDEX that is valid by the specification: "+rerr.Error(), "c13-index-read-rejects-valid"
			}
			return res, nil
		}
		res := result{impl: vlib.Str(vlib.L(vlib.Atom("ok"), hexList(blobs), vlib.I64(pos)))}
		if sok && (!sameBlobs(sblobs, blobs) || int64(send) != pos) {
			res.fail, res.sig = "readIndex result differs from the specification reader", "c13-index-read-differs"
		}
		return res, nil
	}
}

func randBlob(r *vlib.Rand, n int) []byte { return r.Bytes(n) }

func indexEncLine(blobs [][]byte) string {
	return vlib.Line(vlib.Atom("index-enc"), hexList(blobs))
}

func indexReadLine(start int, data []byte) string {
	return vlib.Line(vlib.Atom("index-read"), vlib.Int(start), vlib.Hex(data))
}

// blobsWithBody returns count blobs whose lengths sum to body.
func blobsWithBody(r *vlib.Rand, count, body int) [][]byte {
	lens := make([]int, count)
	for i := 0; i < body; i++ {
		if r.Chance(1, 8) || i == 0 {
			// move to a random blob now and then so that lengths vary
			lens[r.Intn(count)]++
		} else {
			lens[(i*7)%count]++
		}
	}
	blobs := make([][]byte, count)
	for i, n := range lens {
		blobs[i] = randBlob(r, n)
	}
	return blobs
}

func genIndex(run *vlib.Run, r *vlib.Rand, tier string) {
	// (a) encoder: boundary bodies and counts
	for _, body := range []int{0, 1, 2, 253, 254, 255, 256, 257, 65533, 65534, 65535, 65536} {
		for _, count := range []int{1, 2, 3, 255, 256, 257} {
			if body > 1000 && count > 3 && tier != "thorough" {
				continue
			}
			blobs := blobsWithBody(r, count, body)
			emit(run, indexEncLine(blobs), true, "index-enc", fmt.Sprintf("index-offsize:%d", minOffSize(body)))
		}
	}
	emit(run, indexEncLine(nil), false, "index-enc", "index-empty")
	// counts at the 16-bit limit and bodies at the 2^16 / 2^24 limits, by lengths only
	lensLine := func(lens []int) string { return vlib.Line(vlib.Atom("index-hdr"), vlib.Ints(lens)) }
	emit(run, lensLine(make([]int, 65535)), true, "index-hdr", "index-count:65535")
	emit(run, lensLine(make([]int, 65536)), true, "index-hdr", "index-count:65536")
	for _, body := range []int{65534, 65535, 16777214, 16777215, 16777216} {
		emit(run, lensLine([]int{body}), true, "index-hdr", fmt.Sprintf("index-offsize:%d", minOffSize(body)))
		emit(run, lensLine([]int{body / 2, 0, body - body/2}), true, "index-hdr", fmt.Sprintf("index-offsize:%d", minOffSize(body)))
	}
	l := make([]int, 65535)
	for i := range l {
		l[i] = i % 3
	}
	emit(run, lensLine(l), true, "index-hdr", "index-count:65535")

	// (b) encoder: random
	n := vlib.Count(tier, 150, 4000)
	for i := 0; i < n; i++ {
		count := vlib.Pick(r, []int{1, 1, 2, 3, 5, 17, 100, r.Range(1, 400)})
		blobs := make([][]byte, count)
		for j := range blobs {
			blobs[j] = randBlob(r, vlib.Pick(r, []int{0, 0, 1, 2, 3, 10, r.Intn(60)}))
		}
		body := 0
		for _, b := range blobs {
			body += len(b)
		}
		emit(run, indexEncLine(blobs), true, "index-enc", fmt.Sprintf("index-offsize:%d", minOffSize(body)))
	}

	// (c) reader: valid encodings embedded at an offset, then mutated
	n = vlib.Count(tier, 400, 12000)
	for i := 0; i < n; i++ {
		count := vlib.Pick(r, []int{0, 1, 1, 2, 3, 5, 17, r.Range(1, 300)})
		blobs := make([][]byte, count)
		body := 0
		for j := range blobs {
			blobs[j] = randBlob(r, vlib.Pick(r, []int{0, 1, 2, 3, 10, r.Intn(40)}))
			body += len(blobs[j])
		}
		if count > 0 && r.Chance(1, 6) {
			// push the body over an offSize threshold
			blobs[0] = randBlob(r, vlib.Pick(r, []int{254, 255, 256}))
		}
		enc := cff.VerifC13EncodeIndex(blobs)
		start := vlib.Pick(r, []int{0, 0, 1, 4, r.Intn(20)})
		tail := vlib.Pick(r, []int{0, 0, 1, 2, r.Intn(10)})
		data := append(append(r.Bytes(start), enc...), r.Bytes(tail)...)
		label := "index-read:valid"
		switch r.Intn(8) {
		case 0, 1: // valid as is
		case 2: // truncation
			if len(data) > start {
				data = data[:start+r.Intn(len(data)-start)]
				label = "index-read:truncated"
			}
		case 3, 4: // single byte mutation in the header / offset array
			if len(enc) > 2 {
				k := start + r.Intn(min(len(enc), 3+(count+1)*4))
				data[k] = vlib.Pick(r, []byte{0, 1, 2, 4, 5, 255, byte(r.Uint64())})
				label = "index-read:mutated"
			}
		case 5: // offSize replaced (0, 5, 255 ...)
			if count > 0 {
				data[start+2] = vlib.Pick(r, []byte{0, 2, 3, 4, 5, 8, 255})
				label = "index-read:offsize"
			}
		case 6: // last offset moved to the file-size boundary
			if count > 0 && enc[2] == 1 {
				k := start + 3 + count
				room := len(data) - (start + 3 + count + 1)
				data[k] = byte(room + vlib.Pick(r, []int{-1, 0, 1, 2}))
				label = "index-read:boundary"
			}
		case 7: // start beyond or near the end
			start = len(data) - r.Intn(4) + 1
			label = "index-read:start-at-end"
		}
		res := emit(run, indexReadLine(start, data), true, label)
		if res.impl == "err" {
			run.Hist["index-read=>err"]++
		} else {
			run.Hist["index-read=>ok"]++
		}
	}
	// (d) reader: random bytes biased to small counts
	n = vlib.Count(tier, 200, 6000)
	for i := 0; i < n; i++ {
		data := r.Bytes(r.Range(0, 40))
		if len(data) > 2 {
			data[0] = 0
			data[1] = byte(r.Intn(5))
			data[2] = byte(r.Intn(6))
		}
		for j := 3; j < len(data) && j < 12; j++ {
			if r.Bool() {
				data[j] = byte(r.Intn(len(data) + 2))
			}
		}
		res := emit(run, indexReadLine(0, data), len(data) > 3, "index-read:random")
		if res.impl == "err" {
			run.Hist["index-read=>err"]++
		} else {
			run.Hist["index-read=>ok"]++
		}
	}
}
