package c13

import (
	"fmt"
	"math"
	"sort"
	"strconv"
	"strings"

	"seehuhn.de/go/sfnt/cff"
	"seehuhn.de/go/sfnt/verifharness/vlib"
)

// ---- specification-side DICT reader (independent of the implementation) ----

type specOperand struct {
	isReal bool
	i      int64
	text   string  // decimal text of a real operand
	f      float64 // its value
}

type specEntry struct {
	op   int // two-byte operators as 0x0C00|b1
	args []specOperand
}

// specReal decodes the nibbles of a real operand (after the 0x1e byte).
func specReal(buf []byte) (text string, n int, ok bool) {
	var sb strings.Builder
	for i, b := range buf {
		for _, nib := range []byte{b >> 4, b & 15} {
			switch {
			case nib <= 9:
				sb.WriteByte('0' + nib)
			case nib == 0xa:
				sb.WriteByte('.')
			case nib == 0xb:
				sb.WriteByte('E')
			case nib == 0xc:
				sb.WriteString("E-")
			case nib == 0xd:
				return "", 0, false
			case nib == 0xe:
				sb.WriteByte('-')
			default:
				return sb.String(), i + 1, true
			}
		}
	}
	return "", 0, false
}

// specDict parses DICT data as the specification describes it.  ok is false
// for anything malformed (reserved bytes, truncated operands, operands
// without operator, reals that are not decimal numbers).
func specDict(buf []byte) (entries []specEntry, ok bool) {
	var stack []specOperand
	for len(buf) > 0 {
		b0 := buf[0]
		switch {
		case b0 == 12:
			if len(buf) < 2 {
				return nil, false
			}
			entries = append(entries, specEntry{0x0C00 | int(buf[1]), stack})
			stack = nil
			buf = buf[2:]
		case b0 <= 21:
			entries = append(entries, specEntry{int(b0), stack})
			stack = nil
			buf = buf[1:]
		case b0 == 28:
			if len(buf) < 3 {
				return nil, false
			}
			stack = append(stack, specOperand{i: int64(int16(uint16(buf[1])<<8 | uint16(buf[2])))})
			buf = buf[3:]
		case b0 == 29:
			if len(buf) < 5 {
				return nil, false
			}
			stack = append(stack, specOperand{i: int64(int32(uint32(buf[1])<<24 | uint32(buf[2])<<16 | uint32(buf[3])<<8 | uint32(buf[4])))})
			buf = buf[5:]
		case b0 == 30:
			text, n, ok := specReal(buf[1:])
			if !ok {
				return nil, false
			}
			f, err := strconv.ParseFloat(text, 64)
			if err != nil {
				return nil, false
			}
			stack = append(stack, specOperand{isReal: true, text: text, f: f})
			buf = buf[1+n:]
		case b0 >= 32 && b0 <= 246:
			stack = append(stack, specOperand{i: int64(b0) - 139})
			buf = buf[1:]
		case b0 >= 247 && b0 <= 250:
			if len(buf) < 2 {
				return nil, false
			}
			stack = append(stack, specOperand{i: (int64(b0)-247)*256 + int64(buf[1]) + 108})
			buf = buf[2:]
		case b0 >= 251 && b0 <= 254:
			if len(buf) < 2 {
				return nil, false
			}
			stack = append(stack, specOperand{i: -(int64(b0)-251)*256 - int64(buf[1]) - 108})
			buf = buf[2:]
		default:
			return nil, false
		}
	}
	if len(stack) > 0 {
		return nil, false
	}
	return entries, true
}

var stringOps = map[int]bool{0: true, 1: true, 0x0C00: true, 2: true, 3: true, 4: true,
	0x0C15: true, 0x0C16: true, 0x0C1E: true, 0x0C26: true}

// ---- observation of the implementation ----

var stdStringIndex map[string]int

func customStrings(n int) []string {
	out := make([]string, n)
	for i := range out {
		out[i] = fmt.Sprintf("~custom%d~", i)
	}
	return out
}

func sidOf(s string, nstr int) (int, bool) {
	if stdStringIndex == nil {
		stdStringIndex = map[string]int{}
		for i, t := range cff.VerifC13StdStrings() {
			stdStringIndex[t] = i
		}
	}
	if i, ok := stdStringIndex[s]; ok {
		return i, true
	}
	var k int
	if _, err := fmt.Sscanf(s, "~custom%d~", &k); err == nil && k >= 0 && k < nstr {
		return len(stdStringIndex) + k, true
	}
	return 0, false
}

func dictObservation(d map[uint16][]interface{}, nstr int) vlib.Sx {
	ops := make([]int, 0, len(d))
	for op := range d {
		ops = append(ops, int(op))
	}
	sort.Ints(ops)
	out := vlib.List{}
	for _, op := range ops {
		e := vlib.List{vlib.Int(op)}
		for _, a := range d[uint16(op)] {
			switch v := a.(type) {
			case int32:
				e = append(e, vlib.L(vlib.Atom("i"), vlib.I64(int64(v))))
			case float64:
				e = append(e, vlib.Atom("r"))
			case string:
				if sid, ok := sidOf(v, nstr); ok {
					e = append(e, vlib.L(vlib.Atom("s"), vlib.Int(sid)))
				} else {
					e = append(e, vlib.Atom("s?"))
				}
			default:
				e = append(e, vlib.Atom("?"))
			}
		}
		out = append(out, e)
	}
	return out
}

// clampReal is what the DICT reader documents for out-of-range reals.
func clampReal(x float64) float64 {
	switch {
	case x > 1e300:
		return 1e300
	case x > -1e-300 && x < 1e-300:
		return 0
	case x < -1e300:
		return -1e300
	}
	return x
}

func intSizeClass(a int64) int {
	switch {
	case a >= -107 && a <= 107:
		return 1
	case a >= -1131 && a <= 1131:
		return 2
	case a >= -32768 && a <= 32767:
		return 3
	}
	return 5
}

func init() {
	kinds["dict-int"] = func(items []vlib.Sx) (result, error) {
		if len(items) != 1 {
			return result{}, fmt.Errorf("dict-int: want 1 argument")
		}
		a64, err := vlib.AsI64(items[0])
		if err != nil || a64 < math.MinInt32 || a64 > math.MaxInt32 {
			return result{}, fmt.Errorf("dict-int: not an int32")
		}
		a := int32(a64)
		op := cff.VerifC13DictOp
		var enc []byte
		var dec map[uint16][]interface{}
		var derr error
		if p, what := safely(func() {
			enc = cff.VerifC13EncodeDict(map[uint16][]interface{}{op: {a}}, nil)
			dec, derr = cff.VerifC13DecodeDict(enc, nil)
		}); p {
			return result{impl: "panic", fail: "DICT integer codec panics: " + what, sig: "c13-dict-int-panic"}, nil
		}
		if len(enc) < 2 || enc[len(enc)-2] != 12 || enc[len(enc)-1] != byte(op) {
			return result{impl: "(bad-operator)", fail: "encoded DICT does not end with the operator", sig: "c13-dict-int"}, nil
		}
		body := enc[:len(enc)-2]
		var obs vlib.Sx = vlib.Atom("err")
		var got int32
		gotOK := false
		if derr == nil {
			if v, ok := dec[op]; ok && len(v) == 1 {
				if x, ok := v[0].(int32); ok {
					got, gotOK = x, true
					obs = vlib.L(vlib.Atom("i"), vlib.I64(int64(x)))
				}
			}
		}
		res := result{impl: vlib.Str(vlib.L(vlib.Hex(body), obs))}
		switch {
		case !gotOK || got != a:
			res.fail, res.sig = fmt.Sprintf("integer %d decodes as %v", a, obs), "c13-dict-int"
		case len(body) != intSizeClass(a64):
			res.fail, res.sig = fmt.Sprintf("integer %d uses %d bytes, the size class is %d", a, len(body), intSizeClass(a64)), "c13-dict-int-size"
		default:
			ents, ok := specDict(enc)
			if !ok || len(ents) != 1 || len(ents[0].args) != 1 || ents[0].args[0].isReal || ents[0].args[0].i != a64 {
				res.fail, res.sig = fmt.Sprintf("specification reader does not decode %d from % x", a, body), "c13-dict-int"
			}
		}
		return res, nil
	}

	kinds["offs-size"] = func(items []vlib.Sx) (result, error) {
		if len(items) != 1 {
			return result{}, fmt.Errorf("offs-size: want 1 argument")
		}
		a64, err := vlib.AsI64(items[0])
		if err != nil || a64 < math.MinInt32 || a64 > math.MaxInt32 {
			return result{}, fmt.Errorf("offs-size: not an int32")
		}
		k := int(cff.VerifC13OffsSize(int32(a64)))
		res := result{impl: strconv.Itoa(k)}
		if a64 >= 0 {
			want := 1
			for want < 4 && a64 >= 1<<(8*want) {
				want++
			}
			if k != want {
				res.fail, res.sig = fmt.Sprintf("offsSize(%d) = %d, minimal is %d", a64, k, want), "c13-offs-size"
			}
		}
		return res, nil
	}

	kinds["dict-dec"] = func(items []vlib.Sx) (result, error) {
		if len(items) != 2 {
			return result{}, fmt.Errorf("dict-dec: want 2 arguments")
		}
		nstr, err := vlib.AsInt(items[0])
		if err != nil {
			return result{}, err
		}
		data, err := vlib.AsBytes(items[1])
		if err != nil {
			return result{}, err
		}
		var dec map[uint16][]interface{}
		var derr error
		if p, what := safely(func() { dec, derr = cff.VerifC13DecodeDict(data, customStrings(nstr)) }); p {
			return result{impl: "panic", fail: "decodeDict panics: " + what, sig: "c13-dict-decode-panic"}, nil
		}
		ents, sok := specDict(data)
		// does the specification reader see a string operator with an
		// out-of-range or real operand?  (the implementation rejects those)
		strBad := false
		if sok {
			for _, e := range ents {
				if !stringOps[e.op] {
					continue
				}
				n := len(e.args)
				if e.op == 0x0C1E && n > 2 {
					n = 2
				}
				for _, a := range e.args[:n] {
					if a.isReal || a.i < 0 || a.i >= int64(391+nstr) {
						strBad = true
					}
				}
			}
		}
		if derr != nil {
			res := result{impl: "err"}
			if sok && !strBad {
				res.fail, res.sig = "decodeDict rejects a DICT that is well-formed by the specification: "+derr.Error(), "c13-dict-decode-rejects-valid"
			}
			return res, nil
		}
		res := result{impl: vlib.Str(vlib.L(vlib.Atom("ok"), dictObservation(dec, nstr)))}
		if sok {
			// last occurrence of an operator wins; compare values
			want := map[int][]specOperand{}
			for _, e := range ents {
				want[e.op] = e.args
			}
			if len(want) != len(dec) {
				res.fail, res.sig = "decodeDict and the specification reader see different operators", "c13-dict-decode-differs"
			}
			for op, args := range want {
				got := dec[uint16(op)]
				if len(got) != len(args) {
					res.fail, res.sig = "operand count differs from the specification reader", "c13-dict-decode-differs"
					break
				}
				for i, a := range args {
					switch v := got[i].(type) {
					case int32:
						if a.isReal || int64(v) != a.i {
							res.fail, res.sig = "integer operand differs from the specification reader", "c13-dict-decode-differs"
						}
					case float64:
						if !a.isReal || v != clampReal(a.f) {
							res.fail, res.sig = fmt.Sprintf("real operand %q decodes as %v", a.text, v), "c13-dict-real-value"
						}
					case string:
						sid, ok := sidOf(v, nstr)
						if a.isReal && ok && clampReal(a.f) == float64(sid) {
							// a real operand holding an exact string id is accepted
							break
						}
						if a.isReal || !ok || int64(sid) != a.i {
							res.fail, res.sig = "string operand differs from the specification reader", "c13-dict-decode-differs"
						}
					}
				}
			}
		}
		return res, nil
	}
}

// dictHasRealUnderStringOp reports whether a string operator has a real
// among the operands it converts (the model treats those by exact decimal
// arithmetic, the implementation by float64: such cases are oracle-only).
func dictHasRealUnderStringOp(data []byte) bool {
	// a lenient scan: operands are tracked as in specDict, malformed input
	// stops the scan
	var stack []bool // isReal
	buf := data
	for len(buf) > 0 {
		b0 := buf[0]
		var op = -1
		switch {
		case b0 == 12:
			if len(buf) < 2 {
				return false
			}
			op = 0x0C00 | int(buf[1])
			buf = buf[2:]
		case b0 <= 21:
			op = int(b0)
			buf = buf[1:]
		case b0 == 28:
			if len(buf) < 3 {
				return false
			}
			stack = append(stack, false)
			buf = buf[3:]
		case b0 == 29:
			if len(buf) < 5 {
				return false
			}
			stack = append(stack, false)
			buf = buf[5:]
		case b0 == 30:
			_, n, ok := specReal(buf[1:])
			if !ok {
				return false
			}
			stack = append(stack, true)
			buf = buf[1+n:]
		case b0 >= 32 && b0 <= 246:
			stack = append(stack, false)
			buf = buf[1:]
		case b0 >= 247 && b0 <= 254:
			if len(buf) < 2 {
				return false
			}
			stack = append(stack, false)
			buf = buf[2:]
		default:
			return false
		}
		if op >= 0 {
			if stringOps[op] {
				n := len(stack)
				if op == 0x0C1E && n > 2 {
					n = 2
				}
				for _, r := range stack[:n] {
					if r {
						return true
					}
				}
			}
			stack = nil
		}
	}
	return false
}

func genDict(run *vlib.Run, r *vlib.Rand, tier string) {
	// (a) integers: every boundary of the size classes and of int16/int32
	var vals []int64
	for _, c := range []int64{0, 107, 108, 1131, 1132, 32767, 32768, 65535, 65536, 1 << 24, math.MaxInt32, 363, 364, 619, 620, 875, 876, 255, 256} {
		for d := int64(-2); d <= 2; d++ {
			vals = append(vals, c+d, -c+d)
		}
	}
	vals = append(vals, math.MinInt32, math.MinInt32+1)
	seen := map[int64]bool{}
	for _, v := range vals {
		if v < math.MinInt32 || v > math.MaxInt32 || seen[v] {
			continue
		}
		seen[v] = true
		emit(run, vlib.Line(vlib.Atom("dict-int"), vlib.I64(v)), true, "dict-int", fmt.Sprintf("dict-int-size:%d", intSizeClass(v)))
	}
	// every value of the one- and two-byte forms (thorough: and of the int16 form)
	lim := int64(1200)
	if tier == "thorough" {
		lim = 33000
	}
	for v := -lim; v <= lim; v++ {
		if seen[v] {
			continue
		}
		emit(run, vlib.Line(vlib.Atom("dict-int"), vlib.I64(v)), true, "dict-int", fmt.Sprintf("dict-int-size:%d", intSizeClass(v)))
	}
	n := vlib.Count(tier, 300, 20000)
	for i := 0; i < n; i++ {
		var v int64
		switch r.Intn(3) {
		case 0:
			v = int64(int32(r.Uint64()))
		case 1:
			v = int64(int16(r.Uint64()))
		default:
			v = int64(int32(r.Uint64())) >> uint(r.Intn(24))
		}
		emit(run, vlib.Line(vlib.Atom("dict-int"), vlib.I64(v)), true, "dict-int", fmt.Sprintf("dict-int-size:%d", intSizeClass(v)))
	}
	// offsSize
	for _, c := range []int64{0, 1, 255, 256, 65535, 65536, 1<<24 - 1, 1 << 24, math.MaxInt32, -1, math.MinInt32} {
		emit(run, vlib.Line(vlib.Atom("offs-size"), vlib.I64(c)), true, "offs-size")
	}
	for i := 0; i < vlib.Count(tier, 40, 2000); i++ {
		emit(run, vlib.Line(vlib.Atom("offs-size"), vlib.I64(int64(int32(r.Uint64()))>>uint(r.Intn(31)))), true, "offs-size")
	}

	// (b) whole DICTs: structured, then mutated
	n = vlib.Count(tier, 500, 15000)
	for i := 0; i < n; i++ {
		nstr := vlib.Pick(r, []int{0, 0, 1, 3, 10})
		data := randDictBytes(r, nstr)
		label := "dict-dec:structured"
		switch r.Intn(6) {
		case 0: // truncation
			if len(data) > 0 {
				data = data[:r.Intn(len(data))]
				label = "dict-dec:truncated"
			}
		case 1, 2: // byte mutation
			if len(data) > 0 {
				data[r.Intn(len(data))] = vlib.Pick(r, []byte{12, 22, 27, 28, 29, 30, 31, 255, 0x1e, 0xff, 0xdf, 0xfd, byte(r.Uint64())})
				label = "dict-dec:mutated"
			}
		case 3: // random bytes
			data = r.Bytes(r.Range(0, 24))
			label = "dict-dec:random"
		}
		line := vlib.Line(vlib.Atom("dict-dec"), vlib.Int(nstr), vlib.Hex(data))
		if dictHasRealUnderStringOp(data) {
			line = "!" + line
			label = "dict-dec:real-under-string-op(oracle-only)"
		}
		res := emit(run, line, len(data) > 0, label)
		if res.impl == "err" {
			run.Hist["dict-dec=>err"]++
		} else {
			run.Hist["dict-dec=>ok"]++
		}
	}
}

// randDictBytes writes a DICT from the specification's operand forms.
func randDictBytes(r *vlib.Rand, nstr int) []byte {
	var out []byte
	nops := r.Range(0, 6)
	for i := 0; i < nops; i++ {
		op := vlib.Pick(r, []int{0, 1, 2, 3, 4, 5, 6, 7, 10, 11, 15, 16, 17, 18, 19, 20, 21,
			0x0C00, 0x0C01, 0x0C02, 0x0C03, 0x0C07, 0x0C09, 0x0C15, 0x0C1E, 0x0C22, 0x0C24, 0x0C26, 0x0CFF, 0x0C00 | r.Intn(256)})
		nargs := vlib.Pick(r, []int{0, 1, 1, 1, 2, 3, 6, r.Intn(10)})
		for j := 0; j < nargs; j++ {
			if stringOps[op] && r.Chance(4, 5) {
				out = appendSpecInt(out, int64(vlib.Pick(r, []int{0, 1, 390, 391, 391 + nstr - 1, 391 + nstr, r.Intn(400 + nstr), -1})))
				continue
			}
			switch r.Intn(5) {
			case 0, 1, 2:
				out = appendSpecInt(out, int64(int32(r.Uint64()))>>uint(r.Intn(31)))
			default:
				out = append(out, 30)
				out = append(out, randRealNibbles(r)...)
			}
		}
		if op >= 0x0C00 {
			out = append(out, 12, byte(op))
		} else {
			out = append(out, byte(op))
		}
	}
	return out
}

// appendSpecInt writes an integer operand in the shortest form the
// specification allows (sometimes a longer one, which readers must accept).
func appendSpecInt(out []byte, v int64) []byte {
	switch {
	case v >= -107 && v <= 107:
		return append(out, byte(v+139))
	case v >= 108 && v <= 1131:
		w := v - 108
		return append(out, byte(w>>8)+247, byte(w))
	case v >= -1131 && v <= -108:
		w := -v - 108
		return append(out, byte(w>>8)+251, byte(w))
	case v >= -32768 && v <= 32767:
		return append(out, 28, byte(v>>8), byte(v))
	}
	return append(out, 29, byte(v>>24), byte(v>>16), byte(v>>8), byte(v))
}

// randRealNibbles produces nibble-coded reals: mostly well-formed decimal
// numbers, sometimes with misplaced signs, points and exponents, and
// exponents around the float64 overflow threshold.
func randRealNibbles(r *vlib.Rand) []byte {
	var nib []byte
	digits := func(n int) {
		for i := 0; i < n; i++ {
			nib = append(nib, byte(r.Intn(10)))
		}
	}
	if r.Chance(1, 3) {
		nib = append(nib, 0xe)
	}
	digits(r.Range(0, 4))
	if r.Chance(1, 2) {
		nib = append(nib, 0xa)
		digits(r.Range(0, 5))
	}
	if r.Chance(1, 2) {
		nib = append(nib, vlib.Pick(r, []byte{0xb, 0xc}))
		switch r.Intn(4) {
		case 0:
			for _, c := range strconv.Itoa(vlib.Pick(r, []int{290, 300, 305, 306, 307, 308, 309, 310, 320, 400})) {
				nib = append(nib, byte(c-'0'))
			}
		default:
			digits(r.Range(0, 3))
		}
	}
	if r.Chance(1, 8) {
		// damage: an extra special nibble somewhere
		k := r.Intn(len(nib) + 1)
		nib = append(nib[:k], append([]byte{vlib.Pick(r, []byte{0xa, 0xb, 0xc, 0xd, 0xe})}, nib[k:]...)...)
	}
	nib = append(nib, 0xf)
	if len(nib)%2 == 1 {
		nib = append(nib, vlib.Pick(r, []byte{0xf, 0xf, 0xf, byte(r.Intn(16))}))
	}
	out := make([]byte, len(nib)/2)
	for i := range out {
		out[i] = nib[2*i]<<4 | nib[2*i+1]
	}
	return out
}
