package main

import (
	"seehuhn.de/go/sfnt/verifharness/c13"
	"seehuhn.de/go/sfnt/verifharness/vlib"
)

func main() { vlib.Main(c13.Gen, c13.RunCase) }
