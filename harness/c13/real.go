package c13

import (
	"bytes"
	"fmt"
	"math"
	"strconv"
	"strings"

	"seehuhn.de/go/sfnt/cff"
	"seehuhn.de/go/sfnt/verifharness/vlib"
)

// decimalFloat returns the float64 nearest to +-0.d1d2...dm * 10^l.
func decimalFloat(neg bool, digits []int, l int) (float64, string, error) {
	var sb strings.Builder
	if neg {
		sb.WriteByte('-')
	}
	sb.WriteString("0.")
	for _, d := range digits {
		sb.WriteByte(byte('0' + d))
	}
	fmt.Fprintf(&sb, "e%d", l)
	x, err := strconv.ParseFloat(sb.String(), 64)
	return x, sb.String(), err
}

// realOracle checks one encoded real against the property: the nibbles are
// well-formed by the specification, and both the specification reader and
// decodeFloat return want.
func realOracle(enc []byte, want float64) string {
	text, n, ok := specReal(enc)
	if !ok || n != len(enc) {
		return "encoded real is not a well-formed nibble string"
	}
	sv, err := strconv.ParseFloat(text, 64)
	if err != nil {
		return "encoded real is not a decimal number: " + text
	}
	if sv != want {
		return fmt.Sprintf("encoded real reads %q = %v, expected %v", text, sv, want)
	}
	var used int
	var got float64
	var derr error
	if p, what := safely(func() { used, got, derr = cff.VerifC13DecodeFloat(append(append([]byte(nil), enc...), 0x12, 0x34)) }); p {
		return "decodeFloat panics: " + what
	}
	if derr != nil || used != len(enc) || got != clampReal(want) {
		return fmt.Sprintf("decodeFloat returns %v (%d bytes, err %v), expected %v", got, used, derr, want)
	}
	return ""
}

func init() {
	// real-layout neg (d1 ... dm) l : the real +-0.d1...dm * 10^l, digits
	// without trailing zero; the implementation encodes the nearest float64
	kinds["real-layout"] = func(items []vlib.Sx) (result, error) {
		if len(items) != 3 {
			return result{}, fmt.Errorf("real-layout: want 3 arguments")
		}
		neg, err := vlib.AsBool(items[0])
		if err != nil {
			return result{}, err
		}
		digits, err := vlib.AsInts(items[1])
		if err != nil {
			return result{}, err
		}
		l, err := vlib.AsInt(items[2])
		if err != nil {
			return result{}, err
		}
		if len(digits) < 1 || len(digits) > 9 || digits[0] == 0 || digits[len(digits)-1] == 0 {
			return result{}, fmt.Errorf("real-layout: digits must be 1..9 digits without leading/trailing zero")
		}
		x, text, err := decimalFloat(neg, digits, l)
		if err != nil || math.Abs(x) < 1e-300 || math.Abs(x) > 1e300 {
			return result{}, fmt.Errorf("real-layout: %s is outside the range 1e-300..1e300 of DICT reals", text)
		}
		var enc []byte
		if p, what := safely(func() { enc = cff.VerifC13EncodeFloat(x) }); p {
			return result{impl: "panic", fail: "encodeFloat panics: " + what, sig: "c13-real-encode-panic"}, nil
		}
		res := result{impl: vlib.Str(vlib.Hex(enc))}
		if msg := realOracle(enc, x); msg != "" {
			res.fail, res.sig = text+": "+msg, "c13-dict-real-value"
		}
		return res, nil
	}

	// real-any bits : an arbitrary float64 (oracle only): the decoded value
	// agrees with x to nine significant digits
	kinds["real-any"] = func(items []vlib.Sx) (result, error) {
		if len(items) != 1 {
			return result{}, fmt.Errorf("real-any: want 1 argument")
		}
		a, err := vlib.AsAtom(items[0])
		if err != nil {
			return result{}, err
		}
		bits, err := strconv.ParseUint(a, 10, 64)
		if err != nil {
			return result{}, err
		}
		x := math.Float64frombits(bits)
		var enc []byte
		var used int
		var got float64
		var derr error
		if p, what := safely(func() {
			enc = cff.VerifC13EncodeFloat(x)
			used, got, derr = cff.VerifC13DecodeFloat(enc)
		}); p {
			sig := "c13-real-encode-panic"
			if strings.HasPrefix(what, "hang") {
				sig = "c13-real-encode-hang"
			}
			return result{impl: "panic", fail: "real codec: " + what, sig: sig}, nil
		}
		res := result{impl: vlib.Str(vlib.Hex(enc))}
		if derr != nil || used != len(enc) {
			res.fail, res.sig = fmt.Sprintf("%v: encoded real % x is not read back (err %v)", x, enc, derr), "c13-dict-real-value"
			return res, nil
		}
		if x == 0 || math.IsNaN(x) || math.IsInf(x, 0) {
			if got != 0 {
				res.fail, res.sig = fmt.Sprintf("%v decodes as %v", x, got), "c13-dict-real-value"
			}
			return res, nil
		}
		// nine significant digits, correctly rounded
		want, _ := strconv.ParseFloat(strconv.FormatFloat(x, 'e', 8, 64), 64)
		want = clampReal(want)
		if got != want {
			// one unit in the ninth digit is still "the same to nine digits"
			// only if it is the neighbouring 9-digit decimal of x
			ulp := math.Pow(10, math.Floor(math.Log10(math.Abs(x)))-8)
			if math.Abs(got-clampReal(x)) > 0.50001*ulp && !(math.Abs(x) > 1e300 || math.Abs(x) < 1e-300) {
				res.fail, res.sig = fmt.Sprintf("%v decodes as %v, nine-digit rounding gives %v", x, got, want), "c13-dict-real-value"
			} else {
				res.sig = "differs-from-strconv"
			}
		}
		return res, nil
	}
}

func realLayoutLine(neg bool, digits []int, l int) string {
	return vlib.Line(vlib.Atom("real-layout"), vlib.Bool(neg), vlib.Ints(digits), vlib.Int(l))
}

func randDigits(r *vlib.Rand, m int) []int {
	d := make([]int, m)
	for i := range d {
		d[i] = r.Intn(10)
	}
	d[0] = r.Range(1, 9)
	d[m-1] = r.Range(1, 9)
	return d
}

func genReal(run *vlib.Run, r *vlib.Rand, tier string) {
	branch := func(m, l int) string {
		switch {
		case l > m+2:
			return "real:exp+"
		case l == m+2:
			return "real:00"
		case l == m+1:
			return "real:0"
		case l == m:
			return "real:integer"
		case l > 0:
			return "real:point-inside"
		case l == 0:
			return "real:.digits"
		case l == -1:
			return "real:.0digits"
		}
		return "real:exp-"
	}
	// every layout branch for every digit count
	for m := 1; m <= 9; m++ {
		for _, l := range []int{-299, -20, -3, -2, -1, 0, 1, m - 1, m, m + 1, m + 2, m + 3, m + 4, 20, 99, 100, 101, 300} {
			for _, neg := range []bool{false, true} {
				d := randDigits(r, m)
				emit(run, realLayoutLine(neg, d, l), true, "real-layout", branch(m, l), fmt.Sprintf("real-digits:%d", m))
			}
		}
	}
	// digit patterns: all nines, powers of ten, inner zeros
	for _, d := range [][]int{{1}, {9}, {9, 9, 9, 9, 9, 9, 9, 9, 9}, {1, 0, 0, 0, 0, 0, 0, 0, 1}, {1, 0, 1}, {5}, {3, 9, 6, 2, 5}} {
		for _, l := range []int{-5, -1, 0, 1, 2, 3, 9, 10, 11, 12, 13, 300, -299} {
			emit(run, realLayoutLine(false, d, l), true, "real-layout", branch(len(d), l), fmt.Sprintf("real-digits:%d", len(d)))
		}
	}
	n := vlib.Count(tier, 800, 30000)
	for i := 0; i < n; i++ {
		m := r.Range(1, 9)
		l := vlib.Pick(r, []int{r.Range(-4, 14), r.Range(-4, 14), r.Range(-299, 300), m + r.Range(-3, 4)})
		d := randDigits(r, m)
		emit(run, realLayoutLine(r.Bool(), d, l), true, "real-layout", branch(m, l), fmt.Sprintf("real-digits:%d", m))
	}
	// arbitrary float64 values (oracle only)
	n = vlib.Count(tier, 1500, 60000)
	specials := []float64{0, math.Copysign(0, -1), math.NaN(), math.Inf(1), math.Inf(-1), math.MaxFloat64, math.SmallestNonzeroFloat64,
		1e300, 1.0000001e300, 1e-300, 9.9999999e-301, 0.039625, 0.001, 1e-5, 999999999.5, 99999999.95, 0.1, 1.0 / 3, 123456789, 1234567890, 0.5, 1e22, 1e23}
	for _, x := range specials {
		emit(run, "!"+vlib.Line(vlib.Atom("real-any"), vlib.U64(math.Float64bits(x))), true, "real-any:special")
	}
	for i := 0; i < n; i++ {
		var x float64
		switch r.Intn(4) {
		case 0:
			x = math.Float64frombits(r.Uint64())
		case 1:
			x = (float64(r.Uint64()>>11) / (1 << 53)) * math.Pow(10, float64(r.Range(-8, 12)))
		case 2:
			x = float64(int64(r.Uint64()>>uint(r.Range(1, 60)))) / float64(int64(1)<<uint(r.Intn(20)))
		default:
			// halfway between two nine-digit decimals
			x = (float64(r.Range(100000000, 999999998)) + 0.5) * math.Pow(10, float64(r.Range(-12, 6)))
		}
		if r.Bool() {
			x = -x
		}
		res := emit(run, "!"+vlib.Line(vlib.Atom("real-any"), vlib.U64(math.Float64bits(x))), true, "real-any")
		if res.sig == "differs-from-strconv" && res.fail == "" {
			run.Hist["real-any:ninth-digit-differs-from-strconv"]++
		}
	}
	_ = bytes.Equal
}
