// Package c13 drives the CFF codecs of seehuhn.de/go/sfnt/cff (INDEX, DICT
// operands, charset, encoding, FDSelect, the offset layout of Font.Write and
// the width coding) through the verif hooks and the public API, and records
// the observations in the syntax the Coq model prints.  The oracles state the
// property directly: per-codec round trips, an independent CFF walker written
// from the specification, and field-by-field comparison of cff.Font values
// across Write/Read.
package c13

import (
	"fmt"
	"strings"
	"time"

	"seehuhn.de/go/sfnt/verifharness/vlib"
)

// result of executing one case line on the implementation
type result struct {
	impl string // observation in the model's output syntax
	fail string // non-empty: the property oracle failed
	sig  string // stable signature of the failure
}

type kindFn func(items []vlib.Sx) (result, error)

var kinds = map[string]kindFn{}

// exec re-executes exactly one case line.
func exec(line string) (result, error) {
	line = strings.TrimPrefix(line, "!")
	items, err := vlib.Parse(line)
	if err != nil {
		return result{}, err
	}
	if len(items) == 0 {
		return result{}, fmt.Errorf("empty case")
	}
	k, err := vlib.AsAtom(items[0])
	if err != nil {
		return result{}, err
	}
	f, ok := kinds[k]
	if !ok {
		return result{}, fmt.Errorf("unknown case kind %q", k)
	}
	return f(items[1:])
}

// RunCase re-executes one case line (corpus entries and replays).
func RunCase(line string) (impl, fail, sig string, err error) {
	r, err := exec(line)
	return r.impl, r.fail, r.sig, err
}

// emit runs a case line and records it.
func emit(run *vlib.Run, line string, nontrivial bool, labels ...string) result {
	r, err := exec(line)
	if err != nil {
		panic(fmt.Sprintf("generator produced a bad case line (%v): %.200s", err, line))
	}
	idx := run.Add(line, r.impl, nontrivial, labels...)
	if r.fail != "" {
		run.Fail(idx, line, r.fail, r.sig)
	}
	return r
}

// safely runs f and reports whether it panicked or did not come back within
// 20 seconds (the goroutine of a hanging call is abandoned).
func safely(f func()) (bad bool, what string) {
	done := make(chan string, 1)
	go func() {
		defer func() {
			if e := recover(); e != nil {
				done <- "panic: " + fmt.Sprint(e)
			}
		}()
		f()
		done <- ""
	}()
	select {
	case w := <-done:
		return w != "", w
	case <-time.After(20 * time.Second):
		return true, "hang: no result after 20 s"
	}
}

func hexList(bs [][]byte) vlib.Sx {
	l := make(vlib.List, len(bs))
	for i, b := range bs {
		l[i] = vlib.Hex(b)
	}
	return l
}

func asHexList(x vlib.Sx) ([][]byte, error) {
	l, err := vlib.AsList(x)
	if err != nil {
		return nil, err
	}
	out := make([][]byte, len(l))
	for i, y := range l {
		out[i], err = vlib.AsBytes(y)
		if err != nil {
			return nil, err
		}
	}
	return out, nil
}

func okHex(b []byte) string { return vlib.Str(vlib.L(vlib.Atom("ok"), vlib.Hex(b))) }

// Gen writes the run for the given tier.
func Gen(run *vlib.Run, seed uint64, tier string) {
	run.Rule = "one case per codec call, crafted file or whole font (written, walked, read back, compared field by field); " +
		"non-trivial = the case exercises a data-dependent choice or check: INDEX with >=1 entry, DICT with >=1 byte, " +
		"charset/encoding/FDSelect with >=2 glyphs, reader input that gets past its header, every real, width and font case; " +
		"distinct by case line"
	r := vlib.NewRand(seed)
	genIndex(run, r.Fork("index"), tier)
	genDict(run, r.Fork("dict"), tier)
	genCharset(run, r.Fork("charset"), tier)
	genEncoding(run, r.Fork("encoding"), tier)
	genFDSelect(run, r.Fork("fdselect"), tier)
	genReal(run, r.Fork("real"), tier)
	genFonts(run, r.Fork("fonts"), tier)
	genAlloc(run, r.Fork("alloc"), tier)
	genPredefined(run, r.Fork("predefined"), tier)
	genFontMatrix(run, r.Fork("fontmatrix"), tier)
}
