package c13

import (
	"bytes"
	"fmt"
	"math"

	"seehuhn.de/go/geom/matrix"
	"seehuhn.de/go/postscript/cid"
	"seehuhn.de/go/postscript/type1"

	"seehuhn.de/go/sfnt/cff"
	"seehuhn.de/go/sfnt/glyph"
	"seehuhn.de/go/sfnt/verifharness/vlib"
)

// fontMatrixEntries finds the FontMatrix operator (12 7) in the Top DICT and
// in the Font DICTs of a written font.
func fontMatrixEntries(data []byte) (top bool, fds []bool, ok bool) {
	_, p2, ok1 := specIndex(data, 4)
	tops, _, ok2 := specIndex(data, p2)
	if !ok1 || !ok2 || len(tops) != 1 {
		return false, nil, false
	}
	td, ok3 := sizedDict(tops[0])
	if !ok3 {
		return false, nil, false
	}
	_, top = td[0x0C07]
	if fa, has := intOperand(td, 0x0C24, 1, 0); has {
		blobs, _, ok4 := specIndex(data, int(fa.v))
		if !ok4 {
			return false, nil, false
		}
		for _, b := range blobs {
			fd, ok5 := sizedDict(b)
			if !ok5 {
				return false, nil, false
			}
			_, w := fd[0x0C07]
			fds = append(fds, w)
		}
	}
	return top, fds, true
}

func micro(m matrix.Matrix) (vlib.Sx, bool) {
	l := vlib.List{}
	exact := true
	for _, x := range m {
		v := math.Round(x * 1e6)
		if math.Abs(v-x*1e6) > 1e-6 {
			exact = false
		}
		l = append(l, vlib.I64(int64(v)))
	}
	return l, exact
}

func init() {
	// fontmatrix place (e0 .. e5): entries in units of 1e-6; place = top-simple,
	// top-cid or fd.  Observation: is the FontMatrix entry written, and the
	// matrix read back.
	kinds["fontmatrix"] = func(items []vlib.Sx) (result, error) {
		if len(items) != 2 {
			return result{}, fmt.Errorf("fontmatrix: want 2 arguments")
		}
		place, err := vlib.AsAtom(items[0])
		if err != nil {
			return result{}, err
		}
		es, err := vlib.AsInts(items[1])
		if err != nil || len(es) != 6 {
			return result{}, fmt.Errorf("fontmatrix: want 6 entries")
		}
		var fm matrix.Matrix
		for i, e := range es {
			fm[i] = float64(e) / 1e6
		}
		f := &cff.Font{
			FontInfo: &type1.FontInfo{FontName: "M", FontMatrix: matrix.Matrix{0.001, 0, 0, 0.001, 0, 0},
				UnderlinePosition: -100, UnderlineThickness: 50},
			Outlines: &cff.Outlines{Private: []*type1.PrivateDict{{BlueScale: 0.039625, BlueShift: 7, BlueFuzz: 1}}},
		}
		for i := 0; i < 4; i++ {
			f.Glyphs = append(f.Glyphs, &cff.Glyph{Name: fmt.Sprintf("g%d", i), Width: 500 + float64(i)})
		}
		f.Glyphs[0].Name = ".notdef"
		makeCID := func() {
			for _, g := range f.Glyphs {
				g.Name = ""
			}
			f.ROS = &cid.SystemInfo{Registry: "Adobe", Ordering: "Identity"}
			f.GIDToCID = []cid.CID{0, 1, 2, 3}
			f.Private = append(f.Private, &type1.PrivateDict{BlueScale: 0.039625, BlueShift: 7, BlueFuzz: 1})
			f.FontMatrices = []matrix.Matrix{{0.0005, 0, 0, 0.0005, 0, 0}, {0.0005, 0, 0, 0.0005, 0, 0}}
			f.FDSelect = func(g glyph.ID) int { return int(g) % 2 }
			f.FontInfo.FontMatrix = matrix.Identity
		}
		switch place {
		case "top-simple":
			f.FontInfo.FontMatrix = fm
		case "top-cid":
			makeCID()
			f.FontInfo.FontMatrix = fm
		case "fd":
			makeCID()
			f.FontMatrices[1] = fm
		default:
			return result{}, fmt.Errorf("fontmatrix: bad place %q", place)
		}
		var buf bytes.Buffer
		var g *cff.Font
		var werr, rerr error
		if p, what := safely(func() {
			werr = f.Write(&buf)
			if werr == nil {
				g, rerr = cff.Read(bytes.NewReader(buf.Bytes()))
			}
		}); p {
			return result{impl: "panic", fail: "Font.Write / cff.Read: " + what, sig: "c13-font-write-panic"}, nil
		}
		if werr != nil || rerr != nil {
			return result{impl: "err", fail: fmt.Sprintf("write/read fails: %v %v", werr, rerr), sig: "c13-font-write-rejects"}, nil
		}
		top, fds, ok := fontMatrixEntries(buf.Bytes())
		if !ok {
			return result{impl: "(unparsed)", fail: "written font does not parse", sig: "c13-font-structure"}, nil
		}
		written := top
		back := g.FontInfo.FontMatrix
		if place == "fd" {
			if len(fds) != 2 || len(g.FontMatrices) != 2 {
				return result{impl: "(no-fd)", fail: "font DICTs missing", sig: "c13-font-structure"}, nil
			}
			written, back = fds[1], g.FontMatrices[1]
		}
		bsx, exact := micro(back)
		if !exact {
			bsx = vlib.Atom("inexact")
		}
		res := result{impl: vlib.Str(vlib.L(vlib.Atom("written"), vlib.Bool(written), bsx))}
		if !sameMatrix(fm, back) {
			res.fail, res.sig = fmt.Sprintf("%s FontMatrix %v read back as %v", place, fm, back), "c13-font-roundtrip:fontmatrix-"+place
		}
		return res, nil
	}
}

func genFontMatrix(run *vlib.Run, r *vlib.Rand, tier string) {
	pool := [][]int{
		{1000000, 0, 0, 1000000, 0, 0}, // identity
		{1000, 0, 0, 1000, 0, 0},       // the simple-font / Font DICT default
		{500, 0, 0, 500, 0, 0},
		{2000, 0, 100, 2000, 0, 0},
		{1250000, 0, 0, 1250000, 0, 0},
		{1000, 0, 0, 1000, 0, 1},
		{1000000, 0, 0, 1000000, 1, 0},
		{1001, 0, 0, 1000, 0, 0},
	}
	for _, place := range []string{"top-simple", "top-cid", "fd"} {
		for _, m := range pool {
			emit(run, vlib.Line(vlib.Atom("fontmatrix"), vlib.Atom(place), vlib.Ints(m)), true, "fontmatrix:"+place)
		}
	}
	for i := 0; i < vlib.Count(tier, 30, 600); i++ {
		m := append([]int(nil), vlib.Pick(r, pool)...)
		if r.Chance(1, 2) {
			m[r.Intn(6)] = vlib.Pick(r, []int{0, 1, 1000, 1000000, 999, 1000001, r.Intn(3000)})
		}
		place := vlib.Pick(r, []string{"top-simple", "top-cid", "fd"})
		emit(run, vlib.Line(vlib.Atom("fontmatrix"), vlib.Atom(place), vlib.Ints(m)), true, "fontmatrix:"+place)
	}
}
