module seehuhn.de/go/sfnt/verifharness

go 1.23.2

require (
	github.com/google/go-cmp v0.6.0
	golang.org/x/image v0.18.0
	golang.org/x/text v0.16.0
	seehuhn.de/go/geom v0.0.0-20250115091222-3cab61c7096a
	seehuhn.de/go/postscript v0.5.1-0.20250316102127-8863e3a3d4c4
	seehuhn.de/go/sfnt v0.0.0
)

require (
	golang.org/x/exp v0.0.0-20240409090435-93d18d7e34b8 // indirect
	seehuhn.de/go/dijkstra v0.9.3 // indirect
)

replace seehuhn.de/go/sfnt => /repo
