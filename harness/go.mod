module seehuhn.de/go/sfnt/verifharness

go 1.23.2

require seehuhn.de/go/sfnt v0.0.0

replace seehuhn.de/go/sfnt => /repo
