package vlib

import (
	"bufio"
	"fmt"
	"os"
	"strconv"
	"strings"
)

// GenFunc generates the cases of one run; RunCaseFunc re-executes one case
// line (corpus entries and replays) and reports the oracle's verdict.
type GenFunc func(run *Run, seed uint64, tier string)
type RunCaseFunc func(line string) (impl, fail, sig string, err error)

// Main is the entry point of every per-property harness binary:
//
//	vh-Cxx gen <outdir> <seed> <tier>     generate cases, run implementation + oracle
//	vh-Cxx cases <file> <outdir>          run the given case lines (corpus, replays)
func Main(gen GenFunc, runCase RunCaseFunc) {
	if len(os.Args) < 2 {
		usage()
	}
	switch os.Args[1] {
	case "gen":
		if len(os.Args) != 5 {
			usage()
		}
		seed, err := strconv.ParseUint(os.Args[3], 10, 64)
		check(err)
		run, err := NewRun(os.Args[2])
		check(err)
		gen(run, seed, os.Args[4])
		check(run.Close())
	case "cases":
		if len(os.Args) != 4 {
			usage()
		}
		f, err := os.Open(os.Args[2])
		check(err)
		defer f.Close()
		run, err := NewRun(os.Args[3])
		check(err)
		run.Rule = "replayed case lines"
		sc := bufio.NewScanner(f)
		sc.Buffer(make([]byte, 1<<20), 1<<30)
		for sc.Scan() {
			line := strings.TrimSpace(sc.Text())
			if line == "" || line[0] == '#' {
				continue
			}
			impl, fail, sig, err := runCase(line)
			if err != nil {
				fmt.Fprintln(os.Stderr, "bad case line:", err)
				os.Exit(2)
			}
			idx := run.Add(line, impl, true, "replayed")
			if fail != "" {
				run.Fail(idx, line, fail, sig)
			}
		}
		check(sc.Err())
		check(run.Close())
	default:
		usage()
	}
}

func usage() {
	fmt.Fprintln(os.Stderr, "usage: vh-Cxx gen <outdir> <seed> <tier> | vh-Cxx cases <file> <outdir>")
	os.Exit(2)
}

func check(err error) {
	if err != nil {
		fmt.Fprintln(os.Stderr, err)
		os.Exit(2)
	}
}
