package vlib

import (
	"encoding/hex"
	"fmt"
	"strconv"
)

// Parse reads the top-level items of a case line.
func Parse(s string) ([]Sx, error) {
	p := &sxParser{s: s}
	items, err := p.items(false)
	return items, err
}

type sxParser struct {
	s   string
	pos int
}

func (p *sxParser) items(closing bool) ([]Sx, error) {
	var out []Sx
	for {
		for p.pos < len(p.s) && (p.s[p.pos] == ' ' || p.s[p.pos] == '\t' || p.s[p.pos] == '\n' || p.s[p.pos] == '\r') {
			p.pos++
		}
		if p.pos >= len(p.s) {
			if closing {
				return nil, fmt.Errorf("unbalanced (")
			}
			return out, nil
		}
		switch p.s[p.pos] {
		case ')':
			if !closing {
				return nil, fmt.Errorf("unbalanced )")
			}
			p.pos++
			return out, nil
		case '(':
			p.pos++
			l, err := p.items(true)
			if err != nil {
				return nil, err
			}
			out = append(out, List(l))
		default:
			st := p.pos
			for p.pos < len(p.s) && p.s[p.pos] != ' ' && p.s[p.pos] != '(' && p.s[p.pos] != ')' && p.s[p.pos] != '\t' && p.s[p.pos] != '\n' && p.s[p.pos] != '\r' {
				p.pos++
			}
			out = append(out, Atom(p.s[st:p.pos]))
		}
	}
}

func AsAtom(x Sx) (string, error) {
	a, ok := x.(Atom)
	if !ok {
		return "", fmt.Errorf("atom expected")
	}
	return string(a), nil
}

func AsList(x Sx) ([]Sx, error) {
	l, ok := x.(List)
	if !ok {
		return nil, fmt.Errorf("list expected, got %s", Str(x))
	}
	return []Sx(l), nil
}

func AsInt(x Sx) (int, error) {
	a, err := AsAtom(x)
	if err != nil {
		return 0, err
	}
	return strconv.Atoi(a)
}

func AsI64(x Sx) (int64, error) {
	a, err := AsAtom(x)
	if err != nil {
		return 0, err
	}
	return strconv.ParseInt(a, 10, 64)
}

func AsBool(x Sx) (bool, error) {
	a, err := AsAtom(x)
	if err != nil {
		return false, err
	}
	return a == "1" || a == "true", nil
}

func AsBytes(x Sx) ([]byte, error) {
	a, err := AsAtom(x)
	if err != nil {
		return nil, err
	}
	if len(a) == 0 || a[0] != 'x' {
		return nil, fmt.Errorf("hex atom expected")
	}
	return hex.DecodeString(a[1:])
}

func AsInts(x Sx) ([]int, error) {
	l, err := AsList(x)
	if err != nil {
		return nil, err
	}
	out := make([]int, len(l))
	for i, y := range l {
		out[i], err = AsInt(y)
		if err != nil {
			return nil, err
		}
	}
	return out, nil
}
