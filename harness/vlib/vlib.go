// Package vlib holds what every property harness shares: the PRNG all random
// choices derive from, S-expression printing of cases and observations, and
// the run record (cases, implementation observations, oracle failures,
// distribution statistics) written for the check driver.
package vlib

import (
	"crypto/sha256"
	"encoding/hex"
	"encoding/json"
	"fmt"
	"os"
	"path/filepath"
	"sort"
	"strconv"
	"strings"
)

// Rand is SplitMix64.
type Rand struct{ s uint64 }

func NewRand(seed uint64) *Rand { return &Rand{s: seed} }

func (r *Rand) Uint64() uint64 {
	r.s += 0x9E3779B97F4A7C15
	z := r.s
	z = (z ^ (z >> 30)) * 0xBF58476D1CE4E5B9
	z = (z ^ (z >> 27)) * 0x94D049BB133111EB
	return z ^ (z >> 31)
}

// Intn returns a value in [0, n).
func (r *Rand) Intn(n int) int {
	if n <= 0 {
		return 0
	}
	return int(r.Uint64() % uint64(n))
}

// Range returns a value in [lo, hi].
func (r *Rand) Range(lo, hi int) int { return lo + r.Intn(hi-lo+1) }

func (r *Rand) Bool() bool { return r.Uint64()&1 == 1 }

// Chance returns true with probability num/den.
func (r *Rand) Chance(num, den int) bool { return r.Intn(den) < num }

func (r *Rand) Bytes(n int) []byte {
	b := make([]byte, n)
	for i := range b {
		b[i] = byte(r.Uint64())
	}
	return b
}

// Pick returns one of xs.
func Pick[T any](r *Rand, xs []T) T { return xs[r.Intn(len(xs))] }

// Fork derives an independent generator (so that adding cases to one stream
// does not shift another).
func (r *Rand) Fork(label string) *Rand {
	h := sha256.Sum256([]byte(fmt.Sprintf("%d/%s", r.s, label)))
	var s uint64
	for i := 0; i < 8; i++ {
		s = s<<8 | uint64(h[i])
	}
	return NewRand(s)
}

// ---- S-expressions ----

type Sx interface{ sx(b *strings.Builder) }

type Atom string
type List []Sx

func (a Atom) sx(b *strings.Builder) { b.WriteString(string(a)) }
func (l List) sx(b *strings.Builder) {
	b.WriteByte('(')
	for i, x := range l {
		if i > 0 {
			b.WriteByte(' ')
		}
		x.sx(b)
	}
	b.WriteByte(')')
}

func Str(x Sx) string {
	var b strings.Builder
	x.sx(&b)
	return b.String()
}

func Int(i int) Sx     { return Atom(strconv.Itoa(i)) }
func I64(i int64) Sx   { return Atom(strconv.FormatInt(i, 10)) }
func U64(i uint64) Sx  { return Atom(strconv.FormatUint(i, 10)) }
func Hex(b []byte) Sx  { return Atom("x" + hex.EncodeToString(b)) }
func Bool(v bool) Sx {
	if v {
		return Atom("1")
	}
	return Atom("0")
}
func L(xs ...Sx) Sx { return List(xs) }
func Ints[T ~int | ~int16 | ~int32 | ~int64 | ~uint8 | ~uint16 | ~uint32 | ~uint64](xs []T) Sx {
	l := make(List, len(xs))
	for i, x := range xs {
		l[i] = I64(int64(x))
	}
	return l
}

// Line renders the top-level items of a case separated by spaces.
func Line(xs ...Sx) string {
	parts := make([]string, len(xs))
	for i, x := range xs {
		parts[i] = Str(x)
	}
	return strings.Join(parts, " ")
}

// ---- run record ----

type OracleFailure struct {
	Index  int    `json:"index"`
	Case   string `json:"case"`
	Detail string `json:"detail"`
	Sig    string `json:"signature"` // stable signature for known-findings matching
}

type Run struct {
	dir       string
	cases     *os.File
	impl      *os.File
	N         int
	seen      map[[32]byte]bool
	Distinct  int
	NonTriv   int
	Hist      map[string]int
	Samples   []string
	Failures  []OracleFailure
	Rule      string
	Extra     map[string]any
	maxSample int
}

func NewRun(dir string) (*Run, error) {
	if err := os.MkdirAll(dir, 0o755); err != nil {
		return nil, err
	}
	c, err := os.Create(filepath.Join(dir, "cases.txt"))
	if err != nil {
		return nil, err
	}
	i, err := os.Create(filepath.Join(dir, "impl.txt"))
	if err != nil {
		return nil, err
	}
	return &Run{dir: dir, cases: c, impl: i, seen: map[[32]byte]bool{}, Hist: map[string]int{},
		Extra: map[string]any{}, maxSample: 5}, nil
}

// Add records one case (the line given to the model), the implementation's
// observation in the model's output syntax, whether the case is non-trivial by
// the property's rule, and histogram labels.  It returns the case index.
func (r *Run) Add(caseLine, implLine string, nontrivial bool, labels ...string) int {
	idx := r.N
	r.N++
	fmt.Fprintln(r.cases, caseLine)
	fmt.Fprintln(r.impl, implLine)
	h := sha256.Sum256([]byte(caseLine))
	if !r.seen[h] {
		r.seen[h] = true
		r.Distinct++
		if nontrivial {
			r.NonTriv++
		}
	}
	for _, l := range labels {
		r.Hist[l]++
	}
	if len(r.Samples) < r.maxSample && nontrivial && len(caseLine) < 600 {
		r.Samples = append(r.Samples, caseLine+" => "+implLine)
	}
	return idx
}

func (r *Run) Fail(idx int, caseLine, detail, sig string) {
	if len(r.Failures) < 200 {
		if len(caseLine) > 20000 {
			caseLine = caseLine[:20000] + "...(truncated)"
		}
		r.Failures = append(r.Failures, OracleFailure{idx, caseLine, detail, sig})
	}
}

func (r *Run) Close() error {
	r.cases.Close()
	r.impl.Close()
	keys := make([]string, 0, len(r.Hist))
	for k := range r.Hist {
		keys = append(keys, k)
	}
	sort.Strings(keys)
	meta := map[string]any{
		"evaluations":         r.N,
		"distinct":            r.Distinct,
		"distinct_nontrivial": r.NonTriv,
		"rule":                r.Rule,
		"histogram":           r.Hist,
		"samples":             r.Samples,
		"oracle_failures":     r.Failures,
		"extra":               r.Extra,
	}
	b, err := json.MarshalIndent(meta, "", " ")
	if err != nil {
		return err
	}
	return os.WriteFile(filepath.Join(r.dir, "meta.json"), b, 0o644)
}

// Tier-dependent count helper.
func Count(tier string, quick, thorough int) int {
	if tier == "thorough" {
		return thorough
	}
	return quick
}
