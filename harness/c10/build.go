package c10

import (
	"fmt"
	"sort"
	"time"

	"golang.org/x/text/language"
	"seehuhn.de/go/geom/matrix"
	"seehuhn.de/go/postscript/cid"
	"seehuhn.de/go/postscript/funit"
	"seehuhn.de/go/postscript/type1"
	"seehuhn.de/go/sfnt"
	"seehuhn.de/go/sfnt/cff"
	"seehuhn.de/go/sfnt/cmap"
	"seehuhn.de/go/sfnt/glyf"
	"seehuhn.de/go/sfnt/glyph"
	"seehuhn.de/go/sfnt/maxp"
	"seehuhn.de/go/sfnt/opentype/coverage"
	"seehuhn.de/go/sfnt/opentype/gtab"
)

// ---- abstract font -> real font ----

func nameOf(id int) string {
	if id == 0 {
		return ".notdef"
	}
	return fmt.Sprintf("n%d", id)
}

func nameID(s string) int {
	if s == ".notdef" {
		return 0
	}
	var k int
	if _, err := fmt.Sscanf(s, "n%d", &k); err == nil && k > 0 && nameOf(k) == s {
		return k
	}
	return -1
}

// simpleGlyph stores the outline id in the first two x-coordinates of a
// three-point contour.
func simpleGlyph(o int) *glyf.Glyph {
	a, b := byte(o>>8), byte(o)
	enc := []byte{0, 2, 0, 0, 0x37, 0x37, 0x37, a, b, 1, 10, 5, 7}
	return &glyf.Glyph{
		Rect16: funit.Rect16{LLx: funit.Int16(a), LLy: 10, URx: funit.Int16(int(a) + int(b) + 1), URy: 22},
		Data:   glyf.SimpleGlyph{NumContours: 1, Encoded: enc},
	}
}

// compEncoding says how component i (of n) of the composite with outline id o
// is encoded.  The abstract font only knows the component glyph ids; flags,
// arguments, transformation and instructions are part of the opaque outline
// and are derived from the outline id, so that every kind of component record
// the format has occurs: byte and word arguments, offsets and point numbers,
// no / uniform / x-y / 2x2 transformation, USE_MY_METRICS, ROUND_XY_TO_GRID,
// OVERLAP_COMPOUND, (UN)SCALED_COMPONENT_OFFSET, WE_HAVE_INSTRUCTIONS.
// The first component always has word arguments holding the outline id.
func compEncoding(o, i, n int) (fl glyf.ComponentFlag, data []byte) {
	h := (o*7 + i*13) % 8
	if i == 0 {
		fl = glyf.FlagArgsAreXYValues | glyf.FlagArg1And2AreWords
		data = []byte{byte(o >> 8), byte(o), 0, byte(n)}
	} else {
		switch h {
		case 1:
			fl = glyf.FlagArgsAreXYValues | glyf.FlagArg1And2AreWords
			data = []byte{0, byte(i), 0xFF, byte(3 * i)}
		case 2:
			data = []byte{byte(i), byte(i + 1)} // point numbers
		case 3:
			fl = glyf.FlagArg1And2AreWords // point numbers as words
			data = []byte{0, byte(i), 0, byte(i + 1)}
		default:
			fl = glyf.FlagArgsAreXYValues
			data = []byte{byte(i), byte(3 * i)}
		}
	}
	switch h {
	case 4:
		fl |= glyf.FlagRoundXYToGrid
	case 5:
		fl |= glyf.FlagOverlapCompound
	case 6:
		fl |= glyf.FlagScaledComponentOffset
	case 7:
		fl |= glyf.FlagUnscaledComponentOffset | glyf.FlagRoundXYToGrid
	}
	switch (o/8 + i) % 4 {
	case 1:
		fl |= glyf.FlagWeHaveAScale
		data = append(data, 0x20, byte(o))
	case 2:
		fl |= glyf.FlagWeHaveAnXAndYScale
		data = append(data, 0x40, byte(i), 0x30, byte(o))
	case 3:
		fl |= glyf.FlagWeHaveATwoByTwo
		data = append(data, 0x40, 0, 0x10, byte(i), 0xF0, byte(o), 0x40, 0)
	}
	if compUseMyMetrics(o, i) {
		fl |= glyf.FlagUseMyMetrics
	}
	if i+1 < n {
		fl |= glyf.FlagMoreComponents
	} else if compInstructions(o) != nil {
		fl |= glyf.FlagWeHaveInstructions
	}
	return fl, data
}

func compUseMyMetrics(o, i int) bool { return (o+2*i)%3 == 0 }

// compInstructions: nil (no instructions), an empty or a non-empty program.
func compInstructions(o int) []byte {
	switch o % 5 {
	case 1:
		return []byte{0xB0, byte(o), 0x2D}
	case 3:
		return []byte{0xB1, byte(o >> 8), byte(o), 0x21}
	}
	return nil
}

// compositeGlyph stores the outline id in the (word) offsets of its first
// component.
func compositeGlyph(o int, comps []int) *glyf.Glyph {
	cc := make([]glyf.GlyphComponent, len(comps))
	for i, c := range comps {
		fl, data := compEncoding(o, i, len(comps))
		cc[i] = glyf.GlyphComponent{Flags: fl, GlyphIndex: glyph.ID(c), Data: data}
	}
	return &glyf.Glyph{
		Rect16: funit.Rect16{LLx: 0, LLy: 0, URx: funit.Int16(o & 0x3fff), URy: 30},
		Data:   glyf.CompositeGlyph{Components: cc, Instructions: compInstructions(o)},
	}
}

func cffGlyph(g Glyph) *cff.Glyph {
	res := cff.NewGlyph(nameOf(g.N), float64(g.W))
	if g.O != 0 {
		// the outline id sits in the first point (Type 2 operands are 16-bit)
		x, y := float64(g.O%30000), float64(g.O/30000)
		res.MoveTo(x, y)
		res.LineTo(x+10, y)
		res.LineTo(x+10, y+5)
	}
	return res
}

var und = language.MustParse("und-Zzzz")

func gsubInfo(d *Desc) *gtab.Info {
	if d.NoGsub {
		return nil
	}
	info := &gtab.Info{ScriptList: gtab.ScriptListInfo{}}
	feat := &gtab.Features{Required: 0xFFFF}
	for i, lk := range d.Gsub {
		t := &gtab.LookupTable{Meta: &gtab.LookupMetaInfo{LookupType: 1}}
		tag := "ss01"
		for _, s := range lk {
			switch s.Kind {
			case "s1":
				cov := coverage.Set{}
				for _, g := range s.Cov {
					cov[glyph.ID(g)] = true
				}
				t.Subtables = append(t.Subtables, &gtab.Gsub1_1{Cov: cov, Delta: glyph.ID(s.Delta)})
			case "s2":
				st := &gtab.Gsub1_2{Cov: coverage.Table{}}
				for i, e := range s.S2 {
					st.Cov[glyph.ID(e[0])] = i
					st.SubstituteGlyphIDs = append(st.SubstituteGlyphIDs, glyph.ID(e[1]))
				}
				t.Subtables = append(t.Subtables, st)
			case "mult", "alt":
				cov := coverage.Table{}
				var outs [][]glyph.ID
				for i, e := range s.Multi {
					cov[glyph.ID(e.G)] = i
					outs = append(outs, toGIDs(e.Outs))
				}
				if s.Kind == "mult" {
					t.Meta.LookupType = 2
					tag = "ccmp"
					t.Subtables = append(t.Subtables, &gtab.Gsub2_1{Cov: cov, Repl: outs})
				} else {
					t.Meta.LookupType = 3
					tag = "salt"
					t.Subtables = append(t.Subtables, &gtab.Gsub3_1{Cov: cov, Alternates: outs})
				}
			case "lig":
				t.Meta.LookupType = 4
				tag = "liga"
				st := &gtab.Gsub4_1{Cov: coverage.Table{}}
				for i, set := range s.Sets {
					st.Cov[glyph.ID(set.First)] = i
					var ligs []gtab.Ligature
					for _, lg := range set.Ligs {
						in := make([]glyph.ID, len(lg.In))
						for k, x := range lg.In {
							in[k] = glyph.ID(x)
						}
						ligs = append(ligs, gtab.Ligature{In: in, Out: glyph.ID(lg.Out)})
					}
					st.Repl = append(st.Repl, ligs)
				}
				t.Subtables = append(t.Subtables, st)
			}
		}
		info.LookupList = append(info.LookupList, t)
		info.FeatureList = append(info.FeatureList, &gtab.Feature{Tag: tag, Lookups: []gtab.LookupIndex{gtab.LookupIndex(i)}})
		feat.Optional = append(feat.Optional, gtab.FeatureIndex(i))
	}
	info.ScriptList[und] = feat
	return info
}

func gposInfo(d *Desc) *gtab.Info {
	if d.NoGpos {
		return nil
	}
	info := &gtab.Info{ScriptList: gtab.ScriptListInfo{}}
	feat := &gtab.Features{Required: 0xFFFF}
	for i, lk := range d.Gpos {
		t := &gtab.LookupTable{Meta: &gtab.LookupMetaInfo{LookupType: 2}}
		for _, st := range lk {
			sub := gtab.Gpos2_1{}
			for _, k := range st {
				sub[glyph.Pair{Left: glyph.ID(k.L), Right: glyph.ID(k.R)}] = &gtab.PairAdjust{
					First: &gtab.GposValueRecord{XAdvance: funit.Int16(k.V)},
				}
			}
			t.Subtables = append(t.Subtables, sub)
		}
		info.LookupList = append(info.LookupList, t)
		info.FeatureList = append(info.FeatureList, &gtab.Feature{Tag: "kern", Lookups: []gtab.LookupIndex{gtab.LookupIndex(i)}})
		feat.Optional = append(feat.Optional, gtab.FeatureIndex(i))
	}
	info.ScriptList[und] = feat
	return info
}

var fixedTime = time.Date(2020, 1, 2, 3, 4, 5, 0, time.UTC)

// Build constructs the real font described by d.
func Build(d *Desc) (*sfnt.Font, error) {
	f := &sfnt.Font{
		FamilyName:       "Verif",
		UnitsPerEm:       1000,
		FontMatrix:       matrix.Matrix{0.001, 0, 0, 0.001, 0, 0},
		Ascent:           800,
		Descent:          -200,
		CreationTime:     fixedTime,
		ModificationTime: fixedTime,
		IsRegular:        true,
	}
	switch d.Kind {
	case "glyf":
		o := &glyf.Outlines{Maxp: &maxp.TTFInfo{MaxComponentDepth: 8, MaxComponentElements: 8}}
		for _, g := range d.Glyphs {
			switch {
			case len(g.Comps) > 0 && g.O == 0:
				return nil, fmt.Errorf("outline id 0 is the blank glyph; it has no components")
			case len(g.Comps) > 0:
				o.Glyphs = append(o.Glyphs, compositeGlyph(g.O, g.Comps))
			case g.O == 0:
				o.Glyphs = append(o.Glyphs, nil)
			default:
				o.Glyphs = append(o.Glyphs, simpleGlyph(g.O))
			}
			o.Widths = append(o.Widths, funit.Int16(g.W))
			if !d.NoNames {
				o.Names = append(o.Names, nameOf(g.N))
			}
		}
		f.Outlines = o
	case "cff", "cid":
		o := &cff.Outlines{}
		for _, g := range d.Glyphs {
			o.Glyphs = append(o.Glyphs, cffGlyph(g))
		}
		for _, p := range d.Privs {
			o.Private = append(o.Private, &type1.PrivateDict{StdHW: float64(p), BlueScale: 0.039625, BlueShift: 7, BlueFuzz: 1})
		}
		fdsel := make([]int, len(d.Glyphs))
		for i, g := range d.Glyphs {
			fdsel[i] = g.FD
		}
		o.FDSelect = func(gid glyph.ID) int { return fdsel[gid] }
		if d.Kind == "cid" {
			o.ROS = &cid.SystemInfo{Registry: "Verif", Ordering: "C10", Supplement: 0}
			for _, g := range d.Glyphs {
				o.GIDToCID = append(o.GIDToCID, cid.CID(g.C))
			}
			for _, m := range d.Mats {
				o.FontMatrices = append(o.FontMatrices, matrix.Matrix{1, 0, 0, 1, float64(m), 0})
			}
		}
		if d.Enc != nil {
			for _, g := range d.Enc {
				o.Encoding = append(o.Encoding, glyph.ID(g))
			}
		}
		f.Outlines = o
	default:
		return nil, fmt.Errorf("unknown font kind %q", d.Kind)
	}
	if len(d.CMaps) > 0 {
		f.CMapTable = cmap.Table{}
		for _, c := range d.CMaps {
			var st cmap.Subtable
			var raw []byte
			switch c.Fmt {
			case 4:
				m := cmap.Format4{}
				for _, e := range c.M {
					m[uint16(e[0])] = glyph.ID(e[1])
				}
				st = m
			case 12:
				m := cmap.Format12{}
				for _, e := range c.M {
					m[uint32(e[0])] = glyph.ID(e[1])
				}
				st = m
			case 6:
				// trimmed table mapping: the codes lo..hi, glyph 0 in the gaps
				// (the library decodes format 6 into a cmap.Format4)
				if len(c.M) == 0 {
					raw = []byte{0, 6, 0, 10, 0, 0, 0, 0, 0, 0}
					break
				}
				lo, hi := c.M[0][0], c.M[len(c.M)-1][0]
				cnt := hi - lo + 1
				if lo < 0 || hi > 0xFFFF || cnt > 20000 {
					return nil, fmt.Errorf("cmap format 6: code range %d..%d", lo, hi)
				}
				L := 10 + 2*cnt
				raw = []byte{0, 6, byte(L >> 8), byte(L), 0, 0, byte(lo >> 8), byte(lo), byte(cnt >> 8), byte(cnt)}
				arr := make([]byte, 2*cnt)
				for _, e := range c.M {
					arr[2*(e[0]-lo)] = byte(e[1] >> 8)
					arr[2*(e[0]-lo)+1] = byte(e[1])
				}
				raw = append(raw, arr...)
			case 0:
				m := &cmap.Format0{}
				for _, e := range c.M {
					if e[0] < 0 || e[0] > 255 || e[1] < 0 || e[1] > 255 {
						return nil, fmt.Errorf("cmap format 0: entry %v", e)
					}
					m.Data[e[0]] = byte(e[1])
				}
				st = m
			case 2, 8, 10, 13, 14:
				// formats the library knows but does not decode; a stub
				raw = []byte{byte(c.Fmt >> 8), byte(c.Fmt), 0, 6, 0, 0}
			default:
				return nil, fmt.Errorf("unsupported cmap format %d", c.Fmt)
			}
			if raw == nil {
				raw = st.Encode(0)
			}
			f.CMapTable[cmap.Key{PlatformID: uint16(c.PID), EncodingID: uint16(c.EID)}] = raw
		}
	}
	f.Gsub = gsubInfo(d)
	f.Gpos = gposInfo(d)
	return f, nil
}

// ---- real font -> abstract font ----

func glyfOutlineID(g *glyf.Glyph) int {
	if g == nil {
		return 0
	}
	switch dd := g.Data.(type) {
	case glyf.SimpleGlyph:
		if len(dd.Encoded) >= 9 {
			return int(dd.Encoded[7])<<8 | int(dd.Encoded[8])
		}
	case glyf.CompositeGlyph:
		if len(dd.Components) > 0 && len(dd.Components[0].Data) >= 2 {
			return int(dd.Components[0].Data[0])<<8 | int(dd.Components[0].Data[1])
		}
	}
	return -1
}

func cffOutlineID(g *cff.Glyph) int {
	if g == nil {
		return -1
	}
	if len(g.Cmds) == 0 {
		return 0
	}
	if len(g.Cmds[0].Args) >= 2 {
		return int(g.Cmds[0].Args[0]) + 30000*int(g.Cmds[0].Args[1])
	}
	return -1
}

func projectGsub(info *gtab.Info) [][]GsubSub {
	if info == nil {
		return nil
	}
	var res [][]GsubSub
	for _, t := range info.LookupList {
		lk := []GsubSub{}
		if t != nil {
			for _, s := range t.Subtables {
				switch s := s.(type) {
				case *gtab.Gsub1_1:
					st := GsubSub{Kind: "s1", Delta: int(s.Delta)}
					for g := range s.Cov {
						st.Cov = append(st.Cov, int(g))
					}
					sort.Ints(st.Cov)
					lk = append(lk, st)
				case *gtab.Gsub1_2:
					st := GsubSub{Kind: "s2"}
					for g, idx := range s.Cov {
						to := -1
						if idx >= 0 && idx < len(s.SubstituteGlyphIDs) {
							to = int(s.SubstituteGlyphIDs[idx])
						}
						st.S2 = append(st.S2, [2]int{int(g), to})
					}
					sort.Slice(st.S2, func(a, b int) bool { return st.S2[a][0] < st.S2[b][0] })
					lk = append(lk, st)
				case *gtab.Gsub2_1:
					lk = append(lk, projectMulti("mult", s.Cov, s.Repl))
				case *gtab.Gsub3_1:
					lk = append(lk, projectMulti("alt", s.Cov, s.Alternates))
				case *gtab.Gsub4_1:
					st := GsubSub{Kind: "lig"}
					for g, idx := range s.Cov {
						set := LigSet{First: int(g)}
						if idx >= 0 && idx < len(s.Repl) {
							for _, lg := range s.Repl[idx] {
								in := make([]int, len(lg.In))
								for k, x := range lg.In {
									in[k] = int(x)
								}
								set.Ligs = append(set.Ligs, Lig{In: in, Out: int(lg.Out)})
							}
						}
						st.Sets = append(st.Sets, set)
					}
					sort.Slice(st.Sets, func(a, b int) bool { return st.Sets[a].First < st.Sets[b].First })
					lk = append(lk, st)
				default:
					lk = append(lk, GsubSub{Kind: "other"})
				}
			}
		}
		res = append(res, lk)
	}
	return res
}

func projectMulti(kind string, cov coverage.Table, outs [][]glyph.ID) GsubSub {
	st := GsubSub{Kind: kind}
	for g, idx := range cov {
		e := MultiEnt{G: int(g), Outs: []int{}}
		if idx >= 0 && idx < len(outs) {
			for _, x := range outs[idx] {
				e.Outs = append(e.Outs, int(x))
			}
		}
		st.Multi = append(st.Multi, e)
	}
	sort.Slice(st.Multi, func(a, b int) bool { return st.Multi[a].G < st.Multi[b].G })
	return st
}

func projectGpos(info *gtab.Info) [][][]Kern {
	if info == nil {
		return nil
	}
	var res [][][]Kern
	for _, t := range info.LookupList {
		lk := [][]Kern{}
		if t != nil {
			for _, s := range t.Subtables {
				st := []Kern{}
				if p, ok := s.(gtab.Gpos2_1); ok {
					for pair, adj := range p {
						v := -99999
						if adj != nil && adj.First != nil && adj.Second == nil {
							v = int(adj.First.XAdvance)
						}
						st = append(st, Kern{int(pair.Left), int(pair.Right), v})
					}
					sort.Slice(st, func(a, b int) bool {
						if st[a].L != st[b].L {
							return st[a].L < st[b].L
						}
						return st[a].R < st[b].R
					})
				} else {
					st = append(st, Kern{-1, -1, -1})
				}
				lk = append(lk, st)
			}
		}
		res = append(res, lk)
	}
	return res
}

// rawCMap decodes a cmap subtable without any translation of its codes.
func rawCMap(raw []byte) (st cmap.Subtable, err error) {
	defer func() {
		if e := recover(); e != nil {
			st, err = nil, fmt.Errorf("panic: %v", e)
		}
	}()
	if len(raw) < 2 {
		return nil, fmt.Errorf("short subtable")
	}
	k := cmap.Key{PlatformID: 0, EncodingID: 3}
	return cmap.Table{k: raw}.Get(k)
}

// Project maps a real font to the abstract font.  It never panics on the
// fonts Subset can return (nil glyph slices, FDSelect out of range, ...);
// anything unexpected becomes a negative id, which no model output contains.
func Project(f *sfnt.Font) (d *Desc) {
	d = &Desc{}
	switch o := f.Outlines.(type) {
	case *glyf.Outlines:
		d.Kind = "glyf"
		d.NoNames = o.Names == nil
		for i, g := range o.Glyphs {
			r := Glyph{O: glyfOutlineID(g), W: -1, N: 0}
			if i < len(o.Widths) {
				r.W = int(o.Widths[i])
			}
			if o.Names != nil {
				r.N = -1
				if i < len(o.Names) {
					r.N = nameID(o.Names[i])
				}
			}
			for _, c := range g.Components() {
				r.Comps = append(r.Comps, int(c))
			}
			d.Glyphs = append(d.Glyphs, r)
		}
	case *cff.Outlines:
		d.Kind = "cff"
		if o.ROS != nil {
			d.Kind = "cid"
		}
		for _, p := range o.Private {
			if p == nil {
				d.Privs = append(d.Privs, -1)
			} else {
				d.Privs = append(d.Privs, int(p.StdHW))
			}
		}
		for _, m := range o.FontMatrices {
			d.Mats = append(d.Mats, int(m[4]))
		}
		for i, g := range o.Glyphs {
			r := Glyph{O: cffOutlineID(g), W: -1, N: -1}
			if g != nil {
				r.W = int(g.Width)
				r.N = nameID(g.Name)
				if g.Name == "" && o.ROS != nil {
					r.N = 0 // the glyphs of a CID-keyed font have no names in the file
				}
			}
			if o.GIDToCID != nil {
				r.C = -1
				if i < len(o.GIDToCID) {
					r.C = int(o.GIDToCID[i])
				}
			}
			r.FD = func() (fd int) {
				defer func() {
					if recover() != nil {
						fd = -1
					}
				}()
				return o.FDSelect(glyph.ID(i))
			}()
			d.Glyphs = append(d.Glyphs, r)
		}
		if o.Encoding != nil {
			d.Enc = []int{}
			for _, g := range o.Encoding {
				d.Enc = append(d.Enc, int(g))
			}
		}
	default:
		d.Kind = "unknown"
	}
	var keys []cmap.Key
	for k := range f.CMapTable {
		keys = append(keys, k)
	}
	sort.Slice(keys, func(i, j int) bool {
		if keys[i].PlatformID != keys[j].PlatformID {
			return keys[i].PlatformID < keys[j].PlatformID
		}
		if keys[i].EncodingID != keys[j].EncodingID {
			return keys[i].EncodingID < keys[j].EncodingID
		}
		return keys[i].Language < keys[j].Language
	})
	for _, k := range keys {
		c := CMap{PID: int(k.PlatformID), EID: int(k.EncodingID), Fmt: -1, M: [][2]int{}}
		raw := f.CMapTable[k]
		if len(raw) >= 2 {
			c.Fmt = int(raw[0])<<8 | int(raw[1])
		}
		// the codes as they stand in the subtable (Table.Get translates the
		// codes of Macintosh subtables to Unicode)
		st, err := rawCMap(raw)
		if err == nil {
			switch m := st.(type) {
			case cmap.Format4:
				for code, g := range m {
					c.M = append(c.M, [2]int{int(code), int(g)})
				}
			case cmap.Format12:
				for code, g := range m {
					c.M = append(c.M, [2]int{int(code), int(g)})
				}
			case *cmap.Format0:
				for code, g := range m.Data {
					if g != 0 {
						c.M = append(c.M, [2]int{code, int(g)})
					}
				}
			default:
				c.Fmt = -1
			}
		}
		sort.Slice(c.M, func(a, b int) bool { return c.M[a][0] < c.M[b][0] })
		d.CMaps = append(d.CMaps, c)
	}
	d.NoGsub = f.Gsub == nil
	d.NoGpos = f.Gpos == nil
	d.Gsub = projectGsub(f.Gsub)
	d.Gpos = projectGpos(f.Gpos)
	return d
}
